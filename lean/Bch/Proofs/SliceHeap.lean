import Bch.Model.SliceHeap
/-!
Frame and content lemmas for the Go slice/heap semantics of `Bch/Model/SliceHeap.lean`, and the purity
(+ value refinement) of the codec buffer paths transcribed there.
-/
namespace Bch.Proofs.SliceHeap
open Bch Bch.Model Bch.Model.SliceHeap

/-! ## arrays -/

theorem length_writeAt (a : List UInt8) (pos : Nat) (xs : List UInt8) :
    (writeAt a pos xs).length = a.length := by
  induction xs generalizing a pos with
  | nil => rfl
  | cons x xs ih => simp [writeAt, ih]

theorem getElem?_writeAt (a : List UInt8) (pos : Nat) (xs : List UInt8) (i : Nat) :
    (writeAt a pos xs)[i]? =
      if pos ≤ i ∧ i < pos + xs.length ∧ i < a.length then xs[i - pos]? else a[i]? := by
  induction xs generalizing a pos with
  | nil => simp only [writeAt, List.length_nil, Nat.add_zero]; rw [if_neg (by omega)]
  | cons x xs ih =>
    simp only [writeAt]
    rw [ih]
    simp only [List.length_set, List.length_cons, List.getElem?_set]
    by_cases h1 : pos = i
    · subst h1
      by_cases h2 : pos < a.length
      · rw [if_neg (by omega), if_pos rfl, if_pos (by omega)]; simp [h2]
      · rw [if_neg (by omega), if_pos rfl, if_neg (by omega)]; simp at h2; simp [h2]
    · by_cases h2 : pos + 1 ≤ i ∧ i < pos + 1 + xs.length ∧ i < a.length
      · have h3 : pos ≤ i ∧ i < pos + (xs.length + 1) ∧ i < a.length := by omega
        rw [if_pos h2, if_pos h3]
        obtain ⟨k, hk⟩ : ∃ k, i - pos = k + 1 := ⟨i - pos - 1, by omega⟩
        rw [hk, List.getElem?_cons_succ]
        congr 1; omega
      · have h3 : ¬(pos ≤ i ∧ i < pos + (xs.length + 1) ∧ i < a.length) := by omega
        rw [if_neg h2, if_neg h3, if_neg h1]

theorem writeAt_nil (a : List UInt8) (pos : Nat) : writeAt a pos [] = a := rfl

/-! ## preservation of the pre-existing arrays -/

/-- every array of `h0` is still there, at the same index, with the same bytes -/
def Pres (h0 h : Heap) : Prop := ∀ (b : Nat) (a : List UInt8), h0[b]? = some a → h[b]? = some a

theorem Pres.refl (h : Heap) : Pres h h := fun _ _ e => e
theorem Pres.trans {h0 h1 h2 : Heap} (p : Pres h0 h1) (q : Pres h1 h2) : Pres h0 h2 :=
  fun b a e => q b a (p b a e)

theorem Pres.length_le {h0 h : Heap} (p : Pres h0 h) : h0.length ≤ h.length := by
  rcases Nat.lt_or_ge h.length h0.length with hlt | hge
  · have e : h0[h.length]? = some h0[h.length] := List.getElem?_eq_getElem hlt
    have := p _ _ e
    simp at this
  · exact hge

theorem Pres.arr_eq {h0 h : Heap} (p : Pres h0 h) {b : Nat} (hb : b < h0.length) :
    SliceHeap.arr h b = SliceHeap.arr h0 b := by
  have e : h0[b]? = some h0[b] := List.getElem?_eq_getElem hb
  unfold SliceHeap.arr; rw [List.getD_eq_getElem?_getD, List.getD_eq_getElem?_getD, p _ _ e, e]

/-- reading through a slice whose array existed before gives the same bytes -/
theorem Pres.read_lt {h0 h : Heap} (p : Pres h0 h) {s : Slice} (hb : s.buf < h0.length) :
    SliceHeap.read h s = SliceHeap.read h0 s := by
  simp [SliceHeap.read, p.arr_eq hb]

theorem pres_alloc (h : Heap) (a : List UInt8) : Pres h (h ++ [a]) := by
  intro b x e
  have hb : b < h.length := by
    rcases Nat.lt_or_ge b h.length with hlt | hge
    · exact hlt
    · simp [List.getElem?_eq_none hge] at e
  rw [List.getElem?_append_left hb]; exact e

/-- the slice lies inside its backing array (true of every slice a Go program can hold) -/
def WF (h : Heap) (s : Slice) : Prop := s.len ≤ s.cap ∧ s.off + s.cap ≤ (arr h s.buf).length

/-- the slice is nil/empty-capacity or lives in an array allocated after `h0` was taken -/
def Owned (h0 : Heap) (s : Slice) : Prop := s.cap = 0 ∨ h0.length ≤ s.buf

theorem wf_nil (h : Heap) : WF h Slice.nil := by simp [WF, Slice.nil]
theorem owned_nil (h0 : Heap) : Owned h0 Slice.nil := Or.inl rfl

theorem length_read {h : Heap} {s : Slice} (w : WF h s) : (read h s).length = s.len := by
  simp only [SliceHeap.read, List.length_take, List.length_drop]
  have := w.1; have := w.2; omega

theorem getElem?_read (h : Heap) (s : Slice) (i : Nat) :
    (read h s)[i]? = if i < s.len then (arr h s.buf)[s.off + i]? else none := by
  simp [SliceHeap.read, List.getElem?_take, List.getElem?_drop]

/-! ## `make` -/

theorem make_pres (h : Heap) (n c : Nat) : Pres h (make h n c).1 := pres_alloc h _

theorem make_wf (h : Heap) (c : Nat) : WF (make h 0 c).1 (make h 0 c).2 := by
  simp [WF, make, arr]

theorem make_owned {h0 h : Heap} (p : Pres h0 h) (n c : Nat) : Owned h0 (make h n c).2 :=
  Or.inr (by simpa [make] using p.length_le)

theorem make_read (h : Heap) (c : Nat) : read (make h 0 c).1 (make h 0 c).2 = [] := by
  simp [SliceHeap.read, make]

theorem make_len (h : Heap) (n c : Nat) : (make h n c).2.len = n := rfl
theorem make_cap (h : Heap) (n c : Nat) : (make h n c).2.cap = c := rfl

/-! ## `append` -/

theorem getElem?_modify' (h : Heap) (f : List UInt8 → List UInt8) (b i : Nat) :
    (h.modify b f)[i]? = if b = i then h[i]?.map f else h[i]? := by
  rw [List.getElem?_modify]; split <;> simp_all

/-- **Frame of `append`**: every pre-existing array keeps its index and length, and every byte outside the
spare-capacity window `[off+len, off+cap)` of the array of `s` keeps its value. -/
theorem append_frame (g : Nat → Nat) (h : Heap) (s : Slice) (xs : List UInt8) (b : Nat) (a : List UInt8)
    (hb : h[b]? = some a) :
    ∃ a', (append g h s xs).1[b]? = some a' ∧ a'.length = a.length ∧
      ∀ i, ¬(b = s.buf ∧ s.off + s.len ≤ i ∧ i < s.off + s.cap) → a'[i]? = a[i]? := by
  unfold append
  split
  · rename_i hfit
    simp only [getElem?_modify', hb]
    by_cases hsb : s.buf = b
    · subst hsb
      refine ⟨writeAt a (s.off + s.len) xs, by simp, length_writeAt _ _ _, ?_⟩
      intro i hi
      rw [getElem?_writeAt, if_neg]
      omega
    · exact ⟨a, by simp [hsb], rfl, fun _ _ => rfl⟩
  · exact ⟨a, pres_alloc h _ b a hb, rfl, fun _ _ => rfl⟩

/-- when `append` has to allocate, no existing array changes at all -/
theorem append_alloc_pres (g : Nat → Nat) (h : Heap) (s : Slice) (xs : List UInt8)
    (hfit : ¬ s.len + xs.length ≤ s.cap) : Pres h (append g h s xs).1 := by
  unfold append; rw [if_neg hfit]; exact pres_alloc h _

/-- appending through an owned slice preserves all arrays of `h0` -/
theorem append_pres (g : Nat → Nat) {h0 h : Heap} (p : Pres h0 h) {s : Slice} (o : Owned h0 s)
    (xs : List UInt8) : Pres h0 (append g h s xs).1 := by
  intro b a e
  have hb := p b a e
  have hlt : b < h0.length := by
    rcases Nat.lt_or_ge b h0.length with hlt | hge
    · exact hlt
    · simp [List.getElem?_eq_none hge] at e
  unfold append
  split
  · rename_i hfit
    simp only [getElem?_modify', hb]
    by_cases hsb : s.buf = b
    · rcases o with o | o
      · have : xs = [] := List.eq_nil_of_length_eq_zero (by omega)
        subst this; simp [writeAt_nil]
      · omega
    · simp [hsb]
  · exact pres_alloc h _ b a hb

theorem append_owned (g : Nat → Nat) {h0 h : Heap} (p : Pres h0 h) {s : Slice} (o : Owned h0 s)
    (xs : List UInt8) : Owned h0 (append g h s xs).2 := by
  unfold append
  split
  · exact o
  · exact Or.inr (by simpa using p.length_le)

theorem length_modify_arr (h : Heap) (s : Slice) (f : List UInt8 → List UInt8)
    (hf : ∀ a, (f a).length = a.length) (b : Nat) :
    (arr (h.modify s.buf f) b).length = (arr h b).length := by
  simp only [arr, List.getD_eq_getElem?_getD, getElem?_modify']
  split
  · cases h[b]? <;> simp [hf]
  · rfl

theorem append_wf (g : Nat → Nat) {h : Heap} {s : Slice} (w : WF h s) (xs : List UInt8) :
    WF (append g h s xs).1 (append g h s xs).2 := by
  unfold append
  split
  · rename_i hfit
    refine ⟨hfit, ?_⟩
    simp only []
    rw [length_modify_arr _ _ _ (fun a => length_writeAt a _ _)]
    exact w.2
  · have hl := length_read w
    simp [WF, arr, hl]; omega

/-- **Content of `append`**: the returned slice holds the old elements followed by `xs`. -/
theorem append_read (g : Nat → Nat) {h : Heap} {s : Slice} (w : WF h s) (xs : List UInt8) :
    read (append g h s xs).1 (append g h s xs).2 = read h s ++ xs := by
  have hl := length_read w
  unfold append
  split
  · rename_i hfit
    apply List.ext_getElem?
    intro i
    rw [getElem?_read, List.getElem?_append, hl, getElem?_read]
    simp only [arr, List.getD_eq_getElem?_getD, getElem?_modify', if_true]
    have hw := w.2
    simp only [arr, List.getD_eq_getElem?_getD] at hw
    cases hab : h[s.buf]? with
    | none =>
      simp [hab] at hw
      have : xs = [] := List.eq_nil_of_length_eq_zero (by omega)
      subst this
      simp
    | some a =>
      simp only [hab, Option.map_some, Option.getD_some] at hw ⊢
      rw [getElem?_writeAt]
      by_cases h1 : i < s.len
      · have : ¬(s.off + s.len ≤ s.off + i ∧ s.off + i < s.off + s.len + xs.length ∧ s.off + i < a.length) := by
          omega
        rw [if_neg this, if_pos h1, if_pos (by omega), if_pos h1]
      · rw [if_neg h1]
        by_cases h2 : i < s.len + xs.length
        · rw [if_pos h2, if_pos (by omega)]
          congr 1; omega
        · rw [if_neg h2]
          symm; apply List.getElem?_eq_none; omega
  · have e : read (h ++ [read h s ++ xs ++ List.replicate (g (s.len + xs.length)) 0])
        ⟨h.length, 0, s.len + xs.length, s.len + xs.length + g (s.len + xs.length)⟩
        = (read h s ++ xs ++ List.replicate (g (s.len + xs.length)) 0).take (s.len + xs.length) := by
      simp [SliceHeap.read, arr]
    simp only []
    rw [e, List.append_assoc, ← List.append_assoc, List.take_append_of_le_length (by simp [hl])]
    exact List.take_of_length_le (by simp [hl])

theorem append_len (g : Nat → Nat) (h : Heap) (s : Slice) (xs : List UInt8) :
    (append g h s xs).2.len = s.len + xs.length := by
  unfold append; split <;> rfl

/-- bundle: everything `append` through an owned well-formed slice guarantees -/
structure Step (h0 : Heap) (h : Heap) (s : Slice) : Prop where
  pres : Pres h0 h
  wf : WF h s
  owned : Owned h0 s

theorem Step.append (g : Nat → Nat) {h0 h : Heap} {s : Slice} (st : Step h0 h s) (xs : List UInt8) :
    Step h0 (append g h s xs).1 (append g h s xs).2 :=
  ⟨append_pres g st.pres st.owned xs, append_wf g st.wf xs, append_owned g st.pres st.owned xs⟩

theorem Step.nil {h0 h : Heap} (p : Pres h0 h) : Step h0 h Slice.nil := ⟨p, wf_nil h, owned_nil h0⟩

theorem Step.make {h0 h : Heap} (p : Pres h0 h) (c : Nat) : Step h0 (make h 0 c).1 (make h 0 c).2 :=
  ⟨p.trans (make_pres h 0 c), make_wf h c, make_owned p 0 c⟩

/-! ## `appendEach` -/

theorem appendEach_step (g : Nat → Nat) {h0 h : Heap} {s : Slice} (st : Step h0 h s) (xs : List UInt8) :
    Step h0 (appendEach g h s xs).1 (appendEach g h s xs).2 ∧
      read (appendEach g h s xs).1 (appendEach g h s xs).2 = read h s ++ xs := by
  induction xs generalizing h s with
  | nil => simp [appendEach, st]
  | cons x xs ih =>
    simp only [appendEach]
    have := ih (st.append g [x])
    refine ⟨this.1, ?_⟩
    rw [this.2, append_read g st.wf]; simp

theorem read_nil (h : Heap) : read h Slice.nil = [] := by simp [SliceHeap.read, Slice.nil]

/-- a well-formed slice of `h0` reads the same in every heap that preserves `h0` -/
theorem Pres.read_wf {h0 h : Heap} (p : Pres h0 h) {s : Slice} (w : WF h0 s) :
    SliceHeap.read h s = SliceHeap.read h0 s := by
  rcases Nat.lt_or_ge s.buf h0.length with hlt | hge
  · exact p.read_lt hlt
  · have : SliceHeap.arr h0 s.buf = [] := by
      simp [SliceHeap.arr, List.getD_eq_getElem?_getD, List.getElem?_eq_none hge]
    have h2 := w.2; have h1 := w.1
    rw [this] at h2
    have : s.len = 0 := by simp at h2; omega
    simp [SliceHeap.read, this]

theorem Pres.wf {h0 h : Heap} (p : Pres h0 h) {s : Slice} (w : WF h0 s) (hc : 0 < s.cap) : WF h s := by
  have hlt : s.buf < h0.length := by
    rcases Nat.lt_or_ge s.buf h0.length with hlt | hge
    · exact hlt
    · have : SliceHeap.arr h0 s.buf = [] := by
        simp [SliceHeap.arr, List.getD_eq_getElem?_getD, List.getElem?_eq_none hge]
      have h2 := w.2
      rw [this] at h2; simp at h2; omega
  exact ⟨w.1, by rw [p.arr_eq hlt]; exact w.2⟩

/-! ## in-place swap and reversal -/

theorem arr_modify_self (h : Heap) (b : Nat) (f : List UInt8 → List UInt8) (hb : b < h.length) :
    SliceHeap.arr (h.modify b f) b = f (SliceHeap.arr h b) := by
  simp [SliceHeap.arr, List.getD_eq_getElem?_getD, List.getElem?_eq_getElem hb]

theorem buf_lt_of_wf {h : Heap} {s : Slice} (w : WF h s) (hc : 0 < s.cap) : s.buf < h.length := by
  rcases Nat.lt_or_ge s.buf h.length with hlt | hge
  · exact hlt
  · have : SliceHeap.arr h s.buf = [] := by
      simp [SliceHeap.arr, List.getD_eq_getElem?_getD, List.getElem?_eq_none hge]
    have h2 := w.2
    rw [this] at h2; simp at h2; omega

theorem swap_pres {h0 h : Heap} (p : Pres h0 h) {s : Slice} (o : Owned h0 s) (w : WF h s)
    (i j : Nat) (hi : i < s.len) : Pres h0 (swap h s i j) := by
  intro b a e
  have hb := p b a e
  have hlt : b < h0.length := by
    rcases Nat.lt_or_ge b h0.length with hlt | hge
    · exact hlt
    · simp [List.getElem?_eq_none hge] at e
  have : s.buf ≠ b := by
    rcases o with o | o
    · have := w.1; omega
    · omega
  simp [swap, this, hb]

theorem swap_wf {h : Heap} {s : Slice} (w : WF h s) (i j : Nat) : WF (swap h s i j) s := by
  refine ⟨w.1, ?_⟩
  unfold swap
  simp only []
  rw [length_modify_arr _ _ _ (fun a => by simp)]
  exact w.2

theorem swap_read {h : Heap} {s : Slice} (w : WF h s) (i j : Nat) (hi : i < s.len) (hj : j < s.len)
    (m : Nat) :
    (read (swap h s i j) s)[m]? =
      if m = j then (read h s)[i]? else if m = i then (read h s)[j]? else (read h s)[m]? := by
  have hb := buf_lt_of_wf w (by have := w.1; omega)
  have hl := length_read w
  have w1 := w.1; have w2 := w.2
  have gi : (read h s).getD i 0 = (SliceHeap.arr h s.buf)[s.off + i]'(by omega) := by
    rw [List.getD_eq_getElem?_getD, getElem?_read, if_pos hi, List.getElem?_eq_getElem (by omega)]; rfl
  have gj : (read h s).getD j 0 = (SliceHeap.arr h s.buf)[s.off + j]'(by omega) := by
    rw [List.getD_eq_getElem?_getD, getElem?_read, if_pos hj, List.getElem?_eq_getElem (by omega)]; rfl
  rw [getElem?_read]
  unfold swap
  simp only []
  rw [arr_modify_self _ _ _ hb, gi, gj]
  simp only [getElem?_read, if_pos hi, if_pos hj, List.getElem?_set, List.length_set]
  by_cases hm : m < s.len
  · simp only [if_pos hm]
    by_cases h1 : m = j
    · subst h1
      rw [if_pos rfl, if_pos (by omega)]; simp
    · by_cases h2 : m = i
      · subst h2
        rw [if_neg (by omega), if_neg h1, if_pos rfl, if_pos (by omega), if_pos rfl]
        simp
      · rw [if_neg (by omega), if_neg (by omega), if_neg h1, if_neg h2]
  · simp only [if_neg hm]
    rw [if_neg (by omega), if_neg (by omega)]

/-- state after `k` iterations of the reversal loop -/
def revK (h : Heap) (s : Slice) (k : Nat) : Heap :=
  (List.range k).foldl (fun h i => swap h s i (s.len - 1 - i)) h

theorem revK_succ (h : Heap) (s : Slice) (k : Nat) :
    revK h s (k + 1) = swap (revK h s k) s k (s.len - 1 - k) := by
  simp [revK, List.range_succ, List.foldl_append]

theorem revK_inv {h0 h : Heap} (p : Pres h0 h) {s : Slice} (o : Owned h0 s) (w : WF h s)
    (k : Nat) (hk : k ≤ s.len / 2) :
    Pres h0 (revK h s k) ∧ WF (revK h s k) s ∧
      ∀ m, (read (revK h s k) s)[m]? =
        if m < k ∨ (s.len - k ≤ m ∧ m < s.len) then (read h s)[s.len - 1 - m]? else (read h s)[m]? := by
  induction k with
  | zero =>
    refine ⟨p, w, fun m => ?_⟩
    rw [if_neg (by omega)]; rfl
  | succ k ih =>
    obtain ⟨ip, iw, ir⟩ := ih (by omega)
    rw [revK_succ]
    refine ⟨swap_pres ip o iw _ _ (by omega), swap_wf iw _ _, fun m => ?_⟩
    rw [swap_read iw _ _ (by omega) (by omega), ir, ir, ir]
    by_cases h1 : m = s.len - 1 - k
    · subst h1
      rw [if_pos rfl, if_neg (by omega), if_pos (by omega)]
      congr 1; omega
    · by_cases h2 : m = k
      · subst h2
        rw [if_neg h1, if_pos rfl, if_neg (by omega), if_pos (by omega)]
      · rw [if_neg h1, if_neg h2]
        by_cases h3 : m < k ∨ (s.len - k ≤ m ∧ m < s.len)
        · rw [if_pos h3, if_pos (by omega)]
        · rw [if_neg h3, if_neg (by omega)]

theorem reverseLoop_spec {h0 h : Heap} (p : Pres h0 h) {s : Slice} (o : Owned h0 s) (w : WF h s) :
    Pres h0 (reverseLoop h s) ∧ WF (reverseLoop h s) s ∧
      read (reverseLoop h s) s = (read h s).reverse := by
  obtain ⟨ip, iw, ir⟩ := revK_inv p o w (s.len / 2) (Nat.le_refl _)
  refine ⟨ip, iw, ?_⟩
  have hl := length_read w
  have hl' := length_read iw
  apply List.ext_getElem?
  intro m
  show (read (revK h s (s.len / 2)) s)[m]? = _
  rw [ir]
  by_cases hm : m < s.len
  · rw [List.getElem?_reverse (by omega), hl]
    by_cases h3 : m < s.len / 2 ∨ (s.len - s.len / 2 ≤ m ∧ m < s.len)
    · rw [if_pos h3]
    · rw [if_neg h3]; congr 1; omega
  · rw [if_neg (by omega), List.getElem?_eq_none (by omega), List.getElem?_eq_none (by simp; omega)]

/-! ## bech32 -/

theorem checksumBuf_spec (g : Nat → Nat) {h0 h : Heap} (p : Pres h0 h) (hrp : Bytes) (data : Slice) :
    Step h0 (checksumBuf g h hrp data).1 (checksumBuf g h hrp data).2 ∧
      read (checksumBuf g h hrp data).1 (checksumBuf g h hrp data).2 = Bech32.checksum hrp (read h data) := by
  have := appendEach_step g (Step.nil p) (Bech32.checksum hrp (read h data))
  simpa [checksumBuf, read_nil] using this

theorem toCharsGo_spec (g : Nat → Nat) {h0 h : Heap} {res : Slice} (st : Step h0 h res) (xs : List UInt8) :
    Pres h0 (toCharsGo g h res xs).1 ∧
      (toCharsGo g h res xs).2.map (read (toCharsGo g h res xs).1) =
        (Bech32.toChars xs).map (read h res ++ ·) := by
  induction xs generalizing h res with
  | nil => simp [toCharsGo, Bech32.toChars, st.pres]
  | cons x xs ih =>
    simp only [toCharsGo, Bech32.toChars]
    split
    · exact ⟨st.pres, rfl⟩
    · have := ih (st.append g [Bech32.charset.getD x.toNat 0])
      refine ⟨this.1, ?_⟩
      rw [this.2, append_read g st.wf]
      cases Bech32.toChars xs <;> simp

theorem toCharsBuf_spec (g : Nat → Nat) {h0 h : Heap} (p : Pres h0 h) (data : Slice) :
    Pres h0 (toCharsBuf g h data).1 ∧
      (toCharsBuf g h data).2.map (read (toCharsBuf g h data).1) = Bech32.toChars (read h data) := by
  have := toCharsGo_spec g (Step.make p data.len) (read h data)
  unfold toCharsBuf
  refine ⟨this.1, ?_⟩
  simp only []
  rw [this.2, make_read]
  cases Bech32.toChars (read h data) <;> simp

/-- purity and value refinement of the repaired `bech32.Encode` -/
theorem encodeFixed_spec (g : Nat → Nat) (h : Heap) (hrp : Bytes) (data : Slice) :
    Pres h (EncodeFixed g h hrp data).1 ∧
    (WF h data →
      read (EncodeFixed g h hrp data).1 (EncodeFixed g h hrp data).2.1
        = read h data ++ Bech32.checksum hrp (read h data) ∧
      (EncodeFixed g h hrp data).2.2.map (fun r => hrp ++ [49] ++ read (EncodeFixed g h hrp data).1 r)
        = Bech32.Encode hrp (read h data)) := by
  obtain ⟨cst, cr⟩ := checksumBuf_spec g (Pres.refl h) hrp data
  generalize hc : checksumBuf g h hrp data = c at cst cr
  have mst := Step.make cst.pres (data.len + c.2.len)
  generalize hm : make c.1 0 (data.len + c.2.len) = m at mst
  have mr : read m.1 m.2 = [] := by rw [← hm]; exact make_read _ _
  have a1st := mst.append g (read m.1 data)
  have a1r := append_read g mst.wf (read m.1 data)
  generalize ha1 : append g m.1 m.2 (read m.1 data) = a1 at a1st a1r
  have a2st := a1st.append g (read a1.1 c.2)
  have a2r := append_read g a1st.wf (read a1.1 c.2)
  generalize ha2 : append g a1.1 a1.2 (read a1.1 c.2) = a2 at a2st a2r
  obtain ⟨tp, tr⟩ := toCharsBuf_spec g (Pres.refl a2.1) a2.2
  have e : EncodeFixed g h hrp data = ((toCharsBuf g a2.1 a2.2).1, a2.2, (toCharsBuf g a2.1 a2.2).2) := by
    simp only [EncodeFixed, hc, hm, ha1, ha2]
  rw [e]
  refine ⟨a2st.pres.trans tp, fun w => ?_⟩
  have pca1 : Pres c.1 a1.1 := by
    rw [← ha1, ← hm]; exact ((Step.make (Pres.refl c.1) _).append g _).pres
  have d1 : read m.1 data = read h data := (mst.pres).read_wf w
  have c1 : read a1.1 c.2 = read c.1 c.2 := pca1.read_wf cst.wf
  have comb : read a2.1 a2.2 = read h data ++ Bech32.checksum hrp (read h data) := by
    rw [a2r, a1r, mr, d1, c1, cr]; rfl
  have comb' : read (toCharsBuf g a2.1 a2.2).1 a2.2 = read a2.1 a2.2 := tp.read_wf a2st.wf
  refine ⟨by simp only []; rw [comb', comb], ?_⟩
  simp only []
  have := congrArg (Option.map (fun cs => hrp ++ [49] ++ cs)) tr
  rw [Option.map_map] at this
  rw [Bech32.Encode, ← comb]
  exact this

/-- what the pre-fix `bech32.Encode` does to the caller's array when the checksum fits into the spare
capacity: it stores the checksum behind the slice -/
theorem encodeAliasing_arr (g : Nat → Nat) (h : Heap) (hrp : Bytes) (data : Slice) (w : WF h data)
    (hcap : data.len + 6 ≤ data.cap) :
    SliceHeap.arr (EncodeAliasing g h hrp data).1 data.buf
      = writeAt (SliceHeap.arr h data.buf) (data.off + data.len) (Bech32.checksum hrp (read h data)) := by
  obtain ⟨cst, cr⟩ := checksumBuf_spec g (Pres.refl h) hrp data
  have hb := buf_lt_of_wf w (by omega)
  have hlen : (Bech32.checksum hrp (read h data)).length = 6 := by simp [Bech32.checksum]
  unfold EncodeAliasing
  simp only []
  generalize checksumBuf g h hrp data = c at cst cr
  have hbc : data.buf < c.1.length := Nat.lt_of_lt_of_le hb cst.pres.length_le
  have tp := (toCharsBuf_spec g (Pres.refl (append g c.1 data (read c.1 c.2)).1)
    (append g c.1 data (read c.1 c.2)).2).1
  have hfit : data.len + (read c.1 c.2).length ≤ data.cap := by rw [cr, hlen]; exact hcap
  have ea : (append g c.1 data (read c.1 c.2)).1
      = c.1.modify data.buf (fun a => writeAt a (data.off + data.len) (read c.1 c.2)) := by
    unfold append; rw [if_pos hfit]
  rw [tp.arr_eq (by rw [ea, List.length_modify]; exact hbc), ea, arr_modify_self _ _ _ hbc,
    cst.pres.arr_eq hb, cr]

/-! ## ConvertBits -/

/-- the value-level loop state seen through the heap -/
def view (st : CBH) : Bech32.CB := ⟨read st.h st.out, st.nextByte, st.filled⟩

theorem cbInnerH_spec (g : Nat → Nat) (toBits : Nat) {h0 : Heap} :
    ∀ (fuel rem : Nat) (b : UInt8) (st : CBH), Step h0 st.h st.out →
      Step h0 (cbInnerH g toBits fuel rem b st).h (cbInnerH g toBits fuel rem b st).out ∧
      view (cbInnerH g toBits fuel rem b st) = Bech32.cbInner toBits fuel rem b (view st)
  | 0, _, _, _, s => ⟨s, rfl⟩
  | fuel+1, rem, b, st, s => by
    have key : ∀ ex : Nat,
        Step h0
          (cbInnerH g toBits fuel (rem - ex) (b <<< UInt8.ofNat ex)
            (if st.filled + ex = toBits then
              ⟨(append g st.h st.out [st.nextByte <<< UInt8.ofNat ex ||| b >>> UInt8.ofNat (8 - ex)]).1,
               (append g st.h st.out [st.nextByte <<< UInt8.ofNat ex ||| b >>> UInt8.ofNat (8 - ex)]).2, 0, 0⟩
             else ⟨st.h, st.out, st.nextByte <<< UInt8.ofNat ex ||| b >>> UInt8.ofNat (8 - ex), st.filled + ex⟩)).h
          (cbInnerH g toBits fuel (rem - ex) (b <<< UInt8.ofNat ex)
            (if st.filled + ex = toBits then
              ⟨(append g st.h st.out [st.nextByte <<< UInt8.ofNat ex ||| b >>> UInt8.ofNat (8 - ex)]).1,
               (append g st.h st.out [st.nextByte <<< UInt8.ofNat ex ||| b >>> UInt8.ofNat (8 - ex)]).2, 0, 0⟩
             else ⟨st.h, st.out, st.nextByte <<< UInt8.ofNat ex ||| b >>> UInt8.ofNat (8 - ex), st.filled + ex⟩)).out ∧
        view (cbInnerH g toBits fuel (rem - ex) (b <<< UInt8.ofNat ex)
            (if st.filled + ex = toBits then
              ⟨(append g st.h st.out [st.nextByte <<< UInt8.ofNat ex ||| b >>> UInt8.ofNat (8 - ex)]).1,
               (append g st.h st.out [st.nextByte <<< UInt8.ofNat ex ||| b >>> UInt8.ofNat (8 - ex)]).2, 0, 0⟩
             else ⟨st.h, st.out, st.nextByte <<< UInt8.ofNat ex ||| b >>> UInt8.ofNat (8 - ex), st.filled + ex⟩)) =
          Bech32.cbInner toBits fuel (rem - ex) (b <<< UInt8.ofNat ex)
            (if st.filled + ex = toBits then
              ⟨read st.h st.out ++ [st.nextByte <<< UInt8.ofNat ex ||| b >>> UInt8.ofNat (8 - ex)], 0, 0⟩
             else ⟨read st.h st.out, st.nextByte <<< UInt8.ofNat ex ||| b >>> UInt8.ofNat (8 - ex), st.filled + ex⟩) := by
      intro ex
      by_cases hfull : st.filled + ex = toBits
      · rw [if_pos hfull, if_pos hfull]
        have s' := s.append g [st.nextByte <<< UInt8.ofNat ex ||| b >>> UInt8.ofNat (8 - ex)]
        have := cbInnerH_spec g toBits fuel (rem - ex) (b <<< UInt8.ofNat ex) ⟨_, _, 0, 0⟩ s'
        refine ⟨this.1, ?_⟩
        rw [this.2]
        simp only [view, append_read g s.wf]
      · rw [if_neg hfull, if_neg hfull]
        exact cbInnerH_spec g toBits fuel (rem - ex) (b <<< UInt8.ofNat ex)
          ⟨st.h, st.out, st.nextByte <<< UInt8.ofNat ex ||| b >>> UInt8.ofNat (8 - ex), st.filled + ex⟩ s
    simp only [cbInnerH, Bech32.cbInner]
    by_cases hr : rem = 0
    · rw [if_pos hr, if_pos hr]; exact ⟨s, rfl⟩
    · rw [if_neg hr, if_neg hr]
      exact key _

theorem cbFold_spec (g : Nat → Nat) (fromBits toBits : Nat) {h0 : Heap} (xs : List UInt8) (st : CBH)
    (s : Step h0 st.h st.out) :
    let r := xs.foldl (fun st b => cbInnerH g toBits 8 fromBits (b <<< UInt8.ofNat (8 - fromBits)) st) st
    Step h0 r.h r.out ∧
      view r = xs.foldl (fun st b => Bech32.cbInner toBits 8 fromBits (b <<< UInt8.ofNat (8 - fromBits)) st) (view st) := by
  induction xs generalizing st with
  | nil => exact ⟨s, rfl⟩
  | cons x xs ih =>
    simp only [List.foldl_cons]
    have h1 := cbInnerH_spec g toBits 8 fromBits (x <<< UInt8.ofNat (8 - fromBits)) st s
    have h2 := ih _ h1.1
    simp only [] at h2
    rw [h1.2] at h2
    exact h2

/-- purity and value refinement of `ConvertBits` -/
theorem convertBitsH_spec (g : Nat → Nat) (h : Heap) (data : Slice) (fromBits toBits : Nat) (pad : Bool) :
    Pres h (ConvertBitsH g h data fromBits toBits pad).1 ∧
      (match (ConvertBitsH g h data fromBits toBits pad).2 with
        | .ok out => Except.ok (read (ConvertBitsH g h data fromBits toBits pad).1 out)
        | .error e => Except.error e) = Bech32.ConvertBits (read h data) fromBits toBits pad := by
  unfold ConvertBitsH Bech32.ConvertBits
  by_cases hg : fromBits < 1 ∨ fromBits > 8 ∨ toBits < 1 ∨ toBits > 8
  · rw [if_pos hg, if_pos hg]; exact ⟨Pres.refl h, rfl⟩
  · rw [if_neg hg, if_neg hg]
    have f := cbFold_spec g fromBits toBits (read h data) ⟨h, Slice.nil, 0, 0⟩ (Step.nil (Pres.refl h))
    simp only [] at f
    have v0 : view ⟨h, Slice.nil, 0, 0⟩ = ⟨[], 0, 0⟩ := by simp [view, read_nil]
    rw [v0] at f
    generalize (read h data).foldl
      (fun st b => cbInnerH g toBits 8 fromBits (b <<< UInt8.ofNat (8 - fromBits)) st) ⟨h, Slice.nil, 0, 0⟩ = stH at f
    generalize (read h data).foldl
      (fun st b => Bech32.cbInner toBits 8 fromBits (b <<< UInt8.ofNat (8 - fromBits)) st) ⟨[], 0, 0⟩ = stM at f
    obtain ⟨fs, fv⟩ := f
    obtain ⟨o, nb, fl⟩ := stM
    simp only [view, Bech32.CB.mk.injEq] at fv
    obtain ⟨ho, hn, hf⟩ := fv
    simp only []
    rw [hn, hf]
    by_cases hp : pad = true ∧ fl > 0
    · simp only [if_pos hp]
      have hz : ¬((0:Nat) > 0 ∧ ((0:Nat) > 4 ∨ (0:UInt8) ≠ 0)) := by omega
      simp only [if_neg hz]
      exact ⟨(fs.append g _).pres, by simp only [append_read g fs.wf, ho]⟩
    · simp only [if_neg hp, hn, hf]
      by_cases hq : fl > 0 ∧ (fl > 4 ∨ nb ≠ 0)
      · simp only [if_pos hq]; exact ⟨fs.pres, trivial⟩
      · simp only [if_neg hq, ho]; exact ⟨fs.pres, trivial⟩

/-! ## Base58 / Base58Check -/

/-- purity and value refinement of `base58.Encode`'s buffer handling -/
theorem base58EncodeBuf_spec (g : Nat → Nat) {h0 h : Heap} (p : Pres h0 h) (b : Slice) :
    Pres h0 (Base58EncodeBuf g h b).1 ∧
      read (Base58EncodeBuf g h b).1 (Base58EncodeBuf g h b).2 = Base58.Encode (read h b) := by
  unfold Base58EncodeBuf
  simp only []
  have mst := Step.make p (b.len * 136 / 100)
  have mr := make_read h (b.len * 136 / 100)
  generalize make h 0 (b.len * 136 / 100) = m at mst mr
  obtain ⟨a1st, a1r⟩ := appendEach_step g mst
    ((Base58.digitsLE (Bytes.toNatBE (read h b))).map Base58.alphaAt)
  generalize appendEach g m.1 m.2 ((Base58.digitsLE (Bytes.toNatBE (read h b))).map Base58.alphaAt) = a1
    at a1st a1r
  obtain ⟨a2st, a2r⟩ := appendEach_step g a1st (List.replicate (Base58.leadingZeros (read h b)) 49)
  generalize appendEach g a1.1 a1.2 (List.replicate (Base58.leadingZeros (read h b)) 49) = a2 at a2st a2r
  obtain ⟨rp, _, rr⟩ := reverseLoop_spec a2st.pres a2st.owned a2st.wf
  refine ⟨rp, ?_⟩
  rw [rr, a2r, a1r, mr]
  simp [Base58.Encode]

/-- purity and value refinement of `CheckEncode` -/
theorem checkEncodeBuf_spec (H : Bytes → Bytes) (g : Nat → Nat) (h : Heap) (input : Slice) (version : UInt8) :
    Pres h (CheckEncodeBuf H g h input version).1 ∧
    (WF h input →
      read (CheckEncodeBuf H g h input version).1 (CheckEncodeBuf H g h input version).2.1
        = version :: read h input ++ Base58.checksum H (version :: read h input) ∧
      read (CheckEncodeBuf H g h input version).1 (CheckEncodeBuf H g h input version).2.2
        = Base58.CheckEncode H (read h input) version) := by
  have mst := Step.make (Pres.refl h) (1 + input.len + 4)
  have mr := make_read h (1 + input.len + 4)
  generalize hm : make h 0 (1 + input.len + 4) = m at mst mr
  have a1st := mst.append g [version]
  have a1r := append_read g mst.wf [version]
  generalize ha1 : append g m.1 m.2 [version] = a1 at a1st a1r
  have a2st := a1st.append g (read a1.1 input)
  have a2r := append_read g a1st.wf (read a1.1 input)
  generalize ha2 : append g a1.1 a1.2 (read a1.1 input) = a2 at a2st a2r
  have a3st := a2st.append g (Base58.checksum H (read a2.1 a2.2))
  have a3r := append_read g a2st.wf (Base58.checksum H (read a2.1 a2.2))
  generalize ha3 : append g a2.1 a2.2 (Base58.checksum H (read a2.1 a2.2)) = a3 at a3st a3r
  obtain ⟨ep, er⟩ := base58EncodeBuf_spec g a3st.pres a3.2
  have e : CheckEncodeBuf H g h input version =
      ((Base58EncodeBuf g a3.1 a3.2).1, a3.2, (Base58EncodeBuf g a3.1 a3.2).2) := by
    simp only [CheckEncodeBuf, hm, ha1, ha2, ha3]
  rw [e]
  refine ⟨ep, fun w => ?_⟩
  have i1 : read a1.1 input = read h input := a1st.pres.read_wf w
  have r2 : read a2.1 a2.2 = version :: read h input := by rw [a2r, a1r, mr, i1]; rfl
  have r3 : read a3.1 a3.2 = version :: read h input ++ Base58.checksum H (version :: read h input) := by
    rw [a3r, r2]
  have ep' : Pres a3.1 (Base58EncodeBuf g a3.1 a3.2).1 := (base58EncodeBuf_spec g (Pres.refl a3.1) a3.2).1
  refine ⟨?_, ?_⟩
  · simp only []; rw [ep'.read_wf a3st.wf, r3]
  · simp only []; rw [er, r3]; rfl

end Bch.Proofs.SliceHeap
