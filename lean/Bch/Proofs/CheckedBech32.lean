import Bch.Model.Bech32
import Bch.Proofs.Bech32
import Bch.Proofs.Bech32ConvertBits
import Bch.Proofs.Checked
/-
Fault-tracking layer for C08, part 2: the bech32 package (/repo/bech32/bech32.go).

Same conventions as `Bch/Proofs/Checked.lean` (whose primitives `idx?`, `slice?`, `set?`, `make?` and
`Except` plumbing are used): every Go index expression, slice expression and `make` is a checked primitive
returning `Except Fault`, cited with its line of bech32.go; `for i := 0; i < n; i++` loops carry a
structural `fuel = n - i`, `for _, b := range data` loops are structural recursion on the list.

* `strings.IndexByte` / `strings.LastIndexByte` return a Go `int` (`-1` = absent): `indexByte`,
  `lastIndexByte` below return that `Int`, and the `index < 0`, `one < 1`, `one+7 > len` tests and the
  slice bounds `bech[:one]`, `bech[one+1:]` are evaluated on it.
* Go `int` values of the checksum arithmetic are `Nat` as in the model (`chk < 2^30`, no overflow); shifts
  of an `int` by a `uint` count cannot panic.
* `ConvertBits` works on `uint8`: all its arithmetic (`toBits - filledBits`, `8 - toExtract`, …) is done
  in `UInt8` with wrap-around, and shifts are Go shifts (`goShl`, `goShr`: a count ≥ 8 gives 0, unlike
  Lean's `<<<` on `UInt8`, which reduces the count mod 8). It contains no index, slice or division: what
  can go wrong is the inner loop `for remFromBits > 0` not terminating and `regrouped` growing without
  bound. The loop therefore runs on a step budget (`fuel`), running out of it is reported as a fault
  (`outOfFuel`, as for `zipAdvanceG` in Checked.lean) and a ghost counter records the iterations.

Sections: 1 helpers of `Decode`/`Encode`, 2 `Encode`, 3 `Decode`, 4 `ConvertBits`.
-/
set_option linter.unusedSectionVars false
set_option linter.unusedVariables false

namespace Bch.Proofs.CheckedBech32
open Bch Bch.Model Bch.Model.Bech32 Bch.Proofs.Checked

/-! ## 1. helpers: `toBytes`, `toChars`, `bech32HrpExpand`, `bech32Polymod`, checksums -/
section Bech32Helpers

/-- `strings.IndexByte(s, c)` as a Go `int`: first position, `-1` if absent -/
def indexByte (s : Bytes) (c : UInt8) : Int :=
  if s.idxOf c < s.length then (s.idxOf c : Int) else -1

/-- `strings.LastIndexByte(s, c)` as a Go `int`: last position, `-1` if absent -/
def lastIndexByte (s : Bytes) (c : UInt8) : Int :=
  match lastIndexOf c s with
  | some k => (k : Int)
  | none => -1

/-- `toBytes` (bech32.go:105-116), the loop; `fuel = len(chars) - i`; `none` = "invalid character" -/
def toBytesLoopC (chars : Bytes) : (fuel i : Nat) → Bytes → Except Fault (Option Bytes)
  | 0, _, decoded => pure (some decoded)
  | fuel+1, i, decoded => do
    let c ← idx? chars i                                 -- bech32.go:108  chars[i]
    let index := indexByte charset c                     -- bech32.go:108  strings.IndexByte(charset, …)
    if index < 0 then do                                 -- bech32.go:109
      let _ ← idx? chars i                               -- bech32.go:111  chars[i] (in the message)
      pure none
    else toBytesLoopC chars fuel (i+1) (decoded ++ [UInt8.ofNat index.toNat])  -- bech32.go:113  byte(index)

def toBytesC (chars : Bytes) : Except Fault (Option Bytes) := do
  let _ ← make? (chars.length : Int) (0 : UInt8)         -- bech32.go:106  make([]byte, 0, len(chars))
  toBytesLoopC chars chars.length 0 []

/-- `toChars` (bech32.go:120-129), the `range` loop. `guard = false`: without the
`int(b) >= len(charset)` test. `none` = "invalid data byte" -/
def toCharsLoopG (guard : Bool) : Bytes → Bytes → Except Fault (Option Bytes)
  | [], result => pure (some result)
  | b :: rest, result =>
    if guard && decide (b.toNat ≥ charset.length) then pure none else do   -- bech32.go:123
    let ch ← idx? charset b.toNat                        -- bech32.go:126  charset[b]
    toCharsLoopG guard rest (result ++ [ch])

def toCharsG (guard : Bool) (data : Bytes) : Except Fault (Option Bytes) := do
  let _ ← make? (data.length : Int) (0 : UInt8)          -- bech32.go:121  make([]byte, 0, len(data))
  toCharsLoopG guard data []

def toCharsC := toCharsG true

/-- `integers := make([]int, len(data)); for i, b := range data { integers[i] = int(b) }`
(bech32.go:204-207 and 248-251), the loop -/
def intsLoopC : Bytes → Nat → List Nat → Except Fault (List Nat)
  | [], _, ints => pure ints
  | b :: rest, i, ints => do
    let ints ← set? ints i b.toNat                       -- bech32.go:206/250  integers[i] = int(b)
    intsLoopC rest (i+1) ints

def intsC (data : Bytes) : Except Fault (List Nat) := do
  let ints ← make? (data.length : Int) (0 : Nat)         -- bech32.go:204/248  make([]int, len(data))
  intsLoopC data 0 ints

/-- `bech32HrpExpand`, first loop (bech32.go:236-238); `fuel = len(hrp) - i` -/
def hrpHiLoopC (hrp : Bytes) : (fuel i : Nat) → List Nat → Except Fault (List Nat)
  | 0, _, v => pure v
  | fuel+1, i, v => do
    let c ← idx? hrp i                                   -- bech32.go:237  hrp[i]
    hrpHiLoopC hrp fuel (i+1) (v ++ [(c >>> 5).toNat])   -- bech32.go:237  int(hrp[i]>>5)

/-- `bech32HrpExpand`, second loop (bech32.go:240-242) -/
def hrpLoLoopC (hrp : Bytes) : (fuel i : Nat) → List Nat → Except Fault (List Nat)
  | 0, _, v => pure v
  | fuel+1, i, v => do
    let c ← idx? hrp i                                   -- bech32.go:241  hrp[i]
    hrpLoLoopC hrp fuel (i+1) (v ++ [(c &&& 31).toNat])  -- bech32.go:241  int(hrp[i]&31)

def hrpExpandC (hrp : Bytes) : Except Fault (List Nat) := do
  let _ ← make? ((hrp.length : Int) * 2 + 1) (0 : Nat)   -- bech32.go:235  make([]int, 0, len(hrp)*2+1)
  let v ← hrpHiLoopC hrp hrp.length 0 []
  let v := v ++ [0]                                      -- bech32.go:239
  hrpLoLoopC hrp hrp.length 0 v

/-- inner loop of `bech32Polymod` (bech32.go:224-228); `fuel = 5 - i`. `gen` is a slice variable
(`var gen = []int{…}`), so `gen[i]` is a run-time check. -/
def polyInnerC (b : Nat) : (fuel i : Nat) → Nat → Except Fault Nat
  | 0, _, chk => pure chk
  | fuel+1, i, chk =>
    if (b >>> i) &&& 1 = 1 then do                       -- bech32.go:225  (b>>uint(i))&1 == 1
      let g ← idx? gen i                                 -- bech32.go:226  gen[i]
      polyInnerC b fuel (i+1) (chk ^^^ g)
    else polyInnerC b fuel (i+1) chk

/-- outer loop of `bech32Polymod` (bech32.go:221-229) -/
def polymodLoopC : List Nat → Nat → Except Fault Nat
  | [], chk => pure chk
  | v :: vs, chk => do
    let b := chk >>> 25                                  -- bech32.go:222
    let chk := ((chk &&& 0x1ffffff) <<< 5) ^^^ v         -- bech32.go:223
    let chk ← polyInnerC b 5 0 chk
    polymodLoopC vs chk

def polymodC (values : List Nat) : Except Fault Nat := polymodLoopC values 1   -- bech32.go:220

/-- `bech32VerifyChecksum` (bech32.go:247-254) -/
def verifyChecksumC (hrp data : Bytes) : Except Fault Bool := do
  let integers ← intsC data
  let hx ← hrpExpandC hrp
  let concat := hx ++ integers                           -- bech32.go:252
  let pm ← polymodC concat
  pure (decide (pm = 1))                                 -- bech32.go:253

/-- `bech32Checksum` (bech32.go:201-216); the last loop (`i < 6`, shift counts `5*(5-i) ≥ 0`) has no
checked operation -/
def checksumC (hrp data : Bytes) : Except Fault Bytes := do
  let integers ← intsC data
  let hx ← hrpExpandC hrp
  let values := hx ++ integers                           -- bech32.go:208
  let values := values ++ [0, 0, 0, 0, 0, 0]             -- bech32.go:209
  let pm ← polymodC values
  let polymod := pm ^^^ 1                                -- bech32.go:210
  pure ((List.range 6).map fun i => UInt8.ofNat ((polymod >>> (5 * (5 - i))) &&& 31))  -- bech32.go:212-214

/-! ### the helpers compute the model's functions -/

theorem toBytesLoopC_eq (chars : Bytes) : ∀ (fuel i : Nat) (acc : Bytes), i + fuel = chars.length →
    toBytesLoopC chars fuel i acc = .ok ((toBytes (chars.drop i)).map (acc ++ ·)) := by
  intro fuel
  induction fuel with
  | zero =>
    intro i acc h
    have : chars.drop i = [] := List.drop_eq_nil_of_le (by omega)
    simp [toBytesLoopC, this, toBytes]
  | succ fuel ih =>
    intro i acc h
    have hi : i < chars.length := by omega
    rw [List.drop_eq_getElem_cons hi]
    simp only [toBytesLoopC, idx?_ok hi, ok_bind, toBytes, indexByte, Bech32.charset_length]
    generalize chars[i] = c
    by_cases hc : charset.idxOf c < 32
    · have h0 : ¬ ((charset.idxOf c : Nat) : Int) < 0 := by omega
      simp only [hc, if_true, h0, if_false, Int.toNat_natCast]
      rw [ih (i+1) _ (by omega)]
      cases toBytes (chars.drop (i+1)) <;> simp
    · simp [hc]

theorem toBytesC_eq (chars : Bytes) : toBytesC chars = .ok (toBytes chars) := by
  unfold toBytesC
  rw [make?_ok (by omega), ok_bind, toBytesLoopC_eq chars _ 0 [] (by omega), List.drop_zero]
  cases toBytes chars <;> simp

theorem toCharsLoopC_eq : ∀ (data acc : Bytes),
    toCharsLoopG true data acc = .ok ((toChars data).map (acc ++ ·)) := by
  intro data
  induction data with
  | nil => intro acc; simp [toCharsLoopG, toChars]
  | cons b rest ih =>
    intro acc
    simp only [toCharsLoopG, toChars, Bool.true_and, decide_eq_true_eq, Bech32.charset_length]
    by_cases hb : b.toNat ≥ 32
    · simp [hb]
    · have hl : b.toNat < charset.length := by rw [Bech32.charset_length]; omega
      simp only [hb, if_false, idx?_ok_getD hl 0, ok_bind]
      rw [ih]
      cases toChars rest <;> simp

theorem toCharsC_eq (data : Bytes) : toCharsC data = .ok (toChars data) := by
  unfold toCharsC toCharsG
  rw [make?_ok (by omega), ok_bind, toCharsLoopC_eq]
  cases toChars data <;> simp

/-- NEGATIVE: without the `int(b) >= len(charset)` test `charset[b]` faults on the byte 32 -/
theorem toCharsG_false_witness : toCharsG false [32] = .error .indexOOB := by decide +kernel

theorem intsLoopC_eq : ∀ (rest : Bytes) (i : Nat) (ints : List Nat), i + rest.length ≤ ints.length →
    intsLoopC rest i ints = .ok (ints.take i ++ rest.map (·.toNat) ++ ints.drop (i + rest.length)) := by
  intro rest
  induction rest with
  | nil => intro i ints _; simp [intsLoopC]
  | cons b rest ih =>
    intro i ints h
    simp only [List.length_cons] at h
    simp only [intsLoopC, set?_ok (show i < ints.length by omega), ok_bind]
    rw [ih (i+1) _ (by simp; omega)]
    have e1 : (ints.set i b.toNat).take (i+1) = ints.take i ++ [b.toNat] := by
      rw [List.take_set, List.take_succ_eq_append_getElem (by omega), List.set_append_right _ _ (by simp; omega)]
      simp [show min i ints.length = i by omega]
    have e2 : (ints.set i b.toNat).drop (i + 1 + rest.length) = ints.drop (i + (rest.length + 1)) := by
      rw [List.drop_set_of_lt (by omega)]; congr 1; omega
    rw [e1, e2]
    simp

theorem intsC_eq (data : Bytes) : intsC data = .ok (data.map (·.toNat)) := by
  unfold intsC
  rw [make?_ok (by omega), ok_bind, intsLoopC_eq data 0 _ (by simp)]
  simp

theorem hrpHiLoopC_eq (hrp : Bytes) : ∀ (fuel i : Nat) (acc : List Nat), i + fuel ≤ hrp.length →
    hrpHiLoopC hrp fuel i acc
      = .ok (acc ++ ((hrp.drop i).take fuel).map (fun (c : UInt8) => c.toNat >>> 5)) := by
  intro fuel
  induction fuel with
  | zero => intro i acc _; simp [hrpHiLoopC]
  | succ fuel ih =>
    intro i acc h
    have hi : i < hrp.length := by omega
    simp only [hrpHiLoopC, idx?_ok hi, ok_bind]
    rw [ih (i+1) _ (by omega)]
    conv => rhs; rw [List.drop_eq_getElem_cons hi]
    simp only [List.take_succ_cons, List.map_cons, List.append_assoc, List.singleton_append,
      UInt8.toNat_shiftRight]
    rfl

theorem hrpLoLoopC_eq (hrp : Bytes) : ∀ (fuel i : Nat) (acc : List Nat), i + fuel ≤ hrp.length →
    hrpLoLoopC hrp fuel i acc
      = .ok (acc ++ ((hrp.drop i).take fuel).map (fun (c : UInt8) => c.toNat &&& 31)) := by
  intro fuel
  induction fuel with
  | zero => intro i acc _; simp [hrpLoLoopC]
  | succ fuel ih =>
    intro i acc h
    have hi : i < hrp.length := by omega
    simp only [hrpLoLoopC, idx?_ok hi, ok_bind]
    rw [ih (i+1) _ (by omega)]
    conv => rhs; rw [List.drop_eq_getElem_cons hi]
    simp only [List.take_succ_cons, List.map_cons, List.append_assoc, List.singleton_append,
      UInt8.toNat_and]
    rfl

theorem hrpExpandC_eq (hrp : Bytes) : hrpExpandC hrp = .ok (hrpExpand hrp) := by
  unfold hrpExpandC hrpExpand
  rw [make?_ok (by omega), ok_bind, hrpHiLoopC_eq hrp _ 0 [] (by omega), ok_bind,
    hrpLoLoopC_eq hrp _ 0 _ (by omega)]
  simp

theorem gen_length : gen.length = 5 := rfl

theorem polyInnerC_eq (b : Nat) : ∀ (fuel i chk : Nat), i + fuel ≤ 5 →
    polyInnerC b fuel i chk = .ok ((List.range' i fuel).foldl
      (fun c i => if (b >>> i) &&& 1 = 1 then c ^^^ gen.getD i 0 else c) chk) := by
  intro fuel
  induction fuel with
  | zero => intro i chk _; simp [polyInnerC]
  | succ fuel ih =>
    intro i chk h
    have hi : i < gen.length := by rw [gen_length]; omega
    simp only [polyInnerC, List.range'_succ, List.foldl_cons]
    by_cases hb : (b >>> i) &&& 1 = 1
    · simp only [hb, if_true, idx?_ok_getD hi 0, ok_bind]
      exact ih (i+1) _ (by omega)
    · simp only [hb, if_false]
      exact ih (i+1) _ (by omega)

theorem polymodLoopC_eq : ∀ (values : List Nat) (chk : Nat),
    polymodLoopC values chk = .ok (values.foldl polymodStep chk) := by
  intro values
  induction values with
  | nil => intro chk; simp [polymodLoopC]
  | cons v vs ih =>
    intro chk
    simp only [polymodLoopC, List.foldl_cons]
    rw [polyInnerC_eq _ 5 0 _ (by omega), ok_bind, ih]
    simp only [polymodStep, List.range_eq_range']

theorem polymodC_eq (values : List Nat) : polymodC values = .ok (polymod values) :=
  polymodLoopC_eq values 1

theorem verifyChecksumC_eq (hrp data : Bytes) : verifyChecksumC hrp data = .ok (verifyChecksum hrp data) := by
  unfold verifyChecksumC verifyChecksum
  rw [intsC_eq, ok_bind, hrpExpandC_eq, ok_bind]
  simp only [polymodC_eq, ok_bind]
  rfl

theorem checksumC_eq (hrp data : Bytes) : checksumC hrp data = .ok (checksum hrp data) := by
  unfold checksumC checksum
  rw [intsC_eq, ok_bind, hrpExpandC_eq, ok_bind]
  simp only [polymodC_eq, ok_bind]
  rfl

end Bech32Helpers

/-! ## 2. `Encode` (bech32.go:85-101) -/
section EncodeS

/-- `guard = false`: `toChars` without its `int(b) >= len(charset)` test. `none` = the "unable to convert
data bytes" error -/
def EncodeG (guard : Bool) (hrp data : Bytes) : Except Fault (Option Bytes) := do
  let checksum ← checksumC hrp data                      -- bech32.go:87
  let _ ← make? ((data.length : Int) + (checksum.length : Int)) (0 : UInt8)  -- bech32.go:88  make([]byte, 0, len(data)+len(checksum))
  let combined := data ++ checksum                       -- bech32.go:89-90
  match ← toCharsG guard combined with                   -- bech32.go:95
  | none => pure none
  | some dataChars => pure (some (hrp ++ [49] ++ dataChars))   -- bech32.go:100

def EncodeC := EncodeG true

theorem EncodeC_eq_model (hrp data : Bytes) : EncodeC hrp data = .ok (Encode hrp data) := by
  unfold EncodeC EncodeG Encode
  rw [checksumC_eq, ok_bind, make?_ok (by omega), ok_bind]
  have := toCharsC_eq (data ++ checksum hrp data)
  unfold toCharsC at this
  simp only [this, ok_bind]
  cases toChars (data ++ checksum hrp data) <;> rfl

theorem EncodeC_no_fault (hrp data : Bytes) : ∃ r, EncodeC hrp data = .ok r :=
  ⟨_, EncodeC_eq_model hrp data⟩

/-- NEGATIVE: without the range test in `toChars`, a data byte ≥ 32 makes `charset[b]` fault -/
theorem EncodeG_false_witness : EncodeG false [97] [32] = .error .indexOOB := by decide +kernel

end EncodeS

/-! ## 3. `Decode` (bech32.go:18-80) -/
section DecodeS

/-- the character loop (bech32.go:27-32); `fuel = len(bech) - i`; `true` = "invalid character" -/
def charLoopC (bech : Bytes) : (fuel i : Nat) → Except Fault Bool
  | 0, _ => pure false
  | fuel+1, i => do
    let c ← idx? bech i                                  -- bech32.go:28  bech[i] < 33
    let c' ← idx? bech i                                 -- bech32.go:28  bech[i] > 126
    if c < 33 ∨ c' > 126 then do
      let _ ← idx? bech i                                -- bech32.go:30  bech[i] (in the message)
      pure true
    else charLoopC bech fuel (i+1)

/-- `Decode`. `gLen = false`: without the `len(bech) < 8 || len(bech) > 90` test; `gSep = false`: without
the `one < 1 || one+7 > len(bech)` test. The branch for a failed checksum (bech32.go:67-75) computes the
expected checksum for the error message: its slices are checked too although the model only returns the
error. -/
def DecodeG (gLen gSep : Bool) (bech : Bytes) : Except Fault (Except Err (Bytes × Bytes)) := do
  if gLen && decide (bech.length < 8 ∨ bech.length > 90) then pure (.error .length) else do   -- bech32.go:22
  let bad ← charLoopC bech bech.length 0                 -- bech32.go:27-32
  if bad then pure (.error .char) else do
  let lower := bech.map toLower                          -- bech32.go:35  strings.ToLower
  let upper := bech.map toUpper                          -- bech32.go:36  strings.ToUpper
  if bech ≠ lower ∧ bech ≠ upper then pure (.error .mixedCase) else do   -- bech32.go:37
  let bech := lower                                      -- bech32.go:43
  let one := lastIndexByte bech 49                       -- bech32.go:49  strings.LastIndexByte(bech, '1')
  if gSep && decide (one < 1 ∨ one + 7 > (bech.length : Int)) then pure (.error .sep) else do   -- bech32.go:50
  let hrp ← slice? bech 0 one                            -- bech32.go:55  bech[:one]
  let data ← slice? bech (one + 1) bech.length           -- bech32.go:56  bech[one+1:]
  match ← toBytesC data with                             -- bech32.go:60
  | none => pure (.error .charset)
  | some decoded =>
    let good ← verifyChecksumC hrp decoded               -- bech32.go:66
    if !good then do
      let _checksum ← slice? bech ((bech.length : Int) - 6) bech.length   -- bech32.go:68  bech[len(bech)-6:]
      let body ← slice? decoded 0 ((decoded.length : Int) - 6)            -- bech32.go:70  decoded[:len(decoded)-6]
      let cs ← checksumC hrp body                        -- bech32.go:69
      let _expected ← toCharsC cs                        -- bech32.go:69
      pure (.error .checksum)
    else do
      let out ← slice? decoded 0 ((decoded.length : Int) - 6)             -- bech32.go:79  decoded[:len(decoded)-6]
      pure (.ok (hrp, out))

/-- the code as it is -/
def DecodeC (bech : Bytes) := DecodeG true true bech

theorem charLoopC_eq (bech : Bytes) : ∀ (fuel i : Nat), i + fuel = bech.length →
    charLoopC bech fuel i = .ok ((bech.drop i).any (fun c => c < 33 ∨ c > 126)) := by
  intro fuel
  induction fuel with
  | zero =>
    intro i h
    have : bech.drop i = [] := List.drop_eq_nil_of_le (by omega)
    simp [charLoopC, this]
  | succ fuel ih =>
    intro i h
    have hi : i < bech.length := by omega
    rw [List.drop_eq_getElem_cons hi]
    simp only [charLoopC, idx?_ok hi, ok_bind, List.any_cons]
    generalize bech[i] = c
    by_cases hc : c < 33 ∨ c > 126
    · simp [hc]
    · rw [if_neg hc, ih (i+1) (by omega)]
      simp [hc]

theorem DecodeC_eq_model (bech : Bytes) : DecodeC bech = .ok (Decode bech) := by
  rw [DecodeC, DecodeG, Bech32.Decode_eq]
  simp only [Bool.true_and, decide_eq_true_eq]
  by_cases hlen : bech.length < 8 ∨ bech.length > 90
  · rw [if_pos hlen, if_pos hlen]; rfl
  rw [if_neg hlen, if_neg hlen, charLoopC_eq bech _ 0 (by omega), ok_bind, List.drop_zero]
  by_cases hch : bech.any (fun c => c < 33 ∨ c > 126) = true
  · rw [if_pos hch, if_pos hch]; rfl
  rw [if_neg hch, if_neg hch]
  by_cases hmix : bech ≠ bech.map toLower ∧ bech ≠ bech.map toUpper
  · rw [if_pos hmix, if_pos hmix]; rfl
  rw [if_neg hmix, if_neg hmix]
  generalize bech.map toLower = lower
  unfold Bech32.decodeLower lastIndexByte
  cases lastIndexOf 49 lower with
  | none =>
    simp only
    rw [if_pos (by omega)]; rfl
  | some one =>
    simp only
    by_cases hsep : one < 1 ∨ one + 7 > lower.length
    · rw [if_pos (by omega), if_pos hsep]; rfl
    rw [if_neg (by omega), if_neg hsep]
    rw [slice?_nat 0 one (by omega) (by omega) (by omega) (by omega)]
    rw [slice?_nat (one + 1) lower.length (by omega) (by omega) (by omega) (by omega)]
    simp only [ok_bind, List.drop_zero, Nat.sub_zero]
    rw [List.take_of_length_le (l := List.drop _ _) (by simp), toBytesC_eq, ok_bind]
    cases htb : toBytes (List.drop (one + 1) lower) with
    | none => rfl
    | some decoded =>
      have hdl : decoded.length = lower.length - (one + 1) := by
        rw [(Bech32.toBytes_some _ _ htb).1]; simp
      simp only [verifyChecksumC_eq, ok_bind]
      have hs : slice? decoded 0 ((decoded.length : Int) - 6) = .ok (decoded.take (decoded.length - 6)) := by
        rw [slice?_nat 0 (decoded.length - 6) (by omega) (by omega) (by omega) (by omega)]
        simp
      cases verifyChecksum (List.take one lower) decoded with
      | false =>
        simp only [Bool.not_false, if_true]
        rw [slice?_nat (lower.length - 6) lower.length (by omega) (by omega) (by omega) (by omega), hs]
        simp only [ok_bind, checksumC_eq, toCharsC_eq]
        rfl
      | true =>
        simp only [Bool.not_true, Bool.false_eq_true, if_false, hs, ok_bind]
        rfl

theorem DecodeC_no_fault (bech : Bytes) : ∃ r, DecodeC bech = .ok r := ⟨_, DecodeC_eq_model bech⟩

/-! ### the guards matter -/

/-- NEGATIVE, general: a string without separator that passes the first three tests (length, printable,
single case) makes `bech[:one]` fault with `one = -1` once the separator test is dropped. -/
theorem DecodeG_noSep_fault (gLen : Bool) (bech : Bytes) (hlen : 8 ≤ bech.length ∧ bech.length ≤ 90)
    (hch : bech.any (fun c => c < 33 ∨ c > 126) = false) (hlow : bech = bech.map toLower)
    (h1 : (49 : UInt8) ∉ bech) : DecodeG gLen false bech = .error .sliceOOB := by
  rw [DecodeG]
  have hl : ¬ (bech.length < 8 ∨ bech.length > 90) := by omega
  simp only [hl, decide_false, Bool.and_false, Bool.false_eq_true, if_false, Bool.false_and]
  rw [charLoopC_eq bech _ 0 (by omega), ok_bind, List.drop_zero, hch]
  simp only [Bool.false_eq_true, if_false]
  rw [if_neg (by intro h; exact h.1 hlow), ← hlow]
  unfold lastIndexByte
  rw [Bech32.lastIndexOf_none 49 bech h1]
  simp only
  rw [slice?_oob (by omega)]
  rfl

/-- NEGATIVE, concrete: "abcdefgh" (no separator) faults on `bech[:one]` without the separator test -/
theorem DecodeG_noSep_witness :
    DecodeG true false [97, 98, 99, 100, 101, 102, 103, 104] = .error .sliceOOB := by decide +kernel

/-- NEGATIVE, concrete: "abcdefg1" (separator in the last six characters, empty data part) faults on
`decoded[:len(decoded)-6]` without the separator test -/
theorem DecodeG_lateSep_witness :
    DecodeG true false [97, 98, 99, 100, 101, 102, 103, 49] = .error .sliceOOB := by decide +kernel

/-- NEGATIVE, concrete: without either test the empty string and "a1" fault -/
theorem DecodeG_noGuards_witness :
    DecodeG false false [] = .error .sliceOOB ∧ DecodeG false false [97, 49] = .error .sliceOOB := by
  decide +kernel

end DecodeS

/-! ## 4. `ConvertBits` (bech32.go:133-198)

No index, slice, division or `make`: shifts by an unsigned count never panic in Go. What untrusted widths
can do is keep the inner loop `for remFromBits > 0` from terminating (with `toBits = 0` nothing is ever
extracted, `remFromBits` stays put and every iteration appends a byte to `regrouped`): the guard at
bech32.go:134 is what prevents the hang and the unbounded allocation. -/
section ConvertBitsS
open Bch.Proofs.Bech32CB

/-- Running out of the step budget of a fuel-modelled Go loop. `Fault` has no constructor of its own for
it; as for `zipAdvanceG` in Checked.lean it is reported in the class `indexOOB`, so that a no-fault theorem
also proves that the budget suffices, i.e. that the loop terminates. `ConvertBits` contains no other
checked operation, so for it this is the *only* source of an `.error`. -/
abbrev outOfFuel : Fault := .indexOOB

/-- Go `x << n` on `uint8` with an unsigned count: 0 once `n ≥ 8` (Lean's `<<<` would reduce `n` mod 8) -/
def goShl (x n : UInt8) : UInt8 := if n.toNat < 8 then x <<< n else 0
/-- Go `x >> n` on `uint8` -/
def goShr (x n : UInt8) : UInt8 := if n.toNat < 8 then x >>> n else 0

/-- the loop variables `regrouped`, `nextByte`, `filledBits` (bech32.go:139-144) and a ghost counter of the
inner-loop iterations executed so far -/
structure CBC where
  regrouped : Bytes
  nextByte : UInt8
  filledBits : UInt8
  steps : Nat

/-- the inner loop `for remFromBits > 0 { … }` (bech32.go:153-181) on a budget of `fuel` iterations; all
arithmetic is `uint8` arithmetic -/
def cbInnerC (toBits : UInt8) : (fuel : Nat) → (remFromBits b : UInt8) → CBC → Except Fault CBC
  | 0, remFromBits, _, st => if remFromBits > 0 then .error outOfFuel else pure st
  | fuel+1, remFromBits, b, st =>
    if remFromBits > 0 then                                          -- bech32.go:153
      let remToBits := toBits - st.filledBits                        -- bech32.go:155
      let toExtract := if remToBits < remFromBits then remToBits else remFromBits   -- bech32.go:159-162
      let nextByte := goShl st.nextByte toExtract ||| goShr b (8 - toExtract)       -- bech32.go:166
      let b := goShl b toExtract                                     -- bech32.go:170
      let remFromBits := remFromBits - toExtract                     -- bech32.go:171
      let filledBits := st.filledBits + toExtract                    -- bech32.go:172
      let st : CBC :=
        if filledBits = toBits then ⟨st.regrouped ++ [nextByte], 0, 0, st.steps + 1⟩   -- bech32.go:176-180
        else ⟨st.regrouped, nextByte, filledBits, st.steps + 1⟩
      cbInnerC toBits fuel remFromBits b st
    else pure st

/-- the outer loop `for _, b := range data` (bech32.go:146-182); `fuel` is the budget of each run of the
inner loop -/
def cbOuterC (fuel : Nat) (fromBits toBits : UInt8) : Bytes → CBC → Except Fault CBC
  | [], st => pure st
  | b :: rest, st => do
    let b := goShl b (8 - fromBits)                                  -- bech32.go:149
    let st ← cbInnerC toBits fuel fromBits b st                      -- bech32.go:152-181
    cbOuterC fuel fromBits toBits rest st

/-- `ConvertBits`; returns the Go result and the total number of inner-loop iterations.
`guard = false`: without the width test of bech32.go:134. The Go parameters are `uint8`; like the model
this takes naturals (so the theorems also cover widths the Go type cannot express, which the guard rejects)
and continues with `uint8` values. -/
def ConvertBitsG (guard : Bool) (fuel : Nat) (data : Bytes) (fromBits toBits : Nat) (pad : Bool) :
    Except Fault (Except CBErr Bytes × Nat) := do
  if guard && decide (fromBits < 1 ∨ fromBits > 8 ∨ toBits < 1 ∨ toBits > 8) then     -- bech32.go:134
    pure (.error .groups, 0)
  else do
  let fromBits := UInt8.ofNat fromBits
  let toBits := UInt8.ofNat toBits
  let st ← cbOuterC fuel fromBits toBits data ⟨[], 0, 0, 0⟩          -- bech32.go:139-182
  let st : CBC :=
    if pad ∧ st.filledBits > 0 then                                  -- bech32.go:185-190
      ⟨st.regrouped ++ [goShl st.nextByte (toBits - st.filledBits)], 0, 0, st.steps⟩
    else st
  if st.filledBits > 0 ∧ (st.filledBits > 4 ∨ st.nextByte ≠ 0) then  -- bech32.go:193
    pure (.error .incomplete, st.steps)
  else pure (.ok st.regrouped, st.steps)                             -- bech32.go:197

/-- the code as it is, each run of the inner loop on a budget of 8 iterations: the result … -/
def ConvertBitsC (data : Bytes) (fromBits toBits : Nat) (pad : Bool) : Except Fault (Except CBErr Bytes) := do
  let r ← ConvertBitsG true 8 data fromBits toBits pad
  pure r.1

/-- … and the total number of inner-loop iterations of the same run -/
def ConvertBitsStepsC (data : Bytes) (fromBits toBits : Nat) (pad : Bool) : Except Fault Nat := do
  let r ← ConvertBitsG true 8 data fromBits toBits pad
  pure r.2

/-! ### one iteration of the inner loop -/

/-- the model's view of the loop variables -/
def CBC.abs (st : CBC) : CB := ⟨st.regrouped, st.nextByte, st.filledBits.toNat⟩

/-- what the `uint8` arithmetic and the Go shifts rely on: `filledBits < toBits`, and `nextByte = 0`
whenever no bit is pending (so that `nextByte << 8 = 0` agrees with the model's `<<< (8 % 8)`) -/
def Inv (toBits : UInt8) (st : CBC) : Prop :=
  st.filledBits.toNat < toBits.toNat ∧ (st.filledBits.toNat = 0 → st.nextByte = 0)

theorem gt_zero_iff (x : UInt8) : x > 0 ↔ 0 < x.toNat := by
  show (0 : UInt8) < x ↔ _
  rw [UInt8.lt_iff_toNat_lt]; rfl

theorem shl_eight (x : UInt8) : x <<< (8 : UInt8) = x := by
  apply UInt8.toNat_inj.mp; simp [UInt8.toNat_shiftLeft]

theorem cbInnerC_rem_zero (to : UInt8) (fuel : Nat) (rem b : UInt8) (st : CBC) (h : rem.toNat = 0) :
    cbInnerC to fuel rem b st = .ok st := by
  have : ¬ rem > 0 := by rw [gt_zero_iff]; omega
  cases fuel <;> simp [cbInnerC, this]

/-- the `uint8` computations of one iteration, in `Nat` -/
theorem step_arith (to filled rem : UInt8) (hf : filled.toNat < to.toNat) (hto8 : to.toNat ≤ 8)
    (hr1 : 1 ≤ rem.toNat) (hr8 : rem.toNat ≤ 8) :
    ∃ te : UInt8, (if to - filled < rem then to - filled else rem) = te ∧
      te.toNat = (if to.toNat - filled.toNat < rem.toNat then to.toNat - filled.toNat else rem.toNat) ∧
      (rem - te).toNat = rem.toNat - te.toNat ∧ (filled + te).toNat = filled.toNat + te.toNat ∧
      (8 - te).toNat = 8 - te.toNat := by
  have hsub : (to - filled).toNat = to.toNat - filled.toNat :=
    UInt8.toNat_sub_of_le _ _ (UInt8.le_iff_toNat_le.mpr (by omega))
  refine ⟨_, rfl, ?_⟩
  have hte : (if to - filled < rem then to - filled else rem).toNat
      = (if to.toNat - filled.toNat < rem.toNat then to.toNat - filled.toNat else rem.toNat) := by
    by_cases hc : to - filled < rem
    · have hc' : to.toNat - filled.toNat < rem.toNat := by
        rw [← hsub]; exact UInt8.lt_iff_toNat_lt.mp hc
      rw [if_pos hc, if_pos hc', hsub]
    · have hc' : ¬ to.toNat - filled.toNat < rem.toNat := by
        rw [← hsub]; exact fun h => hc (UInt8.lt_iff_toNat_lt.mpr h)
      rw [if_neg hc, if_neg hc']
  generalize (if to - filled < rem then to - filled else rem) = te at hte ⊢
  have hte8 : te.toNat ≤ 8 := by rw [hte]; split <;> omega
  have hter : te.toNat ≤ rem.toNat := by rw [hte]; split <;> omega
  have hteto : filled.toNat + te.toNat ≤ 8 := by rw [hte]; split <;> omega
  refine ⟨hte, ?_, ?_, ?_⟩
  · exact UInt8.toNat_sub_of_le _ _ (UInt8.le_iff_toNat_le.mpr hter)
  · rw [UInt8.toNat_add]; omega
  · exact UInt8.toNat_sub_of_le _ _ (UInt8.le_iff_toNat_le.mpr hte8)

/-- The inner loop, run from a state satisfying `Inv` with at most 8 bits left, ends in a state `st'` that
does not depend on the budget as long as the budget is at least the number of bits left; `st'` is the
model's state; it took at most one iteration per remaining bit, and every iteration but possibly the last
appended a byte. -/
theorem cbInnerC_sim (to : UInt8) (hto1 : 1 ≤ to.toNat) (hto8 : to.toNat ≤ 8) :
    ∀ (n : Nat) (rem b bM : UInt8) (st : CBC), rem.toNat ≤ n → rem.toNat ≤ 8 →
      (rem.toNat = 0 ∨ b = bM) → Inv to st →
      ∃ st', (∀ fuel, rem.toNat ≤ fuel → cbInnerC to fuel rem b st = .ok st') ∧
        (∀ fuelM, rem.toNat ≤ fuelM → st'.abs = cbInner to.toNat fuelM rem.toNat bM st.abs) ∧
        Inv to st' ∧ st'.steps ≤ st.steps + rem.toNat ∧
        st'.steps + st.regrouped.length ≤ st.steps + st'.regrouped.length + min rem.toNat 1 := by
  intro n
  induction n with
  | zero =>
    intro rem b bM st hn _ _ hI
    have h0 : rem.toNat = 0 := by omega
    exact ⟨st, fun fuel _ => cbInnerC_rem_zero to fuel rem b st h0,
      fun fuelM _ => by rw [h0, cbInner_rem_zero], hI, by omega, by omega⟩
  | succ n ih =>
    intro rem b bM st hn hr8 hb hI
    by_cases h0 : rem.toNat = 0
    · exact ⟨st, fun fuel _ => cbInnerC_rem_zero to fuel rem b st h0,
        fun fuelM _ => by rw [h0, cbInner_rem_zero], hI, by omega, by omega⟩
    have hbb : b = bM := by rcases hb with h | h; exact absurd h h0; exact h
    subst hbb
    obtain ⟨hf, hnb0⟩ := hI
    obtain ⟨te, hte_def, hte, hrem', hfil', h8te⟩ := step_arith to st.filledBits rem hf hto8 (by omega) hr8
    -- one iteration of the model's loop, as a function of its natural-number `toExtract`
    have hstep : ∀ fuelM, cbInner to.toNat (fuelM + 1) rem.toNat b st.abs =
        (fun ex => cbInner to.toNat fuelM (rem.toNat - ex) (b <<< UInt8.ofNat ex)
          (if st.filledBits.toNat + ex = to.toNat then
            ⟨st.regrouped ++ [st.nextByte <<< UInt8.ofNat ex ||| b >>> UInt8.ofNat (8 - ex)], 0, 0⟩
          else ⟨st.regrouped, st.nextByte <<< UInt8.ofNat ex ||| b >>> UInt8.ofNat (8 - ex),
            st.filledBits.toNat + ex⟩))
        (if to.toNat - st.filledBits.toNat < rem.toNat then to.toNat - st.filledBits.toNat else rem.toNat) := by
      intro fuelM; rw [cbInner_succ, if_neg h0]; rfl
    generalize hex : (if to.toNat - st.filledBits.toNat < rem.toNat then to.toNat - st.filledBits.toNat
      else rem.toNat) = ex at hte hstep
    simp only at hstep
    have hex1 : 1 ≤ ex := by subst hex; split <;> omega
    have hexr : ex ≤ rem.toNat := by subst hex; split <;> omega
    have hexto : st.filledBits.toNat + ex ≤ to.toNat := by subst hex; split <;> omega
    have hlast : st.filledBits.toNat + ex ≠ to.toNat → rem.toNat - ex = 0 := by subst hex; split <;> omega
    have hofNat : UInt8.ofNat ex = te := by rw [← hte]; exact UInt8.ofNat_toNat
    have hofNat8 : UInt8.ofNat (8 - ex) = 8 - te := by
      apply UInt8.toNat_inj.mp
      rw [h8te, hte, toNat_ofNat_small _ (by omega)]
    -- the two shifts that build `nextByte`
    have hshr : goShr b (8 - te) = b >>> UInt8.ofNat (8 - ex) := by
      rw [hofNat8, goShr, if_pos (by rw [h8te, hte]; omega)]
    have hshl : goShl st.nextByte te = st.nextByte <<< UInt8.ofNat ex := by
      rw [hofNat, goShl]
      by_cases h8 : te.toNat < 8
      · rw [if_pos h8]
      · rw [if_neg h8]
        have hte8 : te = 8 := by apply UInt8.toNat_inj.mp; rw [hte]; show ex = 8; omega
        rw [hnb0 (by omega), hte8]; decide
    -- the new state
    generalize hnbv : (goShl st.nextByte te ||| goShr b (8 - te)) = nb
    generalize hst1 : (if st.filledBits + te = to then (⟨st.regrouped ++ [nb], 0, 0, st.steps + 1⟩ : CBC)
      else ⟨st.regrouped, nb, st.filledBits + te, st.steps + 1⟩) = st1
    have hcond : (st.filledBits + te = to) ↔ (st.filledBits.toNat + ex = to.toNat) := by
      rw [← UInt8.toNat_inj, hfil', hte]
    have hI1 : Inv to st1 := by
      subst hst1
      split
      · exact ⟨Nat.lt_of_lt_of_le Nat.zero_lt_one hto1, fun _ => rfl⟩
      · next hne =>
        have := mt hcond.mpr hne
        refine ⟨?_, ?_⟩
        · show (st.filledBits + te).toNat < _; rw [hfil', hte]; omega
        · show (st.filledBits + te).toNat = 0 → _; rw [hfil', hte]; omega
    have hrem1 : (rem - te).toNat = rem.toNat - ex := by rw [hrem', hte]
    have hb1 : (rem - te).toNat = 0 ∨ goShl b te = b <<< UInt8.ofNat ex := by
      by_cases h8 : te.toNat < 8
      · right; rw [hofNat, goShl, if_pos h8]
      · left; rw [hrem1]; omega
    obtain ⟨st2, hrun, hmod, hI2, hs1, hs2⟩ :=
      ih (rem - te) (goShl b te) (b <<< UInt8.ofNat ex) st1 (by omega) (by omega) hb1 hI1
    have hsteps1 : st1.steps = st.steps + 1 := by subst hst1; split <;> rfl
    have hout1 : (st.filledBits.toNat + ex = to.toNat ∧ st1.regrouped.length = st.regrouped.length + 1) ∨
        (st.filledBits.toNat + ex ≠ to.toNat ∧ st1.regrouped = st.regrouped) := by
      subst hst1
      split
      · next heq => left; exact ⟨hcond.mp heq, by simp⟩
      · next hne => right; exact ⟨mt hcond.mpr hne, rfl⟩
    refine ⟨st2, ?_, ?_, hI2, by omega, ?_⟩
    · intro fuel hfuel
      obtain ⟨fuel, rfl⟩ : ∃ k, fuel = k + 1 := ⟨fuel - 1, by omega⟩
      have hpos : rem > 0 := by rw [gt_zero_iff]; omega
      simp only [cbInnerC, hpos, if_true, hte_def, hnbv, hst1]
      exact hrun fuel (by omega)
    · intro fuelM hfuelM
      obtain ⟨fuelM, rfl⟩ : ∃ k, fuelM = k + 1 := ⟨fuelM - 1, by omega⟩
      rw [hstep fuelM, hmod fuelM (by omega), hrem1, ← hshl, ← hshr, hnbv]
      congr 1
      subst hst1
      by_cases hc : st.filledBits + te = to
      · rw [if_pos hc, if_pos (hcond.mp hc)]; rfl
      · rw [if_neg hc, if_neg (mt hcond.mpr hc)]
        show CB.mk _ _ (st.filledBits + te).toNat = _
        rw [hfil', hte]
    · rcases hout1 with ⟨_, h⟩ | ⟨hne, h⟩
      · omega
      · have := hlast hne
        rw [hrem1, this] at hs2
        rw [h] at hs2
        omega

/-! ### the outer loop -/

theorem cbOuterC_sim (fr to : UInt8) (hfr1 : 1 ≤ fr.toNat) (hfr8 : fr.toNat ≤ 8)
    (hto1 : 1 ≤ to.toNat) (hto8 : to.toNat ≤ 8) :
    ∀ (data : Bytes) (st : CBC), Inv to st →
      ∃ st', (∀ fuel, 8 ≤ fuel → cbOuterC fuel fr to data st = .ok st') ∧
        st'.abs = data.foldl (fun st b => cbInner to.toNat 8 fr.toNat (b <<< UInt8.ofNat (8 - fr.toNat)) st) st.abs ∧
        Inv to st' ∧ st'.steps ≤ st.steps + data.length * fr.toNat ∧
        st'.steps + st.regrouped.length ≤ st.steps + st'.regrouped.length + data.length := by
  intro data
  induction data with
  | nil => intro st hI; exact ⟨st, fun _ _ => rfl, rfl, hI, by simp, by simp⟩
  | cons b rest ih =>
    intro st hI
    have h8fr : (8 - fr).toNat = 8 - fr.toNat :=
      UInt8.toNat_sub_of_le _ _ (UInt8.le_iff_toNat_le.mpr hfr8)
    have hshl : goShl b (8 - fr) = b <<< UInt8.ofNat (8 - fr.toNat) := by
      rw [goShl, if_pos (by rw [h8fr]; omega)]
      congr 1
      apply UInt8.toNat_inj.mp
      rw [h8fr, toNat_ofNat_small _ (by omega)]
    obtain ⟨st1, hrun1, hmod1, hI1, hs1, hs1'⟩ :=
      cbInnerC_sim to hto1 hto8 fr.toNat fr (goShl b (8 - fr)) _ st (by omega) hfr8 (Or.inr hshl) hI
    obtain ⟨st2, hrun2, hmod2, hI2, hs2, hs2'⟩ := ih st1 hI1
    refine ⟨st2, ?_, ?_, hI2, ?_, ?_⟩
    · intro fuel hfuel
      simp only [cbOuterC, hrun1 fuel (by omega), ok_bind]
      exact hrun2 fuel hfuel
    · rw [hmod2, hmod1 8 hfr8, List.foldl_cons]
    · simp only [List.length_cons, Nat.add_mul]; omega
    · have : min fr.toNat 1 ≤ 1 := Nat.min_le_right _ _
      simp only [List.length_cons]; omega

/-! ### `ConvertBits` -/

/-- For every input, every pair of widths and every budget ≥ 8 the checked code returns the model's result
after `n` inner-loop iterations, with `n` the same for all such budgets (the budget is never the limiting
factor), `n ≤ len(data)·fromBits` and `n ≤ len(data) + len(data)·fromBits/toBits`. -/
theorem ConvertBitsG_true_eq (data : Bytes) (fr to : Nat) (pad : Bool) :
    ∃ n, (∀ fuel, 8 ≤ fuel → ConvertBitsG true fuel data fr to pad = .ok (ConvertBits data fr to pad, n)) ∧
      n ≤ data.length * fr ∧ n ≤ data.length + data.length * fr / to := by
  by_cases hg : fr < 1 ∨ fr > 8 ∨ to < 1 ∨ to > 8
  · refine ⟨0, fun fuel _ => ?_, Nat.zero_le _, Nat.zero_le _⟩
    rw [convertbits_widths data fr to pad hg]
    unfold ConvertBitsG
    rw [if_pos (by rw [Bool.true_and]; exact decide_eq_true hg)]
    rfl
  · have hfrN : (UInt8.ofNat fr).toNat = fr := toNat_ofNat_small _ (by omega)
    have htoN : (UInt8.ofNat to).toNat = to := toNat_ofNat_small _ (by omega)
    obtain ⟨st, hrun, hmod, hI, hs, hs'⟩ :=
      cbOuterC_sim (UInt8.ofNat fr) (UInt8.ofNat to) (by omega) (by omega) (by omega) (by omega) data
        ⟨[], 0, 0, 0⟩ ⟨by simp [htoN]; omega, fun _ => rfl⟩
    rw [hfrN, htoN] at hmod
    rw [hfrN] at hs
    have hfold : st.abs = cbFold fr to data := hmod
    have hlen := cbFold_length fr to (by omega) (by omega) (by omega) (by omega) data
    rw [← hfold] at hlen
    simp only [CBC.abs] at hlen
    have hout : st.regrouped.length ≤ data.length * fr / to := by
      rw [Nat.le_div_iff_mul_le (by omega), Nat.mul_comm data.length fr, ← hlen, Nat.mul_comm]
      omega
    refine ⟨st.steps, fun fuel hfuel => ?_, by simpa using hs, by simp at hs'; omega⟩
    rw [ConvertBits_eq, if_neg hg]
    have hgb : (true && decide (fr < 1 ∨ fr > 8 ∨ to < 1 ∨ to > 8)) = false := by
      rw [Bool.true_and]; exact decide_eq_false hg
    simp only [ConvertBitsG, hgb, Bool.false_eq_true, if_false, hrun fuel hfuel, ok_bind]
    generalize cbFold fr to data = cb at hfold
    have ho : cb.out = st.regrouped := by rw [← hfold]; rfl
    have hn : cb.nextByte = st.nextByte := by rw [← hfold]; rfl
    have hfl : cb.filled = st.filledBits.toNat := by rw [← hfold]; rfl
    have hfpos : st.filledBits > 0 ↔ cb.filled > 0 := by rw [hfl]; exact gt_zero_iff _
    have hf4 : st.filledBits > 4 ↔ cb.filled > 4 := by
      rw [hfl]
      show (4 : UInt8) < st.filledBits ↔ _
      rw [UInt8.lt_iff_toNat_lt]; rfl
    by_cases hp : pad = true ∧ cb.filled > 0
    · have hp' : pad = true ∧ st.filledBits > 0 := ⟨hp.1, hfpos.mpr hp.2⟩
      rw [if_pos hp', if_pos hp]
      have h00 : ¬ ((0 : UInt8) > 0 ∧ ((0 : UInt8) > 4 ∨ (0 : UInt8) ≠ 0)) := by decide
      have h01 : ¬ ((0 : Nat) > 0 ∧ ((0 : Nat) > 4 ∨ (0 : UInt8) ≠ 0)) := by decide
      simp only [h00, h01, if_false, pure_eq_ok]
      have hsub : (UInt8.ofNat to - st.filledBits).toNat = to - st.filledBits.toNat := by
        rw [UInt8.toNat_sub_of_le _ _ (UInt8.le_iff_toNat_le.mpr (by have := hI.1; omega)), htoN]
      have : goShl st.nextByte (UInt8.ofNat to - st.filledBits)
          = st.nextByte <<< UInt8.ofNat (to - st.filledBits.toNat) := by
        rw [goShl, if_pos (by rw [hsub]; omega), ← hsub, UInt8.ofNat_toNat]
      rw [this, ho, hn, hfl]
    · have hp' : ¬ (pad = true ∧ st.filledBits > 0) := fun h => hp ⟨h.1, hfpos.mp h.2⟩
      rw [if_neg hp', if_neg hp]
      by_cases hc : cb.filled > 0 ∧ (cb.filled > 4 ∨ cb.nextByte ≠ 0)
      · have hc' : st.filledBits > 0 ∧ (st.filledBits > 4 ∨ st.nextByte ≠ 0) := by
          rw [hfpos, hf4, ← hn]; exact hc
        rw [if_pos hc', if_pos hc]; rfl
      · have hc' : ¬ (st.filledBits > 0 ∧ (st.filledBits > 4 ∨ st.nextByte ≠ 0)) := by
          rw [hfpos, hf4, ← hn]; exact hc
        rw [if_neg hc', if_neg hc, ho]; rfl

theorem ConvertBitsC_eq_model (data : Bytes) (fr to : Nat) (pad : Bool) :
    ConvertBitsC data fr to pad = .ok (ConvertBits data fr to pad) := by
  obtain ⟨n, h, _⟩ := ConvertBitsG_true_eq data fr to pad
  rw [ConvertBitsC, h 8 (by omega)]; rfl

theorem ConvertBitsC_no_fault (data : Bytes) (fr to : Nat) (pad : Bool) :
    ∃ r, ConvertBitsC data fr to pad = .ok r := ⟨_, ConvertBitsC_eq_model data fr to pad⟩

/-- STEP BOUND (no hang): the run executes `n` iterations of the inner loop in total, with
`n ≤ len(data)·fromBits` (each iteration consumes at least one input bit) and
`n ≤ len(data) + len(data)·fromBits/toBits` (each iteration finishes an output byte or an input byte).
For rejected widths `n = 0`. (`len(data)·fromBits/toBits + 1` alone is not a bound: with `fromBits = 1`,
`toBits = 8` every input byte costs one iteration.) -/
theorem ConvertBitsC_steps (data : Bytes) (fr to : Nat) (pad : Bool) :
    ∃ n, ConvertBitsStepsC data fr to pad = .ok n ∧
      n ≤ data.length * fr ∧ n ≤ data.length + data.length * fr / to := by
  obtain ⟨n, h, h1, h2⟩ := ConvertBitsG_true_eq data fr to pad
  exact ⟨n, by rw [ConvertBitsStepsC, h 8 (by omega)]; rfl, h1, h2⟩

/-- the budget is irrelevant: any budget ≥ 8 per input byte gives the same result and the same count -/
theorem ConvertBitsG_fuel_irrelevant (data : Bytes) (fr to : Nat) (pad : Bool) (fuel : Nat) (h : 8 ≤ fuel) :
    ConvertBitsG true fuel data fr to pad = ConvertBitsG true 8 data fr to pad := by
  obtain ⟨n, hn, _⟩ := ConvertBitsG_true_eq data fr to pad
  rw [hn fuel h, hn 8 (by omega)]

/-- ALLOCATION on the model: a successful conversion returns at most `len(data)·fromBits/toBits + 1` bytes -/
theorem ConvertBits_length_le (data : Bytes) (fr to : Nat) (pad : Bool) (out : Bytes)
    (h : ConvertBits data fr to pad = .ok out) : out.length ≤ data.length * fr / to + 1 := by
  by_cases hg : fr < 1 ∨ fr > 8 ∨ to < 1 ∨ to > 8
  · rw [convertbits_widths data fr to pad hg] at h; cases h
  · have hlen := cbFold_length fr to (by omega) (by omega) (by omega) (by omega) data
    have hout : (cbFold fr to data).out.length ≤ data.length * fr / to := by
      rw [Nat.le_div_iff_mul_le (by omega), Nat.mul_comm data.length fr, ← hlen, Nat.mul_comm]
      omega
    rw [ConvertBits_eq, if_neg hg] at h
    simp only at h
    by_cases hp : pad = true ∧ (cbFold fr to data).filled > 0
    · simp only [if_pos hp] at h
      split at h
      · cases h
      · injection h with h; subst h
        simp only [List.length_append, List.length_singleton]; omega
    · simp only [if_neg hp] at h
      split at h
      · cases h
      · injection h with h; subst h; omega

/-- ALLOCATION: the slice returned by the checked code has at most `len(data)·fromBits/toBits + 1`
elements (and `regrouped` only grows, one element per `append`) -/
theorem ConvertBitsC_alloc (data : Bytes) (fr to : Nat) (pad : Bool) (out : Bytes)
    (h : ConvertBitsC data fr to pad = .ok (.ok out)) : out.length ≤ data.length * fr / to + 1 := by
  rw [ConvertBitsC_eq_model] at h
  injection h with h
  exact ConvertBits_length_le data fr to pad out h

/-! ### the guard matters -/

/-- with `toBits = 0` and nothing pending an iteration changes nothing but `regrouped`: the loop condition
stays true and every budget is used up -/
theorem cbInnerC_zero_hang : ∀ (fuel : Nat) (rem b : UInt8) (st : CBC), rem > 0 → st.filledBits = 0 →
    cbInnerC 0 fuel rem b st = .error outOfFuel := by
  intro fuel
  induction fuel with
  | zero => intro rem b st h _; simp [cbInnerC, h]
  | succ fuel ih =>
    intro rem b st h hf
    simp only [cbInnerC, h, if_true, hf]
    have h0 : (0 : UInt8) - 0 = 0 := by decide
    rw [h0, if_pos h]
    have h1 : rem - 0 = rem := by apply UInt8.toNat_inj.mp; rw [UInt8.toNat_sub_of_le _ _ (UInt8.le_iff_toNat_le.mpr (Nat.zero_le _))]; rfl
    have h2 : (0 : UInt8) + 0 = 0 := by decide
    rw [h1, h2, if_pos rfl]
    exact ih rem _ _ h rfl

/-- NEGATIVE (hang): without the width test, `toBits = 0` and a non-empty input exhaust *every* budget —
the Go loop `for remFromBits > 0` never terminates (and appends a byte to `regrouped` on every iteration,
so it also allocates without bound). -/
theorem ConvertBitsG_false_hang (fuel : Nat) (b : UInt8) (data : Bytes) (fr : Nat) (hfr1 : 1 ≤ fr)
    (hfr8 : fr ≤ 8) (pad : Bool) : ConvertBitsG false fuel (b :: data) fr 0 pad = .error outOfFuel := by
  have hpos : UInt8.ofNat fr > 0 := by rw [gt_zero_iff, toNat_ofNat_small _ hfr8]; omega
  simp only [ConvertBitsG, Bool.false_and, Bool.false_eq_true, if_false, cbOuterC]
  rw [show UInt8.ofNat 0 = 0 from rfl, cbInnerC_zero_hang fuel _ _ _ hpos rfl]
  rfl

/-- with the widths in range the guard-less code is the code -/
theorem ConvertBitsG_false_inrange (fuel : Nat) (data : Bytes) (fr to : Nat) (pad : Bool)
    (h : ¬ (fr < 1 ∨ fr > 8 ∨ to < 1 ∨ to > 8)) :
    ConvertBitsG false fuel data fr to pad = ConvertBitsG true fuel data fr to pad := by
  simp only [ConvertBitsG, decide_eq_false h, Bool.and_false]

end ConvertBitsS

end Bch.Proofs.CheckedBech32
