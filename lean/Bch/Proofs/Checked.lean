import Bch.Model.Base58
import Bch.Model.CashAddr
import Bch.Model.HDKey
import Bch.Model.JsonHex
import Bch.Model.Wif
import Bch.Proofs.BlockCache
import Bch.Proofs.Bloom
import Bch.Proofs.GcsQuery
import Bch.Proofs.Merkle
/-
Fault-tracking layer for C08 ("no parser panics").

The models under `Bch/Model/` are *total*: they use `getD`, `take`, `drop`, `headD`, `x % 0 = x`, which
silently give a value where the Go code would panic. Here every Go operation that can panic is a checked
primitive returning `Except Fault`; each parser `foo` gets a transcription `fooC` that follows the Go
source operation by operation, and for each we prove

* `fooC_no_fault : ∃ r, fooC input = .ok r`   (never a fault), and
* `fooC_eq_model : fooC input = .ok (Model.foo input)`  (the total model is what the Go code computes).

Where the Go code has a guard whose only purpose is to keep an operation in range, the transcription is
parametrised by a Boolean (`fooG guard`): `fooC = fooG true` is the code as it is, `fooG false` the code
without the guard, and a lemma shows that the latter faults on a concrete input — so the no-fault theorems
are not vacuously true of a transcription that cannot fault.
Sections: 1 CashAddr, 2 Base58Check/WIF, 3 extended keys, 4 bloom, 5 merkle, 6 GCS, 7 `Block.Tx`, 8 JSON.

Conventions. Go `len(x)`-relative bounds are computed in `Int`, so that e.g. `len - 8` with `len < 8` is the
negative number the Go code would slice with. Slicing a Go *slice* is legal up to `cap`, not `len`;
`slice?` checks against `len`, which is stricter (fewer inputs pass), hence sound for "no fault".
Loops `for i := 0; i < n; i++` are written with a structural `fuel` argument equal to `n - i`; the index
operations inside are still checked, and the no-fault proofs derive `i < len` from `fuel + i = n`.
-/
set_option linter.unusedSectionVars false

namespace Bch.Proofs.Checked
open Bch Bch.Model

/-- the run-time panics of the Go operations that occur in the parsers -/
inductive Fault | indexOOB | sliceOOB | divZero | badAssert | nilDeref
  deriving DecidableEq, Repr

section prim
variable {α : Type}

/-- Go `l[i]` for `i` a non-negative index value -/
def idx? (l : List α) (i : Nat) : Except Fault α :=
  match l[i]? with
  | some a => .ok a
  | none => .error .indexOOB

/-- Go `l[i]` for `i` a signed `int` -/
def idxI? (l : List α) (i : Int) : Except Fault α :=
  if i < 0 then .error .indexOOB else idx? l i.toNat

/-- Go `l[i] = a` -/
def set? (l : List α) (i : Nat) (a : α) : Except Fault (List α) :=
  if i < l.length then .ok (l.set i a) else .error .indexOOB

/-- Go `l[i] = a` for `i` a signed `int` -/
def setI? (l : List α) (i : Int) (a : α) : Except Fault (List α) :=
  if i < 0 then .error .indexOOB else set? l i.toNat a

/-- Go `l[lo:hi]`: panics unless `0 ≤ lo ≤ hi ≤ len(l)` -/
def slice? (l : List α) (lo hi : Int) : Except Fault (List α) :=
  if 0 ≤ lo ∧ lo ≤ hi ∧ hi ≤ (l.length : Int) then .ok ((l.take hi.toNat).drop lo.toNat)
  else .error .sliceOOB

/-- Go `a % b` on unsigned integers -/
def mod? (a b : Nat) : Except Fault Nat := if b = 0 then .error .divZero else .ok (a % b)

/-- Go `make([]T, n)`: panics ("len out of range") for negative `n`; reported in the class `sliceOOB` -/
def make? (n : Int) (z : α) : Except Fault (List α) :=
  if n < 0 then .error .sliceOOB else .ok (List.replicate n.toNat z)

/-- Go `*p` / `p.field` on a pointer that may be nil -/
def deref? : Option α → Except Fault α
  | some a => .ok a
  | none => .error .nilDeref

/-! ### the primitives fault exactly outside their Go domain -/

theorem idx?_ok {l : List α} {i : Nat} (h : i < l.length) : idx? l i = .ok l[i] := by
  simp [idx?, h]

theorem idx?_oob {l : List α} {i : Nat} (h : l.length ≤ i) : idx? l i = .error .indexOOB := by
  simp [idx?, h]

theorem idx?_ok_getD {l : List α} {i : Nat} (h : i < l.length) (d : α) : idx? l i = .ok (l.getD i d) := by
  simp [idx?, h, List.getD]

theorem idx?_zero_headD {l : List α} (h : 0 < l.length) (d : α) : idx? l 0 = .ok (l.headD d) := by
  cases l with
  | nil => simp at h
  | cons a l => simp [idx?]

theorem idxI?_nonneg {l : List α} {i : Int} (h0 : 0 ≤ i) : idxI? l i = idx? l i.toNat := by
  simp [idxI?]; omega

theorem idxI?_neg {l : List α} {i : Int} (h : i < 0) : idxI? l i = .error .indexOOB := by
  simp [idxI?, h]

theorem set?_ok {l : List α} {i : Nat} (h : i < l.length) (a : α) : set? l i a = .ok (l.set i a) := by
  simp [set?, h]

theorem set?_oob {l : List α} {i : Nat} (h : l.length ≤ i) (a : α) : set? l i a = .error .indexOOB := by
  simp [set?]; omega

theorem setI?_nonneg {l : List α} {i : Int} (h0 : 0 ≤ i) (a : α) : setI? l i a = set? l i.toNat a := by
  simp [setI?]; omega

theorem setI?_neg {l : List α} {i : Int} (h : i < 0) (a : α) : setI? l i a = .error .indexOOB := by
  simp [setI?, h]

theorem slice?_ok {l : List α} {lo hi : Int} (h0 : 0 ≤ lo) (h1 : lo ≤ hi) (h2 : hi ≤ l.length) :
    slice? l lo hi = .ok ((l.take hi.toNat).drop lo.toNat) := by
  simp [slice?, h0, h1, h2]

theorem slice?_oob {l : List α} {lo hi : Int} (h : lo < 0 ∨ hi < lo ∨ (l.length : Int) < hi) :
    slice? l lo hi = .error .sliceOOB := by
  unfold slice?
  rw [if_neg]; omega

/-- `l[:k]` -/
theorem slice?_take {l : List α} {k : Nat} (h : k ≤ l.length) : slice? l 0 k = .ok (l.take k) := by
  rw [slice?_ok (by omega) (by omega) (by omega)]; simp

/-- `l[k:]` -/
theorem slice?_drop {l : List α} {k : Nat} (h : k ≤ l.length) : slice? l k l.length = .ok (l.drop k) := by
  rw [slice?_ok (by omega) (by omega) (by omega)]; simp

/-- `l[a:b]` -/
theorem slice?_mid {l : List α} {a b : Nat} (hab : a ≤ b) (h : b ≤ l.length) :
    slice? l a b = .ok ((l.drop a).take (b - a)) := by
  rw [slice?_ok (by omega) (by omega) (by omega)]
  simp [List.take_drop]
  congr 2; omega

theorem mod?_ok {a b : Nat} (h : b ≠ 0) : mod? a b = .ok (a % b) := by simp [mod?, h]
theorem mod?_zero (a : Nat) : mod? a 0 = .error .divZero := by simp [mod?]

theorem make?_ok {n : Int} (h : 0 ≤ n) (z : α) : make? n z = .ok (List.replicate n.toNat z) := by
  simp [make?]; omega

theorem make?_neg {n : Int} (h : n < 0) (z : α) : make? n z = .error .sliceOOB := by
  simp [make?, h]

end prim

/-! ### `Except` plumbing -/

instance instDecEqExcept {ε α : Type} [DecidableEq ε] [DecidableEq α] : DecidableEq (Except ε α)
  | .ok x, .ok y => if h : x = y then isTrue (by rw [h]) else isFalse (fun h' => by cases h'; exact h rfl)
  | .error x, .error y => if h : x = y then isTrue (by rw [h]) else isFalse (fun h' => by cases h'; exact h rfl)
  | .ok _, .error _ => isFalse (fun h => by cases h)
  | .error _, .ok _ => isFalse (fun h => by cases h)

@[simp] theorem ok_bind {α β : Type} (a : α) (f : α → Except Fault β) : (Except.ok a >>= f) = f a := rfl
@[simp] theorem err_bind {α β : Type} (e : Fault) (f : α → Except Fault β) :
    ((Except.error e : Except Fault α) >>= f) = .error e := rfl
@[simp] theorem pure_eq_ok {α : Type} (a : α) : (pure a : Except Fault α) = .ok a := rfl

theorem bind_of_ok {α β : Type} {x : Except Fault α} {a : α} (h : x = .ok a) (f : α → Except Fault β) :
    (x >>= f) = f a := by subst h; rfl

/-! ## 1. `DecodeCashAddress` and `checkDecodeCashAddress` (/repo/address.go) -/
section CashAddr
open Bch.Model.CashAddr

/-- `CharsetRev` (address.go:811), a `[128]int8` -/
def CharsetRevTbl : List Int := [
  -1, -1, -1, -1, -1, -1, -1, -1, -1, -1, -1, -1, -1, -1, -1, -1, -1, -1, -1,
  -1, -1, -1, -1, -1, -1, -1, -1, -1, -1, -1, -1, -1, -1, -1, -1, -1, -1, -1,
  -1, -1, -1, -1, -1, -1, -1, -1, -1, -1, 15, -1, 10, 17, 21, 20, 26, 30, 7,
  5, -1, -1, -1, -1, -1, -1, -1, 29, -1, 24, 13, 25, 9, 8, 23, -1, 18, 22,
  31, 27, 19, -1, 1, 0, 3, 16, 11, 28, 12, 14, 6, 4, 2, -1, -1, -1, -1,
  -1, -1, 29, -1, 24, 13, 25, 9, 8, 23, -1, 18, 22, 31, 27, 19, -1, 1, 0,
  3, 16, 11, 28, 12, 14, 6, 4, 2, -1, -1, -1, -1, -1]

/-- the first `for` loop (address.go:999-1033); `fuel = len(str) - i` -/
def scanC (str : Bytes) : (fuel i : Nat) → Scan → Except Fault (Except DErr Scan)
  | 0, _, st => pure (.ok st)
  | fuel+1, i, st => do
    let c ← idx? str i                                   -- address.go:1000  c := str[i]
    if 97 ≤ c ∧ c ≤ 122 then scanC str fuel (i+1) { st with lower := true }
    else if 65 ≤ c ∧ c ≤ 90 then scanC str fuel (i+1) { st with upper := true }
    else if 48 ≤ c ∧ c ≤ 57 then
      if st.prefixSize = 0 then pure (.error .numberInPrefix) else scanC str fuel (i+1) st
    else if c = 58 then
      if i = 0 ∨ st.prefixSize ≠ 0 then pure (.error .separator)
      else scanC str fuel (i+1) { st with prefixSize := i }
    else pure (.error .unexpectedChar)

/-- the prefix loop (address.go:1047-1049); `fuel = prefixSize - i` -/
def prefixC (str : Bytes) : (fuel i : Nat) → Bytes → Except Fault Bytes
  | 0, _, acc => pure acc
  | fuel+1, i, acc => do
    let c ← idx? str i                                   -- address.go:1048  str[i]
    prefixC str fuel (i+1) (acc ++ [c ||| 0x20])

/-- the values loop (address.go:1054-1062); `fuel = valuesSize - i`; `none` = "invalid character" -/
def valuesC (str : Bytes) (prefixSize : Nat) : (fuel i : Nat) → Bytes → Except Fault (Option Bytes)
  | 0, _, values => pure (some values)
  | fuel+1, i, values => do
    let c ← idx? str (i + prefixSize + 1)                -- address.go:1055  str[i+prefixSize+1]
    if c > 127 then pure none else
    let r ← idx? CharsetRevTbl c.toNat                   -- address.go:1057  CharsetRev[c]
    if r = -1 then pure none else
    let r ← idx? CharsetRevTbl c.toNat                   -- address.go:1061  CharsetRev[c]
    let values ← set? values i (UInt8.ofNat r.toNat)     -- address.go:1061  values[i] = byte(…)
    valuesC str prefixSize fuel (i+1) values

/-- `DecodeCashAddress` with the final slice made optional-guarded: `guard = true` is the code after fix
662835b, `guard = false` the code before it. -/
def DecodeCashAddressG (guard : Bool) (str : Bytes) : Except Fault (Except DErr (Bytes × Bytes)) := do
  match ← scanC str str.length 0 {} with
  | .error e => pure (.error e)
  | .ok st =>
    if st.prefixSize = 0 then pure (.error .noPrefix) else
    if st.upper ∧ st.lower then pure (.error .mixedCase) else do
    let pre ← prefixC str st.prefixSize 0 []
    let valuesSize : Int := (str.length : Int) - 1 - (st.prefixSize : Int)   -- address.go:1052
    let values0 ← make? valuesSize (0 : UInt8)           -- address.go:1053  make([]byte, valuesSize)
    match ← valuesC str st.prefixSize valuesSize.toNat 0 values0 with
    | none => pure (.error .invalidChar)
    | some values =>
      if !verifyChecksum pre values then pure (.error .checksumMismatch) else
      if guard && values.length < 8 then pure (.error .tooShort) else do   -- address.go:1069 (the fix)
      let out ← slice? values 0 ((values.length : Int) - 8)               -- address.go:1073 values[:len(values)-8]
      pure (.ok (pre, out))

/-- the current code -/
def DecodeCashAddressC (str : Bytes) := DecodeCashAddressG true str
/-- the code before fix 662835b -/
def DecodeCashAddressPreFix (str : Bytes) := DecodeCashAddressG false str

/-! ### the scan loop -/

theorem scanC_eq (str : Bytes) : ∀ (fuel i : Nat) (st : Scan), i + fuel = str.length →
    scanC str fuel i st = .ok (scan (str.drop i) i st) := by
  intro fuel
  induction fuel with
  | zero =>
    intro i st h
    have : str.drop i = [] := List.drop_eq_nil_of_le (by omega)
    simp [scanC, this, scan]
  | succ fuel ih =>
    intro i st h
    have hi : i < str.length := by omega
    rw [List.drop_eq_getElem_cons hi]
    simp only [scanC, idx?_ok hi, ok_bind, scan]
    have := fun st' => ih (i+1) st' (by omega)
    repeat' split
    all_goals first | rfl | exact this _

/-- where the scan can leave `prefixSize`: unchanged, or at a position inside the scanned part -/
theorem scan_prefixSize : ∀ (cs : Bytes) (i : Nat) (st st' : Scan), scan cs i st = .ok st' →
    st'.prefixSize = st.prefixSize ∨ (i ≤ st'.prefixSize ∧ st'.prefixSize < i + cs.length) := by
  intro cs
  induction cs with
  | nil => intro i st st' h; simp [scan] at h; left; rw [h]
  | cons c cs ih =>
    intro i st st' h
    simp only [scan] at h
    split at h
    · rcases ih _ _ _ h with h | h
      · left; simpa using h
      · right; simp only [List.length_cons]; omega
    split at h
    · rcases ih _ _ _ h with h | h
      · left; simpa using h
      · right; simp only [List.length_cons]; omega
    split at h
    · split at h
      · cases h
      · rcases ih _ _ _ h with h | h
        · left; exact h
        · right; simp only [List.length_cons]; omega
    split at h
    · split at h
      · cases h
      · rename_i hh
        rcases ih _ _ _ h with h | h
        · right; simp only [List.length_cons]; simp at h; omega
        · right; simp only [List.length_cons]; omega
    · cases h

theorem prefixC_eq (str : Bytes) : ∀ (fuel i : Nat) (acc : Bytes), i + fuel ≤ str.length →
    prefixC str fuel i acc = .ok (acc ++ ((str.drop i).take fuel).map (· ||| 0x20)) := by
  intro fuel
  induction fuel with
  | zero => intro i acc _; simp [prefixC]
  | succ fuel ih =>
    intro i acc h
    have hi : i < str.length := by omega
    simp only [prefixC, idx?_ok hi, ok_bind]
    rw [ih (i+1) _ (by omega)]
    conv => rhs; rw [List.drop_eq_getElem_cons hi]
    simp only [List.take_succ_cons, List.map_cons, List.append_assoc, List.singleton_append]

/-! ### the values loop -/

/-- one entry of the table against the model's arithmetic `charsetRev` -/
def tblOK (n : Nat) : Bool :=
  match CharsetRevTbl[n]? with
  | some r => if r = -1 then charsetRev (UInt8.ofNat n) == none
              else charsetRev (UInt8.ofNat n) == some (UInt8.ofNat r.toNat)
  | none => false

theorem tbl_all_range : (List.range 128).all tblOK = true := by decide +kernel

theorem tbl_all : ∀ n, n < 128 → tblOK n = true := by
  intro n hn
  exact List.all_eq_true.mp tbl_all_range n (List.mem_range.mpr hn)

theorem CharsetRevTbl_length : CharsetRevTbl.length = 128 := by decide +kernel

/-- `CharsetRev[c]` is in range after the `c > 127` test and is the model's `charsetRev` -/
theorem tbl_spec (c : UInt8) (h : ¬ c > 127) : ∃ r, idx? CharsetRevTbl c.toNat = .ok r ∧
    (r = -1 → charsetRev c = none) ∧ (r ≠ -1 → charsetRev c = some (UInt8.ofNat r.toNat)) := by
  have hc : c.toNat < 128 := by
    have : ¬ (127 : UInt8) < c := h
    rw [UInt8.lt_iff_toNat_lt] at this
    simp at this; omega
  have hlen : c.toNat < CharsetRevTbl.length := by rw [CharsetRevTbl_length]; exact hc
  have hk := tbl_all c.toNat hc
  have hcc : UInt8.ofNat c.toNat = c := by simp
  refine ⟨CharsetRevTbl[c.toNat], idx?_ok hlen, ?_, ?_⟩
  · intro hr
    simp only [tblOK, List.getElem?_eq_getElem hlen, hr, hcc] at hk
    simpa using hk
  · intro hr
    simp only [tblOK, List.getElem?_eq_getElem hlen, hr, hcc] at hk
    simpa using hk

theorem charsetRev_gt (c : UInt8) (h : c > 127) : charsetRev c = none := by
  simp [charsetRev, h]

theorem valuesC_eq (str : Bytes) (ps : Nat) : ∀ (fuel i : Nat) (values : Bytes),
    i + fuel ≤ values.length → i + ps + 1 + fuel ≤ str.length →
    valuesC str ps fuel i values =
      .ok ((((str.drop (i + ps + 1)).take fuel).mapM charsetRev).map
            (fun v => values.take i ++ v ++ values.drop (i + fuel))) := by
  intro fuel
  induction fuel with
  | zero => intro i values _ _; simp [valuesC]
  | succ fuel ih =>
    intro i values hv hs
    have hi : i + ps + 1 < str.length := by omega
    rw [List.drop_eq_getElem_cons hi, List.take_succ_cons, List.mapM_cons]
    simp only [valuesC, idx?_ok hi, ok_bind]
    generalize str[i + ps + 1] = c
    by_cases hc : c > 127
    · simp [hc, charsetRev_gt c hc]
    · obtain ⟨r, hr, h1, h2⟩ := tbl_spec c hc
      simp only [hc, if_false, hr, ok_bind]
      by_cases hr1 : r = -1
      · simp [hr1, h1 hr1]
      · simp only [hr1, if_false, h2 hr1, set?_ok (show i < values.length by omega), ok_bind]
        rw [ih (i+1) _ (by simp; omega) (by omega)]
        have e1 : (values.set i (UInt8.ofNat r.toNat)).take (i+1) = values.take i ++ [UInt8.ofNat r.toNat] := by
          rw [List.take_set, List.take_succ_eq_append_getElem (by omega), List.set_append_right _ _ (by simp; omega)]
          simp [show min i values.length = i by omega]
        have e2 : (values.set i (UInt8.ofNat r.toNat)).drop (i + 1 + fuel) = values.drop (i + (fuel + 1)) := by
          rw [List.drop_set_of_lt (by omega)]; congr 1; omega
        rw [e1, e2, show i + 1 + ps + 1 = i + ps + 1 + 1 by omega]
        cases List.mapM charsetRev (List.take fuel (List.drop (i + ps + 1 + 1) str)) <;> simp

/-! ### `DecodeCashAddress` -/

/-- the model without the duplicated continuations of its `do` block -/
theorem DecodeCashAddress_eq (str : Bytes) : DecodeCashAddress str =
    match scan str 0 {} with
    | .error e => .error e
    | .ok st =>
      if st.prefixSize = 0 then .error .noPrefix
      else if st.upper ∧ st.lower then .error .mixedCase
      else match (str.drop (st.prefixSize + 1)).mapM charsetRev with
        | none => .error .invalidChar
        | some values =>
          if !verifyChecksum ((str.take st.prefixSize).map (· ||| 0x20)) values then .error .checksumMismatch
          else if values.length < 8 then .error .tooShort
          else .ok ((str.take st.prefixSize).map (· ||| 0x20), values.take (values.length - 8)) := by
  unfold DecodeCashAddress
  cases scan str 0 {} with
  | error e => rfl
  | ok st =>
    simp only [bind, Except.bind, throw, throwThe, MonadExceptOf.throw, pure, Except.pure]
    by_cases h1 : st.prefixSize = 0
    · simp [h1]
    by_cases h2 : st.upper ∧ st.lower
    · simp [h1, h2]
    simp only [h1, h2, if_false]
    cases (str.drop (st.prefixSize + 1)).mapM charsetRev with
    | none => rfl
    | some v =>
      simp only

/-- normal form of the checked transcription, for either setting of the guard: all index and slice
operations before the last one have been discharged -/
theorem DecodeCashAddressG_eq (g : Bool) (str : Bytes) : DecodeCashAddressG g str =
    match scan str 0 {} with
    | .error e => .ok (.error e)
    | .ok st =>
      if st.prefixSize = 0 then .ok (.error .noPrefix)
      else if st.upper ∧ st.lower then .ok (.error .mixedCase)
      else match (str.drop (st.prefixSize + 1)).mapM charsetRev with
        | none => .ok (.error .invalidChar)
        | some values =>
          if !verifyChecksum ((str.take st.prefixSize).map (· ||| 0x20)) values then .ok (.error .checksumMismatch)
          else if g && values.length < 8 then .ok (.error .tooShort)
          else slice? values 0 ((values.length : Int) - 8) >>= fun out =>
            .ok (.ok ((str.take st.prefixSize).map (· ||| 0x20), out)) := by
  unfold DecodeCashAddressG
  rw [scanC_eq str str.length 0 {} (by omega)]
  simp only [List.drop_zero, ok_bind]
  cases hsc : scan str 0 {} with
  | error e => rfl
  | ok st =>
    simp only [pure_eq_ok]
    by_cases h1 : st.prefixSize = 0
    · simp [h1]
    by_cases h2 : st.upper ∧ st.lower
    · simp [h1, h2]
    have hps : st.prefixSize < str.length := by
      rcases scan_prefixSize str 0 {} st hsc with h | h
      · exact absurd h h1
      · omega
    simp only [h1, h2, if_false]
    rw [prefixC_eq str st.prefixSize 0 [] (by omega), make?_ok (by omega)]
    simp only [ok_bind, List.drop_zero, List.nil_append]
    rw [valuesC_eq str st.prefixSize _ 0 _ (by simp) (by omega)]
    have hn : ((str.length : Int) - 1 - (st.prefixSize : Int)).toNat = (str.drop (st.prefixSize + 1)).length := by
      simp; omega
    simp only [ok_bind, Nat.zero_add, List.take_zero, List.nil_append, hn, List.take_length]
    simp only [List.drop_replicate, Nat.sub_self, List.replicate_zero, List.append_nil, Option.map_id']
    cases (str.drop (st.prefixSize + 1)).mapM charsetRev with
    | none => rfl
    | some v =>
      simp only [List.map_take]

theorem DecodeCashAddressC_eq_model (str : Bytes) :
    DecodeCashAddressC str = .ok (DecodeCashAddress str) := by
  rw [DecodeCashAddressC, DecodeCashAddressG_eq, DecodeCashAddress_eq]
  cases scan str 0 {} with
  | error e => rfl
  | ok st =>
    simp only
    split; · rfl
    split; · rfl
    split; · rfl
    rename_i v _
    split; · rfl
    by_cases h : v.length < 8
    · simp [h]
    · simp only [h, decide_false, Bool.and_false, Bool.false_eq_true, if_false]
      rw [slice?_ok (by omega) (by omega) (by omega)]
      simp only [ok_bind, Int.toNat_zero, List.drop_zero]
      congr 4
      omega

theorem DecodeCashAddressC_no_fault (str : Bytes) : ∃ r, DecodeCashAddressC str = .ok r :=
  ⟨_, DecodeCashAddressC_eq_model str⟩

theorem scan_ne_tooShort : ∀ (cs : Bytes) (i : Nat) (st : Scan), scan cs i st ≠ .error .tooShort := by
  intro cs
  induction cs with
  | nil => intro i st h; simp [scan] at h
  | cons c cs ih =>
    intro i st h
    simp only [scan] at h
    repeat' split at h
    all_goals first | exact ih _ _ h | cases h

/-- The guard matters: the code before fix 662835b faults exactly on the inputs the fix now rejects as
"shorter than its checksum" (checksum verifies over fewer than eight symbols). -/
theorem DecodeCashAddressPreFix_fault_iff (str : Bytes) :
    DecodeCashAddressPreFix str = .error .sliceOOB ↔ DecodeCashAddress str = .error .tooShort := by
  rw [DecodeCashAddressPreFix, DecodeCashAddressG_eq, DecodeCashAddress_eq]
  cases hsc : scan str 0 {} with
  | error e =>
    have := scan_ne_tooShort str 0 {}
    rw [hsc] at this
    simp only [reduceCtorEq, false_iff]
    intro h; cases h; exact this rfl
  | ok st =>
    simp only
    split; · simp
    split; · simp
    split; · simp
    rename_i v _
    split; · simp
    by_cases h : v.length < 8
    · simp only [Bool.false_and, Bool.false_eq_true, if_false, h, if_true, iff_true]
      rw [slice?_oob (by omega)]; rfl
    · simp only [Bool.false_and, Bool.false_eq_true, if_false, h]
      rw [slice?_ok (by omega) (by omega) (by omega)]
      simp

/-- concrete witness ("aaby:tsyerga", seven payload symbols whose checksum verifies) -/
theorem DecodeCashAddressPreFix_witness :
    DecodeCashAddressPreFix [97,97,98,121,58,116,115,121,101,114,103,97] = .error .sliceOOB := by
  decide +kernel

/-! ### `checkDecodeCashAddress` (address.go:759-787) -/

def checkDecodeCashAddressC (input : Bytes) : Except Fault (Bytes × Except CErr (Bytes × AddrType)) := do
  match ← DecodeCashAddressC input with
  | .error e => pure ([], .error (.decode e))
  | .ok (pre, data5) =>
    match convertBits data5 5 8 false with
    | none => pure (pre, .error .padding)
    | some data =>
      if data.length = 33 then do
        let d0 ← idx? data 0                             -- address.go:770  data[0]
        if d0 ≠ 0x0b then pure (pre, .error .unknownType) else do
        let r ← slice? data 1 33                         -- address.go:773  data[1:33]
        pure (pre, .ok (r, 2))
      else if data.length ≠ 21 then pure (pre, .error .length)
      else do
        let d0 ← idx? data 0                             -- address.go:778  switch data[0]
        match d0 with
        | 0x00 => do
          let r ← slice? data 1 21                       -- address.go:786  data[1:21]
          pure (pre, .ok (r, 0))
        | 0x08 => do
          let r ← slice? data 1 21                       -- address.go:786  data[1:21]
          pure (pre, .ok (r, 1))
        | _ => pure (pre, .error .unknownType)

theorem slice?_one_len {α : Type} {l : List α} {n : Nat} (h : l.length = n) (h1 : 1 ≤ n) :
    slice? l 1 (n : Int) = .ok (l.drop 1) := by
  rw [slice?_ok (by omega) (by omega) (by omega)]
  simp [← h]

theorem checkDecodeCashAddressC_eq_model (input : Bytes) :
    checkDecodeCashAddressC input = .ok (checkDecodeCashAddress input) := by
  unfold checkDecodeCashAddressC checkDecodeCashAddress
  rw [DecodeCashAddressC_eq_model]
  simp only [ok_bind]
  cases DecodeCashAddress input with
  | error e => rfl
  | ok r =>
    obtain ⟨pre, data5⟩ := r
    simp only
    cases convertBits data5 5 8 false with
    | none => rfl
    | some data =>
      simp only
      by_cases h33 : data.length = 33
      · rw [if_pos h33, if_pos h33, idx?_zero_headD (by omega) 0]
        simp only [ok_bind]
        generalize data.headD 0 = d
        by_cases hd : d ≠ 0x0b
        · rw [if_pos hd, if_pos hd]; rfl
        · rw [if_neg hd, if_neg hd]
          rw [show (33 : Int) = ((33 : Nat) : Int) by rfl, slice?_one_len h33 (by omega)]
          rfl
      · rw [if_neg h33, if_neg h33]
        by_cases h21 : data.length ≠ 21
        · rw [if_pos h21, if_pos h21]; rfl
        · rw [if_neg h21, if_neg h21]
          have h21' : data.length = 21 := by omega
          rw [idx?_zero_headD (by omega) 0]
          simp only [ok_bind]
          have hs := slice?_one_len h21' (by omega)
          rw [show ((21 : Nat) : Int) = (21 : Int) by rfl] at hs
          generalize data.headD 0 = d
          split <;> simp only [hs, ok_bind] <;> rfl

theorem checkDecodeCashAddressC_no_fault (input : Bytes) : ∃ r, checkDecodeCashAddressC input = .ok r :=
  ⟨_, checkDecodeCashAddressC_eq_model input⟩

end CashAddr

/-- `l[lo:hi]` with the bounds identified as naturals -/
theorem slice?_nat {α : Type} {l : List α} {lo hi : Int} (a b : Nat) (hlo : lo = a) (hhi : hi = b)
    (hab : a ≤ b) (h : b ≤ l.length) : slice? l lo hi = .ok ((l.drop a).take (b - a)) := by
  subst hlo hhi; exact slice?_mid hab h

/-! ## 2. `base58.CheckDecode` (/repo/base58/base58check.go) and `DecodeWIF` (/repo/wif.go)

`base58.Decode` itself indexes only the 256-entry table `b58[...]` by a byte and is taken from the model.
In `CheckDecode` the hash is a `[32]byte` array sliced with constants (compile-time checked); in `DecodeWIF`
and `NewKeyFromString` `chainhash.DoubleHashB` returns a slice, so `[:4]` is a run-time check: it needs the
contract of the external primitive, `4 ≤ len(H x)` (SHA-256 returns 32 bytes). -/
section B58
open Bch.Model.Base58

/-- `guard = true`: the code as it is; `guard = false`: without the `len(decoded) < 5` test -/
def CheckDecodeG (guard : Bool) (H : Bytes → Bytes) (s : Bytes) : Except Fault (Except CheckErr (Bytes × UInt8)) := do
  let decoded := Decode s
  if guard && decoded.length < 5 then pure (.error .invalidFormat) else do   -- base58check.go:40
  let version ← idx? decoded 0                                     -- :43  decoded[0]
  let n : Int := decoded.length
  let ck ← slice? decoded (n - 4) n                                -- :45  decoded[len(decoded)-4:]
  let body ← slice? decoded 0 (n - 4)                              -- :46  decoded[:len(decoded)-4]
  if checksum H body ≠ ck then pure (.error .checksum) else do
  let payload ← slice? decoded 1 (n - 4)                           -- :49  decoded[1:len(decoded)-4]
  pure (.ok (payload, version))

def CheckDecodeC := CheckDecodeG true

theorem CheckDecodeC_eq_model (H : Bytes → Bytes) (s : Bytes) :
    CheckDecodeC H s = .ok (CheckDecode H s) := by
  unfold CheckDecodeC CheckDecodeG CheckDecode
  simp only [Bool.true_and, decide_eq_true_eq]
  generalize Decode s = decoded
  by_cases h5 : decoded.length < 5
  · rw [if_pos h5, if_pos h5]; rfl
  · rw [if_neg h5, if_neg h5]
    rw [idx?_zero_headD (by omega) 0]
    simp only [ok_bind]
    rw [slice?_nat (decoded.length - 4) decoded.length (by omega) (by omega) (by omega) (by omega)]
    rw [slice?_nat 0 (decoded.length - 4) (by omega) (by omega) (by omega) (by omega)]
    simp only [ok_bind, List.drop_zero, Nat.sub_zero]
    rw [List.take_of_length_le (l := List.drop _ _) (by simp)]
    by_cases hck : checksum H (List.take (decoded.length - 4) decoded) ≠ List.drop (decoded.length - 4) decoded
    · rw [if_pos hck, if_pos hck]; rfl
    · rw [if_neg hck, if_neg hck]
      rw [slice?_nat 1 (decoded.length - 4) (by omega) (by omega) (by omega) (by omega)]
      simp only [ok_bind, pure_eq_ok, List.drop_take]

theorem CheckDecodeC_no_fault (H : Bytes → Bytes) (s : Bytes) : ∃ r, CheckDecodeC H s = .ok r :=
  ⟨_, CheckDecodeC_eq_model H s⟩

/-- the length guard matters: without it the empty string (which decodes to no bytes) faults -/
theorem CheckDecodeG_false_witness (H : Bytes → Bytes) : CheckDecodeG false H [] = .error .indexOOB := by
  have : Decode [] = [] := by simp [Decode, decodeNat, leadingOnes, Bytes.ofNatMin]
  simp [CheckDecodeG, this, idx?]

end B58

section WifS
open Bch.Model.Wif

def DecodeWIFC (H : Bytes → Bytes) (s : Bytes) : Except Fault (Except Err WIF) := do
  let decoded := Base58.Decode s
  let decodedLen := decoded.length
  -- wif.go:92-102  switch decodedLen
  let sw : Option Bool ←
    if decodedLen = 38 then do
      let b ← idx? decoded 33                                      -- wif.go:94  decoded[33]
      if b ≠ 1 then pure none else pure (some true)
    else if decodedLen = 37 then pure (some false)
    else pure none
  match sw with
  | none => pure (.error .malformed)
  | some compress =>
    let tosum ← if compress then slice? decoded 0 34               -- wif.go:109  decoded[:1+32+1]
                else slice? decoded 0 33                           -- wif.go:111  decoded[:1+32]
    let cksum ← slice? (H tosum) 0 4                               -- wif.go:113  DoubleHashB(tosum)[:4]
    let tail ← slice? decoded ((decodedLen : Int) - 4) decodedLen  -- wif.go:114  decoded[decodedLen-4:]
    if cksum ≠ tail then pure (.error .checksum) else do
    let netID ← idx? decoded 0                                     -- wif.go:118  decoded[0]
    let pk ← slice? decoded 1 33                                   -- wif.go:119  decoded[1:1+32]
    pure (.ok ⟨Bytes.toNatBE pk, compress, netID⟩)

theorem DecodeWIFC_eq_model (H : Bytes → Bytes) (hH : ∀ b, 4 ≤ (H b).length) (s : Bytes) :
    DecodeWIFC H s = .ok (DecodeWIF H s) := by
  unfold DecodeWIFC DecodeWIF
  generalize Base58.Decode s = decoded
  simp only
  by_cases h38 : decoded.length = 38
  · rw [if_pos h38, if_pos h38, idx?_ok_getD (by omega) 0]
    simp only [ok_bind]
    by_cases hb : decoded.getD 33 0 ≠ 1
    · rw [if_pos hb, if_pos hb]; rfl
    · rw [if_neg hb, if_neg hb]
      simp only [pure_eq_ok, ok_bind, if_true]
      rw [slice?_nat 0 34 (by omega) (by omega) (by omega) (by omega)]
      simp only [ok_bind, List.drop_zero, Nat.sub_zero]
      rw [slice?_nat 0 4 (by omega) (by omega) (by omega) (hH _)]
      rw [slice?_nat (decoded.length - 4) decoded.length (by omega) (by omega) (by omega) (by omega)]
      simp only [ok_bind, List.drop_zero, Nat.sub_zero]
      rw [List.take_of_length_le (l := List.drop _ _) (by simp)]
      rw [h38]
      by_cases hck : List.take 4 (H (List.take 34 decoded)) ≠ List.drop (38 - 4) decoded
      · rw [if_pos hck, if_pos hck]
      · rw [if_neg hck, if_neg hck, idx?_zero_headD (by omega) 0]
        rw [slice?_nat 1 33 (by omega) (by omega) (by omega) (by omega)]
        rfl
  · rw [if_neg h38, if_neg h38]
    by_cases h37 : decoded.length = 37
    · rw [if_pos h37, if_pos h37]
      simp only [pure_eq_ok, ok_bind, Bool.false_eq_true, if_false]
      rw [slice?_nat 0 33 (by omega) (by omega) (by omega) (by omega)]
      simp only [ok_bind, List.drop_zero, Nat.sub_zero]
      rw [slice?_nat 0 4 (by omega) (by omega) (by omega) (hH _)]
      rw [slice?_nat (decoded.length - 4) decoded.length (by omega) (by omega) (by omega) (by omega)]
      simp only [ok_bind, List.drop_zero, Nat.sub_zero]
      rw [List.take_of_length_le (l := List.drop _ _) (by simp)]
      rw [h37]
      by_cases hck : List.take 4 (H (List.take 33 decoded)) ≠ List.drop (37 - 4) decoded
      · rw [if_pos hck, if_pos hck]
      · rw [if_neg hck, if_neg hck, idx?_zero_headD (by omega) 0]
        rw [slice?_nat 1 33 (by omega) (by omega) (by omega) (by omega)]
        rfl
    · rw [if_neg h37, if_neg h37]; rfl

theorem DecodeWIFC_no_fault (H : Bytes → Bytes) (hH : ∀ b, 4 ≤ (H b).length) (s : Bytes) :
    ∃ r, DecodeWIFC H s = .ok r := ⟨_, DecodeWIFC_eq_model H hH s⟩

end WifS
/-! ## 3. `NewKeyFromString` (/repo/hdkeychain/extendedkey.go:517-567) -/
section HD
open Bch.Model.HDKey
variable {Pt : Type} (X : HDExt Pt)

def NewKeyFromStringC (s : Bytes) : Except Fault (Except Err XKey) := do
  let decoded := Base58.Decode s
  if decoded.length ≠ 82 then pure (.error .invalidKeyLen) else do   -- extendedkey.go:521
  let n : Int := decoded.length
  let payload ← slice? decoded 0 (n - 4)                         -- :530  decoded[:len(decoded)-4]
  let checkSum ← slice? decoded (n - 4) n                        -- :531  decoded[len(decoded)-4:]
  let expected ← slice? (X.sha256d payload) 0 4                  -- :532  DoubleHashB(payload)[:4]
  if checkSum ≠ expected then pure (.error .badChecksum) else do
  let version ← slice? payload 0 4                               -- :538  payload[:4]
  let d ← slice? payload 4 5                                     -- :539  payload[4:5]
  let depth ← idx? d 0                                           -- :539  …[0]
  let parentFP ← slice? payload 5 9                              -- :540  payload[5:9]
  let cn ← slice? payload 9 13                                   -- :541  payload[9:13]
  let chainCode ← slice? payload 13 45                           -- :542  payload[13:45]
  let keyData ← slice? payload 45 78                             -- :543  payload[45:78]
  let k0 ← idx? keyData 0                                        -- :547  keyData[0]
  if k0 = 0 then do
    let kd ← slice? keyData 1 keyData.length                     -- :551  keyData[1:]
    let num := Bytes.toNatBE kd
    if num ≥ X.n ∨ num = 0 then pure (.error .unusableSeed)
    else pure (.ok ⟨kd, chainCode, depth.toNat, parentFP, Bytes.toNatBE cn, version, true⟩)
  else match X.parse keyData with
    | none => pure (.error .other)
    | some _ => pure (.ok ⟨keyData, chainCode, depth.toNat, parentFP, Bytes.toNatBE cn, version, false⟩)

theorem NewKeyFromStringC_eq_model (hH : ∀ b, 4 ≤ (X.sha256d b).length) (s : Bytes) :
    NewKeyFromStringC X s = .ok (NewKeyFromString X s) := by
  unfold NewKeyFromStringC NewKeyFromString
  generalize Base58.Decode s = decoded
  simp only
  by_cases h82 : decoded.length ≠ 82
  · rw [if_pos h82, if_pos h82]; rfl
  · rw [if_neg h82, if_neg h82]
    have hlen : decoded.length = 82 := by omega
    rw [slice?_nat 0 78 (by omega) (by omega) (by omega) (by omega)]
    simp only [ok_bind, List.drop_zero, Nat.sub_zero]
    rw [slice?_nat 78 82 (by omega) (by omega) (by omega) (by omega)]
    simp only [ok_bind]
    rw [List.take_of_length_le (l := List.drop _ _) (by simp; omega)]
    rw [slice?_nat 0 4 (by omega) (by omega) (by omega) (hH _)]
    simp only [ok_bind, List.drop_zero, Nat.sub_zero]
    generalize hp : List.take 78 decoded = payload
    have hpl : payload.length = 78 := by rw [← hp]; simp; omega
    by_cases hck : List.drop 78 decoded ≠ List.take 4 (X.sha256d payload)
    · rw [if_pos hck, if_pos hck]; rfl
    · rw [if_neg hck, if_neg hck]
      rw [slice?_nat 0 4 (by omega) (by omega) (by omega) (by omega)]
      simp only [ok_bind, List.drop_zero, Nat.sub_zero]
      rw [slice?_nat 4 5 (by omega) (by omega) (by omega) (by omega)]
      simp only [ok_bind]
      rw [idx?_ok_getD (by simp; omega) 0]
      simp only [ok_bind]
      rw [slice?_nat 5 9 (by omega) (by omega) (by omega) (by omega)]
      simp only [ok_bind]
      rw [slice?_nat 9 13 (by omega) (by omega) (by omega) (by omega)]
      simp only [ok_bind]
      rw [slice?_nat 13 45 (by omega) (by omega) (by omega) (by omega)]
      simp only [ok_bind]
      rw [slice?_nat 45 78 (by omega) (by omega) (by omega) (by omega)]
      simp only [ok_bind]
      have hkd : List.take (78 - 45) (List.drop 45 payload) = List.drop 45 payload :=
        List.take_of_length_le (by simp; omega)
      rw [hkd]
      have hkl : (List.drop 45 payload).length = 33 := by simp; omega
      rw [idx?_zero_headD (by omega) 1]
      simp only [ok_bind]
      have hd : (List.take (5 - 4) (List.drop 4 payload)).getD 0 0 = payload.getD 4 0 := by
        simp [List.getD]
      rw [hd]
      by_cases hk0 : (List.drop 45 payload).headD 1 = 0
      · rw [if_pos hk0, if_pos hk0]
        rw [slice?_nat 1 33 (by omega) (by omega) (by omega) (by omega)]
        simp only [ok_bind]
        rw [List.take_of_length_le (l := List.drop 1 _) (by simp; omega)]
        split <;> rfl
      · rw [if_neg hk0, if_neg hk0]
        cases X.parse (List.drop 45 payload) <;> rfl

theorem NewKeyFromStringC_no_fault (hH : ∀ b, 4 ≤ (X.sha256d b).length) (s : Bytes) :
    ∃ r, NewKeyFromStringC X s = .ok r := ⟨_, NewKeyFromStringC_eq_model X hH s⟩

end HD

/-! ## 4. bloom `hash` / `matches` / `add` (/repo/bloom/filter.go)

`MurmurHash3` is taken from the model (C09 proves it equal to the specification). The message is any
`MsgFilterLoad`; the only hypothesis is the wire limit on the size of the bit array
(`wire.MaxFilterLoadFilterSize = 36000`, enforced by `MsgFilterLoad.BchDecode`), which is what keeps
`uint32(len(Filter)) << 3` from wrapping. It is used in exactly two places: the divisor is non-zero
(`hashC_ok`), and the resulting bit index is below `8 * len` (`hashC_ok` again, for `Filter[idx>>3]`).
`hashC_wraps` shows what happens without it. -/
section BloomS
open Bch.Model.Bloom
open Bch.Proofs.Bloom (idxOf shl3_toNat idxOf_lt)

/-- `hash` (filter.go:117-126) for a bit array of `len` bytes -/
def hashC (len : Nat) (tweak : UInt32) (i : Nat) (data : Bytes) : Except Fault Nat :=
  let mm := MurmurHash3 (UInt32.ofNat i * 0xfba4c795 + tweak) data
  mod? mm.toNat (UInt32.ofNat len <<< 3).toNat                     -- filter.go:125  mm % (uint32(len) << 3)

/-- the `for` loop of `matches` (filter.go:151-156); `fuel = HashFuncs - i` -/
def matchesLoopC (m : Msg) (data : Bytes) : (fuel i : Nat) → Except Fault Bool
  | 0, _ => pure true
  | fuel+1, i => do
    let idx ← hashC m.bits.length m.tweak i data                   -- filter.go:152
    let b ← idx? m.bits (idx >>> 3)                                -- filter.go:153  Filter[idx>>3]
    if b &&& ((1 : UInt8) <<< UInt8.ofNat (idx &&& 7)) = 0 then pure false
    else matchesLoopC m data fuel (i+1)

/-- `matches` on a loaded message; `guard = false` is the code before fix e6b8a4b -/
def matchesG (guard : Bool) (m : Msg) (data : Bytes) : Except Fault Bool :=
  if guard && m.bits.isEmpty then pure true                        -- filter.go:140 (the fix)
  else matchesLoopC m data m.nHash 0

def matchesMsgC := matchesG true

/-- `matches` incl. the nil test (filter.go:133) -/
def MatchesC (f : Filter) (data : Bytes) : Except Fault Bool :=
  if f.isNone then pure false else do
  let m ← deref? f                                                 -- bf.msgFilterLoad.… after the nil test
  matchesMsgC m data

/-- the `for` loop of `add` (filter.go:210-213) -/
def addLoopC (tweak : UInt32) (data : Bytes) : (fuel i : Nat) → Bytes → Except Fault Bytes
  | 0, _, bits => pure bits
  | fuel+1, i, bits => do
    let idx ← hashC bits.length tweak i data                       -- filter.go:211
    let b ← idx? bits (idx >>> 3)                                  -- filter.go:212  Filter[idx>>3] (read of |=)
    let bits ← set? bits (idx >>> 3) (b ||| ((1 : UInt8) <<< UInt8.ofNat (7 &&& idx)))  -- filter.go:212 (write)
    addLoopC tweak data fuel (i+1) bits

def addG (guard : Bool) (m : Msg) (data : Bytes) : Except Fault Msg :=
  if guard && m.bits.isEmpty then pure m                           -- filter.go:199 (the fix)
  else do
    let bits ← addLoopC m.tweak data m.nHash 0 m.bits
    pure { m with bits := bits }

def addMsgC := addG true

def addC (f : Filter) (data : Bytes) : Except Fault Filter :=
  if f.isNone then pure none else do                               -- filter.go:199  msgFilterLoad == nil
  let m ← deref? f
  let m' ← addMsgC m data
  pure (some m')

/-! ### the hash -/

/-- here the wire limit is needed: non-zero divisor, and the index is in range -/
theorem hashC_ok (len : Nat) (tweak : UInt32) (i : Nat) (data : Bytes) (h0 : 0 < len) (h : len < 2 ^ 29) :
    hashC len tweak i data = .ok (idxOf tweak len i data) ∧ idxOf tweak len i data >>> 3 < len := by
  constructor
  · unfold hashC idxOf
    rw [mod?_ok (by rw [shl3_toNat len h]; omega), UInt32.toNat_mod]
  · have := idxOf_lt tweak len i data h0 h
    rw [Nat.shiftRight_eq_div_pow]
    have : (2 : Nat) ^ 3 = 8 := by decide
    omega

/-- the empty-array guard matters: without it the hash divides by zero -/
theorem hashC_empty (tweak : UInt32) (i : Nat) (data : Bytes) : hashC 0 tweak i data = .error .divZero := by
  unfold hashC
  have : (UInt32.ofNat 0 <<< 3).toNat = 0 := by decide
  rw [this, mod?_zero]

/-- the size limit matters: at `2^29` bytes `uint32(len) << 3` wraps to 0 and the hash divides by zero -/
theorem hashC_wraps (tweak : UInt32) (i : Nat) (data : Bytes) : hashC (2 ^ 29) tweak i data = .error .divZero := by
  unfold hashC
  have : (UInt32.ofNat (2 ^ 29) <<< 3).toNat = 0 := by decide +kernel
  rw [this, mod?_zero]

/-! ### `matches` -/

theorem matchesLoopC_eq (m : Msg) (data : Bytes) (h0 : 0 < m.bits.length) (h : m.bits.length < 2 ^ 29) :
    ∀ fuel i, matchesLoopC m data fuel i
      = .ok ((List.range' i fuel).all fun i => testBit m.bits (hashIdx m i data)) := by
  intro fuel
  induction fuel with
  | zero => intro i; rfl
  | succ fuel ih =>
    intro i
    obtain ⟨e, hlt⟩ := hashC_ok m.bits.length m.tweak i data h0 h
    simp only [matchesLoopC, e, ok_bind]
    rw [idx?_ok_getD hlt 0]
    simp only [ok_bind, List.range'_succ, List.all_cons]
    rw [ih (i+1)]
    have ht : testBit m.bits (hashIdx m i data)
        = decide (m.bits.getD (idxOf m.tweak m.bits.length i data >>> 3) 0
            &&& ((1 : UInt8) <<< UInt8.ofNat (idxOf m.tweak m.bits.length i data &&& 7)) ≠ 0) := rfl
    rw [ht]
    generalize m.bits.getD (idxOf m.tweak m.bits.length i data >>> 3) 0
            &&& ((1 : UInt8) <<< UInt8.ofNat (idxOf m.tweak m.bits.length i data &&& 7)) = b
    by_cases hz : b = 0
    · simp [hz]
    · simp [hz]

theorem isEmpty_false_iff {α : Type} (l : List α) : l.isEmpty = false ↔ 0 < l.length := by
  cases l <;> simp

theorem matchesMsgC_eq_model (m : Msg) (h : m.bits.length < 2 ^ 29) (data : Bytes) :
    matchesMsgC m data = .ok (matchesMsg m data) := by
  unfold matchesMsgC matchesG matchesMsg
  cases he : m.bits.isEmpty with
  | true => rfl
  | false =>
    simp only [Bool.and_false, Bool.false_eq_true, if_false]
    rw [matchesLoopC_eq m data ((isEmpty_false_iff _).mp he) h, List.range_eq_range']

theorem matchesMsgC_no_fault (m : Msg) (h : m.bits.length ≤ 36000) (data : Bytes) :
    ∃ r, matchesMsgC m data = .ok r := ⟨_, matchesMsgC_eq_model m (by omega) data⟩

theorem MatchesC_eq_model (f : Filter) (h : ∀ m, f = some m → m.bits.length ≤ 36000) (data : Bytes) :
    MatchesC f data = .ok (Matches f data) := by
  cases f with
  | none => rfl
  | some m =>
    simp only [MatchesC, Option.isNone_some, Bool.false_eq_true, if_false, deref?, ok_bind, Matches]
    exact matchesMsgC_eq_model m (by have := h m rfl; omega) data

/-- the guard matters: before fix e6b8a4b a loaded filter with an empty bit array and at least one hash
function divided by zero on every query -/
theorem matchesG_false_fault (m : Msg) (he : m.bits = []) (hn : 0 < m.nHash) (data : Bytes) :
    matchesG false m data = .error .divZero := by
  unfold matchesG
  simp only [Bool.false_and, Bool.false_eq_true, if_false]
  obtain ⟨k, hk⟩ : ∃ k, m.nHash = k + 1 := ⟨m.nHash - 1, by omega⟩
  rw [hk]
  simp only [matchesLoopC, he, List.length_nil, hashC_empty, err_bind]

/-! ### `add` -/

theorem addLoopC_eq (tweak : UInt32) (data : Bytes) :
    ∀ fuel i (bits : Bytes), 0 < bits.length → bits.length < 2 ^ 29 →
      addLoopC tweak data fuel i bits
        = .ok ((List.range' i fuel).foldl (fun b i => setBit b (idxOf tweak bits.length i data)) bits) := by
  intro fuel
  induction fuel with
  | zero => intro i bits _ _; rfl
  | succ fuel ih =>
    intro i bits h0 h
    obtain ⟨e, hlt⟩ := hashC_ok bits.length tweak i data h0 h
    rw [addLoopC, bind_of_ok e, bind_of_ok (idx?_ok_getD hlt 0), bind_of_ok (set?_ok hlt _)]
    rw [List.range'_succ, List.foldl_cons]
    have hs : bits.set (idxOf tweak bits.length i data >>> 3)
          (bits.getD (idxOf tweak bits.length i data >>> 3) 0 |||
            ((1 : UInt8) <<< UInt8.ofNat (7 &&& idxOf tweak bits.length i data)))
        = setBit bits (idxOf tweak bits.length i data) := by
      unfold setBit
      rw [List.modify_eq_set, Nat.and_comm, List.getD_eq_getElem?_getD]
      rfl
    rw [hs, ih (i+1) _ (by rw [Bloom.setBit_length]; exact h0) (by rw [Bloom.setBit_length]; exact h)]
    rw [Bloom.setBit_length]

theorem addMsgC_eq_model (m : Msg) (h : m.bits.length < 2 ^ 29) (data : Bytes) :
    addMsgC m data = .ok (addMsg m data) := by
  unfold addMsgC addG addMsg
  cases he : m.bits.isEmpty with
  | true => rfl
  | false =>
    simp only [Bool.and_false, Bool.false_eq_true, if_false]
    rw [addLoopC_eq m.tweak data m.nHash 0 m.bits ((isEmpty_false_iff _).mp he) h, List.range_eq_range']
    rfl

theorem addMsgC_no_fault (m : Msg) (h : m.bits.length ≤ 36000) (data : Bytes) :
    ∃ r, addMsgC m data = .ok r := ⟨_, addMsgC_eq_model m (by omega) data⟩

theorem addC_eq_model (f : Filter) (h : ∀ m, f = some m → m.bits.length ≤ 36000) (data : Bytes) :
    addC f data = .ok (add f data) := by
  cases f with
  | none => rfl
  | some m =>
    simp only [addC, Option.isNone_some, Bool.false_eq_true, if_false, deref?, ok_bind, add, Option.map_some]
    rw [addMsgC_eq_model m (by have := h m rfl; omega) data]
    rfl

theorem addG_false_fault (m : Msg) (he : m.bits = []) (hn : 0 < m.nHash) (data : Bytes) :
    addG false m data = .error .divZero := by
  unfold addG
  simp only [Bool.false_and, Bool.false_eq_true, if_false]
  obtain ⟨k, hk⟩ : ∃ k, m.nHash = k + 1 := ⟨m.nHash - 1, by omega⟩
  rw [hk]
  simp only [addLoopC, he, List.length_nil, hashC_empty, err_bind]

end BloomS

/-! ## 5. merkle `traverseAndExtract` / `ExtractMatches` (/repo/merkleblock/decode.go)

Hashes are values of an arbitrary type `H` (the Go code holds `*chainhash.Hash` pointers that come from
`wire`'s decoder, which never produces nil entries; `HashMerkleBranches` is the parameter `comb`). -/
section MerkleS
open Bch.Model.Merkle
variable {H : Type} [DecidableEq H]

/-- Go `a[i]` on the model's arrays -/
def idxA? {α : Type} (a : Array α) (i : Nat) : Except Fault α :=
  match a[i]? with
  | some x => .ok x
  | none => .error .indexOOB

theorem idxA?_ok {α : Type} {a : Array α} {i : Nat} (h : i < a.size) (d : α) : idxA? a i = .ok (a.getD i d) := by
  simp [idxA?, h, Array.getD]

theorem idxA?_oob {α : Type} {a : Array α} {i : Nat} (h : a.size ≤ i) : idxA? a i = .error .indexOOB := by
  simp [idxA?, h]

/-- `traverseAndExtract` (decode.go:144-193); `gb`/`gh` switch the two cursor guards on (current code) or off -/
def traverseG (gb gh : Bool) (comb : H → H → H) (zero : H) (n : Nat) (bits : Array Bool) (hashes : Array H) :
    Nat → Nat → Ext H → Except Fault (H × Ext H)
  | h, pos, st =>
    if gb && decide (st.bitsUsed ≥ bits.size) then pure (zero, { st with bad := true })   -- decode.go:146-150
    else do
      let parent ← idxA? bits st.bitsUsed                          -- decode.go:152  m.bits[m.bitsUsed]
      let st := { st with bitsUsed := st.bitsUsed + 1 }
      match h with
      | 0 =>                                                        -- decode.go:155  height == 0
        if gh && decide (st.hashesUsed ≥ hashes.size) then pure (zero, { st with bad := true })  -- decode.go:158-161
        else do
          let x ← idxA? hashes st.hashesUsed                        -- decode.go:163  m.finalHashes[m.hashesUsed]
          let st := { st with hashesUsed := st.hashesUsed + 1 }
          pure (x, if parent then { st with matchedHashes := st.matchedHashes ++ [x],
                                            matchedItems := st.matchedItems ++ [pos] } else st)
      | h'+1 =>
        if !parent then                                             -- decode.go:155  parent == 0
          if gh && decide (st.hashesUsed ≥ hashes.size) then pure (zero, { st with bad := true })
          else do
            let x ← idxA? hashes st.hashesUsed                      -- decode.go:163
            pure (x, { st with hashesUsed := st.hashesUsed + 1 })
        else do
          let (l, st) ← traverseG gb gh comb zero n bits hashes h' (2*pos) st          -- decode.go:176
          if 2*pos+1 < width n h' then do                                         -- decode.go:180
            let (r, st) ← traverseG gb gh comb zero n bits hashes h' (2*pos+1) st      -- decode.go:181
            let st := if r = l then { st with bad := true } else st               -- decode.go:183-187
            pure (comb l r, st)
          else pure (comb l l, st)

def traverseC (comb : H → H → H) (zero : H) (n : Nat) (bits : Array Bool) (hashes : Array H) :=
  traverseG true true comb zero n bits hashes

variable (comb : H → H → H) (zero : H) (n : Nat) (bits : Array Bool) (hashes : Array H)

theorem traverseC_eq_model : ∀ (h pos : Nat) (st : Ext H),
    traverseC comb zero n bits hashes h pos st = .ok (traverse comb zero n bits hashes h pos st) := by
  intro h
  induction h with
  | zero =>
    intro pos st
    unfold traverseC
    rw [traverseG, traverse]
    by_cases hb : st.bitsUsed ≥ bits.size
    · simp [hb]
    · simp only [hb, decide_false, Bool.and_false, Bool.false_eq_true, if_false]
      rw [bind_of_ok (idxA?_ok (by omega) false)]
      by_cases hh : st.hashesUsed ≥ hashes.size
      · simp [hh]
      · simp only [hh, decide_false, Bool.and_false, Bool.false_eq_true, if_false]
        rw [bind_of_ok (idxA?_ok (by omega) zero)]
        rfl
  | succ h ih =>
    intro pos st
    unfold traverseC at ih ⊢
    rw [traverseG, traverse]
    by_cases hb : st.bitsUsed ≥ bits.size
    · simp [hb]
    · simp only [hb, decide_false, Bool.and_false, Bool.false_eq_true, if_false]
      rw [bind_of_ok (idxA?_ok (by omega) false)]
      cases hp : bits.getD st.bitsUsed false with
      | false =>
        simp only [Bool.not_false, if_true]
        by_cases hh : st.hashesUsed ≥ hashes.size
        · simp [hh]
        · simp only [hh, decide_false, Bool.and_false, Bool.false_eq_true, if_false]
          rw [bind_of_ok (idxA?_ok (by omega) zero)]
          rfl
      | true =>
        simp only [Bool.not_true, Bool.false_eq_true, if_false]
        rw [bind_of_ok (ih (2*pos) _)]
        by_cases hw : 2*pos+1 < width n h
        · simp only [hw, if_true]
          rw [bind_of_ok (ih (2*pos+1) _)]
          rfl
        · simp only [hw, if_false]
          rfl

theorem traverseC_no_fault (h pos : Nat) (st : Ext H) :
    ∃ r, traverseC comb zero n bits hashes h pos st = .ok r := ⟨_, traverseC_eq_model comb zero n bits hashes h pos st⟩

/-- the bit-cursor guard matters: without it a traversal that runs off the bit array faults -/
theorem traverseG_noBitGuard_fault (h pos : Nat) (st : Ext H) (hb : bits.size ≤ st.bitsUsed) :
    traverseG false true comb zero n bits hashes h pos st = .error .indexOOB := by
  rw [traverseG]
  simp only [Bool.false_and, Bool.false_eq_true, if_false, idxA?_oob hb, err_bind]

/-- the hash-cursor guard matters: a leaf visited with all hashes used up faults without it -/
theorem traverseG_noHashGuard_fault (pos : Nat) (st : Ext H) (hb : st.bitsUsed < bits.size)
    (hh : hashes.size ≤ st.hashesUsed) :
    traverseG true false comb zero n bits hashes 0 pos st = .error .indexOOB := by
  rw [traverseG]
  have : ¬ st.bitsUsed ≥ bits.size := by omega
  simp only [this, decide_false, Bool.and_false, Bool.false_eq_true, if_false]
  rw [bind_of_ok (idxA?_ok hb false)]
  simp only [Bool.false_and, Bool.false_eq_true, if_false, idxA?_oob hh, err_bind]

/-! ### `NewMerkleBlockFromMsg` (decode.go:46-85): the flag-unpacking loop -/

/-- decode.go:58-64; `fuel = len(bits) - i` -/
def unpackLoopC (flags : List UInt8) : (fuel i : Nat) → List Bool → Except Fault (List Bool)
  | 0, _, bits => pure bits
  | fuel+1, i, bits => do
    let f ← idx? flags (i / 8)                                      -- decode.go:59  msg.Flags[i/8]
    let bits ← set? bits i (f &&& ((1 : UInt8) <<< UInt8.ofNat (i % 8)) ≠ 0)   -- decode.go:60/62  bits[i] = …
    unpackLoopC flags fuel (i+1) bits

def unpackFlagsC (flags : List UInt8) : Except Fault (List Bool) := do
  let bits ← make? ((flags.length : Int) * 8) false                 -- decode.go:56  make([]byte, len(msg.Flags)*8)
  unpackLoopC flags bits.length 0 bits

theorem unpackFlags_length (flags : List UInt8) : (unpackFlags flags).length = 8 * flags.length := by
  unfold unpackFlags
  induction flags with
  | nil => rfl
  | cons b bs ih =>
    simp only [List.flatMap_cons, List.length_append, List.length_map, List.length_range, ih, List.length_cons]
    omega

theorem unpackFlags_getElem : ∀ (flags : List UInt8) (i : Nat) (h : i < (unpackFlags flags).length),
    (unpackFlags flags)[i] = decide (flags.getD (i / 8) 0 &&& ((1 : UInt8) <<< UInt8.ofNat (i % 8)) ≠ 0) := by
  intro flags
  induction flags with
  | nil => intro i h; simp [unpackFlags] at h
  | cons b bs ih =>
    intro i h
    have hc : unpackFlags (b :: bs)
        = ((List.range 8).map fun i => decide (b &&& ((1 : UInt8) <<< UInt8.ofNat i) ≠ 0)) ++ unpackFlags bs := by
      simp [unpackFlags]
    simp only [hc]
    by_cases h8 : i < 8
    · rw [List.getElem_append_left (by simpa using h8)]
      have e1 : i / 8 = 0 := by omega
      have e2 : i % 8 = i := by omega
      simp [e1, e2]
    · have hl : ((List.range 8).map fun i => decide (b &&& ((1 : UInt8) <<< UInt8.ofNat i) ≠ 0)).length = 8 := by simp
      rw [List.getElem_append_right (by rw [hl]; omega)]
      simp only [hl]
      rw [ih (i - 8) (by rw [hc, List.length_append, hl] at h; omega)]
      have e1 : i / 8 = (i - 8) / 8 + 1 := by omega
      have e2 : i % 8 = (i - 8) % 8 := by omega
      rw [e1, e2]
      simp

theorem take_succ_set {α : Type} (l : List α) (i : Nat) (a : α) (h : i < l.length) :
    (l.set i a).take (i+1) = l.take i ++ [a] := by
  rw [List.take_set, List.take_succ_eq_append_getElem (by omega), List.set_append_right _ _ (by simp; omega)]
  simp [show min i l.length = i by omega]

theorem unpackLoopC_eq (flags : List UInt8) : ∀ (fuel i : Nat) (bits : List Bool),
    bits.length = 8 * flags.length → i + fuel ≤ bits.length →
    unpackLoopC flags fuel i bits
      = .ok (bits.take i ++ ((unpackFlags flags).drop i).take fuel ++ bits.drop (i + fuel)) := by
  intro fuel
  induction fuel with
  | zero => intro i bits _ _; simp [unpackLoopC]
  | succ fuel ih =>
    intro i bits hl hf
    have hi : i < bits.length := by omega
    have hu : i < (unpackFlags flags).length := by rw [unpackFlags_length]; omega
    rw [unpackLoopC, bind_of_ok (idx?_ok_getD (by omega) 0), bind_of_ok (set?_ok hi _)]
    rw [ih (i+1) _ (by simpa using hl) (by simp; omega)]
    rw [take_succ_set _ _ _ hi, List.drop_set_of_lt (by omega), List.drop_eq_getElem_cons hu,
      List.take_succ_cons, unpackFlags_getElem flags i hu]
    simp only [List.append_assoc, List.singleton_append, show i + 1 + fuel = i + (fuel + 1) by omega]

theorem unpackFlagsC_eq_model (flags : List UInt8) : unpackFlagsC flags = .ok (unpackFlags flags) := by
  unfold unpackFlagsC
  rw [bind_of_ok (make?_ok (by omega) false)]
  have hn : ((flags.length : Int) * 8).toNat = 8 * flags.length := by omega
  rw [unpackLoopC_eq flags _ 0 _ (by simp [hn]) (by omega)]
  simp only [List.take_zero, List.nil_append, List.drop_zero, Nat.zero_add, List.length_replicate, hn]
  rw [List.drop_of_length_le (by simp), List.take_of_length_le (by rw [unpackFlags_length]; omega)]
  simp

theorem unpackFlagsC_no_fault (flags : List UInt8) : ∃ r, unpackFlagsC flags = .ok r :=
  ⟨_, unpackFlagsC_eq_model flags⟩

/-! ### `ExtractMatches` (decode.go:88-140) on top of `NewMerkleBlockFromMsg` -/

def extractMsgC (msg : Msg H) : Except Fault (Extracted H) := do
  let bits := (← unpackFlagsC msg.flags).toArray                    -- NewMerkleBlockFromMsg
  let hashes := msg.hashes.toArray
  let fail : Extracted H := ⟨none, [], [], false⟩
  if msg.numTx = 0 then pure fail                                   -- decode.go:91
  else if msg.numTx > maxTxnCount then pure fail                    -- decode.go:96
  else if hashes.size > msg.numTx then pure fail                    -- decode.go:103
  else if bits.size < hashes.size then pure fail                    -- decode.go:109
  else do
    let (root, st) ← traverseC comb zero msg.numTx bits hashes (height msg.numTx) 0 {}   -- decode.go:120
    let ok := !st.bad && (st.bitsUsed + 7) / 8 == (bits.size + 7) / 8 && st.hashesUsed == hashes.size
    pure ⟨if ok then some root else none, st.matchedHashes, st.matchedItems, st.bad⟩

theorem extractMsgC_eq_model (msg : Msg H) :
    extractMsgC comb zero msg = .ok (extractMsg comb zero msg) := by
  unfold extractMsgC extractMsg
  rw [bind_of_ok (unpackFlagsC_eq_model msg.flags)]
  simp only
  split; · rfl
  split; · rfl
  split; · rfl
  split; · rfl
  rw [bind_of_ok (traverseC_eq_model ..)]
  rfl

theorem extractMsgC_no_fault (msg : Msg H) : ∃ r, extractMsgC comb zero msg = .ok r :=
  ⟨_, extractMsgC_eq_model comb zero msg⟩

/-! ### step bound

`traverseCalls` counts the invocations of `traverseAndExtract` (the call itself plus its recursive calls)
along the model's run. Every invocation either consumes one bit or is a childless "cursor exhausted"
return, and each bit-consuming invocation has at most two children, hence `calls ≤ 2 * consumed + 1`. -/

def traverseCalls : Nat → Nat → Ext H → Nat
  | h, pos, st =>
    if st.bitsUsed ≥ bits.size then 1
    else match h with
      | 0 => 1
      | h'+1 =>
        if !bits.getD st.bitsUsed false then 1
        else
          let st1 := { st with bitsUsed := st.bitsUsed + 1 }
          let r := traverse comb zero n bits hashes h' (2*pos) st1
          1 + traverseCalls h' (2*pos) st1 +
            (if 2*pos+1 < width n h' then traverseCalls h' (2*pos+1) r.2 else 0)

theorem traverse_steps_aux : ∀ (h pos : Nat) (st : Ext H),
    let r := traverse comb zero n bits hashes h pos st
    st.bitsUsed ≤ r.2.bitsUsed ∧ (st.bitsUsed ≤ bits.size → r.2.bitsUsed ≤ bits.size) ∧
      traverseCalls comb zero n bits hashes h pos st + 2 * st.bitsUsed ≤ 2 * r.2.bitsUsed + 1 := by
  intro h
  induction h with
  | zero =>
    intro pos st
    by_cases hb : st.bitsUsed < bits.size
    · simp only
      rw [Merkle.traverse_zero _ _ _ _ _ _ _ hb, traverseCalls]
      simp only [show ¬ st.bitsUsed ≥ bits.size by omega, if_false]
      split
      · simp only; omega
      · simp only; split <;> (try simp only) <;> omega
    · simp only
      rw [Merkle.traverse_oob _ _ _ _ _ _ _ _ (Nat.le_of_not_lt hb), traverseCalls]
      simp only [show st.bitsUsed ≥ bits.size by omega, if_true]
      omega
  | succ h ih =>
    intro pos st
    by_cases hb : st.bitsUsed < bits.size
    · cases hp : bits.getD st.bitsUsed false with
      | true =>
        simp only
        rw [Merkle.traverse_succ_true _ _ _ _ _ _ _ _ hb hp, traverseCalls]
        simp only [show ¬ st.bitsUsed ≥ bits.size by omega, if_false, hp, Bool.not_true, Bool.false_eq_true]
        have h1 := ih (2*pos) { st with bitsUsed := st.bitsUsed + 1 }
        simp only at h1
        generalize traverse comb zero n bits hashes h (2*pos) { st with bitsUsed := st.bitsUsed + 1 } = r1 at h1 ⊢
        have h2 := ih (2*pos+1) r1.2
        simp only at h2
        generalize traverse comb zero n bits hashes h (2*pos+1) r1.2 = r2 at h2 ⊢
        by_cases hw : 2*pos+1 < width n h
        · simp only [hw, if_true]
          split <;> (try simp only) <;> omega
        · simp only [hw, if_false]
          omega
      | false =>
        simp only
        rw [Merkle.traverse_succ_false _ _ _ _ _ _ _ _ hb hp, traverseCalls]
        simp only [show ¬ st.bitsUsed ≥ bits.size by omega, if_false, hp, Bool.not_false, if_true]
        split <;> (try simp only) <;> omega
    · simp only
      rw [Merkle.traverse_oob _ _ _ _ _ _ _ _ (Nat.le_of_not_lt hb), traverseCalls]
      simp only [show st.bitsUsed ≥ bits.size by omega, if_true]
      omega

/-- invocations of `traverseAndExtract` ≤ 2·(bits consumed) + 1 ≤ 2·(bits remaining) + 1 -/
theorem traverse_steps (h pos : Nat) (st : Ext H) :
    traverseCalls comb zero n bits hashes h pos st
      ≤ 2 * ((traverse comb zero n bits hashes h pos st).2.bitsUsed - st.bitsUsed) + 1 ∧
    traverseCalls comb zero n bits hashes h pos st ≤ 2 * (bits.size - st.bitsUsed) + 1 := by
  have := traverse_steps_aux comb zero n bits hashes h pos st
  simp only at this
  by_cases hb : st.bitsUsed ≤ bits.size
  · have := this.2.1 hb; omega
  · constructor
    · omega
    · rw [traverseCalls.eq_def]; simp only [show st.bitsUsed ≥ bits.size by omega, if_true]; omega

/-- for a whole message: at most `16 * len(Flags) + 1` invocations, whatever `numTx` and the hashes are -/
theorem extractMsg_steps (msg : Msg H) :
    traverseCalls comb zero msg.numTx (unpackFlags msg.flags).toArray msg.hashes.toArray (height msg.numTx) 0 {}
      ≤ 16 * msg.flags.length + 1 := by
  have h := (traverse_steps comb zero msg.numTx (unpackFlags msg.flags).toArray msg.hashes.toArray
    (height msg.numTx) 0 {}).2
  have hl := unpackFlags_length msg.flags
  simp only [List.size_toArray, hl] at h
  omega

end MerkleS

/-! ## 6. GCS readers (/repo/gcs/gcs.go)

`readFullUint64`, `Match` and `HashMatchAny` contain no index, slice, division or assertion (the bit
stream is `kkdai/bstream`, modelled by the bit list): their checked transcription *is* the model, and what
there is to prove about them are the step and allocation bounds. The one panicking operation is
`values[queryIndex]` in `ZipMatchAny`. -/
section GcsS
open Bch.Model.Gcs

/-- inner `for` of `ZipMatchAny` (gcs.go:416-437) with the query cursor as an index.
`fuel = querySize - queryIndex + 1`; running out of fuel is reported as a fault, so that the no-fault
theorem also shows that the fuel suffices (the loop terminates). `gq = false` drops the
`queryIndex == querySize` test. -/
def zipAdvanceG (gq : Bool) (values : List UInt64) (value : UInt64) :
    (fuel queryIndex : Nat) → Except Fault (Option Bool × Nat)
  | 0, _ => .error .indexOOB
  | fuel+1, qi =>
    if gq && decide (qi = values.length) then pure (some false, qi)  -- gcs.go:421  queryIndex == querySize
    else do
      let q ← idx? values qi                                         -- gcs.go:426  values[queryIndex]
      if q = value then pure (some true, qi)
      else do
        let q ← idx? values qi                                       -- gcs.go:432  values[queryIndex]
        if q > value then pure (none, qi)
        else zipAdvanceG gq values value fuel (qi + 1)               -- gcs.go:436  queryIndex++

/-- the outer loop of `ZipMatchAny` (gcs.go:404-438) -/
def zipLoopG (gq : Bool) (p : Nat) (values : List UInt64) : Nat → List Bool → UInt64 → Nat → Except Fault Bool
  | 0, _, _, _ => pure false
  | n+1, bs, value, qi =>
    match readFull p bs with                                         -- gcs.go:407
    | none => pure false
    | some (delta, bs) => do
      let value := value + delta
      let (r, qi) ← zipAdvanceG gq values value (values.length - qi + 1) qi
      match r with
      | some r => pure r
      | none => zipLoopG gq p values n bs value qi

def ZipMatchAnyG (gq : Bool) (sip : Bytes → UInt64) (f : Filter) (data : List Bytes) : Except Fault Bool :=
  if data.isEmpty then pure false                                    -- gcs.go:364
  else zipLoopG gq f.p (sortU64 (data.map (hashToRange sip f.modulusNP))) f.n (unpackBits f.data) 0 0

def ZipMatchAnyC := ZipMatchAnyG true
/-- no checked operation in the Go source: the transcription is the model -/
def MatchC (sip : Bytes → UInt64) (f : Filter) (d : Bytes) : Except Fault Bool := pure (Match sip f d)
/-- no checked operation in the Go source: the transcription is the model -/
def HashMatchAnyC (sip : Bytes → UInt64) (f : Filter) (data : List Bytes) : Except Fault Bool :=
  pure (HashMatchAny sip f data)
def MatchAnyC (sip : Bytes → UInt64) (f : Filter) (data : List Bytes) : Except Fault Bool :=
  if data.length ≥ f.n / 2 then HashMatchAnyC sip f data else ZipMatchAnyC sip f data   -- gcs.go:348

/-- the model's list cursor is a suffix of the query list -/
theorem zipAdvance_suffix (value : UInt64) : ∀ qs : List UInt64,
    ∃ k, k ≤ qs.length ∧ (zipAdvance value qs).2 = qs.drop k := by
  intro qs
  induction qs with
  | nil => exact ⟨0, by simp, by simp [zipAdvance]⟩
  | cons q qs ih =>
    rw [zipAdvance]
    split
    · exact ⟨0, by simp, by simp⟩
    · split
      · exact ⟨0, by simp, by simp⟩
      · obtain ⟨k, hk, e⟩ := ih
        exact ⟨k+1, by simp; omega, by simpa using e⟩

theorem zipAdvanceC_eq (values : List UInt64) (value : UInt64) : ∀ (fuel qi : Nat),
    qi ≤ values.length → values.length - qi + 1 ≤ fuel →
    ∃ qi', qi ≤ qi' ∧ qi' ≤ values.length ∧
      zipAdvanceG true values value fuel qi = .ok ((zipAdvance value (values.drop qi)).1, qi') ∧
      (zipAdvance value (values.drop qi)).2 = values.drop qi' := by
  intro fuel
  induction fuel with
  | zero => intro qi _ h; omega
  | succ fuel ih =>
    intro qi hq hf
    rw [zipAdvanceG]
    by_cases he : qi = values.length
    · subst he
      refine ⟨values.length, by omega, by omega, ?_, ?_⟩
      · simp [zipAdvance]
      · simp [zipAdvance]
    · have hlt : qi < values.length := by omega
      simp only [Bool.true_and, he, decide_false, Bool.false_eq_true, if_false]
      rw [bind_of_ok (idx?_ok hlt), List.drop_eq_getElem_cons hlt, zipAdvance]
      by_cases h1 : values[qi] = value
      · refine ⟨qi, by omega, by omega, ?_, ?_⟩
        · simp [h1]
        · simp only [h1, if_true]
          rw [← h1]
          exact (List.drop_eq_getElem_cons hlt).symm
      · simp only [h1, if_false]
        rw [bind_of_ok (idx?_ok hlt)]
        by_cases h2 : values[qi] > value
        · refine ⟨qi, by omega, by omega, ?_, ?_⟩
          · simp [h2]
          · simp [h2]
        · simp only [h2, if_false]
          obtain ⟨qi', a, b, c, d⟩ := ih (qi+1) (by omega) (by omega)
          exact ⟨qi', by omega, b, c, d⟩

theorem zipLoopC_eq (p : Nat) (values : List UInt64) : ∀ (n : Nat) (bs : List Bool) (value : UInt64) (qi : Nat),
    qi ≤ values.length →
    zipLoopG true p values n bs value qi = .ok (zipLoop p n bs value (values.drop qi)) := by
  intro n
  induction n with
  | zero => intro bs value qi _; rfl
  | succ n ih =>
    intro bs value qi hq
    rw [zipLoopG, zipLoop]
    cases readFull p bs with
    | none => rfl
    | some r =>
      obtain ⟨delta, bs'⟩ := r
      simp only
      obtain ⟨qi', _, hb, hc, hd⟩ := zipAdvanceC_eq values (value + delta) (values.length - qi + 1) qi hq (by omega)
      rw [bind_of_ok hc]
      generalize hz : zipAdvance (value + delta) (values.drop qi) = z at hd
      obtain ⟨r, rest⟩ := z
      cases r with
      | some r => rfl
      | none =>
        simp only at hd ⊢
        rw [ih bs' (value + delta) qi' hb, hd]

theorem ZipMatchAnyC_eq_model (sip : Bytes → UInt64) (f : Filter) (data : List Bytes) :
    ZipMatchAnyC sip f data = .ok (ZipMatchAny sip f data) := by
  unfold ZipMatchAnyC ZipMatchAnyG ZipMatchAny
  split
  · rfl
  · rw [zipLoopC_eq _ _ _ _ _ 0 (by omega)]; rfl

theorem ZipMatchAnyC_no_fault (sip : Bytes → UInt64) (f : Filter) (data : List Bytes) :
    ∃ r, ZipMatchAnyC sip f data = .ok r := ⟨_, ZipMatchAnyC_eq_model sip f data⟩

theorem MatchC_eq_model (sip : Bytes → UInt64) (f : Filter) (d : Bytes) : MatchC sip f d = .ok (Match sip f d) := rfl
theorem HashMatchAnyC_eq_model (sip : Bytes → UInt64) (f : Filter) (data : List Bytes) :
    HashMatchAnyC sip f data = .ok (HashMatchAny sip f data) := rfl

theorem MatchAnyC_eq_model (sip : Bytes → UInt64) (f : Filter) (data : List Bytes) :
    MatchAnyC sip f data = .ok (MatchAny sip f data) := by
  unfold MatchAnyC MatchAny
  split
  · rfl
  · exact ZipMatchAnyC_eq_model sip f data

/-- the `queryIndex == querySize` test matters: without it, a filter value above the only query value
runs the cursor off the query list -/
theorem zipAdvanceG_noGuard_fault : zipAdvanceG false [1] 5 2 0 = .error .indexOOB := by decide

/-! ### step bounds: every successful `readFullUint64` consumes at least one bit -/

theorem readBits_length : ∀ (c : Nat) (bs : List Bool) (acc : UInt64) (r : UInt64 × List Bool),
    readBits c bs acc = some r → r.2.length + c = bs.length := by
  intro c
  induction c with
  | zero => intro bs acc r h; simp only [readBits, Option.some.injEq] at h; subst h; rfl
  | succ c ih =>
    intro bs acc r h
    cases bs with
    | nil => simp [readBits] at h
    | cons b bs => rw [readBits] at h; have := ih _ _ _ h; simp only [List.length_cons]; omega

/-- a successful read consumes the terminating zero and the `p` remainder bits at least -/
theorem readFull_length (p : Nat) (bs : List Bool) (r : UInt64 × List Bool) (h : readFull p bs = some r) :
    r.2.length + p + 1 ≤ bs.length := by
  unfold readFull at h
  cases hu : readUnary bs 0 with
  | none => rw [hu] at h; cases h
  | some u =>
    rw [hu] at h
    obtain ⟨q, bs1⟩ := u
    simp only at h
    have h1 := Gcs.readUnary_length bs 0 _ hu
    cases hb : readBits p bs1 0 with
    | none => rw [hb] at h; cases h
    | some v =>
      rw [hb] at h
      obtain ⟨rr, bs2⟩ := v
      simp only [Option.some.injEq] at h
      subst h
      have h2 := readBits_length p bs1 0 _ hb
      simp only at h1 h2 ⊢
      omega

/-- number of loop iterations of `Match` that got a value from the stream -/
def matchReads (p : Nat) (term : UInt64) : Nat → List Bool → UInt64 → Nat
  | 0, _, _ => 0
  | n+1, bs, value =>
    match readFull p bs with
    | none => 0
    | some (delta, bs) =>
      let value := value + delta
      if value = term then 1 else if value > term then 1 else 1 + matchReads p term n bs value

/-- the same for `ZipMatchAny` -/
def zipReads (p : Nat) : Nat → List Bool → UInt64 → List UInt64 → Nat
  | 0, _, _, _ => 0
  | n+1, bs, value, qs =>
    match readFull p bs with
    | none => 0
    | some (delta, bs) =>
      let value := value + delta
      match zipAdvance value qs with
      | (some _, _) => 1
      | (none, qs) => 1 + zipReads p n bs value qs

theorem matchReads_le (p : Nat) (term : UInt64) : ∀ (n : Nat) (bs : List Bool) (value : UInt64),
    matchReads p term n bs value ≤ n ∧ matchReads p term n bs value ≤ bs.length := by
  intro n
  induction n with
  | zero => intro bs value; simp [matchReads]
  | succ n ih =>
    intro bs value
    rw [matchReads]
    cases hr : readFull p bs with
    | none => simp
    | some r =>
      obtain ⟨delta, bs'⟩ := r
      have hl := readFull_length p bs _ hr
      have := ih bs' (value + delta)
      simp only at hl ⊢
      split
      · omega
      · split <;> omega

theorem zipReads_le (p : Nat) : ∀ (n : Nat) (bs : List Bool) (value : UInt64) (qs : List UInt64),
    zipReads p n bs value qs ≤ n ∧ zipReads p n bs value qs ≤ bs.length := by
  intro n
  induction n with
  | zero => intro bs value qs; simp [zipReads]
  | succ n ih =>
    intro bs value qs
    rw [zipReads]
    cases hr : readFull p bs with
    | none => simp
    | some r =>
      obtain ⟨delta, bs'⟩ := r
      have hl := readFull_length p bs _ hr
      simp only at hl ⊢
      split
      · omega
      · rename_i qs' _
        have := ih bs' (value + delta) qs'
        omega

/-- `HashMatchAny`'s decode-until-EOF loop yields at most one value per bit of the stream,
whatever the fuel (and whatever `N` claims: it is not consulted) -/
theorem decodeAll_length_le (p : Nat) : ∀ (fuel : Nat) (bs : List Bool) (last : UInt64),
    (decodeAll p fuel bs last).length ≤ bs.length := by
  intro fuel
  induction fuel with
  | zero => intro bs last; simp [decodeAll]
  | succ fuel ih =>
    intro bs last
    rw [decodeAll]
    cases hr : readFull p bs with
    | none => simp
    | some r =>
      obtain ⟨delta, bs'⟩ := r
      have hl := readFull_length p bs _ hr
      have := ih bs' (last + delta)
      simp only [List.length_cons] at hl ⊢
      omega

theorem unpackBits_length (data : Bytes) : (unpackBits data).length = 8 * data.length := by
  unfold unpackBits
  induction data with
  | nil => rfl
  | cons b bs ih =>
    simp only [List.flatMap_cons, List.length_append, List.length_map, List.length_range, ih, List.length_cons]
    omega

/-- the fuel `bits + 1` given to `decodeAll` in the model never cuts the loop short: the stream is
exhausted (the next read fails) when the loop stops -/
theorem decodeAll_fuel_suffices (p : Nat) : ∀ (fuel : Nat) (bs : List Bool) (last : UInt64),
    bs.length < fuel → decodeAll p (fuel + 1) bs last = decodeAll p fuel bs last := by
  intro fuel
  induction fuel with
  | zero => intro bs last h; omega
  | succ fuel ih =>
    intro bs last h
    rw [decodeAll]
    conv => rhs; rw [decodeAll]
    cases hr : readFull p bs with
    | none => rfl
    | some r =>
      obtain ⟨delta, bs'⟩ := r
      have hl := readFull_length p bs _ hr
      simp only at hl ⊢
      rw [ih bs' _ (by omega)]

/-- `sizeHint` of fix ccc0aee (gcs.go:468-471) -/
def sizeHint (f : Filter) : Nat := min f.n (8 * f.data.length)

end GcsS

/-! ## 7. `Block.Tx(i)` (/repo/block.go:92-116)

`b.transactions` is indexed after the range check against `len(b.msgBlock.Transactions)`; that is only safe
because `len(b.transactions)` is `0` or `numTx` — the representation invariant `Inv.len` of the cache
(established by the constructors and preserved by every call: `Bch.Proofs.BlockCache.run_inv`). The
no-fault theorem therefore has that invariant as hypothesis and is instantiated for all reachable states. -/
section BlockS
open Bch.Model.BlockCache
open Bch.Proofs.BlockCache (slots Inv run run_inv inv_initMsg inv_initBytes)

/-- `guard = false`: without the range check of block.go:95 -/
def getTxG (guard : Bool) (W : Wire) (s : St) (i : Int) : Except Fault (St × Option TxW) :=
  -- block.go:94  numTx := uint64(len(b.msgBlock.Transactions))
  if guard && decide (i < 0 ∨ i.toNat ≥ numTx W) then pure (s, none)        -- block.go:95
  else do
    -- block.go:102-104  if len(b.transactions) == 0 { b.transactions = make([]*Tx, numTx) }
    let slots := slots W s      -- (`BlockCache.slots`: the stored slice, or `numTx` nils when its length is 0)
    let slot ← idxI? slots i                                        -- block.go:107  b.transactions[txNum]
    match slot with
    | some _ => do
      let slot ← idxI? slots i                                      -- block.go:108  b.transactions[txNum]
      pure ({ s with txs := some slots }, slot)
    | none => do
      let _msgTx ← idxI? W.txHashes i                               -- block.go:112  b.msgBlock.Transactions[txNum]
      let w : TxW := { handle := s.next, index := i }
      let slots' ← setI? slots i (some w)                           -- block.go:114  b.transactions[txNum] = newTx
      pure ({ s with txs := some slots', next := s.next + 1 }, some w)

def getTxC := getTxG true

/-- the model's `getTx` written with `BlockCache.slots` -/
theorem getTx_eq_slots (W : Wire) (s : St) (i : Int) : getTx W s i =
    if i < 0 ∨ i.toNat ≥ numTx W then (s, none)
    else match (slots W s).getD i.toNat none with
      | some w => ({ s with txs := some (slots W s) }, some w)
      | none => ({ s with txs := some ((slots W s).set i.toNat (some { handle := s.next, index := i })),
                          next := s.next + 1 }, some { handle := s.next, index := i }) := rfl

theorem getTxC_eq_model (W : Wire) (s : St) (hlen : (slots W s).length = numTx W) (i : Int) :
    getTxC W s i = .ok (getTx W s i) := by
  rw [getTx_eq_slots]
  unfold getTxC getTxG
  by_cases hr : i < 0 ∨ i.toNat ≥ numTx W
  · simp [hr]
  · simp only [Bool.true_and, hr, decide_false, Bool.false_eq_true, if_false]
    have h0 : 0 ≤ i := by omega
    have hk : i.toNat < numTx W := by omega
    generalize slots W s = sl at hlen ⊢
    rw [idxI?_nonneg h0, bind_of_ok (idx?_ok_getD (by omega) none)]
    cases hg : sl.getD i.toNat none with
    | some w =>
      simp only
      rw [bind_of_ok (idx?_ok_getD (by omega) none), hg]
      rfl
    | none =>
      simp only
      rw [idxI?_nonneg h0, bind_of_ok (idx?_ok (l := W.txHashes) (by unfold numTx at hk; omega))]
      rw [setI?_nonneg h0, bind_of_ok (set?_ok (by omega) _)]
      rfl

theorem getTxC_no_fault (W : Wire) (s : St) (hI : Inv W s) (i : Int) : ∃ r, getTxC W s i = .ok r :=
  ⟨_, getTxC_eq_model W s hI.len i⟩

/-- every state reachable from a block built from a message … -/
theorem getTxC_no_fault_reachable_msg (W : Wire) (calls : List Call) (i : Int) :
    ∃ r, getTxC W (run W initMsg calls).1 i = .ok r :=
  getTxC_no_fault W _ (run_inv calls (inv_initMsg W)).1 i

/-- … or from bytes -/
theorem getTxC_no_fault_reachable_bytes (W : Wire) (calls : List Call) (i : Int) :
    ∃ r, getTxC W (run W (initBytes W.ser) calls).1 i = .ok r :=
  getTxC_no_fault W _ (run_inv calls (inv_initBytes W W.ser (Or.inl rfl))).1 i

/-- the range check matters: a negative index faults without it -/
theorem getTxG_false_neg (W : Wire) (s : St) (i : Int) (h : i < 0) : getTxG false W s i = .error .indexOOB := by
  unfold getTxG
  simp only [Bool.false_and, Bool.false_eq_true, if_false, idxI?_neg h, err_bind]

/-- … and so does an index past the end (on a fresh block) -/
theorem getTxG_false_past (W : Wire) (i : Int) (h : (numTx W : Int) ≤ i) :
    getTxG false W initMsg i = .error .indexOOB := by
  unfold getTxG
  have h0 : 0 ≤ i := by omega
  simp only [Bool.false_and, Bool.false_eq_true, if_false]
  rw [idxI?_nonneg h0, idx?_oob (by simp [slots, initMsg]; omega)]
  rfl

/-- the invariant matters: a slot list of the wrong length faults even with the range check -/
theorem getTxC_bad_state : getTxC ⟨[], [], [[1],[2]], []⟩ { txs := some [none] } 1 = .error .indexOOB := by
  rfl

end BlockS

/-! ## 8. JSON `convertHex` (/repo/jsonpb/jsonpb.go:208-263)

Type *switches* (`switch tv := v.(type)`) and the comma-ok form `s, ok := e.(string)` never panic; the
single-result form `e.(string)` does (`assertStr?`). `g = true` is the code after fix 5b940ce (comma-ok),
`g = false` the code before it (and the shape `convertBase64` still has on the marshalling side, where the
arrays come from a typed protobuf message and are homogeneous — see `convStrsG_false_homogeneous`). -/
section JsonS
open Bch.Model.JsonHex (J convertHex convObj convStrs convAll convStrsUnchecked)
variable (conv : Bytes → Bytes)

/-- Go `x.(string)` (single-result form) -/
def assertStr? : J → Except Fault Bytes
  | .str s => .ok s
  | _ => .error .badAssert

/-- Go `s, ok := x.(string)` -/
def assertStrOk : J → Option Bytes
  | .str s => some s
  | _ => none

/-- the `case string:` loop over an array (jsonpb.go:234-251) -/
def convStrsG (g : Bool) : List J → Except Fault (List J)
  | [] => pure []
  | e :: rest =>
    if g then
      match assertStrOk e with                                       -- jsonpb.go:238  s, ok := e.(string)
      | none => do let r ← convStrsG g rest; pure (e :: r)           -- jsonpb.go:239-241  continue
      | some s => do let r ← convStrsG g rest; pure (.str (conv s) :: r)
    else do
      let s ← assertStr? e                                           -- before the fix:  s.(string)
      let r ← convStrsG g rest
      pure (.str (conv s) :: r)

mutual
/-- `convertHex(data)` -/
def convertHexG (g : Bool) : J → Except Fault J
  | .obj kvs => do let r ← convObjG g kvs; pure (.obj r)             -- jsonpb.go:210  case map[string]interface{}
  | .arr l =>                                                         -- jsonpb.go:231  case []interface{}
    if l.length > 0 then do                                           -- jsonpb.go:232  len(d) > 0
      let d0 ← idx? l 0                                               -- jsonpb.go:233  d[0]
      match d0 with
      | .str _ => do let r ← convStrsG conv g l; pure (.arr r)        -- jsonpb.go:234
      | .obj _ => do let r ← convAllG g l; pure (.arr r)              -- jsonpb.go:252
      | .arr _ => do let r ← convAllG g l; pure (.arr r)              -- jsonpb.go:256
      | _ => pure (.arr l)
    else pure (.arr l)
  | j => pure j
/-- the `range d` loop over a map (jsonpb.go:211-230) -/
def convObjG (g : Bool) : List (Bytes × J) → Except Fault (List (Bytes × J))
  | [] => pure []
  | (k, .str s) :: rest => do let r ← convObjG g rest; pure ((k, .str (conv s)) :: r)
  | (k, .obj o) :: rest => do                                         -- jsonpb.go:224  convertHex(tv)
    let o' ← convObjG g o
    let r ← convObjG g rest
    pure ((k, .obj o') :: r)
  | (k, .arr a) :: rest => do                                         -- jsonpb.go:226  convertHex(tv)
    let a' ← convertHexG g (.arr a)
    let r ← convObjG g rest
    pure ((k, a') :: r)
  | (_, .null) :: rest => convObjG g rest                             -- jsonpb.go:228  delete(d, k)
  | kv :: rest => do let r ← convObjG g rest; pure (kv :: r)
/-- `for _, t := range d { convertHex(t) }` (jsonpb.go:253-259) -/
def convAllG (g : Bool) : List J → Except Fault (List J)
  | [] => pure []
  | j :: rest => do
    let j' ← convertHexG g j
    let r ← convAllG g rest
    pure (j' :: r)
end

def convertHexC := convertHexG conv true

theorem convStrsC_eq_model : ∀ l : List J, convStrsG conv true l = .ok (convStrs conv l) := by
  intro l
  induction l with
  | nil => rfl
  | cons e rest ih =>
    cases e <;> simp only [convStrsG, if_true, assertStrOk, ih, ok_bind, convStrs] <;> rfl

mutual
theorem convertHexC_eq : ∀ j : J, convertHexG conv true j = .ok (convertHex conv j)
  | .null => rfl
  | .bool _ => rfl
  | .num _ => rfl
  | .str _ => rfl
  | .obj kvs => by
    rw [convertHexG, convObjC_eq kvs, convertHex]; rfl
  | .arr [] => rfl
  | .arr (.null :: rest) => rfl
  | .arr (.bool _ :: rest) => rfl
  | .arr (.num _ :: rest) => rfl
  | .arr (.str s :: rest) => by
    rw [convertHexG, convertHex]
    simp only [List.length_cons, Nat.zero_lt_succ, if_true, idx?, List.getElem?_cons_zero, ok_bind,
      convStrsC_eq_model]
    rfl
  | .arr (.obj o :: rest) => by
    rw [convertHexG, convertHex]
    simp only [List.length_cons, Nat.zero_lt_succ, if_true, idx?, List.getElem?_cons_zero, ok_bind]
    rw [convAllC_eq (.obj o :: rest)]; rfl
  | .arr (.arr a :: rest) => by
    rw [convertHexG, convertHex]
    simp only [List.length_cons, Nat.zero_lt_succ, if_true, idx?, List.getElem?_cons_zero, ok_bind]
    rw [convAllC_eq (.arr a :: rest)]; rfl
theorem convObjC_eq : ∀ kvs : List (Bytes × J), convObjG conv true kvs = .ok (convObj conv kvs)
  | [] => rfl
  | (k, .str s) :: rest => by rw [convObjG, convObjC_eq rest, convObj]; rfl
  | (k, .obj o) :: rest => by rw [convObjG, convObjC_eq o, convObjC_eq rest, convObj]; rfl
  | (k, .arr a) :: rest => by rw [convObjG, convertHexC_eq (.arr a), convObjC_eq rest, convObj]; rfl
  | (k, .null) :: rest => by rw [convObjG, convObjC_eq rest, convObj]
  | (k, .bool b) :: rest => by simp [convObjG, convObj, convObjC_eq rest]
  | (k, .num n) :: rest => by simp [convObjG, convObj, convObjC_eq rest]
theorem convAllC_eq : ∀ l : List J, convAllG conv true l = .ok (convAll conv l)
  | [] => rfl
  | j :: rest => by rw [convAllG, convertHexC_eq j, convAllC_eq rest, convAll]; rfl
end

theorem convertHexC_eq_model (j : J) : convertHexC conv j = .ok (convertHex conv j) := convertHexC_eq conv j

theorem convertHexC_no_fault (j : J) : ∃ r, convertHexC conv j = .ok r := ⟨_, convertHexC_eq_model conv j⟩

/-- the fix matters: before it, an array that starts with a string and contains anything else faults -/
theorem convertHexG_false_witness (a : Bytes) :
    convertHexG conv false (.arr [.str a, .num 1]) = .error .badAssert := by
  simp [convertHexG, idx?, convStrsG, assertStr?]

/-- … also when nested inside an object, i.e. `{"a":["00",1]}` -/
theorem convertHexG_false_witness_nested (k a : Bytes) :
    convertHexG conv false (.obj [(k, .arr [.str a, .num 1])]) = .error .badAssert := by
  simp [convertHexG, convObjG, idx?, convStrsG, assertStr?]

/-- the unchecked loop is safe on homogeneous string arrays (the marshalling side, `convertBase64`) -/
theorem convStrsG_false_homogeneous (l : List Bytes) :
    convStrsG conv false (l.map .str) = .ok (l.map fun s => .str (conv s)) := by
  induction l with
  | nil => rfl
  | cons s l ih => simp [convStrsG, assertStr?, ih]

end JsonS

end Bch.Proofs.Checked
