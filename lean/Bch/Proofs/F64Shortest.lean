import Bch.Proofs.F64
/-
  Specification of the shortest-digits search `shortestLoop` / `shortest` of `Bch.Prim.F64`
  (Go `strconv` `roundShortest`).

  * `InIv incl lo hi r`  — `r` lies in the rounding interval with end points `lo < hi`, end points
    included iff `incl`;
  * `shortestLoop_spec`   — abstract digit walk: result lies in the interval, sits at the highest decimal
    position at which any decimal lies in the interval, and is the one closest to the true value there;
  * `shortest_spec`       — the same for `shortest m e` with the interval of the float `m·2^e`.
-/
namespace Bch.Proofs.F64
open Bch.Prim.F64

/-- `r` lies between `lo` and `hi`; the end points themselves count iff `incl`. -/
def InIv (incl : Bool) (lo hi r : ℚ) : Prop :=
  (lo < r ∧ r < hi) ∨ (incl = true ∧ (r = lo ∨ r = hi))

/-- the same on natural numbers (the scaled integers the digit walk works with) -/
def InN (incl : Bool) (L U x : Nat) : Prop :=
  (L < x ∧ x < U) ∨ (incl = true ∧ (x = L ∨ x = U))

theorem inIv_scale (incl : Bool) (L U x : Nat) (s : ℚ) (hs : 0 < s) :
    InIv incl ((L:ℚ) * s) ((U:ℚ) * s) ((x:ℚ) * s) ↔ InN incl L U x := by
  unfold InIv InN
  rw [mul_lt_mul_iff_left₀ hs, mul_lt_mul_iff_left₀ hs, mul_left_inj' hs.ne', mul_left_inj' hs.ne']
  simp only [Nat.cast_lt, Nat.cast_inj]

theorem InIv.le_hi {incl : Bool} {lo hi r : ℚ} (h : InIv incl lo hi r) (hlh : lo ≤ hi) : r ≤ hi := by
  rcases h with ⟨_, h⟩ | ⟨_, h | h⟩ <;> linarith

theorem InIv.lo_le {incl : Bool} {lo hi r : ℚ} (h : InIv incl lo hi r) (hlh : lo ≤ hi) : lo ≤ r := by
  rcases h with ⟨h, _⟩ | ⟨_, h | h⟩ <;> linarith

/-- one step of the walk, as an equation -/
theorem shortestLoop_succ (incl : Bool) (W fuel D L U : Nat) (p : Int) :
    shortestLoop incl W (fuel + 1) D L U p =
      (if (decide (D / W * W > L) || (incl && D / W * W == L)) &&
          (decide (D / W * W + W < U) || (incl && D / W * W + W == U)) then
        (if decide (2 * (D - D / W * W) > W) || (2 * (D - D / W * W) == W && D / W % 2 == 1)
          then (D / W + 1, p) else (D / W, p))
      else if (decide (D / W * W > L) || (incl && D / W * W == L)) then (D / W, p)
      else if (decide (D / W * W + W < U) || (incl && D / W * W + W == U)) then (D / W + 1, p)
      else shortestLoop incl W fuel (D * 10) (L * 10) (U * 10) (p - 1)) := rfl

theorem okdown_iff (incl : Bool) (L U dn : Nat) (h : dn < U) :
    (decide (dn > L) || (incl && dn == L)) = true ↔ InN incl L U dn := by
  unfold InN
  simp only [Bool.or_eq_true, decide_eq_true_eq, Bool.and_eq_true, beq_iff_eq]
  constructor
  · rintro (h1 | ⟨h1, h2⟩)
    · exact Or.inl ⟨h1, h⟩
    · exact Or.inr ⟨h1, Or.inl h2⟩
  · rintro (⟨h1, _⟩ | ⟨h1, h2 | h2⟩)
    · exact Or.inl h1
    · exact Or.inr ⟨h1, h2⟩
    · omega

theorem okup_iff (incl : Bool) (L U up : Nat) (h : L < up) :
    (decide (up < U) || (incl && up == U)) = true ↔ InN incl L U up := by
  unfold InN
  simp only [Bool.or_eq_true, decide_eq_true_eq, Bool.and_eq_true, beq_iff_eq]
  constructor
  · rintro (h1 | ⟨h1, h2⟩)
    · exact Or.inl ⟨h, h1⟩
    · exact Or.inr ⟨h1, Or.inr h2⟩
  · rintro (⟨_, h1⟩ | ⟨h1, h2 | h2⟩)
    · exact Or.inl h1
    · omega
    · exact Or.inr ⟨h1, h2⟩

/-- a candidate at or below the truncation makes the truncation admissible -/
theorem InN.down {incl : Bool} {L U D x dn : Nat} (h : InN incl L U x) (hx : x ≤ dn) (hd : dn ≤ D)
    (hDU : D < U) : InN incl L U dn := by
  unfold InN at h ⊢
  rcases h with ⟨h1, _⟩ | ⟨h1, h2 | h2⟩
  · exact Or.inl ⟨by omega, by omega⟩
  · rcases Nat.eq_or_lt_of_le hx with h3 | h3
    · exact Or.inr ⟨h1, Or.inl (by omega)⟩
    · exact Or.inl ⟨by omega, by omega⟩
  · omega

theorem InN.up {incl : Bool} {L U D x up : Nat} (h : InN incl L U x) (hx : up ≤ x) (hd : D < up)
    (hLD : L < D) : InN incl L U up := by
  unfold InN at h ⊢
  rcases h with ⟨_, h1⟩ | ⟨h1, h2 | h2⟩
  · exact Or.inl ⟨by omega, by omega⟩
  · omega
  · rcases Nat.eq_or_lt_of_le hx with h3 | h3
    · exact Or.inr ⟨h1, Or.inr (by omega)⟩
    · exact Or.inl ⟨by omega, by omega⟩

/-- **The digit walk, on the scaled integers.**  From a state `L < D < U` (value and interval end points in
units of `10^p / W`), if some decimal `n·10^(p-d)` with `d < fuel` lies in the interval, the walk stops
at a position `p - d` with a digit string `N` such that
* `N·10^(p-d)` lies in the interval,
* no decimal at a higher position does,
* `N·10^(p-d)` is at least as close to the value as any other decimal of that position in the interval,
* and when another one is equally close, `N` is even. -/
theorem shortestLoop_nat (incl : Bool) (W : Nat) (hW : 0 < W) :
    ∀ (fuel D L U : Nat) (p : Int), L < D → D < U →
      (∃ d n, d < fuel ∧ InN incl (L * 10^d) (U * 10^d) (n * W)) →
      ∃ d N : Nat, shortestLoop incl W fuel D L U p = (N, p - (d : Int)) ∧
        InN incl (L * 10^d) (U * 10^d) (N * W) ∧
        (∀ d' n, d' < d → ¬ InN incl (L * 10^d') (U * 10^d') (n * W)) ∧
        (∀ n, InN incl (L * 10^d) (U * 10^d) (n * W) →
          ((D * 10^d : Nat) - (N * W : Nat) : Int).natAbs ≤ ((D * 10^d : Nat) - (n * W : Nat) : Int).natAbs) ∧
        (∀ n, n ≠ N → InN incl (L * 10^d) (U * 10^d) (n * W) →
          ((D * 10^d : Nat) - (n * W : Nat) : Int).natAbs = ((D * 10^d : Nat) - (N * W : Nat) : Int).natAbs →
          N % 2 = 0) := by
  intro fuel
  induction fuel with
  | zero => intro D L U p _ _ ⟨d, n, hd, _⟩; omega
  | succ fuel ih =>
    intro D L U p hLD hDU hcand
    rw [shortestLoop_succ]
    have hdn : D / W * W ≤ D := Nat.div_mul_le_self D W
    have hup : D < D / W * W + W := Nat.lt_div_mul_add hW
    have hod := okdown_iff incl L U (D / W * W) (by omega)
    have hou := okup_iff incl L U (D / W * W + W) (by omega)
    have hupW : D / W * W + W = (D / W + 1) * W := by rw [Nat.add_mul, Nat.one_mul]
    -- candidates at the current position
    have hlow : ∀ n, InN incl L U (n * W) → n ≤ D / W → InN incl L U (D / W * W) := fun n h hn =>
      h.down (Nat.mul_le_mul_right W hn) hdn hDU
    have hhigh : ∀ n, InN incl L U (n * W) → D / W + 1 ≤ n → InN incl L U (D / W * W + W) := fun n h hn =>
      h.up (by rw [hupW]; exact Nat.mul_le_mul_right W hn) hup hLD
    have hmulL : ∀ n, n ≤ D / W → n * W ≤ D / W * W := fun n hn => Nat.mul_le_mul_right W hn
    have hmulL' : ∀ n, n + 1 ≤ D / W → n * W + W ≤ D / W * W := fun n hn => by
      have := Nat.mul_le_mul_right W hn; rw [Nat.add_mul, Nat.one_mul] at this; exact this
    have hmulU : ∀ n, D / W + 1 ≤ n → D / W * W + W ≤ n * W := fun n hn => by
      rw [hupW]; exact Nat.mul_le_mul_right W hn
    have hmulU' : ∀ n, D / W + 2 ≤ n → D / W * W + W + W ≤ n * W := fun n hn => by
      have := Nat.mul_le_mul_right W hn; rw [Nat.add_mul] at this; omega
    by_cases hd : (decide (D / W * W > L) || (incl && D / W * W == L)) = true
    · by_cases hu : (decide (D / W * W + W < U) || (incl && D / W * W + W == U)) = true
      · -- both admissible: nearest, ties to even
        have hD := hod.mp hd
        have hU := hou.mp hu
        rw [if_pos (by rw [hd, hu]; rfl)]
        split
        · rename_i hc
          simp only [Bool.or_eq_true, decide_eq_true_eq, Bool.and_eq_true, beq_iff_eq] at hc
          refine ⟨0, D / W + 1, by simp, by simpa [← hupW] using hU, by omega, ?_, ?_⟩
          · intro n hn
            simp only [Nat.pow_zero, Nat.mul_one]
            rcases Nat.lt_or_ge n (D / W + 1) with h | h
            · have := hmulL n (by omega); omega
            · have := hmulU n h; omega
          · intro n hne hn heq
            simp only [Nat.pow_zero, Nat.mul_one] at heq
            rcases Nat.lt_or_ge n (D / W + 1) with h | h
            · rcases Nat.lt_or_ge n (D / W) with h' | h'
              · have := hmulL' n (by omega); omega
              · have : n = D / W := by omega
                subst this; omega
            · have := hmulU' n (by omega); omega
        · rename_i hc
          simp only [Bool.or_eq_true, decide_eq_true_eq, Bool.and_eq_true, beq_iff_eq, not_or, not_and,
            not_lt] at hc
          refine ⟨0, D / W, by simp, by simpa using hD, by omega, ?_, ?_⟩
          · intro n hn
            simp only [Nat.pow_zero, Nat.mul_one]
            rcases Nat.lt_or_ge n (D / W + 1) with h | h
            · have := hmulL n (by omega); omega
            · have := hmulU n h; omega
          · intro n hne hn heq
            simp only [Nat.pow_zero, Nat.mul_one] at heq
            rcases Nat.lt_or_ge n (D / W + 1) with h | h
            · have := hmulL' n (by omega); omega
            · rcases Nat.lt_or_ge n (D / W + 2) with h' | h'
              · have : n = D / W + 1 := by omega
                subst this; rw [← hupW] at heq
                have := hc.2 (by omega); omega
              · have := hmulU' n h'; omega
      · -- only truncation admissible
        have hD := hod.mp hd
        have hnU : ¬ InN incl L U (D / W * W + W) := fun h => hu (hou.mpr h)
        rw [if_neg (by rw [hd]; simpa using hu), if_pos hd]
        refine ⟨0, D / W, by simp, by simpa using hD, by omega, ?_, ?_⟩
        · intro n hn
          simp only [Nat.pow_zero, Nat.mul_one] at hn ⊢
          rcases Nat.lt_or_ge n (D / W + 1) with h | h
          · have := hmulL n (by omega); omega
          · exact absurd (hhigh n hn h) hnU
        · intro n hne hn heq
          simp only [Nat.pow_zero, Nat.mul_one] at hn heq
          rcases Nat.lt_or_ge n (D / W + 1) with h | h
          · have := hmulL' n (by omega); omega
          · exact absurd (hhigh n hn h) hnU
    · have hnD : ¬ InN incl L U (D / W * W) := fun h => hd (hod.mpr h)
      by_cases hu : (decide (D / W * W + W < U) || (incl && D / W * W + W == U)) = true
      · -- only rounding up admissible
        have hU := hou.mp hu
        rw [if_neg (by simp only [Bool.and_eq_true, not_and]; exact fun h => absurd h hd), if_neg hd, if_pos hu]
        refine ⟨0, D / W + 1, by simp, by simpa [← hupW] using hU, by omega, ?_, ?_⟩
        · intro n hn
          simp only [Nat.pow_zero, Nat.mul_one] at hn ⊢
          rcases Nat.lt_or_ge n (D / W + 1) with h | h
          · exact absurd (hlow n hn (by omega)) hnD
          · have := hmulU n h; omega
        · intro n hne hn heq
          simp only [Nat.pow_zero, Nat.mul_one] at hn heq
          rcases Nat.lt_or_ge n (D / W + 1) with h | h
          · exact absurd (hlow n hn (by omega)) hnD
          · have := hmulU' n (by omega); omega
      · -- neither: descend one position
        have hnU : ¬ InN incl L U (D / W * W + W) := fun h => hu (hou.mpr h)
        rw [if_neg (by simp only [Bool.and_eq_true, not_and]; exact fun h => absurd h hd), if_neg hd, if_neg hu]
        have hnone : ∀ n, ¬ InN incl L U (n * W) := by
          intro n hn
          rcases Nat.lt_or_ge n (D / W + 1) with h | h
          · exact hnD (hlow n hn (by omega))
          · exact hnU (hhigh n hn h)
        obtain ⟨d, n, hdf, hn⟩ := hcand
        have hd0 : d ≠ 0 := by
          rintro rfl
          simp only [Nat.pow_zero, Nat.mul_one] at hn
          exact hnone n hn
        obtain ⟨d1, rfl⟩ : ∃ d1, d = d1 + 1 := ⟨d - 1, by omega⟩
        have e10 : ∀ (X k : Nat), X * 10 * 10^k = X * 10^(k+1) := fun X k => by
          rw [Nat.pow_succ, Nat.mul_assoc, Nat.mul_comm 10]
        obtain ⟨d2, N, heq, hin, hmin, hcl, hev⟩ := ih (D * 10) (L * 10) (U * 10) (p - 1) (by omega) (by omega)
          ⟨d1, n, by omega, by rw [e10, e10]; exact hn⟩
        refine ⟨d2 + 1, N, ?_, ?_, ?_, ?_, ?_⟩
        · rw [heq]; congr 1; push_cast; ring
        · rw [← e10, ← e10]; exact hin
        · intro d' n' hd' hn'
          rcases Nat.eq_zero_or_pos d' with rfl | hpos
          · simp only [Nat.pow_zero, Nat.mul_one] at hn'
            exact hnone n' hn'
          · obtain ⟨d'', rfl⟩ : ∃ d'', d' = d'' + 1 := ⟨d' - 1, by omega⟩
            rw [← e10, ← e10] at hn'
            exact hmin d'' n' (by omega) hn'
        · intro n' hn'
          rw [← e10] at hn' ⊢
          rw [← e10] at hn'
          exact hcl n' hn'
        · intro n' hne hn' heq'
          rw [← e10] at hn' heq'
          rw [← e10] at hn'
          exact hev n' hne hn' heq'

/-! ### `shortest`: set-up of the walk -/

/-- numerator (in units of `2^(e-2)`) of the lower end point of the rounding interval of `m·2^e` -/
def shL (m : Nat) (e : Int) : Nat :=
  if m > 4503599627370496 || e == -1074 then 4 * m - 2 else 4 * m - 1
/-- first decimal position tried for a value below `2^B` -/
def p0Of (B : Int) : Int := Int.fdiv (B * 30103) 100000 + 2
def shB (m : Nat) (e : Int) : Int := (bitLen (4 * m + 2) : Int) + (e - 2)
def shNmul (e2 p0 : Int) : Nat :=
  (if e2 ≥ 0 then 1 <<< e2.toNat else 1) * (if p0 ≥ 0 then 1 else 10 ^ (-p0).toNat)
def shW (e2 p0 : Int) : Nat :=
  (if e2 ≥ 0 then 1 else 1 <<< (-e2).toNat) * (if p0 ≥ 0 then 10 ^ p0.toNat else 1)

theorem shortest_eq (m : Nat) (e : Int) :
    shortest m e =
      shortestLoop (m % 2 == 0) (shW (e - 2) (p0Of (shB m e))) 1200
        (4 * m * shNmul (e - 2) (p0Of (shB m e))) (shL m e * shNmul (e - 2) (p0Of (shB m e)))
        ((4 * m + 2) * shNmul (e - 2) (p0Of (shB m e))) (p0Of (shB m e)) := by
  have hp0 : ((↑(bitLen (4 * m + 2)) + (e - 2)) * 30103).fdiv 100000 + 2 = p0Of (shB m e) := rfl
  unfold shortest shNmul shW shL
  simp only [hp0]
  by_cases hp : p0Of (shB m e) ≥ 0
  · simp only [hp, if_true, Nat.mul_one]
  · simp only [hp, if_false, Nat.mul_one]

theorem zpow_eq_div (a : ℚ) (x : Int) : a ^ x = a ^ x.toNat / a ^ (-x).toNat := by
  rcases le_or_gt 0 x with h | h
  · have h1 : x = (x.toNat : Int) := by omega
    have h2 : (-x).toNat = 0 := by omega
    rw [h2, pow_zero, div_one]
    conv_lhs => rw [h1]
    exact zpow_natCast a _
  · have h1 : x = -((-x).toNat : Int) := by omega
    have h2 : x.toNat = 0 := by omega
    rw [h2, pow_zero, one_div]
    conv_lhs => rw [h1, zpow_neg, zpow_natCast]

theorem shW_pos (e2 p0 : Int) : 0 < shW e2 p0 := by
  unfold shW
  apply Nat.mul_pos
  · split
    · norm_num
    · rw [Nat.shiftLeft_eq]; positivity
  · split <;> positivity

theorem shNmul_pos (e2 p0 : Int) : 0 < shNmul e2 p0 := by
  unfold shNmul
  apply Nat.mul_pos
  · split
    · rw [Nat.shiftLeft_eq]; positivity
    · norm_num
  · split <;> positivity

/-- the walk's units: `nmul / W · 10^p0 = 2^e2` -/
theorem shScale (e2 p0 : Int) :
    (shNmul e2 p0 : ℚ) * ((10:ℚ) ^ p0 / (shW e2 p0 : ℚ)) = (2:ℚ) ^ e2 := by
  rw [zpow_eq_div 2 e2, zpow_eq_div 10 p0]
  unfold shNmul shW
  by_cases h1 : e2 ≥ 0 <;> by_cases h2 : p0 ≥ 0
  · have a1 : (-e2).toNat = 0 := by omega
    have a2 : (-p0).toNat = 0 := by omega
    simp only [h1, h2, if_true, a1, a2, Nat.shiftLeft_eq]
    push_cast; field_simp
  · have a1 : (-e2).toNat = 0 := by omega
    have a2 : p0.toNat = 0 := by omega
    simp only [h1, h2, if_true, if_false, a1, a2, Nat.shiftLeft_eq]
    push_cast; field_simp
  · have a1 : e2.toNat = 0 := by omega
    have a2 : (-p0).toNat = 0 := by omega
    simp only [h1, h2, if_true, if_false, a1, a2, Nat.shiftLeft_eq]
    push_cast; field_simp
  · have a1 : e2.toNat = 0 := by omega
    have a2 : p0.toNat = 0 := by omega
    simp only [h1, h2, if_false, a1, a2, Nat.shiftLeft_eq]
    push_cast; field_simp

/-! ### the two logarithm estimates, by evaluation over the whole exponent range -/

/-- `a^x < b^y` for integer exponents, decided on natural numbers -/
def zpowLt (a : Nat) (x : Int) (b : Nat) (y : Int) : Bool :=
  a ^ x.toNat * b ^ (-y).toNat < b ^ y.toNat * a ^ (-x).toNat

theorem zpowLt_sound (a b : Nat) (ha : 0 < a) (hb : 0 < b) (x y : Int) (h : zpowLt a x b y = true) :
    (a:ℚ) ^ x < (b:ℚ) ^ y := by
  unfold zpowLt at h
  rw [decide_eq_true_eq] at h
  have ha' : (0:ℚ) < a := by exact_mod_cast ha
  have hb' : (0:ℚ) < b := by exact_mod_cast hb
  rw [zpow_eq_div (a:ℚ) x, zpow_eq_div (b:ℚ) y, div_lt_div_iff₀ (by positivity) (by positivity)]
  exact_mod_cast h

/-- for a value below `2^B`: `2^B < 10^p0` (nothing is skipped above the first position) and
`10^(p0-20) < 2^(B-54)` (twenty positions further down the spacing is below half an ulp) -/
def shChk (B : Int) : Bool := zpowLt 2 B 10 (p0Of B) && zpowLt 10 (p0Of B - 20) 2 (B - 54)

theorem shChk_all : ∀ i : Nat, i < 2100 → shChk ((i : Int) - 1073) = true := by decide +kernel

theorem shChk_spec (B : Int) (h1 : -1073 ≤ B) (h2 : B ≤ 1024) :
    (2:ℚ) ^ B < (10:ℚ) ^ (p0Of B) ∧ (10:ℚ) ^ (p0Of B - 20) < (2:ℚ) ^ (B - 54) := by
  have h := shChk_all (B + 1073).toNat (by omega)
  have e : (((B + 1073).toNat : Nat) : Int) - 1073 = B := by omega
  rw [e] at h
  unfold shChk at h
  rw [Bool.and_eq_true] at h
  exact ⟨by simpa using zpowLt_sound 2 10 (by norm_num) (by norm_num) _ _ h.1,
    by simpa using zpowLt_sound 10 2 (by norm_num) (by norm_num) _ _ h.2⟩

theorem natAbs_sub_cast (a b : Nat) : ((((a : Int) - (b : Int)).natAbs : Nat) : ℚ) = |(a:ℚ) - (b:ℚ)| := by
  rw [Nat.cast_natAbs]; push_cast; rfl

theorem shL_bounds (m : Nat) (e : Int) (hm : 0 < m) : 4 * m - 2 ≤ shL m e ∧ shL m e < 4 * m ∧ 0 < shL m e := by
  unfold shL; split <;> omega

theorem cand_aux (incl : Bool) (X Y Z W : Nat) (hW : 0 < W) (hY : Y < X) (hZ : W < Z) :
    InN incl Y (X + Z) (X / W * W + W) := by
  have h1 := Nat.lt_div_mul_add (a := X) hW
  have h1' := Nat.div_mul_le_self X W
  exact Or.inl ⟨by omega, by omega⟩

/-- **Specification of `shortest`** for every positive finite significand/exponent pair.
With `lo`, `hi` the end points of the rounding interval of `m·2^e` (halfway to the neighbouring floats,
included iff `m` is even), the result `(N, p)` satisfies: `N·10^p` lies in the interval; no decimal
`n·10^j` with `j > p` (i.e. with fewer digits) does; among the decimals `n·10^p` in the interval it is
closest to `m·2^e`, and `N` is even if another one is equally close. -/
theorem shortest_spec (m : Nat) (e : Int) (hm : 0 < m) (hm53 : m < 2^53) (he : -1074 ≤ e) (he2 : e ≤ 971) :
    ∃ (N : Nat) (p : Int), shortest m e = (N, p) ∧
      InIv (m % 2 == 0) ((shL m e : ℚ) * 2^(e-2)) (((4 * m + 2 : Nat) : ℚ) * 2^(e-2)) ((N:ℚ) * 10^p) ∧
      (∀ (n : Nat) (j : Int),
        InIv (m % 2 == 0) ((shL m e : ℚ) * 2^(e-2)) (((4 * m + 2 : Nat) : ℚ) * 2^(e-2)) ((n:ℚ) * 10^j) → j ≤ p) ∧
      (∀ n : Nat,
        InIv (m % 2 == 0) ((shL m e : ℚ) * 2^(e-2)) (((4 * m + 2 : Nat) : ℚ) * 2^(e-2)) ((n:ℚ) * 10^p) →
        |(m:ℚ) * 2^e - (N:ℚ) * 10^p| ≤ |(m:ℚ) * 2^e - (n:ℚ) * 10^p|) ∧
      (∀ n : Nat, n ≠ N →
        InIv (m % 2 == 0) ((shL m e : ℚ) * 2^(e-2)) (((4 * m + 2 : Nat) : ℚ) * 2^(e-2)) ((n:ℚ) * 10^p) →
        |(m:ℚ) * 2^e - (n:ℚ) * 10^p| = |(m:ℚ) * 2^e - (N:ℚ) * 10^p| → N % 2 = 0) := by
  obtain ⟨hL1, hL2, hL3⟩ := shL_bounds m e hm
  -- the bit length of `U`
  have hU0 : 4 * m + 2 ≠ 0 := by omega
  obtain ⟨_, hbl1, hbl2⟩ := bitLen_spec (4 * m + 2) hU0
  have hbl55 : bitLen (4 * m + 2) ≤ 55 := by
    by_contra hc
    have : 2^55 ≤ 2^(bitLen (4 * m + 2) - 1) := Nat.pow_le_pow_right (by norm_num) (by omega)
    omega
  have hbl3 : 3 ≤ bitLen (4 * m + 2) := by
    by_contra hc
    have : 2^(bitLen (4 * m + 2)) ≤ 2^2 := Nat.pow_le_pow_right (by norm_num) (by omega)
    omega
  obtain ⟨hc1, hc2⟩ := shChk_spec (shB m e) (by unfold shB; omega) (by unfold shB; omega)
  rw [shortest_eq]
  set p0 := p0Of (shB m e) with hp0
  set nmul := shNmul (e - 2) p0 with hnmul
  set W := shW (e - 2) p0 with hWdef
  set incl := (m % 2 == 0) with hincl
  have hW : 0 < W := shW_pos _ _
  have hN : 0 < nmul := shNmul_pos _ _
  have hWq : (0:ℚ) < W := by exact_mod_cast hW
  have hNq : (0:ℚ) < nmul := by exact_mod_cast hN
  have hsc : (nmul : ℚ) * ((10:ℚ) ^ p0 / (W : ℚ)) = (2:ℚ) ^ (e - 2) := shScale _ _
  have h2e := two_zpow_pos (e - 2)
  -- scaled integers ↔ rationals
  have key : ∀ (X d : Nat), ((X * nmul * 10^d : Nat) : ℚ) * ((10:ℚ) ^ (p0 - (d:Int)) / W) = X * 2^(e-2) := by
    intro X d
    rw [← hsc, zpow_sub₀ (by norm_num : (10:ℚ) ≠ 0), zpow_natCast]
    push_cast; field_simp
  have keyn : ∀ (n d : Nat), ((n * W : Nat) : ℚ) * ((10:ℚ) ^ (p0 - (d:Int)) / W) = n * 10 ^ (p0 - (d:Int)) := by
    intro n d; push_cast; field_simp
  have conv : ∀ (d n : Nat),
      InN incl (shL m e * nmul * 10^d) ((4 * m + 2) * nmul * 10^d) (n * W) ↔
      InIv incl ((shL m e : ℚ) * 2^(e-2)) (((4 * m + 2 : Nat) : ℚ) * 2^(e-2)) ((n:ℚ) * 10^(p0 - (d:Int))) := by
    intro d n
    have hs : (0:ℚ) < (10:ℚ) ^ (p0 - (d:Int)) / W := by positivity
    rw [← inIv_scale incl _ _ _ _ hs, key, key, keyn]
  -- the upper end point is below `10^p0`, the half-ulp above `10^(p0-20)`
  have hhi : (((4 * m + 2 : Nat) : ℚ)) * 2^(e-2) < (10:ℚ) ^ p0 := by
    have h1 : (((4 * m + 2 : Nat) : ℚ)) < 2 ^ (bitLen (4 * m + 2)) := by exact_mod_cast hbl2
    have h2 : (2:ℚ) ^ (shB m e) = 2 ^ (bitLen (4 * m + 2)) * 2^(e-2) := by
      unfold shB; rw [zpow_add₀ (by norm_num : (2:ℚ) ≠ 0), zpow_natCast]
    calc (((4 * m + 2 : Nat) : ℚ)) * 2^(e-2) < 2 ^ (bitLen (4 * m + 2)) * 2^(e-2) :=
          mul_lt_mul_of_pos_right h1 h2e
      _ = (2:ℚ) ^ (shB m e) := h2.symm
      _ < _ := hc1
  have hstep : (10:ℚ) ^ (p0 - 20) < 2 * 2^(e-2) := by
    have h1 : (2:ℚ) ^ (shB m e - 54) ≤ 2 ^ ((e - 2) + 1) :=
      zpow_le_zpow_right₀ (by norm_num) (by unfold shB; omega)
    rw [zpow_add₀ (by norm_num : (2:ℚ) ≠ 0), zpow_one] at h1
    linarith
  have hWlt : W < 2 * nmul * 10^20 := by
    have h1 : (10:ℚ) ^ (p0 - 20) = 10 ^ p0 / 10^20 := by
      rw [zpow_sub₀ (by norm_num : (10:ℚ) ≠ 0)]; norm_num
    rw [h1, ← hsc, div_lt_iff₀ (by norm_num)] at hstep
    have h3 : (0:ℚ) < (10:ℚ) ^ p0 := by positivity
    have h4 : (10:ℚ) ^ p0 < 2 * (nmul * (10 ^ p0 / W)) * 10^20 := hstep
    have h5 : (W:ℚ) < 2 * nmul * 10^20 := by
      have : 2 * ((nmul:ℚ) * (10 ^ p0 / W)) * 10^20 = (2 * nmul * 10^20) * 10^p0 / W := by field_simp
      rw [this, lt_div_iff₀ hWq] at h4
      nlinarith
    exact_mod_cast h5
  have hcand : InN incl (shL m e * nmul * 10^20) ((4 * m + 2) * nmul * 10^20)
      ((4 * m * nmul * 10^20 / W + 1) * W) := by
    have h1 := Nat.lt_div_mul_add (a := 4 * m * nmul * 10^20) hW
    have h1' := Nat.div_mul_le_self (4 * m * nmul * 10^20) W
    have h2 : shL m e * nmul * 10^20 < 4 * m * nmul * 10^20 :=
      Nat.mul_lt_mul_of_pos_right (Nat.mul_lt_mul_of_pos_right hL2 hN) (by positivity)
    have h3 : (4 * m + 2) * nmul * 10^20 = 4 * m * nmul * 10^20 + 2 * nmul * 10^20 := by ring
    have h4 : (4 * m * nmul * 10^20 / W + 1) * W = 4 * m * nmul * 10^20 / W * W + W := by
      rw [Nat.add_mul, Nat.one_mul]
    rw [h3, h4]
    exact cand_aux incl _ _ _ W hW h2 hWlt
  -- run the walk
  obtain ⟨d, N, heq, hin, hmin, hcl, hev⟩ := shortestLoop_nat incl W hW 1200
    (4 * m * nmul) (shL m e * nmul) ((4 * m + 2) * nmul) p0
    (Nat.mul_lt_mul_of_pos_right hL2 hN) (Nat.mul_lt_mul_of_pos_right (by omega) hN)
    ⟨20, 4 * m * nmul * 10^20 / W + 1, by norm_num, hcand⟩
  refine ⟨N, p0 - (d:Int), heq, (conv d N).mp hin, ?_, ?_, ?_⟩
  · intro n j hn
    by_contra hj
    have hj' : p0 - (d:Int) < j := by omega
    rcases lt_or_ge p0 j with h | h
    · -- above the first position: the decimal exceeds the upper end point (or is zero)
      have hle := hn.le_hi (by nlinarith [show (shL m e : ℚ) < ((4 * m + 2 : Nat) : ℚ) by exact_mod_cast (by omega : shL m e < 4 * m + 2)])
      rcases Nat.eq_zero_or_pos n with rfl | hnpos
      · have hlo : (0:ℚ) < (shL m e : ℚ) * 2^(e-2) := by
          have : (0:ℚ) < shL m e := by exact_mod_cast hL3
          positivity
        have hhipos : (0:ℚ) < ((4 * m + 2 : Nat) : ℚ) * 2^(e-2) := by positivity
        have h0 : ((0:Nat):ℚ) * 10 ^ j = 0 := by simp
        rw [h0] at hn
        rcases hn with ⟨h1, _⟩ | ⟨_, h1 | h1⟩ <;> linarith
      · have h1 : (10:ℚ) ^ p0 ≤ 10 ^ j := zpow_le_zpow_right₀ (by norm_num) h.le
        have h2 : (1:ℚ) ≤ n := by exact_mod_cast hnpos
        have h3 : (0:ℚ) < (10:ℚ) ^ j := by positivity
        nlinarith
    · obtain ⟨d', hd'⟩ : ∃ d' : Nat, j = p0 - (d':Int) := ⟨(p0 - j).toNat, by omega⟩
      rw [hd'] at hn
      exact hmin d' n (by omega) ((conv d' n).mpr hn)
  · intro n hn
    have h := hcl n ((conv d n).mpr hn)
    have hs : (0:ℚ) < (10:ℚ) ^ (p0 - (d:Int)) / W := by positivity
    have hq : (|((4 * m * nmul * 10^d : Nat) : ℚ) - ((N * W : Nat) : ℚ)|) ≤
        |((4 * m * nmul * 10^d : Nat) : ℚ) - ((n * W : Nat) : ℚ)| := by
      rw [← natAbs_sub_cast, ← natAbs_sub_cast]; exact_mod_cast h
    have hv : (m:ℚ) * 2^e = ((4 * m * nmul * 10^d : Nat) : ℚ) * ((10:ℚ) ^ (p0 - (d:Int)) / W) := by
      rw [key, zpow_sub₀ (by norm_num : (2:ℚ) ≠ 0)]; push_cast; ring
    rw [hv, ← keyn N d, ← keyn n d, ← sub_mul, ← sub_mul, abs_mul, abs_mul, abs_of_pos hs]
    exact mul_le_mul_of_nonneg_right hq hs.le
  · intro n hne hn heq'
    apply hev n hne ((conv d n).mpr hn)
    have hs : (0:ℚ) < (10:ℚ) ^ (p0 - (d:Int)) / W := by positivity
    have hv : (m:ℚ) * 2^e = ((4 * m * nmul * 10^d : Nat) : ℚ) * ((10:ℚ) ^ (p0 - (d:Int)) / W) := by
      rw [key, zpow_sub₀ (by norm_num : (2:ℚ) ≠ 0)]; push_cast; ring
    rw [hv, ← keyn N d, ← keyn n d, ← sub_mul, ← sub_mul, abs_mul, abs_mul, abs_of_pos hs] at heq'
    have hq := mul_right_cancel₀ hs.ne' heq'
    rw [← natAbs_sub_cast, ← natAbs_sub_cast] at hq
    exact_mod_cast hq

end Bch.Proofs.F64

