import Bch.Proofs.F64Bits
import Mathlib.Tactic.Ring
import Mathlib.Tactic.Linarith
import Mathlib.Tactic.NormNum
import Mathlib.Tactic.FieldSimp
import Mathlib.Tactic.Positivity
import Mathlib.Algebra.Order.Field.Power
/-
  Exact rational value of a float and the integer rounding step (`rneMant`) of `roundScaled`.
-/
namespace Bch.Proofs.F64
open Bch.Prim.F64

/-- sign factor `±1` -/
def sgnQ (a : UInt64) : ℚ := if isNeg a then -1 else 1
/-- magnitude `m·2^e` of a finite float -/
def absval (a : UInt64) : ℚ := ((decodeAbs a).1 : ℚ) * (2:ℚ) ^ (decodeAbs a).2
/-- signed value of a finite float (meaningless for NaN/Inf) -/
def fval (a : UInt64) : ℚ := sgnQ a * absval a
/-- exact value of a float as a rational; `none` for NaN/Inf.  `-0 ↦ 0`. -/
def val (a : UInt64) : Option ℚ := (decode a).map fun p => (p.1 : ℚ) * (2:ℚ) ^ p.2

theorem val_eq (a : UInt64) : val a = if isFinite a then some (fval a) else none := by
  unfold val decode fval sgnQ absval
  by_cases h : isFinite a = true
  · simp only [h, if_true, Option.map_some]
    by_cases hn : isNeg a = true <;> simp [hn]
  · simp [h]

theorem val_eq_some_iff (a : UInt64) (v : ℚ) : val a = some v ↔ isFinite a = true ∧ fval a = v := by
  rw [val_eq]; by_cases h : isFinite a = true <;> simp [h]

theorem absval_nonneg (a : UInt64) : 0 ≤ absval a := by unfold absval; positivity

theorem abs_fval (a : UInt64) : |fval a| = absval a := by
  unfold fval sgnQ
  split <;> simp [abs_of_nonneg (absval_nonneg a)]

theorem fval_neg (a : UInt64) : fval (neg a) = - fval a := by
  unfold fval sgnQ absval
  rw [decodeAbs_neg, isNeg_neg]
  by_cases h : isNeg a = true <;> simp [h]

theorem val_neg (a : UInt64) : val (neg a) = (val a).map (fun v => -v) := by
  rw [val_eq, val_eq, isFinite_neg, fval_neg]
  split <;> simp

/-- `decodeAbs` always yields `m < 2^53`, `e ≥ -1074`. -/
theorem decodeAbs_bounds (a : UInt64) : (decodeAbs a).1 < 2^53 ∧ -1074 ≤ (decodeAbs a).2 := by
  rw [decodeAbs_eq]
  have := toNat_fields a
  split <;> simp <;> omega

theorem bitLen_spec (M : Nat) (h : M ≠ 0) : 0 < bitLen M ∧ 2^(bitLen M - 1) ≤ M ∧ M < 2^(bitLen M) := by
  unfold bitLen
  simp only [beq_iff_eq, h, if_false]
  refine ⟨by omega, ?_, Nat.lt_log2_self⟩
  simpa using Nat.log2_self_le h

/-- the integer rounding step of `roundScaled` -/
def rneMant (M sh : Nat) (sticky : Bool) : Nat :=
  let q := M >>> sh
  let r := M - (q <<< sh)
  let half : Nat := 1 <<< (sh - 1)
  if r > half || (r == half && (sticky || q % 2 == 1)) then q + 1 else q

theorem rneMant_bounds (M sh : Nat) (sticky : Bool) :
    M / 2^sh ≤ rneMant M sh sticky ∧ rneMant M sh sticky ≤ M / 2^sh + 1 := by
  unfold rneMant
  simp only [Nat.shiftRight_eq_div_pow]
  split <;> omega

/-- `rneMant` is round-half-even of `x / 2^sh` where `x ∈ [M, M+1)` and `x ≠ M ↔ sticky`. -/
theorem rneMant_spec (M sh : Nat) (sticky : Bool) (hsh : 1 ≤ sh) (x : ℚ)
    (hx1 : (M:ℚ) ≤ x) (hx2 : x < M + 1) (hst : sticky = true ↔ x ≠ M) :
    |x - (rneMant M sh sticky : ℚ) * 2^sh| ≤ 2^sh / 2 ∧
    (|x - (rneMant M sh sticky : ℚ) * 2^sh| = 2^sh / 2 → rneMant M sh sticky % 2 = 0) := by
  obtain ⟨k, rfl⟩ : ∃ k, sh = k + 1 := ⟨sh - 1, by omega⟩
  unfold rneMant
  simp only [Nat.shiftRight_eq_div_pow, Nat.shiftLeft_eq, Nat.add_sub_cancel, Nat.one_mul]
  set Q := M / 2^(k+1) with hQ
  set H := 2^k with hH
  have hP : 2^(k+1) = 2 * H := by rw [Nat.pow_succ]; omega
  have hr : M - Q * 2^(k+1) = M % (2*H) := by
    rw [hQ, hP, Nat.mod_def, Nat.mul_comm]
  have hMd : M = Q * (2*H) + M % (2*H) := by
    rw [hQ, hP, Nat.mul_comm]; exact (Nat.div_add_mod M (2*H)).symm
  have hHpos : 0 < H := Nat.pow_pos (by norm_num)
  have hrlt : M % (2*H) < 2*H := Nat.mod_lt _ (by omega)
  rw [hr]
  set r := M % (2*H) with hrdef
  have hPq : (2:ℚ)^(k+1) = 2 * (H:ℚ) := by rw [hH]; push_cast; ring
  have hMq : (M:ℚ) = Q * (2*H) + r := by exact_mod_cast hMd
  have hHq : (0:ℚ) < H := by exact_mod_cast hHpos
  rw [hPq]
  split
  next hc =>
    -- round up
    have hc' : r > H ∨ (r = H ∧ (sticky = true ∨ Q % 2 = 1)) := by
      simpa using hc
    have hge : (H:ℚ) ≤ r := by
      rcases hc' with h | h
      · exact_mod_cast h.le
      · exact_mod_cast h.1.ge
    have hrq : (r:ℚ) + 1 ≤ 2*H := by exact_mod_cast hrlt
    push_cast
    constructor
    · rw [abs_le]; constructor <;> nlinarith
    · intro htie
      have hneg : x - ((Q:ℚ) + 1) * (2 * H) ≤ 0 := by nlinarith
      rw [abs_of_nonpos hneg] at htie
      have hxr : x = Q * (2*H) + H := by linarith
      rcases hc' with h | h
      · have : (H:ℚ) + 1 ≤ r := by exact_mod_cast h
        linarith
      · have hrH : (r:ℚ) = H := by exact_mod_cast h.1
        have hxM : x = M := by rw [hMq, hrH]; exact hxr
        rcases h.2 with h2 | h2
        · exact absurd hxM (hst.mp h2)
        · omega
  next hc =>
    have hc' : r ≤ H ∧ (r = H → sticky = false ∧ Q % 2 = 0) := by
      simp only [Bool.or_eq_true, decide_eq_true_eq, Bool.and_eq_true, beq_iff_eq, not_or, not_and,
        not_lt] at hc
      refine ⟨hc.1, fun h => ?_⟩
      have := hc.2 h
      cases sticky <;> simp at this ⊢
      omega
    by_cases hrH : r = H
    · obtain ⟨hs, hev⟩ := hc'.2 hrH
      have hxM : x = M := by
        by_contra hne
        have := hst.mpr hne
        rw [hs] at this; exact absurd this (by simp)
      have hrHq : (r:ℚ) = H := by exact_mod_cast hrH
      have : x - (Q:ℚ) * (2*H) = H := by rw [hxM, hMq, hrHq]; ring
      rw [this, abs_of_pos hHq]
      exact ⟨by linarith, fun _ => hev⟩
    · have hlt : (r:ℚ) + 1 ≤ H := by
        have : r < H := by omega
        exact_mod_cast this
      have h0 : (0:ℚ) ≤ r := by positivity
      constructor
      · rw [abs_le]; constructor <;> nlinarith
      · intro htie
        have hpos : 0 ≤ x - (Q:ℚ) * (2 * H) := by nlinarith
        rw [abs_of_nonneg hpos] at htie
        nlinarith

end Bch.Proofs.F64
