import Bch.Model.TxSort
/-
Helper lemmas for C18 (BIP69 sorting) — comparators are strict weak orders given by a strictly totally
ordered key, insertion sort is a sorted permutation, sorted permutations are unique up to equal keys.
Core Lean only.
-/
namespace Bch.Proofs.TxSort
open Bch Bch.Bytes Bch.Model.TxSort

/-! ## Order notions -/

/-- `less` is a strict weak order (what Go's `sort.Interface.Less` must be) -/
structure StrictWeak {α : Type} (less : α → α → Bool) : Prop where
  irrefl : ∀ a, less a a = false
  trans : ∀ a b c, less a b = true → less b c = true → less a c = true
  incomp_trans : ∀ a b c, less a b = false → less b a = false → less b c = false → less c b = false →
    less a c = false ∧ less c a = false

/-- a strict total order on keys -/
structure StrictTotal {κ : Type} (lt : κ → κ → Prop) : Prop where
  irrefl : ∀ k, ¬ lt k k
  trans : ∀ a b c, lt a b → lt b c → lt a c
  total : ∀ a b, a = b ∨ lt a b ∨ lt b a

/-- `less` compares a key under a strict total order -/
structure KeyOrder {α κ : Type} (less : α → α → Bool) (key : α → κ) (lt : κ → κ → Prop) : Prop where
  less_iff : ∀ a b, less a b = true ↔ lt (key a) (key b)
  st : StrictTotal lt

theorem StrictTotal.asymm {κ : Type} {lt : κ → κ → Prop} (h : StrictTotal lt) {a b : κ} :
    lt a b → ¬ lt b a := fun h1 h2 => h.irrefl a (h.trans a b a h1 h2)

theorem KeyOrder.less_false_iff {α κ : Type} {less : α → α → Bool} {key : α → κ} {lt : κ → κ → Prop}
    (h : KeyOrder less key lt) (a b : α) : less a b = false ↔ ¬ lt (key a) (key b) := by
  rw [← h.less_iff]; simp

/-- incomparable ⇔ equal keys -/
theorem KeyOrder.incomp_iff {α κ : Type} {less : α → α → Bool} {key : α → κ} {lt : κ → κ → Prop}
    (h : KeyOrder less key lt) (a b : α) :
    (less a b = false ∧ less b a = false) ↔ key a = key b := by
  rw [h.less_false_iff, h.less_false_iff]
  constructor
  · rintro ⟨h1, h2⟩
    rcases h.st.total (key a) (key b) with e | l | l
    · exact e
    · exact absurd l h1
    · exact absurd l h2
  · intro e; rw [e]; exact ⟨h.st.irrefl _, h.st.irrefl _⟩

theorem KeyOrder.strictWeak {α κ : Type} {less : α → α → Bool} {key : α → κ} {lt : κ → κ → Prop}
    (h : KeyOrder less key lt) : StrictWeak less where
  irrefl a := by rw [h.less_false_iff]; exact h.st.irrefl _
  trans a b c := by
    rw [h.less_iff, h.less_iff, h.less_iff]; exact h.st.trans _ _ _
  incomp_trans a b c h1 h2 h3 h4 := by
    have e1 := (h.incomp_iff a b).1 ⟨h1, h2⟩
    have e2 := (h.incomp_iff b c).1 ⟨h3, h4⟩
    exact (h.incomp_iff a c).2 (e1.trans e2)

/-- asymmetry -/
theorem StrictWeak.asymm {α : Type} {less : α → α → Bool} (h : StrictWeak less) {a b : α}
    (hab : less a b = true) : less b a = false := by
  cases hba : less b a
  · rfl
  · have := h.trans a b a hab hba
    rw [h.irrefl] at this; cases this

/-- "not greater" (`¬ less b a`) is transitive for a strict weak order — this is what makes the adjacent check of
    `sort.IsSorted` equivalent to pairwise sortedness -/
theorem StrictWeak.le_trans {α : Type} {less : α → α → Bool} (h : StrictWeak less) {a b c : α}
    (hab : less b a = false) (hbc : less c b = false) : less c a = false := by
  cases hca : less c a
  · rfl
  · exfalso
    -- b, c incomparable
    have hbc' : less b c = false := by
      cases hx : less b c
      · rfl
      · have := h.trans b c a hx hca; rw [hab] at this; cases this
    have hab' : less a b = false := by
      cases hx : less a b
      · rfl
      · have := h.trans c a b hca hx; rw [hbc] at this; cases this
    have := (h.incomp_trans a b c hab' hab hbc' hbc).2
    rw [hca] at this; cases this

/-- lexicographic product of two relations -/
def lex2 {α β : Type} (r : α → α → Prop) (s : β → β → Prop) (p q : α × β) : Prop :=
  r p.1 q.1 ∨ (p.1 = q.1 ∧ s p.2 q.2)

theorem StrictTotal.lex2 {α β : Type} {r : α → α → Prop} {s : β → β → Prop}
    (hr : StrictTotal r) (hs : StrictTotal s) : StrictTotal (lex2 r s) where
  irrefl k := by
    rintro (h | ⟨_, h⟩)
    · exact hr.irrefl _ h
    · exact hs.irrefl _ h
  trans a b c := by
    rintro (h1 | ⟨e1, h1⟩) (h2 | ⟨e2, h2⟩)
    · exact Or.inl (hr.trans _ _ _ h1 h2)
    · exact Or.inl (e2 ▸ h1)
    · exact Or.inl (e1 ▸ h2)
    · exact Or.inr ⟨e1.trans e2, hs.trans _ _ _ h1 h2⟩
  total a b := by
    obtain ⟨a1, a2⟩ := a
    obtain ⟨b1, b2⟩ := b
    rcases hr.total a1 b1 with e | l | l
    · subst e
      rcases hs.total a2 b2 with e | l | l
      · subst e; exact Or.inl rfl
      · exact Or.inr (Or.inl (Or.inr ⟨rfl, l⟩))
      · exact Or.inr (Or.inr (Or.inr ⟨rfl, l⟩))
    · exact Or.inr (Or.inl (Or.inl l))
    · exact Or.inr (Or.inr (Or.inl l))

theorem strictTotal_nat : StrictTotal (fun a b : Nat => a < b) where
  irrefl k := Nat.lt_irrefl k
  trans _ _ _ := Nat.lt_trans
  total a b := by omega

theorem strictTotal_int : StrictTotal (fun a b : Int => a < b) where
  irrefl k := Int.lt_irrefl k
  trans _ _ _ := Int.lt_trans
  total a b := by omega

/-! ## `bytesLt` = `bytes.Compare(a,b) < 0` -/

theorem bytesLt_cons (a b : UInt8) (as bs : Bytes) :
    bytesLt (a :: as) (b :: bs) = true ↔ a < b ∨ (a = b ∧ bytesLt as bs = true) := by
  simp only [bytesLt]
  by_cases h1 : a < b
  · simp [h1]
  · by_cases h2 : b < a
    · have hne : a ≠ b := by rintro rfl; exact h1 h2
      simp [h1, h2, hne]
    · have he : a = b := UInt8.le_antisymm (UInt8.not_lt.1 h2) (UInt8.not_lt.1 h1)
      subst he
      simp [h1]

@[simp] theorem bytesLt_nil_nil : bytesLt [] [] = false := rfl
@[simp] theorem bytesLt_nil_cons (b : UInt8) (bs : Bytes) : bytesLt [] (b :: bs) = true := rfl
@[simp] theorem bytesLt_cons_nil (a : UInt8) (as : Bytes) : bytesLt (a :: as) [] = false := rfl

theorem bytesLt_nil_right (a : Bytes) : bytesLt a [] = false := by cases a <;> rfl

/-- `bytesLt` is the standard lexicographic `<` on `List UInt8` (`List.Lex (· < ·)`) -/
theorem bytesLt_iff_lt (a b : Bytes) : bytesLt a b = true ↔ a < b := by
  induction a generalizing b with
  | nil => cases b <;> simp
  | cons x xs ih =>
    cases b with
    | nil => simp
    | cons y ys => rw [bytesLt_cons, List.cons_lt_cons_iff, ih]

/-- Specification order: byte-wise lexicographic; `a` is a proper prefix of `b`, or after a common prefix `p` the
    next byte of `a` is smaller. -/
def Spec.lexLt (a b : Bytes) : Prop :=
  ∃ p : Bytes, (∃ y ys, a = p ∧ b = p ++ y :: ys) ∨
    (∃ x xs y ys, a = p ++ x :: xs ∧ b = p ++ y :: ys ∧ x < y)

theorem Spec.lexLt_nil_right (a : Bytes) : ¬ Spec.lexLt a [] := by
  rintro ⟨p, ⟨y, ys, _, h⟩ | ⟨x, xs, y, ys, _, h, _⟩⟩ <;> simp at h

theorem Spec.lexLt_nil_cons (b : UInt8) (bs : Bytes) : Spec.lexLt [] (b :: bs) :=
  ⟨[], Or.inl ⟨b, bs, rfl, rfl⟩⟩

theorem Spec.lexLt_cons_cons (x y : UInt8) (xs ys : Bytes) :
    Spec.lexLt (x :: xs) (y :: ys) ↔ x < y ∨ (x = y ∧ Spec.lexLt xs ys) := by
  constructor
  · rintro ⟨p, h⟩
    cases p with
    | nil =>
      rcases h with ⟨y', ys', h1, _⟩ | ⟨x', xs', y', ys', h1, h2, h3⟩
      · simp at h1
      · simp only [List.nil_append, List.cons.injEq] at h1 h2
        rw [h1.1, h2.1]; exact Or.inl h3
    | cons z p =>
      rcases h with ⟨y', ys', h1, h2⟩ | ⟨x', xs', y', ys', h1, h2, h3⟩
      · simp only [List.cons_append, List.cons.injEq] at h1 h2
        exact Or.inr ⟨h1.1.trans h2.1.symm, p, Or.inl ⟨y', ys', h1.2, h2.2⟩⟩
      · simp only [List.cons_append, List.cons.injEq] at h1 h2
        exact Or.inr ⟨h1.1.trans h2.1.symm, p, Or.inr ⟨x', xs', y', ys', h1.2, h2.2, h3⟩⟩
  · rintro (h | ⟨rfl, p, h⟩)
    · exact ⟨[], Or.inr ⟨x, xs, y, ys, rfl, rfl, h⟩⟩
    · rcases h with ⟨y', ys', h1, h2⟩ | ⟨x', xs', y', ys', h1, h2, h3⟩
      · exact ⟨x :: p, Or.inl ⟨y', ys', by rw [h1], by rw [h2]; rfl⟩⟩
      · exact ⟨x :: p, Or.inr ⟨x', xs', y', ys', by rw [h1]; rfl, by rw [h2]; rfl, h3⟩⟩

/-- `bytesLt` decides the specification order -/
theorem bytesLt_iff (a b : Bytes) : bytesLt a b = true ↔ Spec.lexLt a b := by
  induction a generalizing b with
  | nil =>
    cases b with
    | nil => simp [Spec.lexLt_nil_right]
    | cons y ys => simp [Spec.lexLt_nil_cons]
  | cons x xs ih =>
    cases b with
    | nil => simp [Spec.lexLt_nil_right]
    | cons y ys => rw [bytesLt_cons, Spec.lexLt_cons_cons, ih]

theorem bytesLt_irrefl (a : Bytes) : bytesLt a a = false := by
  induction a with
  | nil => rfl
  | cons x xs ih =>
    cases h : bytesLt (x :: xs) (x :: xs)
    · rfl
    · rw [bytesLt_cons] at h
      rcases h with h | ⟨_, h⟩
      · exact absurd h (UInt8.lt_irrefl x)
      · rw [ih] at h; cases h

theorem bytesLt_trans (a b c : Bytes) : bytesLt a b = true → bytesLt b c = true → bytesLt a c = true := by
  induction a generalizing b c with
  | nil =>
    intro h1 h2
    cases c with
    | nil => rw [bytesLt_nil_right] at h2; cases h2
    | cons z zs => rfl
  | cons x xs ih =>
    intro h1 h2
    cases b with
    | nil => simp at h1
    | cons y ys =>
      cases c with
      | nil => simp at h2
      | cons z zs =>
        rw [bytesLt_cons] at h1 h2 ⊢
        rcases h1 with h1 | ⟨rfl, h1⟩
        · rcases h2 with h2 | ⟨rfl, h2⟩
          · exact Or.inl (UInt8.lt_trans h1 h2)
          · exact Or.inl h1
        · rcases h2 with h2 | ⟨rfl, h2⟩
          · exact Or.inl h2
          · exact Or.inr ⟨rfl, ih _ _ h1 h2⟩

theorem bytesLt_total (a b : Bytes) : a = b ∨ bytesLt a b = true ∨ bytesLt b a = true := by
  induction a generalizing b with
  | nil => cases b <;> simp
  | cons x xs ih =>
    cases b with
    | nil => simp
    | cons y ys =>
      rw [bytesLt_cons, bytesLt_cons]
      by_cases hxy : x = y
      · subst hxy
        rcases ih ys with e | l | l
        · exact Or.inl (by rw [e])
        · exact Or.inr (Or.inl (Or.inr ⟨rfl, l⟩))
        · exact Or.inr (Or.inr (Or.inr ⟨rfl, l⟩))
      · rcases UInt8.lt_or_lt_of_ne hxy with l | l
        · exact Or.inr (Or.inl (Or.inl l))
        · exact Or.inr (Or.inr (Or.inl l))

theorem strictTotal_bytesLt : StrictTotal (fun a b : Bytes => bytesLt a b = true) where
  irrefl k := by simp [bytesLt_irrefl]
  trans := bytesLt_trans
  total := bytesLt_total

theorem strictTotal_lexLt : StrictTotal Spec.lexLt := by
  have h := strictTotal_bytesLt
  simp only [bytesLt_iff] at h
  exact h

/-! ## big-endian value -/

theorem toNatBE_foldl (acc : Nat) (bs : Bytes) :
    bs.foldl (fun acc b => acc * 256 + b.toNat) acc = acc * 256 ^ bs.length + toNatBE bs := by
  unfold toNatBE
  induction bs generalizing acc with
  | nil => simp
  | cons b bs ih =>
    simp only [List.foldl_cons, List.length_cons]
    rw [ih, ih (0 * 256 + b.toNat), Nat.pow_succ]
    simp only [Nat.zero_mul, Nat.zero_add, Nat.add_mul]
    rw [Nat.mul_assoc, Nat.mul_comm 256]
    omega

theorem toNatBE_nil : toNatBE [] = 0 := rfl

theorem toNatBE_cons (b : UInt8) (bs : Bytes) :
    toNatBE (b :: bs) = b.toNat * 256 ^ bs.length + toNatBE bs := by
  have := toNatBE_foldl (0 * 256 + b.toNat) bs
  simp only [Nat.zero_mul, Nat.zero_add] at this
  rw [← this]; simp [toNatBE]

theorem toNatBE_lt (bs : Bytes) : toNatBE bs < 256 ^ bs.length := by
  induction bs with
  | nil => simp [toNatBE_nil]
  | cons b bs ih =>
    rw [toNatBE_cons, List.length_cons, Nat.pow_succ]
    have hb : b.toNat < 256 := UInt8.toNat_lt b
    have : (b.toNat + 1) * 256 ^ bs.length ≤ 256 * 256 ^ bs.length :=
      Nat.mul_le_mul_right _ (by omega)
    rw [Nat.add_mul] at this
    omega

/-- on byte strings of equal length, `bytesLt` is `<` of the big-endian values -/
theorem bytesLt_iff_toNatBE (a b : Bytes) (h : a.length = b.length) :
    bytesLt a b = true ↔ toNatBE a < toNatBE b := by
  induction a generalizing b with
  | nil =>
    cases b with
    | nil => simp [toNatBE_nil]
    | cons y ys => simp at h
  | cons x xs ih =>
    cases b with
    | nil => simp at h
    | cons y ys =>
      simp only [List.length_cons, Nat.add_right_cancel_iff] at h
      rw [bytesLt_cons, toNatBE_cons, toNatBE_cons, ih ys h, h]
      have hx := toNatBE_lt xs
      have hy := toNatBE_lt ys
      rw [h] at hx
      rw [UInt8.lt_iff_toNat_lt, ← UInt8.toNat_inj]
      generalize 256 ^ ys.length = P at *
      generalize x.toNat = xn at *
      generalize y.toNat = yn at *
      constructor
      · rintro (hlt | ⟨rfl, hlt⟩)
        · have : (xn + 1) * P ≤ yn * P := Nat.mul_le_mul_right _ hlt
          rw [Nat.add_mul] at this
          omega
        · omega
      · intro hlt
        rcases Nat.lt_trichotomy xn yn with l | e | g
        · exact Or.inl l
        · subst e; exact Or.inr ⟨rfl, by omega⟩
        · exfalso
          have : (yn + 1) * P ≤ xn * P := Nat.mul_le_mul_right _ g
          rw [Nat.add_mul] at this
          omega

theorem toNatBE_inj (a b : Bytes) (h : a.length = b.length) (e : toNatBE a = toNatBE b) : a = b := by
  rcases bytesLt_total a b with r | l | l
  · exact r
  · rw [bytesLt_iff_toNatBE a b h] at l; omega
  · rw [bytesLt_iff_toNatBE b a h.symm] at l; omega

/-! ## the two BIP69 comparators -/

/-- comparison key of an input as the code sees it: reversed hash bytes, then index -/
def inKey (a : TxIn) : Bytes × Nat := (a.hash.reverse, a.index)
/-- comparison key of an output: amount, then script bytes -/
def outKey (a : TxOut) : Int × Bytes := (a.value, a.script)

def inKeyLt : Bytes × Nat → Bytes × Nat → Prop :=
  lex2 (fun a b : Bytes => bytesLt a b = true) (fun a b : Nat => a < b)
def outKeyLt : Int × Bytes → Int × Bytes → Prop :=
  lex2 (fun a b : Int => a < b) (fun a b : Bytes => bytesLt a b = true)

theorem lessIn_iff_key (a b : TxIn) : lessIn a b = true ↔ inKeyLt (inKey a) (inKey b) := by
  unfold lessIn inKeyLt lex2 inKey
  by_cases h : a.hash = b.hash
  · simp [h, bytesLt_irrefl]
  · simp [h]

theorem lessOut_iff_key (a b : TxOut) : lessOut a b = true ↔ outKeyLt (outKey a) (outKey b) := by
  unfold lessOut outKeyLt lex2 outKey
  by_cases h : a.value = b.value
  · simp [h]
  · simp [h]

theorem keyOrder_lessIn : KeyOrder lessIn inKey inKeyLt :=
  ⟨lessIn_iff_key, strictTotal_bytesLt.lex2 strictTotal_nat⟩

theorem keyOrder_lessOut : KeyOrder lessOut outKey outKeyLt :=
  ⟨lessOut_iff_key, strictTotal_int.lex2 strictTotal_bytesLt⟩

theorem strictWeak_lessIn : StrictWeak lessIn := keyOrder_lessIn.strictWeak
theorem strictWeak_lessOut : StrictWeak lessOut := keyOrder_lessOut.strictWeak

theorem inKey_eq_iff (a b : TxIn) : inKey a = inKey b ↔ a.hash = b.hash ∧ a.index = b.index := by
  simp [inKey]

theorem outKey_eq_iff (a b : TxOut) : outKey a = outKey b ↔ a = b := by
  cases a; cases b; simp [outKey]

/-- BIP69 input order: previous transaction id read as a big-endian number (the wire hash is little-endian, so the
    bytes are reversed), then output index -/
def Spec.inLt (a b : TxIn) : Prop :=
  toNatBE a.hash.reverse < toNatBE b.hash.reverse ∨
    (toNatBE a.hash.reverse = toNatBE b.hash.reverse ∧ a.index < b.index)

/-- BIP69 output order: amount, then script bytes lexicographically -/
def Spec.outLt (a b : TxOut) : Prop :=
  a.value < b.value ∨ (a.value = b.value ∧ Spec.lexLt a.script b.script)

theorem lessIn_iff (a b : TxIn) (h : a.hash.length = b.hash.length) :
    lessIn a b = true ↔ Spec.inLt a b := by
  have hl : a.hash.reverse.length = b.hash.reverse.length := by simp [h]
  rw [lessIn_iff_key]
  unfold inKeyLt lex2 inKey Spec.inLt
  simp only
  rw [bytesLt_iff_toNatBE _ _ hl]
  constructor
  · rintro (l | ⟨e, l⟩)
    · exact Or.inl l
    · exact Or.inr ⟨by rw [e], l⟩
  · rintro (l | ⟨e, l⟩)
    · exact Or.inl l
    · exact Or.inr ⟨toNatBE_inj _ _ hl e, l⟩

theorem lessOut_iff (a b : TxOut) : lessOut a b = true ↔ Spec.outLt a b := by
  rw [lessOut_iff_key]
  unfold outKeyLt lex2 outKey Spec.outLt
  simp only [bytesLt_iff]

/-! ## insertion sort -/

/-- pairwise non-decreasing -/
def Sorted {α : Type} (less : α → α → Bool) (l : List α) : Prop :=
  l.Pairwise (fun a b => less b a = false)

theorem insertBy_perm {α : Type} (less : α → α → Bool) (x : α) (l : List α) :
    (insertBy less x l).Perm (x :: l) := by
  induction l with
  | nil => exact List.Perm.refl _
  | cons y ys ih =>
    simp only [insertBy]
    split
    · exact List.Perm.refl _
    · exact (ih.cons y).trans (List.Perm.swap x y ys)

theorem mem_insertBy {α : Type} (less : α → α → Bool) (x z : α) (l : List α) :
    z ∈ insertBy less x l ↔ z = x ∨ z ∈ l := by
  rw [(insertBy_perm less x l).mem_iff, List.mem_cons]

theorem foldl_insertBy_perm {α : Type} (less : α → α → Bool) (l acc : List α) :
    (l.foldl (fun acc x => insertBy less x acc) acc).Perm (acc ++ l) := by
  induction l generalizing acc with
  | nil => simp
  | cons x xs ih =>
    rw [List.foldl_cons]
    refine (ih _).trans ?_
    refine ((insertBy_perm less x acc).append_right xs).trans ?_
    exact (List.perm_middle (a := x) (l₁ := acc) (l₂ := xs)).symm

theorem sortBy_perm {α : Type} (less : α → α → Bool) (l : List α) : (sortBy less l).Perm l := by
  have := foldl_insertBy_perm less l []
  simpa [sortBy] using this

/-- inserting into a sorted list keeps it sorted (needs only transitivity and asymmetry of `less`) -/
theorem insertBy_sorted {α : Type} {less : α → α → Bool}
    (htrans : ∀ a b c, less a b = true → less b c = true → less a c = true)
    (hasymm : ∀ a b, less a b = true → less b a = false)
    (x : α) (l : List α) (hl : Sorted less l) : Sorted less (insertBy less x l) := by
  induction l with
  | nil => simp [insertBy, Sorted]
  | cons y ys ih =>
    unfold Sorted at hl
    rw [List.pairwise_cons] at hl
    simp only [insertBy]
    split
    · rename_i hxy
      unfold Sorted
      rw [List.pairwise_cons, List.pairwise_cons]
      refine ⟨?_, hl⟩
      intro z hz
      rcases List.mem_cons.1 hz with rfl | hz
      · exact hasymm _ _ hxy
      · cases hzx : less z x
        · rfl
        · have := htrans z x y hzx hxy
          rw [hl.1 z hz] at this; cases this
    · rename_i hxy
      unfold Sorted
      rw [List.pairwise_cons]
      refine ⟨?_, ih hl.2⟩
      intro z hz
      rcases (mem_insertBy less x z ys).1 hz with rfl | hz
      · simpa using hxy
      · exact hl.1 z hz

theorem foldl_insertBy_sorted {α : Type} {less : α → α → Bool} (h : StrictWeak less) (l acc : List α)
    (hacc : Sorted less acc) : Sorted less (l.foldl (fun acc x => insertBy less x acc) acc) := by
  induction l generalizing acc with
  | nil => simpa using hacc
  | cons x xs ih =>
    rw [List.foldl_cons]
    exact ih _ (insertBy_sorted h.trans (fun _ _ => h.asymm) x acc hacc)

theorem sortBy_pairwise {α : Type} {less : α → α → Bool} (h : StrictWeak less) (l : List α) :
    Sorted less (sortBy less l) :=
  foldl_insertBy_sorted h l [] List.Pairwise.nil

/-- for a strict weak order the adjacent check of `sort.IsSorted` is pairwise sortedness -/
theorem isSortedBy_iff {α : Type} {less : α → α → Bool} (h : StrictWeak less) (l : List α) :
    isSortedBy less l = true ↔ Sorted less l := by
  induction l with
  | nil => simp [isSortedBy, Sorted]
  | cons a t ih =>
    cases t with
    | nil => simp [isSortedBy, Sorted]
    | cons b rest =>
      simp only [isSortedBy, Bool.and_eq_true, Bool.not_eq_true', ih]
      unfold Sorted
      constructor
      · rintro ⟨hba, hs⟩
        rw [List.pairwise_cons]
        refine ⟨?_, hs⟩
        intro z hz
        rcases List.mem_cons.1 hz with rfl | hz
        · exact hba
        · exact h.le_trans hba ((List.pairwise_cons.1 hs).1 z hz)
      · intro hs
        rw [List.pairwise_cons] at hs
        exact ⟨hs.1 b (List.mem_cons_self), hs.2⟩

theorem sortBy_sorted {α : Type} {less : α → α → Bool} (h : StrictWeak less) (l : List α) :
    isSortedBy less (sortBy less l) = true :=
  (isSortedBy_iff h _).2 (sortBy_pairwise h l)

theorem insertBy_of_le {α : Type} (less : α → α → Bool) (x : α) (l : List α)
    (h : ∀ y ∈ l, less x y = false) : insertBy less x l = l ++ [x] := by
  induction l with
  | nil => rfl
  | cons y ys ih =>
    simp only [insertBy, h y List.mem_cons_self, Bool.false_eq_true, if_false, List.cons_append]
    rw [ih (fun z hz => h z (List.mem_cons_of_mem _ hz))]

theorem foldl_insertBy_of_sorted {α : Type} (less : α → α → Bool) (l acc : List α)
    (h : Sorted less (acc ++ l)) : l.foldl (fun acc x => insertBy less x acc) acc = acc ++ l := by
  induction l generalizing acc with
  | nil => simp
  | cons x xs ih =>
    rw [List.foldl_cons]
    have hx : ∀ y ∈ acc, less x y = false := by
      intro y hy
      exact (List.pairwise_append.1 h).2.2 y hy x List.mem_cons_self
    rw [insertBy_of_le less x acc hx, ih]
    · simp
    · simpa using h

/-- insertion sort leaves a sorted list alone -/
theorem sortBy_of_sorted {α : Type} (less : α → α → Bool) (l : List α) (h : Sorted less l) :
    sortBy less l = l := by
  have := foldl_insertBy_of_sorted less l [] (by simpa using h)
  simpa [sortBy] using this

/-! ## any correct sort: contract and uniqueness -/

/-- what Go's `sort.Sort` guarantees for a strict weak order `less` -/
def SortContract {α : Type} (less : α → α → Bool) (srt : List α → List α) : Prop :=
  ∀ l, (srt l).Perm l ∧ Sorted less (srt l)

theorem sortBy_contract {α : Type} {less : α → α → Bool} (h : StrictWeak less) :
    SortContract less (sortBy less) := fun l => ⟨sortBy_perm less l, sortBy_pairwise h l⟩

/-- two sorted permutations of each other have the same key sequence -/
theorem sorted_perm_keys_eq {α κ : Type} {less : α → α → Bool} {key : α → κ} {lt : κ → κ → Prop}
    (h : KeyOrder less key lt) {l1 l2 : List α} (hp : l1.Perm l2)
    (h1 : Sorted less l1) (h2 : Sorted less l2) : l1.map key = l2.map key := by
  apply List.Perm.eq_of_pairwise (le := fun k1 k2 => ¬ lt k2 k1)
  · intro a b _ _ hab hba
    rcases h.st.total a b with e | l | l
    · exact e
    · exact absurd l hba
    · exact absurd l hab
  · rw [List.pairwise_map]
    exact h1.imp (fun hba => (h.less_false_iff _ _).1 hba)
  · rw [List.pairwise_map]
    exact h2.imp (fun hba => (h.less_false_iff _ _).1 hba)
  · exact hp.map key

/-- if equal keys force equal elements, a sorted permutation is unique -/
theorem sorted_perm_eq {α κ : Type} {less : α → α → Bool} {key : α → κ} {lt : κ → κ → Prop}
    (h : KeyOrder less key lt) (hinj : ∀ a b, key a = key b → a = b) {l1 l2 : List α} (hp : l1.Perm l2)
    (h1 : Sorted less l1) (h2 : Sorted less l2) : l1 = l2 := by
  have hk := sorted_perm_keys_eq h hp h1 h2
  clear hp h1 h2
  induction l1 generalizing l2 with
  | nil => cases l2 <;> simp_all
  | cons a t ih =>
    cases l2 with
    | nil => simp at hk
    | cons b t2 =>
      simp only [List.map_cons, List.cons.injEq] at hk
      rw [hinj a b hk.1, ih hk.2]

/-! ## sortedness in terms of the specification orders -/

/-- input order without any length assumption: reversed hash bytes lexicographically, then index -/
def Spec.inLtBytes (a b : TxIn) : Prop :=
  Spec.lexLt a.hash.reverse b.hash.reverse ∨ (a.hash = b.hash ∧ a.index < b.index)

theorem lessIn_iff_bytes (a b : TxIn) : lessIn a b = true ↔ Spec.inLtBytes a b := by
  rw [lessIn_iff_key]
  unfold inKeyLt lex2 inKey Spec.inLtBytes
  simp only [bytesLt_iff, List.reverse_inj]

theorem sorted_lessIn_iff_bytes (l : List TxIn) :
    Sorted lessIn l ↔ l.Pairwise (fun a b => ¬ Spec.inLtBytes b a) := by
  unfold Sorted
  constructor <;> intro h <;> refine h.imp ?_ <;> intro a b hab
  · rw [← lessIn_iff_bytes]; simp [hab]
  · rw [← lessIn_iff_bytes] at hab; simpa using hab

theorem sorted_lessIn_iff (l : List TxIn) (n : Nat) (hn : ∀ i ∈ l, i.hash.length = n) :
    Sorted lessIn l ↔ l.Pairwise (fun a b => ¬ Spec.inLt b a) := by
  unfold Sorted
  constructor <;> intro h <;> refine h.imp_of_mem ?_ <;> intro a b ha hb hab
  · rw [← lessIn_iff b a ((hn b hb).trans (hn a ha).symm)]; simp [hab]
  · rw [← lessIn_iff b a ((hn b hb).trans (hn a ha).symm)] at hab; simpa using hab

theorem sorted_lessOut_iff (l : List TxOut) :
    Sorted lessOut l ↔ l.Pairwise (fun a b => ¬ Spec.outLt b a) := by
  unfold Sorted
  constructor <;> intro h <;> refine h.imp ?_ <;> intro a b hab
  · rw [← lessOut_iff]; simp [hab]
  · rw [← lessOut_iff] at hab; simpa using hab

/-! ## stability -/

/-- `b` is incomparable to `a` (same key) -/
def eqv {α : Type} (less : α → α → Bool) (a b : α) : Bool := !less a b && !less b a

theorem insertBy_filter_eqv {α : Type} {less : α → α → Bool} (h : StrictWeak less) (a x : α) (l : List α)
    (hl : Sorted less l) :
    (insertBy less x l).filter (eqv less a) = l.filter (eqv less a) ++ [x].filter (eqv less a) := by
  induction l with
  | nil => simp [insertBy]
  | cons y ys ih =>
    unfold Sorted at hl
    rw [List.pairwise_cons] at hl
    simp only [insertBy]
    split
    · rename_i hxy
      by_cases hax : eqv less a x = true
      · -- nothing in `y :: ys` is equivalent to `a`
        have hnone : ∀ z ∈ y :: ys, eqv less a z = false := by
          intro z hz
          cases hz' : eqv less a z
          · rfl
          · exfalso
            simp only [eqv, Bool.and_eq_true, Bool.not_eq_true'] at hax hz'
            have hxz := h.incomp_trans x a z hax.2 hax.1 hz'.1 hz'.2
            have hzy : less z y = false := by
              rcases List.mem_cons.1 hz with rfl | hz
              · exact h.irrefl _
              · exact hl.1 z hz
            have := h.le_trans (a := y) (b := z) (c := x) hzy hxz.1
            rw [hxy] at this; cases this
        have : (y :: ys).filter (eqv less a) = [] := by
          rw [List.filter_eq_nil_iff]
          intro z hz; simp [hnone z hz]
        rw [this]
        rw [show x :: y :: ys = [x] ++ (y :: ys) from rfl, List.filter_append, this]
        simp
      · have : [x].filter (eqv less a) = [] := by simp [hax]
        rw [this, show x :: y :: ys = [x] ++ (y :: ys) from rfl, List.filter_append, this]
        simp
    · rw [List.filter_cons, List.filter_cons, ih hl.2]
      split <;> simp

theorem foldl_insertBy_filter_eqv {α : Type} {less : α → α → Bool} (h : StrictWeak less) (a : α)
    (l acc : List α) (hacc : Sorted less acc) :
    (l.foldl (fun acc x => insertBy less x acc) acc).filter (eqv less a) =
      acc.filter (eqv less a) ++ l.filter (eqv less a) := by
  induction l generalizing acc with
  | nil => simp
  | cons x xs ih =>
    rw [List.foldl_cons, ih _ (insertBy_sorted h.trans (fun _ _ => h.asymm) x acc hacc),
      insertBy_filter_eqv h a x acc hacc, List.append_assoc, ← List.filter_append]
    rfl

/-- insertion sort is stable: the elements with any given key keep their relative order -/
theorem sortBy_stable {α : Type} {less : α → α → Bool} (h : StrictWeak less) (a : α) (l : List α) :
    (sortBy less l).filter (eqv less a) = l.filter (eqv less a) := by
  have := foldl_insertBy_filter_eqv h a l [] List.Pairwise.nil
  simpa [sortBy] using this

end Bch.Proofs.TxSort
