import Bch.Model.GcsBuilder
/-
Builder chain: error latch, de-duplicating entry accumulation, content of the basic filter.
-/
namespace Bch.Proofs.GcsBuilder
open Bch Bch.Model Bch.Model.GcsBuilder

theorem step_latched (b : Builder) (op : Op) (h : b.err.isSome) : step b op = b := by
  unfold step; rw [if_pos h]

theorem foldl_step_latched (b : Builder) (ops : List Op) (h : b.err.isSome) :
    ops.foldl step b = b := by
  induction ops with
  | nil => rfl
  | cons op ops ih => rw [List.foldl_cons, step_latched b op h, ih]

theorem Build_latched (sip : Bytes → Bytes → UInt64) (b : Builder) (e : Err) (h : b.err = some e) :
    Build sip b = .error e := by
  unfold Build; rw [h]

/-- once some step has set the latch, the rest of the chain is ignored -/
theorem foldl_step_err_persist (b : Builder) (ops : List Op) (e : Err) (h : b.err = some e) :
    (ops.foldl step b).err = some e := by
  rw [foldl_step_latched b ops (by rw [h]; rfl)]; exact h

theorem withKeyPM_eq (key : Bytes) :
    withKeyPM key 19 784931
      = { p := 19, m := 784931, key := (key ++ List.replicate 16 0).take 16, data := [], err := none } := by
  simp [withKeyPM, step]

theorem addEntry_ok (b : Builder) (d : Bytes) (h : b.err = none) :
    step b (.addEntry d) = if b.data.contains d then b else { b with data := b.data ++ [d] } := by
  unfold step; rw [h]; rfl

theorem addEntries (l : List Bytes) (b : Builder) (h : b.err = none) :
    let b' := l.foldl (fun b d => step b (.addEntry d)) b
    b'.err = none ∧ b'.p = b.p ∧ b'.m = b.m ∧ b'.key = b.key ∧
      (b.data.Nodup → b'.data.Nodup) ∧ ∀ e, e ∈ b'.data ↔ e ∈ b.data ∨ e ∈ l := by
  induction l generalizing b with
  | nil => simp [h]
  | cons d l ih =>
    simp only [List.foldl_cons]
    rw [addEntry_ok b d h]
    by_cases hc : b.data.contains d = true
    · rw [if_pos hc]
      obtain ⟨h1, h2, h3, h4, h5, h6⟩ := ih b h
      refine ⟨h1, h2, h3, h4, h5, fun e => ?_⟩
      rw [h6 e, List.mem_cons]
      have hm : d ∈ b.data := by simpa using hc
      constructor
      · rintro (h | h)
        · exact Or.inl h
        · exact Or.inr (Or.inr h)
      · rintro (h | h | h)
        · exact Or.inl h
        · exact Or.inl (h ▸ hm)
        · exact Or.inr h
    · rw [if_neg hc]
      have hm : d ∉ b.data := by simpa using hc
      obtain ⟨h1, h2, h3, h4, h5, h6⟩ := ih { b with data := b.data ++ [d] } h
      refine ⟨h1, h2, h3, h4, fun hnd => h5 ?_, fun e => ?_⟩
      · show (b.data ++ [d]).Nodup
        rw [List.nodup_append]
        refine ⟨hnd, by simp, ?_⟩
        intro a ha c hc'
        rw [List.mem_singleton] at hc'
        subst hc'
        intro e; subst e; exact hm ha
      · rw [h6 e]
        show e ∈ b.data ++ [d] ∨ e ∈ l ↔ _
        rw [List.mem_append, List.mem_singleton, List.mem_cons]
        constructor
        · rintro ((h | h) | h)
          · exact Or.inl h
          · exact Or.inr (Or.inl h)
          · exact Or.inr (Or.inr h)
        · rintro (h | h | h)
          · exact Or.inl (Or.inl h)
          · exact Or.inl (Or.inr h)
          · exact Or.inr h

theorem mem_basicEntries (block : List Tx) (e : Bytes) :
    e ∈ basicEntries block ↔
      ∃ (i : Nat) (tx : Tx), block[i]? = some tx ∧
        ((i ≥ 1 ∧ ∃ h ix, (h, ix) ∈ tx.ins ∧ e = h ++ Bytes.ofNatLE 4 ix) ∨
         (e ∈ tx.outs ∧ e ≠ [])) := by
  unfold basicEntries
  simp only [List.mem_flatMap, List.mem_append, List.mem_filter, Prod.exists,
    List.mem_zipIdx_iff_getElem?]
  constructor
  · rintro ⟨tx, i, hi, h | h⟩
    · refine ⟨i, tx, hi, Or.inl ?_⟩
      by_cases h0 : i = 0
      · rw [if_pos h0] at h; cases h
      · rw [if_neg h0, List.mem_map] at h
        obtain ⟨⟨hh, ix⟩, hm, rfl⟩ := h
        exact ⟨by omega, hh, ix, hm, rfl⟩
    · refine ⟨i, tx, hi, Or.inr ⟨h.1, ?_⟩⟩
      have := h.2
      intro e0; subst e0; simp at this
  · rintro ⟨i, tx, hi, h | h⟩
    · obtain ⟨h1, hh, ix, hm, rfl⟩ := h
      refine ⟨tx, i, hi, Or.inl ?_⟩
      rw [if_neg (by omega), List.mem_map]
      exact ⟨(hh, ix), hm, rfl⟩
    · refine ⟨tx, i, hi, Or.inr ⟨h.1, ?_⟩⟩
      cases e with
      | nil => exact absurd rfl h.2
      | cons a l => rfl

end Bch.Proofs.GcsBuilder
