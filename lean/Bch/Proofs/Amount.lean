import Bch.Model.Amount
import Bch.Proofs.F64
/-
  Amount-level lemmas for property C17: nearest / odd / monotone `NewAmount`, the satoshi round trip,
  unit conversion, labels.
-/
namespace Bch.Proofs.Amount
open Bch.Prim.F64 Bch.Model.Amount Bch.Proofs.F64

/-- decidable certificate that the finite non-negative float `x` has the natural value `n` -/
def checkNat (x : UInt64) (n : Nat) : Bool :=
  isFinite x && !isNeg x && !isZero x &&
    ((decodeAbs x).1 * 2^((decodeAbs x).2 + 1074).toNat == n * 2^1074)

theorem fval_of_checkNat (x : UInt64) (n : Nat) (h : checkNat x n = true) :
    isFinite x = true ∧ isNeg x = false ∧ isZero x = false ∧ fval x = n ∧ absval x = n := by
  unfold checkNat at h
  simp only [Bool.and_eq_true, Bool.not_eq_true', beq_iff_eq] at h
  obtain ⟨⟨⟨h1, h2⟩, h3⟩, h4⟩ := h
  have he := (decodeAbs_bounds x).2
  have habs : absval x = n := by
    unfold absval
    have : (decodeAbs x).2 = (((decodeAbs x).2 + 1074).toNat : Int) - 1074 := by omega
    rw [this, zpow_sub₀ (by norm_num : (2:ℚ) ≠ 0), zpow_natCast]
    have h4q : (((decodeAbs x).1 * 2^((decodeAbs x).2 + 1074).toNat : Nat) : ℚ) = ((n * 2^1074 : Nat) : ℚ) := by
      rw [h4]
    simp only [Nat.cast_mul, Nat.cast_pow, Nat.cast_ofNat] at h4q
    rw [← mul_div_assoc, h4q]
    have : (2:ℚ)^(1074 : Int) = 2^1074 := by norm_num
    rw [this]; field_simp
  refine ⟨h1, h2, h3, ?_, habs⟩
  unfold fval sgnQ; rw [h2, habs]; simp

theorem sat_check : checkNat satoshiPerBitcoin 100000000 = true := by decide +kernel

theorem pow10_check : ∀ k : Nat, k < 23 → checkNat (pow10 (k : Int)) (10^k) = true := by decide +kernel

theorem abs_roundAway_le (v : ℚ) (B : ℤ) (h : |v| < B) : |roundAway v| ≤ B := by
  have hn := roundAway_near v
  rw [abs_lt] at h
  rw [abs_le] at hn ⊢
  have h1 : ((roundAway v : ℤ) : ℚ) < B + 1 := by linarith
  have h2 : (-(B:ℚ)) - 1 < (roundAway v : ℤ) := by linarith
  have h1' : roundAway v < B + 1 := by exact_mod_cast h1
  have h2' : -B - 1 < roundAway v := by exact_mod_cast h2
  omega

/-- `round` (Go: `Amount(math.Round(f))`) is the nearest integer, ties away from zero, as long as it
fits into an `int64`. -/
theorem round_eq (x : UInt64) (hx : isFinite x = true) (hr : |fval x| < 2^62) :
    Model.Amount.round x = roundAway (fval x) := by
  obtain ⟨h1, _, h3⟩ := roundHalfAway_spec x hx
  have ht := truncToInt_of_int (roundHalfAway x) h1 (roundAway (fval x)) h3
  have hb := abs_roundAway_le (fval x) (2^62) (by exact_mod_cast hr)
  rw [abs_le] at hb
  unfold Model.Amount.round toInt64
  rw [ht]
  simp only
  rw [if_neg (by omega)]

theorem newAmount_rejects (f : UInt64) (h : isNaN f = true ∨ isInf f = true) : NewAmount f = none := by
  unfold NewAmount
  rcases h with h | h <;> simp [h]

theorem newAmount_accepts (f : UInt64) (h : isNaN f = false ∧ isInf f = false) :
    NewAmount f = some (Model.Amount.round (mul f satoshiPerBitcoin)) := by
  unfold NewAmount
  simp [h.1, h.2]

theorem newAmount_nearest (f : UInt64) (hf : isFinite f = true)
    (hp : isFinite (mul f satoshiPerBitcoin) = true) (hr : |fval (mul f satoshiPerBitcoin)| < 2^62) :
    NewAmount f = some (roundAway (fval (mul f satoshiPerBitcoin))) := by
  rw [newAmount_accepts f (not_nan_inf_of_finite f hf), round_eq _ hp hr]


/-! ### odd symmetry -/

theorem newAmount_odd (f : UInt64) (hf : isFinite f = true)
    (hp : isFinite (mul f satoshiPerBitcoin) = true) (hr : |fval (mul f satoshiPerBitcoin)| < 2^62) :
    NewAmount (neg f) = (NewAmount f).map (fun x => -x) := by
  have hs := (fval_of_checkNat _ _ sat_check).1
  have hmul := mul_neg_left f satoshiPerBitcoin hf hs
  rw [newAmount_nearest f hf hp hr,
    newAmount_nearest (neg f) (by rw [isFinite_neg]; exact hf) (by rw [hmul, isFinite_neg]; exact hp)
      (by rw [hmul, fval_neg, abs_neg]; exact hr),
    hmul, fval_neg, roundAway_neg]
  rfl

/-! ### monotonicity -/

/-- correct rounding is monotone: strictly ordered reals round to ordered floats -/
theorem isRN_mono {q1 q2 : ℚ} {x1 x2 : UInt64} (hq : q1 < q2) (h1 : IsRN q1 x1) (h2 : IsRN q2 x2) :
    fval x1 ≤ fval x2 := by
  obtain ⟨v1, hv1, hn1, _⟩ := h1
  obtain ⟨v2, hv2, hn2, _⟩ := h2
  have e1 := ((val_eq_some_iff x1 v1).mp hv1).2
  have e2 := ((val_eq_some_iff x2 v2).mp hv2).2
  rw [e1, e2]
  by_contra hc
  have hlt : v2 < v1 := not_le.mp hc
  have a1 := sq_le_sq.mpr (hn1 x2 v2 hv2)
  have a2 := sq_le_sq.mpr (hn2 x1 v1 hv1)
  nlinarith

theorem newAmount_mono (f g : UInt64) (hf : isFinite f = true) (hg : isFinite g = true)
    (hlt : lt f g = true)
    (hpf : isFinite (mul f satoshiPerBitcoin) = true) (hrf : |fval (mul f satoshiPerBitcoin)| < 2^62)
    (hpg : isFinite (mul g satoshiPerBitcoin) = true) (hrg : |fval (mul g satoshiPerBitcoin)| < 2^62) :
    ∃ x y, NewAmount f = some x ∧ NewAmount g = some y ∧ x ≤ y := by
  obtain ⟨hs, _, _, hsv, _⟩ := fval_of_checkNat _ _ sat_check
  refine ⟨_, _, newAmount_nearest f hf hpf hrf, newAmount_nearest g hg hpg hrg, roundAway_mono ?_⟩
  have hfg := fval_lt_of_lt f g hlt
  refine isRN_mono ?_ (mul_isRN f _ hf hs hpf) (mul_isRN g _ hg hs hpg)
  rw [hsv]; push_cast; linarith


/-! ### round trip satoshi → BCH float → satoshi -/

theorem toBCH_eq (a : Int) : ToBCH a = div (ofInt a) (pow10 8) := by
  unfold ToBCH ToUnit; simp

theorem two_pow_neg1022_le : (2:ℚ)^(-1022 : Int) ≤ 1 / 10^8 := by
  have h1 : (2:ℚ)^(-1022 : Int) ≤ 2^(-27 : Int) := zpow_le_zpow_right₀ (by norm_num) (by norm_num)
  have h2 : (2:ℚ)^(-27 : Int) = 1 / 2^27 := by norm_num [zpow_neg]
  rw [h2] at h1
  refine le_trans h1 ?_
  rw [div_le_div_iff₀ (by norm_num) (by norm_num)]; norm_num

theorem roundtrip_zero : NewAmount (ToBCH 0) = some 0 := by decide +kernel

theorem lt_two_pow_1023 (x : ℚ) (h : x < 9007199254740992) : x < 2^1023 := by
  have h1 : (2:ℚ)^53 ≤ 2^1023 := pow_le_pow_right₀ (by norm_num) (by norm_num)
  have h53 : (2:ℚ)^53 = 9007199254740992 := by norm_num
  rw [h53] at h1
  exact lt_of_lt_of_le h h1

/-- the error analysis of the round trip, for abstract operands -/
theorem roundtrip_core (a : Int) (x t s : UInt64) (ha0 : a ≠ 0) (ha : |a| ≤ 2100000000000000)
    (hxf : isFinite x = true) (hxv : fval x = a)
    (htf : isFinite t = true) (htz : isZero t = false) (htv : fval t = 100000000)
    (hsf : isFinite s = true) (hsv : fval s = 100000000) :
    isFinite (div x t) = true ∧ isFinite (mul (div x t) s) = true ∧
    |fval (mul (div x t) s) - a| < 1/2 := by
  have hA1 : (1:ℚ) ≤ |(a:ℚ)| := by
    have : (1:ℤ) ≤ |a| := Int.one_le_abs ha0
    exact_mod_cast this
  have hA2 : |(a:ℚ)| ≤ 2100000000000000 := by exact_mod_cast ha
  generalize hA : |(a:ℚ)| = A at hA1 hA2
  have hxa : absval x = A := by rw [← abs_fval, hxv, hA]
  have hta : absval t = 100000000 := by rw [← abs_fval, htv]; norm_num
  -- the quotient
  have hqfin : isFinite (div x t) = true := by
    apply div_finite_of_lt _ _ hxf htf htz
    rw [hxa, hta]
    have : A / 100000000 ≤ A := div_le_self (by linarith) (by norm_num)
    exact lt_two_pow_1023 _ (by linarith)
  have hqabs : |fval x / fval t| = A / 100000000 := by
    rw [hxv, htv, abs_div, hA]; norm_num
  have hqerr := div_relerr _ _ hxf htf htz hqfin (by
    rw [hqabs]
    refine le_trans two_pow_neg1022_le ?_
    rw [div_le_div_iff₀ (by norm_num) (by norm_num)]; norm_num; linarith)
  rw [hqabs, hxv, htv] at hqerr
  generalize div x t = q at hqfin hqerr ⊢
  -- the product  w = fval q * 10^8
  have hw : |fval q * 100000000 - a| ≤ A / 2^53 := by
    have : fval q * 100000000 - a = (fval q - a / 100000000) * 100000000 := by field_simp
    rw [this, abs_mul, abs_of_pos (by norm_num : (0:ℚ) < 100000000)]
    calc |fval q - a / 100000000| * 100000000 ≤ A / 100000000 / 2^53 * 100000000 :=
          mul_le_mul_of_nonneg_right hqerr (by norm_num)
      _ = A / 2^53 := by field_simp
  have hwabs1 : |fval q * 100000000| ≤ A + A / 2^53 := by
    have := abs_sub_abs_le_abs_sub (fval q * 100000000) (a:ℚ)
    rw [hA] at this; linarith
  have hwabs2 : A - A / 2^53 ≤ |fval q * 100000000| := by
    have := abs_sub_abs_le_abs_sub (a:ℚ) (fval q * 100000000)
    rw [abs_sub_comm, hA] at this
    linarith
  have hA53 : A / 2^53 ≤ 1/4 := by
    rw [div_le_div_iff₀ (by norm_num) (by norm_num)]; norm_num; linarith
  have hprod : |fval q * fval s| = |fval q * 100000000| := by rw [hsv]
  have hpfin : isFinite (mul q s) = true := by
    apply mul_finite_of_lt _ _ hqfin hsf
    rw [← abs_fval, ← abs_fval, ← abs_mul, hprod]
    exact lt_two_pow_1023 _ (by linarith)
  have hperr := mul_relerr _ _ hqfin hsf hpfin (by
    rw [hprod]
    have : (2:ℚ)^(-1022 : Int) ≤ 1/2 := le_trans two_pow_neg1022_le (by norm_num)
    linarith)
  rw [hprod, hsv] at hperr
  refine ⟨hqfin, hpfin, ?_⟩
  generalize fval (mul q s) = fp at hperr ⊢
  generalize fval q * 100000000 = w at hw hwabs1 hperr
  have h1 : |fp - a| ≤ |fp - w| + |w - a| := abs_sub_le _ _ _
  have h2 : |w| / 2^53 ≤ (A + A / 2^53) / 2^53 := div_le_div_of_nonneg_right hwabs1 (by norm_num)
  have h3 : (A + A / 2^53) / 2^53 + A / 2^53 < 1/2 := by
    have : (A + A / 2^53) / 2^53 + A / 2^53 = A * ((2^53 + 1) / 2^106 + 1 / 2^53) := by
      field_simp
    rw [this]
    calc A * ((2^53 + 1) / 2^106 + 1 / 2^53)
        ≤ 2100000000000000 * ((2^53 + 1) / 2^106 + 1 / 2^53) :=
          mul_le_mul_of_nonneg_right hA2 (by positivity)
      _ < 1/2 := by norm_num
  linarith

theorem roundtrip (a : Int) (ha : a.natAbs ≤ 2100000000000000) : NewAmount (ToBCH a) = some a := by
  by_cases ha0 : a = 0
  · subst ha0; exact roundtrip_zero
  obtain ⟨hxf, hxv, _⟩ := ofInt_exact a (by omega)
  obtain ⟨htf, _, htz, htv, _⟩ := fval_of_checkNat _ _ (pow10_check 8 (by norm_num))
  obtain ⟨hsf, _, _, hsv, _⟩ := fval_of_checkNat _ _ sat_check
  have habs : |a| ≤ 2100000000000000 := by rw [Int.abs_eq_natAbs]; omega
  obtain ⟨hqfin, hpfin, herr⟩ := roundtrip_core a (ofInt a) (pow10 ((8:Nat):Int)) satoshiPerBitcoin ha0 habs
    hxf hxv htf htz (by rw [htv]; norm_num) hsf (by rw [hsv]; norm_num)
  have hp62 : |fval (mul (div (ofInt a) (pow10 ((8:Nat):Int))) satoshiPerBitcoin)| < 2^62 := by
    have h2 : |(a:ℚ)| ≤ 2100000000000000 := by exact_mod_cast habs
    have h62 : (2:ℚ)^62 = 4611686018427387904 := by norm_num
    rw [h62]
    revert herr
    generalize fval (mul (div (ofInt a) (pow10 ((8:Nat):Int))) satoshiPerBitcoin) = fp
    intro herr
    have h1 := abs_sub_abs_le_abs_sub fp (a:ℚ)
    linarith
  rw [toBCH_eq]
  show NewAmount (div (ofInt a) (pow10 ((8:Nat):Int))) = some a
  rw [newAmount_nearest _ hqfin hpfin hp62, roundAway_eq_of_near _ a herr]


/-! ### unit conversion -/
theorem lt_two_pow_1023' (x : ℚ) (h : x < 2^200) : x < 2^1023 :=
  lt_of_lt_of_le h (pow_le_pow_right₀ (by norm_num) (by norm_num))

/-- `ToUnit` performs exactly one rounding: it is the correctly rounded value of `a / 10^(u+8)`,
for every amount below `2^53` and every unit exponent for which `10^|u+8|` is exactly representable. -/
theorem toUnit_isRN (a : Int) (u : Int) (ha : a.natAbs < 2^53) (hu1 : -30 ≤ u) (hu2 : u ≤ 14) :
    IsRN ((a:ℚ) / (10:ℚ)^(u+8)) (ToUnit a u) := by
  obtain ⟨hxf, hxv, _⟩ := ofInt_exact a ha
  have hA : |(a:ℚ)| < 9007199254740992 := by
    have : |a| < 9007199254740992 := by rw [Int.abs_eq_natAbs]; omega
    exact_mod_cast this
  have hxa : absval (ofInt a) = |(a:ℚ)| := by rw [← abs_fval, hxv]
  unfold ToUnit
  simp only []
  by_cases hneg : u + 8 < 0
  · rw [if_pos hneg]
    obtain ⟨k, hk⟩ : ∃ k : Nat, -(u + 8) = (k : Int) := ⟨(-(u+8)).toNat, by omega⟩
    have hk22 : k < 23 := by omega
    obtain ⟨htf, _, _, htv, hta⟩ := fval_of_checkNat _ _ (pow10_check k hk22)
    rw [hk]
    have hq : (a:ℚ) / (10:ℚ)^(u+8) = fval (ofInt a) * fval (pow10 (k:Int)) := by
      have : u + 8 = -(k:Int) := by omega
      rw [this, zpow_neg, zpow_natCast, hxv, htv]; push_cast; field_simp
    rw [hq]
    apply mul_isRN _ _ hxf htf
    apply mul_finite_of_lt _ _ hxf htf
    rw [hxa, hta]
    apply lt_two_pow_1023'
    have h10 : ((10^k : Nat) : ℚ) ≤ 10^22 := by
      push_cast; exact pow_le_pow_right₀ (by norm_num) (by omega)
    have h0 : (0:ℚ) ≤ |(a:ℚ)| := abs_nonneg _
    calc |(a:ℚ)| * ((10^k : Nat) : ℚ) ≤ 9007199254740992 * 10^22 :=
          mul_le_mul hA.le h10 (by positivity) (by norm_num)
      _ < 2^200 := by norm_num
  · rw [if_neg hneg]
    obtain ⟨k, hk⟩ : ∃ k : Nat, u + 8 = (k : Int) := ⟨(u+8).toNat, by omega⟩
    have hk22 : k < 23 := by omega
    obtain ⟨htf, _, htz, htv, hta⟩ := fval_of_checkNat _ _ (pow10_check k hk22)
    rw [hk]
    have hq : (a:ℚ) / (10:ℚ)^(k:Int) = fval (ofInt a) / fval (pow10 (k:Int)) := by
      rw [zpow_natCast, hxv, htv]; push_cast; rfl
    rw [hq]
    apply div_isRN _ _ hxf htf htz
    apply div_finite_of_lt _ _ hxf htf htz
    rw [hxa, hta]
    apply lt_two_pow_1023
    have h10 : (1:ℚ) ≤ ((10^k : Nat) : ℚ) := by
      push_cast; exact one_le_pow₀ (by norm_num)
    calc |(a:ℚ)| / ((10^k : Nat) : ℚ) ≤ |(a:ℚ)| := div_le_self (abs_nonneg _) h10
      _ < 9007199254740992 := hA


/-! ### labels and text -/

theorem unitString_named :
    unitString 6 = "MBCH" ∧ unitString 3 = "kBCH" ∧ unitString 0 = "BCH" ∧
    unitString (-3) = "mBCH" ∧ unitString (-6) = "μBCH" ∧ unitString (-8) = "Satoshi" := by
  decide

theorem unitString_other (u : Int) (h : u ≠ 6 ∧ u ≠ 3 ∧ u ≠ 0 ∧ u ≠ -3 ∧ u ≠ -6 ∧ u ≠ -8) :
    unitString u = "1e" ++ toString u ++ " BCH" := by
  unfold unitString
  simp [h.1, h.2.1, h.2.2.1, h.2.2.2.1, h.2.2.2.2.1, h.2.2.2.2.2]

theorem format_eq (a u : Int) :
    Format a u = formatF (ToUnit a u) (-(u + 8)) ++ " " ++ unitString u := rfl


/-! ### a tractable fragment of `FormatFloat(x, 'f', 0, 64)` -/

/-- significand/exponent of an integer-valued float -/
theorem decodeAbs_of_int (a : UInt64) (z : ℤ) (h : fval a = z) :
    (0 ≤ (decodeAbs a).2 → (decodeAbs a).1 * 2^(decodeAbs a).2.toNat = z.natAbs) ∧
    ((decodeAbs a).2 < 0 → (decodeAbs a).1 = z.natAbs * 2^(-(decodeAbs a).2).toNat) := by
  have habs : absval a = (z.natAbs : ℚ) := by
    rw [← abs_fval, h, Nat.cast_natAbs]; push_cast; rfl
  have hv : absval a = ((decodeAbs a).1 : ℚ) * 2^(decodeAbs a).2 := rfl
  generalize (decodeAbs a).1 = m at hv ⊢
  generalize (decodeAbs a).2 = e at hv ⊢
  constructor
  · intro hpos
    have : e = (e.toNat : Int) := by omega
    rw [this, zpow_natCast] at hv
    rw [hv] at habs
    exact_mod_cast habs
  · intro hneg
    have : e = -((-e).toNat : Int) := by omega
    rw [this, zpow_neg, zpow_natCast] at hv
    rw [hv] at habs
    have hp : (0:ℚ) < 2^(-e).toNat := by positivity
    have : (m : ℚ) = (z.natAbs : ℚ) * 2^(-e).toNat := by
      field_simp at habs; linarith
    exact_mod_cast this

/-- `FormatFloat(x, 'f', 0, 64)` of an integer-valued finite float prints that integer
(with a `-` for a set sign bit, including `-0`). -/
theorem formatF_int (x : UInt64) (hx : isFinite x = true) (z : ℤ) (hz : fval x = z) :
    formatF x 0 = (if isNeg x then "-" else "") ++ toString z.natAbs := by
  obtain ⟨hn, hi⟩ := not_nan_inf_of_finite x hx
  obtain ⟨h1, h2⟩ := decodeAbs_of_int x z hz
  unfold formatF
  simp only [hn, hi, Bool.false_eq_true, if_false]
  generalize (decodeAbs x).1 = m at h1 h2 ⊢
  generalize (decodeAbs x).2 = e at h1 h2 ⊢
  simp only [ge_iff_le, le_refl, if_true, Int.toNat_zero, Nat.pow_zero, Nat.mul_one]
  congr 1
  have hN : (if 0 ≤ e then m <<< e.toNat
      else if (m - (m >>> (-e).toNat) <<< (-e).toNat > 1 <<< ((-e).toNat - 1) ||
          (m - (m >>> (-e).toNat) <<< (-e).toNat == 1 <<< ((-e).toNat - 1) &&
            (m >>> (-e).toNat) % 2 == 1)) = true
        then m >>> (-e).toNat + 1 else m >>> (-e).toNat) = z.natAbs := by
    by_cases hpos : 0 ≤ e
    · rw [if_pos hpos, Nat.shiftLeft_eq]; exact h1 hpos
    · rw [if_neg hpos]
      have hm := h2 (by omega)
      have hq : m >>> (-e).toNat = z.natAbs := by
        rw [Nat.shiftRight_eq_div_pow, hm, Nat.mul_div_cancel _ (Nat.pow_pos (by norm_num))]
      have hr : m - (m >>> (-e).toNat) <<< (-e).toNat = 0 := by
        rw [hq, Nat.shiftLeft_eq, hm]; omega
      have hh : 0 < 1 <<< ((-e).toNat - 1) := by
        rw [Nat.shiftLeft_eq]; exact Nat.mul_pos (by norm_num) (Nat.pow_pos (by norm_num))
      rw [hr, hq]
      have : ¬ ((decide (0 > 1 <<< ((-e).toNat - 1)) ||
          ((0 == 1 <<< ((-e).toNat - 1)) && (z.natAbs % 2 == 1))) = true) := by
        simp; omega
      rw [if_neg this]
  unfold fixedStr
  simp only [beq_self_eq_true, if_true]
  rw [hN]
  rfl


example : formatF 0x4330000000000001 0 = "4503599627370497" := by decide +kernel

theorem int_toString (a : Int) : toString a = (if a < 0 then "-" else "") ++ toString a.natAbs := by
  cases a with
  | ofNat n =>
    have : ¬ ((Int.ofNat n) < 0) := by simp
    rw [if_neg this]; simp [toString, Int.repr]
  | negSucc n => simp [toString, Int.repr, Int.negSucc_lt_zero]

/-- if the real to be rounded is itself a float value, rounding returns it -/
theorem isRN_exact {q : ℚ} {x y : UInt64} (h : IsRN q x) (hy : val y = some q) : fval x = q := by
  obtain ⟨v, hv, hn, _⟩ := h
  have := hn y q hy
  rw [sub_self, abs_zero] at this
  have h0 : q - v = 0 := abs_eq_zero.mp (le_antisymm this (abs_nonneg _))
  rw [((val_eq_some_iff x v).mp hv).2]; linarith

theorem toUnit_satoshi_zero : isNeg (ToUnit 0 (-8)) = false := by decide +kernel

/-- In the base unit the printed text is the decimal integer itself. -/
theorem format_satoshi (a : Int) (ha : a.natAbs < 2^53) :
    Format a (-8) = toString a ++ " Satoshi" := by
  have hrn := toUnit_isRN a (-8) ha (by norm_num) (by norm_num)
  have hq : (a:ℚ) / (10:ℚ)^((-8:Int) + 8) = a := by norm_num
  rw [hq] at hrn
  obtain ⟨hxf, hxv, _⟩ := ofInt_exact a ha
  have hval := isRN_exact hrn ((val_eq_some_iff (ofInt a) a).mpr ⟨hxf, hxv⟩)
  have hfin : isFinite (ToUnit a (-8)) = true := by
    obtain ⟨v, hv, _⟩ := hrn
    exact ((val_eq_some_iff _ v).mp hv).1
  have hneg : isNeg (ToUnit a (-8)) = decide (a < 0) := by
    obtain ⟨v, _, _, _, hs1, hs2⟩ := hrn
    rcases lt_trichotomy a 0 with h | h | h
    · rw [hs1 (by exact_mod_cast h)]; simp [h]
    · subst h; rw [toUnit_satoshi_zero]; simp
    · rw [hs2 (by exact_mod_cast h)]; simp; omega
  rw [format_eq, show (-((-8:Int) + 8)) = 0 by norm_num, formatF_int _ hfin a hval, hneg, int_toString]
  have : unitString (-8) = "Satoshi" := by decide
  rw [this]
  simp [String.append_assoc]


/-! ### `val`-phrased helpers for the property file -/

theorem val_of_checkNat (x : UInt64) (n : Nat) (h : checkNat x n = true) : val x = some (n : ℚ) :=
  (val_eq_some_iff _ _).mpr ⟨(fval_of_checkNat x n h).1, (fval_of_checkNat x n h).2.2.2.1⟩

/-- `math.Pow10(k)` is exactly `10^k` for `0 ≤ k ≤ 22`. -/
theorem pow10_exact (k : Nat) (hk : k ≤ 22) : val (pow10 (k : Int)) = some ((10:ℚ)^k) := by
  have := val_of_checkNat _ _ (pow10_check k (by omega))
  rw [this]; push_cast; rfl

theorem val_sat : val satoshiPerBitcoin = some (100000000 : ℚ) := by
  have := val_of_checkNat _ _ sat_check
  rw [this]; norm_num


/-! ### all finite inputs, including the saturating branches; `MulF64` -/

theorem isInf_signedInf (sg : Bool) : isInf (signedInf sg) = true := by cases sg <;> decide

/-- a product of finite floats is finite or ±Inf (never NaN) -/
theorem mul_finite_or_inf (a b : UInt64) (ha : isFinite a = true) (hb : isFinite b = true) :
    isFinite (mul a b) = true ∨ isInf (mul a b) = true := by
  rw [mul_eq_of_finite a b ha hb]
  by_cases hM : (decodeAbs a).1 * (decodeAbs b).1 = 0
  · left; rw [hM, roundScaled_zero, isFinite_signedZero]
  · have h2e := two_zpow_pos ((decodeAbs a).2 + (decodeAbs b).2)
    rcases roundScaled_finite_or_inf (isNeg a != isNeg b) _ _ false hM
      ((((decodeAbs a).1 * (decodeAbs b).1 : Nat) : ℚ) * 2^((decodeAbs a).2 + (decodeAbs b).2))
      (le_refl _) (by nlinarith) (by simp) (by simp) with h | h
    · left; exact h
    · right; rw [h]; exact isInf_signedInf _

/-- `round` of ±Inf is the amd64 "integer indefinite" value -/
theorem round_inf (x : UInt64) (hx : isInf x = true) : Model.Amount.round x = -(2^63 : Int) := by
  have hE := (isInf_iff x).mp hx
  have hid : roundHalfAway x = x := roundHalfAway_id x (by omega)
  have hnf : isFinite x = false := by
    rw [← Bool.not_eq_true, isFinite_iff]; omega
  unfold Model.Amount.round toInt64 truncToInt
  rw [hid, hnf]
  simp

/-- `round` on a finite float, all cases: nearest integer (ties away) if that fits an `int64`,
otherwise the "integer indefinite" value `-2^63`. -/
theorem round_total (x : UInt64) (hx : isFinite x = true) :
    Model.Amount.round x =
      if -(2^63 : Int) ≤ roundAway (fval x) ∧ roundAway (fval x) < 2^63 then roundAway (fval x)
      else -(2^63 : Int) := by
  obtain ⟨h1, _, h3⟩ := roundHalfAway_spec x hx
  have ht := truncToInt_of_int (roundHalfAway x) h1 (roundAway (fval x)) h3
  unfold Model.Amount.round toInt64
  rw [ht]
  simp only
  split <;> split <;> omega

/-- **Complete description of `NewAmount` on finite inputs.** -/
theorem newAmount_total (f : UInt64) (hf : isFinite f = true) :
    NewAmount f = some
      (if isFinite (mul f satoshiPerBitcoin) = true ∧
          -(2^63 : Int) ≤ roundAway (fval (mul f satoshiPerBitcoin)) ∧
          roundAway (fval (mul f satoshiPerBitcoin)) < 2^63
        then roundAway (fval (mul f satoshiPerBitcoin)) else -(2^63 : Int)) := by
  rw [newAmount_accepts f (not_nan_inf_of_finite f hf)]
  congr 1
  rcases mul_finite_or_inf f _ hf (fval_of_checkNat _ _ sat_check).1 with h | h
  · rw [round_total _ h]
    simp only [h, true_and]
  · rw [round_inf _ h]
    have : isFinite (mul f satoshiPerBitcoin) = false := by
      rw [← Bool.not_eq_true, isFinite_iff]; have := (isInf_iff _).mp h; omega
    simp [this]

/-- `MulF64 a f` for an in-range product -/
theorem mulF64_nearest (a : Int) (f : UInt64)
    (hp : isFinite (mul (ofInt a) f) = true) (hr : |fval (mul (ofInt a) f)| < 2^62) :
    MulF64 a f = roundAway (fval (mul (ofInt a) f)) := by
  unfold MulF64; exact round_eq _ hp hr

theorem one_times_sat : mul 0x3FF0000000000000 satoshiPerBitcoin = satoshiPerBitcoin := by decide +kernel

end Bch.Proofs.Amount
