import Bch.Model.CashAddr
import Bch.Model.Bech32
import Bch.Proofs.C03Eval
/-!
# C03, part 1: GF(2)-linearity of the two checksum step functions, syndromes, XOR-basis search

Everything in this file is kernel-checked. Contents:

* `polyModStep_eq`, `polymodStep_eq` : the Go-shaped step functions equal the table forms `stepC`, `stepB`;
  `stepC_xor`, `stepB_xor` : linearity in (state, symbol) for all naturals;
* `InSpan`/`Indep`/`Ech`/`reduce_of_inSpan`/`insert_inv` : XOR-basis theory on `UInt64` vectors;
* `dfs_sound`, `dfsTop_sound`, `checkIndep_indep` : soundness of the search by induction on the recursion;
  `dfsTop_split`, `sliceList_all`, `parAll_eq` : cutting the search into ranges / parallel tasks;
* `LinStep` (linear, bounded, injective on zero symbols), `linStepC`, `linStepB`;
  `LinStep.fold_xor` (syndrome of `w ⊕ e`), `LinStep.syn_eq_xorSelN` (syndrome = XOR of selected columns),
  `LinStep.mindist` (the minimum-distance theorem from `checkIndep … = true`),
  `LinStep.far` (two words with equal syndrome differ in more than `k` places).
-/
namespace Bch.Proofs.Polymod
open Bch Bch.Model

/-! ## small bit facts -/

theorem and_two_pow_pos (a i : Nat) : (a &&& 2^i > 0) ↔ a.testBit i = true := by
  constructor
  · intro h
    apply Classical.byContradiction; intro hn
    have : a &&& 2^i = 0 := by
      apply Nat.eq_of_testBit_eq; intro j
      simp only [Nat.testBit_and, Nat.testBit_two_pow, Nat.zero_testBit]
      by_cases hij : i = j
      · subst hij; simpa using hn
      · simp [hij]
    omega
  · intro h
    have h1 : (a &&& 2^i).testBit i = true := by simp [Nat.testBit_and, h, Nat.testBit_two_pow_self]
    apply Classical.byContradiction; intro hn
    have h0 : a &&& 2^i = 0 := by omega
    simp [h0] at h1

theorem shr_and_one (a i : Nat) : ((a >>> i) &&& 1 = 1) ↔ a.testBit i = true := by
  simp [Nat.testBit_eq_decide_div_mod_eq, Nat.shiftRight_eq_div_pow, Nat.and_one_is_mod]

theorem sel_xor (x y : Bool) (K : Nat) : sel (x ^^ y) K = sel x K ^^^ sel y K := by
  cases x <;> cases y <;> simp [sel]

theorem ite_xor_sel (p : Prop) [Decidable p] (b : Bool) (h : p ↔ b = true) (x K : Nat) :
    (if p then x ^^^ K else x) = x ^^^ sel b K := by
  cases b <;> simp_all [sel]

/-! ## CashAddr step -/

theorem polyModStep_eq (c : Nat) (d : UInt8) : CashAddr.polyModStep c d = stepC c d.toNat := by
  unfold CashAddr.polyModStep stepC tblC
  simp only []
  rw [ite_xor_sel _ _ (and_two_pow_pos (c >>> 35) 0)]
  rw [ite_xor_sel _ _ (and_two_pow_pos (c >>> 35) 1)]
  rw [ite_xor_sel _ _ (and_two_pow_pos (c >>> 35) 2)]
  rw [ite_xor_sel _ _ (and_two_pow_pos (c >>> 35) 3)]
  rw [ite_xor_sel _ _ (and_two_pow_pos (c >>> 35) 4)]
  ac_rfl

theorem tblC_xor (a b : Nat) : tblC (a ^^^ b) = tblC a ^^^ tblC b := by
  unfold tblC
  simp only [Nat.testBit_xor, sel_xor]
  ac_rfl

/-- **linearity of the CashAddr step** (all states, all symbols) -/
theorem stepC_xor (c c' d d' : Nat) : stepC (c ^^^ c') (d ^^^ d') = stepC c d ^^^ stepC c' d' := by
  unfold stepC
  rw [Nat.shiftRight_xor_distrib, tblC_xor, Nat.and_xor_distrib_right, Nat.shiftLeft_xor_distrib]
  ac_rfl

/-! ## bech32 step -/

theorem polymodStep_eq (c d : Nat) : Bech32.polymodStep c d = stepB c d := by
  unfold Bech32.polymodStep stepB tblB
  have hr : List.range 5 = [0, 1, 2, 3, 4] := by decide
  simp only [hr, List.foldl_cons, List.foldl_nil, Bech32.gen]
  rw [ite_xor_sel _ _ (shr_and_one (c >>> 25) 0)]
  rw [ite_xor_sel _ _ (shr_and_one (c >>> 25) 1)]
  rw [ite_xor_sel _ _ (shr_and_one (c >>> 25) 2)]
  rw [ite_xor_sel _ _ (shr_and_one (c >>> 25) 3)]
  rw [ite_xor_sel _ _ (shr_and_one (c >>> 25) 4)]
  simp only [List.getD_cons_zero, List.getD_cons_succ]
  ac_rfl

theorem tblB_xor (a b : Nat) : tblB (a ^^^ b) = tblB a ^^^ tblB b := by
  unfold tblB
  simp only [Nat.testBit_xor, sel_xor]
  ac_rfl

/-- **linearity of the bech32 step** -/
theorem stepB_xor (c c' d d' : Nat) : stepB (c ^^^ c') (d ^^^ d') = stepB c d ^^^ stepB c' d' := by
  unfold stepB
  rw [Nat.shiftRight_xor_distrib, tblB_xor, Nat.and_xor_distrib_right, Nat.shiftLeft_xor_distrib]
  ac_rfl

/-! ## 64-bit vectors: pivot masks -/

theorem u64_and_xor (x y m : UInt64) : (x ^^^ y) &&& m = (x &&& m) ^^^ (y &&& m) := by
  apply UInt64.toNat_inj.mp
  simp only [UInt64.toNat_and, UInt64.toNat_xor, Nat.and_xor_distrib_right]

theorem toNat_log2 (r : UInt64) : r.log2.toNat = r.toNat.log2 := rfl

/-- the pivot mask of `r` as a number -/
theorem toNat_pivot (r : UInt64) : ((1 : UInt64) <<< r.log2).toNat = 2 ^ r.toNat.log2 := by
  have hr := UInt64.toNat_lt r
  by_cases h0 : r.toNat = 0
  · rw [UInt64.toNat_shiftLeft, toNat_log2, h0]; decide
  · have hl : r.toNat.log2 < 64 := (Nat.log2_lt h0).mpr hr
    rw [UInt64.toNat_shiftLeft, toNat_log2, UInt64.toNat_one, Nat.mod_eq_of_lt hl, Nat.one_shiftLeft,
      Nat.mod_eq_of_lt (Nat.pow_lt_pow_right (by omega) hl)]

theorem nat_and_two_pow (x i : Nat) : x &&& 2^i = if x.testBit i then 2^i else 0 := by
  apply Nat.eq_of_testBit_eq; intro j
  by_cases hij : i = j
  · subst hij; cases h : x.testBit i <;> simp [Nat.testBit_and, h, Nat.testBit_two_pow_self]
  · cases h : x.testBit i <;> simp [Nat.testBit_and, hij]

/-- (M2) a non-zero vector has its pivot bit -/
theorem pivot_set (r : UInt64) (h : r ≠ 0) : r &&& (1 <<< r.log2) ≠ 0 := by
  intro h0
  have h1 := congrArg UInt64.toNat h0
  have hr : r.toNat ≠ 0 := fun h' => h (UInt64.toNat_inj.mp (by simpa using h'))
  rw [UInt64.toNat_and, toNat_pivot, nat_and_two_pow, Nat.testBit_log2 hr] at h1
  simp at h1

/-- (M3) a pivot mask is a single bit -/
theorem pivot_single (r x : UInt64) : x &&& (1 <<< r.log2) = 0 ∨ x &&& (1 <<< r.log2) = 1 <<< r.log2 := by
  cases h : x.toNat.testBit r.toNat.log2
  · left; apply UInt64.toNat_inj.mp; rw [UInt64.toNat_and, toNat_pivot, nat_and_two_pow, h]; rfl
  · right; apply UInt64.toNat_inj.mp; rw [UInt64.toNat_and, toNat_pivot, nat_and_two_pow, h]; rfl

/-! ## spans and independence of lists of 64-bit vectors -/

/-- `v` is an XOR of a sub-list of `cs` -/
def InSpan : List UInt64 → UInt64 → Prop
  | [], v => v = 0
  | c :: cs, v => InSpan cs v ∨ InSpan cs (v ^^^ c)

theorem inSpan_zero : ∀ cs, InSpan cs 0
  | [] => rfl
  | _ :: cs => Or.inl (inSpan_zero cs)

theorem inSpan_xor : ∀ cs x y, InSpan cs x → InSpan cs y → InSpan cs (x ^^^ y)
  | [], x, y, hx, hy => by simp only [InSpan] at *; subst hx hy; rfl
  | c :: cs, x, y, hx, hy => by
    simp only [InSpan] at *
    rcases hx with hx | hx <;> rcases hy with hy | hy
    · exact Or.inl (inSpan_xor cs _ _ hx hy)
    · right; have := inSpan_xor cs _ _ hx hy
      rwa [← UInt64.xor_assoc] at this
    · right; have := inSpan_xor cs _ _ hx hy
      have e : x ^^^ c ^^^ y = x ^^^ y ^^^ c := by ac_rfl
      rwa [e] at this
    · left; have := inSpan_xor cs _ _ hx hy
      have e : x ^^^ c ^^^ (y ^^^ c) = x ^^^ y ^^^ (c ^^^ c) := by ac_rfl
      rwa [e, UInt64.xor_self, UInt64.xor_zero] at this

/-- no vector of the list is an XOR of later ones -/
def Indep : List UInt64 → Prop
  | [] => True
  | c :: cs => ¬ InSpan cs c ∧ Indep cs

/-- XOR of the selected vectors -/
def xorSel : List Bool → List UInt64 → UInt64
  | s :: sel, c :: cs => (if s then c else 0) ^^^ xorSel sel cs
  | _, _ => 0

theorem inSpan_xorSel : ∀ sel cs, InSpan cs (xorSel sel cs)
  | [], cs => by cases cs <;> simp [xorSel, inSpan_zero]
  | _ :: _, [] => by simp [xorSel, InSpan]
  | s :: sel, c :: cs => by
    simp only [xorSel, InSpan]
    cases s
    · left; simpa using inSpan_xorSel sel cs
    · right
      have e : (if true = true then c else 0) ^^^ xorSel sel cs ^^^ c = xorSel sel cs ^^^ (c ^^^ c) := by
        simp only [if_true]; ac_rfl
      rw [e, UInt64.xor_self, UInt64.xor_zero]; exact inSpan_xorSel sel cs

/-- the meaning of `Indep`: only the empty selection XORs to zero -/
theorem indep_xorSel : ∀ sel cs, Indep cs → sel.length = cs.length → xorSel sel cs = 0 →
    ∀ s ∈ sel, s = false
  | [], _, _, _, _ => by simp
  | _ :: _, [], _, hl, _ => by simp at hl
  | s :: sel, c :: cs, hi, hl, hx => by
    simp only [xorSel] at hx
    cases s
    · simp only [Bool.false_eq_true, if_false, UInt64.zero_xor] at hx
      have := indep_xorSel sel cs hi.2 (by simpa using hl) hx
      simpa using this
    · exfalso
      simp only [if_true] at hx
      have : c = xorSel sel cs := UInt64.xor_eq_zero_iff.mp hx
      exact hi.1 (this ▸ inSpan_xorSel sel cs)

/-! ## the echelon basis -/

/-- all pivot bits of `B` are clear in `z` -/
def Red (B : List Ent) (z : UInt64) : Prop := ∀ e ∈ B, z &&& e.m = 0

def Ech : List Ent → Prop
  | [] => True
  | e :: B => (∀ x, x &&& e.m = 0 ∨ x &&& e.m = e.m) ∧ e.b &&& e.m ≠ 0 ∧ Red B e.b ∧ Ech B

def vecs (B : List Ent) : List UInt64 := B.map (·.b)

theorem red_xor {B x y} (hx : Red B x) (hy : Red B y) : Red B (x ^^^ y) := by
  intro e he; rw [u64_and_xor, hx e he, hy e he]; rfl

theorem reduce_inSpan : ∀ B x, InSpan (vecs B) (reduce B x ^^^ x)
  | [], x => by simp [reduce, vecs, InSpan]
  | e :: B, x => by
    simp only [reduce, vecs, List.map_cons, InSpan]
    split
    · left; exact reduce_inSpan B x
    · right
      have e' : reduce B x ^^^ e.b ^^^ x ^^^ e.b = reduce B x ^^^ x ^^^ (e.b ^^^ e.b) := by ac_rfl
      rw [e', UInt64.xor_self, UInt64.xor_zero]; exact reduce_inSpan B x

theorem reduce_red : ∀ B x, Ech B → Red B (reduce B x)
  | [], x, _ => by intro e he; simp at he
  | e :: B, x, h => by
    obtain ⟨h1, h2, h3, h4⟩ := h
    have ih := reduce_red B x h4
    intro e' he'
    simp only [reduce]
    rcases List.mem_cons.mp he' with rfl | he'
    · split
      · assumption
      · rename_i hne
        rw [u64_and_xor]
        rcases h1 (reduce B x) with h | h
        · exact absurd h hne
        · rcases h1 e'.b with h' | h'
          · exact absurd h' h2
          · rw [h, h', UInt64.xor_self]
    · split
      · exact ih e' he'
      · exact red_xor ih h3 e' he'

/-- a reduced vector of the span is zero -/
theorem red_inSpan_zero : ∀ B z, Ech B → Red B z → InSpan (vecs B) z → z = 0
  | [], z, _, _, h => h
  | e :: B, z, hE, hR, hS => by
    obtain ⟨_, h2, h3, h4⟩ := hE
    have hRB : Red B z := fun e' he' => hR e' (List.mem_cons_of_mem _ he')
    rcases hS with hS | hS
    · exact red_inSpan_zero B z h4 hRB hS
    · have := red_inSpan_zero B _ h4 (red_xor hRB h3) hS
      have hz : z = e.b := UInt64.xor_eq_zero_iff.mp this
      exact absurd (hz ▸ hR e (List.mem_cons_self ..)) h2

/-- reduction is canonical: vectors of the span reduce to zero -/
theorem reduce_of_inSpan (B : List Ent) (v : UInt64) (hE : Ech B) (h : InSpan (vecs B) v) :
    reduce B v = 0 := by
  apply red_inSpan_zero B _ hE (reduce_red B v hE)
  have := inSpan_xor _ _ _ (reduce_inSpan B v) h
  have e : reduce B v ^^^ v ^^^ v = reduce B v ^^^ (v ^^^ v) := by ac_rfl
  rwa [e, UInt64.xor_self, UInt64.xor_zero] at this

/-- the search invariant: `B` is an echelon basis whose span contains the (independent) columns `cs` -/
def Inv (B : List Ent) (cs : List UInt64) : Prop :=
  Ech B ∧ (∀ v, InSpan cs v → InSpan (vecs B) v) ∧ Indep cs

theorem inv_nil : Inv [] [] := ⟨trivial, fun _ h => h, trivial⟩

theorem insert_inv {B cs c B'} (h : Inv B cs) (hi : insert B c = some B') : Inv B' (c :: cs) := by
  obtain ⟨hE, hS, hI⟩ := h
  unfold insert at hi
  simp only [] at hi
  split at hi
  · cases hi
  · rename_i hr
    cases hi
    refine ⟨⟨pivot_single _, pivot_set _ hr, reduce_red B c hE, hE⟩, ?_, ?_, hI⟩
    · intro v hv
      rcases hv with hv | hv
      · exact Or.inl (hS v hv)
      · right
        have := inSpan_xor _ _ _ (hS _ hv) (reduce_inSpan B c)
        have e : v ^^^ c ^^^ (reduce B c ^^^ c) = v ^^^ reduce B c ^^^ (c ^^^ c) := by ac_rfl
        rwa [e, UInt64.xor_self, UInt64.xor_zero] at this
    · intro hc
      exact hr (reduce_of_inSpan B c hE (hS c hc))


/-! ## soundness of the depth-first search -/

/-- the five bit-columns of position `p`, last inserted first -/
def colsAt (cols : Array UInt64) (p : Nat) : List UInt64 :=
  [colAt cols p 4, colAt cols p 3, colAt cols p 2, colAt cols p 1, colAt cols p 0]

theorem insertPos_inv {cols B cs p B'} (h : Inv B cs) (hi : insertPos cols B p = some B') :
    Inv B' (colsAt cols p ++ cs) := by
  unfold insertPos at hi
  split at hi; · cases hi
  rename_i B0 h0
  split at hi; · cases hi
  rename_i B1 h1
  split at hi; · cases hi
  rename_i B2 h2
  split at hi; · cases hi
  rename_i B3 h3
  exact insert_inv (insert_inv (insert_inv (insert_inv (insert_inv h h0) h1) h2) h3) hi

/-- columns of an increasing list of positions, added to `cs` in that order -/
def colsOfList (cols : Array UInt64) : List Nat → List UInt64 → List UInt64
  | [], cs => cs
  | p :: P, cs => colsOfList cols P (colsAt cols p ++ cs)

theorem inv_indep {B cs} (h : Inv B cs) : Indep cs := h.2.2

theorem dfs_sound (cols : Array UInt64) : ∀ (cnt k : Nat) (B : List Ent) (lo : Nat) (cs : List UInt64),
    dfs cols k B lo cnt = true → Inv B cs →
    ∀ P : List Nat, P.Pairwise (· < ·) → (∀ p ∈ P, lo ≤ p ∧ p < lo + cnt) → P.length ≤ k →
      Indep (colsOfList cols P cs) := by
  intro cnt
  induction cnt with
  | zero =>
    intro k B lo cs _ hI P _ hr _
    cases P with
    | nil => exact hI.2.2
    | cons p P => have := hr p (List.mem_cons_self ..); omega
  | succ cnt ih =>
    intro k B lo cs hd hI P hp hr hl
    cases P with
    | nil => exact hI.2.2
    | cons p P =>
      cases k with
      | zero => simp at hl
      | succ k =>
        simp only [dfs, Bool.and_eq_true] at hd
        obtain ⟨hd1, hd2⟩ := hd
        have hp' := List.pairwise_cons.mp hp
        have hpr := hr p (List.mem_cons_self ..)
        by_cases hpl : p = lo
        · subst hpl
          split at hd1
          · cases hd1
          · rename_i B' hB'
            apply ih k B' (p+1) _ hd1 (insertPos_inv hI hB') P hp'.2
            · intro q hq
              have := hp'.1 q hq
              have := hr q (List.mem_cons_of_mem _ hq)
              omega
            · simpa using hl
        · apply ih (k+1) B (lo+1) cs hd2 hI (p :: P) hp
          · intro q hq
            rcases List.mem_cons.mp hq with rfl | hq'
            · omega
            · have := hp'.1 q hq'
              have := hr q hq
              omega
          · exact hl

theorem dfsTop_sound (cols : Array UInt64) (k : Nat) (B : List Ent) (cs : List UInt64) (hI : Inv B cs) :
    ∀ (m lo cnt : Nat), dfsTop cols k B lo m cnt = true →
    ∀ P : List Nat, P.Pairwise (· < ·) → (∀ p ∈ P, lo ≤ p ∧ p < lo + cnt) → P.length ≤ k + 1 →
      (∀ p, P.head? = some p → p < lo + m) → Indep (colsOfList cols P cs) := by
  intro m
  induction m with
  | zero =>
    intro lo cnt _ P _ hr _ hh
    cases P with
    | nil => exact hI.2.2
    | cons p P => have := hr p (List.mem_cons_self ..); have := hh p rfl; omega
  | succ m ih =>
    intro lo cnt hd P hp hr hl hh
    cases P with
    | nil => exact hI.2.2
    | cons p P =>
      simp only [dfsTop, Bool.and_eq_true] at hd
      obtain ⟨hd1, hd2⟩ := hd
      have hp' := List.pairwise_cons.mp hp
      have hpr := hr p (List.mem_cons_self ..)
      by_cases hpl : p = lo
      · subst hpl
        split at hd1
        · cases hd1
        · rename_i B' hB'
          apply dfs_sound cols (cnt-1) k B' (p+1) _ hd1 (insertPos_inv hI hB') P hp'.2
          · intro q hq
            have := hp'.1 q hq
            have := hr q (List.mem_cons_of_mem _ hq)
            omega
          · simpa using hl
      · apply ih (lo+1) (cnt-1) hd2 (p :: P) hp
        · intro q hq
          rcases List.mem_cons.mp hq with rfl | hq'
          · omega
          · have := hp'.1 q hq'
            have := hr q hq
            omega
        · exact hl
        · intro q hq; have := hh q hq; omega

theorem dfsTop_split (cols : Array UInt64) (k : Nat) (B : List Ent) : ∀ (m1 m2 lo cnt : Nat),
    dfsTop cols k B lo (m1 + m2) cnt
      = (dfsTop cols k B lo m1 cnt && dfsTop cols k B (lo + m1) m2 (cnt - m1)) := by
  intro m1
  induction m1 with
  | zero => intro m2 lo cnt; simp [dfsTop]
  | succ m1 ih =>
    intro m2 lo cnt
    have e : m1 + 1 + m2 = (m1 + m2) + 1 := by omega
    rw [e]
    simp only [dfsTop]
    rw [ih, Bool.and_assoc]
    have e1 : lo + 1 + m1 = lo + (m1 + 1) := by omega
    have e2 : cnt - 1 - m1 = cnt - (m1 + 1) := by omega
    rw [e1, e2]

theorem parAll_eq (fs : List (Unit → Bool)) : parAll fs = fs.all (fun f => f ()) := by
  unfold parAll; rw [List.all_map]; rfl

theorem slice_split (cols : Array UInt64) (n k lo m1 m2 : Nat) :
    slice cols n k lo (m1 + m2) = (slice cols n k lo m1 && slice cols n k (lo + m1) m2) := by
  unfold slice
  split
  · rfl
  · rw [dfsTop_split]
    have e : n - lo - m1 = n - (lo + m1) := by omega
    rw [e]

theorem sliceList_all (cols : Array UInt64) (n k : Nat) : ∀ (ms : List Nat) (m lo : Nat),
    (sliceList cols n k lo (m :: ms)).all (fun f => f ()) = true →
      slice cols n k lo (m :: ms).sum = true
  | [], m, lo, h => by simpa [sliceList] using h
  | m' :: ms, m, lo, h => by
    simp only [sliceList, List.all_cons, Bool.and_eq_true] at h
    rw [List.sum_cons, slice_split, Bool.and_eq_true]
    exact ⟨h.1, sliceList_all cols n k ms m' _ (by simpa [sliceList] using h.2)⟩

/-- **soundness of `checkIndep`, basis level**: every increasing list of at most `k` positions below `n`
    that starts with position 0 has independent bit-columns -/
theorem checkIndep_indep (cols : Array UInt64) (n k : Nat) (h : checkIndep cols n k = true)
    (P : List Nat) (hp : P.Pairwise (· < ·)) (hr : ∀ p ∈ P, 1 ≤ p ∧ p < n) (hl : P.length + 1 ≤ k) :
    Indep (colsOfList cols P (colsAt cols 0)) := by
  unfold checkIndep at h
  split at h
  · omega
  · have : P = [] := List.eq_nil_of_length_eq_zero (by omega)
    subst this
    cases h0 : insertPos cols [] 0 with
    | none => simp [h0] at h
    | some B => simpa [colsOfList] using (insertPos_inv inv_nil h0).2.2
  · rename_i k
    unfold slice at h
    split at h
    · cases h
    · rename_i B h0
      have hI := insertPos_inv inv_nil h0
      simp only [List.append_nil] at hI
      apply dfsTop_sound cols k B _ hI (n-1) 1 (n-1) h P hp
      · intro p hp; have := hr p hp; omega
      · omega
      · intro p hp
        have := hr p (List.mem_of_mem_head? hp); omega

/-! ## linear step functions: syndromes -/

/-- what the argument needs of a checksum step function with a `W`-bit state -/
structure LinStep (W : Nat) (step : Nat → Nat → Nat) : Prop where
  lin : ∀ c c' d d', step (c ^^^ c') (d ^^^ d') = step c d ^^^ step c' d'
  bound : ∀ c d, c < 2^W → d < 32 → step c d < 2^W
  inj : ∀ c, c < 2^W → step c 0 = 0 → c = 0

section lin
variable {W : Nat} {step : Nat → Nat → Nat} (h : LinStep W step)
include h

theorem LinStep.zero : step 0 0 = 0 := by
  have := h.lin 0 0 0 0
  simp only [Nat.xor_self] at this
  exact this

/-- linearity of the fold: the syndrome of `w ⊕ e` from `s ⊕ s'` -/
theorem LinStep.fold_xor : ∀ (w e : List Nat) (s s' : Nat), w.length = e.length →
    (List.zipWith (· ^^^ ·) w e).foldl step (s ^^^ s') = w.foldl step s ^^^ e.foldl step s'
  | [], [], _, _, _ => rfl
  | [], _ :: _, _, _, hl => by simp at hl
  | _ :: _, [], _, _, hl => by simp at hl
  | x :: w, y :: e, s, s', hl => by
    simp only [List.zipWith_cons_cons, List.foldl_cons]
    rw [h.lin]
    exact LinStep.fold_xor w e _ _ (by simpa using hl)

theorem LinStep.fold_zeros : ∀ n : Nat, (List.replicate n 0).foldl step 0 = 0
  | 0 => rfl
  | n+1 => by rw [List.replicate_succ, List.foldl_cons, h.zero]; exact LinStep.fold_zeros n

theorem LinStep.fold_lt : ∀ (e : List Nat) (s : Nat), s < 2^W → (∀ d ∈ e, d < 32) → e.foldl step s < 2^W
  | [], _, hs, _ => hs
  | d :: e, s, hs, hd => by
    rw [List.foldl_cons]
    exact LinStep.fold_lt e _ (h.bound _ _ hs (hd d (List.mem_cons_self ..)))
      (fun x hx => hd x (List.mem_cons_of_mem _ hx))

/-- trailing zeros do not make a non-zero syndrome vanish -/
theorem LinStep.fold_zeros_ne : ∀ (j s : Nat), s < 2^W → s ≠ 0 → (List.replicate j 0).foldl step s ≠ 0
  | 0, _, _, hs => hs
  | j+1, s, hb, hs => by
    rw [List.replicate_succ, List.foldl_cons]
    exact LinStep.fold_zeros_ne j _ (h.bound _ _ hb (by omega)) (fun h0 => hs (h.inj s hb h0))

omit h in
theorem zipWith_zeros_left : ∀ (e : List Nat), List.zipWith (· ^^^ ·) (List.replicate e.length 0) e = e
  | [] => rfl
  | d :: e => by simp [List.replicate_succ, zipWith_zeros_left e]

/-- syndrome of the symbol `d` followed by `p` zeros -/
def symcol (step : Nat → Nat → Nat) (d p : Nat) : Nat := (d :: List.replicate p 0).foldl step 0

theorem LinStep.syn_cons (d : Nat) (e : List Nat) :
    (d :: e).foldl step 0 = symcol step d e.length ^^^ e.foldl step 0 := by
  have h1 := h.fold_xor (d :: List.replicate e.length 0) (0 :: e) 0 0 (by simp)
  simp only [List.zipWith_cons_cons, zipWith_zeros_left, Nat.xor_zero] at h1
  rw [h1, symcol]
  congr 1
  rw [List.foldl_cons, h.zero]

theorem LinStep.symcol_xor (d d' p : Nat) :
    symcol step (d ^^^ d') p = symcol step d p ^^^ symcol step d' p := by
  have h1 := h.fold_xor (d :: List.replicate p 0) (d' :: List.replicate p 0) 0 0 (by simp)
  have h2 := zipWith_zeros_left (List.replicate p 0)
  simp only [List.length_replicate] at h2
  simp only [List.zipWith_cons_cons, h2, Nat.xor_zero] at h1
  exact h1

theorem LinStep.symcol_zero (p : Nat) : symcol step 0 p = 0 := by
  have := h.fold_zeros (p+1)
  rwa [List.replicate_succ] at this

/-- XOR of the selected numbers -/
def xorSelN : List Bool → List Nat → Nat
  | s :: sel, c :: cs => (if s then c else 0) ^^^ xorSelN sel cs
  | _, _ => 0

def bits5 (d : Nat) : List Bool := [d.testBit 4, d.testBit 3, d.testBit 2, d.testBit 1, d.testBit 0]

def colsAtN (step : Nat → Nat → Nat) (p : Nat) : List Nat :=
  [colN step p 4, colN step p 3, colN step p 2, colN step p 1, colN step p 0]

omit h in
theorem bits5_decomp : ∀ d, d < 32 → d = (if d.testBit 4 then 16 else 0) ^^^ ((if d.testBit 3 then 8 else 0)
    ^^^ ((if d.testBit 2 then 4 else 0) ^^^ ((if d.testBit 1 then 2 else 0) ^^^ (if d.testBit 0 then 1 else 0)))) := by
  decide

theorem LinStep.symcol_ite (b : Bool) (K p : Nat) :
    symcol step (if b then K else 0) p = if b then symcol step K p else 0 := by
  cases b
  · simpa using h.symcol_zero p
  · simp

/-- the syndrome of a symbol is the XOR of the bit-columns of its position -/
theorem LinStep.symcol_bits (d p : Nat) (hd : d < 32) :
    symcol step d p = xorSelN (bits5 d) (colsAtN step p) := by
  conv => lhs; rw [bits5_decomp d hd]
  simp only [h.symcol_xor, h.symcol_ite, xorSelN, bits5, colsAtN, Nat.xor_zero]
  rfl


/-! ### from words to column selections -/

omit h in
theorem xorSelN_append : ∀ (s1 : List Bool) (c1 : List Nat) (s2 : List Bool) (c2 : List Nat),
    s1.length = c1.length → xorSelN (s1 ++ s2) (c1 ++ c2) = xorSelN s1 c1 ^^^ xorSelN s2 c2
  | [], [], _, _, _ => by simp [xorSelN]
  | [], _ :: _, _, _, hl => by simp at hl
  | _ :: _, [], _, _, hl => by simp at hl
  | s :: s1, c :: c1, s2, c2, hl => by
    simp only [List.cons_append, xorSelN]
    rw [xorSelN_append s1 c1 s2 c2 (by simpa using hl), Nat.xor_assoc]

/-- positions (counted from the end) of the non-zero symbols, highest first -/
def suppDec : List Nat → List Nat
  | [] => []
  | d :: e => if d = 0 then suppDec e else e.length :: suppDec e

/-- the bits of the non-zero symbols -/
def selOf : List Nat → List Bool
  | [] => []
  | d :: e => if d = 0 then selOf e else bits5 d ++ selOf e

omit h in
theorem suppDec_cons (d : Nat) (e : List Nat) :
    suppDec (d :: e) = if d = 0 then suppDec e else e.length :: suppDec e := rfl
omit h in
theorem selOf_cons (d : Nat) (e : List Nat) :
    selOf (d :: e) = if d = 0 then selOf e else bits5 d ++ selOf e := rfl

def colsDecN (step : Nat → Nat → Nat) : List Nat → List Nat
  | [] => []
  | p :: P => colsAtN step p ++ colsDecN step P

/-- number of non-zero symbols -/
def weight (e : List Nat) : Nat := e.countP (· ≠ 0)

omit h in
theorem suppDec_length : ∀ e, (suppDec e).length = weight e
  | [] => rfl
  | d :: e => by
    unfold suppDec weight
    by_cases hd : d = 0
    · simp only [hd, if_true]; rw [List.countP_cons_of_neg (by simp)]; exact suppDec_length e
    · simp only [hd, if_false, List.length_cons]
      rw [List.countP_cons_of_pos (by simpa using hd)]; congr 1; exact suppDec_length e

omit h in
theorem suppDec_lt : ∀ e, ∀ p ∈ suppDec e, p < e.length
  | [], p, hp => by simp [suppDec] at hp
  | d :: e, p, hp => by
    unfold suppDec at hp
    split at hp
    · have := suppDec_lt e p hp; simp; omega
    · rcases List.mem_cons.mp hp with rfl | hp
      · simp
      · have := suppDec_lt e p hp; simp; omega

omit h in
theorem suppDec_pairwise : ∀ e, (suppDec e).Pairwise (· > ·)
  | [] => List.Pairwise.nil
  | d :: e => by
    unfold suppDec
    split
    · exact suppDec_pairwise e
    · exact List.pairwise_cons.mpr ⟨fun p hp => suppDec_lt e p hp, suppDec_pairwise e⟩

omit h in
theorem suppDec_zero_mem : ∀ (e0 : List Nat) (d : Nat), d ≠ 0 → 0 ∈ suppDec (e0 ++ [d])
  | [], d, hd => by simp [suppDec, hd]
  | x :: e0, d, hd => by
    simp only [List.cons_append, suppDec]
    split
    · exact suppDec_zero_mem e0 d hd
    · exact List.mem_cons_of_mem _ (suppDec_zero_mem e0 d hd)

omit h in
theorem selOf_length : ∀ e, (selOf e).length = (colsDecN step (suppDec e)).length
  | [] => rfl
  | d :: e => by
    unfold selOf suppDec
    split
    · exact selOf_length e
    · simp only [colsDecN, List.length_append, selOf_length e]; rfl

/-- the syndrome of a word is the XOR of the bit-columns selected by its non-zero symbols -/
theorem LinStep.syn_eq_xorSelN : ∀ e : List Nat, (∀ d ∈ e, d < 32) →
    e.foldl step 0 = xorSelN (selOf e) (colsDecN step (suppDec e))
  | [], _ => rfl
  | d :: e, hd => by
    have ih := LinStep.syn_eq_xorSelN e (fun x hx => hd x (List.mem_cons_of_mem _ hx))
    rw [h.syn_cons, ih, selOf_cons, suppDec_cons]
    by_cases h0 : d = 0
    · simp only [h0, if_true, h.symcol_zero, Nat.zero_xor]
    · simp only [h0, if_false, colsDecN]
      rw [xorSelN_append _ _ _ _ rfl, h.symcol_bits d _ (hd d (List.mem_cons_self ..))]

omit h in
theorem bits5_false : ∀ d, d < 32 → (∀ s ∈ bits5 d, s = false) → d = 0 := by decide

omit h in
theorem selOf_false : ∀ e : List Nat, (∀ d ∈ e, d < 32) → (∀ s ∈ selOf e, s = false) → ∀ d ∈ e, d = 0
  | [], _, _ => by simp
  | d :: e, hd, hs => by
    unfold selOf at hs
    have hd' : ∀ x ∈ e, x < 32 := fun x hx => hd x (List.mem_cons_of_mem _ hx)
    by_cases h0 : d = 0
    · simp only [h0, if_true] at hs
      intro x hx
      rcases List.mem_cons.mp hx with rfl | hx
      · exact h0
      · exact selOf_false e hd' hs x hx
    · exfalso
      simp only [h0, if_false] at hs
      exact h0 (bits5_false d (hd d (List.mem_cons_self ..)) (fun s hs' => hs s (List.mem_append_left _ hs')))

/-! ### the link to the 64-bit column table -/

omit h in
theorem xorSel_map_ofNat : ∀ (sel : List Bool) (cs : List Nat),
    xorSel sel (cs.map UInt64.ofNat) = UInt64.ofNat (xorSelN sel cs)
  | [], cs => by cases cs <;> rfl
  | _ :: _, [] => rfl
  | s :: sel, c :: cs => by
    simp only [List.map_cons, xorSel, xorSelN, UInt64.ofNat_xor, xorSel_map_ofNat sel cs]
    cases s <;> rfl

def colsDec (cols : Array UInt64) : List Nat → List UInt64
  | [] => []
  | p :: P => colsAt cols p ++ colsDec cols P

omit h in
theorem colAt_cols (n p b : Nat) (hp : p < n) (hb : b < 5) :
    colAt (cols step n) p b = UInt64.ofNat (colN step p b) := by
  unfold colAt cols
  have hi : 5 * p + b < 5 * n := by omega
  rw [getElem!_pos _ _ (by simpa using hi), Array.getElem_ofFn]
  congr 2
  · show (5 * p + b) / 5 = p; omega
  · show (5 * p + b) % 5 = b; omega

omit h in
theorem colsDec_cols (n : Nat) : ∀ P : List Nat, (∀ p ∈ P, p < n) →
    colsDec (cols step n) P = (colsDecN step P).map UInt64.ofNat
  | [], _ => rfl
  | p :: P, hp => by
    have hpn := hp p (List.mem_cons_self ..)
    simp only [colsDec, colsDecN, List.map_append, colsDec_cols n P (fun q hq => hp q (List.mem_cons_of_mem _ hq))]
    congr 1
    simp only [colsAt, colsAtN, List.map_cons, List.map_nil, colAt_cols n p _ hpn (by omega : 4 < 5),
      colAt_cols n p _ hpn (by omega : 3 < 5), colAt_cols n p _ hpn (by omega : 2 < 5),
      colAt_cols n p _ hpn (by omega : 1 < 5), colAt_cols n p _ hpn (by omega : 0 < 5)]

omit h in
theorem colsOfList_append (cols : Array UInt64) : ∀ (P : List Nat) (p : Nat) (cs : List UInt64),
    colsOfList cols (P ++ [p]) cs = colsAt cols p ++ colsOfList cols P cs
  | [], _, _ => rfl
  | q :: P, p, cs => by simp only [List.cons_append, colsOfList]; exact colsOfList_append cols P p _

omit h in
theorem colsOfList_reverse (cols : Array UInt64) : ∀ Q : List Nat,
    colsOfList cols Q.reverse [] = colsDec cols Q
  | [] => rfl
  | q :: Q => by rw [List.reverse_cons, colsOfList_append, colsOfList_reverse cols Q]; rfl

omit h in
/-- strip the trailing zeros of a non-zero word -/
theorem exists_last_nonzero : ∀ e : List Nat, (∃ d ∈ e, d ≠ 0) →
    ∃ e0 d j, e = e0 ++ d :: List.replicate j 0 ∧ d ≠ 0
  | [], hne => by simp at hne
  | x :: e, hne => by
    by_cases he : ∃ d ∈ e, d ≠ 0
    · obtain ⟨e0, d, j, rfl, hd⟩ := exists_last_nonzero e he
      exact ⟨x :: e0, d, j, rfl, hd⟩
    · have hall : ∀ d ∈ e, d = 0 := by
        intro d hd; apply Classical.byContradiction; intro hn; exact he ⟨d, hd, hn⟩
      have hx : x ≠ 0 := by
        obtain ⟨d, hd, hn⟩ := hne
        rcases List.mem_cons.mp hd with rfl | hd
        · exact hn
        · exact absurd (hall d hd) hn
      exact ⟨[], x, e.length, by rw [List.nil_append]; congr 1; exact List.eq_replicate_of_mem hall, hx⟩

/-- **the minimum-distance theorem**: if the search succeeds, every non-zero word of length ≤ `n`
    with symbols below 32 and at most `k` non-zero symbols has a non-zero syndrome -/
theorem LinStep.mindist (n k : Nat) (hc : checkIndep (cols step n) n k = true)
    (e : List Nat) (hlen : e.length ≤ n) (hsym : ∀ d ∈ e, d < 32) (hw : weight e ≤ k)
    (hne : ∃ d ∈ e, d ≠ 0) : e.foldl step 0 ≠ 0 := by
  obtain ⟨e0, d, j, rfl, hd⟩ := exists_last_nonzero e hne
  have happ : e0 ++ d :: List.replicate j 0 = (e0 ++ [d]) ++ List.replicate j 0 := by simp
  rw [happ, List.foldl_append]
  have hsym1 : ∀ x ∈ e0 ++ [d], x < 32 := by
    intro x hx; apply hsym x; rw [happ]; exact List.mem_append_left _ hx
  apply h.fold_zeros_ne j _ (h.fold_lt _ _ (Nat.two_pow_pos W) hsym1)
  intro hz
  -- the support of `e0 ++ [d]`, increasing, starts with position 0
  have hlen1 : (e0 ++ [d]).length ≤ n := by
    rw [happ, List.length_append] at hlen; omega
  have hw1 : weight (e0 ++ [d]) ≤ k := by
    rw [happ] at hw; unfold weight at *; rw [List.countP_append] at hw; omega
  have hmem := suppDec_zero_mem e0 d hd
  have hpw := suppDec_pairwise (e0 ++ [d])
  have hlt := suppDec_lt (e0 ++ [d])
  have hsl := suppDec_length (e0 ++ [d])
  have hsel := selOf_length (step := step) (e0 ++ [d])
  generalize hS : suppDec (e0 ++ [d]) = S at *
  have hpr : S.reverse.Pairwise (· < ·) := List.pairwise_reverse.mpr hpw
  cases hR : S.reverse with
  | nil => simp [List.reverse_eq_nil_iff.mp hR] at hmem
  | cons a P =>
    rw [hR] at hpr
    have hpr' := List.pairwise_cons.mp hpr
    have hmemR : (0 : Nat) ∈ a :: P := by rw [← hR]; simpa using hmem
    have ha : a = 0 := by
      rcases List.mem_cons.mp hmemR with h0 | h0
      · exact h0.symm
      · have := hpr'.1 0 h0; omega
    subst ha
    have hI := checkIndep_indep (cols step n) n k hc P hpr'.2
      (by
        intro p hp
        have h1 := hpr'.1 p hp
        have h2 : p ∈ S := by
          have : p ∈ S.reverse := by rw [hR]; exact List.mem_cons_of_mem _ hp
          simpa using this
        have := hlt p h2
        omega)
      (by
        have : S.reverse.length = P.length + 1 := by rw [hR]; rfl
        rw [List.length_reverse] at this; omega)
    have hcol : colsOfList (cols step n) P (colsAt (cols step n) 0) = colsDec (cols step n) S := by
      rw [← colsOfList_reverse, hR]; rfl
    rw [hcol, colsDec_cols n S (fun p hp => by have := hlt p hp; omega)] at hI
    have hx := xorSel_map_ofNat (selOf (e0 ++ [d])) (colsDecN step S)
    rw [← hS, ← h.syn_eq_xorSelN _ hsym1, hz] at hx
    rw [hS] at hx
    have hfalse := indep_xorSel _ _ hI (by rw [List.length_map]; exact hsel) hx
    have := selOf_false _ hsym1 hfalse d (by simp)
    exact hd this

end lin

/-! ## the two step functions are linear, bounded and injective on zero symbols -/

theorem shl5_mod32 (a : Nat) : (a <<< 5) % 32 = 0 := by rw [Nat.shiftLeft_eq]; omega

theorem tblC_low : ∀ x, x < 32 → tblC x % 32 = 0 → x = 0 := by decide
theorem tblB_low : ∀ x, x < 32 → tblB x % 32 = 0 → x = 0 := by decide
theorem tblC_lt : ∀ x, x < 32 → tblC x < 2^40 := by decide
theorem tblB_lt : ∀ x, x < 32 → tblB x < 2^30 := by decide

theorem linStepC : LinStep 40 stepC where
  lin := stepC_xor
  bound := by
    intro c d hc hd
    unfold stepC
    have h0 : c >>> 35 < 32 := by rw [Nat.shiftRight_eq_div_pow]; omega
    have h1 : (c &&& 0x07ffffffff) <<< 5 < 2^40 := by
      have : c &&& 0x07ffffffff < 2^35 := Nat.and_lt_two_pow _ (by omega)
      rw [Nat.shiftLeft_eq]; omega
    exact Nat.xor_lt_two_pow (Nat.xor_lt_two_pow h1 (by omega)) (tblC_lt _ h0)
  inj := by
    intro c hc h
    unfold stepC at h
    have h0 : c >>> 35 < 32 := by rw [Nat.shiftRight_eq_div_pow]; omega
    have hm := congrArg (· % 2^5) h
    simp only [Nat.xor_mod_two_pow, Nat.xor_zero] at hm
    rw [show (2:Nat)^5 = 32 from rfl, shl5_mod32, Nat.zero_xor] at hm
    have hc0 := tblC_low _ h0 hm
    rw [hc0, show tblC 0 = 0 from rfl, Nat.xor_zero, Nat.xor_zero, Nat.shiftLeft_eq] at h
    have hlow : c &&& 0x07ffffffff = 0 := by omega
    have hc35 : c < 2^35 := by rw [Nat.shiftRight_eq_div_pow] at hc0; omega
    rw [show (0x07ffffffff : Nat) = 2^35 - 1 from rfl, Nat.and_two_pow_sub_one_of_lt_two_pow hc35] at hlow
    exact hlow

theorem linStepB : LinStep 30 stepB where
  lin := stepB_xor
  bound := by
    intro c d hc hd
    unfold stepB
    have h0 : c >>> 25 < 32 := by rw [Nat.shiftRight_eq_div_pow]; omega
    have h1 : (c &&& 0x1ffffff) <<< 5 < 2^30 := by
      have : c &&& 0x1ffffff < 2^25 := Nat.and_lt_two_pow _ (by omega)
      rw [Nat.shiftLeft_eq]; omega
    exact Nat.xor_lt_two_pow (Nat.xor_lt_two_pow h1 (by omega)) (tblB_lt _ h0)
  inj := by
    intro c hc h
    unfold stepB at h
    have h0 : c >>> 25 < 32 := by rw [Nat.shiftRight_eq_div_pow]; omega
    have hm := congrArg (· % 2^5) h
    simp only [Nat.xor_mod_two_pow, Nat.xor_zero] at hm
    rw [show (2:Nat)^5 = 32 from rfl, shl5_mod32, Nat.zero_xor] at hm
    have hc0 := tblB_low _ h0 hm
    rw [hc0, show tblB 0 = 0 from rfl, Nat.xor_zero, Nat.xor_zero, Nat.shiftLeft_eq] at h
    have hlow : c &&& 0x1ffffff = 0 := by omega
    have hc25 : c < 2^25 := by rw [Nat.shiftRight_eq_div_pow] at hc0; omega
    rw [show (0x1ffffff : Nat) = 2^25 - 1 from rfl, Nat.and_two_pow_sub_one_of_lt_two_pow hc25] at hlow
    exact hlow

/-! ## Hamming distance and the two-codeword form -/

/-- number of positions where two lists differ (positions beyond the shorter list are ignored;
    all uses are for lists of equal length) -/
def hamming {α : Type} [DecidableEq α] : List α → List α → Nat
  | x :: a, y :: b => (if x = y then 0 else 1) + hamming a b
  | _, _ => 0

theorem nat_xor_eq_zero {x y : Nat} : x ^^^ y = 0 ↔ x = y := by
  constructor
  · intro h
    have : (x ^^^ y) ^^^ y = y := by rw [h, Nat.zero_xor]
    rwa [Nat.xor_assoc, Nat.xor_self, Nat.xor_zero] at this
  · rintro rfl; exact Nat.xor_self _

theorem weight_zipWith_xor : ∀ v v' : List Nat, weight (List.zipWith (· ^^^ ·) v v') = hamming v v'
  | [], _ => by simp [weight, hamming]
  | _ :: _, [] => by simp [weight, hamming]
  | x :: v, y :: v' => by
    have ih := weight_zipWith_xor v v'
    unfold weight at *
    rw [List.zipWith_cons_cons, hamming, List.countP_cons, ih, Nat.add_comm]
    congr 1
    by_cases hxy : x = y <;> simp [hxy, nat_xor_eq_zero]

theorem hamming_eq_zero {α : Type} [DecidableEq α] : ∀ a b : List α, a.length = b.length →
    hamming a b = 0 → a = b
  | [], [], _, _ => rfl
  | [], _ :: _, hl, _ => by simp at hl
  | _ :: _, [], hl, _ => by simp at hl
  | x :: a, y :: b, hl, h => by
    simp only [hamming] at h
    by_cases hxy : x = y
    · subst hxy
      simp only [if_true, Nat.zero_add] at h
      rw [hamming_eq_zero a b (by simpa using hl) h]
    · simp [hxy] at h

theorem hamming_self {α : Type} [DecidableEq α] : ∀ a : List α, hamming a a = 0
  | [] => rfl
  | x :: a => by simp [hamming, hamming_self a]

/-- **two words with the same syndrome are far apart**: the form used for both decoders -/
theorem LinStep.far {W : Nat} {step : Nat → Nat → Nat} (h : LinStep W step) (n k : Nat)
    (hc : checkIndep (cols step n) n k = true) (s : Nat) (v v' : List Nat)
    (hl : v.length = v'.length) (hn : v.length ≤ n) (hv : ∀ d ∈ v, d < 32) (hv' : ∀ d ∈ v', d < 32)
    (hs : v.foldl step s = v'.foldl step s) (hne : v ≠ v') : k < hamming v v' := by
  apply Classical.byContradiction; intro hk
  have hx := h.fold_xor v v' s s hl
  rw [Nat.xor_self, hs, Nat.xor_self] at hx
  refine h.mindist n k hc (List.zipWith (· ^^^ ·) v v') ?_ ?_ ?_ ?_ hx
  · simp [← hl]; exact hn
  · intro d hd
    obtain ⟨i, hi, rfl⟩ := List.getElem_of_mem hd
    rw [List.getElem_zipWith]
    simp only [List.length_zipWith] at hi
    exact Nat.xor_lt_two_pow (n := 5) (hv _ (List.getElem_mem _)) (hv' _ (List.getElem_mem _))
  · rw [weight_zipWith_xor]; omega
  · apply Classical.byContradiction; intro hall
    have h0 : weight (List.zipWith (· ^^^ ·) v v') = 0 := by
      unfold weight
      rw [List.countP_eq_zero]
      intro d hd hd'
      exact hall ⟨d, hd, by simpa using hd'⟩
    rw [weight_zipWith_xor] at h0
    exact hne (hamming_eq_zero v v' hl h0)

end Bch.Proofs.Polymod
