import Bch.Proofs.BloomTx
/-
C10, second part: the repaired block scan (skip a transaction already checked against the current
filter version) computes the same matched list and the same final filter as the reference scan
(re-check every dependant on every match), and evaluates each transaction at most once per
filter version.
-/
namespace Bch.Proofs.BloomTx
open Bch Bch.Model.BloomTx

variable {F : Type}

/-! ## Re-evaluation against an unchanged filter -/

theorem markMatched_of_mem {l : List Nat} {i : Nat} (h : i ∈ l) : markMatched l i = l := by
  unfold markMatched
  rw [if_pos (by simpa using h)]

/-- `checkedAt[k]` is the current version: `k` would be skipped -/
def Cur (s : Scan F) (k : Nat) : Prop := s.checkedAt.lookup k = some s.version

/-- closure of the "checked at the current version" set: every matching member outside the call
    stack `P` (whose loops over dependants are still running) has all its registered dependants in
    the set -/
def Closed (O : FilterOps F) (block : Array Tx) (inputs : Inputs) (s : Scan F) (P : List Nat) : Prop :=
  ∀ k, Cur s k → k ∉ P → ∀ u, block[k]? = some u → (matchTxAndUpdate O s.filter u).2 = true →
    ∀ d ∈ dependants block inputs u.id, Cur s d

/-- the same, except that the index `k` about to be checked may still be missing from the set -/
def ClosedUpTo (O : FilterOps F) (block : Array Tx) (inputs : Inputs) (s : Scan F) (P : List Nat)
    (k : Nat) : Prop :=
  ∀ k', Cur s k' → k' ∉ P → ∀ u, block[k']? = some u → (matchTxAndUpdate O s.filter u).2 = true →
    ∀ d ∈ dependants block inputs u.id, Cur s d ∨ d = k

theorem Closed.upTo {O : FilterOps F} {block : Array Tx} {inputs : Inputs} {s : Scan F} {P P' : List Nat}
    (h : Closed O block inputs s P) (hP : ∀ p ∈ P, p ∈ P') (k : Nat) :
    ClosedUpTo O block inputs s P' k :=
  fun k' hk' hkP u hu hm d hd => Or.inl (h k' hk' (fun hp => hkP (hP k' hp)) u hu hm d hd)

/-- an edge of the "matching transaction → registered spender" graph under filter `g` -/
def Edge (O : FilterOps F) (block : Array Tx) (inputs : Inputs) (g : F) (a b : Nat) : Prop :=
  ∃ u, block[a]? = some u ∧ Relevant O g u ∧ b ∈ dependants block inputs u.id

/-- non-empty paths in that graph -/
inductive ReachPlus (O : FilterOps F) (block : Array Tx) (inputs : Inputs) (g : F) : Nat → Nat → Prop
  | single {a b : Nat} : Edge O block inputs g a b → ReachPlus O block inputs g a b
  | cons {a b c : Nat} : Edge O block inputs g a b → ReachPlus O block inputs g b c →
      ReachPlus O block inputs g a c

theorem ReachPlus.snoc {O : FilterOps F} {block : Array Tx} {inputs : Inputs} {g : F} {a b c : Nat}
    (h : ReachPlus O block inputs g a b) (e : Edge O block inputs g b c) : ReachPlus O block inputs g a c := by
  induction h with
  | single e' => exact .cons e' (.single e)
  | cons e' _ ih => exact .cons e' (ih e)

theorem Edge.mono {O : FilterOps F} {block : Array Tx} {inputs : Inputs} {g g' : F} (hg : Le O g g')
    {a b : Nat} : Edge O block inputs g a b → Edge O block inputs g' a b := by
  rintro ⟨u, hu, hr, hd⟩; exact ⟨u, hu, hr.mono hg, hd⟩

theorem ReachPlus.mono {O : FilterOps F} {block : Array Tx} {inputs : Inputs} {g g' : F} (hg : Le O g g')
    {a b : Nat} (h : ReachPlus O block inputs g a b) : ReachPlus O block inputs g' a b := by
  induction h with
  | single e => exact .single (e.mono hg)
  | cons e _ ih => exact .cons (e.mono hg) ih

/-- the two scans agree on filter and matched list -/
structure Sim (r s : Scan F) : Prop where
  filter : r.filter = s.filter
  matched : r.matched = s.matched

section evalcur
variable {O : FilterOps F} {same : F → F → Bool} {block : Array Tx}

theorem cur_evalStep_same {s : Scan F} {u : Tx} {k : Nat}
    (h : same s.filter (matchTxAndUpdate O s.filter u).1 = true) (k' : Nat) :
    Cur (evalStep O same u k s) k' ↔ k' = k ∨ Cur s k' := by
  unfold Cur
  rw [lookup_evalStep, evalStep_version, if_pos h]
  by_cases hk : k' = k
  · simp [hk]
  · simp [hk]

theorem cur_evalStep_changed {s : Scan F} (hv : VInv O block s) {u : Tx} {k : Nat}
    (h : ¬ same s.filter (matchTxAndUpdate O s.filter u).1 = true) (k' : Nat) :
    ¬ Cur (evalStep O same u k s) k' := by
  unfold Cur
  rw [lookup_evalStep, evalStep_version, if_neg h]
  by_cases hk : k' = k
  · rw [if_pos hk]; intro h'; exact absurd (Option.some.inj h') (by omega)
  · rw [if_neg hk]; intro h'; exact absurd (hv.le k' _ h') (by omega)

end evalcur

section refine
variable {O : FilterOps F} {G : F → Prop} (L : LawfulOn O G) {same : F → F → Bool} (hs : SameSound O same)
  (block : Array Tx) (inputs : Inputs)
include L

/-- a set of indices in which every member matches under `g` and has a registered spender in the
    set: the reference check of any member runs out of fuel, whatever the fuel -/
theorem oof_of_closed (g : F) (S : Nat → Prop) (hS : ∀ y, S y → ∃ z, Edge O block inputs g y z ∧ S z)
    (fuel : Nat) : ∀ (y : Nat) (r : Scan F), S y → Le O g r.filter →
      (checkFilterTxRef O block inputs fuel y r).outOfFuel = true := by
  induction fuel with
  | zero => intro y r _ _; rfl
  | succ fuel ih =>
    intro y r hy hg
    obtain ⟨z, ⟨u, hu, hr, hz⟩, hSz⟩ := hS y hy
    rw [checkFilterTxRef_succ, hu]
    dsimp only
    rw [if_pos ((matchTx_iff L _ _).2 (hr.mono hg))]
    have key : ∀ (ds : List Nat), z ∈ ds → ∀ r' : Scan F, Le O g r'.filter →
        (ds.foldl (fun s d => checkFilterTxRef O block inputs fuel d s) r').outOfFuel = true := by
      intro ds
      induction ds with
      | nil => intro h; cases h
      | cons d ds ihl =>
        intro hzd r' hr'
        rw [List.foldl_cons]
        rcases List.mem_cons.1 hzd with rfl | hzd
        · have h1 := ih z r' hSz hr'
          have h2 := (foldl_ext _ (fun s d => checkRef_ext L block inputs fuel d s) ds
            (checkFilterTxRef O block inputs fuel z r')).fuel
          cases h3 : (ds.foldl (fun s d => checkFilterTxRef O block inputs fuel d s)
            (checkFilterTxRef O block inputs fuel z r')).outOfFuel with
          | true => rfl
          | false => rw [h2 h3] at h1; cases h1
        · exact ihl hzd _ (Le.trans hr' (checkRef_ext L block inputs fuel d r').filter)
    exact key _ hz _ (Le.trans hg (Ext.evalStepRef L u y r).filter)

/-- a matching cycle through `x`: the reference check of `x` never terminates -/
theorem cycle_oof (g : F) (x : Nat) (hx : ReachPlus O block inputs g x x) (fuel : Nat) (r : Scan F)
    (hg : Le O g r.filter) : (checkFilterTxRef O block inputs fuel x r).outOfFuel = true := by
  refine oof_of_closed L block inputs g
    (fun y => ReachPlus O block inputs g x y ∧ ReachPlus O block inputs g y x) ?_ fuel x r ⟨hx, hx⟩ hg
  rintro y ⟨h1, h2⟩
  cases h2 with
  | single e => exact ⟨x, e, h1.snoc e, hx⟩
  | cons e h3 => exact ⟨_, e, h1.snoc e, h3⟩

/-- **the skip is a no-op of the reference scan**: re-checking, in the reference scan, a
    transaction that was last checked against the current filter version changes neither the filter
    nor the matched list — and the same holds for everything the re-check recurses into.
    (`P` is the call stack; reaching a transaction on the stack again would make the reference scan
    run out of fuel.) -/
theorem ref_noop (s : Scan F) (hv : VInv O block s) (P : List Nat) (hQ : Closed O block inputs s P)
    (fuel k : Nat) (r : Scan F) (hsim : Sim r s) (hcur : Cur s k)
    (hP : ∀ p ∈ P, ReachPlus O block inputs s.filter p k)
    (hf : (checkFilterTxRef O block inputs fuel k r).outOfFuel = false) :
    Sim (checkFilterTxRef O block inputs fuel k r) s := by
  induction fuel generalizing k r with
  | zero => rw [checkFilterTxRef_zero] at hf; simp at hf
  | succ fuel ih =>
    have hkP : k ∉ P := by
      intro hp
      have := cycle_oof L block inputs s.filter k (hP k hp) (fuel+1) r (by rw [hsim.filter]; exact Le.refl O _)
      rw [this] at hf; cases hf
    rw [checkFilterTxRef_succ] at hf ⊢
    cases hb : block[k]? with
    | none => exact hsim
    | some u =>
      rw [hb] at hf
      dsimp only at hf ⊢
      obtain ⟨h1, h2⟩ := hv.cur k u hb hcur
      have hsim1 : Sim (evalStepRef O u k r) s := by
        constructor
        · show (matchTxAndUpdate O r.filter u).1 = s.filter
          rw [hsim.filter]; exact h1
        · show (if (matchTxAndUpdate O r.filter u).2 then markMatched r.matched k else r.matched) = s.matched
          rw [hsim.filter, hsim.matched]
          split
          · rename_i hm; exact markMatched_of_mem (h2 hm)
          · rfl
      by_cases hm : (matchTxAndUpdate O r.filter u).2 = true
      · rw [if_pos hm] at hf ⊢
        have hm' : (matchTxAndUpdate O s.filter u).2 = true := by rw [← hsim.filter]; exact hm
        have hdeps := hQ k hcur hkP u hb hm'
        have key : ∀ (ds : List Nat), (∀ d ∈ ds, d ∈ dependants block inputs u.id) → ∀ r' : Scan F,
            Sim r' s → (ds.foldl (fun s d => checkFilterTxRef O block inputs fuel d s) r').outOfFuel = false →
            Sim (ds.foldl (fun s d => checkFilterTxRef O block inputs fuel d s) r') s := by
          intro ds
          induction ds with
          | nil => intro _ r' hr' _; exact hr'
          | cons d ds ihl =>
            intro hds r' hr' hf'
            rw [List.foldl_cons] at hf' ⊢
            have hd := hds d (by simp)
            have hedge : Edge O block inputs s.filter k d := ⟨u, hb, (matchTx_iff L _ _).1 hm', hd⟩
            have hfd := (foldl_ext _ (fun s d => checkRef_ext L block inputs fuel d s) ds
              (checkFilterTxRef O block inputs fuel d r')).fuel hf'
            exact ihl (fun d' hd' => hds d' (List.mem_cons_of_mem _ hd')) _
              (ih d r' hr' (hdeps d hd) (fun p hp => (hP p hp).snoc hedge) hfd) hf'
        exact key _ (fun _ h => h) _ hsim1 hf
      · rw [if_neg hm]; exact hsim1

/-- postcondition of the simulation of one check with call stack `P` -/
structure SimPost (O : FilterOps F) (block : Array Tx) (inputs : Inputs)
    (P : List Nat) (k : Nat) (s r' s' : Scan F) : Prop where
  sim : Sim r' s'
  fuel : s'.outOfFuel = false
  closed : Closed O block inputs s' P
  keep : s'.version = s.version → (∀ k', Cur s k' → Cur s' k') ∧ Cur s' k
  fresh : ∀ k', Cur s' k' → (Cur s k' ∧ s'.version = s.version) ∨ k' ∉ P

/-- postcondition of the simulation of the loop over the dependants of `k` -/
structure FoldPost (O : FilterOps F) (block : Array Tx) (inputs : Inputs)
    (P : List Nat) (k : Nat) (ds : List Nat) (sc rf sf : Scan F) : Prop where
  sim : Sim rf sf
  fuel : sf.outOfFuel = false
  closed : Closed O block inputs sf (k :: P)
  keep : sf.version = sc.version → ∀ k', Cur sc k' → Cur sf k'
  fresh : ∀ k', Cur sf k' → (Cur sc k' ∧ sf.version = sc.version) ∨ k' ∉ k :: P
  all : Cur sf k → ∀ d ∈ ds, Cur sf d

include hs in
theorem fold_sim (fuel : Nat)
    (ih : ∀ (k : Nat) (u : Tx) (r s : Scan F) (P : List Nat), block[k]? = some u → Sim r s →
      s.outOfFuel = false → VInv O block s → ClosedUpTo O block inputs s P k →
      (Cur s k → Closed O block inputs s P) → (∀ p ∈ P, ReachPlus O block inputs s.filter p k) →
      (checkFilterTxRef O block inputs fuel k r).outOfFuel = false →
      SimPost O block inputs P k s (checkFilterTxRef O block inputs fuel k r)
        (checkFilterTx O same block inputs fuel k s))
    (P : List Nat) (k : Nat) (u : Tx) (hb : block[k]? = some u) (g : F) (hrel : Relevant O g u)
    (hP : ∀ p ∈ P, ReachPlus O block inputs g p k)
    (ds : List Nat) (hds : ∀ d ∈ ds, d ∈ dependants block inputs u.id) (rc sc : Scan F)
    (hg : Le O g sc.filter)
    (hsim : Sim rc sc) (hfs : sc.outOfFuel = false) (hv : VInv O block sc)
    (hQ : Closed O block inputs sc (k :: P))
    (hf : (ds.foldl (fun s d => checkFilterTxRef O block inputs fuel d s) rc).outOfFuel = false) :
    FoldPost O block inputs P k ds sc
      (ds.foldl (fun s d => checkFilterTxRef O block inputs fuel d s) rc)
      (ds.foldl (fun s d => checkFilterTx O same block inputs fuel d s) sc) := by
  induction ds generalizing rc sc with
  | nil =>
    exact ⟨hsim, hfs, hQ, fun _ k' h => h, fun k' h => Or.inl ⟨h, rfl⟩, fun _ d hd => by cases hd⟩
  | cons d ds ihl =>
    rw [List.foldl_cons] at hf ⊢
    rw [List.foldl_cons]
    have hd := hds d (by simp)
    have hsz : d < block.size := ((mem_dependants block inputs _ _).1 hd).2
    have hud : block[d]? = some block[d] := Array.getElem?_eq_getElem hsz
    have hedge : Edge O block inputs sc.filter k d := ⟨u, hb, hrel.mono hg, hd⟩
    have hfd := (foldl_ext _ (fun s d => checkRef_ext L block inputs fuel d s) ds
      (checkFilterTxRef O block inputs fuel d rc)).fuel hf
    have hp := ih d _ rc sc (k :: P) hud hsim hfs hv
      (hQ.upTo (fun p hp => hp) d) (fun _ => hQ)
      (by
        intro p hp
        rcases List.mem_cons.1 hp with rfl | hp
        · exact .single hedge
        · exact ((hP p hp).mono hg).snoc hedge) hfd
    have hext1 := check_ext L same block inputs fuel d sc
    have hv1 := check_vinv hs block inputs fuel d sc hv
    have hq := ihl (fun d' hd' => hds d' (List.mem_cons_of_mem _ hd')) _ _ (Le.trans hg hext1.filter)
      hp.sim hp.fuel hv1 hp.closed hf
    have hext2 := foldl_ext _ (fun s d => check_ext L same block inputs fuel d s) ds
      (checkFilterTx O same block inputs fuel d sc)
    refine ⟨hq.sim, hq.fuel, hq.closed, ?_, ?_, ?_⟩
    · intro hver k' hk'
      have h1 : (checkFilterTx O same block inputs fuel d sc).version = sc.version := by
        have := hext1.version; have := hext2.version; omega
      exact hq.keep (by omega) k' ((hp.keep h1).1 k' hk')
    · intro k' hk'
      rcases hq.fresh k' hk' with ⟨h1, h2⟩ | h
      · rcases hp.fresh k' h1 with ⟨h3, h4⟩ | h3
        · exact Or.inl ⟨h3, by omega⟩
        · exact Or.inr h3
      · exact Or.inr h
    · intro hk d' hd'
      rcases hq.fresh k hk with ⟨h1, h2⟩ | h
      · rcases hp.fresh k h1 with ⟨h3, h4⟩ | h3
        · rcases List.mem_cons.1 hd' with rfl | hd'
          · exact hq.keep h2 _ (hp.keep h4).2
          · exact hq.all hk d' hd'
        · exact absurd (List.mem_cons_self) h3
      · exact absurd (List.mem_cons_self) h

include hs in
/-- simulation of one check: as long as the reference check does not run out of fuel, the repaired
    check ends in a state with the same filter and matched list -/
theorem sim_check (fuel : Nat) : ∀ (k : Nat) (u : Tx) (r s : Scan F) (P : List Nat),
    block[k]? = some u → Sim r s →
    s.outOfFuel = false → VInv O block s → ClosedUpTo O block inputs s P k →
    (Cur s k → Closed O block inputs s P) → (∀ p ∈ P, ReachPlus O block inputs s.filter p k) →
    (checkFilterTxRef O block inputs fuel k r).outOfFuel = false →
    SimPost O block inputs P k s (checkFilterTxRef O block inputs fuel k r)
      (checkFilterTx O same block inputs fuel k s) := by
  induction fuel with
  | zero => intro k u r s P _ _ _ _ _ _ _ hf; rw [checkFilterTxRef_zero] at hf; simp at hf
  | succ fuel ih =>
    intro k u r s P hb hsim hfs hv hQ hQk hP hf
    have hkP : k ∉ P := by
      intro hp
      have := cycle_oof L block inputs s.filter k (hP k hp) (fuel+1) r (by rw [hsim.filter]; exact Le.refl O _)
      rw [this] at hf; cases hf
    by_cases hcur : Cur s k
    · -- skipped by the repaired scan, a no-op of the reference scan
      have hnoop := ref_noop L block inputs s hv P (hQk hcur) (fuel+1) k r hsim hcur hP hf
      rw [checkFilterTx_succ, hb]
      dsimp only
      rw [if_pos (show s.checkedAt.lookup k = some s.version from hcur)]
      exact ⟨hnoop, hfs, hQk hcur, fun _ => ⟨fun _ h => h, hcur⟩, fun k' h => Or.inl ⟨h, rfl⟩⟩
    · rw [checkFilterTxRef_succ, hb] at hf ⊢
      rw [checkFilterTx_succ, hb]
      dsimp only at hf ⊢
      rw [if_neg (show ¬ s.checkedAt.lookup k = some s.version from hcur)]
      have hsim1 : Sim (evalStepRef O u k r) (evalStep O same u k s) := by
        constructor
        · show (matchTxAndUpdate O r.filter u).1 = (matchTxAndUpdate O s.filter u).1
          rw [hsim.filter]
        · show (if (matchTxAndUpdate O r.filter u).2 then markMatched r.matched k else r.matched) =
            (if (matchTxAndUpdate O s.filter u).2 then markMatched s.matched k else s.matched)
          rw [hsim.filter, hsim.matched]
      have hfs1 : (evalStep O same u k s).outOfFuel = false := hfs
      have hv1 := hv.evalStep hs k u hb (same := same)
      have hext0 := Ext.evalStep L same u k s
      -- facts about the evaluation step
      have hstep : Closed O block inputs (evalStep O same u k s) (k :: P) ∧
          ((evalStep O same u k s).version = s.version →
            (∀ k', Cur s k' → Cur (evalStep O same u k s) k') ∧ Cur (evalStep O same u k s) k) ∧
          (∀ k', Cur (evalStep O same u k s) k' →
            k' = k ∨ (Cur s k' ∧ (evalStep O same u k s).version = s.version)) ∧
          ((evalStep O same u k s).version = s.version → (evalStep O same u k s).filter = s.filter) := by
        by_cases hsame : same s.filter (matchTxAndUpdate O s.filter u).1 = true
        · have heq : (matchTxAndUpdate O s.filter u).1 = s.filter := by
            rw [matchTx_filter] at hsame ⊢; exact hs _ _ hsame
          have hver : (evalStep O same u k s).version = s.version := by rw [evalStep_version, if_pos hsame]
          refine ⟨?_, fun _ => ⟨fun k' h => (cur_evalStep_same hsame k').2 (Or.inr h),
            (cur_evalStep_same hsame k).2 (Or.inl rfl)⟩, ?_, fun _ => heq⟩
          · intro k' hk' hkP' t ht hm d hd
            rw [evalStep_filter, heq] at hm
            rcases (cur_evalStep_same hsame k').1 hk' with rfl | hk''
            · exact absurd (List.mem_cons_self) hkP'
            · rcases hQ k' hk'' (fun hp => hkP' (List.mem_cons_of_mem _ hp)) t ht hm d hd with h | h
              · exact (cur_evalStep_same hsame d).2 (Or.inr h)
              · exact (cur_evalStep_same hsame d).2 (Or.inl h)
          · intro k' hk'
            rcases (cur_evalStep_same hsame k').1 hk' with h | h
            · exact Or.inl h
            · exact Or.inr ⟨h, hver⟩
        · have hver : (evalStep O same u k s).version = s.version + 1 := by rw [evalStep_version, if_neg hsame]
          refine ⟨?_, fun h => by omega, ?_, fun h => by omega⟩
          · intro k' hk'; exact absurd hk' (cur_evalStep_changed hv hsame k')
          · intro k' hk'; exact absurd hk' (cur_evalStep_changed hv hsame k')
      obtain ⟨hQ1, hkeep1, hfresh1, hfilt1⟩ := hstep
      by_cases hm : (matchTxAndUpdate O r.filter u).2 = true
      · have hm' : (matchTxAndUpdate O s.filter u).2 = true := by rw [← hsim.filter]; exact hm
        rw [if_pos hm] at hf ⊢
        rw [if_pos hm']
        have hq := fold_sim L hs block inputs fuel ih P k u hb s.filter ((matchTx_iff L _ _).1 hm') hP _
          (fun _ h => h) _ _ hext0.filter hsim1 hfs1 hv1 hQ1 hf
        have hext1 := foldl_ext _ (fun s d => check_ext L same block inputs fuel d s)
          (dependants block inputs u.id) (evalStep O same u k s)
        refine ⟨hq.sim, hq.fuel, ?_, ?_, ?_⟩
        · -- closure with `k` off the stack
          intro k' hk' hkP' t ht hmt d hd
          by_cases hkk : k' = k
          · subst hkk
            rw [hb] at ht; cases ht
            exact hq.all hk' d hd
          · exact hq.closed k' hk' (by simp [hkk, hkP']) t ht hmt d hd
        · intro hver
          have h1 : (evalStep O same u k s).version = s.version := by
            have := hext0.version; have := hext1.version; omega
          have h2 := hkeep1 h1
          exact ⟨fun k' hk' => hq.keep (by omega) k' (h2.1 k' hk'), hq.keep (by omega) k h2.2⟩
        · intro k' hk'
          rcases hq.fresh k' hk' with ⟨h1, h2⟩ | h1
          · rcases hfresh1 k' h1 with h3 | ⟨h3, h4⟩
            · exact Or.inr (by rw [h3]; exact hkP)
            · exact Or.inl ⟨h3, by omega⟩
          · exact Or.inr (fun hp => h1 (List.mem_cons_of_mem _ hp))
      · have hm' : ¬ (matchTxAndUpdate O s.filter u).2 = true := by rw [← hsim.filter]; exact hm
        rw [if_neg hm]
        rw [if_neg hm']
        refine ⟨hsim1, hfs1, ?_, hkeep1, ?_⟩
        · intro k' hk' hkP' t ht hmt d hd
          rcases hfresh1 k' hk' with rfl | ⟨h1, h2⟩
          · rw [hb] at ht; cases ht
            have hver : (evalStep O same u k' s).version = s.version := by
              by_cases hsame : same s.filter (matchTxAndUpdate O s.filter u).1 = true
              · rw [evalStep_version, if_pos hsame]
              · exact absurd hk' (cur_evalStep_changed hv hsame k')
            rw [hfilt1 hver] at hmt
            exact absurd hmt hm'
          · by_cases hkk : k' = k
            · subst hkk; exact absurd h1 hcur
            · exact hQ1 k' hk' (by simp [hkk, hkP']) t ht hmt d hd
        · intro k' hk'
          rcases hfresh1 k' hk' with h | h
          · exact Or.inr (by rw [h]; exact hkP)
          · exact Or.inl h

end refine

/-- induction principle for two outer loops running in lockstep over the same block -/
theorem scanLoop_inv2 (block : Array Tx) (c1 c2 : Inputs → Nat → Scan F → Scan F)
    (P : Nat → Inputs → Scan F → Scan F → Prop)
    (hstep : ∀ i inputs r s tx, block[i]? = some tx → P i inputs r s →
      P (i+1) (inputs ++ tx.ins.map (fun inp => (inp.prevHash, i)))
        (c1 (inputs ++ tx.ins.map (fun inp => (inp.prevHash, i))) i r)
        (c2 (inputs ++ tx.ins.map (fun inp => (inp.prevHash, i))) i s)) :
    ∀ n i inputs r s, i + n = block.size → P i inputs r s →
      ∃ inputs', P block.size inputs' (scanLoop c1 block i n inputs r) (scanLoop c2 block i n inputs s) := by
  intro n
  induction n with
  | zero =>
    intro i inputs r s hn hP
    exact ⟨inputs, by rw [scanLoop, scanLoop]; simpa [← hn] using hP⟩
  | succ n ih =>
    intro i inputs r s hn hP
    rw [scanLoop, scanLoop]
    have hi : i < block.size := by omega
    have hb : block[i]? = some block[i] := Array.getElem?_eq_getElem hi
    rw [hb]
    exact ih (i+1) _ _ _ (by omega) (hstep i inputs r s _ hb hP)

/-- **refinement**: whenever the reference scan does not run out of fuel, the repaired scan (same
    fuel) does not either and returns the same filter and the same matched list -/
theorem scan_refines {O : FilterOps F} (L : LawfulOn O G) {same : F → F → Bool} (hs : SameSound O same)
    (block : Array Tx) (fuel : Nat) (f : F)
    (hf : (GetMatchedIndicesRef O fuel block f).outOfFuel = false) :
    Sim (GetMatchedIndicesRef O fuel block f) (GetMatchedIndices O same fuel block f) ∧
      (GetMatchedIndices O same fuel block f).outOfFuel = false := by
  obtain ⟨_, h⟩ := scanLoop_inv2 block
    (fun inputs i s => checkFilterTxRef O block inputs fuel i s)
    (fun inputs i s => checkFilterTx O same block inputs fuel i s)
    (fun n inputs r s => InputsUpTo block inputs n ∧ VInv O block s ∧ KInv n s ∧
      (r.outOfFuel = false → Sim r s ∧ s.outOfFuel = false ∧ Closed O block inputs s []))
    (by
      rintro j inputs r s t hj ⟨hI, hV, hK, hM⟩
      have hI' := hI.step hj
      refine ⟨hI', check_vinv hs block _ fuel j s hV, ?_, fun hf' => ?_⟩
      · refine check_kinv O same block _ (j+1) (fun h d hd => ((hI' h d).1 hd).1) _ j (by omega) s ?_
        intro k w hk; have := hK k w hk; omega
      · have hext := checkRef_ext L block (inputs ++ t.ins.map (fun inp => (inp.prevHash, j))) fuel j r
        obtain ⟨hsim, hfs, hQ⟩ := hM (hext.fuel hf')
        have hnc : ¬ Cur s j := fun hc => absurd (hK j _ hc) (Nat.lt_irrefl j)
        have hQ' : ClosedUpTo O block (inputs ++ t.ins.map (fun inp => (inp.prevHash, j))) s [] j := by
          intro k' hk' hkP u hu hm d hd
          obtain ⟨hmem, hsz⟩ := (mem_dependants block _ _ _).1 hd
          rcases List.mem_append.1 hmem with h | h
          · exact Or.inl (hQ k' hk' (by simp) u hu hm d ((mem_dependants block _ _ _).2 ⟨h, hsz⟩))
          · obtain ⟨inp, _, heq⟩ := List.mem_map.1 h
            exact Or.inr (by have := congrArg Prod.snd heq; simpa using this.symm)
        have hp := sim_check L hs block _ fuel j t r s [] hj hsim hfs hV hQ'
          (fun hc => absurd hc hnc) (by intro p hp; cases hp) hf'
        exact ⟨hp.sim, hp.fuel, hp.closed⟩)
    block.size 0 [] { filter := f, matched := [] } { filter := f, matched := [] } (by omega)
    ⟨InputsUpTo.nil block, VInv.init O block f, by intro k w hk; simp at hk,
      fun _ => ⟨⟨rfl, rfl⟩, rfl, by intro k hk; simp [Cur] at hk⟩⟩
  obtain ⟨hsim, hfs, _⟩ := h.2.2.2 hf
  exact ⟨hsim, hfs⟩

/-! ## Step bound: each transaction is evaluated at most once per filter version -/

/-- number of block indices whose `checkedAt` entry is the current version -/
def curCount (block : Array Tx) (s : Scan F) : Nat :=
  (List.range block.size).countP (fun k => decide (s.checkedAt.lookup k = some s.version))

/-- all `checkedAt` entries are at most the current version -/
def VLe (s : Scan F) : Prop := ∀ k w, s.checkedAt.lookup k = some w → w ≤ s.version

theorem countP_insert {l : List Nat} (hn : l.Nodup) {i : Nat} (hi : i ∈ l) {p p' : Nat → Bool}
    (hpi : p i = false) (hp' : ∀ k, p' k = (decide (k = i) || p k)) :
    l.countP p' = l.countP p + 1 := by
  induction l with
  | nil => cases hi
  | cons a l ih =>
    obtain ⟨ha, hl⟩ := List.nodup_cons.1 hn
    by_cases hai : a = i
    · subst hai
      have h1 : p' a = true := by rw [hp']; simp
      have h2 : l.countP p' = l.countP p := by
        apply List.countP_congr
        intro k hk
        have : k ≠ a := fun h => ha (h ▸ hk)
        rw [hp']; simp [this]
      rw [List.countP_cons_of_pos h1, List.countP_cons_of_neg (by simp [hpi]), h2]
    · have hi' : i ∈ l := by
        rcases List.mem_cons.1 hi with h | h
        · exact absurd h.symm hai
        · exact h
      have h1 : p' a = p a := by rw [hp']; simp [hai]
      have := ih hl hi'
      by_cases hpa : p a = true
      · rw [List.countP_cons_of_pos (h1 ▸ hpa), List.countP_cons_of_pos hpa, this]
      · rw [List.countP_cons_of_neg (h1 ▸ hpa), List.countP_cons_of_neg hpa, this]

/-- the invariant behind the step bound -/
def StepsInv (block : Array Tx) (s : Scan F) : Prop :=
  VLe s ∧ s.steps ≤ block.size * s.version + curCount block s

theorem stepsInv_evalStep {O : FilterOps F} {same : F → F → Bool} {block : Array Tx} {s : Scan F}
    (h : StepsInv block s) (i : Nat) (tx : Tx) (hb : block[i]? = some tx)
    (hne : s.checkedAt.lookup i ≠ some s.version) : StepsInv block (evalStep O same tx i s) := by
  obtain ⟨hle, hst⟩ := h
  have hi : i < block.size := by
    rcases Nat.lt_or_ge i block.size with h | h
    · exact h
    · rw [Array.getElem?_eq_none h] at hb; cases hb
  by_cases hsame : same s.filter (matchTxAndUpdate O s.filter tx).1 = true
  · constructor
    · intro k w hk
      rw [lookup_evalStep] at hk
      rw [evalStep_version, if_pos hsame]
      by_cases hki : k = i
      · rw [if_pos hki] at hk; cases hk; exact Nat.le_refl _
      · rw [if_neg hki] at hk; exact hle k w hk
    · have hc : curCount block (evalStep O same tx i s) = curCount block s + 1 := by
        unfold curCount
        apply countP_insert List.nodup_range (List.mem_range.2 hi)
        · simpa using hne
        · intro k
          have := cur_evalStep_same (O := O) (same := same) (s := s) (u := tx) (k := i) hsame k
          unfold Cur at this
          rw [Bool.eq_iff_iff]
          simp only [decide_eq_true_eq, Bool.or_eq_true]
          exact this
      rw [hc, evalStep_steps, evalStep_version, if_pos hsame]
      omega
  · constructor
    · intro k w hk
      rw [lookup_evalStep] at hk
      rw [evalStep_version, if_neg hsame]
      by_cases hki : k = i
      · rw [if_pos hki] at hk; cases hk; exact Nat.le_succ _
      · rw [if_neg hki] at hk; exact Nat.le_succ_of_le (hle k w hk)
    · have hlt : curCount block s < block.size := by
        unfold curCount
        have h1 := List.countP_le_length (p := fun k => decide (s.checkedAt.lookup k = some s.version))
          (l := List.range block.size)
        rw [List.length_range] at h1
        rcases Nat.lt_or_ge ((List.range block.size).countP
          (fun k => decide (s.checkedAt.lookup k = some s.version))) block.size with h | h
        · exact h
        · have heq : (List.range block.size).countP
              (fun k => decide (s.checkedAt.lookup k = some s.version)) = (List.range block.size).length := by
            rw [List.length_range]; omega
          have := (List.countP_eq_length.1 heq) i (List.mem_range.2 hi)
          exact absurd (by simpa using this) hne
      rw [evalStep_steps, evalStep_version, if_neg hsame, Nat.mul_succ]
      omega

theorem check_steps {O : FilterOps F} (same : F → F → Bool) (block : Array Tx)
    (inputs : Inputs) (fuel i : Nat) (s : Scan F) (h : StepsInv block s) :
    StepsInv block (checkFilterTx O same block inputs fuel i s) :=
  checkFilterTx_inv O same block inputs (StepsInv block) (fun _ => True) (fun _ _ _ => trivial)
    (fun _ h => h)
    (fun _ j tx _ hb hne h => stepsInv_evalStep h j tx hb hne) fuel i s trivial h

/-- **step bound** (no hypothesis on the filter or on `same`): the repaired scan evaluates each
    transaction at most once per filter version -/
theorem scan_steps {O : FilterOps F} (same : F → F → Bool) (fuel : Nat) (block : Array Tx) (f : F) :
    (GetMatchedIndices O same fuel block f).steps ≤
      block.size * ((GetMatchedIndices O same fuel block f).version + 1) := by
  have h : StepsInv block (GetMatchedIndices O same fuel block f) :=
    scanLoop_simple block _ (StepsInv block)
      (fun inputs i s h => check_steps same block inputs fuel i s h) _
      ⟨by intro k w hk; simp at hk, Nat.zero_le _⟩
  have h1 : curCount block (GetMatchedIndices O same fuel block f) ≤ block.size := by
    unfold curCount
    have := List.countP_le_length (p := fun k => decide ((GetMatchedIndices O same fuel block f).checkedAt.lookup k
      = some (GetMatchedIndices O same fuel block f).version)) (l := List.range block.size)
    rwa [List.length_range] at this
  have := h.2
  rw [Nat.mul_succ]
  omega

/-! ## Version bound: the filter changes at most once per output of the block -/

/-- all serialised outpoints of outputs of the block -/
def allOutpoints (block : Array Tx) : List Bytes :=
  block.toList.flatMap (fun t => (List.range t.outs.length).map (outPointBytes t.id))

/-- total number of outputs in the block -/
def totalOuts (block : Array Tx) : Nat := (block.toList.map (fun t => t.outs.length)).sum

theorem length_allOutpoints (block : Array Tx) : (allOutpoints block).length = totalOuts block := by
  unfold allOutpoints totalOuts
  induction block.toList with
  | nil => rfl
  | cons t ts ih => simp [List.flatMap_cons, ih]

/-- number of block outpoints the filter does not match yet -/
def unseen (O : FilterOps F) (block : Array Tx) (f : F) : Nat :=
  (allOutpoints block).countP (fun x => !O.test f x)

theorem countP_lt_of {α : Type} {l : List α} {q q' : α → Bool} (hq : ∀ x, q' x = true → q x = true)
    {x0 : α} (hx : x0 ∈ l) (h1 : q x0 = true) (h2 : q' x0 = false) : l.countP q' < l.countP q := by
  induction l with
  | nil => cases hx
  | cons a l ih =>
    have hmono : l.countP q' ≤ l.countP q := List.countP_mono_left (fun x _ => hq x)
    rcases List.mem_cons.1 hx with rfl | hx
    · rw [List.countP_cons_of_pos h1, List.countP_cons_of_neg (by simp [h2])]; omega
    · have := ih hx
      by_cases ha' : q' a = true
      · rw [List.countP_cons_of_pos ha', List.countP_cons_of_pos (hq a ha')]; omega
      · by_cases ha : q a = true
        · rw [List.countP_cons_of_neg ha', List.countP_cons_of_pos ha]; omega
        · rw [List.countP_cons_of_neg ha', List.countP_cons_of_neg ha]; exact this

theorem addAll_of_all_present {O : FilterOps F}
    (hidem : ∀ f x, O.test f x = true → O.add f x = f) (f : F) (xs : List Bytes)
    (h : ∀ x ∈ xs, O.test f x = true) : addAll O f xs = f := by
  induction xs with
  | nil => rfl
  | cons x xs ih =>
    rw [addAll_cons, hidem f x (h x (by simp))]
    exact ih (fun y hy => h y (List.mem_cons_of_mem _ hy))

/-- the invariant behind the version bound -/
def VersionInv (O : FilterOps F) (G : F → Prop) (block : Array Tx) (s : Scan F) : Prop :=
  G s.filter ∧ s.version + unseen O block s.filter ≤ totalOuts block

theorem versionInv_evalStep {O : FilterOps F} (L : LawfulOn O G)
    (hidem : ∀ f x, O.test f x = true → O.add f x = f) {same : F → F → Bool}
    (hrefl : ∀ f, same f f = true) {block : Array Tx} {s : Scan F}
    (h : VersionInv O G block s) (i : Nat) (tx : Tx) (hb : block[i]? = some tx) :
    VersionInv O G block (evalStep O same tx i s) := by
  obtain ⟨hG, h⟩ := h
  refine ⟨matchTx_good L _ _ hG, ?_⟩
  have hmono : unseen O block (matchTxAndUpdate O s.filter tx).1 ≤ unseen O block s.filter := by
    unfold unseen
    apply List.countP_mono_left
    intro x _ hx
    cases h1 : O.test s.filter x with
    | false => rfl
    | true => have := matchTx_le L s.filter tx x h1; simp [this] at hx
  rw [evalStep_filter, evalStep_version]
  by_cases hsame : same s.filter (matchTxAndUpdate O s.filter tx).1 = true
  · rw [if_pos hsame]; omega
  · rw [if_neg hsame]
    have hex : ∃ idx ∈ updIdxs O s.filter tx, O.test s.filter (outPointBytes tx.id idx) = false := by
      apply Classical.byContradiction
      intro hno
      have hall : ∀ x ∈ (updIdxs O s.filter tx).map (outPointBytes tx.id), O.test s.filter x = true := by
        intro x hx
        obtain ⟨idx, hidx, rfl⟩ := List.mem_map.1 hx
        cases h1 : O.test s.filter (outPointBytes tx.id idx) with
        | true => rfl
        | false => exact absurd ⟨idx, hidx, h1⟩ hno
      have := addAll_of_all_present hidem s.filter _ hall
      rw [matchTx_filter, this, hrefl] at hsame
      exact hsame rfl
    obtain ⟨idx, hidx, hun⟩ := hex
    have hlt : unseen O block (matchTxAndUpdate O s.filter tx).1 < unseen O block s.filter := by
      unfold unseen
      refine countP_lt_of (x0 := outPointBytes tx.id idx) ?_ ?_ (by simp [hun]) ?_
      · intro x hx
        cases h1 : O.test s.filter x with
        | false => rfl
        | true => have := matchTx_le L s.filter tx x h1; simp [this] at hx
      · unfold allOutpoints
        refine List.mem_flatMap.2 ⟨tx, ?_, List.mem_map.2 ⟨idx, List.mem_range.2 ?_, rfl⟩⟩
        · exact Array.mem_toList_iff.2 (Array.mem_of_getElem? hb)
        · obtain ⟨o, ho, _⟩ := (mem_updIdxs L _ _ _).1 hidx
          exact (List.getElem?_eq_some_iff.1 ho).1
      · have : O.test (matchTxAndUpdate O s.filter tx).1 (outPointBytes tx.id idx) = true := by
          rw [matchTx_filter]
          exact test_addAll_of_mem L _ hG _ _ (List.mem_map_of_mem hidx)
        simp [this]
    omega

/-- **version bound**: when insertion of an element the filter already matches changes nothing and
    `same` recognises an unchanged filter, the filter version is bounded by the number of outputs
    in the block -/
theorem scan_version {O : FilterOps F} (L : LawfulOn O G)
    (hidem : ∀ f x, O.test f x = true → O.add f x = f) (same : F → F → Bool)
    (hrefl : ∀ f, same f f = true) (fuel : Nat) (block : Array Tx) (f : F) (hG : G f) :
    (GetMatchedIndices O same fuel block f).version ≤ totalOuts block := by
  have h : VersionInv O G block (GetMatchedIndices O same fuel block f) :=
    scanLoop_simple block _ (VersionInv O G block)
      (fun inputs i s h => checkFilterTx_inv O same block inputs (VersionInv O G block) (fun _ => True)
        (fun _ _ _ => trivial) (fun _ h => h)
        (fun _ j tx _ hb _ h => versionInv_evalStep L hidem hrefl h j tx hb) fuel i s trivial h) _
      (by
        refine ⟨hG, ?_⟩
        show 0 + unseen O block f ≤ totalOuts block
        unfold unseen
        have := List.countP_le_length (p := fun x => !O.test f x) (l := allOutpoints block)
        rw [length_allOutpoints] at this
        omega)
  have := h.2
  omega

theorem SameSound.of_eq {O : FilterOps F} {same : F → F → Bool}
    (h : ∀ f f', same f f' = true → f' = f) : SameSound O same := fun f _ hx => h f _ hx

/-! ## A toy filter and toy blocks for the non-vacuity examples -/
namespace Toy

/-- exact set membership: `test` = list membership, `add` = cons, update flag `BloomUpdateAll` -/
def toyOps : FilterOps (List Bytes) where
  test f x := f.contains x
  add f x := x :: f
  flags _ := 1

/-- the same with an idempotent `add` (insert if absent) -/
def toySetOps : FilterOps (List Bytes) where
  test f x := f.contains x
  add f x := if f.contains x then f else x :: f
  flags _ := 1

/-- as `toyOps` with update flag `BloomUpdateP2PubkeyOnly` -/
def toyP2Ops : FilterOps (List Bytes) where
  test f x := f.contains x
  add f x := x :: f
  flags _ := 2

def toySame (a b : List Bytes) : Bool := a == b

theorem toy_lawful : LawfulFilter toyOps where
  add_test f x := by simp [toyOps]
  add_mono f x y h := by
    simp only [toyOps] at h ⊢
    have : y ∈ f := by simpa using h
    simp [this]
  add_flags _ _ := rfl

theorem toyP2_lawful : LawfulFilter toyP2Ops where
  add_test f x := by simp [toyP2Ops]
  add_mono f x y h := by
    simp only [toyP2Ops] at h ⊢
    have : y ∈ f := by simpa using h
    simp [this]
  add_flags _ _ := rfl

theorem toySet_lawful : LawfulFilter toySetOps where
  add_test f x := by
    simp only [toySetOps]
    split
    · assumption
    · simp
  add_mono f x y h := by
    simp only [toySetOps] at h ⊢
    split
    · exact h
    · have : y ∈ f := by simpa using h
      simp [this]
  add_flags _ _ := rfl

theorem toySet_idem : ∀ f x, toySetOps.test f x = true → toySetOps.add f x = f := by
  intro f x h
  simp only [toySetOps] at h ⊢
  rw [if_pos h]

theorem toySame_refl : ∀ f, toySame f f = true := by intro f; simp [toySame]

theorem toy_sameSound (O : FilterOps (List Bytes)) : SameSound O toySame :=
  SameSound.of_eq (fun _ _ h => (eq_of_beq h).symm)

/-- parent: one output whose script pushes the watched datum `[7]` -/
def txA : Tx := { id := [0xA], outs := [{ pushes := some [[7]], isPubKeyOrMultisig := false }], ins := [] }
/-- child: spends output 0 of `txA`, nothing else of interest -/
def txB : Tx := { id := [0xB], outs := [], ins := [{ prevHash := [0xA], prevIdx := 0, pushes := some [] }] }
/-- unrelated: unparsable scripts, spends something outside the block -/
def txC : Tx := { id := [0xC], outs := [{ pushes := none, isPubKeyOrMultisig := true }],
                  ins := [{ prevHash := [0xD], prevIdx := 1, pushes := none }] }
/-- the child is placed *before* its parent (as CTOR may do) -/
def blk : Array Tx := #[txB, txA, txC]

/-- a rank for `blk`: parent 1, child 2 -/
def blkRank (h : Bytes) : Nat := if h = [0xB] then 2 else if h = [0xA] ∨ h = [0xC] then 1 else 0

theorem toy_blk_acyclic : Acyclic blk blkRank 3 := by
  constructor <;> intro k u hk <;> (rcases k with _ | _ | _ | k) <;>
    simp [blk] at hk <;> subst hk <;> simp [txA, txB, txC, blkRank]

/-- output 1 pushes the 36(here 5)-byte serialisation of the outpoint of output 0 of the same transaction -/
def txSelf : Tx :=
  { id := [0xE], outs := [{ pushes := some [[7]], isPubKeyOrMultisig := true },
                          { pushes := some [[0xE, 0, 0, 0, 0]], isPubKeyOrMultisig := false }], ins := [] }

/-- an output pushing the serialised outpoint `(txA, 0)` without spending it -/
def txX : Tx := { id := [0xF], outs := [{ pushes := some [[0xA, 0, 0, 0, 0]], isPubKeyOrMultisig := false }], ins := [] }

/-- a chain in which every transaction has two watched outputs and spends both outputs of its parent:
    the reference scan re-checks exponentially often when the chain is listed child-first -/
def chainTx (id : UInt8) (parent : Option UInt8) : Tx :=
  { id := [id],
    outs := [{ pushes := some [[7]], isPubKeyOrMultisig := false }, { pushes := some [[7]], isPubKeyOrMultisig := false }],
    ins := match parent with
      | none => []
      | some p => [{ prevHash := [p], prevIdx := 0, pushes := none }, { prevHash := [p], prevIdx := 1, pushes := none }] }

def chainBlk : Array Tx := #[chainTx 1 none, chainTx 2 (some 1), chainTx 3 (some 2), chainTx 4 (some 3)]
/-- the chain listed child-first -/
def chainBlkRev : Array Tx := #[chainTx 4 (some 3), chainTx 3 (some 2), chainTx 2 (some 1), chainTx 1 none]

/-- a two-transaction spend cycle (impossible with real hashes) -/
def cycBlk : Array Tx :=
  #[{ id := [1], outs := [], ins := [{ prevHash := [2], prevIdx := 0, pushes := none }] },
    { id := [2], outs := [], ins := [{ prevHash := [1], prevIdx := 0, pushes := none }] }]

end Toy

end Bch.Proofs.BloomTx
