import Bch.Model.BlockCache
/-
Helper definitions and lemmas for property C16 (memoising block / transaction wrappers).
The model (`Bch/Model/BlockCache.lean`) is never modified; everything here is stated about it.

Main idea: every memoised object of the block is named by an `Obj`
(`bytes | blockHash | tx k | txHash k`).  `handleOf W s o` reads from the state `s` the handle
(object identity) currently cached for `o`.  The invariant `Inv` says that `handleOf` is injective,
below the fresh-handle counter, etc.  One step only *adds* entries to `handleOf` (`Mono`), and its
result is `render W (handleOf W s') c`: the fresh computation from the wire message decorated with the
handles stored in the state after the step.
-/
namespace Bch.Proofs.BlockCache
open Bch Bch.Model.BlockCache

/-! ## running a script of calls -/

/-- fold `step` over a list of calls, collecting the results -/
def run (W : Wire) (s : St) : List Call → St × List Res
  | [] => (s, [])
  | c :: cs => ((run W (step W s c).1 cs).1, (step W s c).2 :: (run W (step W s c).1 cs).2)

@[simp] theorem run_nil (W : Wire) (s : St) : run W s [] = (s, []) := rfl
@[simp] theorem run_cons (W : Wire) (s : St) (c : Call) (cs : List Call) :
    run W s (c :: cs) = ((run W (step W s c).1 cs).1, (step W s c).2 :: (run W (step W s c).1 cs).2) := rfl

/-- `run` really is the left fold of `step` -/
theorem run_eq_foldl (W : Wire) (s : St) (calls : List Call) :
    run W s calls =
      calls.foldl (fun (acc : St × List Res) c => ((step W acc.1 c).1, acc.2 ++ [(step W acc.1 c).2])) (s, []) := by
  suffices h : ∀ (calls : List Call) (s : St) (pre : List Res),
      calls.foldl (fun (acc : St × List Res) c => ((step W acc.1 c).1, acc.2 ++ [(step W acc.1 c).2])) (s, pre)
        = ((run W s calls).1, pre ++ (run W s calls).2) by
    simpa using (h calls s []).symm
  intro calls
  induction calls with
  | nil => intro s pre; simp
  | cons c cs ih => intro s pre; simp [ih]

/-! ## objects and the handles cached for them -/

/-- the memoised objects of one block -/
inductive Obj
  | bytes | blockHash | tx (k : Nat) | txHash (k : Nat)
  deriving DecidableEq, Repr

/-- the slot list as the accessors see it (`len(b.transactions) == 0` means "not allocated") -/
def slots (W : Wire) (s : St) : List (Option TxW) :=
  match s.txs with
  | some l => if l.isEmpty then List.replicate (numTx W) none else l
  | none => List.replicate (numTx W) none

/-- the wrapper cached in slot `k`, if any -/
def slotAt (W : Wire) (s : St) (k : Nat) : Option TxW := ((slots W s)[k]?).join

/-- the handle (object identity) cached in state `s` for object `o`.  An *empty* cached serialisation
does not count: `Bytes()` ignores it (`len(b.serializedBlock) != 0`). -/
def handleOf (W : Wire) (s : St) : Obj → Option Nat
  | .bytes => match s.serialized with
    | some (b, h) => if b.length ≠ 0 then some h else none
    | none => none
  | .blockHash => s.blockHash
  | .tx k => (slotAt W s k).map (·.handle)
  | .txHash k => (slotAt W s k).bind (·.hashHandle)

/-- well-formedness of a cache state with respect to the wrapped wire message -/
structure Inv (W : Wire) (s : St) : Prop where
  /-- the (normalised) slot list has one slot per transaction -/
  len : (slots W s).length = numTx W
  /-- a filled slot `k` carries index `k` -/
  idx : ∀ k w, slotAt W s k = some w → w.index = (k : Int)
  /-- all cached handles are below the fresh-handle counter -/
  lt : ∀ o h, handleOf W s o = some h → h < s.next
  /-- handles are pairwise distinct across all objects of all kinds -/
  inj : ∀ o₁ o₂ h, handleOf W s o₁ = some h → handleOf W s o₂ = some h → o₁ = o₂
  /-- a non-empty cached serialisation is the wire serialisation -/
  ser : ∀ b h, s.serialized = some (b, h) → b.length ≠ 0 → b = W.ser
  /-- the completion flag implies that the stored slice is complete -/
  gen : s.txnsGenerated = true → s.txs.getD [] = slots W s ∧ ∀ k, k < numTx W → ∃ w, slotAt W s k = some w

/-- caches are only ever filled, never changed -/
def Mono (W : Wire) (s s' : St) : Prop := ∀ o h, handleOf W s o = some h → handleOf W s' o = some h

theorem Mono.refl (W : Wire) (s : St) : Mono W s s := fun _ _ h => h
theorem Mono.trans {W : Wire} {s₁ s₂ s₃ : St} (a : Mono W s₁ s₂) (b : Mono W s₂ s₃) : Mono W s₁ s₃ :=
  fun o h x => b o h (a o h x)

/-! ## the fresh computation decorated with handles -/

def inRange (W : Wire) (i : Int) : Prop := 0 ≤ i ∧ i < (numTx W : Int)
instance (W : Wire) (i : Int) : Decidable (inRange W i) := by unfold inRange; infer_instance

/-- what call `c` must return, given the handle assignment `H` -/
def render (W : Wire) (H : Obj → Option Nat) : Call → Res
  | .tx i => if inRange W i then .tx (W.txHashes.getD i.toNat []) i ((H (.tx i.toNat)).getD 0) else .outOfRange
  | .transactions =>
    .txs ((List.range (numTx W)).map fun k => (W.txHashes.getD k [], (k : Int), (H (.tx k)).getD 0))
  | .txHash i => if inRange W i then .hash (W.txHashes.getD i.toNat []) ((H (.txHash i.toNat)).getD 0) else .outOfRange
  | .hash => .hash W.hash ((H .blockHash).getD 0)
  | .bytes => .bytes W.ser ((H .bytes).getD 0)
  | .txLoc => .locs W.txLocs

/-- the objects whose identity call `c` exposes, in the order their handles appear in the result -/
def objsOfCall (W : Wire) : Call → List Obj
  | .tx i => if inRange W i then [.tx i.toNat] else []
  | .transactions => (List.range (numTx W)).map .tx
  | .txHash i => if inRange W i then [.txHash i.toNat] else []
  | .hash => [.blockHash]
  | .bytes => [.bytes]
  | .txLoc => []

theorem render_congr (W : Wire) (H H' : Obj → Option Nat) (c : Call)
    (h : ∀ o ∈ objsOfCall W c, H o = H' o) : render W H c = render W H' c := by
  cases c with
  | tx i => by_cases hr : inRange W i <;> simp_all [render, objsOfCall]
  | transactions =>
    simp only [render, Res.txs.injEq]
    apply List.map_congr_left
    intro k hk
    rw [h (.tx k) (by simpa [objsOfCall] using hk)]
  | txHash i => by_cases hr : inRange W i <;> simp_all [render, objsOfCall]
  | hash => simp_all [render, objsOfCall]
  | bytes => simp_all [render, objsOfCall]
  | txLoc => rfl


/-! ## basic facts about `slots`, `slotAt`, `handleOf` -/

theorem slots_of_txs {W : Wire} {s : St} {l : List (Option TxW)} (h : s.txs = some l)
    (hl : l.length = numTx W) : slots W s = l := by
  unfold slots
  rw [h]
  by_cases he : l.isEmpty
  · have : l = [] := by simpa using he
    subst this
    simp at hl
    simp [← hl]
  · simp [he]

theorem slotAt_eq_getD {W : Wire} {s : St} {k : Nat} (hk : k < (slots W s).length) :
    (slots W s).getD k none = slotAt W s k := by
  simp [slotAt, List.getD, List.getElem?_eq_getElem hk]

theorem slotAt_of_ge {W : Wire} {s : St} {k : Nat} (hk : (slots W s).length ≤ k) : slotAt W s k = none := by
  simp [slotAt, List.getElem?_eq_none hk]

theorem slotAt_set {W : Wire} {s s' : St} {k : Nat} {w : TxW} (hk : k < (slots W s).length)
    (hs : slots W s' = (slots W s).set k (some w)) (j : Nat) :
    slotAt W s' j = if j = k then some w else slotAt W s j := by
  unfold slotAt
  rw [hs, List.getElem?_set]
  by_cases hj : k = j
  · subst hj; simp [hk]
  · have : ¬ j = k := fun h => hj h.symm
    simp [hj, this]

theorem handleOf_congr {W : Wire} {s s' : St} (h1 : slots W s' = slots W s)
    (h2 : s'.serialized = s.serialized) (h3 : s'.blockHash = s.blockHash) (o : Obj) :
    handleOf W s' o = handleOf W s o := by
  cases o <;> simp [handleOf, slotAt, h1, h2, h3]

/-- transfer of the invariant to a state with the same observable caches -/
theorem Inv.congr {W : Wire} {s s' : St} (hI : Inv W s) (h1 : slots W s' = slots W s)
    (h2 : s'.serialized = s.serialized) (h3 : s'.blockHash = s.blockHash) (h4 : s.next ≤ s'.next)
    (h5 : s'.txnsGenerated = true → s'.txs.getD [] = slots W s' ∧ ∀ k, k < numTx W → ∃ w, slotAt W s' k = some w) :
    Inv W s' where
  len := by rw [h1]; exact hI.len
  idx := by intro k w h; apply hI.idx; simpa [slotAt, h1] using h
  lt := by intro o h hh; rw [handleOf_congr h1 h2 h3] at hh; exact Nat.lt_of_lt_of_le (hI.lt o h hh) h4
  inj := by
    intro o₁ o₂ h a b
    rw [handleOf_congr h1 h2 h3] at a b
    exact hI.inj o₁ o₂ h a b
  ser := by intro b h hh; rw [h2] at hh; exact hI.ser b h hh
  gen := h5

/-- the generic "one empty cache gets a fresh handle" step -/
theorem Inv.fresh {W : Wire} {s s' : St} (hI : Inv W s) (o₀ : Obj)
    (hlen : (slots W s').length = numTx W)
    (hidx : ∀ k w, slotAt W s' k = some w → w.index = (k : Int))
    (hnone : handleOf W s o₀ = none)
    (hupd : ∀ o, handleOf W s' o = if o = o₀ then some s.next else handleOf W s o)
    (hnext : s'.next = s.next + 1)
    (hser : ∀ b h, s'.serialized = some (b, h) → b.length ≠ 0 → b = W.ser)
    (hgen : s'.txnsGenerated = true → s'.txs.getD [] = slots W s' ∧ ∀ k, k < numTx W → ∃ w, slotAt W s' k = some w) :
    Inv W s' ∧ Mono W s s' := by
  refine ⟨⟨hlen, hidx, ?_, ?_, hser, hgen⟩, ?_⟩
  · intro o h hh
    rw [hupd] at hh
    by_cases ho : o = o₀
    · simp [ho] at hh; omega
    · simp [ho] at hh; have := hI.lt o h hh; omega
  · intro o₁ o₂ h a b
    rw [hupd] at a b
    by_cases h1 : o₁ = o₀ <;> by_cases h2 : o₂ = o₀
    · rw [h1, h2]
    · simp [h1, h2] at a b; have := hI.lt o₂ h b; omega
    · simp [h1, h2] at a b; have := hI.lt o₁ h a; omega
    · simp [h1, h2] at a b; exact hI.inj o₁ o₂ h a b
  · intro o h hh
    rw [hupd]
    by_cases ho : o = o₀
    · rw [ho, hnone] at hh; cases hh
    · simpa [ho] using hh


/-! ## `getTx` -/

theorem inRange_iff (W : Wire) (i : Int) : inRange W i ↔ ¬ (i < 0 ∨ i.toNat ≥ numTx W) := by
  unfold inRange; omega

theorem inRange_toNat {W : Wire} {i : Int} (h : inRange W i) : i.toNat < numTx W ∧ ((i.toNat : Nat) : Int) = i := by
  unfold inRange at h; omega

theorem getTx_oor (W : Wire) (s : St) (i : Int) (h : ¬ inRange W i) : getTx W s i = (s, none) := by
  rw [inRange_iff] at h
  simp only [Decidable.not_not] at h
  unfold getTx
  rw [if_pos h]

theorem getTx_hit {W : Wire} {s : St} {i : Int} (hI : Inv W s) (h : inRange W i) {w : TxW}
    (hw : slotAt W s i.toNat = some w) :
    getTx W s i = ({ s with txs := some (slots W s) }, some w) := by
  have hk : i.toNat < (slots W s).length := by rw [hI.len]; exact (inRange_toNat h).1
  rw [inRange_iff] at h
  unfold getTx
  rw [if_neg h]
  show (match (slots W s).getD i.toNat none with
    | some w => (({ s with txs := some (slots W s) } : St), some w)
    | none => _) = _
  rw [slotAt_eq_getD hk, hw]

theorem getTx_miss {W : Wire} {s : St} {i : Int} (hI : Inv W s) (h : inRange W i)
    (hw : slotAt W s i.toNat = none) :
    getTx W s i = ({ s with txs := some ((slots W s).set i.toNat (some { handle := s.next, index := i })),
                            next := s.next + 1 }, some { handle := s.next, index := i }) := by
  have hk : i.toNat < (slots W s).length := by rw [hI.len]; exact (inRange_toNat h).1
  rw [inRange_iff] at h
  unfold getTx
  rw [if_neg h]
  show (match (slots W s).getD i.toNat none with
    | some w => (({ s with txs := some (slots W s) } : St), some w)
    | none => _) = _
  rw [slotAt_eq_getD hk, hw]
  rfl

theorem getTx_miss_inv {W : Wire} {s s' : St} {i : Int} (hI : Inv W s) (h : inRange W i)
    (hw : slotAt W s i.toNat = none) {w : TxW} (hwd : w = { handle := s.next, index := i })
    (htx : s'.txs = some ((slots W s).set i.toNat (some w)))
    (hser : s'.serialized = s.serialized) (hbh : s'.blockHash = s.blockHash)
    (hnx : s'.next = s.next + 1) (hgn : s'.txnsGenerated = s.txnsGenerated) :
    Inv W s' ∧ Mono W s s' ∧ slotAt W s' i.toNat = some w ∧ s'.txs = some (slots W s') := by
  have hk : i.toNat < (slots W s).length := by rw [hI.len]; exact (inRange_toNat h).1
  have hs : slots W s' = (slots W s).set i.toNat (some w) :=
    slots_of_txs htx (by simp [hI.len])
  have hat := slotAt_set hk hs
  have hfr := hI.fresh (s' := s') (.tx i.toNat) (by rw [hs]; simp [hI.len])
    (by
      intro k w' hkw
      rw [hat] at hkw
      by_cases hki : k = i.toNat
      · simp [hki] at hkw; subst hkw; subst hwd; simp; rw [hki]; exact (inRange_toNat h).2.symm
      · simp [hki] at hkw; exact hI.idx k w' hkw)
    (by simp [handleOf, hw])
    (by
      intro o
      cases o with
      | bytes => simp [handleOf, hser]
      | blockHash => simp [handleOf, hbh]
      | tx j => by_cases hj : j = i.toNat <;> simp [handleOf, hat, hj, hwd]
      | txHash j => by_cases hj : j = i.toNat <;> simp [handleOf, hat, hj, hw, hwd])
    hnx
    (by intro b hh; rw [hser]; exact hI.ser b hh)
    (by
      intro hg
      rw [hgn] at hg
      obtain ⟨w, hw'⟩ := (hI.gen hg).2 i.toNat (inRange_toNat h).1
      rw [hw] at hw'; cases hw')
  refine ⟨hfr.1, hfr.2, ?_, ?_⟩
  · rw [hat]; simp
  · rw [hs, htx]

/-- summary of `getTx` for an in-range index: the state afterwards is well-formed, only grew, has the
slice allocated, and slot `i` holds the returned wrapper -/
theorem getTx_spec {W : Wire} {s : St} {i : Int} (hI : Inv W s) (h : inRange W i) :
    ∃ s' w, getTx W s i = (s', some w) ∧ Inv W s' ∧ Mono W s s' ∧
      slotAt W s' i.toNat = some w ∧ s'.txs = some (slots W s') := by
  cases hw : slotAt W s i.toNat with
  | some w =>
    refine ⟨_, w, getTx_hit hI h hw, ?_⟩
    have hs : slots W { s with txs := some (slots W s) } = slots W s := slots_of_txs rfl hI.len
    refine ⟨hI.congr hs rfl rfl (Nat.le_refl _) ?_, ?_, ?_, ?_⟩
    · intro hg
      have := hI.gen hg
      refine ⟨by simp [hs], ?_⟩
      intro k hk
      obtain ⟨w, hw⟩ := this.2 k hk
      exact ⟨w, by simpa [slotAt, hs] using hw⟩
    · intro o hh hx; rw [handleOf_congr hs rfl rfl]; exact hx
    · simpa [slotAt, hs] using hw
    · simp [hs]
  | none =>
    exact ⟨_, _, getTx_miss hI h hw, getTx_miss_inv hI h hw rfl rfl rfl rfl rfl rfl⟩


/-! ## `hashOfTx` -/

theorem hashOfTx_miss_inv {W : Wire} {s s' : St} {k : Nat} {w w' : TxW} (hI : Inv W s) (hk : k < numTx W)
    (hw : slotAt W s k = some w) (hnone : w.hashHandle = none)
    (hwd : w' = { w with hashHandle := some s.next })
    (htx : s'.txs = some ((slots W s).set k (some w')))
    (hser : s'.serialized = s.serialized) (hbh : s'.blockHash = s.blockHash)
    (hnx : s'.next = s.next + 1) (hgn : s'.txnsGenerated = s.txnsGenerated) :
    Inv W s' ∧ Mono W s s' ∧ handleOf W s' (.txHash k) = some s.next := by
  have hk' : k < (slots W s).length := by rw [hI.len]; exact hk
  have hs : slots W s' = (slots W s).set k (some w') := slots_of_txs htx (by simp [hI.len])
  have hat := slotAt_set hk' hs
  have hfr := hI.fresh (s' := s') (.txHash k) (by rw [hs]; simp [hI.len])
    (by
      intro j x hj
      rw [hat] at hj
      by_cases hjk : j = k
      · simp [hjk] at hj; subst hj; subst hwd; simp; rw [hjk]; exact hI.idx k w hw
      · simp [hjk] at hj; exact hI.idx j x hj)
    (by simp [handleOf, hw, hnone])
    (by
      intro o
      cases o with
      | bytes => simp [handleOf, hser]
      | blockHash => simp [handleOf, hbh]
      | tx j => by_cases hj : j = k <;> simp [handleOf, hat, hj, hwd, hw]
      | txHash j => by_cases hj : j = k <;> simp [handleOf, hat, hj, hwd])
    hnx
    (by intro b hh; rw [hser]; exact hI.ser b hh)
    (by
      intro hg
      rw [hgn] at hg
      refine ⟨by rw [htx, hs]; rfl, ?_⟩
      intro j hj
      rw [hat]
      by_cases hjk : j = k
      · exact ⟨w', by simp [hjk]⟩
      · simpa [hjk] using (hI.gen hg).2 j hj)
  refine ⟨hfr.1, hfr.2, ?_⟩
  simp [handleOf, hat, hwd]

theorem hashOfTx_spec {W : Wire} {s : St} {k : Nat} {w : TxW} (hI : Inv W s) (hk : k < numTx W)
    (hw : slotAt W s k = some w) (htxs : s.txs = some (slots W s)) :
    ∃ s' h, hashOfTx W s k w = (s', W.txHashes.getD k [], h) ∧ Inv W s' ∧ Mono W s s' ∧
      handleOf W s' (.txHash k) = some h := by
  cases hh : w.hashHandle with
  | some h =>
    refine ⟨s, h, ?_, hI, Mono.refl W s, ?_⟩
    · unfold hashOfTx; simp [hh]
    · simp [handleOf, hw, hh]
  | none =>
    refine ⟨_, s.next, ?_, hashOfTx_miss_inv (s' := { s with txs := s.txs.map (·.set k (some { w with hashHandle := some s.next })), next := s.next + 1 }) hI hk hw hh rfl ?_ rfl rfl rfl rfl⟩
    · unfold hashOfTx; simp [hh]
    · simp [htxs]


/-! ## `fillAll`: a structurally recursive reformulation of the fold -/

/-- fill every empty slot of `l` (whose first slot has block index `i`) with a fresh wrapper,
allocating handles from `n` upwards; returns the new list and the new counter -/
def fillFrom : Nat → Nat → List (Option TxW) → List (Option TxW) × Nat
  | _, n, [] => ([], n)
  | i, n, some w :: t => (some w :: (fillFrom (i + 1) n t).1, (fillFrom (i + 1) n t).2)
  | i, n, none :: t =>
    (some { handle := n, index := (i : Int) } :: (fillFrom (i + 1) (n + 1) t).1, (fillFrom (i + 1) (n + 1) t).2)

theorem fill_foldl (F : List (Option TxW) × Nat → Option TxW × Nat → List (Option TxW) × Nat)
    (hsome : ∀ acc w i, F acc (some w, i) = (acc.1 ++ [some w], acc.2))
    (hnone : ∀ acc i, F acc (none, i) = (acc.1 ++ [some { handle := acc.2, index := (i : Int) }], acc.2 + 1))
    (l : List (Option TxW)) (i n : Nat) (pre : List (Option TxW)) :
    (l.zipIdx i).foldl F (pre, n) = (pre ++ (fillFrom i n l).1, (fillFrom i n l).2) := by
  induction l generalizing i n pre with
  | nil => simp [fillFrom]
  | cons x t ih =>
    cases x with
    | none => simp [List.zipIdx_cons, hnone, ih, fillFrom]
    | some w => simp [List.zipIdx_cons, hsome, ih, fillFrom]

theorem fillAll_eq (W : Wire) (s : St) :
    fillAll W s = { s with txs := some (fillFrom 0 s.next (slots W s)).1,
                           next := (fillFrom 0 s.next (slots W s)).2, txnsGenerated := true } := by
  unfold fillAll
  show (match (List.foldl _ ([], s.next) (slots W s).zipIdx) with
    | (slots, next) => ({ s with txs := some slots, next := next, txnsGenerated := true } : St)) = _
  rw [fill_foldl]
  · rfl
  · intros; rfl
  · intros; rfl

/-- everything we need to know about `fillFrom` -/
theorem fillFrom_spec (l : List (Option TxW)) (i n : Nat) :
    (fillFrom i n l).1.length = l.length ∧ n ≤ (fillFrom i n l).2 ∧
    (∀ (j : Nat) (w : TxW), l[j]? = some (some w) → (fillFrom i n l).1[j]? = some (some w)) ∧
    (∀ j : Nat, l[j]? = some none → ∃ h : Nat, n ≤ h ∧ h < (fillFrom i n l).2 ∧
        (fillFrom i n l).1[j]? = some (some { handle := h, index := ((i + j : Nat) : Int) })) ∧
    (∀ (j₁ j₂ : Nat) (w₁ w₂ : TxW), l[j₁]? = some none → l[j₂]? = some none →
        (fillFrom i n l).1[j₁]? = some (some w₁) → (fillFrom i n l).1[j₂]? = some (some w₂) →
        w₁.handle = w₂.handle → j₁ = j₂) := by
  induction l generalizing i n with
  | nil => simp [fillFrom]
  | cons x t ih =>
    cases x with
    | some w =>
      obtain ⟨h1, h2, h3, h4, h5⟩ := ih (i + 1) n
      simp only [fillFrom]
      refine ⟨by simp [h1], h2, ?_, ?_, ?_⟩
      · intro j w' hj
        cases j with
        | zero => simpa using hj
        | succ j => simpa using h3 j w' (by simpa using hj)
      · intro j hj
        cases j with
        | zero => simp at hj
        | succ j =>
          obtain ⟨h, a, b, c⟩ := h4 j (by simpa using hj)
          refine ⟨h, a, b, ?_⟩
          simp only [List.getElem?_cons_succ, c]
          congr 3; omega
      · intro j₁ j₂ w₁ w₂ a b c d e
        cases j₁ with
        | zero => simp at a
        | succ j₁ =>
          cases j₂ with
          | zero => simp at b
          | succ j₂ =>
            have := h5 j₁ j₂ w₁ w₂ (by simpa using a) (by simpa using b) (by simpa using c) (by simpa using d) e
            omega
    | none =>
      obtain ⟨h1, h2, h3, h4, h5⟩ := ih (i + 1) (n + 1)
      simp only [fillFrom]
      refine ⟨by simp [h1], by omega, ?_, ?_, ?_⟩
      · intro j w' hj
        cases j with
        | zero => simp at hj
        | succ j => simpa using h3 j w' (by simpa using hj)
      · intro j hj
        cases j with
        | zero => exact ⟨n, Nat.le_refl _, by omega, by simp⟩
        | succ j =>
          obtain ⟨h, a, b, c⟩ := h4 j (by simpa using hj)
          refine ⟨h, by omega, b, ?_⟩
          simp only [List.getElem?_cons_succ, c]
          congr 3; omega
      · intro j₁ j₂ w₁ w₂ a b c d e
        cases j₁ with
        | zero =>
          cases j₂ with
          | zero => rfl
          | succ j₂ =>
            obtain ⟨h, ha, hb, hc⟩ := h4 j₂ (by simpa using b)
            simp only [List.getElem?_cons_succ, hc] at d
            simp at c d
            subst c; subst d
            simp at e; omega
        | succ j₁ =>
          cases j₂ with
          | zero =>
            obtain ⟨h, ha, hb, hc⟩ := h4 j₁ (by simpa using a)
            simp only [List.getElem?_cons_succ, hc] at c
            simp at c d
            subst c; subst d
            simp at e; omega
          | succ j₂ =>
            have := h5 j₁ j₂ w₁ w₂ (by simpa using a) (by simpa using b) (by simpa using c) (by simpa using d) e
            omega


theorem slotAt_some_iff {W : Wire} {s : St} {k : Nat} {w : TxW} :
    slotAt W s k = some w ↔ (slots W s)[k]? = some (some w) := by
  unfold slotAt
  cases h : (slots W s)[k]? with
  | none => simp
  | some x => cases x <;> simp

theorem slotAt_none_iff {W : Wire} {s : St} {k : Nat} (hk : k < (slots W s).length) :
    slotAt W s k = none ↔ (slots W s)[k]? = some none := by
  unfold slotAt
  rw [List.getElem?_eq_getElem hk]
  cases (slots W s)[k] <;> simp

theorem fillAll_inv_aux {W : Wire} {s s' : St} (hI : Inv W s)
    (htx : s'.txs = some (fillFrom 0 s.next (slots W s)).1)
    (hser : s'.serialized = s.serialized) (hbh : s'.blockHash = s.blockHash)
    (hnx : s'.next = (fillFrom 0 s.next (slots W s)).2) (hgn : s'.txnsGenerated = true) :
    Inv W s' ∧ Mono W s s' ∧ s'.txnsGenerated = true := by
  obtain ⟨f1, f2, f3, f4, f5⟩ := fillFrom_spec (slots W s) 0 s.next
  have hsl : slots W s' = (fillFrom 0 s.next (slots W s)).1 := slots_of_txs htx (by rw [f1, hI.len])
  have hlen : (slots W s').length = numTx W := by rw [hsl, f1, hI.len]
  have hE : s.next ≤ s'.next := by rw [hnx]; exact f2
  have hA : ∀ k w, slotAt W s k = some w → slotAt W s' k = some w := by
    intro k w h
    rw [slotAt_some_iff] at h ⊢
    rw [hsl]; exact f3 k w h
  have hB : ∀ k, k < numTx W → slotAt W s k = none →
      ∃ h, s.next ≤ h ∧ h < s'.next ∧ slotAt W s' k = some { handle := h, index := (k : Int) } := by
    intro k hk h
    rw [slotAt_none_iff (by rw [hI.len]; exact hk)] at h
    obtain ⟨x, a, b, c⟩ := f4 k h
    refine ⟨x, a, by rw [hnx]; exact b, ?_⟩
    rw [slotAt_some_iff, hsl, c]
    simp
  have hC : ∀ k₁ k₂ w₁ w₂, k₁ < numTx W → k₂ < numTx W → slotAt W s k₁ = none → slotAt W s k₂ = none →
      slotAt W s' k₁ = some w₁ → slotAt W s' k₂ = some w₂ → w₁.handle = w₂.handle → k₁ = k₂ := by
    intro k₁ k₂ w₁ w₂ a b c d e f g
    rw [slotAt_none_iff (by rw [hI.len]; exact a)] at c
    rw [slotAt_none_iff (by rw [hI.len]; exact b)] at d
    rw [slotAt_some_iff, hsl] at e f
    exact f5 k₁ k₂ w₁ w₂ c d e f g
  have hD : ∀ k, numTx W ≤ k → slotAt W s' k = none := fun k hk => slotAt_of_ge (by rw [hlen]; exact hk)
  -- every handle of the new state is an old one, or the fresh handle of a newly wrapped transaction
  have hX : ∀ o h, handleOf W s' o = some h → handleOf W s o = some h ∨
      (∃ k, o = .tx k ∧ k < numTx W ∧ slotAt W s k = none ∧ s.next ≤ h ∧ h < s'.next) := by
    intro o h hh
    cases o with
    | bytes => left; simpa [handleOf, hser] using hh
    | blockHash => left; simpa [handleOf, hbh] using hh
    | tx k =>
      cases hk : slotAt W s k with
      | some w => left; simpa [handleOf, hk, hA k w hk] using hh
      | none =>
        right
        by_cases hkn : k < numTx W
        · obtain ⟨x, a, b, c⟩ := hB k hkn hk
          simp [handleOf, c] at hh
          exact ⟨k, rfl, hkn, hk, by omega, by omega⟩
        · simp [handleOf, hD k (by omega)] at hh
    | txHash k =>
      cases hk : slotAt W s k with
      | some w => left; simpa [handleOf, hk, hA k w hk] using hh
      | none =>
        by_cases hkn : k < numTx W
        · obtain ⟨x, a, b, c⟩ := hB k hkn hk
          simp [handleOf, c] at hh
        · simp [handleOf, hD k (by omega)] at hh
  have hM : Mono W s s' := by
    intro o h hh
    cases o with
    | bytes => simpa [handleOf, hser] using hh
    | blockHash => simpa [handleOf, hbh] using hh
    | tx k =>
      cases hk : slotAt W s k with
      | some w => simpa [handleOf, hk, hA k w hk] using hh
      | none => simp [handleOf, hk] at hh
    | txHash k =>
      cases hk : slotAt W s k with
      | some w => simpa [handleOf, hk, hA k w hk] using hh
      | none => simp [handleOf, hk] at hh
  have hfull : ∀ k, k < numTx W → ∃ w, slotAt W s' k = some w := by
    intro k hk
    cases h : slotAt W s k with
    | some w => exact ⟨w, hA k w h⟩
    | none => obtain ⟨x, _, _, c⟩ := hB k hk h; exact ⟨_, c⟩
  refine ⟨⟨hlen, ?_, ?_, ?_, ?_, ?_⟩, hM, hgn⟩
  · intro k w hw
    cases h : slotAt W s k with
    | some w0 => rw [hA k w0 h] at hw; cases hw; exact hI.idx k _ h
    | none =>
      by_cases hkn : k < numTx W
      · obtain ⟨x, _, _, c⟩ := hB k hkn h
        rw [c] at hw; cases hw; rfl
      · rw [hD k (by omega)] at hw; cases hw
  · intro o h hh
    rcases hX o h hh with a | ⟨k, _, _, _, _, b⟩
    · have := hI.lt o h a; omega
    · exact b
  · intro o₁ o₂ h a b
    rcases hX o₁ h a with a' | ⟨k₁, e₁, l₁, n₁, g₁, _⟩ <;> rcases hX o₂ h b with b' | ⟨k₂, e₂, l₂, n₂, g₂, _⟩
    · exact hI.inj o₁ o₂ h a' b'
    · have := hI.lt o₁ h a'; omega
    · have := hI.lt o₂ h b'; omega
    · subst e₁; subst e₂
      obtain ⟨w₁, hw₁⟩ := hfull k₁ l₁
      obtain ⟨w₂, hw₂⟩ := hfull k₂ l₂
      simp [handleOf, hw₁] at a
      simp [handleOf, hw₂] at b
      rw [hC k₁ k₂ w₁ w₂ l₁ l₂ n₁ n₂ hw₁ hw₂ (by omega)]
  · intro b h hh; rw [hser] at hh; exact hI.ser b h hh
  · intro _
    exact ⟨by rw [htx, hsl]; rfl, hfull⟩


theorem fillAll_spec {W : Wire} {s : St} (hI : Inv W s) :
    Inv W (fillAll W s) ∧ Mono W s (fillAll W s) ∧ (fillAll W s).txnsGenerated = true := by
  rw [fillAll_eq]
  exact fillAll_inv_aux hI rfl rfl rfl rfl rfl


/-! ## `getBytes` and the block hash -/

theorem getBytes_spec {W : Wire} {s : St} (hI : Inv W s) :
    ∃ s' b h, getBytes W s = (s', b, h) ∧ Inv W s' ∧ Mono W s s' ∧
      (W.ser ≠ [] → b = W.ser ∧ handleOf W s' .bytes = some h) := by
  -- the state written when the serialisation has to be produced
  have hnew : ∀ s' : St, s'.serialized = some (W.ser, s.next) → s'.blockHash = s.blockHash →
      s'.txs = s.txs → s'.txnsGenerated = s.txnsGenerated → s'.next = s.next + 1 →
      handleOf W s .bytes = none →
      Inv W s' ∧ Mono W s s' ∧ (W.ser ≠ [] → handleOf W s' .bytes = some s.next) := by
    intro s' a b c d e f
    have hsl : slots W s' = slots W s := by simp [slots, c]
    have hat : ∀ k, slotAt W s' k = slotAt W s k := by intro k; simp [slotAt, hsl]
    have hgen : s'.txnsGenerated = true →
        s'.txs.getD [] = slots W s' ∧ ∀ k, k < numTx W → ∃ w, slotAt W s' k = some w := by
      intro hg
      rw [d] at hg
      have := hI.gen hg
      exact ⟨by rw [c, hsl]; exact this.1, fun k hk => by rw [hat]; exact this.2 k hk⟩
    have hser : ∀ b h, s'.serialized = some (b, h) → b.length ≠ 0 → b = W.ser := by
      intro b h hh _
      rw [a] at hh
      cases hh; rfl
    by_cases hW : W.ser = []
    · -- degenerate wire serialisation: the cache stays "empty"
      have hho : ∀ o, handleOf W s' o = handleOf W s o := by
        intro o
        cases o with
        | bytes => rw [f]; simp [handleOf, a, hW]
        | blockHash => simp [handleOf, b]
        | tx k => simp [handleOf, hat]
        | txHash k => simp [handleOf, hat]
      refine ⟨⟨by rw [hsl]; exact hI.len, ?_, ?_, ?_, hser, hgen⟩, ?_, fun h => absurd hW h⟩
      · intro k w h; rw [hat] at h; exact hI.idx k w h
      · intro o h hh; rw [hho] at hh; have := hI.lt o h hh; omega
      · intro o₁ o₂ h x y; rw [hho] at x y; exact hI.inj o₁ o₂ h x y
      · intro o h hh; rw [hho]; exact hh
    · have hlen : W.ser.length ≠ 0 := by
        intro h; exact hW (List.eq_nil_of_length_eq_zero h)
      have hfr := hI.fresh (s' := s') .bytes (by rw [hsl]; exact hI.len)
        (by intro k w h; rw [hat] at h; exact hI.idx k w h) f
        (by
          intro o
          cases o with
          | bytes => simp [handleOf, a, hlen]
          | blockHash => simp [handleOf, b]
          | tx k => simp [handleOf, hat]
          | txHash k => simp [handleOf, hat])
        e hser hgen
      exact ⟨hfr.1, hfr.2, fun _ => by simp [handleOf, a, hlen]⟩
  unfold getBytes
  cases hs : s.serialized with
  | none =>
    have := hnew { s with serialized := some (W.ser, s.next), next := s.next + 1 } rfl rfl rfl rfl rfl
      (by simp [handleOf, hs])
    exact ⟨_, _, _, rfl, this.1, this.2.1, fun h => ⟨rfl, this.2.2 h⟩⟩
  | some bh =>
    obtain ⟨b, h⟩ := bh
    by_cases hb : b.length ≠ 0
    · refine ⟨s, b, h, by simp [hb], hI, Mono.refl W s, fun _ => ⟨hI.ser b h hs hb, ?_⟩⟩
      simp [handleOf, hs, hb]
    · have := hnew { s with serialized := some (W.ser, s.next), next := s.next + 1 } rfl rfl rfl rfl rfl
        (by simp [handleOf, hs, hb])
      refine ⟨_, _, _, by simp [hb], this.1, this.2.1, fun h => ⟨rfl, this.2.2 h⟩⟩

theorem blockHash_new_inv {W : Wire} {s s' : St} (hI : Inv W s) (hn : s.blockHash = none)
    (a : s'.serialized = s.serialized) (b : s'.blockHash = some s.next)
    (c : s'.txs = s.txs) (d : s'.txnsGenerated = s.txnsGenerated) (e : s'.next = s.next + 1) :
    Inv W s' ∧ Mono W s s' := by
  have hsl : slots W s' = slots W s := by simp [slots, c]
  have hat : ∀ k, slotAt W s' k = slotAt W s k := by intro k; simp [slotAt, hsl]
  apply hI.fresh (s' := s') .blockHash (by rw [hsl]; exact hI.len)
    (by intro k w h; rw [hat] at h; exact hI.idx k w h) (by simpa [handleOf] using hn)
    (by
      intro o
      cases o with
      | bytes => simp [handleOf, a]
      | blockHash => simp [handleOf, b]
      | tx k => simp [handleOf, hat]
      | txHash k => simp [handleOf, hat])
    e (by intro x h hh; rw [a] at hh; exact hI.ser x h hh)
  intro hg
  rw [d] at hg
  have := hI.gen hg
  exact ⟨by rw [c, hsl]; exact this.1, fun k hk => by rw [hat]; exact this.2 k hk⟩


/-! ## one step -/

theorem filterMap_eq_map_of {α β : Type} {f : α → Option β} {g : α → β} (l : List α)
    (h : ∀ x ∈ l, f x = some (g x)) : l.filterMap f = l.map g := by
  induction l with
  | nil => rfl
  | cons a t ih =>
    rw [List.filterMap_cons, h a (by simp), List.map_cons, ih (fun x hx => h x (by simp [hx]))]

theorem transactions_list {W : Wire} {s : St} (hI : Inv W s) (hg : s.txnsGenerated = true) :
    ((s.txs.getD []).zipIdx.filterMap fun (slot, i) =>
        slot.map fun w => (W.txHashes.getD i [], w.index, w.handle)) =
      (List.range (numTx W)).map fun k => (W.txHashes.getD k [], (k : Int), (handleOf W s (.tx k)).getD 0) := by
  obtain ⟨h1, h2⟩ := hI.gen hg
  rw [h1]
  have hlen := hI.len
  rw [filterMap_eq_map_of (g := fun (x : Option TxW × Nat) =>
      (W.txHashes.getD x.2 [], ((x.1.map (·.index)).getD 0), ((x.1.map (·.handle)).getD 0)))]
  · apply List.ext_getElem
    · simp [hlen]
    · intro k hk1 hk2
      have hk : k < numTx W := by simpa using hk2
      obtain ⟨w, hw⟩ := h2 k hk
      have hidx := hI.idx k w hw
      rw [slotAt_some_iff] at hw
      have hk' : k < (slots W s).length := by omega
      rw [List.getElem?_eq_getElem hk'] at hw
      have hw' : (slots W s)[k] = some w := by simpa using hw
      simp [hw', hidx, handleOf, slotAt, List.getElem?_eq_getElem hk']
  · intro x hx
    obtain ⟨slot, i⟩ := x
    obtain ⟨hi, hsl⟩ := List.mem_zipIdx' hx
    obtain ⟨w, hw⟩ := h2 i (by omega)
    rw [slotAt_some_iff, List.getElem?_eq_getElem (by omega)] at hw
    have : slot = some w := by rw [hsl]; simpa using hw
    subst this
    simp

/-- what one call does: keeps the invariant, only fills caches, returns the fresh computation
decorated with the handles now stored, and leaves every exposed object cached -/
structure StepOK (W : Wire) (s : St) (c : Call) : Prop where
  inv : Inv W (step W s c).1
  mono : Mono W s (step W s c).1
  res : W.ser ≠ [] → (step W s c).2 = render W (handleOf W (step W s c).1) c
  defd : W.ser ≠ [] → ∀ o ∈ objsOfCall W c, ∃ h, handleOf W (step W s c).1 o = some h

theorem StepOK.of_eq {W : Wire} {s s' : St} {c : Call} {r : Res} (hst : step W s c = (s', r))
    (inv : Inv W s') (mono : Mono W s s') (res : W.ser ≠ [] → r = render W (handleOf W s') c)
    (defd : W.ser ≠ [] → ∀ o ∈ objsOfCall W c, ∃ h, handleOf W s' o = some h) : StepOK W s c := by
  constructor <;> rw [hst] <;> assumption

theorem step_ok {W : Wire} {s : St} (hI : Inv W s) (c : Call) : StepOK W s c := by
  cases c with
  | tx i =>
    by_cases hr : inRange W i
    · obtain ⟨s', w, hget, hI', hM, hw, _⟩ := getTx_spec hI hr
      have hst : step W s (.tx i) = (s', .tx (W.txHashes.getD i.toNat []) w.index w.handle) := by
        simp [step, hget]
      have hidx : w.index = i := by rw [hI'.idx _ w hw]; exact (inRange_toNat hr).2
      exact StepOK.of_eq hst hI' hM (fun _ => by simp [render, hr, handleOf, hw, hidx])
        (fun _ o ho => by simp [objsOfCall, hr] at ho; subst ho; simp [handleOf, hw])
    · have hst : step W s (.tx i) = (s, .outOfRange) := by simp [step, getTx_oor W s i hr]
      exact StepOK.of_eq hst hI (Mono.refl W s) (fun _ => by simp [render, hr])
        (fun _ o ho => by simp [objsOfCall, hr] at ho)
  | transactions =>
    have hs1 : ∃ s1, (if s.txnsGenerated then s else fillAll W s) = s1 ∧ Inv W s1 ∧ Mono W s s1 ∧
        s1.txnsGenerated = true := by
      by_cases hg : s.txnsGenerated = true
      · exact ⟨s, by simp [hg], hI, Mono.refl W s, hg⟩
      · have := fillAll_spec hI
        exact ⟨_, by simp [hg], this⟩
    obtain ⟨s1, e1, hI1, hM1, hg1⟩ := hs1
    have hst : step W s .transactions = (s1, .txs ((List.range (numTx W)).map fun k =>
        (W.txHashes.getD k [], (k : Int), (handleOf W s1 (.tx k)).getD 0))) := by
      simp only [step, e1]
      rw [transactions_list hI1 hg1]
    refine StepOK.of_eq hst hI1 hM1 (fun _ => rfl) (fun _ o ho => ?_)
    simp only [objsOfCall, List.mem_map, List.mem_range] at ho
    obtain ⟨k, hk, rfl⟩ := ho
    obtain ⟨w, hw⟩ := (hI1.gen hg1).2 k hk
    exact ⟨w.handle, by simp [handleOf, hw]⟩
  | txHash i =>
    by_cases hr : inRange W i
    · obtain ⟨s', w, hget, hI', hM, hw, htxs⟩ := getTx_spec hI hr
      obtain ⟨s'', h, hh, hI'', hM', hho⟩ := hashOfTx_spec hI' (inRange_toNat hr).1 hw htxs
      have hst : step W s (.txHash i) = (s'', .hash (W.txHashes.getD i.toNat []) h) := by
        simp [step, hget, hh]
      exact StepOK.of_eq hst hI'' (hM.trans hM') (fun _ => by simp [render, hr, hho])
        (fun _ o ho => by simp [objsOfCall, hr] at ho; subst ho; exact ⟨h, hho⟩)
    · have hst : step W s (.txHash i) = (s, .outOfRange) := by simp [step, getTx_oor W s i hr]
      exact StepOK.of_eq hst hI (Mono.refl W s) (fun _ => by simp [render, hr])
        (fun _ o ho => by simp [objsOfCall, hr] at ho)
  | hash =>
    cases hb : s.blockHash with
    | some h =>
      have hst : step W s .hash = (s, .hash W.hash h) := by simp [step, hb]
      exact StepOK.of_eq hst hI (Mono.refl W s) (fun _ => by simp [render, handleOf, hb])
        (fun _ o ho => by simp [objsOfCall] at ho; subst ho; exact ⟨h, by simp [handleOf, hb]⟩)
    | none =>
      have hst : step W s .hash = ({ s with blockHash := some s.next, next := s.next + 1 }, .hash W.hash s.next) := by
        simp [step, hb]
      have := blockHash_new_inv (s' := { s with blockHash := some s.next, next := s.next + 1 }) hI hb rfl rfl rfl rfl rfl
      exact StepOK.of_eq hst this.1 this.2 (fun _ => by simp [render, handleOf])
        (fun _ o ho => by simp [objsOfCall] at ho; subst ho; exact ⟨s.next, by simp [handleOf]⟩)
  | bytes =>
    obtain ⟨s', b, h, hg, hI', hM, hb⟩ := getBytes_spec hI
    have hst : step W s .bytes = (s', .bytes b h) := by simp [step, hg]
    exact StepOK.of_eq hst hI' hM (fun hW => by simp [render, (hb hW).1, (hb hW).2])
      (fun hW o ho => by simp [objsOfCall] at ho; subst ho; exact ⟨h, (hb hW).2⟩)
  | txLoc =>
    obtain ⟨s', b, h, hg, hI', hM, hb⟩ := getBytes_spec hI
    have hst : step W s .txLoc = (s', .locs W.txLocs) := by simp [step, hg]
    exact StepOK.of_eq hst hI' hM (fun _ => rfl) (fun _ o ho => by simp [objsOfCall] at ho)


/-! ## whole runs -/

theorem slotAt_of_txs_none {W : Wire} {s : St} (h : s.txs = none) (k : Nat) : slotAt W s k = none := by
  unfold slotAt slots
  rw [h]
  by_cases hk : k < numTx W
  · simp [hk]
  · simp [List.getElem?_eq_none (l := List.replicate (numTx W) (none : Option TxW)) (i := k) (by simp; omega)]

theorem inv_initMsg (W : Wire) : Inv W initMsg := by
  have hs : ∀ k, slotAt W initMsg k = none := slotAt_of_txs_none rfl
  refine ⟨by simp [slots, initMsg], ?_, ?_, ?_, ?_, ?_⟩
  · intro k w h; rw [hs] at h; cases h
  · intro o h hh; cases o <;> simp [handleOf, hs] at hh <;> simp [initMsg] at hh
  · intro o₁ o₂ h a; cases o₁ <;> simp [handleOf, hs] at a <;> simp [initMsg] at a
  · intro b h hh; simp [initMsg] at hh
  · intro h; simp [initMsg] at h

/-- the bytes constructor yields a well-formed state exactly when it caches the wire serialisation
(or nothing) -/
theorem inv_initBytes (W : Wire) (b : Bytes) (hb : b = W.ser ∨ b = []) : Inv W (initBytes b) := by
  have hs : ∀ k, slotAt W (initBytes b) k = none := slotAt_of_txs_none rfl
  have hbh : (initBytes b).blockHash = none := rfl
  have hsr : (initBytes b).serialized = some (b, 0) := rfl
  have hnx : (initBytes b).next = 1 := rfl
  refine ⟨by simp [slots, initBytes], ?_, ?_, ?_, ?_, ?_⟩
  · intro k w h; rw [hs] at h; cases h
  · intro o h hh
    cases o <;> simp [handleOf, hs, hbh, hsr] at hh
    rw [hnx]; omega
  · intro o₁ o₂ h x y
    cases o₁ <;> simp [handleOf, hs, hbh, hsr] at x
    cases o₂ <;> simp [handleOf, hs, hbh, hsr] at y
    rfl
  · intro x h hh hx
    rw [hsr] at hh
    simp at hh
    rcases hb with hb | hb
    · rw [← hh.1, hb]
    · rw [← hh.1, hb] at hx; simp at hx
  · intro h; simp [initBytes] at h

theorem inv_step {W : Wire} {s : St} (hI : Inv W s) (c : Call) : Inv W (step W s c).1 := (step_ok hI c).inv

theorem run_inv {W : Wire} (calls : List Call) {s : St} (hI : Inv W s) :
    Inv W (run W s calls).1 ∧ Mono W s (run W s calls).1 := by
  induction calls generalizing s with
  | nil => exact ⟨hI, Mono.refl W s⟩
  | cons c cs ih =>
    have h1 := step_ok hI c
    have h2 := ih h1.inv
    exact ⟨h2.1, h1.mono.trans h2.2⟩

theorem run_length (W : Wire) (calls : List Call) (s : St) : (run W s calls).2.length = calls.length := by
  induction calls generalizing s with
  | nil => rfl
  | cons c cs ih => simp [ih]

/-- **master theorem**: the results of a run are the fresh computations from the wire message, decorated
with the handles stored in the *final* state, and every object exposed during the run is cached there -/
theorem run_spec {W : Wire} (hW : W.ser ≠ []) (calls : List Call) {s : St} (hI : Inv W s) :
    (run W s calls).2 = calls.map (render W (handleOf W (run W s calls).1)) ∧
    ∀ c ∈ calls, ∀ o ∈ objsOfCall W c, ∃ h, handleOf W (run W s calls).1 o = some h := by
  induction calls generalizing s with
  | nil => simp
  | cons c cs ih =>
    have h1 := step_ok hI c
    have h2 := ih h1.inv
    have hm := (run_inv cs h1.inv).2
    have hd : ∀ o ∈ objsOfCall W c, ∃ h, handleOf W (run W (step W s c).1 cs).1 o = some h := by
      intro o ho
      obtain ⟨h, hh⟩ := h1.defd hW o ho
      exact ⟨h, hm o h hh⟩
    constructor
    · simp only [run_cons, List.map_cons]
      rw [← h2.1, h1.res hW]
      congr 1
      apply render_congr
      intro o ho
      obtain ⟨h, hh⟩ := h1.defd hW o ho
      rw [hh, hm o h hh]
    · intro c' hc' o ho
      simp only [List.mem_cons] at hc'
      rcases hc' with rfl | hc'
      · exact hd o ho
      · exact h2.2 c' hc' o ho


/-! ## handle renaming by first occurrence (what the test harness does with real pointers) -/

/-- the handles occurring in a result, in order -/
def resHandles : Res → List Nat
  | .tx _ _ h => [h]
  | .outOfRange => []
  | .txs l => l.map (·.2.2)
  | .hash _ h => [h]
  | .bytes _ h => [h]
  | .locs _ => []

def mapHandles (f : Nat → Nat) : Res → Res
  | .tx v i h => .tx v i (f h)
  | .outOfRange => .outOfRange
  | .txs l => .txs (l.map fun x => (x.1, x.2.1, f x.2.2))
  | .hash v h => .hash v (f h)
  | .bytes b h => .bytes b (f h)
  | .locs l => .locs l

/-- record handles not seen before, in order -/
def noteHandles (seen : List Nat) (hs : List Nat) : List Nat :=
  hs.foldl (fun s h => if h ∈ s then s else s ++ [h]) seen

def canonAux (seen : List Nat) : List Res → List Res
  | [] => []
  | r :: rs =>
    (mapHandles (fun h => (noteHandles seen (resHandles r)).idxOf h) r) ::
      canonAux (noteHandles seen (resHandles r)) rs

/-- rename every handle to the number of distinct handles seen before its first occurrence -/
def canon (rs : List Res) : List Res := canonAux [] rs

/-- pointwise relation of two lists -/
def All₂ {α β : Type} (P : α → β → Prop) : List α → List β → Prop
  | [], [] => True
  | a :: as, b :: bs => P a b ∧ All₂ P as bs
  | _, _ => False

theorem All₂.map_same {α β γ : Type} {P : β → γ → Prop} (l : List α) (f : α → β) (g : α → γ)
    (h : ∀ x ∈ l, P (f x) (g x)) : All₂ P (l.map f) (l.map g) := by
  induction l with
  | nil => trivial
  | cons a t ih => exact ⟨h a (by simp), ih (fun x hx => h x (by simp [hx]))⟩

theorem All₂.append {α β : Type} {P : α → β → Prop} {l₁ : List α} {l₂ : List β} {a : α} {b : β}
    (h : All₂ P l₁ l₂) (hab : P a b) : All₂ P (l₁ ++ [a]) (l₂ ++ [b]) := by
  induction l₁ generalizing l₂ with
  | nil => cases l₂ with
    | nil => exact ⟨hab, trivial⟩
    | cons _ _ => exact h.elim
  | cons x t ih => cases l₂ with
    | nil => exact h.elim
    | cons y u => exact ⟨h.1, ih h.2⟩

/-- a relation that is a partial bijection -/
def BiUnique (R : Nat → Nat → Prop) : Prop := ∀ a b a' b', R a b → R a' b' → (a = a' ↔ b = b')

theorem All₂.mem_iff {R : Nat → Nat → Prop} (hR : BiUnique R) {s s' : List Nat} (h : All₂ R s s')
    {a b : Nat} (hab : R a b) : a ∈ s ↔ b ∈ s' := by
  induction s generalizing s' with
  | nil => cases s' with
    | nil => simp
    | cons _ _ => exact h.elim
  | cons x t ih => cases s' with
    | nil => exact h.elim
    | cons y u =>
      have := hR a b x y hab h.1
      simp only [List.mem_cons, this, ih h.2]

theorem All₂.idxOf_eq {R : Nat → Nat → Prop} (hR : BiUnique R) {s s' : List Nat} (h : All₂ R s s')
    {a b : Nat} (hab : R a b) : s.idxOf a = s'.idxOf b := by
  induction s generalizing s' with
  | nil => cases s' with
    | nil => rfl
    | cons _ _ => exact h.elim
  | cons x t ih => cases s' with
    | nil => exact h.elim
    | cons y u =>
      have := hR x y a b h.1 hab
      rw [List.idxOf_cons, List.idxOf_cons, ih h.2]
      by_cases hx : x = a
      · have hy : y = b := this.mp hx
        simp [hx, hy]
      · have hy : ¬ y = b := fun e => hx (this.mpr e)
        have e1 : (x == a) = false := by simpa using hx
        have e2 : (y == b) = false := by simpa using hy
        rw [e1, e2]

theorem noteHandles_rel {R : Nat → Nat → Prop} (hR : BiUnique R) {hs hs' : List Nat} (h : All₂ R hs hs')
    {s s' : List Nat} (hs2 : All₂ R s s') : All₂ R (noteHandles s hs) (noteHandles s' hs') := by
  induction hs generalizing hs' s s' with
  | nil => cases hs' with
    | nil => exact hs2
    | cons _ _ => exact h.elim
  | cons x t ih => cases hs' with
    | nil => exact h.elim
    | cons y u =>
      simp only [noteHandles, List.foldl_cons]
      have hm := hs2.mem_iff hR h.1
      by_cases hx : x ∈ s
      · rw [if_pos hx, if_pos (hm.mp hx)]; exact ih h.2 hs2
      · rw [if_neg hx, if_neg (fun e => hx (hm.mpr e))]; exact ih h.2 (hs2.append h.1)

/-- two results that agree except for `R`-related handles -/
def ResRel (R : Nat → Nat → Prop) : Res → Res → Prop
  | .tx v i h, .tx v' i' h' => v = v' ∧ i = i' ∧ R h h'
  | .outOfRange, .outOfRange => True
  | .txs l, .txs l' => All₂ (fun a b => a.1 = b.1 ∧ a.2.1 = b.2.1 ∧ R a.2.2 b.2.2) l l'
  | .hash v h, .hash v' h' => v = v' ∧ R h h'
  | .bytes v h, .bytes v' h' => v = v' ∧ R h h'
  | .locs l, .locs l' => l = l'
  | _, _ => False

theorem txs_handles_rel {R : Nat → Nat → Prop} {l l' : List (Bytes × Int × Nat)}
    (h : All₂ (fun a b => a.1 = b.1 ∧ a.2.1 = b.2.1 ∧ R a.2.2 b.2.2) l l') :
    All₂ R (l.map (·.2.2)) (l'.map (·.2.2)) := by
  induction l generalizing l' with
  | nil => cases l' with
    | nil => trivial
    | cons _ _ => exact h.elim
  | cons x t ih => cases l' with
    | nil => exact h.elim
    | cons y u => exact ⟨h.1.2.2, ih h.2⟩

theorem txs_map_rel {R : Nat → Nat → Prop} {l l' : List (Bytes × Int × Nat)} {g g' : Nat → Nat}
    (h : All₂ (fun a b => a.1 = b.1 ∧ a.2.1 = b.2.1 ∧ R a.2.2 b.2.2) l l')
    (hg : ∀ a b, R a b → g a = g' b) :
    (l.map fun x => (x.1, x.2.1, g x.2.2)) = (l'.map fun x => (x.1, x.2.1, g' x.2.2)) := by
  induction l generalizing l' with
  | nil => cases l' with
    | nil => rfl
    | cons _ _ => exact h.elim
  | cons x t ih => cases l' with
    | nil => exact h.elim
    | cons y u =>
      simp only [List.map_cons]
      rw [ih h.2, h.1.1, h.1.2.1, hg _ _ h.1.2.2]

theorem ResRel.handles {R : Nat → Nat → Prop} {r r' : Res} (h : ResRel R r r') :
    All₂ R (resHandles r) (resHandles r') := by
  cases r <;> cases r' <;> simp only [ResRel] at h <;> try exact h.elim
  · exact ⟨h.2.2, trivial⟩
  · trivial
  · exact txs_handles_rel h
  · exact ⟨h.2, trivial⟩
  · exact ⟨h.2, trivial⟩
  · trivial

theorem ResRel.map_eq {R : Nat → Nat → Prop} {r r' : Res} (h : ResRel R r r') {g g' : Nat → Nat}
    (hg : ∀ a b, R a b → g a = g' b) : mapHandles g r = mapHandles g' r' := by
  cases r <;> cases r' <;> simp only [ResRel] at h <;> try exact h.elim
  · simp [mapHandles, h.1, h.2.1, hg _ _ h.2.2]
  · rfl
  · simp only [mapHandles]; rw [txs_map_rel h hg]
  · simp [mapHandles, h.1, hg _ _ h.2]
  · simp [mapHandles, h.1, hg _ _ h.2]
  · simp [mapHandles, h]

/-- results related by a partial bijection of handles have the same canonical form -/
theorem canonAux_rel {R : Nat → Nat → Prop} (hR : BiUnique R) {rs rs' : List Res}
    (h : All₂ (ResRel R) rs rs') {s s' : List Nat} (hs : All₂ R s s') :
    canonAux s rs = canonAux s' rs' := by
  induction rs generalizing rs' s s' with
  | nil => cases rs' with
    | nil => rfl
    | cons _ _ => exact h.elim
  | cons r t ih => cases rs' with
    | nil => exact h.elim
    | cons r' t' =>
      have hn := noteHandles_rel hR h.1.handles hs
      simp only [canonAux]
      rw [ih h.2 hn, h.1.map_eq (fun a b hab => hn.idxOf_eq hR hab)]

theorem canon_rel {R : Nat → Nat → Prop} (hR : BiUnique R) {rs rs' : List Res}
    (h : All₂ (ResRel R) rs rs') : canon rs = canon rs' :=
  canonAux_rel hR h (s := []) (s' := []) trivial


/-! ## consequences of the master theorem -/

/-- the constructors of the library, as initial cache states -/
def IsCtor (W : Wire) (s : St) : Prop := s = initMsg ∨ s = initBytes W.ser

theorem IsCtor.inv {W : Wire} {s : St} (h : IsCtor W s) : Inv W s := by
  rcases h with rfl | rfl
  · exact inv_initMsg W
  · exact inv_initBytes W W.ser (Or.inl rfl)

/-- positional form of the master theorem -/
theorem run_at {W : Wire} (hW : W.ser ≠ []) {s : St} (hI : Inv W s) (calls : List Call)
    {p : Nat} {c : Call} {r : Res} (hc : calls[p]? = some c) (hr : (run W s calls).2[p]? = some r) :
    r = render W (handleOf W (run W s calls).1) c ∧
    ∀ o ∈ objsOfCall W c, ∃ h, handleOf W (run W s calls).1 o = some h := by
  obtain ⟨h1, h2⟩ := run_spec hW calls hI
  rw [h1, List.getElem?_map, hc] at hr
  simp only [Option.map_some, Option.some.injEq] at hr
  exact ⟨hr.symm, h2 c (List.mem_of_getElem? hc)⟩

theorem getD_of_lt {l : List Bytes} {k : Nat} (hk : k < l.length) : l[k]? = some (l.getD k []) := by
  simp [List.getD, List.getElem?_eq_getElem hk]

theorem render_tx_in {W : Wire} (H : Obj → Option Nat) {i : Int} (hr : inRange W i) :
    ∃ v, W.txHashes[i.toNat]? = some v ∧ render W H (.tx i) = .tx v i ((H (.tx i.toNat)).getD 0) :=
  ⟨_, getD_of_lt (inRange_toNat hr).1, by simp [render, hr]⟩

theorem render_tx_out {W : Wire} (H : Obj → Option Nat) {i : Int} (hr : ¬ inRange W i) :
    render W H (.tx i) = .outOfRange := by simp [render, hr]

theorem render_txHash_in {W : Wire} (H : Obj → Option Nat) {i : Int} (hr : inRange W i) :
    ∃ v, W.txHashes[i.toNat]? = some v ∧ render W H (.txHash i) = .hash v ((H (.txHash i.toNat)).getD 0) :=
  ⟨_, getD_of_lt (inRange_toNat hr).1, by simp [render, hr]⟩

theorem render_txHash_out {W : Wire} (H : Obj → Option Nat) {i : Int} (hr : ¬ inRange W i) :
    render W H (.txHash i) = .outOfRange := by simp [render, hr]

theorem render_transactions {W : Wire} (H : Obj → Option Nat) :
    ∃ l, render W H .transactions = .txs l ∧ l.length = numTx W ∧
      ∀ (k : Nat) (v : Bytes), W.txHashes[k]? = some v → l[k]? = some (v, (k : Int), (H (.tx k)).getD 0) := by
  refine ⟨_, rfl, by simp, ?_⟩
  intro k v hv
  have hk : k < numTx W := by
    unfold numTx
    exact (List.getElem?_eq_some_iff.mp hv).1
  simp [hk, hv]

theorem resHandles_render (W : Wire) (H : Obj → Option Nat) (c : Call) :
    resHandles (render W H c) = (objsOfCall W c).map fun o => (H o).getD 0 := by
  cases c with
  | tx i => by_cases hr : inRange W i <;> simp [render, objsOfCall, resHandles, hr]
  | transactions => simp [render, objsOfCall, resHandles]
  | txHash i => by_cases hr : inRange W i <;> simp [render, objsOfCall, resHandles, hr]
  | hash => rfl
  | bytes => rfl
  | txLoc => rfl

/-- the (object, handle) pairs exposed by one call / result pair -/
def exposed (W : Wire) (c : Call) (r : Res) : List (Obj × Nat) := (objsOfCall W c).zip (resHandles r)

/-- all (object, handle) pairs exposed during a run -/
def observed (W : Wire) (calls : List Call) (results : List Res) : List (Obj × Nat) :=
  (calls.zip results).flatMap fun cr => exposed W cr.1 cr.2

theorem mem_zip_map {α β : Type} {l : List α} {g : α → β} {a : α} {b : β}
    (h : (a, b) ∈ l.zip (l.map g)) : a ∈ l ∧ b = g a := by
  induction l with
  | nil => simp at h
  | cons x t ih =>
    simp only [List.map_cons, List.zip_cons_cons, List.mem_cons, Prod.mk.injEq] at h
    rcases h with ⟨rfl, rfl⟩ | h
    · exact ⟨by simp, rfl⟩
    · exact ⟨by simp [(ih h).1], (ih h).2⟩

/-- every handle a call hands out is the one stored for that object in the final state -/
theorem exposed_stored {W : Wire} (hW : W.ser ≠ []) {s : St} (hI : Inv W s) (calls : List Call)
    {p : Nat} {c : Call} {r : Res} (hc : calls[p]? = some c) (hr : (run W s calls).2[p]? = some r)
    {o : Obj} {h : Nat} (hm : (o, h) ∈ exposed W c r) : handleOf W (run W s calls).1 o = some h := by
  obtain ⟨h1, h2⟩ := run_at hW hI calls hc hr
  rw [h1, exposed, resHandles_render] at hm
  obtain ⟨ho, hh⟩ := mem_zip_map hm
  obtain ⟨x, hx⟩ := h2 o ho
  rw [hx] at hh
  simp at hh
  rw [hx, hh]

theorem observed_stored {W : Wire} (hW : W.ser ≠ []) {s : St} (hI : Inv W s) (calls : List Call)
    {o : Obj} {h : Nat} (hm : (o, h) ∈ observed W calls (run W s calls).2) :
    handleOf W (run W s calls).1 o = some h := by
  simp only [observed, List.mem_flatMap] at hm
  obtain ⟨⟨c, r⟩, hz, hm⟩ := hm
  obtain ⟨p, hp, hpe⟩ := List.getElem_of_mem hz
  have hp1 : p < calls.length := by simp at hp; omega
  have hp2 : p < (run W s calls).2.length := by simp at hp; omega
  rw [List.getElem_zip] at hpe
  simp only [Prod.mk.injEq] at hpe
  exact exposed_stored hW hI calls (p := p) (by rw [List.getElem?_eq_getElem hp1, hpe.1])
    (by rw [List.getElem?_eq_getElem hp2, hpe.2]) hm

/-- two well-formed cache states for the same wire message are observationally equal:
any script gives the same results up to renaming of handles -/
theorem run_canon_eq {W : Wire} (hW : W.ser ≠ []) {s s' : St} (hI : Inv W s) (hI' : Inv W s')
    (calls : List Call) : canon (run W s calls).2 = canon (run W s' calls).2 := by
  obtain ⟨h1, h2⟩ := run_spec hW calls hI
  obtain ⟨h1', h2'⟩ := run_spec hW calls hI'
  have hF := (run_inv calls hI).1
  have hF' := (run_inv calls hI').1
  generalize (run W s calls).1 = f at *
  generalize (run W s' calls).1 = f' at *
  rw [h1, h1']
  apply canon_rel (R := fun a b => ∃ o, handleOf W f o = some a ∧ handleOf W f' o = some b)
  · intro a b a' b' ⟨o, x, y⟩ ⟨o', x', y'⟩
    constructor
    · intro e; subst e
      have := hF.inj o o' a x x'
      subst this
      rw [y] at y'; exact Option.some.inj y'
    · intro e; subst e
      have := hF'.inj o o' b y y'
      subst this
      rw [x] at x'; exact Option.some.inj x'
  · apply All₂.map_same
    intro c hc
    have hd : ∀ o ∈ objsOfCall W c, ∃ a b, handleOf W f o = some a ∧ handleOf W f' o = some b := by
      intro o ho
      obtain ⟨a, ha⟩ := h2 c hc o ho
      obtain ⟨b, hb⟩ := h2' c hc o ho
      exact ⟨a, b, ha, hb⟩
    cases c with
    | tx i =>
      by_cases hr : inRange W i
      · obtain ⟨a, b, ha, hb⟩ := hd (.tx i.toNat) (by simp [objsOfCall, hr])
        simp only [render, hr, if_true, ResRel, true_and]
        exact ⟨_, by rw [ha]; rfl, by rw [hb]; rfl⟩
      · simp [render, hr, ResRel]
    | transactions =>
      simp only [render, ResRel]
      apply All₂.map_same
      intro k hk
      obtain ⟨a, b, ha, hb⟩ := hd (.tx k) (by simpa [objsOfCall] using hk)
      exact ⟨rfl, rfl, _, by rw [ha]; rfl, by rw [hb]; rfl⟩
    | txHash i =>
      by_cases hr : inRange W i
      · obtain ⟨a, b, ha, hb⟩ := hd (.txHash i.toNat) (by simp [objsOfCall, hr])
        simp only [render, hr, if_true, ResRel, true_and]
        exact ⟨_, by rw [ha]; rfl, by rw [hb]; rfl⟩
      · simp [render, hr, ResRel]
    | hash =>
      obtain ⟨a, b, ha, hb⟩ := hd .blockHash (by simp [objsOfCall])
      simp only [render, ResRel, true_and]
      exact ⟨_, by rw [ha]; rfl, by rw [hb]; rfl⟩
    | bytes =>
      obtain ⟨a, b, ha, hb⟩ := hd .bytes (by simp [objsOfCall])
      simp only [render, ResRel, true_and]
      exact ⟨_, by rw [ha]; rfl, by rw [hb]; rfl⟩
    | txLoc => simp [render, ResRel]

/-! ## the invariant spelled out on the raw state -/

theorem slotAt_of_raw {W : Wire} {s : St} {l : List (Option TxW)} {k : Nat} {w : TxW}
    (hl : s.txs = some l) (hk : l[k]? = some (some w)) : slotAt W s k = some w := by
  have hne : l.isEmpty = false := by
    cases l with
    | nil => simp at hk
    | cons _ _ => rfl
  rw [slotAt_some_iff]
  simp [slots, hl, hne, hk]

/-- what `Inv` says about the fields of the state, without the auxiliary `slots`/`handleOf` -/
theorem Inv.raw {W : Wire} {s : St} (hI : Inv W s) :
    (∀ l, s.txs = some l → l.length = numTx W ∨ l = []) ∧
    (s.txnsGenerated = true → ∃ l, s.txs.getD [] = l ∧ l.length = numTx W ∧
        ∀ k, k < numTx W → ∃ w, l[k]? = some (some w)) ∧
    (∀ b h, s.serialized = some (b, h) → b ≠ [] → b = W.ser ∧ h < s.next) ∧
    (∀ h, s.blockHash = some h → h < s.next) ∧
    (∀ b h h', s.serialized = some (b, h) → b ≠ [] → s.blockHash = some h' → h ≠ h') ∧
    (∀ (l : List (Option TxW)) (k : Nat) (w : TxW), s.txs = some l → l[k]? = some (some w) →
        w.index = (k : Int) ∧ w.handle < s.next ∧ s.blockHash ≠ some w.handle ∧
        (∀ b, b ≠ [] → s.serialized ≠ some (b, w.handle)) ∧
        ∀ h, w.hashHandle = some h → h < s.next ∧ h ≠ w.handle ∧ s.blockHash ≠ some h ∧
          ∀ b, b ≠ [] → s.serialized ≠ some (b, h)) ∧
    (∀ (l : List (Option TxW)) (k₁ k₂ : Nat) (w₁ w₂ : TxW), s.txs = some l →
        l[k₁]? = some (some w₁) → l[k₂]? = some (some w₂) → k₁ ≠ k₂ →
        w₁.handle ≠ w₂.handle ∧ w₁.hashHandle ≠ some w₂.handle ∧
        (∀ h, w₁.hashHandle = some h → w₂.hashHandle ≠ some h)) := by
  have hbytes : ∀ b h, s.serialized = some (b, h) → b ≠ [] → handleOf W s .bytes = some h := by
    intro b h hs hb
    have : b.length ≠ 0 := fun e => hb (List.eq_nil_of_length_eq_zero e)
    simp [handleOf, hs, this]
  have htx : ∀ k w, slotAt W s k = some w → handleOf W s (.tx k) = some w.handle := by
    intro k w h; simp [handleOf, h]
  have hth : ∀ k w h, slotAt W s k = some w → w.hashHandle = some h → handleOf W s (.txHash k) = some h := by
    intro k w h hw hh; simp [handleOf, hw, hh]
  refine ⟨?_, ?_, ?_, ?_, ?_, ?_, ?_⟩
  · intro l hl
    have := hI.len
    by_cases he : l.isEmpty
    · right; simpa using he
    · left; simpa [slots, hl, he] using this
  · intro hg
    obtain ⟨a, b⟩ := hI.gen hg
    refine ⟨_, a, hI.len, ?_⟩
    intro k hk
    obtain ⟨w, hw⟩ := b k hk
    exact ⟨w, slotAt_some_iff.mp hw⟩
  · intro b h hs hb
    exact ⟨hI.ser b h hs (fun e => hb (List.eq_nil_of_length_eq_zero e)), hI.lt _ _ (hbytes b h hs hb)⟩
  · intro h hb; exact hI.lt .blockHash h hb
  · intro b h h' hs hb hbh e
    subst e
    have := hI.inj .bytes .blockHash h (hbytes b h hs hb) hbh
    cases this
  · intro l k w hl hk
    have hw := slotAt_of_raw (W := W) hl hk
    refine ⟨hI.idx k w hw, hI.lt _ _ (htx k w hw), ?_, ?_, ?_⟩
    · intro e; have := hI.inj .blockHash (.tx k) _ e (htx k w hw); cases this
    · intro b hb e; have := hI.inj .bytes (.tx k) _ (hbytes b _ e hb) (htx k w hw); cases this
    · intro h hh
      refine ⟨hI.lt _ _ (hth k w h hw hh), ?_, ?_, ?_⟩
      · intro e; subst e; have := hI.inj (.txHash k) (.tx k) _ (hth k w _ hw hh) (htx k w hw); cases this
      · intro e; have := hI.inj .blockHash (.txHash k) _ e (hth k w h hw hh); cases this
      · intro b hb e; have := hI.inj .bytes (.txHash k) _ (hbytes b _ e hb) (hth k w h hw hh); cases this
  · intro l k₁ k₂ w₁ w₂ hl h₁ h₂ hne
    have hw₁ := slotAt_of_raw (W := W) hl h₁
    have hw₂ := slotAt_of_raw (W := W) hl h₂
    refine ⟨?_, ?_, ?_⟩
    · intro e
      have := hI.inj (.tx k₁) (.tx k₂) _ (htx k₁ w₁ hw₁) (by rw [e]; exact htx k₂ w₂ hw₂)
      cases this; exact hne rfl
    · intro e
      have := hI.inj (.txHash k₁) (.tx k₂) _ (hth k₁ w₁ _ hw₁ e) (htx k₂ w₂ hw₂)
      cases this
    · intro h e₁ e₂
      have := hI.inj (.txHash k₁) (.txHash k₂) _ (hth k₁ w₁ h hw₁ e₁) (hth k₂ w₂ h hw₂ e₂)
      cases this; exact hne rfl

/-! ## external laws of `wire` used as explicit hypotheses -/

/-- `locs` (offset, length) delimit the byte strings `txSer` inside `b` -/
def Delimits (locs : List (Nat × Nat)) (b : Bytes) (txSer : List Bytes) : Prop :=
  locs.length = txSer.length ∧
  ∀ (k : Nat) (loc : Nat × Nat) (t : Bytes), locs[k]? = some loc → txSer[k]? = some t → loc.2 = t.length ∧ (b.drop loc.1).take loc.2 = t

/-- external law of `wire.MsgBlock.DeserializeTxLoc`: the locations computed from the fresh
serialisation delimit each transaction's serialisation inside it -/
def LocsDelimit (W : Wire) (txSer : List Bytes) : Prop := Delimits W.txLocs W.ser txSer

/-- `NewBlockFromBytes`: deserialise, cache exactly the consumed prefix
(`serializedBlock[:len(serializedBlock)-br.Len()]`) -/
def newBlockFromBytes (deser : Bytes → Option (Wire × Bytes)) (input : Bytes) : Option (Wire × St) :=
  match deser input with
  | none => none
  | some (W', rest) => some (W', initBytes (input.take (input.length - rest.length)))

theorem newBlockFromBytes_ser {deser : Bytes → Option (Wire × Bytes)} {W : Wire}
    (hd : ∀ r, deser (W.ser ++ r) = some (W, r)) (trailing : Bytes) :
    newBlockFromBytes deser (W.ser ++ trailing) = some (W, initBytes W.ser) := by
  simp [newBlockFromBytes, hd]


/-! ## a concrete example used for the non-vacuity checks of C16 -/

/-- three transactions of 2, 3 and 1 bytes after a 4 byte "header" -/
def exW : Wire :=
  { ser := [0xAA, 0xBB, 0xCC, 0x03, 1, 2, 3, 4, 5, 6]
    hash := [0xB0]
    txHashes := [[0xA0], [0xA1], [0xA2]]
    txLocs := [(4, 2), (6, 3), (9, 1)] }

def exScript : List Call := [.tx 1, .txHash 1, .tx (-1), .transactions, .tx 3, .hash, .bytes, .txLoc, .tx 1, .hash]

/-- toy deserialiser: recognises `exW.ser` as a prefix and returns the rest -/
def exDeser (b : Bytes) : Option (Wire × Bytes) :=
  if b.take 10 = exW.ser then some (exW, b.drop 10) else none

end Bch.Proofs.BlockCache
