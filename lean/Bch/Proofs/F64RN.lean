import Bch.Proofs.F64Round
/-
  `IsRN` — the specification of correct rounding — and the proof that `roundScaled` meets it.
-/
namespace Bch.Proofs.F64
open Bch.Prim.F64

/-- `x` is a correctly rounded (round-to-nearest, ties-to-even-significand) binary64 image of the
rational `q`: `x` is finite, no finite float is strictly closer to `q`, if some other float value is
equally close then the significand of `x` is even (its lowest pattern bit is clear), and a non-zero `q`
gives its sign to `x` (also when the value underflows to zero). -/
def IsRN (q : ℚ) (x : UInt64) : Prop :=
  ∃ v, val x = some v ∧
    (∀ y w, val y = some w → |q - v| ≤ |q - w|) ∧
    (∀ y w, val y = some w → w ≠ v → |q - w| = |q - v| → x.toNat % 2 = 0) ∧
    (q < 0 → isNeg x = true) ∧ (0 < q → isNeg x = false)

theorem nearest_grid (q g : ℚ) (hg : 0 < g) (n k : ℤ) (hn : |q - n * g| ≤ g / 2) :
    |q - n * g| ≤ |q - k * g| ∧ (k ≠ n → |q - k * g| = |q - n * g| → |q - n * g| = g / 2) := by
  by_cases hkn : k = n
  · subst hkn; exact ⟨le_refl _, fun h => absurd rfl h⟩
  · have h1 : g ≤ |(k:ℚ) * g - n * g| := by
      rw [← sub_mul, abs_mul, abs_of_pos hg]
      have : (1:ℚ) ≤ |(k:ℚ) - n| := by
        have : (1:ℤ) ≤ |k - n| := Int.one_le_abs (sub_ne_zero.mpr hkn)
        exact_mod_cast this
      nlinarith
    have h2 : |(k:ℚ) * g - n * g| ≤ |(k:ℚ) * g - q| + |q - n * g| := abs_sub_le _ _ _
    rw [abs_sub_comm ((k:ℚ) * g) q] at h2
    constructor
    · linarith
    · intro _ heq; linarith

theorem nearest_unsigned (qa g : ℚ) (hg : 0 < g) (mant : ℕ) (P : Prop)
    (hn : |qa - mant * g| ≤ g / 2) (hnorm : P → 2^52 ≤ mant ∧ (2:ℚ)^52 * g ≤ qa) (w : ℚ)
    (hw : (∃ k : ℤ, w = k * g) ∨ (P ∧ |w| < 2^52 * g)) :
    |qa - mant * g| ≤ |qa - w| ∧ (w ≠ mant * g → |qa - w| = |qa - mant * g| → |qa - mant * g| = g / 2) := by
  rcases hw with ⟨k, rfl⟩ | ⟨hP, hw⟩
  · have := nearest_grid qa g hg (mant : ℤ) k (by simpa using hn)
    simp only [Int.cast_natCast] at this
    refine ⟨this.1, fun hne heq => this.2 ?_ heq⟩
    intro h; apply hne; rw [h]; simp
  · obtain ⟨hm, hq⟩ := hnorm hP
    have hstrict : |qa - mant * g| < |qa - w| := by
      have h1 : qa - 2^52 * g < |qa - w| := by
        have : qa - w ≤ |qa - w| := le_abs_self _
        have : w ≤ |w| := le_abs_self _
        linarith
      have h2 : |qa - mant * g| ≤ qa - 2^52 * g := by
        rcases Nat.eq_or_lt_of_le hm with h | h
        · rw [← h]; push_cast; rw [abs_of_nonneg (by linarith)]; norm_num
        · have : ((2:ℚ)^52 + 1) ≤ (mant:ℚ) := by exact_mod_cast h
          have := (abs_le.mp hn).1
          nlinarith
      linarith
    exact ⟨hstrict.le, fun _ heq => absurd heq (ne_of_gt hstrict)⟩

theorem float_grid (y : UInt64) (u : Int) (hu : -1074 ≤ u) :
    (∃ k : ℤ, fval y = k * 2^u) ∨ (-1074 < u ∧ |fval y| < 2^52 * 2^u) := by
  obtain ⟨hm, he⟩ := decodeAbs_bounds y
  by_cases h : u ≤ (decodeAbs y).2
  · left
    obtain ⟨d, hd⟩ : ∃ d : Nat, (decodeAbs y).2 = u + d := ⟨((decodeAbs y).2 - u).toNat, by omega⟩
    refine ⟨(if isNeg y then -1 else 1) * ((decodeAbs y).1 * 2^d : Nat), ?_⟩
    unfold fval sgnQ absval
    rw [hd, zpow_add₀ (by norm_num : (2:ℚ) ≠ 0), zpow_natCast]
    split <;> push_cast <;> ring
  · right
    refine ⟨by omega, ?_⟩
    rw [abs_fval]
    unfold absval
    have h1 : ((decodeAbs y).1 : ℚ) < 2^53 := by exact_mod_cast hm
    have h2 : (2:ℚ)^(decodeAbs y).2 ≤ 2^(u - 1) :=
      zpow_le_zpow_right₀ (by norm_num) (by omega)
    have h3 : (2:ℚ)^(u-1) = 2^u / 2 := by
      rw [zpow_sub₀ (by norm_num : (2:ℚ) ≠ 0)]; norm_num
    have h4 := two_zpow_pos (decodeAbs y).2
    have h5 := two_zpow_pos u
    calc ((decodeAbs y).1 : ℚ) * 2^(decodeAbs y).2 < 2^53 * 2^(decodeAbs y).2 :=
          mul_lt_mul_of_pos_right h1 h4
      _ ≤ 2^53 * (2^u / 2) := by rw [← h3]; exact mul_le_mul_of_nonneg_left h2 (by positivity)
      _ = 2^52 * 2^u := by ring


theorem fval_of_sign (x : UInt64) (sg : Bool) (h : isNeg x = sg) :
    fval x = (if sg then -1 else 1) * absval x := by
  unfold fval sgnQ; rw [h]

/-- Main theorem about the rounding routine: a finite result is the correctly rounded value. -/
theorem roundScaled_isRN (sg : Bool) (M : Nat) (e : Int) (sticky : Bool) (hM : M ≠ 0) (qa : ℚ)
    (hq1 : (M:ℚ) * 2^e ≤ qa) (hq2 : qa < ((M:ℚ) + 1) * 2^e) (hst : sticky = true ↔ qa ≠ (M:ℚ) * 2^e)
    (hstk : sticky = true → (2^54 ≤ M ∨ e < -1074))
    (hfin : isFinite (roundScaled sg M e sticky) = true) :
    IsRN (if sg then -qa else qa) (roundScaled sg M e sticky) := by
  obtain ⟨hr1, hr2, hm53, hnorm, _⟩ := rsMant_spec M e sticky hM qa hq1 hq2 hst hstk
  obtain ⟨hneg, habs, hpar⟩ := (roundScaled_spec sg M e sticky hM qa hq1 hq2 hst hstk).2 hfin
  set x := roundScaled sg M e sticky with hx
  set u := rsU M e with hu
  set mant := rsMant M e sticky with hmant
  have hg := two_zpow_pos u
  have hqa : 0 < qa := by
    have : (0:ℚ) < M := by exact_mod_cast Nat.pos_of_ne_zero hM
    have := two_zpow_pos e
    have : 0 < (M:ℚ) * 2^e := by positivity
    linarith
  have hfv : fval x = (if sg then -1 else 1) * ((mant:ℚ) * 2^u) := by
    rw [fval_of_sign x sg hneg, habs]
  -- the comparison with an arbitrary float
  have hcmp : ∀ y w, val y = some w →
      |(if sg then -qa else qa) - fval x| ≤ |(if sg then -qa else qa) - w| ∧
      (w ≠ fval x → |(if sg then -qa else qa) - w| = |(if sg then -qa else qa) - fval x| →
        |qa - (mant:ℚ) * 2^u| = 2^u / 2) := by
    intro y w hy
    obtain ⟨hyf, hyw⟩ := (val_eq_some_iff y w).mp hy
    have hgrid := float_grid y u (rsU_ge M e)
    rw [hyw] at hgrid
    cases sg
    · -- positive
      simp only [Bool.false_eq_true, if_false, one_mul] at hfv ⊢
      rw [hfv]
      exact nearest_unsigned qa (2^u) hg mant (-1074 < u) hr1 hnorm w hgrid
    · simp only [if_true] at hfv ⊢
      rw [hfv]
      have hgrid' : (∃ k : ℤ, -w = k * 2^u) ∨ (-1074 < u ∧ |(-w)| < 2^52 * 2^u) := by
        rcases hgrid with ⟨k, hk⟩ | h
        · left; exact ⟨-k, by rw [hk]; push_cast; ring⟩
        · right; rwa [abs_neg]
      have := nearest_unsigned qa (2^u) hg mant (-1074 < u) hr1 hnorm (-w) hgrid'
      have e1 : |(-qa) - -1 * ((mant:ℚ) * 2^u)| = |qa - (mant:ℚ) * 2^u| := by
        rw [← abs_neg]; congr 1; ring
      have e2 : |(-qa) - w| = |qa - -w| := by
        rw [← abs_neg]; congr 1; ring
      rw [e1, e2]
      refine ⟨this.1, fun hne heq => this.2 ?_ heq⟩
      intro h; apply hne; rw [← _root_.neg_neg w, h]; ring
  refine ⟨fval x, (val_eq_some_iff x _).mpr ⟨hfin, rfl⟩, fun y w hy => (hcmp y w hy).1, ?_, ?_, ?_⟩
  · intro y w hy hne heq
    have := hr2 ((hcmp y w hy).2 hne heq)
    omega
  · intro hq; cases sg
    · simp at hq; linarith
    · exact hneg
  · intro hq; cases sg
    · exact hneg
    · simp at hq; linarith

/-- Error of the rounding routine: half an ulp, relative `2^-53` in the normal range, exact when no
bits are shifted out. -/
theorem roundScaled_err (sg : Bool) (M : Nat) (e : Int) (sticky : Bool) (hM : M ≠ 0) (qa : ℚ)
    (hq1 : (M:ℚ) * 2^e ≤ qa) (hq2 : qa < ((M:ℚ) + 1) * 2^e) (hst : sticky = true ↔ qa ≠ (M:ℚ) * 2^e)
    (hstk : sticky = true → (2^54 ≤ M ∨ e < -1074))
    (hfin : isFinite (roundScaled sg M e sticky) = true) :
    fval (roundScaled sg M e sticky) = (if sg then -1 else 1) * absval (roundScaled sg M e sticky) ∧
    |qa - absval (roundScaled sg M e sticky)| ≤ 2^(rsU M e) / 2 ∧
    ((2:ℚ)^(-1022 : Int) ≤ qa → |qa - absval (roundScaled sg M e sticky)| ≤ qa / 2^53) ∧
    (rsU M e ≤ e → absval (roundScaled sg M e sticky) = qa) := by
  obtain ⟨hr1, _, _, hnorm, hex⟩ := rsMant_spec M e sticky hM qa hq1 hq2 hst hstk
  obtain ⟨hneg, habs, _⟩ := (roundScaled_spec sg M e sticky hM qa hq1 hq2 hst hstk).2 hfin
  refine ⟨fval_of_sign _ sg hneg, by rw [habs]; exact hr1, ?_, fun h => by rw [habs]; exact (hex h).symm⟩
  intro hbig
  rw [habs]
  -- normal range: rsU = e + bl - 53 and 2^52·2^u ≤ qa
  by_cases hu : -1074 < rsU M e
  · have := (hnorm hu).2
    have hg := two_zpow_pos (rsU M e)
    have : (2:ℚ)^(rsU M e) / 2 ≤ qa / 2^53 := by
      rw [div_le_div_iff₀ (by norm_num) (by positivity)]
      nlinarith
    linarith
  · -- rsU = -1074 = e + bl - 53 exactly; then mant ≥ 2^52 still holds via qa ≥ 2^-1022
    have hu' : rsU M e = -1074 := by have := rsU_ge M e; omega
    rw [hu'] at hr1 ⊢
    have : (2:ℚ)^(-1074 : Int) / 2 ≤ qa / 2^53 := by
      rw [div_le_div_iff₀ (by norm_num) (by positivity)]
      have : (2:ℚ)^(-1022 : Int) = 2^(-1074 : Int) * 2^52 := by
        rw [show (-1022 : Int) = -1074 + 52 by norm_num, zpow_add₀ (by norm_num : (2:ℚ) ≠ 0)]; norm_num
      nlinarith [two_zpow_pos (-1074)]
    linarith

end Bch.Proofs.F64
