import Bch.Proofs.GcsQuery
/-
Facts about filters produced by `BuildGCSFilter`: shape of the result, and what the four query
functions compute on them.
-/
namespace Bch.Proofs.Gcs
open Bch Bch.Model.Gcs

/-- the sorted hashed values of a data list -/
def valuesOf (sip : Bytes → UInt64) (M : UInt64) (data : List Bytes) : List UInt64 :=
  sortU64 (data.map (hashToRange sip (UInt64.ofNat data.length * M)))

theorem sortU64_nil : sortU64 [] = [] := by simp [sortU64]

theorem build_ok_iff (sip : Bytes → UInt64) (P : Nat) (M : UInt64) (data : List Bytes) (f : Filter) :
    BuildGCSFilter sip P M data = .ok f ↔
      data.length < 2^32 ∧ P ≤ 32 ∧
      f = ⟨data.length, P, UInt64.ofNat data.length * M,
            packBits (encodeSorted P 0 (valuesOf sip M data))⟩ := by
  unfold BuildGCSFilter
  by_cases h1 : data.length ≥ 2^32
  · simp only [if_pos h1]
    constructor
    · intro h; cases h
    · intro ⟨h, _⟩; omega
  · rw [if_neg h1]
    by_cases h2 : P > 32
    · simp only [if_pos h2]
      constructor
      · intro h; cases h
      · intro ⟨_, h, _⟩; omega
    · rw [if_neg h2]
      have e0 : (if data.length = 0 then
          (Except.ok ⟨0, P, UInt64.ofNat data.length * M, []⟩ : Except BuildErr Filter)
          else .ok ⟨data.length, P, UInt64.ofNat data.length * M,
            packBits (encodeSorted P 0 (valuesOf sip M data))⟩)
          = .ok ⟨data.length, P, UInt64.ofNat data.length * M,
            packBits (encodeSorted P 0 (valuesOf sip M data))⟩ := by
        split
        · next h0 =>
          have : data = [] := List.eq_nil_of_length_eq_zero h0
          subst this
          simp [valuesOf, sortU64_nil, encodeSorted, packBits]
        · rfl
      show (if data.length = 0 then
          (Except.ok ⟨0, P, UInt64.ofNat data.length * M, []⟩ : Except BuildErr Filter)
          else .ok ⟨data.length, P, UInt64.ofNat data.length * M,
            packBits (encodeSorted P 0 (valuesOf sip M data))⟩) = .ok f ↔ _
      rw [e0]
      constructor
      · intro h; injection h with h; exact ⟨by omega, by omega, h.symm⟩
      · intro ⟨_, _, h⟩; rw [h]

theorem build_error_iff (sip : Bytes → UInt64) (P : Nat) (M : UInt64) (data : List Bytes) :
    (BuildGCSFilter sip P M data = .error .nTooBig ↔ data.length ≥ 2^32) ∧
    (BuildGCSFilter sip P M data = .error .pTooBig ↔ data.length < 2^32 ∧ P > 32) := by
  unfold BuildGCSFilter
  by_cases h1 : data.length ≥ 2^32
  · rw [if_pos h1]
    exact ⟨⟨fun _ => h1, fun _ => rfl⟩, ⟨fun h => (by cases h), fun ⟨h, _⟩ => by omega⟩⟩
  · rw [if_neg h1]
    by_cases h2 : P > 32
    · rw [if_pos h2]
      exact ⟨⟨fun h => (by cases h), fun h => absurd h h1⟩, ⟨fun _ => ⟨by omega, h2⟩, fun _ => rfl⟩⟩
    · rw [if_neg h2]
      refine ⟨⟨fun h => ?_, fun h => absurd h h1⟩, ⟨fun h => ?_, fun ⟨_, h⟩ => absurd h h2⟩⟩
      · revert h; simp only; split <;> intro h <;> cases h
      · revert h; simp only; split <;> intro h <;> cases h

theorem valuesOf_sorted (sip : Bytes → UInt64) (M : UInt64) (data : List Bytes) :
    Sorted (valuesOf sip M data) := sortU64_sorted _

theorem valuesOf_length (sip : Bytes → UInt64) (M : UInt64) (data : List Bytes) :
    (valuesOf sip M data).length = data.length := by
  simp [valuesOf, sortU64_length]

theorem mem_valuesOf (sip : Bytes → UInt64) (M : UInt64) (data : List Bytes) (x : UInt64) :
    x ∈ valuesOf sip M data ↔
      ∃ d ∈ data, hashToRange sip (UInt64.ofNat data.length * M) d = x := by
  simp [valuesOf, mem_sortU64]

section built
variable {sip : Bytes → UInt64} {P : Nat} {M : UInt64} {data : List Bytes} {f : Filter}

theorem Match_built (hb : BuildGCSFilter sip P M data = .ok f) (x : Bytes) :
    Match sip f x = decide (hashToRange sip f.modulusNP x ∈ valuesOf sip M data) := by
  obtain ⟨_, hP, rfl⟩ := (build_ok_iff ..).mp hb
  obtain ⟨k, _, _, e⟩ := unpack_pack (encodeSorted P 0 (valuesOf sip M data))
  unfold Match
  simp only
  rw [e, ← valuesOf_length sip M data]
  exact matchLoop_spec P hP _ _ (valuesOf_sorted ..) 0 _

theorem ZipMatchAny_built (hb : BuildGCSFilter sip P M data = .ok f) (q : List Bytes) :
    ZipMatchAny sip f q
      = q.any (fun x => decide (hashToRange sip f.modulusNP x ∈ valuesOf sip M data)) := by
  obtain ⟨_, hP, rfl⟩ := (build_ok_iff ..).mp hb
  obtain ⟨k, _, _, e⟩ := unpack_pack (encodeSorted P 0 (valuesOf sip M data))
  unfold ZipMatchAny
  cases q with
  | nil => simp
  | cons a q =>
    simp only [List.isEmpty_cons, Bool.false_eq_true, if_false]
    rw [e, ← valuesOf_length sip M data,
      zipLoop_spec P hP _ (valuesOf_sorted ..) 0 _ _ (sortU64_sorted _)]
    rw [Bool.eq_iff_iff, List.any_eq_true, List.any_eq_true]
    simp only [decide_eq_true_eq, mem_sortU64, List.mem_map]
    constructor
    · rintro ⟨v, hv, d, hd, rfl⟩; exact ⟨d, hd, hv⟩
    · rintro ⟨d, hd, hv⟩; exact ⟨_, hv, d, hd, rfl⟩

theorem HashMatchAny_built (hb : BuildGCSFilter sip P M data = .ok f) (q : List Bytes) :
    HashMatchAny sip f q
      = q.any (fun x => decide (hashToRange sip f.modulusNP x ∈ valuesOf sip M data)) := by
  obtain ⟨_, hP, rfl⟩ := (build_ok_iff ..).mp hb
  unfold HashMatchAny
  cases q with
  | nil => simp
  | cons a q =>
    simp only [List.isEmpty_cons, Bool.false_eq_true, if_false]
    refine any_congr_mem (fun x _ => ?_)
    rw [List.contains_eq_mem]
    apply decide_eq_decide.mpr
    by_cases hne : valuesOf sip M data = []
    · rw [hne]
      simp [encodeSorted, packBits, unpackBits, decodeAll, readFull, readUnary]
    · obtain ⟨k, _, _, e⟩ := unpack_pack (encodeSorted P 0 (valuesOf sip M data))
      rw [e]
      exact mem_decodeAll P hP _ hne k _ (Nat.lt_succ_self _) _

theorem MatchAny_built (hb : BuildGCSFilter sip P M data = .ok f) (q : List Bytes) :
    MatchAny sip f q
      = q.any (fun x => decide (hashToRange sip f.modulusNP x ∈ valuesOf sip M data)) := by
  unfold MatchAny
  split
  · exact HashMatchAny_built hb q
  · exact ZipMatchAny_built hb q

theorem member_hash_mem (hb : BuildGCSFilter sip P M data = .ok f) {d : Bytes} (hd : d ∈ data) :
    hashToRange sip f.modulusNP d ∈ valuesOf sip M data := by
  obtain ⟨_, _, rfl⟩ := (build_ok_iff ..).mp hb
  exact (mem_valuesOf ..).mpr ⟨d, hd, rfl⟩

end built

end Bch.Proofs.Gcs
