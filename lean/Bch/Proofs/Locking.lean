import Bch.Model.Locking
/-
C20 — interleaving semantics for mutex-protected method skeletons and the generic lemmas behind
`Bch/Props/C20.lean` (mutual exclusion, data-race freedom, linearizability in lock order).

Modelling choices (all documented where they are made):
* a program is a list of threads, a thread a list of invocations, an invocation a skeleton
  `List Act` (the REMAINING actions while it runs) plus an abstract sequential operation `op`;
* the sequential effect `step st op` of an invocation happens atomically at its FIRST `access`
  (later `access` actions of the same invocation are plain events); an invocation that never reaches
  an `access` has no effect.  The atomicity of the effect is exactly what data-race freedom
  (`drf`) justifies: between the `lock` and the `unlock` around an access no other thread accesses;
* falling off the end of a skeleton is an implicit `ret`; `opaque` has no rule (the thread is
  stuck) — irrelevant for well-bracketed skeletons, which contain no reachable `opaque`;
* the trace is oldest-first; an event records thread, invocation index within the thread, the
  invocation's operation, the action, the mutex holder BEFORE the action, and whether this action
  performed the invocation's effect.
-/
namespace Bch.Proofs.Locking
open Bch.Model.Locking

/-- a method invocation: (remaining) skeleton and the abstract sequential operation it performs -/
structure Invoc (Op : Type) where
  sk : List Act
  op : Op

/-- thread-local state: pending invocations (head = current, its `sk` = actions still to run),
    index of the current invocation, and whether it has already performed its effect -/
structure Thread (Op : Type) where
  pend : List (Invoc Op)
  n : Nat
  done : Bool

structure Event (Op : Type) where
  tid : Nat
  inv : Nat
  op : Op
  act : Act
  /-- mutex holder before the action -/
  holder : Option Nat
  /-- this action performed the invocation's sequential effect (its first `access`) -/
  eff : Bool

structure Config (σ Op Res : Type) where
  holder : Option Nat
  st : σ
  thr : Nat → Thread Op
  /-- recorded results: (thread, invocation index, result) in the order they were produced -/
  res : List (Nat × Nat × Res)
  tr : List (Event Op)

def upd {α : Type} (f : Nat → α) (t : Nat) (x : α) : Nat → α := fun s => if s = t then x else f s

@[simp] theorem upd_same {α : Type} (f : Nat → α) (t : Nat) (x : α) : upd f t x t = x := by simp [upd]
theorem upd_other {α : Type} (f : Nat → α) {t s : Nat} (x : α) (h : s ≠ t) : upd f t x s = f s := by
  simp [upd, h]

/-- next action of a thread, the operation of the invocation it belongs to, and the thread state
    afterwards (purely local; `ret` and the end of the body finish the invocation) -/
def Thread.next {Op : Type} (th : Thread Op) : Option (Act × Op × Thread Op) :=
  match th.pend with
  | [] => none
  | ⟨[], op⟩ :: rest => some (.ret, op, ⟨rest, th.n + 1, false⟩)
  | ⟨.ret :: _, op⟩ :: rest => some (.ret, op, ⟨rest, th.n + 1, false⟩)
  | ⟨a :: sk, op⟩ :: rest => some (a, op, ⟨⟨sk, op⟩ :: rest, th.n, th.done || a == .access⟩)

/-- the mutex rule -/
def enabled (h : Option Nat) (t : Nat) : Act → Bool
  | .lock => h == none
  | .unlock => h == some t
  | .opaque => false
  | _ => true

def newHolder (h : Option Nat) (t : Nat) : Act → Option Nat
  | .lock => some t
  | .unlock => none
  | _ => h

section Sem
variable {σ Op Res : Type} (step : σ → Op → σ × Res)

/-- thread `t` executes its next action (if it has one and the mutex rule allows it) -/
def stepT (c : Config σ Op Res) (t : Nat) : Option (Config σ Op Res) :=
  match (c.thr t).next with
  | none => none
  | some (a, op, th') =>
    let eff := a == .access && !(c.thr t).done
    if enabled c.holder t a then
      some { holder := newHolder c.holder t a
             st := if eff then (step c.st op).1 else c.st
             thr := upd c.thr t th'
             res := if eff then c.res ++ [(t, (c.thr t).n, (step c.st op).2)] else c.res
             tr := c.tr ++ [⟨t, (c.thr t).n, op, a, c.holder, eff⟩] }
    else none

/-- initial configuration of program `P` (thread `t` runs `P[t]`) on shared state `s0` -/
def init (P : List (List (Invoc Op))) (s0 : σ) : Config σ Op Res :=
  ⟨none, s0, fun t => ⟨P.getD t [], 0, false⟩, [], []⟩

/-- configurations reachable from `c0` by interleaving thread steps -/
inductive Reach (c0 : Config σ Op Res) : Config σ Op Res → Prop
  | refl : Reach c0 c0
  | step {c c'} (t : Nat) : Reach c0 c → stepT step c t = some c' → Reach c0 c'

/-- run a schedule (list of thread ids); `none` if some step is not enabled -/
def runSched (c : Config σ Op Res) : List Nat → Option (Config σ Op Res)
  | [] => some c
  | t :: ts => (stepT step c t).bind (runSched · ts)

theorem runSched_reach {c0 c : Config σ Op Res} (hc : Reach step c0 c) :
    ∀ (s : List Nat) (c' : Config σ Op Res), runSched step c s = some c' → Reach step c0 c' := by
  intro s
  induction s generalizing c with
  | nil => intro c' h; cases h; exact hc
  | cons t ts ih =>
    intro c' h
    simp only [runSched] at h
    cases hs : stepT step c t with
    | none => simp [hs] at h
    | some c1 => rw [hs] at h; exact ih (Reach.step t hc hs) c' h

/-- all threads have finished all their invocations -/
def Complete (c : Config σ Op Res) : Prop := ∀ t, (c.thr t).pend = []

/-- all skeletons of the program are well bracketed -/
def WB (P : List (List (Invoc Op))) : Prop := ∀ th ∈ P, ∀ i ∈ th, wellBracketed i.sk = true

end Sem

/-! ## trace positions -/

theorem snoc_get {α : Type} {tr : List α} {e a : α} {p : Nat} (h : (tr ++ [e])[p]? = some a) :
    (p < tr.length ∧ tr[p]? = some a) ∨ (p = tr.length ∧ a = e) := by
  by_cases hp : p < tr.length
  · rw [List.getElem?_append_left hp] at h; exact Or.inl ⟨hp, h⟩
  · rw [List.getElem?_append_right (by omega)] at h
    have : p - tr.length = 0 := by
      cases hq : p - tr.length with
      | zero => rfl
      | succ k => rw [hq] at h; simp at h
    rw [this] at h
    simp at h
    exact Or.inr ⟨by omega, h.symm⟩

theorem get_snoc {α : Type} {tr : List α} {a : α} {p : Nat} (e : α) (h : tr[p]? = some a) :
    (tr ++ [e])[p]? = some a := by
  have hp : p < tr.length := by
    rcases Nat.lt_or_ge p tr.length with h' | h'
    · exact h'
    · rw [List.getElem?_eq_none h'] at h; cases h
  rw [List.getElem?_append_left hp]; exact h

theorem get_lt {α : Type} {tr : List α} {a : α} {p : Nat} (h : tr[p]? = some a) : p < tr.length := by
  rcases Nat.lt_or_ge p tr.length with h' | h'
  · exact h'
  · rw [List.getElem?_eq_none h'] at h; cases h

theorem get_last {α : Type} (tr : List α) (e : α) : (tr ++ [e])[tr.length]? = some e := by
  simp

/-! ## mutex layer: data-race freedom on traces -/

section Mutex
variable {Op : Type}

/-- positions `p < u < l < p'`: an `unlock` by thread `t` at `u` and a `lock` by thread `t'` at `l` -/
def Sep (tr : List (Event Op)) (p : Nat) (t : Nat) (p' : Nat) (t' : Nat) : Prop :=
  ∃ u l b d, p < u ∧ u < l ∧ l < p' ∧ tr[u]? = some b ∧ b.act = .unlock ∧ b.tid = t ∧
    tr[l]? = some d ∧ d.act = .lock ∧ d.tid = t'

theorem Sep.snoc {tr : List (Event Op)} {p t p' t'} (e : Event Op) (h : Sep tr p t p' t') :
    Sep (tr ++ [e]) p t p' t' := by
  obtain ⟨u, l, b, d, h1, h2, h3, h4, h5, h6, h7, h8, h9⟩ := h
  exact ⟨u, l, b, d, h1, h2, h3, get_snoc e h4, h5, h6, get_snoc e h7, h8, h9⟩

theorem Sep.mono {tr : List (Event Op)} {p t p' t' q} (h : Sep tr p t p' t') (hq : p' ≤ q) :
    Sep tr p t q t' := by
  obtain ⟨u, l, b, d, h1, h2, h3, r⟩ := h
  exact ⟨u, l, b, d, h1, h2, by omega, r⟩

/-- invariant of the mutex layer (trace and current holder) -/
structure MInv (tr : List (Event Op)) (h : Option Nat) : Prop where
  /-- an access of `t` is followed by an `unlock` of `t` as soon as `t` no longer holds the mutex -/
  k2 : ∀ (p : Nat) (a : Event Op), tr[p]? = some a → a.act = .access → h ≠ some a.tid →
    ∃ (u : Nat) (b : Event Op), p < u ∧ tr[u]? = some b ∧ b.act = .unlock ∧ b.tid = a.tid
  /-- while `t'` holds the mutex, every earlier access of another thread is separated from now -/
  k : ∀ (p : Nat) (a : Event Op) (t' : Nat), tr[p]? = some a → a.act = .access → h = some t' → t' ≠ a.tid →
    Sep tr p a.tid tr.length t'
  /-- data-race freedom -/
  d : ∀ (p p' : Nat) (a a' : Event Op), p < p' → tr[p]? = some a → tr[p']? = some a' → a.act = .access →
    a'.act = .access → a.tid ≠ a'.tid → Sep tr p a.tid p' a'.tid

theorem MInv.nil : MInv ([] : List (Event Op)) none :=
  ⟨by intro p a h; simp at h, by intro p a t' h; simp at h, by intro p p' a a' _ h; simp at h⟩

theorem MInv.snoc {tr : List (Event Op)} {h h' : Option Nat} (hi : MInv tr h) (e : Event Op)
    (hl : e.act = .lock → h = none ∧ h' = some e.tid)
    (hu : e.act = .unlock → h = some e.tid ∧ h' = none)
    (ho : e.act ≠ .lock → e.act ≠ .unlock → h' = h)
    (ha : e.act = .access → h = some e.tid) : MInv (tr ++ [e]) h' := by
  refine ⟨?_, ?_, ?_⟩
  · intro p a hp hacc hne
    rcases snoc_get hp with ⟨_, hp⟩ | ⟨rfl, rfl⟩
    · by_cases hh : h = some a.tid
      · -- the holder changed: this step is the unlock by `a.tid`
        by_cases h1 : e.act = .lock
        · have := (hl h1).1; rw [this] at hh; cases hh
        · by_cases h2 : e.act = .unlock
          · have := (hu h2).1
            rw [this] at hh
            exact ⟨tr.length, e, get_lt hp, get_last tr e, h2, (Option.some.inj hh)⟩
          · rw [ho h1 h2] at hne; exact absurd hh hne
      · obtain ⟨u, b, h1, h2, h3, h4⟩ := hi.k2 p a hp hacc hh
        exact ⟨u, b, h1, get_snoc e h2, h3, h4⟩
    · -- the new event is an access: its thread holds the mutex before and after
      have := ha hacc
      have h1 : a.act ≠ .lock := by rw [hacc]; decide
      have h2 : a.act ≠ .unlock := by rw [hacc]; decide
      rw [ho h1 h2] at hne; exact absurd this hne
  · intro p a t' hp hacc hh hne
    rcases snoc_get hp with ⟨_, hp⟩ | ⟨rfl, rfl⟩
    · by_cases h1 : e.act = .lock
      · obtain ⟨hn, hs⟩ := hl h1
        rw [hs] at hh
        have ht : e.tid = t' := Option.some.inj hh
        obtain ⟨u, b, g1, g2, g3, g4⟩ := hi.k2 p a hp hacc (by rw [hn]; simp)
        refine ⟨u, tr.length, b, e, g1, get_lt g2, by simp, get_snoc e g2, g3, g4, get_last tr e, h1, ht⟩
      · by_cases h2 : e.act = .unlock
        · rw [(hu h2).2] at hh; cases hh
        · rw [ho h1 h2] at hh
          exact ((hi.k p a t' hp hacc hh hne).snoc e).mono (by simp)
    · have := ha hacc
      have h1 : a.act ≠ .lock := by rw [hacc]; decide
      have h2 : a.act ≠ .unlock := by rw [hacc]; decide
      rw [ho h1 h2, this] at hh
      exact absurd (Option.some.inj hh).symm hne
  · intro p p' a a' hlt hp hp' hacc hacc' hne
    rcases snoc_get hp' with ⟨_, hp'⟩ | ⟨rfl, rfl⟩
    · rcases snoc_get hp with ⟨_, hp⟩ | ⟨rfl, rfl⟩
      · exact (hi.d p p' a a' hlt hp hp' hacc hacc' hne).snoc e
      · have := get_lt hp'; omega
    · rcases snoc_get hp with ⟨_, hp⟩ | ⟨rfl, rfl⟩
      · exact (hi.k p a a'.tid hp hacc (ha hacc') (Ne.symm hne)).snoc a'
      · omega

/-- thread `t` is inside a critical section: its last mutex event in the trace is a `lock` -/
def inCS (t : Nat) (tr : List (Event Op)) : Bool :=
  tr.foldl (fun b e => if e.tid = t then
    (match e.act with | .lock => true | .unlock => false | _ => b) else b) false

theorem inCS_snoc (t : Nat) (tr : List (Event Op)) (e : Event Op) :
    inCS t (tr ++ [e]) = if e.tid = t then
      (match e.act with | .lock => true | .unlock => false | _ => inCS t tr) else inCS t tr := by
  simp [inCS, List.foldl_append]

end Mutex

/-! ## shape of a step -/

section Shape
variable {σ Op Res : Type} {step : σ → Op → σ × Res}

theorem stepT_some {c c' : Config σ Op Res} {t : Nat} (h : stepT step c t = some c') :
    ∃ a op th', (c.thr t).next = some (a, op, th') ∧ enabled c.holder t a = true ∧
      c' = { holder := newHolder c.holder t a
             st := if (a == .access && !(c.thr t).done) then (step c.st op).1 else c.st
             thr := upd c.thr t th'
             res := if (a == .access && !(c.thr t).done)
               then c.res ++ [(t, (c.thr t).n, (step c.st op).2)] else c.res
             tr := c.tr ++ [⟨t, (c.thr t).n, op, a, c.holder, a == .access && !(c.thr t).done⟩] } := by
  unfold stepT at h
  split at h
  · cases h
  · rename_i a op th' hn
    split at h
    · rename_i he
      exact ⟨a, op, th', hn, he, (Option.some.inj h).symm⟩
    · cases h

theorem next_some {th : Thread Op} {a : Act} {op : Op} {th' : Thread Op}
    (h : th.next = some (a, op, th')) :
    ∃ i rest, th.pend = i :: rest ∧ i.op = op ∧
      ((a = .ret ∧ (i.sk = [] ∨ ∃ sk, i.sk = .ret :: sk) ∧ th' = ⟨rest, th.n + 1, false⟩) ∨
       (a ≠ .ret ∧ ∃ sk, i.sk = a :: sk ∧
          th' = ⟨⟨sk, op⟩ :: rest, th.n, th.done || a == .access⟩)) := by
  unfold Thread.next at h
  split at h
  · cases h
  · rename_i op' rest hp
    cases h
    exact ⟨_, _, hp, rfl, Or.inl ⟨rfl, Or.inl rfl, rfl⟩⟩
  · rename_i sk op' rest hp
    cases h
    exact ⟨_, _, hp, rfl, Or.inl ⟨rfl, Or.inr ⟨sk, rfl⟩, rfl⟩⟩
  · rename_i a' sk op' rest hne hp
    cases h
    refine ⟨_, _, hp, rfl, Or.inr ⟨?_, sk, rfl, rfl⟩⟩
    intro e; subst e; exact hne rfl

theorem enabled_lock {h : Option Nat} {t : Nat} (he : enabled h t .lock = true) : h = none := by
  simpa [enabled] using he
theorem enabled_unlock {h : Option Nat} {t : Nat} (he : enabled h t .unlock = true) : h = some t := by
  simpa [enabled] using he

end Shape

/-! ## thread invariant for well-bracketed programs -/

section TI
variable {σ Op Res : Type} {step : σ → Op → σ × Res}

/-- the rest of the current skeleton is well bracketed from the thread's actual mutex state, the
    pending skeletons are well bracketed; a finished thread does not hold the mutex -/
def thrOK (held : Bool) (th : Thread Op) : Prop :=
  match th.pend with
  | [] => held = false
  | i :: rest => wellBracketedFrom held i.sk = true ∧ ∀ j ∈ rest, wellBracketed j.sk = true

def TI (c : Config σ Op Res) : Prop := ∀ t, thrOK (c.holder == some t) (c.thr t)

theorem TI_init (P : List (List (Invoc Op))) (s0 : σ) (h : WB P) :
    TI (init P s0 : Config σ Op Res) := by
  intro t
  have hall : ∀ i ∈ P.getD t [], wellBracketed i.sk = true := by
    intro i hi
    rw [List.getD_eq_getElem?_getD] at hi
    cases hg : P[t]? with
    | none => rw [hg] at hi; simp at hi
    | some th => rw [hg] at hi; exact h th (List.mem_of_getElem? hg) i hi
  simp only [init, thrOK]
  generalize P.getD t [] = l at hall
  cases l with
  | nil => simp
  | cons i rest =>
    exact ⟨hall i (by simp), fun j hj => hall j (by simp [hj])⟩

/-- an `access` is only executed by the mutex holder -/
theorem TI_access {c : Config σ Op Res} {t : Nat} {op : Op} {th' : Thread Op} (hti : TI c)
    (hn : (c.thr t).next = some (.access, op, th')) : c.holder = some t := by
  obtain ⟨i, rest, hp, _, hcase⟩ := next_some hn
  have h := hti t
  simp only [thrOK, hp] at h
  rcases hcase with ⟨e, _⟩ | ⟨_, sk, hsk, _⟩
  · cases e
  · rw [hsk] at h
    have h1 := h.1
    simp [wellBracketedFrom] at h1
    exact h1.1

/-- a `ret` (explicit or implicit) is only executed by a thread that does not hold the mutex -/
theorem TI_ret {c : Config σ Op Res} {t : Nat} {op : Op} {th' : Thread Op} (hti : TI c)
    (hn : (c.thr t).next = some (.ret, op, th')) : c.holder ≠ some t := by
  obtain ⟨i, rest, hp, _, hcase⟩ := next_some hn
  have h := hti t
  simp only [thrOK, hp] at h
  rcases hcase with ⟨_, hsk, _⟩ | ⟨e, _⟩
  · rcases hsk with e | ⟨sk, e⟩ <;> rw [e] at h <;> simpa [wellBracketedFrom] using h.1
  · exact absurd rfl e

theorem TI_step {c c' : Config σ Op Res} {t : Nat} (hti : TI c) (h : stepT step c t = some c') :
    TI c' := by
  obtain ⟨a, op, th', hn, he, rfl⟩ := stepT_some h
  intro s
  by_cases hs : s = t
  · subst hs
    simp only [upd_same]
    obtain ⟨i, rest, hp, hop, hcase⟩ := next_some hn
    have h0 := hti s
    simp only [thrOK, hp] at h0
    obtain ⟨hw, hrest⟩ := h0
    rcases hcase with ⟨rfl, hsk, rfl⟩ | ⟨hne, sk, hsk, rfl⟩
    · have hheld : (c.holder == some s) = false := by
        rcases hsk with e | ⟨sk, e⟩ <;> rw [e] at hw <;> simpa [wellBracketedFrom] using hw
      simp only [newHolder, thrOK]
      cases rest with
      | nil => exact hheld
      | cons j r =>
        exact ⟨by rw [hheld]; exact hrest j (by simp), fun k hk => hrest k (by simp [hk])⟩
    · rw [hsk] at hw
      simp only [thrOK]
      refine ⟨?_, hrest⟩
      cases a <;> simp_all [wellBracketedFrom, enabled, newHolder]
      obtain ⟨h1, h2⟩ := hw
      simpa [h1] using h2
  · have hh : (newHolder c.holder t a == some s) = (c.holder == some s) := by
      cases a <;> simp_all [enabled, newHolder]
      · intro e; exact hs e.symm
      · intro e; exact hs e.symm
    simp only [upd_other _ _ hs, hh]
    exact hti s

end TI

/-! ## invariants that hold for every program -/

section AllPrograms
variable {σ Op Res : Type} {step : σ → Op → σ × Res}

/-- the invocations (thread, index, operation) in the order in which they took effect -/
def effInvs (tr : List (Event Op)) : List (Nat × Nat × Op) :=
  (tr.filter (·.eff)).map fun e => (e.tid, e.inv, e.op)

/-- sequential execution of a list of invocations: final state and the log of results -/
def seqRun (step : σ → Op → σ × Res) (s0 : σ) (l : List (Nat × Nat × Op)) :
    σ × List (Nat × Nat × Res) :=
  l.foldl (fun acc x => ((step acc.1 x.2.2).1, acc.2 ++ [(x.1, x.2.1, (step acc.1 x.2.2).2)]))
    (s0, [])

theorem effInvs_snoc (tr : List (Event Op)) (e : Event Op) :
    effInvs (tr ++ [e]) = effInvs tr ++ (if e.eff then [(e.tid, e.inv, e.op)] else []) := by
  unfold effInvs
  rw [List.filter_append, List.map_append]
  cases h : e.eff <;> simp [h]

theorem seqRun_snoc (s0 : σ) (l : List (Nat × Nat × Op)) (x : Nat × Nat × Op) :
    seqRun step s0 (l ++ [x]) =
      ((step (seqRun step s0 l).1 x.2.2).1,
        (seqRun step s0 l).2 ++ [(x.1, x.2.1, (step (seqRun step s0 l).1 x.2.2).2)]) := by
  simp [seqRun, List.foldl_append]

/-- mutual exclusion bookkeeping: `t` is inside a critical section iff it is the holder -/
def MEInv (c : Config σ Op Res) : Prop := ∀ t, inCS t c.tr = true ↔ c.holder = some t

/-- the shared state and the recorded results are those of the sequential run of the invocations
    in the order of their effects -/
def SeqInv (s0 : σ) (c : Config σ Op Res) : Prop := (c.st, c.res) = seqRun step s0 (effInvs c.tr)

/-- an effect event belongs to a finished invocation or to the current one, which is then marked -/
def EffInv (c : Config σ Op Res) : Prop :=
  ∀ e ∈ c.tr, e.eff = true →
    e.inv < (c.thr e.tid).n ∨ (e.inv = (c.thr e.tid).n ∧ (c.thr e.tid).done = true)

theorem MEInv_step {c c' : Config σ Op Res} {t : Nat} (hi : MEInv c)
    (h : stepT step c t = some c') : MEInv c' := by
  obtain ⟨a, op, th', hn, he, rfl⟩ := stepT_some h
  intro s
  simp only [inCS_snoc]
  by_cases hs : t = s
  · subst hs
    cases a <;> simp_all [enabled, newHolder] <;> exact hi t
  · have := hi s
    cases a <;> simp_all [enabled, newHolder]

theorem SeqInv_step {s0 : σ} {c c' : Config σ Op Res} {t : Nat} (hi : SeqInv (step := step) s0 c)
    (h : stepT step c t = some c') : SeqInv (step := step) s0 c' := by
  obtain ⟨a, op, th', hn, he, rfl⟩ := stepT_some h
  unfold SeqInv at hi ⊢
  simp only [effInvs_snoc]
  cases hb : (a == Act.access && !(c.thr t).done)
  · simpa using hi
  · simp only [if_true, seqRun_snoc, ← hi]

theorem EffInv_step {c c' : Config σ Op Res} {t : Nat} (hi : EffInv c)
    (h : stepT step c t = some c') : EffInv c' := by
  obtain ⟨a, op, th', hn, he, rfl⟩ := stepT_some h
  obtain ⟨i, rest, hp, hop, hcase⟩ := next_some hn
  intro e hmem heff
  simp only [List.mem_append, List.mem_singleton] at hmem
  rcases hmem with hmem | rfl
  · have h0 := hi e hmem heff
    by_cases hs : e.tid = t
    · rw [hs] at h0 ⊢
      simp only [upd_same]
      rcases hcase with ⟨_, _, rfl⟩ | ⟨_, sk, _, rfl⟩
      · simp only; omega
      · simp only
        rcases h0 with h0 | ⟨h1, h2⟩
        · exact Or.inl h0
        · exact Or.inr ⟨h1, by simp [h2]⟩
    · simp only [upd_other _ _ hs]; exact h0
  · simp only [upd_same]
    simp only [Bool.and_eq_true, beq_iff_eq] at heff
    rcases hcase with ⟨e, _⟩ | ⟨_, sk, _, rfl⟩
    · rw [e] at heff; cases heff.1
    · exact Or.inr ⟨rfl, by simp [heff.1]⟩

/-- the skeleton reaches an `access` (before any `ret`), i.e. the invocation has an effect -/
def effectful : List Act → Bool
  | [] => false
  | .access :: _ => true
  | .ret :: _ => false
  | .opaque :: _ => false
  | _ :: r => effectful r

/-- (index, operation) of the effectful invocations of a thread, indices starting at `n` -/
def expected (n : Nat) : List (Invoc Op) → List (Nat × Op)
  | [] => []
  | i :: r => (if effectful i.sk then [(n, i.op)] else []) ++ expected (n + 1) r

/-- the effects a thread still has to perform -/
def todo (th : Thread Op) : List (Nat × Op) :=
  match th.pend with
  | [] => []
  | i :: r => (if !th.done && effectful i.sk then [(th.n, i.op)] else []) ++ expected (th.n + 1) r

/-- the effects thread `t` has performed, in trace order -/
def effOf (t : Nat) (tr : List (Event Op)) : List (Nat × Op) :=
  (tr.filter (fun e => e.eff && e.tid == t)).map fun e => (e.inv, e.op)

theorem effOf_snoc (t : Nat) (tr : List (Event Op)) (e : Event Op) :
    effOf t (tr ++ [e]) = effOf t tr ++ (if (e.eff && e.tid == t) then [(e.inv, e.op)] else []) := by
  unfold effOf
  rw [List.filter_append, List.map_append]
  cases h : (e.eff && e.tid == t) <;> simp [h]

/-- per thread: effects performed so far followed by the effects still to come are exactly the
    effectful invocations of the thread's program, in program order, each once -/
def ComplInv (P : List (List (Invoc Op))) (c : Config σ Op Res) : Prop :=
  ∀ t, effOf t c.tr ++ todo (c.thr t) = expected 0 (P.getD t [])

theorem todo_next {th th' : Thread Op} {a : Act} {op : Op} (hn : th.next = some (a, op, th'))
    (ha : a ≠ .opaque) :
    (if (a == .access && !th.done) then [(th.n, op)] else []) ++ todo th' = todo th := by
  obtain ⟨i, rest, hp, hop, hcase⟩ := next_some hn
  rcases hcase with ⟨rfl, hsk, rfl⟩ | ⟨hne, sk, hsk, rfl⟩
  · have he : effectful i.sk = false := by rcases hsk with e | ⟨sk, e⟩ <;> rw [e] <;> rfl
    simp only [todo, hp, he]
    cases rest <;> simp [expected]
  · simp only [todo, hp, hsk]
    subst hop
    cases a <;> simp_all [effectful]

theorem ComplInv_step {P : List (List (Invoc Op))} {c c' : Config σ Op Res} {t : Nat}
    (hi : ComplInv P c) (h : stepT step c t = some c') : ComplInv P c' := by
  obtain ⟨a, op, th', hn, he, rfl⟩ := stepT_some h
  intro s
  simp only [effOf_snoc]
  by_cases hs : s = t
  · subst hs
    have ha : a ≠ .opaque := by intro e; subst e; simp [enabled] at he
    simp only [upd_same, beq_self_eq_true, Bool.and_true, List.append_assoc, todo_next hn ha]
    exact hi s
  · have : (t == s) = false := by simp; exact fun e => hs e.symm
    simp only [upd_other _ _ hs, this, Bool.and_false]
    simpa using hi s

/-- only `access` actions perform effects -/
def EffAcc (c : Config σ Op Res) : Prop := ∀ e ∈ c.tr, e.eff = true → e.act = .access

theorem EffAcc_step {c c' : Config σ Op Res} {t : Nat} (hi : EffAcc c)
    (h : stepT step c t = some c') : EffAcc c' := by
  obtain ⟨a, op, th', hn, he, rfl⟩ := stepT_some h
  intro e hmem heff
  simp only [List.mem_append, List.mem_singleton] at hmem
  rcases hmem with hmem | rfl
  · exact hi e hmem heff
  · simp only [Bool.and_eq_true, beq_iff_eq] at heff
    exact heff.1

end AllPrograms

/-! ## invariants of well-bracketed programs -/

section WBPrograms
variable {σ Op Res : Type} {step : σ → Op → σ × Res}

/-- every `access` event was performed by the mutex holder -/
def AccHeld (c : Config σ Op Res) : Prop := ∀ e ∈ c.tr, e.act = .access → e.holder = some e.tid

/-- the holder's current invocation took the mutex at the last `lock` event of the trace -/
def HoldInv (c : Config σ Op Res) : Prop :=
  ∀ s, c.holder = some s → ∃ (l : Nat) (e : Event Op), c.tr[l]? = some e ∧ e.act = .lock ∧
    e.tid = s ∧ e.inv = (c.thr s).n ∧
    ∀ (q : Nat) (x : Event Op), l < q → c.tr[q]? = some x → x.act ≠ .lock

/-- `l` is the position of the last `lock` event before position `p`, and that event belongs to the
    same invocation (thread and index) as the event at `p` -/
def Gov (tr : List (Event Op)) (l p : Nat) : Prop :=
  ∃ (e a : Event Op), l < p ∧ tr[l]? = some e ∧ tr[p]? = some a ∧ e.act = .lock ∧ e.tid = a.tid ∧
    e.inv = a.inv ∧ ∀ (q : Nat) (x : Event Op), l < q → q < p → tr[q]? = some x → x.act ≠ .lock

theorem Gov.snoc {tr : List (Event Op)} {l p : Nat} (e : Event Op) (h : Gov tr l p) :
    Gov (tr ++ [e]) l p := by
  obtain ⟨e0, a, h1, h2, h3, h4, h5, h6, h7⟩ := h
  refine ⟨e0, a, h1, get_snoc e h2, get_snoc e h3, h4, h5, h6, ?_⟩
  intro q x hq1 hq2 hx
  rcases snoc_get hx with ⟨_, hx⟩ | ⟨rfl, _⟩
  · exact h7 q x hq1 hq2 hx
  · have := get_lt h3; omega

def GovInv (c : Config σ Op Res) : Prop :=
  ∀ (p : Nat) (a : Event Op), c.tr[p]? = some a → a.act = .access → ∃ l, Gov c.tr l p

/-- between two effects lies the `lock` event of the later invocation -/
def OrdInv (c : Config σ Op Res) : Prop :=
  ∀ (p p' : Nat) (a a' : Event Op), p < p' → c.tr[p]? = some a → c.tr[p']? = some a' →
    a.eff = true → a'.eff = true →
    ∃ (l : Nat) (e : Event Op), p < l ∧ l < p' ∧ c.tr[l]? = some e ∧ e.act = .lock ∧
      e.tid = a'.tid ∧ e.inv = a'.inv

theorem newHolder_other {h : Option Nat} {t : Nat} {a : Act} (h1 : a ≠ .lock) (h2 : a ≠ .unlock) :
    newHolder h t a = h := by cases a <;> simp_all [newHolder]

theorem AccHeld_step {c c' : Config σ Op Res} {t : Nat} (hti : TI c) (hi : AccHeld c)
    (h : stepT step c t = some c') : AccHeld c' := by
  obtain ⟨a, op, th', hn, he, rfl⟩ := stepT_some h
  intro e hmem hacc
  simp only [List.mem_append, List.mem_singleton] at hmem
  rcases hmem with hmem | rfl
  · exact hi e hmem hacc
  · simp only at hacc; subst hacc; exact TI_access hti hn

theorem MInv_step {c c' : Config σ Op Res} {t : Nat} (hti : TI c) (hi : MInv c.tr c.holder)
    (h : stepT step c t = some c') : MInv c'.tr c'.holder := by
  obtain ⟨a, op, th', hn, he, rfl⟩ := stepT_some h
  refine hi.snoc _ ?_ ?_ ?_ ?_
  · intro e; simp only at e; subst e; exact ⟨enabled_lock he, rfl⟩
  · intro e; simp only at e; subst e; exact ⟨enabled_unlock he, rfl⟩
  · intro h1 h2; exact newHolder_other h1 h2
  · intro e; simp only at e; subst e; exact TI_access hti hn

theorem HoldInv_step {c c' : Config σ Op Res} {t : Nat} (hti : TI c) (hi : HoldInv c)
    (h : stepT step c t = some c') : HoldInv c' := by
  obtain ⟨a, op, th', hn, he, rfl⟩ := stepT_some h
  obtain ⟨i, rest, hp, hop, hcase⟩ := next_some hn
  intro s hs
  simp only at hs ⊢
  by_cases hl : a = .lock
  · subst hl
    have hst : t = s := by simpa [newHolder] using hs
    subst hst
    refine ⟨c.tr.length, _, get_last _ _, rfl, rfl, ?_, ?_⟩
    · simp only [upd_same]
      rcases hcase with ⟨e, _⟩ | ⟨_, sk, _, rfl⟩
      · cases e
      · rfl
    · intro q x hq hx
      rcases snoc_get hx with ⟨h1, _⟩ | ⟨h1, _⟩ <;> omega
  · by_cases hu : a = .unlock
    · subst hu; simp [newHolder] at hs
    · rw [newHolder_other hl hu] at hs
      obtain ⟨l, e0, g1, g2, g3, g4, g5⟩ := hi s hs
      refine ⟨l, e0, get_snoc _ g1, g2, g3, ?_, ?_⟩
      · rw [g4]
        by_cases hst : s = t
        · subst hst
          simp only [upd_same]
          rcases hcase with ⟨rfl, _, _⟩ | ⟨_, sk, _, rfl⟩
          · exact absurd hs (TI_ret hti hn)
          · rfl
        · rw [upd_other _ _ hst]
      · intro q x hq hx
        rcases snoc_get hx with ⟨_, hx⟩ | ⟨_, rfl⟩
        · exact g5 q x hq hx
        · exact hl

theorem GovInv_step {c c' : Config σ Op Res} {t : Nat} (hti : TI c) (hh : HoldInv c)
    (hi : GovInv c) (h : stepT step c t = some c') : GovInv c' := by
  obtain ⟨a, op, th', hn, he, rfl⟩ := stepT_some h
  intro p x hp hacc
  rcases snoc_get hp with ⟨_, hp⟩ | ⟨rfl, rfl⟩
  · obtain ⟨l, hg⟩ := hi p x hp hacc
    exact ⟨l, hg.snoc _⟩
  · simp only at hacc; subst hacc
    obtain ⟨l, e0, g1, g2, g3, g4, g5⟩ := hh t (TI_access hti hn)
    refine ⟨l, e0, _, get_lt g1, get_snoc _ g1, get_last _ _, g2, g3, g4, ?_⟩
    intro q y hq1 hq2 hy
    rcases snoc_get hy with ⟨_, hy⟩ | ⟨h1, _⟩
    · exact g5 q y hq1 hy
    · omega

theorem OrdInv_step {c c' : Config σ Op Res} {t : Nat} (hti : TI c) (hh : HoldInv c)
    (hg : GovInv c) (heff : EffInv c) (hea : EffAcc c) (hi : OrdInv c)
    (h : stepT step c t = some c') : OrdInv c' := by
  obtain ⟨a, op, th', hn, he, rfl⟩ := stepT_some h
  intro p p' x x' hlt hp hp' hx hx'
  rcases snoc_get hp' with ⟨hlen', hp'⟩ | ⟨rfl, rfl⟩
  · rcases snoc_get hp with ⟨_, hp⟩ | ⟨rfl, _⟩
    · obtain ⟨l, e, g1, g2, g3, g4⟩ := hi p p' x x' hlt hp hp' hx hx'
      exact ⟨l, e, g1, g2, get_snoc _ g3, g4⟩
    · omega
  · rcases snoc_get hp with ⟨_, hq⟩ | ⟨h1, _⟩
    · clear hp
      simp only [Bool.and_eq_true, beq_iff_eq, Bool.not_eq_true'] at hx'
      obtain ⟨ha, hdone⟩ := hx'
      subst ha
      obtain ⟨l0, e0, g1, g2, g3, g4, g5⟩ := hh t (TI_access hti hn)
      have hxacc := hea x (List.mem_of_getElem? hq) hx
      have hpl : p < l0 := by
        rcases Nat.lt_or_ge p l0 with h' | h'
        · exact h'
        · exfalso
          have hne : p ≠ l0 := by
            intro e; subst e; rw [hq] at g1; cases g1; rw [hxacc] at g2; cases g2
          have hl0p : l0 < p := by omega
          obtain ⟨lp, ep, xp, k1, k2, k3, k4, k5, k6, k7⟩ := hg p x hq hxacc
          rw [hq] at k3; cases k3
          have e1 : lp = l0 := by
            rcases Nat.lt_trichotomy lp l0 with h'' | h'' | h''
            · exact absurd g2 (k7 l0 e0 h'' hl0p g1)
            · exact h''
            · exact absurd k4 (g5 lp ep h'' k2)
          subst e1
          rw [g1] at k2; cases k2
          rcases heff x (List.mem_of_getElem? hq) hx with h3 | ⟨_, h3⟩
          · rw [← k5, g3, ← k6, g4] at h3; omega
          · rw [← k5, g3, hdone] at h3; cases h3
      exact ⟨l0, e0, hpl, get_lt g1, get_snoc _ g1, g2, g3, g4⟩
    · omega

end WBPrograms

/-! ## reachable configurations satisfy the invariants -/

section Reachable
variable {σ Op Res : Type} {step : σ → Op → σ × Res}

/-- the recorded "holder before" of every event is the thread that is inside its critical section
    in the trace prefix before the event -/
def HRec (c : Config σ Op Res) : Prop :=
  ∀ (p : Nat) (e : Event Op), c.tr[p]? = some e →
    ∀ t, inCS t (c.tr.take p) = true ↔ e.holder = some t

theorem HRec_step {c c' : Config σ Op Res} {t : Nat} (hme : MEInv c) (hi : HRec c)
    (h : stepT step c t = some c') : HRec c' := by
  obtain ⟨a, op, th', hn, he, rfl⟩ := stepT_some h
  intro p e hp s
  rcases snoc_get hp with ⟨hlt, hp⟩ | ⟨rfl, rfl⟩
  · simp only [List.take_append_of_le_length (Nat.le_of_lt hlt)]
    exact hi p e hp s
  · simp only [List.take_left']
    exact hme s

structure AllInv (P : List (List (Invoc Op))) (s0 : σ) (c : Config σ Op Res) : Prop where
  me : MEInv c
  hrec : HRec c
  seq : SeqInv (step := step) s0 c
  eff : EffInv c
  effAcc : EffAcc c
  compl : ComplInv P c

structure WBInv (c : Config σ Op Res) : Prop where
  ti : TI c
  acc : AccHeld c
  m : MInv c.tr c.holder
  hold : HoldInv c
  gov : GovInv c
  ord : OrdInv c

theorem reach_all {P : List (List (Invoc Op))} {s0 : σ} {c : Config σ Op Res}
    (h : Reach step (init P s0) c) : AllInv (step := step) P s0 c := by
  induction h with
  | refl =>
    refine ⟨?_, ?_, rfl, ?_, ?_, ?_⟩
    · intro t; simp [init, inCS]
    · intro p e hp; simp [init] at hp
    · intro e he; simp [init] at he
    · intro e he; simp [init] at he
    · intro t
      simp only [init, effOf, List.filter_nil, List.map_nil, List.nil_append, todo]
      cases P.getD t [] <;> simp [expected]
  | step t _ hs ih =>
    exact ⟨MEInv_step ih.me hs, HRec_step ih.me ih.hrec hs, SeqInv_step ih.seq hs,
      EffInv_step ih.eff hs, EffAcc_step ih.effAcc hs, ComplInv_step ih.compl hs⟩

theorem reach_wb {P : List (List (Invoc Op))} {s0 : σ} {c : Config σ Op Res} (hP : WB P)
    (h : Reach step (init P s0) c) : WBInv c := by
  induction h with
  | refl =>
    refine ⟨TI_init P s0 hP, ?_, MInv.nil, ?_, ?_, ?_⟩
    · intro e he; simp [init] at he
    · intro s hs; simp [init] at hs
    · intro p a hp; simp [init] at hp
    · intro p p' a a' _ hp; simp [init] at hp
  | step t hr hs ih =>
    have ha := reach_all hr
    exact ⟨TI_step ih.ti hs, AccHeld_step ih.ti ih.acc hs, MInv_step ih.ti ih.m hs,
      HoldInv_step ih.ti ih.hold hs, GovInv_step ih.ti ih.hold ih.gov hs,
      OrdInv_step ih.ti ih.hold ih.gov ha.eff ha.effAcc ih.ord hs⟩

/-! ## the generic theorems -/

/-- mutual exclusion (every program): the threads inside a critical section are exactly the current
    holder, hence at most one; every event's recorded holder is the thread inside its critical
    section just before the event -/
theorem mutual_exclusion {P : List (List (Invoc Op))} {s0 : σ} {c : Config σ Op Res}
    (h : Reach step (init P s0) c) :
    (∀ t t', inCS t c.tr = true → inCS t' c.tr = true → t = t') ∧
    (∀ t, inCS t c.tr = true ↔ c.holder = some t) ∧
    (∀ (p : Nat) (e : Event Op), c.tr[p]? = some e →
      ∀ t, inCS t (c.tr.take p) = true ↔ e.holder = some t) := by
  have ha := reach_all h
  refine ⟨?_, ha.me, ha.hrec⟩
  intro t t' h1 h2
  have e1 := (ha.me t).mp h1
  have e2 := (ha.me t').mp h2
  rw [e1] at e2; exact Option.some.inj e2

/-- well-bracketed programs: every `access` event is performed by the mutex holder -/
theorem access_by_holder {P : List (List (Invoc Op))} {s0 : σ} {c : Config σ Op Res} (hP : WB P)
    (h : Reach step (init P s0) c) :
    ∀ e ∈ c.tr, e.act = .access → e.holder = some e.tid := (reach_wb hP h).acc

/-- data-race freedom on trace positions -/
theorem drf {P : List (List (Invoc Op))} {s0 : σ} {c : Config σ Op Res} (hP : WB P)
    (h : Reach step (init P s0) c) :
    ∀ (p p' : Nat) (a a' : Event Op), p < p' → c.tr[p]? = some a → c.tr[p']? = some a' →
      a.act = .access → a'.act = .access → a.tid ≠ a'.tid → Sep c.tr p a.tid p' a'.tid :=
  (reach_wb hP h).m.d

/-- the effect order is the order of the governing `lock` events: every effect is governed by the
    last `lock` event before it, which belongs to the same invocation, and of two effects the
    governing `lock` of the later one comes after the earlier effect -/
theorem lock_order {P : List (List (Invoc Op))} {s0 : σ} {c : Config σ Op Res} (hP : WB P)
    (h : Reach step (init P s0) c) :
    (∀ (p : Nat) (a : Event Op), c.tr[p]? = some a → a.eff = true → ∃ l, Gov c.tr l p) ∧
    (∀ (p p' l l' : Nat) (a a' : Event Op), p < p' → c.tr[p]? = some a → c.tr[p']? = some a' →
      a.eff = true → a'.eff = true → Gov c.tr l p → Gov c.tr l' p' → l < p ∧ p < l' ∧ l' < p') := by
  have hw := reach_wb hP h
  have ha := reach_all h
  refine ⟨fun p a hp he => hw.gov p a hp (ha.effAcc a (List.mem_of_getElem? hp) he), ?_⟩
  intro p p' l l' a a' hlt hp hp' he he' hg hg'
  obtain ⟨l2, e2, g1, g2, g3, g4, _⟩ := hw.ord p p' a a' hlt hp hp' he he'
  obtain ⟨_, _, k1, _, _, _, _, _, k7⟩ := hg'
  obtain ⟨_, _, j1, _⟩ := hg
  refine ⟨j1, ?_, k1⟩
  rcases Nat.lt_or_ge l' l2 with h' | h'
  · exact absurd g4 (k7 l2 e2 h' g2 g3)
  · omega

/-- completeness: in a complete execution every thread has performed exactly the effects of its
    effectful invocations, in program order -/
theorem complete_effects {P : List (List (Invoc Op))} {s0 : σ} {c : Config σ Op Res}
    (h : Reach step (init P s0) c) (hc : Complete c) :
    ∀ t, effOf t c.tr = expected 0 (P.getD t []) := by
  intro t
  have := (reach_all h).compl t
  simpa [todo, hc t] using this

theorem mem_expected {n i : Nat} {op : Op} {l : List (Invoc Op)} (h : (i, op) ∈ expected n l) :
    ∃ inv, n ≤ i ∧ l[i - n]? = some inv ∧ inv.op = op ∧ effectful inv.sk = true := by
  induction l generalizing n with
  | nil => simp [expected] at h
  | cons j r ih =>
    simp only [expected, List.mem_append] at h
    rcases h with h | h
    · by_cases hj : effectful j.sk = true
      · simp [hj] at h
        exact ⟨j, by omega, by simp [h.1], h.2.symm, hj⟩
      · simp [hj] at h
    · obtain ⟨inv, h1, h2, h3⟩ := ih h
      refine ⟨inv, by omega, ?_, h3⟩
      have : i - n = (i - (n + 1)) + 1 := by omega
      rw [this, List.getElem?_cons_succ]; exact h2

/-- every effect in the trace is the effect of an invocation of the program -/
theorem effInvs_faithful {P : List (List (Invoc Op))} {s0 : σ} {c : Config σ Op Res}
    (h : Reach step (init P s0) c) {t i : Nat} {op : Op} (hm : (t, i, op) ∈ effInvs c.tr) :
    ∃ inv, (P.getD t [])[i]? = some inv ∧ inv.op = op ∧ effectful inv.sk = true := by
  have hc := (reach_all h).compl t
  have : (i, op) ∈ effOf t c.tr := by
    simp only [effInvs, List.mem_map, List.mem_filter] at hm
    obtain ⟨e, ⟨he1, he2⟩, he3⟩ := hm
    simp only [Prod.mk.injEq] at he3
    simp only [effOf, List.mem_map, List.mem_filter, Bool.and_eq_true, beq_iff_eq]
    exact ⟨e, ⟨he1, he2, he3.1⟩, by simp [he3.2.1, he3.2.2]⟩
  have h2 : (i, op) ∈ expected 0 (P.getD t []) := by rw [← hc]; simp [this]
  obtain ⟨inv, _, g2, g3⟩ := mem_expected h2
  exact ⟨inv, by simpa using g2, g3⟩

/-- one step of `seqRun` -/
def seqStep (step : σ → Op → σ × Res) (acc : σ × List (Nat × Nat × Res)) (x : Nat × Nat × Op) :
    σ × List (Nat × Nat × Res) :=
  ((step acc.1 x.2.2).1, acc.2 ++ [(x.1, x.2.1, (step acc.1 x.2.2).2)])

theorem seqRun_eq (s0 : σ) (l : List (Nat × Nat × Op)) :
    seqRun step s0 l = l.foldl (seqStep step) (s0, []) := rfl

theorem foldl_seqStep_fst (acc : σ × List (Nat × Nat × Res)) (l : List (Nat × Nat × Op)) :
    (l.foldl (seqStep step) acc).1 = (l.map (·.2.2)).foldl (fun s op => (step s op).1) acc.1 := by
  induction l generalizing acc with
  | nil => rfl
  | cons x l ih => simp only [List.foldl_cons, List.map_cons, ih]; rfl

theorem seqRun_fst (s0 : σ) (l : List (Nat × Nat × Op)) :
    (seqRun step s0 l).1 = (l.map (·.2.2)).foldl (fun s op => (step s op).1) s0 :=
  foldl_seqStep_fst (s0, []) l

theorem foldl_seqStep_mono (acc : σ × List (Nat × Nat × Res)) (l : List (Nat × Nat × Op))
    (r : Nat × Nat × Res) (h : r ∈ acc.2) : r ∈ (l.foldl (seqStep step) acc).2 := by
  induction l generalizing acc with
  | nil => exact h
  | cons x l ih => exact ih _ (List.mem_append_left _ h)

/-- the result recorded for the invocation at a given place of the effect order -/
theorem seqRun_mem (s0 : σ) (pre post : List (Nat × Nat × Op)) (x : Nat × Nat × Op) :
    (x.1, x.2.1, (step (seqRun step s0 pre).1 x.2.2).2) ∈ (seqRun step s0 (pre ++ x :: post)).2 := by
  rw [seqRun_eq, List.foldl_append, List.foldl_cons]
  apply foldl_seqStep_mono
  simp [seqStep, seqRun_eq]

theorem foldl_seqStep_readonly (s0 : σ) (log : List (Nat × Nat × Res)) (l : List (Nat × Nat × Op))
    (hro : ∀ x ∈ l, (step s0 x.2.2).1 = s0) :
    l.foldl (seqStep step) (s0, log) =
      (s0, log ++ l.map fun x => (x.1, x.2.1, (step s0 x.2.2).2)) := by
  induction l generalizing log with
  | nil => simp
  | cons x l ih =>
    rw [List.foldl_cons]
    have hx := hro x (by simp)
    have : seqStep step (s0, log) x = (s0, log ++ [(x.1, x.2.1, (step s0 x.2.2).2)]) := by
      simp [seqStep, hx]
    rw [this, ih _ (fun y hy => hro y (by simp [hy]))]
    simp

/-- read-only operations: the state never changes and every result is computed on `s0` -/
theorem seqRun_readonly (s0 : σ) (l : List (Nat × Nat × Op))
    (hro : ∀ x ∈ l, (step s0 x.2.2).1 = s0) :
    seqRun step s0 l = (s0, l.map fun x => (x.1, x.2.1, (step s0 x.2.2).2)) := by
  rw [seqRun_eq, foldl_seqStep_readonly s0 [] l hro]; simp

theorem split_at {α : Type} {tr : List α} {p : Nat} {a : α} (h : tr[p]? = some a) :
    tr = tr.take p ++ a :: tr.drop (p + 1) := by
  have hp := get_lt h
  have : tr[p] = a := by simpa [List.getElem?_eq_getElem hp] using h
  rw [← this, ← List.drop_eq_getElem_cons hp, List.take_append_drop]

theorem effInvs_append (A B : List (Event Op)) : effInvs (A ++ B) = effInvs A ++ effInvs B := by
  simp [effInvs, List.filter_append]

theorem effInvs_cons_eff (a : Event Op) (B : List (Event Op)) (h : a.eff = true) :
    effInvs (a :: B) = (a.tid, a.inv, a.op) :: effInvs B := by
  simp [effInvs, h]

/-- two effect events at positions `p < p'` split the effect order -/
theorem effInvs_split {tr : List (Event Op)} {p p' : Nat} {a a' : Event Op} (hlt : p < p')
    (hp : tr[p]? = some a) (hp' : tr[p']? = some a') (he : a.eff = true) (he' : a'.eff = true) :
    effInvs tr = effInvs (tr.take p) ++ (a.tid, a.inv, a.op) ::
      effInvs ((tr.drop (p + 1)).take (p' - (p + 1))) ++ (a'.tid, a'.inv, a'.op) ::
      effInvs (tr.drop (p' + 1)) := by
  have h1 := split_at hp
  have hp2 : (tr.drop (p + 1))[p' - (p + 1)]? = some a' := by
    rw [List.getElem?_drop]
    have : p + 1 + (p' - (p + 1)) = p' := by omega
    rw [this]; exact hp'
  have h2 := split_at hp2
  have h3 : (tr.drop (p + 1)).drop (p' - (p + 1) + 1) = tr.drop (p' + 1) := by
    rw [List.drop_drop]; congr 1; omega
  rw [h3] at h2
  conv => lhs; rw [h1, h2]
  rw [effInvs_append, effInvs_cons_eff _ _ he, effInvs_append, effInvs_cons_eff _ _ he']
  simp

end Reachable

/-! ## one-section skeletons: `skip* lock skip* access (access|skip)* unlock skip* (ret|end)`

All extracted skeletons of bloom.Filter have this shape.  For such programs the effect order is
literally the list of `lock` events, and an invocation's `unlock` comes after its effect. -/

section OneSection
variable {σ Op Res : Type} {step : σ → Op → σ × Res}

/-- arguments: mutex held by this thread, effect already performed -/
def oneSection : Bool → Bool → List Act → Bool
  | false, false, .lock :: r => oneSection true false r
  | true, false, .access :: r => oneSection true true r
  | true, true, .access :: r => oneSection true true r
  | true, true, .unlock :: r => oneSection false true r
  | h, d, .skip :: r => oneSection h d r
  | false, true, .ret :: _ => true
  | false, true, [] => true
  | _, _, _ => false

def OS (P : List (List (Invoc Op))) : Prop := ∀ th ∈ P, ∀ i ∈ th, oneSection false false i.sk = true

theorem oneSection_wb (h d : Bool) (sk : List Act) (hs : oneSection h d sk = true) :
    wellBracketedFrom h sk = true := by
  induction sk generalizing h d with
  | nil => cases h <;> cases d <;> simp_all [oneSection, wellBracketedFrom]
  | cons a r ih =>
    cases a <;> cases h <;> cases d <;> simp_all [oneSection, wellBracketedFrom] <;>
      exact ih _ _ hs

theorem oneSection_effectful (h d : Bool) (sk : List Act) (hs : oneSection h d sk = true) :
    (d || effectful sk) = true := by
  induction sk generalizing h d with
  | nil => cases h <;> cases d <;> simp_all [oneSection]
  | cons a r ih =>
    cases a <;> cases h <;> cases d <;> simp_all [oneSection, effectful] <;>
      simpa using ih _ _ hs

theorem OS.wb {P : List (List (Invoc Op))} (h : OS P) : WB P :=
  fun th hth i hi => oneSection_wb _ _ _ (h th hth i hi)

def osOK (held : Bool) (th : Thread Op) : Prop :=
  match th.pend with
  | [] => True
  | i :: rest => oneSection held th.done i.sk = true ∧ ∀ j ∈ rest, oneSection false false j.sk = true

def OSI (c : Config σ Op Res) : Prop := ∀ t, osOK (c.holder == some t) (c.thr t)

def heldAfter (a : Act) (held : Bool) : Bool :=
  match a with
  | .lock => true
  | .unlock => false
  | _ => held

theorem newHolder_self (h : Option Nat) (t : Nat) (a : Act) :
    (newHolder h t a == some t) = heldAfter a (h == some t) := by
  cases a <;> simp [newHolder, heldAfter]

theorem oneSection_step {a : Act} {held d : Bool} {sk : List Act} (h1 : a ≠ .ret)
    (h2 : a ≠ .opaque) (hw : oneSection held d (a :: sk) = true) :
    oneSection (heldAfter a held) (d || a == .access) sk = true := by
  cases a <;> cases held <;> cases d <;> simp_all [oneSection, heldAfter] <;> exact hw

theorem OSI_init (P : List (List (Invoc Op))) (s0 : σ) (h : OS P) :
    OSI (init P s0 : Config σ Op Res) := by
  intro t
  have hall : ∀ i ∈ P.getD t [], oneSection false false i.sk = true := by
    intro i hi
    rw [List.getD_eq_getElem?_getD] at hi
    cases hg : P[t]? with
    | none => rw [hg] at hi; simp at hi
    | some th => rw [hg] at hi; exact h th (List.mem_of_getElem? hg) i hi
  simp only [init, osOK]
  generalize P.getD t [] = l at hall
  cases l with
  | nil => trivial
  | cons i rest => exact ⟨by simpa using hall i (by simp), fun j hj => hall j (by simp [hj])⟩

theorem OSI_step {c c' : Config σ Op Res} {t : Nat} (hi : OSI c) (h : stepT step c t = some c') :
    OSI c' := by
  obtain ⟨a, op, th', hn, he, rfl⟩ := stepT_some h
  intro s
  by_cases hs : s = t
  · subst hs
    simp only [upd_same]
    obtain ⟨i, rest, hp, hop, hcase⟩ := next_some hn
    have h0 := hi s
    simp only [osOK, hp] at h0
    obtain ⟨hw, hrest⟩ := h0
    rcases hcase with ⟨rfl, hsk, rfl⟩ | ⟨hne, sk, hsk, rfl⟩
    · have hheld : (c.holder == some s) = false := by
        rcases hsk with e | ⟨sk, e⟩ <;> rw [e] at hw <;>
          cases hh : (c.holder == some s) <;> cases hd : (c.thr s).done <;>
          simp_all [oneSection]
      simp only [newHolder, osOK]
      cases rest with
      | nil => trivial
      | cons j r =>
        exact ⟨by rw [hheld]; exact hrest j (by simp), fun k hk => hrest k (by simp [hk])⟩
    · rw [hsk] at hw
      simp only [osOK]
      refine ⟨?_, hrest⟩
      have ha : a ≠ .opaque := by intro e; subst e; simp [enabled] at he
      rw [newHolder_self]
      exact oneSection_step hne ha hw
  · have hh : (newHolder c.holder t a == some s) = (c.holder == some s) := by
      cases a <;> simp_all [enabled, newHolder]
      · intro e; exact hs e.symm
      · intro e; exact hs e.symm
    simp only [upd_other _ _ hs, hh]
    exact hi s

/-- (every program) a thread marked `done` has an effect event of its current invocation -/
def DoneInv (c : Config σ Op Res) : Prop :=
  ∀ t, (c.thr t).done = true → ∃ (p : Nat) (a : Event Op) (i : Invoc Op) (rest : List (Invoc Op)),
    c.tr[p]? = some a ∧ a.eff = true ∧ a.tid = t ∧ a.inv = (c.thr t).n ∧
    (c.thr t).pend = i :: rest ∧ i.op = a.op

theorem DoneInv_step {c c' : Config σ Op Res} {t : Nat} (hi : DoneInv c)
    (h : stepT step c t = some c') : DoneInv c' := by
  obtain ⟨a, op, th', hn, he, rfl⟩ := stepT_some h
  obtain ⟨i, rest, hp, hop, hcase⟩ := next_some hn
  intro s hd
  by_cases hs : s = t
  · subst hs
    simp only [upd_same] at hd ⊢
    rcases hcase with ⟨_, _, rfl⟩ | ⟨_, sk, _, rfl⟩
    · cases hd
    · simp only at hd ⊢
      by_cases hd0 : (c.thr s).done = true
      · obtain ⟨p, x, i0, rest0, g1, g2, g3, g4, g5, g6⟩ := hi s hd0
        rw [hp] at g5
        cases g5
        exact ⟨p, x, _, _, get_snoc _ g1, g2, g3, g4, rfl, by rw [← hop, g6]⟩
      · have ha : a = .access := by simpa [hd0] using hd
        subst ha
        exact ⟨c.tr.length, _, _, _, get_last _ _, by simp [hd0], rfl, rfl, rfl, rfl⟩
  · simp only [upd_other _ _ hs] at hd ⊢
    obtain ⟨p, x, i0, rest0, g1, g2⟩ := hi s hd
    exact ⟨p, x, i0, rest0, get_snoc _ g1, g2⟩

/-- every `unlock` event comes after the effect of its invocation -/
def UnlInv (c : Config σ Op Res) : Prop :=
  ∀ (u : Nat) (b : Event Op), c.tr[u]? = some b → b.act = .unlock →
    ∃ (p : Nat) (a : Event Op), p < u ∧ c.tr[p]? = some a ∧ a.eff = true ∧ a.tid = b.tid ∧
      a.inv = b.inv ∧ a.op = b.op

theorem UnlInv_step {c c' : Config σ Op Res} {t : Nat} (hos : OSI c) (hd : DoneInv c)
    (hi : UnlInv c) (h : stepT step c t = some c') : UnlInv c' := by
  obtain ⟨a, op, th', hn, he, rfl⟩ := stepT_some h
  intro u b hu hb
  rcases snoc_get hu with ⟨_, hu⟩ | ⟨rfl, rfl⟩
  · obtain ⟨p, x, g1, g2, g3⟩ := hi u b hu hb
    exact ⟨p, x, g1, get_snoc _ g2, g3⟩
  · simp only at hb; subst hb
    obtain ⟨i, rest, hp, hop, hcase⟩ := next_some hn
    have h0 := hos t
    simp only [osOK, hp] at h0
    have hdone : (c.thr t).done = true := by
      rcases hcase with ⟨e, _⟩ | ⟨_, sk, hsk, _⟩
      · cases e
      · rw [hsk] at h0
        cases hh : (c.holder == some t) <;> cases hd' : (c.thr t).done <;>
          simp_all [oneSection]
    obtain ⟨p, x, i0, rest0, g1, g2, g3, g4, g5, g6⟩ := hd t hdone
    rw [hp] at g5
    cases g5
    exact ⟨p, x, get_lt g1, get_snoc _ g1, g2, g3, g4, by rw [← g6, hop]⟩

/-- the invocations in the order of their `lock` events -/
def lockInvs (tr : List (Event Op)) : List (Nat × Nat × Op) :=
  (tr.filter (·.act == .lock)).map fun e => (e.tid, e.inv, e.op)

theorem lockInvs_snoc (tr : List (Event Op)) (e : Event Op) :
    lockInvs (tr ++ [e]) = lockInvs tr ++ (if e.act == .lock then [(e.tid, e.inv, e.op)] else []) := by
  unfold lockInvs
  rw [List.filter_append, List.map_append]
  cases h : (e.act == Act.lock) <;> simp [h]

/-- the invocation that has taken the mutex but not yet performed its effect -/
def pendingLock (c : Config σ Op Res) : List (Nat × Nat × Op) :=
  match c.holder with
  | none => []
  | some t =>
    match (c.thr t).pend with
    | [] => []
    | i :: _ => if (c.thr t).done then [] else [(t, (c.thr t).n, i.op)]

def LockListInv (c : Config σ Op Res) : Prop := lockInvs c.tr = effInvs c.tr ++ pendingLock c

theorem pendingLock_other {c : Config σ Op Res} {t : Nat} (th' : Thread Op) (h' : Option Nat)
    (st : σ) (res : List (Nat × Nat × Res)) (tr : List (Event Op))
    (hne : c.holder ≠ some t) (hh : h' = c.holder) :
    pendingLock ({ holder := h', st := st, thr := upd c.thr t th', res := res, tr := tr } :
      Config σ Op Res) = pendingLock c := by
  subst hh
  unfold pendingLock
  cases hc : c.holder with
  | none => rfl
  | some s =>
    have : s ≠ t := by intro e; subst e; exact hne hc
    simp only [upd_other _ _ this]

theorem LockListInv_step {c c' : Config σ Op Res} {t : Nat} (hos : OSI c) (hi : LockListInv c)
    (h : stepT step c t = some c') : LockListInv c' := by
  obtain ⟨a, op, th', hn, he, rfl⟩ := stepT_some h
  obtain ⟨i, rest, hp, hop, hcase⟩ := next_some hn
  unfold LockListInv at hi ⊢
  simp only [lockInvs_snoc, effInvs_snoc, hi, List.append_assoc]
  congr 1
  have h0 := hos t
  simp only [osOK, hp] at h0
  obtain ⟨hw, _⟩ := h0
  rcases hcase with ⟨rfl, hsk, rfl⟩ | ⟨hne, sk, hsk, rfl⟩
  · have hheld : c.holder ≠ some t := by
      intro hc
      rcases hsk with e | ⟨sk, e⟩ <;> rw [e, hc] at hw <;> cases hd : (c.thr t).done <;>
        simp_all [oneSection]
    simp only [newHolder]
    rw [pendingLock_other _ _ _ _ _ hheld rfl]
    simp
  · rw [hsk] at hw
    by_cases hc : c.holder = some t
    · -- the stepping thread holds the mutex
      cases a <;> cases hd : (c.thr t).done <;>
        simp_all [oneSection, enabled, newHolder, pendingLock]
    · have hf : (c.holder == some t) = false := by simpa using hc
      rw [hf] at hw
      by_cases hskip : a = .skip
      · subst hskip
        simp only [newHolder]
        rw [pendingLock_other _ _ _ _ _ hc rfl]
        simp
      · cases a <;> cases hd : (c.thr t).done <;>
          simp_all [oneSection, enabled, newHolder, pendingLock]

structure OSInv (c : Config σ Op Res) : Prop where
  osi : OSI c
  done : DoneInv c
  unl : UnlInv c
  locks : LockListInv c

theorem reach_os {P : List (List (Invoc Op))} {s0 : σ} {c : Config σ Op Res} (hP : OS P)
    (h : Reach step (init P s0) c) : OSInv c := by
  induction h with
  | refl =>
    refine ⟨OSI_init P s0 hP, ?_, ?_, ?_⟩
    · intro t hd; simp [init] at hd
    · intro u b hu; simp [init] at hu
    · simp [LockListInv, init, lockInvs, effInvs, pendingLock]
  | step t _ hs ih =>
    exact ⟨OSI_step ih.osi hs, DoneInv_step ih.done hs, UnlInv_step ih.osi ih.done ih.unl hs,
      LockListInv_step ih.osi ih.locks hs⟩

/-- one-section programs: the list of `lock` events is the effect order, followed by the invocation
    that currently holds the mutex without having performed its effect yet (if any) -/
theorem lock_list {P : List (List (Invoc Op))} {s0 : σ} {c : Config σ Op Res} (hP : OS P)
    (h : Reach step (init P s0) c) : lockInvs c.tr = effInvs c.tr ++ pendingLock c :=
  (reach_os hP h).locks

theorem pendingLock_complete {c : Config σ Op Res} (hc : Complete c) : pendingLock c = [] := by
  unfold pendingLock
  cases c.holder with
  | none => rfl
  | some t => simp [hc t]

/-- … so in a complete execution the effect order IS the order of the `lock` events -/
theorem lock_list_complete {P : List (List (Invoc Op))} {s0 : σ} {c : Config σ Op Res} (hP : OS P)
    (h : Reach step (init P s0) c) (hc : Complete c) : lockInvs c.tr = effInvs c.tr := by
  rw [lock_list hP h, pendingLock_complete hc, List.append_nil]

/-- one-section programs: an `unlock` event comes after the effect of its invocation -/
theorem unlock_after_effect {P : List (List (Invoc Op))} {s0 : σ} {c : Config σ Op Res} (hP : OS P)
    (h : Reach step (init P s0) c) : UnlInv c := (reach_os hP h).unl

/-- all invocations of a one-section program are effectful: `expected` enumerates all of them -/
theorem expected_all (n : Nat) (l : List (Invoc Op)) (h : ∀ i ∈ l, effectful i.sk = true) :
    expected n l = (l.zipIdx n).map fun x => (x.2, x.1.op) := by
  induction l generalizing n with
  | nil => rfl
  | cons i r ih =>
    simp only [expected, h i (by simp), if_true, List.zipIdx_cons, List.map_cons]
    rw [ih (n + 1) (fun j hj => h j (by simp [hj]))]
    rfl

end OneSection
end Bch.Proofs.Locking
