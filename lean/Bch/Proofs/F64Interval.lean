import Bch.Proofs.F64Shortest
/-
  The rounding interval of a float, as used by `shortest`: a rational that rounds (`IsRN`) to the float `x`
  lies between the halfway points to the two neighbouring floats, end points allowed only for an even
  significand.  The neighbours are exhibited as the bit patterns `x ± 1`.
-/
namespace Bch.Proofs.F64
open Bch.Prim.F64

/-- the bit pattern of a float in terms of its decoded significand/exponent -/
theorem toNat_decodeAbs (x : UInt64) :
    x.toNat = sgnF x * 2^63 + ((decodeAbs x).2 + 1074).toNat * 2^52 + (decodeAbs x).1 ∧
    ((decodeAbs x).1 < 2^52 → (decodeAbs x).2 = -1074) ∧
    (isFinite x = true → (decodeAbs x).2 ≤ 971) := by
  have hf := toNat_fields x
  rw [isFinite_iff, decodeAbs_eq]
  split
  · rename_i h; simp only; refine ⟨by omega, fun _ => trivial, fun _ => by omega⟩
  · rename_i h; simp only; refine ⟨by omega, fun _ => by omega, fun _ => by omega⟩

theorem fval_of_sgnF (y x : UInt64) (h : sgnF y = sgnF x) : fval y = sgnQ x * absval y := by
  unfold fval; rw [sgnQ_eq_of_isNeg y x (isNeg_eq_of_sgnF y x h)]

theorem sgnQ_sq (x : UInt64) : sgnQ x * sgnQ x = 1 := by unfold sgnQ; split <;> norm_num

theorem mid_of_abs_le_right (a X Y : ℚ) (hXY : X < Y) (h : |a - X| ≤ |a - Y|) : a ≤ (X + Y) / 2 := by
  by_contra hc
  rw [not_le] at hc
  rw [abs_of_nonneg (by linarith)] at h
  rcases le_total a Y with h1 | h1
  · rw [abs_of_nonpos (by linarith)] at h; linarith
  · rw [abs_of_nonneg (by linarith)] at h; linarith

theorem mid_of_abs_le_left (a X Y : ℚ) (hYX : Y < X) (h : |a - X| ≤ |a - Y|) : (X + Y) / 2 ≤ a := by
  by_contra hc
  rw [not_le] at hc
  rw [abs_of_nonpos (by linarith)] at h
  rcases le_total a Y with h1 | h1
  · rw [abs_of_nonpos (by linarith)] at h; linarith
  · rw [abs_of_nonneg (by linarith)] at h; linarith

/-- the next float up (same sign, larger magnitude) -/
theorem succ_float (x : UInt64) (he : (decodeAbs x).2 ≤ 970) :
    ∃ y, val y = some (sgnQ x * (((decodeAbs x).1 + 1 : Nat) * 2^(decodeAbs x).2)) := by
  obtain ⟨h1, h2, _⟩ := toNat_decodeAbs x
  obtain ⟨hm53, hge⟩ := decodeAbs_bounds x
  have hs := (toNat_fields x).2.1
  set m := (decodeAbs x).1
  set e := (decodeAbs x).2
  have hlt : x.toNat + 1 < 2^64 := by have := x.toNat_lt; omega
  have hy : (UInt64.ofNat (x.toNat + 1)).toNat = sgnF x * 2^63 + (e + 1074).toNat * 2^52 + (m + 1) := by
    rw [UInt64.toNat_ofNat', Nat.mod_eq_of_lt hlt]; omega
  obtain ⟨hf, hsg, hab⟩ := absval_of_pack _ (sgnF x) (e + 1074).toNat (m + 1) hs hy (by omega)
    (fun h => by have := h2 (by omega); omega) (by omega)
  refine ⟨UInt64.ofNat (x.toNat + 1), (val_eq_some_iff _ _).mpr ⟨hf, ?_⟩⟩
  rw [fval_of_sgnF _ x hsg, hab]
  congr 3; omega

/-- the next float down (same sign, smaller magnitude): `(m-1)·2^e`, or `(2m-1)·2^(e-1)` at a binade
boundary -/
theorem pred_float (x : UInt64) (hx : isFinite x = true) (hm : (decodeAbs x).1 ≠ 0) :
    ∃ y, val y = some (sgnQ x *
      (if (decodeAbs x).1 > 4503599627370496 ∨ (decodeAbs x).2 = -1074
        then (((decodeAbs x).1 - 1 : Nat) : ℚ) * 2^(decodeAbs x).2
        else ((2 * (decodeAbs x).1 - 1 : Nat) : ℚ) * 2^((decodeAbs x).2 - 1))) := by
  obtain ⟨h1, h2, h3⟩ := toNat_decodeAbs x
  have h3 := h3 hx
  obtain ⟨hm53, hge⟩ := decodeAbs_bounds x
  have hs := (toNat_fields x).2.1
  set m := (decodeAbs x).1
  set e := (decodeAbs x).2
  have hlt : x.toNat - 1 < 2^64 := by have := x.toNat_lt; omega
  by_cases hc : m > 4503599627370496 ∨ e = -1074
  · rw [if_pos hc]
    have hy : (UInt64.ofNat (x.toNat - 1)).toNat = sgnF x * 2^63 + (e + 1074).toNat * 2^52 + (m - 1) := by
      rw [UInt64.toNat_ofNat', Nat.mod_eq_of_lt hlt]; omega
    obtain ⟨hf, hsg, hab⟩ := absval_of_pack _ (sgnF x) (e + 1074).toNat (m - 1) hs hy (by omega)
      (fun h => by rcases hc with hc | hc <;> omega) (by omega)
    refine ⟨UInt64.ofNat (x.toNat - 1), (val_eq_some_iff _ _).mpr ⟨hf, ?_⟩⟩
    rw [fval_of_sgnF _ x hsg, hab]
    congr 3; omega
  · rw [if_neg hc]
    have hm52 : m = 4503599627370496 := by
      by_contra hne
      have := h2 (by omega); omega
    have hy : (UInt64.ofNat (x.toNat - 1)).toNat =
        sgnF x * 2^63 + ((e + 1074).toNat - 1) * 2^52 + (2 * m - 1) := by
      rw [UInt64.toNat_ofNat', Nat.mod_eq_of_lt hlt]; omega
    obtain ⟨hf, hsg, hab⟩ := absval_of_pack _ (sgnF x) ((e + 1074).toNat - 1) (2 * m - 1) hs hy (by omega)
      (fun h => by omega) (by omega)
    refine ⟨UInt64.ofNat (x.toNat - 1), (val_eq_some_iff _ _).mpr ⟨hf, ?_⟩⟩
    rw [fval_of_sgnF _ x hsg, hab]
    congr 3; omega

theorem val_zero : val (0 : UInt64) = some 0 :=
  (val_eq_some_iff _ _).mpr ⟨isFinite_signedZero false, fval_signedZero false⟩

/-- **Rounding interval.**  If the rational `q` rounds to the non-zero float `x = ±m·2^e` (not in the top
binade), then `|q|` lies in the interval `shortest m e` works with, and `x` carries the sign of `q`. -/
theorem isRN_in_interval (q : ℚ) (x : UInt64) (h : IsRN q x) (hm : (decodeAbs x).1 ≠ 0)
    (he : (decodeAbs x).2 ≤ 970) :
    InIv ((decodeAbs x).1 % 2 == 0)
      ((shL (decodeAbs x).1 (decodeAbs x).2 : ℚ) * 2^((decodeAbs x).2 - 2))
      (((4 * (decodeAbs x).1 + 2 : Nat) : ℚ) * 2^((decodeAbs x).2 - 2)) |q| ∧
    q ≠ 0 ∧ isNeg x = decide (q < 0) := by
  obtain ⟨v, hv, hnear, htie, hneg, hpos⟩ := h
  obtain ⟨hx, hfv⟩ := (val_eq_some_iff x v).mp hv
  obtain ⟨hy1, hy2⟩ := succ_float x he, pred_float x hx hm
  obtain ⟨yu, hyu⟩ := hy1
  obtain ⟨yd, hyd⟩ := hy2
  obtain ⟨hbits, hsub, _⟩ := toNat_decodeAbs x
  have hX : absval x = ((decodeAbs x).1 : ℚ) * 2^(decodeAbs x).2 := rfl
  have hfx : fval x = sgnQ x * absval x := rfl
  set m := (decodeAbs x).1 with hmdef
  set e := (decodeAbs x).2 with hedef
  have h2e := two_zpow_pos e
  have hmq : (1:ℚ) ≤ m := by exact_mod_cast Nat.pos_of_ne_zero hm
  have hXpos : 0 < absval x := by rw [hX]; positivity
  -- q is not zero
  have hq0 : q ≠ 0 := by
    rintro rfl
    have := hnear 0 0 val_zero
    rw [sub_zero, abs_zero, zero_sub, abs_neg] at this
    have h0 : v = 0 := abs_eq_zero.mp (le_antisymm this (abs_nonneg _))
    rw [← hfv, hfx] at h0
    rcases mul_eq_zero.mp h0 with h1 | h1
    · unfold sgnQ at h1; split at h1 <;> norm_num at h1
    · linarith
  have hsgn : q = sgnQ x * |q| ∧ isNeg x = decide (q < 0) := by
    rcases lt_or_gt_of_ne hq0 with hlt | hgt
    · have := hneg hlt
      unfold sgnQ; rw [this, abs_of_neg hlt]; simp [hlt]
    · have := hpos hgt
      unfold sgnQ; rw [this, abs_of_pos hgt]; simp [hgt.le]
  refine ⟨?_, hq0, hsgn.2⟩
  -- comparison with a float of the same sign, in magnitudes
  have hcmp : ∀ Y : ℚ, |q - v| ≤ |q - sgnQ x * Y| → |(|q|) - absval x| ≤ |(|q|) - Y| := by
    intro Y hY
    have e1 : q - v = sgnQ x * (|q| - absval x) := by rw [← hfv, hfx]; nth_rewrite 1 [hsgn.1]; ring
    have e2 : q - sgnQ x * Y = sgnQ x * (|q| - Y) := by nth_rewrite 1 [hsgn.1]; ring
    have e3 : |sgnQ x| = 1 := by unfold sgnQ; split <;> norm_num
    rwa [e1, e2, abs_mul, abs_mul, e3, one_mul, one_mul] at hY
  have hcmpeq : ∀ Y : ℚ, |(|q|) - Y| = |(|q|) - absval x| → |q - sgnQ x * Y| = |q - v| := by
    intro Y hY
    have e1 : q - v = sgnQ x * (|q| - absval x) := by rw [← hfv, hfx]; nth_rewrite 1 [hsgn.1]; ring
    have e2 : q - sgnQ x * Y = sgnQ x * (|q| - Y) := by nth_rewrite 1 [hsgn.1]; ring
    have e3 : |sgnQ x| = 1 := by unfold sgnQ; split <;> norm_num
    rw [e1, e2, abs_mul, abs_mul, e3, one_mul, one_mul]; exact hY
  have hne : ∀ Y : ℚ, Y ≠ absval x → sgnQ x * Y ≠ v := by
    intro Y hY hc
    apply hY
    rw [← hfv, hfx] at hc
    have := congrArg (fun t => sgnQ x * t) hc
    simp only [← mul_assoc, sgnQ_sq, one_mul] at this
    exact this
  have hpar : x.toNat % 2 = 0 → (m % 2 == 0) = true := by
    intro h; rw [beq_iff_eq]; omega
  -- upper end point
  have hhi : ((4 * m + 2 : Nat) : ℚ) * 2^(e - 2) = (absval x + ((m + 1 : Nat) : ℚ) * 2^e) / 2 := by
    rw [hX, zpow_sub₀ (by norm_num : (2:ℚ) ≠ 0)]; push_cast; ring
  have hU : |q| ≤ ((4 * m + 2 : Nat) : ℚ) * 2^(e - 2) ∧
      (|q| = ((4 * m + 2 : Nat) : ℚ) * 2^(e - 2) → (m % 2 == 0) = true) := by
    have hlt : absval x < ((m + 1 : Nat) : ℚ) * 2^e := by rw [hX]; push_cast; nlinarith
    have hc := hcmp _ (hnear yu _ hyu)
    rw [hhi]
    refine ⟨mid_of_abs_le_right _ _ _ hlt hc, fun heq => hpar ?_⟩
    refine htie yu _ hyu (hne _ hlt.ne') (hcmpeq _ ?_)
    rw [heq, abs_of_nonpos (by linarith), abs_of_nonneg (by linarith)]; ring
  -- lower end point
  have hL : (shL m e : ℚ) * 2^(e - 2) ≤ |q| ∧
      (|q| = (shL m e : ℚ) * 2^(e - 2) → (m % 2 == 0) = true) := by
    by_cases hc : m > 4503599627370496 ∨ e = -1074
    · rw [if_pos hc] at hyd
      have hLe : shL m e = 4 * m - 2 := by
        unfold shL; rcases hc with hc | hc
        · simp [hc]
        · simp [hc]
      have hlo : (shL m e : ℚ) * 2^(e - 2) = (absval x + ((m - 1 : Nat) : ℚ) * 2^e) / 2 := by
        have : ((4 * m - 2 : Nat) : ℚ) = 4 * m - 2 := by
          have : 2 ≤ 4 * m := by omega
          push_cast [Nat.cast_sub this]; ring
        rw [hLe, this, hX, zpow_sub₀ (by norm_num : (2:ℚ) ≠ 0), Nat.cast_sub (by omega)]; push_cast; ring
      have hlt : ((m - 1 : Nat) : ℚ) * 2^e < absval x := by
        rw [hX, Nat.cast_sub (by omega)]; push_cast; nlinarith
      have hc' := hcmp _ (hnear yd _ hyd)
      rw [hlo]
      refine ⟨mid_of_abs_le_left _ _ _ hlt hc', fun heq => hpar ?_⟩
      refine htie yd _ hyd (hne _ hlt.ne) (hcmpeq _ ?_)
      rw [heq, abs_of_nonneg (by linarith), abs_of_nonpos (by linarith)]; ring
    · rw [if_neg hc] at hyd
      have hLe : shL m e = 4 * m - 1 := by
        unfold shL
        have h1 : ¬ m > 4503599627370496 := fun h => hc (Or.inl h)
        have h2 : ¬ e = -1074 := fun h => hc (Or.inr h)
        simp [h1, h2]
      have hlo : (shL m e : ℚ) * 2^(e - 2) = (absval x + ((2 * m - 1 : Nat) : ℚ) * 2^(e - 1)) / 2 := by
        rw [hLe, hX, zpow_sub₀ (by norm_num : (2:ℚ) ≠ 0), zpow_sub₀ (by norm_num : (2:ℚ) ≠ 0),
          Nat.cast_sub (by omega), Nat.cast_sub (by omega)]; push_cast; ring
      have hlt : ((2 * m - 1 : Nat) : ℚ) * 2^(e - 1) < absval x := by
        rw [hX, zpow_sub₀ (by norm_num : (2:ℚ) ≠ 0), Nat.cast_sub (by omega)]; push_cast; nlinarith
      have hc' := hcmp _ (hnear yd _ hyd)
      rw [hlo]
      refine ⟨mid_of_abs_le_left _ _ _ hlt hc', fun heq => hpar ?_⟩
      refine htie yd _ hyd (hne _ hlt.ne) (hcmpeq _ ?_)
      rw [heq, abs_of_nonneg (by linarith), abs_of_nonpos (by linarith)]; ring
  -- assemble
  rcases lt_or_eq_of_le hL.1 with h1 | h1
  · rcases lt_or_eq_of_le hU.1 with h2 | h2
    · exact Or.inl ⟨h1, h2⟩
    · exact Or.inr ⟨hU.2 h2, Or.inr h2⟩
  · exact Or.inr ⟨hL.2 h1.symm, Or.inl h1.symm⟩

/-- every finite float has a mirror image -/
theorem val_neg_some (y : UInt64) (w : ℚ) (h : val y = some w) : val (neg y) = some (-w) := by
  rw [val_neg, h]; rfl

/-- **Converse: the interval rounds to the float.**  Every rational `r` in the rounding interval of the
non-zero finite float `x = ±m·2^e`, taken with the sign of `x`, rounds to `x`. -/
theorem in_interval_isRN (x : UInt64) (hx : isFinite x = true) (hm : (decodeAbs x).1 ≠ 0) (r : ℚ)
    (hr : InIv ((decodeAbs x).1 % 2 == 0)
      ((shL (decodeAbs x).1 (decodeAbs x).2 : ℚ) * 2^((decodeAbs x).2 - 2))
      (((4 * (decodeAbs x).1 + 2 : Nat) : ℚ) * 2^((decodeAbs x).2 - 2)) r) :
    IsRN (sgnQ x * r) x := by
  obtain ⟨hbits, hsub, _⟩ := toNat_decodeAbs x
  obtain ⟨hm53, hge⟩ := decodeAbs_bounds x
  have hX : absval x = ((decodeAbs x).1 : ℚ) * 2^(decodeAbs x).2 := rfl
  have hfx : fval x = sgnQ x * absval x := rfl
  set m := (decodeAbs x).1 with hmdef
  set e := (decodeAbs x).2 with hedef
  have h2e := two_zpow_pos e
  have h2e2 : (2:ℚ) ^ (e - 2) = 2 ^ e / 4 := by
    rw [zpow_sub₀ (by norm_num : (2:ℚ) ≠ 0)]; norm_num
  have h2e1 : (2:ℚ) ^ (e - 1) = 2 ^ e / 2 := by
    rw [zpow_sub₀ (by norm_num : (2:ℚ) ≠ 0)]; norm_num
  obtain ⟨hL1, hL2, hL3⟩ := shL_bounds m e (Nat.pos_of_ne_zero hm)
  have hmq : (1:ℚ) ≤ m := by exact_mod_cast Nat.pos_of_ne_zero hm
  -- facts from interval membership
  have hlohi : (shL m e : ℚ) * 2 ^ (e - 2) ≤ ((4 * m + 2 : Nat) : ℚ) * 2 ^ (e - 2) := by
    have : (shL m e : ℚ) ≤ ((4 * m + 2 : Nat) : ℚ) := by exact_mod_cast (by omega : shL m e ≤ 4 * m + 2)
    exact mul_le_mul_of_nonneg_right this (two_zpow_pos _).le
  have hlo := hr.lo_le hlohi
  have hhi := hr.le_hi hlohi
  have hend : (r = (shL m e : ℚ) * 2 ^ (e - 2) ∨ r = ((4 * m + 2 : Nat) : ℚ) * 2 ^ (e - 2)) →
      x.toNat % 2 = 0 := by
    intro h
    have hincl : (m % 2 == 0) = true := by
      rcases hr with ⟨h1, h2⟩ | ⟨h1, _⟩
      · rcases h with h | h <;> linarith
      · exact h1
    rw [beq_iff_eq] at hincl; omega
  have hLq : (4 * (m:ℚ) - 2) ≤ (shL m e : ℚ) := by
    have : ((4 * m - 2 : Nat) : ℚ) ≤ (shL m e : ℚ) := by exact_mod_cast hL1
    rw [Nat.cast_sub (by omega)] at this
    push_cast at this; exact this
  have hhiq : ((4 * m + 2 : Nat) : ℚ) * 2 ^ (e - 2) = absval x + 2 ^ e / 2 := by
    rw [hX, h2e2]; push_cast; ring
  have hrpos : 0 < r := by
    have : (0:ℚ) < (shL m e : ℚ) * 2 ^ (e - 2) := by
      have : (0:ℚ) < shL m e := by exact_mod_cast hL3
      have := two_zpow_pos (e - 2)
      positivity
    linarith
  -- unsigned comparison with every float
  have hU : ∀ y : UInt64, isFinite y = true →
      |r - absval x| ≤ |r - fval y| ∧
      (fval y ≠ absval x → |r - fval y| = |r - absval x| → x.toNat % 2 = 0) := by
    intro y _
    by_cases hB : r < absval x ∧ m = 4503599627370496 ∧ -1074 < e
    · -- just below a binade boundary: the grid is 2^(e-1)
      obtain ⟨hrX, hm52, he⟩ := hB
      have hLe : shL m e = 4 * m - 1 := by
        unfold shL
        have h1 : ¬ m > 4503599627370496 := by omega
        have h2 : ¬ e = -1074 := by omega
        simp [h1, h2]
      have hloq : (shL m e : ℚ) * 2 ^ (e - 2) = absval x - 2 ^ e / 4 := by
        rw [hLe, hX, h2e2, Nat.cast_sub (by omega)]; push_cast; ring
      have hmant : ((2 * m : Nat) : ℚ) * 2 ^ (e - 1) = absval x := by rw [hX, h2e1]; push_cast; ring
      have hm52q : (m:ℚ) = 4503599627370496 := by exact_mod_cast hm52
      have := nearest_unsigned r (2 ^ (e - 1)) (two_zpow_pos _) (2 * m) (-1074 < e - 1)
        (by rw [hmant, h2e1, abs_le]; constructor <;> linarith)
        (fun _ => ⟨by omega, by rw [h2e1]; rw [hloq, hX, hm52q] at hlo; linarith⟩)
        (fval y) (float_grid y (e - 1) (by omega))
      rw [hmant] at this
      refine ⟨this.1, fun hne heq => hend (Or.inl ?_)⟩
      have h3 := this.2 hne heq
      rw [abs_of_neg (by linarith), h2e1] at h3
      rw [hloq]; linarith
    · -- regular case: the grid is 2^e
      have hreg : absval x ≤ r ∨ m > 4503599627370496 ∨ e = -1074 := by
        by_contra hc
        simp only [not_or, not_le] at hc
        apply hB
        refine ⟨hc.1, ?_, by omega⟩
        by_contra hne
        have := hsub (by omega); omega
      have hlo' : absval x - 2 ^ e / 2 ≤ r := by
        have : (4 * (m:ℚ) - 2) * 2 ^ (e - 2) ≤ (shL m e : ℚ) * 2 ^ (e - 2) :=
          mul_le_mul_of_nonneg_right hLq (two_zpow_pos _).le
        have hlo2 := hlo
        rw [h2e2] at this hlo2; rw [hX]; linarith
      have := nearest_unsigned r (2 ^ e) h2e m (-1074 < e)
        (by rw [← hX, abs_le]; constructor <;> linarith)
        (fun hP => ⟨by by_contra hc; have := hsub (by omega); omega, by
          have hm52 : (2:ℚ)^52 ≤ m := by
            have : 2^52 ≤ m := by by_contra hc; have := hsub (by omega); omega
            exact_mod_cast this
          rcases hreg with h | h | h
          · rw [hX] at h; nlinarith
          · have : (2:ℚ)^52 + 1 ≤ m := by exact_mod_cast h
            rw [hX] at hlo'; nlinarith
          · omega⟩)
        (fval y) (float_grid y e hge)
      rw [← hX] at this
      refine ⟨this.1, fun hne heq => hend ?_⟩
      have h3 := this.2 hne heq
      rcases le_total (absval x) r with h | h
      · right; rw [abs_of_nonneg (by linarith)] at h3; rw [hhiq]; linarith
      · left
        rw [abs_of_nonpos (by linarith)] at h3
        rcases hreg with h' | h' | h'
        · -- r = absval x, impossible with a half-ulp distance
          have : r = absval x := le_antisymm h h'
          linarith
        · have hLe : shL m e = 4 * m - 2 := by unfold shL; simp [h']
          rw [hLe, h2e2, Nat.cast_sub (by omega)]; push_cast; rw [hX] at h3; linarith
        · have hLe : shL m e = 4 * m - 2 := by unfold shL; simp [h']
          rw [hLe, h2e2, Nat.cast_sub (by omega)]; push_cast; rw [hX] at h3; linarith
  -- transfer to the signed statement
  have hs1 : |sgnQ x| = 1 := by unfold sgnQ; split <;> norm_num
  have hmirror : ∀ y w, val y = some w → ∃ y', isFinite y' = true ∧ fval y' = sgnQ x * w := by
    intro y w hy
    by_cases hn : isNeg x = true
    · refine ⟨neg y, ?_, ?_⟩
      · exact ((val_eq_some_iff _ _).mp (val_neg_some y w hy)).1
      · rw [((val_eq_some_iff _ _).mp (val_neg_some y w hy)).2]; unfold sgnQ; rw [if_pos hn]; ring
    · refine ⟨y, ((val_eq_some_iff _ _).mp hy).1, ?_⟩
      rw [((val_eq_some_iff _ _).mp hy).2]; unfold sgnQ; rw [if_neg hn]; ring
  have hdist : ∀ w : ℚ, |sgnQ x * r - w| = |r - sgnQ x * w| := by
    intro w
    have : sgnQ x * r - w = sgnQ x * (r - sgnQ x * w) := by
      rw [mul_sub, ← mul_assoc, sgnQ_sq, one_mul]
    rw [this, abs_mul, hs1, one_mul]
  refine ⟨fval x, (val_eq_some_iff _ _).mpr ⟨hx, rfl⟩, ?_, ?_, ?_, ?_⟩
  · intro y w hy
    obtain ⟨y', hy', hfy'⟩ := hmirror y w hy
    rw [hdist, hdist, ← hfy', hfx, ← mul_assoc, sgnQ_sq, one_mul]
    exact (hU y' hy').1
  · intro y w hy hne heq
    obtain ⟨y', hy', hfy'⟩ := hmirror y w hy
    rw [hdist, hdist, ← hfy', hfx, ← mul_assoc, sgnQ_sq, one_mul] at heq
    refine (hU y' hy').2 ?_ heq
    intro hc
    apply hne
    rw [hfx, ← hc, hfy', ← mul_assoc, sgnQ_sq, one_mul]
  · intro hq
    by_contra hn
    have : sgnQ x = 1 := by unfold sgnQ; rw [if_neg hn]
    rw [this, one_mul] at hq; linarith
  · intro hq
    by_contra hn
    have hn' : isNeg x = true := by simpa using hn
    have : sgnQ x = -1 := by unfold sgnQ; rw [if_pos hn']
    rw [this] at hq; linarith

end Bch.Proofs.F64
