import Bch.Model.HDHeapNew
import Bch.Proofs.HDHeap
/-
Helper lemmas for the extension of property C15 to the raw constructor `NewExtendedKey`
(`Model/HDHeapNew.lean`): caller writes, the shape of the key table after every library operation
(`Ext`), part 1.
-/
namespace Bch.Proofs.HDHeapNew
open Bch Bch.Model Bch.Model.HDKey Bch.Model.HDHeap Bch.Model.HDHeapNew Bch.Proofs.HDHeap

/-! ### caller writes -/

theorem writeBuf_length (r : Ref) (data b : Bytes) : (writeBuf r data b).length = b.length := by
  simp [writeBuf]

theorem writeBuf_getElem? (r : Ref) (data b : Bytes) (n : Nat) :
    (writeBuf r data b)[n]? =
      b[n]?.map fun x => if r.off ≤ n ∧ n < r.off + r.len then data.getD (n - r.off) x else x := by
  simp only [writeBuf, List.getElem?_map, List.getElem?_zipIdx, Option.map_map]
  cases b[n]? <;> simp

theorem writeBuf_nil (r : Ref) (data : Bytes) : writeBuf r data [] = [] := rfl

theorem writeH_keys (h : Heap) (r : Ref) (d : Bytes) : (writeH h r d).keys = h.keys := rfl

theorem writeH_bufs_length (h : Heap) (r : Ref) (d : Bytes) :
    (writeH h r d).bufs.length = h.bufs.length := by simp [writeH]

theorem buf_writeH (h : Heap) (r : Ref) (d : Bytes) (n : Nat) :
    buf (writeH h r d) n = if n = r.buf then writeBuf r d (buf h n) else buf h n := by
  unfold buf writeH
  simp only [List.getD_eq_getElem?_getD, List.getElem?_modify]
  by_cases hn : n = r.buf
  · subst hn
    simp only [if_true]
    cases h.bufs[r.buf]? with
    | none => simp [writeBuf_nil]
    | some b => simp
  · have : ¬ r.buf = n := fun e => hn e.symm
    simp [hn, this]

theorem InB_writeH {h : Heap} {s : Ref} (r : Ref) (d : Bytes) : InB (writeH h r d) s ↔ InB h s := by
  unfold InB
  rw [buf_writeH]
  split
  · rw [writeBuf_length]
  · rfl

theorem read_writeH_getElem? (h : Heap) (r s : Ref) (d : Bytes) (m : Nat) :
    ((writeH h r d).read s)[m]? =
      if m < s.len then
        (if s.buf = r.buf then (writeBuf r d (buf h s.buf))[s.off + m]? else (buf h s.buf)[s.off + m]?)
      else none := by
  rw [read_getElem?, buf_writeH]
  by_cases hm : m < s.len
  · simp only [hm, if_true]
    split <;> rfl
  · simp [hm]

/-- **frame lemma for a caller write**: a slice that does not overlap the written slice reads the same -/
theorem read_writeH_of_not_overlap (h : Heap) (r s : Ref) (d : Bytes) (hov : overlap r s = false) :
    (writeH h r d).read s = h.read s := by
  apply List.ext_getElem?
  intro m
  rw [read_writeH_getElem?, read_getElem?]
  by_cases hm : m < s.len
  · simp only [hm, if_true]
    by_cases hb : s.buf = r.buf
    · rw [if_pos hb, writeBuf_getElem?]
      have : ¬ (r.off ≤ s.off + m ∧ s.off + m < r.off + r.len) := by
        simp only [overlap, hb, decide_true, Bool.true_and, Bool.and_eq_false_iff,
          decide_eq_false_iff_not] at hov
        omega
      simp only [this, if_false]
      cases (buf h s.buf)[s.off + m]? <;> rfl
    · rw [if_neg hb]
  · simp [hm]

theorem read_writeH_len0 (h : Heap) (r s : Ref) (d : Bytes) (hr : r.len = 0) :
    (writeH h r d).read s = h.read s := by
  apply List.ext_getElem?
  intro m
  rw [read_writeH_getElem?, read_getElem?]
  by_cases hm : m < s.len
  · simp only [hm, if_true]
    split
    · rw [writeBuf_getElem?]
      have : ¬ (r.off ≤ s.off + m ∧ s.off + m < r.off + r.len) := by omega
      simp only [this, if_false]
      cases (buf h s.buf)[s.off + m]? <;> rfl
    · rfl
  · simp [hm]

theorem read_writeH_disj (h : Heap) (r s : Ref) (d : Bytes)
    (hov : 0 < r.len → 0 < s.len → overlap r s = false) : (writeH h r d).read s = h.read s := by
  by_cases hr : r.len = 0
  · exact read_writeH_len0 h r s d hr
  · by_cases hs : s.len = 0
    · simp [read_eq, hs]
    · exact read_writeH_of_not_overlap h r s d (hov (by omega) (by omega))

/-- the written slice reads back what was written (slice in bounds, data of the slice's length) -/
theorem read_writeH_self {h : Heap} {r : Ref} (d : Bytes) (hb : InB h r) (hd : d.length = r.len) :
    (writeH h r d).read r = d := by
  apply List.ext_getElem?
  intro m
  rw [read_writeH_getElem?]
  unfold InB at hb
  by_cases hm : m < r.len
  · simp only [hm, if_true]
    rw [writeBuf_getElem?]
    have h1 : r.off + m < (buf h r.buf).length := by omega
    rw [List.getElem?_eq_getElem h1]
    have h2 : r.off ≤ r.off + m ∧ r.off + m < r.off + r.len := by omega
    simp only [Option.map_some, h2, and_self, if_true]
    have h3 : r.off + m - r.off = m := by omega
    rw [h3, List.getD_eq_getElem?_getD, List.getElem?_eq_getElem (by omega)]
    simp
  · simp only [hm, if_false]
    rw [List.getElem?_eq_none (by omega)]

/-- `Heap.zero` is the caller-style write of `r.len` zero bytes -/
theorem zero_eq_writeH (h : Heap) (r : Ref) : h.zero r = writeH h r (List.replicate r.len 0) := by
  unfold Heap.zero writeH
  congr 1
  apply List.ext_getElem?
  intro n
  rw [List.getElem?_modify, List.getElem?_modify]
  cases h.bufs[n]? with
  | none => rfl
  | some b =>
    simp only [Option.map_eq_map, Option.map_some, Option.some.injEq]
    split
    · apply List.ext_getElem?
      intro m
      have hz := zeroBuf_getElem? r b m
      unfold zeroBuf at hz
      rw [hz, writeBuf_getElem?]
      by_cases hm : m < b.length
      · rw [List.getElem?_eq_getElem hm]
        simp only [Option.map_some]
        by_cases hc : r.off ≤ m ∧ m < r.off + r.len
        · have : (List.replicate r.len (0 : UInt8)).getD (m - r.off) b[m] = 0 := by
            rw [List.getD_eq_getElem?_getD, List.getElem?_replicate, if_pos (by omega)]; rfl
          rw [if_pos ⟨hc.1, hc.2, hm⟩, if_pos hc, this]
        · have : ¬ (r.off ≤ m ∧ m < r.off + r.len ∧ m < b.length) := fun e => hc ⟨e.1, e.2.1⟩
          rw [if_neg this, if_neg hc]
      · rw [List.getElem?_eq_none (by omega)]
        have : ¬ (r.off ≤ m ∧ m < r.off + r.len ∧ m < b.length) := fun e => hm e.2.2
        simp [this]
    · rfl

/-! ### in-bounds key tables; how an operation extends the key table -/

/-- every slice of every key lies within its buffer -/
def Bnd (h : Heap) : Prop := ∀ (i : Nat) (k : HKey), h.keys[i]? = some k → ∀ f : Nat, InB h (fld k f)

theorem bnd_of_inv {h : Heap} (hi : Inv h) : Bnd h := hi.bnd

/-- `h'` extends `h`: old slices stay in bounds; every non-empty range of the new key table is the old
range at the same (key, field) position, or lives in a buffer that did not exist in `h` — and then it
belongs to a new key or is a `pubKey` memo; the ranges in new buffers are pairwise disjoint. No
disjointness of the OLD ranges is assumed or claimed. -/
structure Ext (h h' : Heap) : Prop where
  bnd : Bnd h'
  len : h.bufs.length ≤ h'.bufs.length
  klen : h.keys.length ≤ h'.keys.length
  inb : ∀ r : Ref, InB h r → InB h' r
  orig : ∀ (a : Nat) (ka : HKey), h'.keys[a]? = some ka → ∀ f : Nat, f < 4 → 0 < (fld ka f).len →
    (∃ ka0, h.keys[a]? = some ka0 ∧ fld ka f = fld ka0 f) ∨
      (h.bufs.length ≤ (fld ka f).buf ∧ (h.keys.length ≤ a ∨ f = 1))
  fresh : ∀ (a b : Nat) (ka kb : HKey) (f g : Nat), h'.keys[a]? = some ka → h'.keys[b]? = some kb →
    f < 4 → g < 4 → (a, f) ≠ (b, g) → 0 < (fld ka f).len → 0 < (fld kb g).len →
    h.bufs.length ≤ (fld ka f).buf → h.bufs.length ≤ (fld kb g).buf →
    overlap (fld ka f) (fld kb g) = false

theorem Bnd.buf_lt {h : Heap} (hb : Bnd h) {a : Nat} {ka : HKey} (hk : h.keys[a]? = some ka) (f : Nat)
    (hl : 0 < (fld ka f).len) : (fld ka f).buf < h.bufs.length := (hb a ka hk f).buf_lt hl

theorem Ext.refl {h : Heap} (hb : Bnd h) : Ext h h where
  bnd := hb
  len := Nat.le_refl _
  klen := Nat.le_refl _
  inb := fun _ h => h
  orig := fun a ka hk f _ _ => Or.inl ⟨ka, hk, rfl⟩
  fresh := by
    intro a b ka kb f g hka _ _ _ _ hlf _ hna _
    have := hb.buf_lt hka f hlf
    omega

theorem Ext.trans {h h1 h2 : Heap} (e1 : Ext h h1) (e2 : Ext h1 h2) : Ext h h2 where
  bnd := e2.bnd
  len := Nat.le_trans e1.len e2.len
  klen := Nat.le_trans e1.klen e2.klen
  inb := fun r hr => e2.inb r (e1.inb r hr)
  orig := by
    intro a ka hka f hf hl
    rcases e2.orig a ka hka f hf hl with ⟨ka1, hka1, e⟩ | ⟨hn, hp⟩
    · rcases e1.orig a ka1 hka1 f hf (e ▸ hl) with ⟨ka0, hka0, e'⟩ | ⟨hn, hp⟩
      · exact Or.inl ⟨ka0, hka0, e.trans e'⟩
      · exact Or.inr ⟨e ▸ hn, hp⟩
    · refine Or.inr ⟨Nat.le_trans e1.len hn, ?_⟩
      rcases hp with hp | hp
      · exact Or.inl (Nat.le_trans e1.klen hp)
      · exact Or.inr hp
  fresh := by
    intro a b ka kb f g hka hkb hf hg hne hlf hlg hna hnb
    rcases e2.orig a ka hka f hf hlf with ⟨ka1, hka1, ea⟩ | ⟨hna2, _⟩
    · rcases e2.orig b kb hkb g hg hlg with ⟨kb1, hkb1, eb⟩ | ⟨hnb2, _⟩
      · rw [ea, eb]
        rw [ea] at hlf hna; rw [eb] at hlg hnb
        exact e1.fresh a b ka1 kb1 f g hka1 hkb1 hf hg hne hlf hlg hna hnb
      · apply overlap_of_buf_ne
        have := e1.bnd.buf_lt hka1 f (ea ▸ hlf)
        rw [ea]; omega
    · rcases e2.orig b kb hkb g hg hlg with ⟨kb1, hkb1, eb⟩ | ⟨hnb2, _⟩
      · apply overlap_of_buf_ne
        have := e1.bnd.buf_lt hkb1 g (eb ▸ hlg)
        rw [eb]; omega
      · exact e2.fresh a b ka kb f g hka hkb hf hg hne hlf hlg hna2 hnb2

theorem ext_alloc {h : Heap} (hb : Bnd h) (b : Bytes) : Ext h (h.alloc b).1 where
  bnd := fun i k hk f => InB_alloc b (hb i k hk f)
  len := by rw [alloc_bufs_length]; omega
  klen := Nat.le_refl _
  inb := fun _ hr => InB_alloc b hr
  orig := fun a ka hk f _ _ => Or.inl ⟨ka, hk, rfl⟩
  fresh := by
    intro a b' ka kb f g hka _ _ _ _ hlf _ hna _
    have := hb.buf_lt (h := h) hka f hlf
    omega

theorem ext_allocs {h : Heap} (hb : Bnd h) (bs : List Bytes) : Ext h (allocs h bs) := by
  induction bs generalizing h with
  | nil => exact Ext.refl hb
  | cons b bs ih => exact (ext_alloc hb b).trans (ih (ext_alloc hb b).bnd)

theorem ext_zero {h : Heap} (hb : Bnd h) (r : Ref) : Ext h (h.zero r) where
  bnd := fun i k hk f => (InB_zero r).mpr (hb i k hk f)
  len := by rw [zero_bufs_length]; omega
  klen := Nat.le_refl _
  inb := fun _ hr => (InB_zero r).mpr hr
  orig := fun a ka hk f _ _ => Or.inl ⟨ka, hk, rfl⟩
  fresh := by
    intro a b' ka kb f g hka _ _ _ _ hlf _ hna _
    have := hb.buf_lt (h := h) hka f hlf
    omega

theorem ext_zero4 {h : Heap} (hb : Bnd h) (k : HKey) : Ext h (zero4 h k) :=
  (((ext_zero hb k.key).trans (ext_zero (ext_zero hb k.key).bnd k.pubKey)).trans
    (ext_zero (ext_zero (ext_zero hb k.key).bnd k.pubKey).bnd k.chainCode)).trans
    (ext_zero (ext_zero (ext_zero (ext_zero hb k.key).bnd k.pubKey).bnd k.chainCode).bnd k.parentFP)

theorem setKey_cases {h : Heap} {i : Nat} {k' : HKey} {a : Nat} {ka : HKey}
    (hka : (h.setKey i k').keys[a]? = some ka) : (a = i ∧ ka = k') ∨ (a ≠ i ∧ h.keys[a]? = some ka) := by
  rw [setKey_keys, List.getElem?_set] at hka
  by_cases e : i = a
  · subst e
    rw [if_pos rfl] at hka
    split at hka
    · left; exact ⟨rfl, by simpa using hka.symm⟩
    · cases hka
  · rw [if_neg e] at hka
    right; exact ⟨fun e' => e e'.symm, hka⟩

theorem addKey_cases {h : Heap} {k : HKey} {a : Nat} {ka : HKey}
    (hka : (h.addKey k).1.keys[a]? = some ka) : (a = h.keys.length ∧ ka = k) ∨ (h.keys[a]? = some ka) := by
  rw [addKey_keys, List.getElem?_append] at hka
  split at hka
  · right; exact hka
  · left
    have : a - h.keys.length = 0 := by
      apply Classical.byContradiction; intro e
      rw [List.getElem?_eq_none (by simp; omega)] at hka; cases hka
    rw [this] at hka
    exact ⟨by omega, by simpa using hka.symm⟩

/-- replacing key `i` by a key whose non-memo fields are the old ones or empty, and whose `pubKey`
is the old one or a reference into a new buffer -/
theorem ext_setKey {h0 h : Heap} {i : Nat} {k k' : HKey} (e0 : Ext h0 h) (hk : h.keys[i]? = some k)
    (hi0 : i < h0.keys.length)
    (hb : ∀ f : Nat, InB h (fld k' f))
    (hf : ∀ f : Nat, f < 4 → f ≠ 1 → fld k' f = fld k f ∨ (fld k' f).len = 0)
    (h1 : fld k' 1 = fld k 1 ∨ h0.bufs.length ≤ (fld k' 1).buf)
    (hfr : ∀ (b : Nat) (kb : HKey) (g : Nat), h.keys[b]? = some kb → g < 4 → (b, g) ≠ (i, 1) →
      0 < (fld kb g).len → h0.bufs.length ≤ (fld k' 1).buf → fld k' 1 ≠ fld k 1 →
      overlap (fld k' 1) (fld kb g) = false) :
    Ext h0 (h.setKey i k') where
  bnd := by
    intro a ka hka f
    rcases setKey_cases hka with ⟨rfl, rfl⟩ | ⟨_, hka'⟩
    · exact hb f
    · exact e0.bnd a ka hka' f
  len := e0.len
  klen := by rw [setKey_keys, List.length_set]; exact e0.klen
  inb := e0.inb
  orig := by
    intro a ka hka f hf4 hl
    rcases setKey_cases hka with ⟨rfl, rfl⟩ | ⟨_, hka'⟩
    · by_cases e1 : f = 1
      · subst e1
        rcases h1 with e | e
        · rw [e] at hl ⊢; exact e0.orig a k hk 1 hf4 hl
        · exact Or.inr ⟨e, Or.inr rfl⟩
      · rcases hf f hf4 e1 with e | e
        · rw [e] at hl ⊢; exact e0.orig a k hk f hf4 hl
        · omega
    · exact e0.orig a ka hka' f hf4 hl
  fresh := by
    intro a b ka kb f g hka hkb hf4 hg4 hne hlf hlg hna hnb
    -- a position of the new table is an old position with the same range, or the new memo
    have key : ∀ a ka f, (h.setKey i k').keys[a]? = some ka → f < 4 → 0 < (fld ka f).len →
        (∃ ka1, h.keys[a]? = some ka1 ∧ fld ka f = fld ka1 f) ∨
          (a = i ∧ f = 1 ∧ ka = k' ∧ fld k' 1 ≠ fld k 1) := by
      intro a ka f hka hf4 hl
      rcases setKey_cases hka with ⟨rfl, rfl⟩ | ⟨_, hka'⟩
      · by_cases e1 : f = 1
        · subst e1
          by_cases e : fld ka 1 = fld k 1
          · exact Or.inl ⟨k, hk, e⟩
          · exact Or.inr ⟨rfl, rfl, rfl, e⟩
        · rcases hf f hf4 e1 with e | e
          · exact Or.inl ⟨k, hk, e⟩
          · omega
      · exact Or.inl ⟨ka, hka', rfl⟩
    rcases key a ka f hka hf4 hlf with ⟨ka1, hka1, ea⟩ | ⟨rfl, rfl, rfl, na⟩
    · rcases key b kb g hkb hg4 hlg with ⟨kb1, hkb1, eb⟩ | ⟨rfl, rfl, rfl, nb⟩
      · rw [ea, eb]
        rw [ea] at hlf hna; rw [eb] at hlg hnb
        exact e0.fresh a b ka1 kb1 f g hka1 hkb1 hf4 hg4 hne hlf hlg hna hnb
      · rw [overlap_comm, ea]
        exact hfr a ka1 f hka1 hf4 hne (ea ▸ hlf) hnb nb
    · rcases key b kb g hkb hg4 hlg with ⟨kb1, hkb1, eb⟩ | ⟨rfl, rfl, rfl, nb⟩
      · rw [eb]
        exact hfr b kb1 g hkb1 hg4 (fun e => hne e.symm) (eb ▸ hlg) hna na
      · exact absurd rfl hne

/-- adding a key all of whose non-empty ranges live in new buffers -/
theorem ext_addKey {h0 h : Heap} {k : HKey} (e0 : Ext h0 h)
    (hb : ∀ f : Nat, InB h (fld k f))
    (hn : ∀ f : Nat, f < 4 → 0 < (fld k f).len → h0.bufs.length ≤ (fld k f).buf)
    (hint : ∀ f g : Nat, f < 4 → g < 4 → f ≠ g → 0 < (fld k f).len → 0 < (fld k g).len →
      overlap (fld k f) (fld k g) = false)
    (hfr : ∀ (b : Nat) (kb : HKey) (f g : Nat), h.keys[b]? = some kb → f < 4 → g < 4 →
      0 < (fld k f).len → 0 < (fld kb g).len → overlap (fld k f) (fld kb g) = false) :
    Ext h0 (h.addKey k).1 where
  bnd := by
    intro a ka hka f
    rcases addKey_cases hka with ⟨rfl, rfl⟩ | hka'
    · exact hb f
    · exact e0.bnd a ka hka' f
  len := e0.len
  klen := by rw [addKey_keys, List.length_append]; have := e0.klen; omega
  inb := e0.inb
  orig := by
    intro a ka hka f hf4 hl
    rcases addKey_cases hka with ⟨rfl, rfl⟩ | hka'
    · exact Or.inr ⟨hn f hf4 hl, Or.inl e0.klen⟩
    · exact e0.orig a ka hka' f hf4 hl
  fresh := by
    intro a b ka kb f g hka hkb hf4 hg4 hne hlf hlg hna hnb
    rcases addKey_cases hka with ⟨rfl, rfl⟩ | hka'
    · rcases addKey_cases hkb with ⟨rfl, rfl⟩ | hkb'
      · exact hint f g hf4 hg4 (fun e => hne (by rw [e])) hlf hlg
      · exact hfr b kb f g hkb' hf4 hg4 hlf hlg
    · rcases addKey_cases hkb with ⟨rfl, rfl⟩ | hkb'
      · rw [overlap_comm]; exact hfr a ka g f hka' hg4 hf4 hlg hlf
      · exact e0.fresh a b ka kb f g hka' hkb' hf4 hg4 hne hlf hlg hna hnb

theorem ext_allocs_addKey {h0 h : Heap} (e0 : Ext h0 h) (bs : List Bytes) {k : HKey}
    (hb : ∀ f : Nat, InB (allocs h bs) (fld k f))
    (hn : ∀ f : Nat, f < 4 → 0 < (fld k f).len → h.bufs.length ≤ (fld k f).buf)
    (hint : ∀ f g : Nat, f < 4 → g < 4 → f ≠ g → 0 < (fld k f).len → 0 < (fld k g).len →
      overlap (fld k f) (fld k g) = false) : Ext h0 ((allocs h bs).addKey k).1 := by
  apply ext_addKey (e0.trans (ext_allocs e0.bnd bs)) hb
    (fun f hf hl => Nat.le_trans e0.len (hn f hf hl)) hint
  intro b kb f g hkb hf hg hlf hlg
  apply overlap_of_buf_ne
  rw [allocs_keys] at hkb
  have := e0.bnd.buf_lt hkb g hlg
  have := hn f hf hlf
  omega

/-! ### every library operation extends the key table (no disjointness assumed) -/

section
variable {Pt : Type} (X : HDExt Pt)

theorem ext_pubKeyBytesH {h : Heap} (hb : Bnd h) (i : Nat) : Ext h (pubKeyBytesH X h i).1 := by
  rw [pubKeyBytesH_eq]
  split
  · exact Ext.refl hb
  · next k hk =>
    split
    · exact Ext.refl hb
    · split
      · apply ext_setKey (k := k) (ext_alloc hb _) (by rw [alloc_keys]; exact hk)
          (List.getElem?_eq_some_iff.mp hk).1
        · rw [forall_fld]
          have hbk := hb i k hk
          rw [forall_fld] at hbk
          refine ⟨InB_alloc _ hbk.1, ?_, InB_alloc _ hbk.2.2.1, InB_alloc _ hbk.2.2.2⟩
          simp [memoKey, InB, buf_alloc]
        · rw [forall_lt_four]; simp [memoKey]
        · right; simp [memoKey]
        · intro b kb g hkb hg hne hl hn hne'
          apply overlap_of_buf_ne
          rw [alloc_keys] at hkb
          have := hb.buf_lt hkb g hl
          simp only [fld_one, memoKey]
          omega
      · exact Ext.refl hb

theorem ext_newMasterH (hX : ExtOK X) {h : Heap} (hb : Bnd h) (seed hdPriv : Bytes) :
    Ext h (newMasterH X h seed hdPriv).1 := by
  rw [newMasterH_eq]
  split
  · exact Ext.refl hb
  · next xk e =>
    obtain ⟨hk, hc⟩ := NewMaster_ok X hX e
    apply ext_allocs_addKey (Ext.refl hb)
    · rw [forall_fld]
      refine ⟨?_, InB_nil _, ?_, ?_⟩
      · exact (InB_allocs_new h _ 0 0 32).mpr (by simp [hk, hc])
      · exact (InB_allocs_new h _ 0 32 32).mpr (by simp [hk, hc])
      · exact (InB_allocs_new h _ 1 0 4).mpr (by simp)
    · rw [forall_lt_four]; simp [masterKeyH, Ref.nil]
    · rw [forall_lt_four2]; simp only [forall_lt_four]; simp [masterKeyH, overlap, Ref.nil]

theorem ext_newKeyFromStringH {h : Heap} (hb : Bnd h) (s : Bytes) :
    Ext h (newKeyFromStringH X h s).1 := by
  rw [newKeyFromStringH_eq]
  split
  · exact Ext.refl hb
  · next xk e =>
    have hl := NewKeyFromString_ok X e
    apply ext_allocs_addKey (Ext.refl hb)
    · rw [forall_fld]
      refine ⟨?_, InB_nil _, ?_, ?_⟩
      · unfold parsedKeyH; simp only
        split
        · exact (InB_allocs_new h _ 0 46 32).mpr (by simp [hl])
        · exact (InB_allocs_new h _ 0 45 33).mpr (by simp [hl])
      · exact (InB_allocs_new h _ 0 13 32).mpr (by simp [hl])
      · exact (InB_allocs_new h _ 0 5 4).mpr (by simp [hl])
    · rw [forall_lt_four]; unfold parsedKeyH; cases xk.isPrivate <;> simp [Ref.nil]
    · rw [forall_lt_four2]; simp only [forall_lt_four]
      unfold parsedKeyH; cases xk.isPrivate <;> simp [overlap, Ref.nil]

theorem ext_childH (hX : ExtOK X) {h : Heap} (hb : Bnd h) (i idx : Nat) :
    Ext h (childH X h i idx).1 := by
  rw [childH_eq]
  split
  · exact Ext.refl hb
  · next k hk =>
    split
    · simp only
      split
      · exact ext_pubKeyBytesH X hb i
      · exact Ext.refl hb
    · next c e =>
      have hc := Child_ok X hX e
      apply ext_allocs_addKey (ext_pubKeyBytesH X hb i)
      · rw [forall_fld]
        refine ⟨?_, InB_nil _, ?_, ?_⟩
        · exact (InB_allocs_new _ _ 1 0 _).mpr (by simp)
        · exact (InB_allocs_new _ _ 0 32 32).mpr (by simp [hc])
        · exact (InB_allocs_new _ _ 2 0 4).mpr (by simp)
      · rw [forall_lt_four]; simp [childKeyH, Ref.nil]
      · rw [forall_lt_four2]; simp only [forall_lt_four]; simp [childKeyH, overlap, Ref.nil]

theorem ext_neuterH {h : Heap} (hb : Bnd h) (i : Nat) : Ext h (neuterH X h i).1 := by
  rw [neuterH_eq]
  split
  · exact Ext.refl hb
  · next k hk =>
    split
    · exact Ext.refl hb
    · split
      · exact Ext.refl hb
      · next p e =>
        apply ext_allocs_addKey (ext_pubKeyBytesH X hb i)
        · rw [forall_fld]
          refine ⟨?_, InB_nil _, ?_, ?_⟩
          · exact (InB_allocs_new _ _ 0 0 _).mpr (by simp)
          · exact (InB_allocs_new _ _ 1 0 _).mpr (by simp)
          · exact (InB_allocs_new _ _ 2 0 _).mpr (by simp)
        · rw [forall_lt_four]; simp [neuterKeyH, Ref.nil]
        · rw [forall_lt_four2]; simp only [forall_lt_four]; simp [neuterKeyH, overlap, Ref.nil]

theorem ext_setNetH {h : Heap} (hb : Bnd h) (i : Nat) (hdPriv hdPub : Bytes) :
    Ext h (setNetH h i hdPriv hdPub) := by
  unfold setNetH
  split
  · exact Ext.refl hb
  · next k hk =>
    apply ext_setKey (k := k) (Ext.refl hb) hk (List.getElem?_eq_some_iff.mp hk).1
    · have hbk := hb i k hk
      rw [forall_fld] at hbk ⊢
      exact hbk
    · rw [forall_lt_four]; simp
    · left; rfl
    · intro b kb g _ _ _ _ _ hne; exact absurd rfl hne

theorem ext_zeroH {h : Heap} (hb : Bnd h) (i : Nat) : Ext h (zeroH h i) := by
  rw [zeroH_eq]
  split
  · exact Ext.refl hb
  · next k hk =>
    have e4 := ext_zero4 hb k
    apply ext_setKey (k := k) e4 (by rw [zero4_keys]; exact hk) (List.getElem?_eq_some_iff.mp hk).1
    · have hbk := e4.bnd i k (by rw [zero4_keys]; exact hk)
      rw [forall_fld] at hbk ⊢
      exact ⟨InB_nil _, hbk.2⟩
    · rw [forall_lt_four]; simp [Ref.nil]
    · left; rfl
    · intro b kb g _ _ _ _ _ hne; exact absurd rfl hne

/-- **shape of every library step**, for ANY in-bounds heap (no disjointness assumed) -/
theorem ext_step (hX : ExtOK X) {h : Heap} (hb : Bnd h) (op : HOp) : Ext h (step X h op).1 := by
  cases op with
  | newMaster seed hdPriv => exact ext_newMasterH X hX hb seed hdPriv
  | parse i => exact ext_newKeyFromStringH X hb _
  | child i idx => exact ext_childH X hX hb i idx
  | neuter i => exact ext_neuterH X hb i
  | setNet i p q => exact ext_setNetH hb i p q
  | zero i => exact ext_zeroH hb i
  | pubKeyBytes i => exact ext_pubKeyBytesH X hb i

end

/-! ### version aliases, resync -/

theorem aliasOf_nil (j : Nat) : aliasOf [] j = none := rfl

theorem aliasOf_cons (a : Nat) (r : Ref) (vers : List (Nat × Ref)) (j : Nat) :
    aliasOf ((a, r) :: vers) j = if a = j then some r else aliasOf vers j := by
  unfold aliasOf
  rw [List.find?_cons]
  by_cases e : a = j
  · simp [e]
  · have : (a == j) = false := by simp [e]
    simp [this, e]

theorem aliasOf_filter (vers : List (Nat × Ref)) (i j : Nat) :
    aliasOf (vers.filter (·.1 != i)) j = if j = i then none else aliasOf vers j := by
  induction vers with
  | nil => simp [aliasOf]
  | cons x vers ih =>
    obtain ⟨a, r⟩ := x
    by_cases e : a = i
    · subst e
      rw [List.filter_cons_of_neg (by simp), ih, aliasOf_cons]
      by_cases e' : j = a
      · simp [e']
      · have : ¬ a = j := fun h => e' h.symm
        simp [e', this]
    · rw [List.filter_cons_of_pos (by simp [e]), aliasOf_cons, aliasOf_cons, ih]
      by_cases e' : a = j
      · subst e'; simp [e]
      · simp [e']

theorem fld_resyncKey (h : Heap) (vers : List (Nat × Ref)) (j : Nat) (k : HKey) (f : Nat) :
    fld (resyncKey h vers j k) f = fld k f := by
  unfold resyncKey
  split
  · match f with
    | 0 => rfl
    | 1 => rfl
    | 2 => rfl
    | _ + 3 => rfl
  · rfl

theorem resync_bufs (s : NState) : (resync s).heap.bufs = s.heap.bufs := rfl
theorem resync_vers (s : NState) : (resync s).vers = s.vers := rfl
theorem resync_raw (s : NState) : (resync s).raw = s.raw := rfl
theorem resync_cbufs (s : NState) : (resync s).cbufs = s.cbufs := rfl

theorem resync_keys_getElem? (s : NState) (a : Nat) :
    (resync s).heap.keys[a]? = (s.heap.keys[a]?).map (resyncKey s.heap s.vers a) := by
  simp only [resync, List.getElem?_map, List.getElem?_zipIdx, Option.map_map]
  cases s.heap.keys[a]? <;> simp

theorem resync_keys_length (s : NState) : (resync s).heap.keys.length = s.heap.keys.length := by
  simp [resync]

theorem resync_read (s : NState) (r : Ref) : (resync s).heap.read r = s.heap.read r := rfl

theorem InB_resync (s : NState) (r : Ref) : InB (resync s).heap r ↔ InB s.heap r := Iff.rfl

/-- version re-read through the alias -/
def reVer (s : NState) (j : Nat) (v : XKey) : XKey :=
  match aliasOf s.vers j with
  | some r => { v with version := s.heap.read r }
  | none => v

theorem viewAt_resync (s : NState) (j : Nat) :
    viewAt (resync s).heap j = (viewAt s.heap j).map (reVer s j) := by
  unfold viewAt
  rw [resync_keys_getElem?]
  cases s.heap.keys[j]? with
  | none => rfl
  | some k =>
    simp only [Option.map_some, Option.some.injEq]
    unfold resyncKey reVer
    cases aliasOf s.vers j <;> rfl

theorem reVer_resync (s : NState) (j : Nat) (v : XKey) : reVer (resync s) j v = reVer s j v := rfl

/-! ### operations and histories with the caller as an actor -/

inductive NOp
  | lib (op : HOp)
  | callerAlloc (b : Bytes)
  | newKey (version key chainCode parentFP : Ref) (depth childNum : Nat) (isPrivate : Bool)
  | callerWrite (r : Ref) (data : Bytes)
  deriving Repr, DecidableEq

def verEffect : HOp → VerEffect
  | .child i _ => .inherit i
  | .setNet i _ _ => .drop i
  | .zero i => .drop i
  | _ => .keep

section
variable {Pt : Type} (X : HDExt Pt)

/-- one step: a library operation (with the version-alias bookkeeping of `libN`), or a caller action -/
def stepN (s : NState) : NOp → NState
  | .lib (.newMaster seed p) => newMasterN X s seed p
  | .lib (.parse i) => parseN X s i
  | .lib (.child i idx) => childN X s i idx
  | .lib (.neuter i) => neuterN X s i
  | .lib (.setNet i p q) => setNetN s i p q
  | .lib (.zero i) => zeroN s i
  | .lib (.pubKeyBytes i) => pubKeyBytesN X s i
  | .callerAlloc b => callerAllocN s b
  | .newKey v k c f d n p => newExtendedKeyN s v k c f d n p
  | .callerWrite r d => callerWriteN s r d

def runN (s : NState) (ops : List NOp) : NState := ops.foldl (stepN X) s

theorem runN_nil (s : NState) : runN X s [] = s := rfl
theorem runN_cons (s : NState) (op : NOp) (ops : List NOp) :
    runN X s (op :: ops) = runN X (stepN X s op) ops := rfl
theorem runN_append (s : NState) (a b : List NOp) : runN X s (a ++ b) = runN X (runN X s a) b := by
  simp [runN, List.foldl_append]

theorem stepN_lib (s : NState) (op : HOp) :
    stepN X s (.lib op) = libN s (step X s.heap op) (verEffect op) := by
  cases op <;> rfl

/-- the caller only uses slices of buffers it allocated itself (all it can do without pointer tricks) -/
def legit (s : NState) : NOp → Bool
  | .lib _ => true
  | .callerAlloc _ => true
  | .newKey v k c f _ _ _ => ownedRef s v && ownedRef s k && ownedRef s c && ownedRef s f
  | .callerWrite r _ => ownedRef s r

/-- every caller action of the history is `legit` in the state in which it happens -/
def legitRun (s : NState) : List NOp → Bool
  | [] => true
  | op :: ops => legit s op && legitRun (stepN X s op) ops

theorem legitRun_append (s : NState) (a b : List NOp) :
    legitRun X s (a ++ b) = (legitRun X s a && legitRun X (runN X s a) b) := by
  induction a generalizing s with
  | nil => simp [legitRun, runN_nil]
  | cons op a ih => simp [legitRun, runN_cons, ih, Bool.and_assoc]

end

theorem ownedRef_iff (s : NState) (r : Ref) :
    ownedRef s r = true ↔ (0 < r.len → r.buf ∈ s.cbufs) ∧ InB s.heap r := by
  unfold ownedRef InB buf
  simp only [Bool.and_eq_true, Bool.or_eq_true, decide_eq_true_eq, List.contains_iff_mem]
  constructor
  · rintro ⟨h1, h2⟩
    refine ⟨fun hl => ?_, h2⟩
    rcases h1 with h1 | h1
    · omega
    · exact h1
  · rintro ⟨h1, h2⟩
    refine ⟨?_, h2⟩
    by_cases hl : r.len = 0
    · exact Or.inl hl
    · exact Or.inr (h1 (by omega))

/-! ### the extended invariant -/

/-- position `(j, f)` is library-owned: a field of a key not made by `NewExtendedKey`, or a `pubKey` memo -/
def LibPos (R : List Nat) (j f : Nat) : Prop := j ∉ R ∨ f = 1

/-- the part of the invariant that does not mention key versions -/
structure NCore (s : NState) : Prop where
  bnd : Bnd s.heap
  ldisj : ∀ (i j : Nat) (ki kj : HKey) (f g : Nat), s.heap.keys[i]? = some ki →
    s.heap.keys[j]? = some kj → f < 4 → g < 4 → (i, f) ≠ (j, g) → LibPos s.raw i f → LibPos s.raw j g →
    0 < (fld ki f).len → 0 < (fld kj g).len → overlap (fld ki f) (fld kj g) = false
  rawIn : ∀ (j : Nat) (k : HKey) (f : Nat), j ∈ s.raw → s.heap.keys[j]? = some k → f < 4 → f ≠ 1 →
    0 < (fld k f).len → (fld k f).buf ∈ s.cbufs
  libOut : ∀ (j : Nat) (k : HKey) (f : Nat), s.heap.keys[j]? = some k → f < 4 → LibPos s.raw j f →
    0 < (fld k f).len → (fld k f).buf ∉ s.cbufs
  cb : ∀ n ∈ s.cbufs, n < s.heap.bufs.length
  rawLt : ∀ j ∈ s.raw, j < s.heap.keys.length
  alias : ∀ (j : Nat) (r : Ref), aliasOf s.vers j = some r → InB s.heap r ∧ (0 < r.len → r.buf ∈ s.cbufs)

/-- the extended invariant -/
structure NInv (s : NState) : Prop extends NCore s where
  sync : ∀ (j : Nat) (r : Ref) (k : HKey), aliasOf s.vers j = some r → s.heap.keys[j]? = some k →
    k.version = s.heap.read r

theorem ninv_empty : NInv {} := by
  refine ⟨⟨?_, ?_, ?_, ?_, ?_, ?_, ?_⟩, ?_⟩
  · intro i k hk; simp at hk
  · intro i j ki kj f g hk; simp at hk
  · intro j k f hj; simp at hj
  · intro j k f hk; simp at hk
  · intro n hn; simp at hn
  · intro j hj; simp at hj
  · intro j r hr; simp [aliasOf] at hr
  · intro j r k hr; simp [aliasOf] at hr

theorem ncore_resync {s : NState} (hc : NCore s) : NInv (resync s) := by
  have key : ∀ a ka, (resync s).heap.keys[a]? = some ka →
      ∃ k0, s.heap.keys[a]? = some k0 ∧ ka = resyncKey s.heap s.vers a k0 := by
    intro a ka hka
    rw [resync_keys_getElem?] at hka
    cases h0 : s.heap.keys[a]? with
    | none => rw [h0] at hka; cases hka
    | some k0 => rw [h0] at hka; exact ⟨k0, rfl, by simpa using hka.symm⟩
  refine ⟨⟨?_, ?_, ?_, ?_, hc.cb, ?_, hc.alias⟩, ?_⟩
  · intro a ka hka f
    obtain ⟨k0, h0, rfl⟩ := key a ka hka
    rw [fld_resyncKey]; exact hc.bnd a k0 h0 f
  · intro i j ki kj f g hki hkj hf hg hne pi pj
    obtain ⟨ki0, hi0, rfl⟩ := key i ki hki
    obtain ⟨kj0, hj0, rfl⟩ := key j kj hkj
    rw [fld_resyncKey, fld_resyncKey]
    exact hc.ldisj i j ki0 kj0 f g hi0 hj0 hf hg hne pi pj
  · intro j k f hj hk
    obtain ⟨k0, h0, rfl⟩ := key j k hk
    rw [fld_resyncKey]; exact hc.rawIn j k0 f hj h0
  · intro j k f hk
    obtain ⟨k0, h0, rfl⟩ := key j k hk
    rw [fld_resyncKey]; exact hc.libOut j k0 f h0
  · intro j hj; rw [resync_keys_length]; exact hc.rawLt j hj
  · intro j r k hr hk
    obtain ⟨k0, h0, rfl⟩ := key j k hk
    rw [resync_vers] at hr
    unfold resyncKey
    rw [hr]
    rfl

/-- library steps, and anything else that extends the key table: the core invariant is kept -/
theorem ncore_ext {s : NState} (hc : NCore s) {h' : Heap} (e : Ext s.heap h') (vers' : List (Nat × Ref))
    (hal : ∀ j r, aliasOf vers' j = some r → ∃ j0, aliasOf s.vers j0 = some r) :
    NCore { s with heap := h', vers := vers' } := by
  refine ⟨e.bnd, ?_, ?_, ?_, fun n hn => Nat.lt_of_lt_of_le (hc.cb n hn) e.len,
    fun j hj => Nat.lt_of_lt_of_le (hc.rawLt j hj) e.klen, ?_⟩
  · intro a b ka kb f g hka hkb hf hg hne pa pb hlf hlg
    rcases e.orig a ka hka f hf hlf with ⟨ka0, ha0, ea⟩ | ⟨hna, _⟩
    · rcases e.orig b kb hkb g hg hlg with ⟨kb0, hb0, eb⟩ | ⟨hnb, _⟩
      · rw [ea, eb]
        rw [ea] at hlf; rw [eb] at hlg
        exact hc.ldisj a b ka0 kb0 f g ha0 hb0 hf hg hne pa pb hlf hlg
      · apply overlap_of_buf_ne
        have := hc.bnd.buf_lt ha0 f (ea ▸ hlf)
        rw [ea]; omega
    · rcases e.orig b kb hkb g hg hlg with ⟨kb0, hb0, eb⟩ | ⟨hnb, _⟩
      · apply overlap_of_buf_ne
        have := hc.bnd.buf_lt hb0 g (eb ▸ hlg)
        rw [eb]; omega
      · exact e.fresh a b ka kb f g hka hkb hf hg hne hlf hlg hna hnb
  · intro j k f hj hk hf hf1 hl
    rcases e.orig j k hk f hf hl with ⟨k0, h0, e0⟩ | ⟨_, hp⟩
    · rw [e0] at hl ⊢; exact hc.rawIn j k0 f hj h0 hf hf1 hl
    · have := hc.rawLt j hj
      rcases hp with hp | hp
      · omega
      · exact absurd hp hf1
  · intro j k f hk hf pj hl
    rcases e.orig j k hk f hf hl with ⟨k0, h0, e0⟩ | ⟨hn, _⟩
    · rw [e0] at hl ⊢; exact hc.libOut j k0 f h0 hf pj hl
    · intro hm
      have := hc.cb _ hm
      omega
  · intro j r hr
    obtain ⟨j0, h0⟩ := hal j r hr
    exact ⟨e.inb r (hc.alias j0 r h0).1, (hc.alias j0 r h0).2⟩

/-- the caller gets one more buffer that no key uses -/
theorem ncore_add_cbuf {s : NState} (hc : NCore s) (n : Nat) (hn : n < s.heap.bufs.length)
    (hfree : ∀ (j : Nat) (k : HKey) (f : Nat), s.heap.keys[j]? = some k → f < 4 → 0 < (fld k f).len →
      (fld k f).buf ≠ n) : NCore { s with cbufs := n :: s.cbufs } := by
  refine ⟨hc.bnd, hc.ldisj, ?_, ?_, ?_, hc.rawLt, ?_⟩
  · intro j k f hj hk hf hf1 hl
    exact List.mem_cons_of_mem _ (hc.rawIn j k f hj hk hf hf1 hl)
  · intro j k f hk hf pj hl hm
    rcases List.mem_cons.mp hm with e | hm
    · exact hfree j k f hk hf hl e
    · exact hc.libOut j k f hk hf pj hl hm
  · intro m hm
    rcases List.mem_cons.mp hm with e | hm
    · subst e; exact hn
    · exact hc.cb m hm
  · intro j r hr
    exact ⟨(hc.alias j r hr).1, fun hl => List.mem_cons_of_mem _ ((hc.alias j r hr).2 hl)⟩

theorem ncore_write {s : NState} (hc : NCore s) (r : Ref) (d : Bytes) :
    NCore { s with heap := writeH s.heap r d } := by
  refine ⟨?_, hc.ldisj, hc.rawIn, hc.libOut, ?_, hc.rawLt, ?_⟩
  · intro i k hk f; exact (InB_writeH r d).mpr (hc.bnd i k hk f)
  · intro n hn; rw [writeH_bufs_length]; exact hc.cb n hn
  · intro j r' hr; exact ⟨(InB_writeH r d).mpr (hc.alias j r' hr).1, (hc.alias j r' hr).2⟩

theorem ncore_newKey {s : NState} (hc : NCore s) (v k c f : Ref) (d n : Nat) (p : Bool)
    (hv : ownedRef s v = true) (hk : ownedRef s k = true) (hcc : ownedRef s c = true)
    (hf : ownedRef s f = true) :
    NCore { s with
      heap := (newExtendedKeyH s.heap v k c f d n p).1
      raw := s.heap.keys.length :: s.raw
      vers := (s.heap.keys.length, v) :: s.vers } := by
  rw [ownedRef_iff] at hv hk hcc hf
  -- the new key
  have hK : ∀ g : Nat, InB s.heap (fld ⟨k, Ref.nil, c, f, s.heap.read v, d, n, p⟩ g) := by
    rw [forall_fld]; exact ⟨hk.2, InB_nil _, hcc.2, hf.2⟩
  have hlib : ∀ a g, a < s.heap.keys.length →
      (LibPos (s.heap.keys.length :: s.raw) a g ↔ LibPos s.raw a g) := by
    intro a g ha
    unfold LibPos
    simp only [List.mem_cons, not_or]
    constructor
    · rintro (⟨_, h2⟩ | h2)
      · exact Or.inl h2
      · exact Or.inr h2
    · rintro (h2 | h2)
      · exact Or.inl ⟨by omega, h2⟩
      · exact Or.inr h2
  have hlt : ∀ {a ka}, s.heap.keys[a]? = some ka → a < s.heap.keys.length :=
    fun h => (List.getElem?_eq_some_iff.mp h).1
  refine ⟨?_, ?_, ?_, ?_, hc.cb, ?_, ?_⟩
  · intro a ka hka g
    rcases addKey_cases hka with ⟨rfl, rfl⟩ | hka'
    · exact hK g
    · exact hc.bnd a ka hka' g
  · intro a b ka kb g g' hka hkb hg hg' hne pa pb hlg hlg'
    rcases addKey_cases hka with ⟨rfl, rfl⟩ | hka'
    · exfalso
      rcases pa with pa | pa
      · exact pa (List.mem_cons_self)
      · subst pa; simp [Ref.nil] at hlg
    · rcases addKey_cases hkb with ⟨rfl, rfl⟩ | hkb'
      · exfalso
        rcases pb with pb | pb
        · exact pb (List.mem_cons_self)
        · subst pb; simp [Ref.nil] at hlg'
      · exact hc.ldisj a b ka kb g g' hka' hkb' hg hg' hne ((hlib a g (hlt hka')).mp pa)
          ((hlib b g' (hlt hkb')).mp pb) hlg hlg'
  · intro j kj g hj hkj hg hg1 hl
    rcases addKey_cases hkj with ⟨rfl, rfl⟩ | hkj'
    · match g, hg, hg1 with
      | 0, _, _ => exact hk.1 hl
      | 2, _, _ => exact hcc.1 hl
      | 3, _, _ => exact hf.1 hl
    · rcases List.mem_cons.mp hj with e | hj'
      · have := hlt hkj'; omega
      · exact hc.rawIn j kj g hj' hkj' hg hg1 hl
  · intro j kj g hkj hg pj hl
    rcases addKey_cases hkj with ⟨rfl, rfl⟩ | hkj'
    · exfalso
      rcases pj with pj | pj
      · exact pj (List.mem_cons_self)
      · subst pj; simp [Ref.nil] at hl
    · exact hc.libOut j kj g hkj' hg ((hlib j g (hlt hkj')).mp pj) hl
  · intro j hj
    show j < (s.heap.addKey _).1.keys.length
    rw [addKey_keys, List.length_append]
    rcases List.mem_cons.mp hj with e | hj'
    · subst e; simp
    · have := hc.rawLt j hj'; simp; omega
  · intro j r hr
    rw [aliasOf_cons] at hr
    split at hr
    · cases hr; exact ⟨hv.2, hv.1⟩
    · exact hc.alias j r hr

/-- the version aliases after a library call (the `match` inside `libN`) -/
def versAfter (vers : List (Nat × Ref)) (e : VerEffect) (res : OpRes) : List (Nat × Ref) :=
  match e, res with
  | .inherit i, .key j =>
    match aliasOf vers i with
    | some v => (j, v) :: vers
    | none => vers
  | .drop i, _ => vers.filter (·.1 != i)
  | _, _ => vers

theorem libN_eq (s : NState) (r : Heap × OpRes) (e : VerEffect) :
    libN s r e = resync { s with heap := r.1, vers := versAfter s.vers e r.2 } := by
  unfold libN versAfter
  rfl

theorem versAfter_alias (vers : List (Nat × Ref)) (e : VerEffect) (res : OpRes) (j : Nat) (r : Ref)
    (h : aliasOf (versAfter vers e res) j = some r) : ∃ j0, aliasOf vers j0 = some r := by
  unfold versAfter at h
  split at h
  · next i j' =>
    split at h
    · next v hv =>
      rw [aliasOf_cons] at h
      split at h
      · cases h; exact ⟨i, hv⟩
      · exact ⟨j, h⟩
    · exact ⟨j, h⟩
  · next i _ =>
    rw [aliasOf_filter] at h
    split at h
    · cases h
    · exact ⟨j, h⟩
  · exact ⟨j, h⟩

section
variable {Pt : Type} (X : HDExt Pt)

/-- **the extended invariant is kept by every legit step** -/
theorem ninv_stepN (hX : ExtOK X) {s : NState} (hi : NInv s) (op : NOp) (hl : legit s op = true) :
    NInv (stepN X s op) := by
  cases op with
  | lib op =>
    rw [stepN_lib, libN_eq]
    exact ncore_resync (ncore_ext hi.toNCore (ext_step X hX hi.bnd op) _ (versAfter_alias _ _ _))
  | callerAlloc b =>
    apply ncore_resync
    have h1 := ncore_ext hi.toNCore (ext_alloc hi.bnd b) s.vers (fun j r h => ⟨j, h⟩)
    apply ncore_add_cbuf h1 s.heap.bufs.length
    · show s.heap.bufs.length < (s.heap.alloc b).1.bufs.length
      rw [alloc_bufs_length]; omega
    · intro j k f hk _ hlen
      have := hi.bnd.buf_lt (h := s.heap) hk f hlen
      omega
  | newKey v k c f d n p =>
    simp only [legit, Bool.and_eq_true] at hl
    exact ncore_resync (ncore_newKey hi.toNCore v k c f d n p hl.1.1.1 hl.1.1.2 hl.1.2 hl.2)
  | callerWrite r d => exact ncore_resync (ncore_write hi.toNCore r d)

theorem ninv_runN (hX : ExtOK X) {s : NState} (hi : NInv s) (ops : List NOp)
    (hl : legitRun X s ops = true) : NInv (runN X s ops) := by
  induction ops generalizing s with
  | nil => exact hi
  | cons op ops ih =>
    simp only [legitRun, Bool.and_eq_true] at hl
    exact ih (ninv_stepN X hX hi op hl.1) hl.2

end

/-- what the invariant says about a library-owned position against ANY other position -/
theorem NCore.sep {s : NState} (hc : NCore s) {i j : Nat} {ki kj : HKey} {f g : Nat}
    (hki : s.heap.keys[i]? = some ki) (hkj : s.heap.keys[j]? = some kj) (hf : f < 4) (hg : g < 4)
    (hne : (i, f) ≠ (j, g)) (pj : LibPos s.raw j g) (hlf : 0 < (fld ki f).len) (hlg : 0 < (fld kj g).len) :
    overlap (fld ki f) (fld kj g) = false := by
  by_cases pi : LibPos s.raw i f
  · exact hc.ldisj i j ki kj f g hki hkj hf hg hne pi pj hlf hlg
  · unfold LibPos at pi
    simp only [not_or, Classical.not_not] at pi
    apply overlap_of_buf_ne
    intro e
    have h1 := hc.rawIn i ki f pi.1 hki hf pi.2 hlf
    have h2 := hc.libOut j kj g hkj hg pj hlg
    rw [e] at h1
    exact h2 h1

/-! ### views under library steps, for a key that is separated from all other keys -/

/-- no range of another key overlaps a range of key `j` -/
def Sep (h : Heap) (j : Nat) : Prop :=
  ∀ (i : Nat) (ki kj : HKey) (f g : Nat), h.keys[i]? = some ki → h.keys[j]? = some kj → i ≠ j →
    f < 4 → g < 4 → 0 < (fld ki f).len → 0 < (fld kj g).len → overlap (fld ki f) (fld kj g) = false

theorem sep_of_inv {h : Heap} (hi : Inv h) (j : Nat) : Sep h j :=
  fun i ki kj f g hki hkj hne hf hg hlf hlg =>
    hi.pairwise i j ki kj f g hki hkj hf hg (by simp [hne]) hlf hlg

theorem viewAt_alloc' {h : Heap} (b : Bytes) (hb : Bnd h) (j : Nat) :
    viewAt (h.alloc b).1 j = viewAt h j := by
  unfold viewAt
  rw [alloc_keys]
  cases hk : h.keys[j]? with
  | none => rfl
  | some k => simp [view_alloc b (hb j k hk)]

theorem viewAt_allocs' {h : Heap} (bs : List Bytes) (hb : Bnd h) (j : Nat) :
    viewAt (allocs h bs) j = viewAt h j := by
  induction bs generalizing h with
  | nil => rfl
  | cons b bs ih => rw [allocs, ih (ext_alloc hb b).bnd, viewAt_alloc' b hb]

theorem viewAt_allocs_addKey' {h : Heap} (hb : Bnd h) (bs : List Bytes) (k : HKey) {j : Nat}
    (hj : j < h.keys.length) : viewAt ((allocs h bs).addKey k).1 j = viewAt h j := by
  rw [viewAt_addKey _ _ _ (by rw [allocs_keys]; exact hj), viewAt_allocs' bs hb]

section
variable {Pt : Type} (X : HDExt Pt)

theorem viewAt_pubKeyBytesH' {h : Heap} (hb : Bnd h) (i j : Nat) :
    viewAt (pubKeyBytesH X h i).1 j = viewAt h j := by
  rw [pubKeyBytesH_eq]
  split
  · rfl
  · next k hk =>
    split
    · rfl
    · split
      · by_cases e : i = j
        · subst e
          have hlt : i < (h.alloc (pubKeyBytes X (view h k))).1.keys.length := by
            rw [alloc_keys]; exact (List.getElem?_eq_some_iff.mp hk).1
          rw [viewAt_setKey_same _ _ hlt]
          have : view (h.alloc (pubKeyBytes X (view h k))).1 (memoKey X h k) = view h k := by
            have e1 : view (h.alloc (pubKeyBytes X (view h k))).1 (memoKey X h k) =
                view (h.alloc (pubKeyBytes X (view h k))).1 k := rfl
            rw [e1]
            exact (view_alloc (pubKeyBytes X (view h k)) (hb i k hk))
          simp [this, viewAt, hk]
        · rw [viewAt_setKey_ne _ _ e, viewAt_alloc' _ hb]
      · rfl

theorem viewAt_childH' {h : Heap} (hb : Bnd h) (i idx : Nat) {j : Nat}
    (hj : j < h.keys.length) : viewAt (childH X h i idx).1 j = viewAt h j := by
  rw [childH_eq]
  split
  · rfl
  · split
    · simp only
      split
      · exact viewAt_pubKeyBytesH' X hb i j
      · rfl
    · rw [viewAt_allocs_addKey' (ext_pubKeyBytesH X hb i).bnd _ _
        (by rw [keys_length_pubKeyBytesH]; exact hj)]
      exact viewAt_pubKeyBytesH' X hb i j

theorem viewAt_neuterH' {h : Heap} (hb : Bnd h) (i : Nat) {j : Nat}
    (hj : j < h.keys.length) : viewAt (neuterH X h i).1 j = viewAt h j := by
  rw [neuterH_eq]
  split
  · rfl
  · split
    · rfl
    · split
      · rfl
      · rw [viewAt_allocs_addKey' (ext_pubKeyBytesH X hb i).bnd _ _
          (by rw [keys_length_pubKeyBytesH]; exact hj)]
        exact viewAt_pubKeyBytesH' X hb i j

end

theorem view_zero4_of_sep {h : Heap} {i j : Nat} (hs : Sep h j) {k kj : HKey} (hk : h.keys[i]? = some k)
    (hkj : h.keys[j]? = some kj) (hne : i ≠ j) : view (zero4 h k) kj = view h kj := by
  have hov : ∀ f : Nat, f < 4 → ∀ g : Nat, g < 4 → 0 < (fld k f).len → 0 < (fld kj g).len →
      overlap (fld k f) (fld kj g) = false :=
    fun f hf g hg hl hl' => hs i k kj f g hk hkj hne hf hg hl hl'
  unfold zero4
  rw [view_zero k.parentFP (hov 3 (by omega)), view_zero k.chainCode (hov 2 (by omega)),
    view_zero k.pubKey (hov 1 (by omega)), view_zero k.key (hov 0 (by omega))]

theorem viewAt_zeroH_ne' {h : Heap} {i j : Nat} (hs : Sep h j) (hne : i ≠ j) :
    viewAt (zeroH h i) j = viewAt h j := by
  rw [zeroH_eq]
  split
  · rfl
  · next k hk =>
    rw [viewAt_setKey_ne _ _ hne]
    unfold viewAt
    rw [zero4_keys]
    cases hkj : h.keys[j]? with
    | none => rfl
    | some kj => simp [view_zero4_of_sep hs hk hkj hne]

section
variable {Pt : Type} (X : HDExt Pt)

/-- **one library step, one key**: on an in-bounds heap, the view of a key whose ranges no other key
overlaps changes exactly by the `setNet`/`zero` operations addressed to that key itself — whatever
sharing there is between the OTHER keys. (`Proofs.HDHeap.viewAt_step` is the case `Inv h`.) -/
theorem viewAt_step_sep {h : Heap} (hb : Bnd h) (op : HOp) {j : Nat} (hs : Sep h j)
    (hj : j < h.keys.length) :
    viewAt (step X h op).1 j = (viewAt h j).map fun v => applyOwn j v op := by
  have hid : viewAt h j = (viewAt h j).map fun v => v := by simp
  cases op with
  | newMaster seed hdPriv =>
    refine Eq.trans ?_ hid
    simp only [step]; rw [newMasterH_eq]; split
    · rfl
    · exact viewAt_allocs_addKey' hb _ _ hj
  | parse i =>
    refine Eq.trans ?_ hid
    simp only [step]; rw [newKeyFromStringH_eq]; split
    · rfl
    · exact viewAt_allocs_addKey' hb _ _ hj
  | child i idx => exact (viewAt_childH' X hb i idx hj).trans hid
  | neuter i => exact (viewAt_neuterH' X hb i hj).trans hid
  | pubKeyBytes i => exact (viewAt_pubKeyBytesH' X hb i j).trans hid
  | setNet i p q =>
    simp only [step, applyOwn]
    by_cases e : i = j
    · subst e
      rw [viewAt_isSome h i hj, viewAt_setNetH_same (List.getElem?_eq_getElem hj)]
      simp
    · rw [viewAt_setNetH_ne h e]; simp [e]
  | zero i =>
    simp only [step, applyOwn]
    by_cases e : i = j
    · subst e
      rw [viewAt_isSome h i hj, viewAt_zeroH_same (List.getElem?_eq_getElem hj)]
      simp
    · rw [viewAt_zeroH_ne' hs e]; simp [e]

end

/-! ### views under steps of histories with caller actions -/

/-- the effect of a step on the view of key `j` itself: only library `setNet j` / `zero j` -/
def applyOwnN (j : Nat) (v : XKey) : NOp → XKey
  | .lib op => applyOwn j v op
  | _ => v

theorem NCore.sepOf {s : NState} (hc : NCore s) {j : Nat} (hj : j ∉ s.raw) : Sep s.heap j :=
  fun _ _ _ _ _ hki hkj hne hf hg hlf hlg =>
    hc.sep hki hkj hf hg (by simp [hne]) (Or.inl hj) hlf hlg

/-- a caller write through an owned slice does not change the view of a key not made by `NewExtendedKey`
(up to the version, which `resync` re-reads) -/
theorem viewAt_writeH_lib {s : NState} (hc : NCore s) {r : Ref} (d : Bytes) (hr : ownedRef s r = true)
    {j : Nat} (hj : j ∉ s.raw) : viewAt (writeH s.heap r d) j = viewAt s.heap j := by
  rw [ownedRef_iff] at hr
  unfold viewAt
  rw [writeH_keys]
  cases hk : s.heap.keys[j]? with
  | none => rfl
  | some k =>
    have hrd : ∀ g : Nat, g < 4 → (writeH s.heap r d).read (fld k g) = s.heap.read (fld k g) := by
      intro g hg
      apply read_writeH_disj
      intro hl hl'
      apply overlap_of_buf_ne
      intro e
      exact hc.libOut j k g hk hg (Or.inl hj) hl' (e ▸ hr.1 hl)
    have h0 := hrd 0 (by omega); have h2 := hrd 2 (by omega); have h3 := hrd 3 (by omega)
    simp only [fld_zero, fld_two, fld_three] at h0 h2 h3
    simp [view, h0, h2, h3]

section
variable {Pt : Type} (X : HDExt Pt)

theorem keys_length_stepN (s : NState) (op : NOp) :
    s.heap.keys.length ≤ (stepN X s op).heap.keys.length := by
  cases op with
  | lib op => rw [stepN_lib, libN_eq, resync_keys_length]; exact keys_length_step X s.heap op
  | callerAlloc b =>
    show _ ≤ (resync _).heap.keys.length
    rw [resync_keys_length]; exact Nat.le_refl _
  | newKey v k c f d n p =>
    show _ ≤ (resync _).heap.keys.length
    rw [resync_keys_length]
    show _ ≤ (s.heap.addKey _).1.keys.length
    rw [addKey_keys, List.length_append]; omega
  | callerWrite r d =>
    show _ ≤ (resync _).heap.keys.length
    rw [resync_keys_length]; exact Nat.le_refl _

theorem keys_length_runN (s : NState) (ops : List NOp) :
    s.heap.keys.length ≤ (runN X s ops).heap.keys.length := by
  induction ops generalizing s with
  | nil => exact Nat.le_refl _
  | cons op ops ih => exact Nat.le_trans (keys_length_stepN X s op) (ih _)

/-- only `NewExtendedKey` makes raw keys, and only with a new handle -/
theorem raw_stepN (s : NState) (op : NOp) (j : Nat) (hj : j ∈ (stepN X s op).raw) :
    j ∈ s.raw ∨ j = s.heap.keys.length := by
  cases op with
  | lib op => rw [stepN_lib, libN_eq] at hj; exact Or.inl hj
  | callerAlloc b => exact Or.inl hj
  | newKey v k c f d n p =>
    rcases List.mem_cons.mp hj with e | h
    · exact Or.inr e
    · exact Or.inl h
  | callerWrite r d => exact Or.inl hj

theorem raw_mono_stepN (s : NState) (op : NOp) (j : Nat) (hj : j ∈ s.raw) : j ∈ (stepN X s op).raw := by
  cases op with
  | lib op => rw [stepN_lib, libN_eq]; exact hj
  | callerAlloc b => exact hj
  | newKey v k c f d n p => exact List.mem_cons_of_mem _ hj
  | callerWrite r d => exact hj

theorem step_key_handle (h : Heap) (i idx j : Nat) (e : (childH X h i idx).2 = .key j) :
    j = h.keys.length := by
  rw [childH_eq] at e
  split at e
  · cases e
  · split at e
    · cases e
    · simp only [OpRes.key.injEq] at e
      rw [← e, keys_length_pubKeyBytesH]

/-- an existing key never acquires a version alias -/
theorem alias_none_stepN (s : NState) (op : NOp) {j : Nat} (hj : j < s.heap.keys.length)
    (h0 : aliasOf s.vers j = none) : aliasOf (stepN X s op).vers j = none := by
  cases op with
  | lib op =>
    rw [stepN_lib, libN_eq, resync_vers]
    show aliasOf (versAfter s.vers (verEffect op) (step X s.heap op).2) j = none
    unfold versAfter
    split
    · next i j' he hr =>
      split
      · rw [aliasOf_cons]
        have : j' = s.heap.keys.length := by
          cases op <;> simp only [verEffect] at he <;> try cases he
          exact step_key_handle X s.heap _ _ j' hr
        rw [if_neg (by omega)]; exact h0
      · exact h0
    · rw [aliasOf_filter]; split
      · rfl
      · exact h0
    · exact h0
  | callerAlloc b => exact h0
  | newKey v k c f d n p =>
    show aliasOf ((s.heap.keys.length, v) :: s.vers) j = none
    rw [aliasOf_cons, if_neg (by omega)]; exact h0
  | callerWrite r d => exact h0

/-- **one step of a history with caller actions, one key not made by `NewExtendedKey`**: the view
changes exactly by the library `setNet j`/`zero j`; the version is then re-read through the alias if
the key's version slice is a caller's buffer (`reVer`) -/
theorem viewAt_stepN {s : NState} (hi : NInv s) (op : NOp) (hl : legit s op = true)
    {j : Nat} (hj : j < s.heap.keys.length) (hr : j ∉ s.raw) :
    viewAt (stepN X s op).heap j =
      (viewAt s.heap j).map fun v => reVer (stepN X s op) j (applyOwnN j v op) := by
  cases op with
  | lib op =>
    rw [stepN_lib, libN_eq, viewAt_resync]
    show Option.map _ (viewAt (step X s.heap op).1 j) = _
    rw [viewAt_step_sep X hi.bnd op (hi.toNCore.sepOf hr) hj, Option.map_map]
    rfl
  | callerAlloc b =>
    show viewAt (resync _).heap j = _
    rw [viewAt_resync]
    show Option.map _ (viewAt (s.heap.alloc b).1 j) = _
    rw [viewAt_alloc' b hi.bnd]
    rfl
  | newKey v k c f d n p =>
    show viewAt (resync _).heap j = _
    rw [viewAt_resync]
    show Option.map _ (viewAt (s.heap.addKey _).1 j) = _
    rw [viewAt_addKey _ _ _ hj]
    rfl
  | callerWrite r d =>
    show viewAt (resync _).heap j = _
    rw [viewAt_resync]
    show Option.map _ (viewAt (writeH s.heap r d) j) = _
    rw [viewAt_writeH_lib hi.toNCore d hl hr]
    rfl

end

theorem reVer_of_none {s : NState} {j : Nat} (h : aliasOf s.vers j = none) (v : XKey) : reVer s j v = v := by
  unfold reVer; rw [h]

/-- forget the version -/
def eraseVer (v : XKey) : XKey := { v with version := [] }

theorem eraseVer_reVer (s : NState) (j : Nat) (v : XKey) : eraseVer (reVer s j v) = eraseVer v := by
  unfold reVer; split <;> rfl

theorem eraseVer_applyOwnN (j : Nat) (op : NOp) {v w : XKey} (h : eraseVer v = eraseVer w) :
    eraseVer (applyOwnN j v op) = eraseVer (applyOwnN j w op) := by
  obtain ⟨k1, c1, d1, f1, n1, v1, p1⟩ := v
  obtain ⟨k2, c2, d2, f2, n2, v2, p2⟩ := w
  simp only [eraseVer, XKey.mk.injEq] at h
  obtain ⟨rfl, rfl, rfl, rfl, rfl, _, rfl⟩ := h
  cases op with
  | lib op =>
    cases op <;> simp only [applyOwnN, applyOwn, eraseVer] <;> try rfl
    all_goals (split <;> simp [setNetV, zeroV])
  | _ => rfl

theorem eraseVer_foldl (j : Nat) (ops : List NOp) {v w : XKey} (h : eraseVer v = eraseVer w) :
    eraseVer (ops.foldl (applyOwnN j) v) = eraseVer (ops.foldl (applyOwnN j) w) := by
  induction ops generalizing v w with
  | nil => exact h
  | cons op ops ih => exact ih (eraseVer_applyOwnN j op h)

section
variable {Pt : Type} (X : HDExt Pt)

/-- **histories, key with its own version slice**: exact independence -/
theorem viewAt_runN (hX : ExtOK X) {s : NState} (hi : NInv s) (ops : List NOp)
    (hl : legitRun X s ops = true) {j : Nat} (hj : j < s.heap.keys.length) (hr : j ∉ s.raw)
    (ha : aliasOf s.vers j = none) :
    viewAt (runN X s ops).heap j = (viewAt s.heap j).map fun v => ops.foldl (applyOwnN j) v := by
  induction ops generalizing s with
  | nil => simp [runN_nil]
  | cons op ops ih =>
    simp only [legitRun, Bool.and_eq_true] at hl
    have hj' := Nat.lt_of_lt_of_le hj (keys_length_stepN X s op)
    have hr' : j ∉ (stepN X s op).raw := by
      intro h; rcases raw_stepN X s op j h with h | h
      · exact hr h
      · omega
    have ha' := alias_none_stepN X s op hj ha
    rw [runN_cons, ih (ninv_stepN X hX hi op hl.1) hl.2 hj' hr' ha', viewAt_stepN X hi op hl.1 hj hr,
      Option.map_map]
    congr 1
    funext v
    simp only [Function.comp, List.foldl_cons, reVer_of_none ha']

/-- **histories, any key not made by `NewExtendedKey`**: independence of everything but the version -/
theorem viewAt_runN_modver (hX : ExtOK X) {s : NState} (hi : NInv s) (ops : List NOp)
    (hl : legitRun X s ops = true) {j : Nat} (hj : j < s.heap.keys.length) (hr : j ∉ s.raw) :
    (viewAt (runN X s ops).heap j).map eraseVer =
      (viewAt s.heap j).map fun v => eraseVer (ops.foldl (applyOwnN j) v) := by
  induction ops generalizing s with
  | nil => simp [runN_nil]
  | cons op ops ih =>
    simp only [legitRun, Bool.and_eq_true] at hl
    have hj' := Nat.lt_of_lt_of_le hj (keys_length_stepN X s op)
    have hr' : j ∉ (stepN X s op).raw := by
      intro h; rcases raw_stepN X s op j h with h | h
      · exact hr h
      · omega
    rw [runN_cons, ih (ninv_stepN X hX hi op hl.1) hl.2 hj' hr', viewAt_stepN X hi op hl.1 hj hr,
      Option.map_map]
    congr 1
    funext v
    simp only [Function.comp, List.foldl_cons]
    exact eraseVer_foldl j ops (eraseVer_reVer _ _ _)

end

/-! ### adding a key built from given slices to a heap with the ordinary invariant -/

/-- the ordinary invariant `Inv` after adding a key holds IF AND ONLY IF the key's slices are in
bounds, pairwise disjoint, and disjoint from every range of every existing key -/
theorem inv_addKey_iff {h : Heap} {k : HKey} (hi : Inv h) :
    Inv (h.addKey k).1 ↔
      (∀ f : Nat, InB h (fld k f)) ∧
      (∀ f g : Nat, f < 4 → g < 4 → f ≠ g → 0 < (fld k f).len → 0 < (fld k g).len →
        overlap (fld k f) (fld k g) = false) ∧
      (∀ (b : Nat) (kb : HKey) (f g : Nat), h.keys[b]? = some kb → f < 4 → g < 4 →
        0 < (fld k f).len → 0 < (fld kb g).len → overlap (fld k f) (fld kb g) = false) := by
  have hnew : (h.addKey k).1.keys[h.keys.length]? = some k := by rw [addKey_keys]; simp
  have hold : ∀ (b : Nat) (kb : HKey), h.keys[b]? = some kb → (h.addKey k).1.keys[b]? = some kb := by
    intro b kb hb
    rw [addKey_keys, List.getElem?_append_left (List.getElem?_eq_some_iff.mp hb).1]; exact hb
  constructor
  · intro hi'
    refine ⟨fun f => hi'.bnd _ k hnew f, ?_, ?_⟩
    · intro f g hf hg hne hlf hlg
      exact hi'.pairwise _ _ k k f g hnew hnew hf hg (by simp [hne]) hlf hlg
    · intro b kb f g hb hf hg hlf hlg
      have : h.keys.length ≠ b := by have := (List.getElem?_eq_some_iff.mp hb).1; omega
      exact hi'.pairwise _ b k kb f g hnew (hold b kb hb) hf hg (by simp [this]) hlf hlg
  · rintro ⟨hb, hint, hfr⟩
    apply Inv.of_disj
    · intro a ka hka f
      rcases addKey_cases hka with ⟨rfl, rfl⟩ | hka'
      · exact hb f
      · exact hi.bnd a ka hka' f
    · intro a b ka kb f g hka hkb hf hg hne hlf hlg
      rcases addKey_cases hka with ⟨rfl, rfl⟩ | hka'
      · rcases addKey_cases hkb with ⟨rfl, rfl⟩ | hkb'
        · exact hint f g hf hg (fun e => hne (by rw [e])) hlf hlg
        · exact hfr b kb f g hkb' hf hg hlf hlg
      · rcases addKey_cases hkb with ⟨rfl, rfl⟩ | hkb'
        · rw [overlap_comm]; exact hfr a ka g f hka' hg hf hlg hlf
        · exact hi.pairwise a b ka kb f g hka' hkb' hf hg hne hlf hlg

theorem read_zero4_of_not_overlap (h : Heap) (k : HKey) (s : Ref)
    (hov : ∀ r ∈ [k.key, k.pubKey, k.chainCode, k.parentFP], 0 < r.len → 0 < s.len → overlap r s = false) :
    (zero4 h k).read s = h.read s := by
  unfold zero4
  rw [read_zero_disj _ k.parentFP _ (hov _ (by simp)), read_zero_disj _ k.chainCode _ (hov _ (by simp)),
    read_zero_disj _ k.pubKey _ (hov _ (by simp)), read_zero_disj _ k.key _ (hov _ (by simp))]

/-! ### which library operations write to a given slice: only `Zero` -/

/-- `a` and `b` do not overlap (empty slices overlap nothing) -/
def DisjR (a b : Ref) : Prop := 0 < a.len → 0 < b.len → overlap a b = false

instance (a b : Ref) : Decidable (DisjR a b) :=
  inferInstanceAs (Decidable (0 < a.len → 0 < b.len → overlap a b = false))

instance (h : Heap) (r : Ref) : Decidable (InB h r) :=
  inferInstanceAs (Decidable (r.off + r.len ≤ (buf h r.buf).length))

theorem DisjR.symm {a b : Ref} (h : DisjR a b) : DisjR b a :=
  fun hb ha => by rw [overlap_comm]; exact h ha hb

theorem read_allocs_of_InB {h : Heap} {r : Ref} (bs : List Bytes) (hb : InB h r) :
    (allocs h bs).read r = h.read r := by
  induction bs generalizing h with
  | nil => rfl
  | cons b bs ih => rw [allocs, ih (InB_alloc b hb), read_alloc_of_InB b hb]

section
variable {Pt : Type} (X : HDExt Pt)

theorem read_pubKeyBytesH {h : Heap} {r : Ref} (hb : InB h r) (i : Nat) :
    (pubKeyBytesH X h i).1.read r = h.read r := by
  rw [pubKeyBytesH_eq]
  split
  · rfl
  · split
    · rfl
    · split
      · exact read_alloc_of_InB _ hb
      · rfl

theorem InB_pubKeyBytesH {h : Heap} {r : Ref} (hb : InB h r) (i : Nat) : InB (pubKeyBytesH X h i).1 r := by
  rw [pubKeyBytesH_eq]
  split
  · exact hb
  · split
    · exact hb
    · split
      · exact InB_alloc _ hb
      · exact hb

/-- **read frame for library steps**: the only library operation that writes to existing memory is
`Zero i`, and it writes through the four slices of key `i` -/
theorem read_step_frame {h : Heap} {r : Ref} (hb : InB h r) (op : HOp)
    (hz : ∀ i k, op = .zero i → h.keys[i]? = some k →
      ∀ x ∈ [k.key, k.pubKey, k.chainCode, k.parentFP], DisjR x r) :
    (step X h op).1.read r = h.read r := by
  cases op with
  | newMaster seed hdPriv =>
    simp only [step]; rw [newMasterH_eq]; split
    · rfl
    · exact read_allocs_of_InB _ hb
  | parse i =>
    simp only [step]; rw [newKeyFromStringH_eq]; split
    · rfl
    · exact read_allocs_of_InB _ hb
  | child i idx =>
    simp only [step]; rw [childH_eq]; split
    · rfl
    · split
      · simp only; split
        · exact read_pubKeyBytesH X hb i
        · rfl
      · exact (read_allocs_of_InB _ (InB_pubKeyBytesH X hb i)).trans (read_pubKeyBytesH X hb i)
  | neuter i =>
    simp only [step]; rw [neuterH_eq]; split
    · rfl
    · split
      · rfl
      · split
        · rfl
        · exact (read_allocs_of_InB _ (InB_pubKeyBytesH X hb i)).trans (read_pubKeyBytesH X hb i)
  | setNet i p q =>
    simp only [step, setNetH]; split <;> rfl
  | zero i =>
    simp only [step]
    cases hk : h.keys[i]? with
    | none => rw [zeroH_eq]; simp only [hk]
    | some k =>
      rw [zeroH_read hk]
      exact read_zero4_of_not_overlap h k r (hz i k rfl hk)
  | pubKeyBytes i => exact read_pubKeyBytesH X hb i

end

/-! ### ownership transfer: histories in which every `NewExtendedKey` gets slices nobody else uses -/

/-- no writable range of any key overlaps `r` (list form, decidable) -/
def FreeOf (h : Heap) (r : Ref) : Prop := ∀ k ∈ h.keys, ∀ x ∈ ranges k, DisjR x.2 r

instance (h : Heap) (r : Ref) : Decidable (FreeOf h r) :=
  inferInstanceAs (Decidable (∀ k ∈ h.keys, ∀ x ∈ ranges k, DisjR x.2 r))

theorem freeOf_iff (h : Heap) (r : Ref) :
    FreeOf h r ↔ ∀ (i : Nat) (ki : HKey) (f : Nat), h.keys[i]? = some ki → f < 4 → DisjR (fld ki f) r := by
  constructor
  · intro H i ki f hki hf hl hr
    exact H ki (List.mem_iff_getElem?.mpr ⟨i, hki⟩) (f, fld ki f) ((mem_ranges ki f _).mpr ⟨hf, rfl, hl⟩) hl hr
  · intro H k hk x hx
    obtain ⟨i, hi⟩ := List.mem_iff_getElem?.mp hk
    obtain ⟨f, r'⟩ := x
    obtain ⟨hf, rfl, _⟩ := (mem_ranges k f r').mp hx
    exact H i k f hi hf

/-- the caller obligation, checked in the state in which the step happens: the slices passed to
`NewExtendedKey` are in bounds, the three writable ones are pairwise disjoint, disjoint from the
version slice, from every range of every existing key and from every version slice in use; the version
slice overlaps no range of an existing key; the caller never again writes to memory a key uses -/
def transfer (s : NState) : NOp → Prop
  | .lib _ => True
  | .callerAlloc _ => True
  | .newKey v k c f _ _ _ =>
    (InB s.heap v ∧ InB s.heap k ∧ InB s.heap c ∧ InB s.heap f) ∧
    (DisjR k c ∧ DisjR k f ∧ DisjR c f) ∧ (DisjR k v ∧ DisjR c v ∧ DisjR f v) ∧
    (FreeOf s.heap k ∧ FreeOf s.heap c ∧ FreeOf s.heap f ∧ FreeOf s.heap v) ∧
    (∀ x ∈ s.vers, DisjR k x.2 ∧ DisjR c x.2 ∧ DisjR f x.2)
  | .callerWrite w _ => FreeOf s.heap w ∧ ∀ x ∈ s.vers, DisjR w x.2

instance (s : NState) (op : NOp) : Decidable (transfer s op) :=
  match op with
  | .lib _ => isTrue trivial
  | .callerAlloc _ => isTrue trivial
  | .newKey v k c f _ _ _ =>
    inferInstanceAs (Decidable (
      (InB s.heap v ∧ InB s.heap k ∧ InB s.heap c ∧ InB s.heap f) ∧
      (DisjR k c ∧ DisjR k f ∧ DisjR c f) ∧ (DisjR k v ∧ DisjR c v ∧ DisjR f v) ∧
      (FreeOf s.heap k ∧ FreeOf s.heap c ∧ FreeOf s.heap f ∧ FreeOf s.heap v) ∧
      (∀ x ∈ s.vers, DisjR k x.2 ∧ DisjR c x.2 ∧ DisjR f x.2)))
  | .callerWrite w _ => inferInstanceAs (Decidable (FreeOf s.heap w ∧ ∀ x ∈ s.vers, DisjR w x.2))

section
variable {Pt : Type} (X : HDExt Pt)

def transferRun (s : NState) : List NOp → Bool
  | [] => true
  | op :: ops => decide (transfer s op) && transferRun (stepN X s op) ops

end

/-- the ordinary invariant on the whole heap, plus: version slices in use are in bounds, overlap no
writable range of any key, and hold the version of their keys -/
structure TInv (s : NState) : Prop where
  inv : Inv s.heap
  aliasB : ∀ x ∈ s.vers, InB s.heap x.2
  aliasFree : ∀ x ∈ s.vers, FreeOf s.heap x.2
  sync : ∀ (j : Nat) (r : Ref) (k : HKey), aliasOf s.vers j = some r → s.heap.keys[j]? = some k →
    k.version = s.heap.read r

theorem tinv_empty : TInv {} := by
  refine ⟨inv_empty, ?_, ?_, ?_⟩
  · intro x hx; simp at hx
  · intro x hx; simp at hx
  · intro j r k hr; simp [aliasOf] at hr

theorem aliasOf_mem {vers : List (Nat × Ref)} {j : Nat} {r : Ref} (h : aliasOf vers j = some r) :
    (j, r) ∈ vers := by
  unfold aliasOf at h
  cases hf : vers.find? (·.1 == j) with
  | none => rw [hf] at h; cases h
  | some x =>
    rw [hf] at h
    simp only [Option.map_some, Option.some.injEq] at h
    have h1 := List.find?_some hf
    have h2 := List.mem_of_find?_eq_some hf
    obtain ⟨a, b⟩ := x
    simp only [beq_iff_eq] at h1
    subst h h1
    exact h2

theorem versAfter_mem (vers : List (Nat × Ref)) (e : VerEffect) (res : OpRes) (x : Nat × Ref)
    (h : x ∈ versAfter vers e res) : ∃ y ∈ vers, y.2 = x.2 := by
  unfold versAfter at h
  split at h
  · next i j' =>
    split at h
    · next v hv =>
      rcases List.mem_cons.mp h with e | h
      · subst e; exact ⟨(i, v), aliasOf_mem hv, rfl⟩
      · exact ⟨x, h, rfl⟩
    · exact ⟨x, h, rfl⟩
  · exact ⟨x, (List.mem_filter.mp h).1, rfl⟩
  · exact ⟨x, h, rfl⟩

theorem inv_of_flds {h h' : Heap} (hi : Inv h) (hbufs : ∀ r, InB h r → InB h' r)
    (hk : ∀ (a : Nat) (ka' : HKey), h'.keys[a]? = some ka' →
      ∃ ka, h.keys[a]? = some ka ∧ ∀ f, fld ka' f = fld ka f) :
    Inv h' := by
  apply Inv.of_disj
  · intro a ka' hka' f
    obtain ⟨ka, hka, e⟩ := hk a ka' hka'
    rw [e]; exact hbufs _ (hi.bnd a ka hka f)
  · intro a b ka' kb' f g hka' hkb' hf hg hne hlf hlg
    obtain ⟨ka, hka, ea⟩ := hk a ka' hka'
    obtain ⟨kb, hkb, eb⟩ := hk b kb' hkb'
    rw [ea, eb]; rw [ea] at hlf; rw [eb] at hlg
    exact hi.pairwise a b ka kb f g hka hkb hf hg hne hlf hlg

theorem resync_key_of {s : NState} {a : Nat} {ka : HKey} (hka : (resync s).heap.keys[a]? = some ka) :
    ∃ k0, s.heap.keys[a]? = some k0 ∧ ka = resyncKey s.heap s.vers a k0 := by
  rw [resync_keys_getElem?] at hka
  cases h0 : s.heap.keys[a]? with
  | none => rw [h0] at hka; cases hka
  | some k0 => rw [h0] at hka; exact ⟨k0, rfl, by simpa using hka.symm⟩

/-- `resync` after a step that established everything but `sync` -/
theorem tinv_resync {s : NState} (hi : Inv s.heap) (hb : ∀ x ∈ s.vers, InB s.heap x.2)
    (hf : ∀ x ∈ s.vers, FreeOf s.heap x.2) : TInv (resync s) := by
  refine ⟨?_, hb, ?_, ?_⟩
  · apply inv_of_flds (h' := (resync s).heap) hi (fun r h => h)
    intro a ka hka
    obtain ⟨k0, h0, rfl⟩ := resync_key_of hka
    exact ⟨k0, h0, fun f => fld_resyncKey _ _ _ _ f⟩
  · intro x hx
    rw [freeOf_iff]
    intro i ki f hki hf4
    obtain ⟨k0, h0, rfl⟩ := resync_key_of hki
    rw [fld_resyncKey]
    exact (freeOf_iff _ _).mp (hf x hx) i k0 f h0 hf4
  · intro j r k hr hk
    obtain ⟨k0, h0, rfl⟩ := resync_key_of hk
    rw [resync_vers] at hr
    unfold resyncKey
    rw [hr]
    rfl

/-- a slice that overlaps no key range of `h` overlaps none of an extension of `h` -/
theorem freeOf_ext {h h' : Heap} (e : Ext h h') {r : Ref} (hb : InB h r) (hf : FreeOf h r) :
    FreeOf h' r := by
  rw [freeOf_iff] at hf ⊢
  intro a ka f hka hf4 hl hr
  rcases e.orig a ka hka f hf4 hl with ⟨ka0, ha0, ea⟩ | ⟨hn, _⟩
  · rw [ea] at hl ⊢; exact hf a ka0 f ha0 hf4 hl hr
  · apply overlap_of_buf_ne
    have := hb.buf_lt hr
    omega

section
variable {Pt : Type} (X : HDExt Pt)

/-- **the ordinary invariant (on ALL keys, raw-constructed ones included) is kept under the caller
obligation `transfer`** -/
theorem tinv_stepN (hX : ExtOK X) {s : NState} (ht : TInv s) (op : NOp) (hop : transfer s op) :
    TInv (stepN X s op) := by
  cases op with
  | lib op =>
    rw [stepN_lib, libN_eq]
    have e := ext_step X hX (bnd_of_inv ht.inv) op
    apply tinv_resync (inv_step X hX ht.inv op)
    · intro x hx
      obtain ⟨y, hy, e'⟩ := versAfter_mem _ _ _ x hx
      rw [← e']; exact e.inb _ (ht.aliasB y hy)
    · intro x hx
      obtain ⟨y, hy, e'⟩ := versAfter_mem _ _ _ x hx
      rw [← e']; exact freeOf_ext e (ht.aliasB y hy) (ht.aliasFree y hy)
  | callerAlloc b =>
    have e := ext_alloc (bnd_of_inv ht.inv) b
    apply tinv_resync (inv_alloc b ht.inv)
    · intro x hx; exact InB_alloc b (ht.aliasB x hx)
    · intro x hx; exact freeOf_ext e (ht.aliasB x hx) (ht.aliasFree x hx)
  | newKey v k c f d n p =>
    obtain ⟨⟨bv, bk, bc, bf⟩, ⟨kc, kf, cf⟩, ⟨kv, cv, fv⟩, ⟨fk, fc, ff, fvv⟩, hal⟩ := hop
    rw [freeOf_iff] at fk fc ff fvv
    have hI : Inv (newExtendedKeyH s.heap v k c f d n p).1 := by
      apply (inv_addKey_iff ht.inv).mpr
      refine ⟨?_, ?_, ?_⟩
      · rw [forall_fld]; exact ⟨bk, InB_nil _, bc, bf⟩
      · rw [forall_lt_four2]; simp only [forall_lt_four]
        simp only [fld_zero, fld_one, fld_two, fld_three, Ref.nil]
        refine ⟨⟨?_, ?_, ?_, ?_⟩, ⟨?_, ?_, ?_, ?_⟩, ⟨?_, ?_, ?_, ?_⟩, ⟨?_, ?_, ?_, ?_⟩⟩ <;>
          first
          | (intro h; exact absurd rfl h)
          | (intro _ h1 h2; first | exact absurd h1 (by decide) | exact absurd h2 (by decide))
          | (intro _; exact kc) | (intro _; exact kf) | (intro _; exact cf)
          | (intro _; exact kc.symm) | (intro _; exact kf.symm) | (intro _; exact cf.symm)
      · intro b kb g g' hkb hg hg' hl hl'
        match g, hg with
        | 0, _ => exact ((fk b kb g' hkb hg') hl' hl ▸ overlap_comm _ _)
        | 1, _ => simp [Ref.nil] at hl
        | 2, _ => exact ((fc b kb g' hkb hg') hl' hl ▸ overlap_comm _ _)
        | 3, _ => exact ((ff b kb g' hkb hg') hl' hl ▸ overlap_comm _ _)
    apply tinv_resync hI
    · intro x hx
      rcases List.mem_cons.mp hx with e | hx
      · subst e; exact bv
      · exact ht.aliasB x hx
    · intro x hx
      rw [freeOf_iff]
      intro a ka g hka hg
      rcases addKey_cases hka with ⟨rfl, rfl⟩ | hka'
      · rcases List.mem_cons.mp hx with e | hx
        · subst e
          match g, hg with
          | 0, _ => exact kv
          | 1, _ => intro hl; simp [Ref.nil] at hl
          | 2, _ => exact cv
          | 3, _ => exact fv
        · match g, hg with
          | 0, _ => exact (hal x hx).1
          | 1, _ => intro hl; simp [Ref.nil] at hl
          | 2, _ => exact (hal x hx).2.1
          | 3, _ => exact (hal x hx).2.2
      · rcases List.mem_cons.mp hx with e | hx
        · subst e; exact fvv a ka g hka' hg
        · exact (freeOf_iff _ _).mp (ht.aliasFree x hx) a ka g hka' hg
  | callerWrite w d =>
    apply tinv_resync
    · exact inv_of_flds ht.inv (fun r h => (InB_writeH w d).mpr h) (fun a ka hka => ⟨ka, hka, fun _ => rfl⟩)
    · intro x hx; exact (InB_writeH w d).mpr (ht.aliasB x hx)
    · intro x hx; exact ht.aliasFree x hx

theorem tinv_runN (hX : ExtOK X) {s : NState} (ht : TInv s) (ops : List NOp)
    (hl : transferRun X s ops = true) : TInv (runN X s ops) := by
  induction ops generalizing s with
  | nil => exact ht
  | cons op ops ih =>
    simp only [transferRun, Bool.and_eq_true, decide_eq_true_eq] at hl
    exact ih (tinv_stepN X hX ht op hl.1) hl.2

end

/-! ### under the caller obligation every key — raw-constructed ones included — is independent -/

theorem reVer_id {s1 : NState} {j : Nat} {v : XKey}
    (h : ∀ r, aliasOf s1.vers j = some r → s1.heap.read r = v.version) : reVer s1 j v = v := by
  unfold reVer
  cases ha : aliasOf s1.vers j with
  | none => rfl
  | some r => simp only; rw [h r ha]

theorem versAfter_old (vers : List (Nat × Ref)) (e : VerEffect) (res : OpRes) (j : Nat) (r : Ref)
    (hnew : ∀ i j', e = .inherit i → res = .key j' → j' ≠ j)
    (h : aliasOf (versAfter vers e res) j = some r) :
    aliasOf vers j = some r ∧ ∀ i, e = .drop i → i ≠ j := by
  cases e with
  | inherit i =>
    refine ⟨?_, fun _ h => by cases h⟩
    cases res with
    | key j' =>
      simp only [versAfter] at h
      split at h
      · rw [aliasOf_cons, if_neg (hnew i j' rfl rfl)] at h; exact h
      · exact h
    | err e => exact h
    | unit => exact h
  | drop i =>
    have h' : aliasOf (vers.filter (·.1 != i)) j = some r := h
    rw [aliasOf_filter] at h'
    split at h'
    · cases h'
    · next hne => exact ⟨h', fun i' e => by cases e; exact fun e' => hne e'.symm⟩
  | keep => exact ⟨h, fun _ h => by cases h⟩

theorem not_targets_of_verEffect {op : HOp} {j : Nat} (h : ∀ i, verEffect op = .drop i → i ≠ j) :
    ¬ targetsDestructively op j := by
  cases op <;> simp only [targetsDestructively, not_false_eq_true]
  · exact h _ rfl
  · exact h _ rfl

theorem view_writeH_free {h : Heap} {w : Ref} (d : Bytes) (k : HKey)
    (hf : ∀ g : Nat, g < 4 → DisjR (fld k g) w) : view (writeH h w d) k = view h k := by
  have hrd : ∀ g : Nat, g < 4 → (writeH h w d).read (fld k g) = h.read (fld k g) :=
    fun g hg => read_writeH_disj h w _ d (hf g hg).symm
  have h0 := hrd 0 (by omega); have h2 := hrd 2 (by omega); have h3 := hrd 3 (by omega)
  simp only [fld_zero, fld_two, fld_three] at h0 h2 h3
  simp [view, h0, h2, h3]

section
variable {Pt : Type} (X : HDExt Pt)

/-- **one step under the caller obligation, ANY key**: the view changes exactly by the library
`setNet j`/`zero j` -/
theorem viewAt_stepN_transfer {s : NState} (ht : TInv s) (op : NOp)
    (hop : transfer s op) {j : Nat} (hj : j < s.heap.keys.length) :
    viewAt (stepN X s op).heap j = (viewAt s.heap j).map fun v => applyOwnN j v op := by
  have hkj := List.getElem?_eq_getElem hj
  have hv : viewAt s.heap j = some (view s.heap s.heap.keys[j]) := viewAt_isSome s.heap j hj
  cases op with
  | lib op =>
    rw [stepN_lib, libN_eq, viewAt_resync]
    show Option.map _ (viewAt (step X s.heap op).1 j) = _
    rw [viewAt_step X ht.inv op hj, Option.map_map, hv]
    simp only [Option.map_some, Function.comp, Option.some.injEq, applyOwnN]
    apply reVer_id
    intro r hr
    have hnew : ∀ i j', verEffect op = .inherit i → (step X s.heap op).2 = .key j' → j' ≠ j := by
      intro i j' he hres
      cases op <;> simp only [verEffect] at he <;> try cases he
      have := step_key_handle X s.heap _ _ j' hres
      omega
    obtain ⟨hr0, hd⟩ := versAfter_old _ _ _ j r hnew hr
    rw [applyOwn_of_not_targets (not_targets_of_verEffect hd)]
    have hmem := aliasOf_mem hr0
    show (step X s.heap op).1.read r = _
    rw [read_step_frame X (ht.aliasB _ hmem) op]
    · exact (ht.sync j r _ hr0 hkj).symm
    · intro i k _ hk x hx
      have hf := (freeOf_iff _ _).mp (ht.aliasFree _ hmem) i k
      simp only [List.mem_cons, List.not_mem_nil, or_false] at hx
      rcases hx with rfl | rfl | rfl | rfl
      · exact hf 0 hk (by omega)
      · exact hf 1 hk (by omega)
      · exact hf 2 hk (by omega)
      · exact hf 3 hk (by omega)
  | callerAlloc b =>
    show viewAt (resync _).heap j = _
    rw [viewAt_resync]
    show Option.map _ (viewAt (s.heap.alloc b).1 j) = _
    rw [viewAt_alloc' b (bnd_of_inv ht.inv), hv]
    simp only [Option.map_some, Option.some.injEq, applyOwnN]
    apply reVer_id
    intro r hr
    have hr0 : aliasOf s.vers j = some r := hr
    show (s.heap.alloc b).1.read r = _
    rw [read_alloc_of_InB b (ht.aliasB _ (aliasOf_mem hr0))]
    exact (ht.sync j r _ hr0 hkj).symm
  | newKey v k c f d n p =>
    show viewAt (resync _).heap j = _
    rw [viewAt_resync]
    show Option.map _ (viewAt (s.heap.addKey _).1 j) = _
    rw [viewAt_addKey _ _ _ hj, hv]
    simp only [Option.map_some, Option.some.injEq, applyOwnN]
    apply reVer_id
    intro r hr
    have hr0 : aliasOf s.vers j = some r := by
      have : aliasOf ((s.heap.keys.length, v) :: s.vers) j = some r := hr
      rw [aliasOf_cons, if_neg (by omega)] at this; exact this
    exact (ht.sync j r _ hr0 hkj).symm
  | callerWrite w d =>
    obtain ⟨fw, aw⟩ := hop
    rw [freeOf_iff] at fw
    show viewAt (resync _).heap j = _
    rw [viewAt_resync]
    have hvw : viewAt (writeH s.heap w d) j = some (view s.heap s.heap.keys[j]) := by
      unfold viewAt
      rw [writeH_keys, hkj]
      simp only [Option.map_some, Option.some.injEq]
      exact view_writeH_free d _ (fun g hg => fw j _ g hkj hg)
    show Option.map _ (viewAt (writeH s.heap w d) j) = _
    rw [hvw, hv]
    simp only [Option.map_some, Option.some.injEq, applyOwnN]
    apply reVer_id
    intro r hr
    have hr0 : aliasOf s.vers j = some r := hr
    show (writeH s.heap w d).read r = _
    rw [read_writeH_disj _ _ _ _ (aw _ (aliasOf_mem hr0))]
    exact (ht.sync j r _ hr0 hkj).symm

/-- **histories under the caller obligation, ANY key** -/
theorem viewAt_runN_transfer (hX : ExtOK X) {s : NState} (ht : TInv s) (ops : List NOp)
    (hl : transferRun X s ops = true) {j : Nat} (hj : j < s.heap.keys.length) :
    viewAt (runN X s ops).heap j = (viewAt s.heap j).map fun v => ops.foldl (applyOwnN j) v := by
  induction ops generalizing s with
  | nil => simp [runN_nil]
  | cons op ops ih =>
    simp only [transferRun, Bool.and_eq_true, decide_eq_true_eq] at hl
    rw [runN_cons, ih (tinv_stepN X hX ht op hl.1) hl.2
      (Nat.lt_of_lt_of_le hj (keys_length_stepN X s op)), viewAt_stepN_transfer X ht op hl.1 hj,
      Option.map_map]
    rfl

/-! memoised public keys stay sound for every key under the caller obligation -/

theorem memo_resync {s : NState} (hm : MemoOK X s.heap) : MemoOK X (resync s).heap := by
  intro a ka hka hp hl
  obtain ⟨k0, h0, rfl⟩ := resync_key_of hka
  have h1 := hm a k0 h0
  unfold resyncKey at hp hl ⊢
  split
  · next r hr =>
    rw [hr] at hp hl
    exact h1 hp hl
  · next hr =>
    rw [hr] at hp hl
    exact h1 hp hl

theorem memo_stepN_transfer {s : NState} (ht : TInv s) (hm : MemoOK X s.heap) (op : NOp)
    (hop : transfer s op) : MemoOK X (stepN X s op).heap := by
  cases op with
  | lib op =>
    rw [stepN_lib, libN_eq]
    exact memo_resync X (s := { s with heap := _, vers := _ }) (memo_step X ht.inv hm op)
  | callerAlloc b =>
    exact memo_resync X (s := { s with heap := _, cbufs := _ }) (memo_alloc X ht.inv hm b)
  | newKey v k c f d n p =>
    exact memo_resync X (s := { s with heap := _, raw := _, vers := _ }) (memo_addKey X hm _ rfl)
  | callerWrite w d =>
    obtain ⟨fw, _⟩ := hop
    rw [freeOf_iff] at fw
    apply memo_resync X (s := { s with heap := _ })
    intro a ka hka hp hl
    have hka' : s.heap.keys[a]? = some ka := hka
    show (writeH s.heap w d).read (fld ka 1) = pubKeyBytes X (view (writeH s.heap w d) ka)
    rw [view_writeH_free d ka (fun g hg => fw a ka g hka' hg),
      read_writeH_disj _ _ _ _ (fw a ka 1 hka' (by omega)).symm]
    exact hm a ka hka' hp hl

theorem memo_runN_transfer (hX : ExtOK X) {s : NState} (ht : TInv s) (hm : MemoOK X s.heap)
    (ops : List NOp) (hl : transferRun X s ops = true) : MemoOK X (runN X s ops).heap := by
  induction ops generalizing s with
  | nil => exact hm
  | cons op ops ih =>
    simp only [transferRun, Bool.and_eq_true, decide_eq_true_eq] at hl
    exact ih (tinv_stepN X hX ht op hl.1) (memo_stepN_transfer X ht hm op hl.1) hl.2

end

section
variable {Pt : Type} (X : HDExt Pt)

theorem transferRun_append (s : NState) (a b : List NOp) :
    transferRun X s (a ++ b) = (transferRun X s a && transferRun X (runN X s a) b) := by
  induction a generalizing s with
  | nil => simp [transferRun, runN_nil]
  | cons op a ih => simp [transferRun, runN_cons, ih, Bool.and_assoc]

end

/-! ### `NewExtendedKey` itself; `Zero` of a key NOT made by it -/

theorem zero_nil (h : Heap) : h.zero Ref.nil = h := by
  unfold Heap.zero
  show ({ h with bufs := _ } : Heap) = h
  have : h.bufs.modify 0 (fun b => b.take 0 ++ List.replicate (min 0 (b.length - 0)) 0 ++ b.drop (0 + 0)) = h.bufs := by
    apply List.ext_getElem?
    intro n
    rw [List.getElem?_modify]
    cases h.bufs[n]? with
    | none => rfl
    | some b => simp
  simp only [Ref.nil]
  rw [this]

/-- the ordinary invariant after `NewExtendedKey` holds iff the caller obligation does -/
theorem inv_newExtendedKeyH_iff {h : Heap} (hi : Inv h) (v k c f : Ref) (d n : Nat) (p : Bool) :
    Inv (newExtendedKeyH h v k c f d n p).1 ↔
      (InB h k ∧ InB h c ∧ InB h f) ∧ (DisjR k c ∧ DisjR k f ∧ DisjR c f) ∧
        (FreeOf h k ∧ FreeOf h c ∧ FreeOf h f) := by
  unfold newExtendedKeyH
  rw [inv_addKey_iff hi, forall_fld]
  simp only [freeOf_iff]
  constructor
  · rintro ⟨⟨bk, _, bc, bf⟩, hint, hfr⟩
    refine ⟨⟨bk, bc, bf⟩, ⟨?_, ?_, ?_⟩, ⟨?_, ?_, ?_⟩⟩
    · exact fun h1 h2 => hint 0 2 (by omega) (by omega) (by omega) h1 h2
    · exact fun h1 h2 => hint 0 3 (by omega) (by omega) (by omega) h1 h2
    · exact fun h1 h2 => hint 2 3 (by omega) (by omega) (by omega) h1 h2
    · intro i ki g hki hg h1 h2; rw [overlap_comm]; exact hfr i ki 0 g hki (by omega) hg h2 h1
    · intro i ki g hki hg h1 h2; rw [overlap_comm]; exact hfr i ki 2 g hki (by omega) hg h2 h1
    · intro i ki g hki hg h1 h2; rw [overlap_comm]; exact hfr i ki 3 g hki (by omega) hg h2 h1
  · rintro ⟨⟨bk, bc, bf⟩, ⟨kc, kf, cf⟩, ⟨fk, fc, ff⟩⟩
    refine ⟨⟨bk, InB_nil _, bc, bf⟩, ?_, ?_⟩
    · rw [forall_lt_four2]; simp only [forall_lt_four]
      simp only [fld_zero, fld_one, fld_two, fld_three, Ref.nil]
      refine ⟨⟨?_, ?_, ?_, ?_⟩, ⟨?_, ?_, ?_, ?_⟩, ⟨?_, ?_, ?_, ?_⟩, ⟨?_, ?_, ?_, ?_⟩⟩ <;>
        first
        | (intro h; exact absurd rfl h)
        | (intro _ h1 h2; first | exact absurd h1 (by decide) | exact absurd h2 (by decide))
        | (intro _; exact kc) | (intro _; exact kf) | (intro _; exact cf)
        | (intro _; exact kc.symm) | (intro _; exact kf.symm) | (intro _; exact cf.symm)
    · intro b kb g g' hkb hg hg' hl hl'
      match g, hg with
      | 0, _ => exact ((fk b kb g' hkb hg') hl' hl ▸ overlap_comm _ _)
      | 1, _ => simp [Ref.nil] at hl
      | 2, _ => exact ((fc b kb g' hkb hg') hl' hl ▸ overlap_comm _ _)
      | 3, _ => exact ((ff b kb g' hkb hg') hl' hl ▸ overlap_comm _ _)

theorem viewAt_zeroH_pair {h : Heap} {i j : Nat}
    (hs : ∀ (ki kj : HKey) (f g : Nat), h.keys[i]? = some ki → h.keys[j]? = some kj → f < 4 → g < 4 →
      0 < (fld ki f).len → 0 < (fld kj g).len → overlap (fld ki f) (fld kj g) = false)
    (hne : i ≠ j) : viewAt (zeroH h i) j = viewAt h j := by
  rw [zeroH_eq]
  split
  · rfl
  · next k hk =>
    rw [viewAt_setKey_ne _ _ hne]
    unfold viewAt
    rw [zero4_keys]
    cases hkj : h.keys[j]? with
    | none => rfl
    | some kj =>
      have hov : ∀ f : Nat, f < 4 → ∀ g : Nat, g < 4 → 0 < (fld k f).len → 0 < (fld kj g).len →
          overlap (fld k f) (fld kj g) = false :=
        fun f hf g hg hl hl' => hs k kj f g hk hkj hf hg hl hl'
      have : view (zero4 h k) kj = view h kj := by
        unfold zero4
        rw [view_zero k.parentFP (hov 3 (by omega)), view_zero k.chainCode (hov 2 (by omega)),
          view_zero k.pubKey (hov 1 (by omega)), view_zero k.key (hov 0 (by omega))]
      simp [this]

/-- `Zero` of a key not made by `NewExtendedKey` writes to no caller slice -/
theorem read_zeroH_lib {s : NState} (hc : NCore s) {i : Nat} (hi : i ∉ s.raw) {r : Ref}
    (hr : 0 < r.len → r.buf ∈ s.cbufs) : (zeroH s.heap i).read r = s.heap.read r := by
  cases hk : s.heap.keys[i]? with
  | none => rw [zeroH_eq]; simp only [hk]
  | some k =>
    rw [zeroH_read hk]
    apply read_zero4_of_not_overlap
    intro x hx hlx hlr
    apply overlap_of_buf_ne
    intro e
    simp only [List.mem_cons, List.not_mem_nil, or_false] at hx
    have key : ∀ g : Nat, g < 4 → x = fld k g → False := by
      intro g hg e'
      subst e'
      exact hc.libOut i k g hk hg (Or.inl hi) hlx (e ▸ hr hlr)
    rcases hx with e' | e' | e' | e'
    · exact key 0 (by omega) e'
    · exact key 1 (by omega) e'
    · exact key 2 (by omega) e'
    · exact key 3 (by omega) e'

/-- `Zero` of a key not made by `NewExtendedKey` changes no other key at all — raw-constructed or
not, version included -/
theorem viewAt_zeroN_lib {s : NState} (hi : NInv s) {i j : Nat} (hir : i ∉ s.raw) (hne : i ≠ j) :
    viewAt (zeroN s i).heap j = viewAt s.heap j := by
  unfold zeroN
  rw [libN_eq, viewAt_resync]
  show Option.map _ (viewAt (zeroH s.heap i) j) = _
  rw [viewAt_zeroH_pair _ hne]
  · cases hkj : s.heap.keys[j]? with
    | none => simp [viewAt, hkj]
    | some kj =>
      have hv : viewAt s.heap j = some (view s.heap kj) := by simp [viewAt, hkj]
      rw [hv]
      simp only [Option.map_some, Option.some.injEq]
      apply reVer_id
      intro r hr
      have hr' : aliasOf (s.vers.filter (·.1 != i)) j = some r := hr
      rw [aliasOf_filter, if_neg (fun e => hne e.symm)] at hr'
      show (zeroH s.heap i).read r = _
      rw [read_zeroH_lib hi.toNCore hir (hi.alias j r hr').2]
      exact (hi.sync j r kj hr' hkj).symm
  · intro ki kj f g hki hkj hf hg hlf hlg
    rw [overlap_comm]
    exact hi.toNCore.sep hkj hki hg hf (by intro e; simp only [Prod.mk.injEq] at e; exact hne e.1.symm) (Or.inl hir) hlg hlf

theorem viewAt_newExtendedKeyN (s : NState) (v k c f : Ref) (d n : Nat) (p : Bool) :
    viewAt (newExtendedKeyN s v k c f d n p).heap s.heap.keys.length =
      some ⟨s.heap.read k, s.heap.read c, d, s.heap.read f, n, s.heap.read v, p⟩ := by
  unfold newExtendedKeyN
  rw [viewAt_resync]
  show Option.map _ (viewAt (s.heap.addKey _).1 s.heap.keys.length) = _
  rw [viewAt_addKey_new]
  simp only [Option.map_some, Option.some.injEq]
  unfold reVer
  show (match aliasOf ((s.heap.keys.length, v) :: s.vers) s.heap.keys.length with
    | some r => _ | none => _) = _
  rw [aliasOf_cons, if_pos rfl]
  rfl

/-- after the caller overwrites the version slice it passed, the key's version is what was written -/
theorem version_after_write (s : NState) (v k c f : Ref) (d n : Nat) (p : Bool) (data : Bytes)
    (hb : InB s.heap v) (hd : data.length = v.len) :
    (viewAt (callerWriteN (newExtendedKeyN s v k c f d n p) v data).heap s.heap.keys.length).map
      (·.version) = some data := by
  have h1 := viewAt_newExtendedKeyN s v k c f d n p
  generalize hs1 : newExtendedKeyN s v k c f d n p = s1 at h1
  have hal : aliasOf s1.vers s.heap.keys.length = some v := by
    rw [← hs1]
    show aliasOf ((s.heap.keys.length, v) :: s.vers) s.heap.keys.length = some v
    rw [aliasOf_cons, if_pos rfl]
  have hb1 : InB s1.heap v := by rw [← hs1]; exact hb
  unfold callerWriteN
  rw [viewAt_resync]
  have hkeys : viewAt (writeH s1.heap v data) s.heap.keys.length ≠ none := by
    unfold viewAt at h1 ⊢
    rw [writeH_keys]
    cases hk : s1.heap.keys[s.heap.keys.length]? with
    | none => rw [hk] at h1; cases h1
    | some k => simp
  cases hv : viewAt (writeH s1.heap v data) s.heap.keys.length with
  | none => exact absurd hv hkeys
  | some x =>
    simp only [Option.map_some, Option.some.injEq]
    unfold reVer
    show XKey.version (match aliasOf s1.vers s.heap.keys.length with
      | some r => ({ x with version := (writeH s1.heap v data).read r } : XKey) | none => x) = _
    rw [hal]
    exact read_writeH_self data hb1 hd

/-! ### memoised public keys of the keys NOT made by `NewExtendedKey` stay sound under any legit caller -/

section
variable {Pt : Type} (X : HDExt Pt)

/-- the memo of every key with handle in `P` is the public key of its current view -/
def MemoOn (P : Nat → Prop) (h : Heap) : Prop :=
  ∀ (i : Nat) (k : HKey), P i → h.keys[i]? = some k → k.isPrivate = true → k.pubKey.len ≠ 0 →
    h.read k.pubKey = pubKeyBytes X (view h k)

theorem memoOn_alloc {P : Nat → Prop} {h : Heap} (hb : Bnd h) (hm : MemoOn X P h) (b : Bytes) :
    MemoOn X P (h.alloc b).1 := by
  intro i k hP hk hp hl
  rw [alloc_keys] at hk
  have hbk := hb i k hk
  have hb1 : InB h k.pubKey := hbk 1
  rw [view_alloc b hbk, read_alloc_of_InB b hb1]
  exact hm i k hP hk hp hl

theorem memoOn_allocs {P : Nat → Prop} {h : Heap} (hb : Bnd h) (hm : MemoOn X P h) (bs : List Bytes) :
    MemoOn X P (allocs h bs) := by
  induction bs generalizing h with
  | nil => exact hm
  | cons b bs ih => exact ih (ext_alloc hb b).bnd (memoOn_alloc X hb hm b)

theorem memoOn_addKey {P : Nat → Prop} {h : Heap} (hm : MemoOn X P h) (k : HKey) (hk0 : k.pubKey.len = 0) :
    MemoOn X P (h.addKey k).1 := by
  intro a ka hP hka hp hl
  rcases addKey_cases hka with ⟨rfl, rfl⟩ | hka'
  · exact absurd hk0 hl
  · exact hm a ka hP hka' hp hl

theorem memoOn_setKey {P : Nat → Prop} {h : Heap} (hm : MemoOn X P h) (i : Nat) (k' : HKey)
    (hk' : k'.isPrivate = true → k'.pubKey.len ≠ 0 → h.read k'.pubKey = pubKeyBytes X (view h k')) :
    MemoOn X P (h.setKey i k') := by
  intro a ka hP hka hp hl
  rcases setKey_cases hka with ⟨rfl, rfl⟩ | ⟨_, hka'⟩
  · exact hk' hp hl
  · exact hm a ka hP hka' hp hl

theorem memoOn_pubKeyBytesH {P : Nat → Prop} {h : Heap} (hb : Bnd h) (hm : MemoOn X P h) (i : Nat) :
    MemoOn X P (pubKeyBytesH X h i).1 := by
  rw [pubKeyBytesH_eq]
  split
  · exact hm
  · next k hk =>
    split
    · exact hm
    · split
      · apply memoOn_setKey X (memoOn_alloc X hb hm _)
        intro _ _
        have e1 : view (h.alloc (pubKeyBytes X (view h k))).1 (memoKey X h k) =
            view (h.alloc (pubKeyBytes X (view h k))).1 k := rfl
        rw [e1, view_alloc _ (hb i k hk)]
        simp [memoKey, read_eq, buf_alloc]
      · exact hm

theorem memoOn_allocs_addKey {P : Nat → Prop} {h : Heap} (hb : Bnd h) (hm : MemoOn X P h)
    (bs : List Bytes) (k : HKey) (hk0 : k.pubKey.len = 0) : MemoOn X P ((allocs h bs).addKey k).1 :=
  memoOn_addKey X (memoOn_allocs X hb hm bs) k hk0

theorem read_zero4_of_sep {h : Heap} {i j : Nat} (hs : Sep h j) {k kj : HKey} (hk : h.keys[i]? = some k)
    (hkj : h.keys[j]? = some kj) (hne : i ≠ j) (g : Nat) (hg : g < 4) :
    (zero4 h k).read (fld kj g) = h.read (fld kj g) := by
  have hov : ∀ f : Nat, f < 4 → 0 < (fld k f).len → 0 < (fld kj g).len →
      overlap (fld k f) (fld kj g) = false :=
    fun f hf hl hl' => hs i k kj f g hk hkj hne hf hg hl hl'
  unfold zero4
  rw [read_zero_disj _ k.parentFP _ (hov 3 (by omega)), read_zero_disj _ k.chainCode _ (hov 2 (by omega)),
    read_zero_disj _ k.pubKey _ (hov 1 (by omega)), read_zero_disj _ k.key _ (hov 0 (by omega))]

theorem memoOn_zeroH {P : Nat → Prop} {h : Heap} (hs : ∀ j, P j → Sep h j) (hm : MemoOn X P h) (i : Nat) :
    MemoOn X P (zeroH h i) := by
  rw [zeroH_eq]
  split
  · exact hm
  · next k hk =>
    intro a ka hP hka hp hl
    rcases setKey_cases hka with ⟨rfl, rfl⟩ | ⟨e, hka'⟩
    · simp at hp
    · rw [zero4_keys] at hka'
      have e' : i ≠ a := fun h => e h.symm
      show (zero4 h k).read (fld ka 1) = pubKeyBytes X (view (zero4 h k) ka)
      rw [read_zero4_of_sep (hs a hP) hk hka' e' 1 (by omega), view_zero4_of_sep (hs a hP) hk hka' e']
      exact hm a ka hP hka' hp hl

theorem memoOn_setNetH {P : Nat → Prop} {h : Heap} (hm : MemoOn X P h) (i : Nat) (hdPriv hdPub : Bytes) :
    MemoOn X P (setNetH h i hdPriv hdPub) := by
  unfold setNetH
  split
  · exact hm
  · next k hk =>
    intro a ka hP hka hp hl
    rcases setKey_cases hka with ⟨rfl, rfl⟩ | ⟨_, hka'⟩
    · exact hm a k hP hk hp hl
    · exact hm a ka hP hka' hp hl

theorem memoOn_step {P : Nat → Prop} {h : Heap} (hb : Bnd h) (hs : ∀ j, P j → Sep h j)
    (hm : MemoOn X P h) (op : HOp) : MemoOn X P (step X h op).1 := by
  cases op with
  | newMaster seed hdPriv =>
    simp only [step]; rw [newMasterH_eq]; split
    · exact hm
    · exact memoOn_allocs_addKey X hb hm _ _ rfl
  | parse i =>
    simp only [step]; rw [newKeyFromStringH_eq]; split
    · exact hm
    · exact memoOn_allocs_addKey X hb hm _ _ rfl
  | child i idx =>
    simp only [step]; rw [childH_eq]; split
    · exact hm
    · split
      · simp only; split
        · exact memoOn_pubKeyBytesH X hb hm i
        · exact hm
      · exact memoOn_allocs_addKey X (ext_pubKeyBytesH X hb i).bnd (memoOn_pubKeyBytesH X hb hm i) _ _ rfl
  | neuter i =>
    simp only [step]; rw [neuterH_eq]; split
    · exact hm
    · split
      · exact hm
      · split
        · exact hm
        · exact memoOn_allocs_addKey X (ext_pubKeyBytesH X hb i).bnd (memoOn_pubKeyBytesH X hb hm i) _ _ rfl
  | pubKeyBytes i => exact memoOn_pubKeyBytesH X hb hm i
  | setNet i p q => exact memoOn_setNetH X hm i p q
  | zero i => exact memoOn_zeroH X hs hm i

theorem memoOn_resync {P : Nat → Prop} {s : NState} (hm : MemoOn X P s.heap) :
    MemoOn X P (resync s).heap := by
  intro a ka hP hka hp hl
  obtain ⟨k0, h0, rfl⟩ := resync_key_of hka
  have h1 := hm a k0 hP h0
  unfold resyncKey at hp hl ⊢
  split
  · next r hr =>
    rw [hr] at hp hl
    exact h1 hp hl
  · next hr =>
    rw [hr] at hp hl
    exact h1 hp hl

/-- **the memo of every key not made by `NewExtendedKey` stays sound under every legit step** -/
theorem memoN_stepN {s : NState} (hi : NInv s) (hm : MemoOn X (· ∉ s.raw) s.heap) (op : NOp)
    (hl : legit s op = true) : MemoOn X (· ∉ (stepN X s op).raw) (stepN X s op).heap := by
  cases op with
  | lib op =>
    rw [stepN_lib, libN_eq]
    exact memoOn_resync X (s := { s with heap := _, vers := _ })
      (memoOn_step X hi.bnd (fun j hj => hi.toNCore.sepOf hj) hm op)
  | callerAlloc b =>
    exact memoOn_resync X (s := { s with heap := _, cbufs := _ }) (memoOn_alloc X hi.bnd hm b)
  | newKey v k c f d n p =>
    apply memoOn_resync X (s := { s with heap := _, raw := _, vers := _ })
    intro a ka hP hka hp hl'
    have hP' : a ∉ s.raw := fun h => hP (List.mem_cons_of_mem _ h)
    exact memoOn_addKey X hm _ rfl a ka hP' hka hp hl'
  | callerWrite w d =>
    have hw := (ownedRef_iff s w).mp hl
    apply memoOn_resync X (s := { s with heap := _ })
    intro a ka hP hka hp hl'
    have hka' : s.heap.keys[a]? = some ka := hka
    have hd : ∀ g : Nat, g < 4 → DisjR (fld ka g) w := by
      intro g hg h1 h2
      apply overlap_of_buf_ne
      intro e
      exact hi.libOut a ka g hka' hg (Or.inl hP) h1 (e ▸ hw.1 h2)
    show (writeH s.heap w d).read (fld ka 1) = pubKeyBytes X (view (writeH s.heap w d) ka)
    rw [view_writeH_free d ka hd, read_writeH_disj _ _ _ _ (hd 1 (by omega)).symm]
    exact hm a ka hP hka' hp hl'

theorem memoN_runN (hX : ExtOK X) {s : NState} (hi : NInv s) (hm : MemoOn X (· ∉ s.raw) s.heap)
    (ops : List NOp) (hl : legitRun X s ops = true) :
    MemoOn X (· ∉ (runN X s ops).raw) (runN X s ops).heap := by
  induction ops generalizing s with
  | nil => exact hm
  | cons op ops ih =>
    simp only [legitRun, Bool.and_eq_true] at hl
    exact ih (ninv_stepN X hX hi op hl.1) (memoN_stepN X hi hm op hl.1) hl.2

theorem pubKeyBytesH_snd_on {P : Nat → Prop} {h : Heap} (hm : MemoOn X P h) {i : Nat} {k : HKey}
    (hP : P i) (hk : h.keys[i]? = some k) : (pubKeyBytesH X h i).2 = pubKeyBytes X (view h k) := by
  rw [pubKeyBytesH_eq]
  simp only [hk]
  split
  · next hp => simp [pubKeyBytes, view, hp]
  · next hp =>
    split
    · rfl
    · next hl => exact hm i k hP hk (by simpa using hp) hl

end

end Bch.Proofs.HDHeapNew
