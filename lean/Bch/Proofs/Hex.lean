import Bch.Model.Address

/-!
Lemmas about the hex helpers used by the address model (`hexEnc`, `hexDec`, `lowerASCII`).

`hexEnc` goes through `String` (`Bytes.toHex` then UTF-8 encoding); `hexEnc_eq` gives the
byte-level reformulation, everything after that is list/byte reasoning.
-/

namespace Bch.Proofs.Hex
open Bch Bch.Model.Address

/-! ## Definitions -/

/-- ASCII code of the lower-case hex digit of value `n` (`n < 16`). -/
def hexByte (n : Nat) : UInt8 := if n < 10 then UInt8.ofNat (48 + n) else UInt8.ofNat (87 + n)

/-- byte-level `strings.ToUpper` restricted to ASCII -/
def upperASCII (s : Bytes) : Bytes := s.map fun c => if 97 ≤ c ∧ c ≤ 122 then c - 32 else c

/-- `0-9`, `a-f` or `A-F` -/
def isHexDigit (c : UInt8) : Prop := (48 ≤ c ∧ c ≤ 57) ∨ (97 ≤ c ∧ c ≤ 102) ∨ (65 ≤ c ∧ c ≤ 70)

/-- byte-level version of `Bytes.hexVal` -/
def hexValB (c : UInt8) : Option Nat :=
  if 48 ≤ c ∧ c ≤ 57 then some (c.toNat - 48)
  else if 97 ≤ c ∧ c ≤ 102 then some (c.toNat - 87)
  else if 65 ≤ c ∧ c ≤ 70 then some (c.toNat - 55)
  else none

/-- one byte of `lowerASCII` -/
def lowerB (c : UInt8) : UInt8 := if 65 ≤ c ∧ c ≤ 90 then c + 32 else c

/-- one byte of `upperASCII` -/
def upperB (c : UInt8) : UInt8 := if 97 ≤ c ∧ c ≤ 122 then c - 32 else c

theorem lowerASCII_eq_map (s : Bytes) : lowerASCII s = s.map lowerB := rfl
theorem upperASCII_eq_map (s : Bytes) : upperASCII s = s.map upperB := rfl

/-! ## `ByteArray.toList` -/

theorem toList_loop (bs : ByteArray) (i : Nat) (r : List UInt8) :
    ByteArray.toList.loop bs i r = r.reverse ++ bs.data.toList.drop i := by
  fun_induction ByteArray.toList.loop bs i r with
  | case1 i r h ih =>
    rw [ih]
    have h' : i < bs.data.toList.length := by rw [Array.length_toList]; exact h
    have h'' : i < bs.data.size := h
    rw [List.drop_eq_getElem_cons h']
    simp [ByteArray.get!, getElem!_pos bs.data i h'']
  | case2 i r h =>
    have h' : bs.data.toList.length ≤ i := by rw [Array.length_toList]; exact Nat.le_of_not_lt h
    simp [List.drop_eq_nil_of_le h']

theorem byteArray_toList_eq (bs : ByteArray) : bs.toList = bs.data.toList := by
  simp [ByteArray.toList, toList_loop]

/-- `Bytes.ofString` of a string given by its characters is the concatenated UTF-8 encodings. -/
theorem ofString_ofList (l : List Char) :
    Bytes.ofString (String.ofList l) = l.flatMap String.utf8EncodeChar := by
  simp [Bytes.ofString, byteArray_toList_eq, List.utf8Encode, List.data_toByteArray]

/-! ## Per-digit facts (finite checks) -/

theorem utf8_hexDigit : ∀ n, n < 16 → String.utf8EncodeChar (Bytes.hexDigit n) = [hexByte n] := by
  decide +kernel

theorem hexVal_ofNat : ∀ n, n < 256 → Bytes.hexVal (Char.ofNat n) = hexValB (UInt8.ofNat n) := by
  decide +kernel

theorem hexVal_ofByte (c : UInt8) : Bytes.hexVal (Char.ofNat c.toNat) = hexValB c := by
  have := hexVal_ofNat c.toNat c.toNat_lt
  rwa [UInt8.ofNat_toNat] at this

theorem byte_forall {P : UInt8 → Prop} (h : ∀ n, n < 256 → P (UInt8.ofNat n)) (c : UInt8) : P c := by
  have := h c.toNat c.toNat_lt
  rwa [UInt8.ofNat_toNat] at this

theorem hexByte_range : ∀ n, n < 16 →
    (48 ≤ hexByte n ∧ hexByte n ≤ 57) ∨ (97 ≤ hexByte n ∧ hexByte n ≤ 102) := by
  decide +kernel

theorem hexValB_hexByte : ∀ n, n < 16 → hexValB (hexByte n) = some n := by
  decide +kernel

theorem hexValB_upperB_hexByte : ∀ n, n < 16 → hexValB (upperB (hexByte n)) = some n := by
  decide +kernel

theorem lowerB_hexByte : ∀ n, n < 16 → lowerB (hexByte n) = hexByte n := by
  decide +kernel

theorem lowerB_upperB_hexByte : ∀ n, n < 16 → lowerB (upperB (hexByte n)) = hexByte n := by
  decide +kernel

theorem hexValB_lowerB (c : UInt8) : hexValB (lowerB c) = hexValB c := by
  revert c
  apply byte_forall
  decide +kernel

theorem hexValB_some_aux : ∀ n, n < 256 → ∀ x ∈ hexValB (UInt8.ofNat n),
    x < 16 ∧ hexByte x = lowerB (UInt8.ofNat n) ∧
      ((48 ≤ UInt8.ofNat n ∧ UInt8.ofNat n ≤ 57) ∨ (97 ≤ UInt8.ofNat n ∧ UInt8.ofNat n ≤ 102) ∨
        (65 ≤ UInt8.ofNat n ∧ UInt8.ofNat n ≤ 70)) := by
  decide +kernel

/-- a byte with a hex value is a hex digit, its value is `< 16`, and the lower-case digit of that
    value is the case-folded byte -/
theorem hexValB_some {c : UInt8} {x : Nat} (h : hexValB c = some x) :
    x < 16 ∧ hexByte x = lowerB c ∧ isHexDigit c := by
  revert x
  revert c
  apply byte_forall
  intro n hn x hx
  exact hexValB_some_aux n hn x hx

/-! ## Equations for `hexEnc` / `hexDec` -/

/-- 1. byte-level reformulation of `hexEnc` -/
theorem hexEnc_eq (b : Bytes) :
    hexEnc b = b.flatMap fun x => [hexByte (x.toNat / 16), hexByte (x.toNat % 16)] := by
  unfold hexEnc Bytes.toHex
  rw [ofString_ofList]
  induction b with
  | nil => rfl
  | cons x xs ih =>
    have h1 : x.toNat / 16 < 16 := by have := x.toNat_lt; omega
    have h2 : x.toNat % 16 < 16 := by omega
    simp only [List.flatMap_cons, List.flatMap_append, List.flatMap_nil, List.append_nil, ih,
      utf8_hexDigit _ h1, utf8_hexDigit _ h2]
    rfl

theorem hexEnc_nil : hexEnc [] = [] := by rw [hexEnc_eq]; rfl

/-- 10. -/
theorem hexEnc_head (x : UInt8) (xs : Bytes) :
    hexEnc (x :: xs) = hexByte (x.toNat / 16) :: hexByte (x.toNat % 16) :: hexEnc xs := by
  simp [hexEnc_eq]

theorem hexDec_nil : hexDec [] = some [] := rfl

theorem hexDec_singleton (a : UInt8) : hexDec [a] = none := rfl

theorem hexDec_cons_cons (a b : UInt8) (rest : Bytes) :
    hexDec (a :: b :: rest) =
      (hexValB a).bind fun x => (hexValB b).bind fun y => (hexDec rest).bind fun r =>
        some (UInt8.ofNat (x * 16 + y) :: r) := by
  simp only [hexDec, List.map_cons, Bytes.ofHexChars, hexVal_ofByte]
  rfl

/-- induction two bytes at a time -/
theorem two_step {P : Bytes → Prop} (h0 : P []) (h1 : ∀ a, P [a])
    (h2 : ∀ a b r, P r → P (a :: b :: r)) : ∀ s, P s
  | [] => h0
  | [a] => h1 a
  | a :: b :: r => h2 a b r (two_step h0 h1 h2 r)

/-- inversion of a successful two-byte step -/
theorem hexDec_cons_cons_some {a b : UInt8} {rest out : Bytes}
    (h : hexDec (a :: b :: rest) = some out) :
    ∃ x y r, hexValB a = some x ∧ hexValB b = some y ∧ hexDec rest = some r ∧
      out = UInt8.ofNat (x * 16 + y) :: r := by
  rw [hexDec_cons_cons] at h
  cases hx : hexValB a with
  | none => simp [hx] at h
  | some x =>
    cases hy : hexValB b with
    | none => simp [hx, hy] at h
    | some y =>
      cases hr : hexDec rest with
      | none => simp [hx, hy, hr] at h
      | some r =>
        simp only [hx, hy, hr, Option.bind_some, Option.some.injEq] at h
        exact ⟨x, y, r, rfl, rfl, rfl, h.symm⟩

theorem byte_split (x : UInt8) : UInt8.ofNat (x.toNat / 16 * 16 + x.toNat % 16) = x := by
  have : x.toNat / 16 * 16 + x.toNat % 16 = x.toNat := by omega
  rw [this, UInt8.ofNat_toNat]

theorem byte_join {x y : Nat} (hx : x < 16) (hy : y < 16) :
    (UInt8.ofNat (x * 16 + y)).toNat / 16 = x ∧ (UInt8.ofNat (x * 16 + y)).toNat % 16 = y := by
  rw [UInt8.toNat_ofNat']
  omega

/-! ## Required theorems -/

/-- 2. -/
theorem hexEnc_length (b : Bytes) : (hexEnc b).length = 2 * b.length := by
  induction b with
  | nil => simp [hexEnc_nil]
  | cons x xs ih => simp [hexEnc_head, ih]; omega

/-- 3. the output consists of `0-9a-f` only -/
theorem hexEnc_chars (b : Bytes) : ∀ c ∈ hexEnc b, (48 ≤ c ∧ c ≤ 57) ∨ (97 ≤ c ∧ c ≤ 102) := by
  induction b with
  | nil => simp [hexEnc_nil]
  | cons x xs ih =>
    have h1 : x.toNat / 16 < 16 := by have := x.toNat_lt; omega
    have h2 : x.toNat % 16 < 16 := by omega
    intro c hc
    rw [hexEnc_head] at hc
    simp only [List.mem_cons] at hc
    rcases hc with rfl | rfl | hc
    · exact hexByte_range _ h1
    · exact hexByte_range _ h2
    · exact ih c hc

/-- 4. decoding an encoding gives the bytes back -/
theorem hexDec_hexEnc (b : Bytes) : hexDec (hexEnc b) = some b := by
  induction b with
  | nil => rw [hexEnc_nil]; rfl
  | cons x xs ih =>
    have h1 : x.toNat / 16 < 16 := by have := x.toNat_lt; omega
    have h2 : x.toNat % 16 < 16 := by omega
    rw [hexEnc_head, hexDec_cons_cons, hexValB_hexByte _ h1, hexValB_hexByte _ h2, ih]
    simp only [Option.bind_some, byte_split]

/-- 5. decoding the upper-cased encoding gives the bytes back -/
theorem hexDec_upper_hexEnc (b : Bytes) : hexDec (upperASCII (hexEnc b)) = some b := by
  induction b with
  | nil => rw [hexEnc_nil]; rfl
  | cons x xs ih =>
    have h1 : x.toNat / 16 < 16 := by have := x.toNat_lt; omega
    have h2 : x.toNat % 16 < 16 := by omega
    rw [upperASCII_eq_map] at ih ⊢
    rw [hexEnc_head, List.map_cons, List.map_cons, hexDec_cons_cons,
      hexValB_upperB_hexByte _ h1, hexValB_upperB_hexByte _ h2, ih]
    simp only [Option.bind_some, byte_split]

/-- 6. the hex value is case-insensitive -/
theorem hexDec_lowerASCII (s : Bytes) : hexDec (lowerASCII s) = hexDec s := by
  induction s using two_step with
  | h0 => rfl
  | h1 a => rfl
  | h2 a b r ih =>
    rw [lowerASCII_eq_map] at ih ⊢
    rw [List.map_cons, List.map_cons, hexDec_cons_cons, hexDec_cons_cons, hexValB_lowerB,
      hexValB_lowerB, ih]

/-- 7. the canonical lower-case rendering of what was decoded is the case-folded input -/
theorem hexEnc_hexDec (s b : Bytes) : hexDec s = some b → hexEnc b = lowerASCII s := by
  induction s using two_step generalizing b with
  | h0 =>
    intro h
    rw [hexDec_nil] at h
    cases h
    rw [hexEnc_nil]; rfl
  | h1 a => intro h; rw [hexDec_singleton] at h; cases h
  | h2 a c r ih =>
    intro h
    obtain ⟨x, y, r', hx, hy, hr, rfl⟩ := hexDec_cons_cons_some h
    obtain ⟨hx16, hxb, -⟩ := hexValB_some hx
    obtain ⟨hy16, hyb, -⟩ := hexValB_some hy
    obtain ⟨j1, j2⟩ := byte_join hx16 hy16
    rw [hexEnc_head, j1, j2, ih r' hr, hxb, hyb]
    rfl

/-- 8. only hex digits, and an even number of them, decode -/
theorem hexDec_chars (s b : Bytes) :
    hexDec s = some b → (∀ c ∈ s, isHexDigit c) ∧ s.length = 2 * b.length := by
  induction s using two_step generalizing b with
  | h0 =>
    intro h
    rw [hexDec_nil] at h
    cases h
    simp
  | h1 a => intro h; rw [hexDec_singleton] at h; cases h
  | h2 a c r ih =>
    intro h
    obtain ⟨x, y, r', hx, hy, hr, rfl⟩ := hexDec_cons_cons_some h
    obtain ⟨-, -, ha⟩ := hexValB_some hx
    obtain ⟨-, -, hc⟩ := hexValB_some hy
    obtain ⟨ih1, ih2⟩ := ih r' hr
    refine ⟨?_, ?_⟩
    · intro d hd
      simp only [List.mem_cons] at hd
      rcases hd with rfl | rfl | hd
      · exact ha
      · exact hc
      · exact ih1 d hd
    · simp only [List.length_cons, ih2]; omega

/-- 9a. -/
theorem lowerASCII_hexEnc (b : Bytes) : lowerASCII (hexEnc b) = hexEnc b := by
  induction b with
  | nil => rw [hexEnc_nil]; rfl
  | cons x xs ih =>
    have h1 : x.toNat / 16 < 16 := by have := x.toNat_lt; omega
    have h2 : x.toNat % 16 < 16 := by omega
    rw [lowerASCII_eq_map] at ih ⊢
    rw [hexEnc_head, List.map_cons, List.map_cons, lowerB_hexByte _ h1, lowerB_hexByte _ h2, ih]

/-- 9b. -/
theorem lowerASCII_upper_hexEnc (b : Bytes) : lowerASCII (upperASCII (hexEnc b)) = hexEnc b := by
  induction b with
  | nil => rw [hexEnc_nil]; rfl
  | cons x xs ih =>
    have h1 : x.toNat / 16 < 16 := by have := x.toNat_lt; omega
    have h2 : x.toNat % 16 < 16 := by omega
    rw [lowerASCII_eq_map, upperASCII_eq_map] at ih ⊢
    rw [hexEnc_head, List.map_cons, List.map_cons, List.map_cons, List.map_cons,
      lowerB_upperB_hexByte _ h1, lowerB_upperB_hexByte _ h2, ih]

/-! ## Tests -/

/-- test: "02ab" -/
example : hexEnc [0x02, 0xab] = [48, 50, 97, 98] := by rw [hexEnc_eq]; decide

/-- test: the literal route through `String` agrees -/
example : hexEnc [0x02, 0xab] = Bytes.ofString "02ab" := by decide +kernel

/-- test: decoding "02aB" (mixed case) -/
example : hexDec [48, 50, 97, 66] = some [0x02, 0xab] := by decide +kernel

/-- test: odd length is rejected -/
example : hexDec [48, 50, 97] = none := by decide +kernel

/-- test: a non-hex byte (`g`) is rejected -/
example : hexDec [48, 103] = none := by decide +kernel

/-- test (non-vacuity of the hypothesis of `hexEnc_hexDec` / `hexDec_chars`) -/
example : hexDec [65, 98] = some [0xab] ∧ hexEnc [0xab] = lowerASCII [65, 98] :=
  ⟨by decide +kernel, hexEnc_hexDec _ _ (by decide +kernel)⟩

/-- test: upper-casing -/
example : upperASCII (hexEnc [0xab, 0x0f]) = [65, 66, 48, 70] := by rw [hexEnc_eq]; decide


end Bch.Proofs.Hex
