import Bch.Model.Base58
/-
Helper lemmas about `Bch.Model.Base58.Encode`: the alphabet as explicit bytes, digit bounds,
the length of the digit string, and the length window (25 … 35) of Base58Check strings built
from 25 = 1 + 20 + 4 bytes.  Core Lean only.
-/
namespace Bch.Proofs.Base58Len
open Bch Bch.Model.Base58

/-! ## 1. The alphabet -/

/-- The Base58 alphabet as explicit byte values (`'1'…'9'`, `'A'…'Z'` without `I`,`O`,
`'a'…'z'` without `l`). -/
theorem alphabet_eq : alphabet =
    [49, 50, 51, 52, 53, 54, 55, 56, 57,
     65, 66, 67, 68, 69, 70, 71, 72,
     74, 75, 76, 77, 78,
     80, 81, 82, 83, 84, 85, 86, 87, 88, 89, 90,
     97, 98, 99, 100, 101, 102, 103, 104, 105, 106, 107,
     109, 110, 111, 112, 113, 114, 115, 116, 117, 118, 119, 120, 121, 122] := by
  decide +kernel

theorem alphabet_length : alphabet.length = 58 := by
  rw [alphabet_eq]; rfl

/-! ## 2. Every alphabet character is ASCII alphanumeric (and neither `'0'` nor `':'`) -/

theorem alphabet_char (c : UInt8) :
    c ∈ alphabet → ((49 ≤ c ∧ c ≤ 57) ∨ (65 ≤ c ∧ c ≤ 90) ∨ (97 ≤ c ∧ c ≤ 122)) := by
  rw [alphabet_eq]
  revert c
  decide

/-- Strengthening: the letters excluded by Base58 (`I`=73, `O`=79, `l`=108) are not in it either. -/
theorem alphabet_char_excl (c : UInt8) :
    c ∈ alphabet → c ≠ 48 ∧ c ≠ 58 ∧ c ≠ 73 ∧ c ≠ 79 ∧ c ≠ 108 := by
  rw [alphabet_eq]
  revert c
  decide

theorem one_mem_alphabet : (49 : UInt8) ∈ alphabet := by
  rw [alphabet_eq]; decide

/-! ## 3./4. The digit loop -/

theorem digitsLE_zero : digitsLE 0 = [] := by
  rw [digitsLE]; simp

theorem digitsLE_pos (x : Nat) (h : x ≠ 0) : digitsLE x = (x % 58) :: digitsLE (x / 58) := by
  rw [digitsLE]; simp [h]

theorem digitsLE_lt (x : Nat) : ∀ d ∈ digitsLE x, d < 58 := by
  induction x using Nat.strongRecOn with
  | ind x ih =>
    by_cases h : x = 0
    · subst h; rw [digitsLE_zero]; intro d hd; cases hd
    · rw [digitsLE_pos x h]
      intro d hd
      rcases List.mem_cons.mp hd with rfl | hd
      · exact Nat.mod_lt _ (by decide)
      · exact ih (x / 58) (by omega) d hd

theorem digitsLE_length_le (x k : Nat) : x < 58 ^ k → (digitsLE x).length ≤ k := by
  induction k generalizing x with
  | zero =>
    intro h
    have : x = 0 := by simpa using h
    subst this; rw [digitsLE_zero]; simp
  | succ k ih =>
    intro h
    by_cases hx : x = 0
    · subst hx; rw [digitsLE_zero]; simp
    · rw [digitsLE_pos x hx, List.length_cons]
      have : x / 58 < 58 ^ k := by
        rw [Nat.div_lt_iff_lt_mul (by decide)]
        rw [Nat.pow_succ] at h; exact h
      have := ih (x / 58) this
      omega

theorem digitsLE_length_ge (x k : Nat) : 58 ^ k ≤ x → k + 1 ≤ (digitsLE x).length := by
  induction k generalizing x with
  | zero =>
    intro h
    have hx : x ≠ 0 := by
      have : 1 ≤ x := by simpa using h
      omega
    rw [digitsLE_pos x hx, List.length_cons]; omega
  | succ k ih =>
    intro h
    have hpos : 0 < 58 ^ (k + 1) := Nat.pow_pos (by decide)
    have hx : x ≠ 0 := by omega
    rw [digitsLE_pos x hx, List.length_cons]
    have : 58 ^ k ≤ x / 58 := by
      rw [Nat.le_div_iff_mul_le (by decide)]
      rw [Nat.pow_succ] at h; exact h
    have := ih (x / 58) this
    omega

/-- Exact characterisation: the digit string of a positive `x` has exactly `k+1` digits
iff `58^k ≤ x < 58^(k+1)`. -/
theorem digitsLE_length_eq (x k : Nat) (h1 : 58 ^ k ≤ x) (h2 : x < 58 ^ (k + 1)) :
    (digitsLE x).length = k + 1 :=
  Nat.le_antisymm (digitsLE_length_le x (k + 1) h2) (digitsLE_length_ge x k h1)

/-! ## 5./6. Characters and length of `Encode` -/

theorem alphaAt_mem (d : Nat) (h : d < 58) : alphaAt d ∈ alphabet := by
  have hl : d < alphabet.length := by rw [alphabet_length]; exact h
  unfold alphaAt
  rw [List.getD_eq_getElem?_getD, List.getElem?_eq_getElem hl, Option.getD_some]
  exact List.getElem_mem hl

theorem Encode_chars (b : Bytes) : ∀ c ∈ Encode b, c ∈ alphabet := by
  intro c hc
  unfold Encode at hc
  simp only [List.mem_reverse, List.mem_append, List.mem_map, List.mem_replicate] at hc
  rcases hc with ⟨d, hd, rfl⟩ | ⟨_, rfl⟩
  · exact alphaAt_mem d (digitsLE_lt _ d hd)
  · exact one_mem_alphabet

theorem Encode_length (b : Bytes) :
    (Encode b).length = (digitsLE (Bytes.toNatBE b)).length + leadingZeros b := by
  simp [Encode, Nat.add_comm]

/-! ## 7. Bounds on `toNatBE` -/

theorem foldl_toNatBE (bs : Bytes) (acc : Nat) :
    bs.foldl (fun acc b => acc * 256 + b.toNat) acc = acc * 256 ^ bs.length + Bytes.toNatBE bs := by
  unfold Bytes.toNatBE
  induction bs generalizing acc with
  | nil => simp
  | cons b bs ih =>
    simp only [List.foldl_cons, List.length_cons]
    rw [ih (acc * 256 + b.toNat), ih (0 * 256 + b.toNat)]
    rw [Nat.pow_succ, Nat.add_mul, Nat.zero_mul, Nat.zero_add, Nat.add_assoc,
      Nat.mul_assoc, Nat.mul_comm 256]

theorem toNatBE_nil : Bytes.toNatBE [] = 0 := rfl

theorem toNatBE_cons (b : UInt8) (bs : Bytes) :
    Bytes.toNatBE (b :: bs) = b.toNat * 256 ^ bs.length + Bytes.toNatBE bs := by
  have := foldl_toNatBE bs (0 * 256 + b.toNat)
  simp only [Nat.zero_mul, Nat.zero_add] at this
  show List.foldl _ (0 * 256 + b.toNat) bs = _
  simpa using this

/-- the plain bound, ignoring leading zeros -/
theorem toNatBE_lt_pow (b : Bytes) : Bytes.toNatBE b < 256 ^ b.length := by
  induction b with
  | nil => simp [toNatBE_nil]
  | cons a as ih =>
    rw [toNatBE_cons, List.length_cons, Nat.pow_succ]
    have ha : a.toNat < 256 := a.toNat_lt
    have : a.toNat * 256 ^ as.length ≤ 255 * 256 ^ as.length :=
      Nat.mul_le_mul_right _ (by omega)
    omega

theorem leadingZeros_le (b : Bytes) : leadingZeros b ≤ b.length := by
  induction b with
  | nil => simp [leadingZeros]
  | cons a as ih =>
    unfold leadingZeros
    split <;> simp <;> omega

theorem toNatBE_lt (b : Bytes) : Bytes.toNatBE b < 256 ^ (b.length - leadingZeros b) := by
  induction b with
  | nil => simp [toNatBE_nil]
  | cons a as ih =>
    unfold leadingZeros
    split
    · next h =>
      subst h
      rw [toNatBE_cons]
      simpa using ih
    · simpa using toNatBE_lt_pow (a :: as)

theorem toNatBE_ge (b : Bytes) :
    leadingZeros b < b.length → 256 ^ (b.length - leadingZeros b - 1) ≤ Bytes.toNatBE b := by
  induction b with
  | nil => intro h; simp [leadingZeros] at h
  | cons a as ih =>
    unfold leadingZeros
    split
    · next h =>
      subst h
      intro hlt
      rw [toNatBE_cons]
      simp only [List.length_cons, Nat.add_lt_add_iff_right] at hlt
      simpa using ih hlt
    · next h =>
      intro _
      rw [toNatBE_cons]
      simp only [List.length_cons, Nat.sub_zero, Nat.add_sub_cancel]
      have ha : 1 ≤ a.toNat := by
        have : a.toNat ≠ 0 := fun h0 => h (UInt8.toNat_inj.mp (by simpa using h0))
        omega
      have : 1 * 256 ^ as.length ≤ a.toNat * 256 ^ as.length := Nat.mul_le_mul_right _ ha
      omega

/-- all-zero input: the value is 0 and `Encode` is just the run of `'1'`s -/
theorem toNatBE_eq_zero_of_leadingZeros (b : Bytes) (h : leadingZeros b = b.length) :
    Bytes.toNatBE b = 0 := by
  have := toNatBE_lt b
  rw [h, Nat.sub_self] at this
  omega

/-! ## 8. General length window and the 25-byte instance -/

/-- every input byte yields at least one output character -/
theorem Encode_length_ge (b : Bytes) : b.length ≤ (Encode b).length := by
  rw [Encode_length]
  have hz := leadingZeros_le b
  by_cases h : leadingZeros b < b.length
  · have h1 := toNatBE_ge b h
    have h2 : 58 ^ (b.length - leadingZeros b - 1) ≤ 256 ^ (b.length - leadingZeros b - 1) :=
      Nat.pow_le_pow_left (by decide) _
    have := digitsLE_length_ge _ _ (Nat.le_trans h2 h1)
    omega
  · omega

/-- generic upper bound: if `256^(n-z) ≤ 58^k` where `z` is the number of leading zero bytes,
then the encoding has at most `k + z` characters -/
theorem Encode_length_le_of_pow (b : Bytes) (k : Nat)
    (h : 256 ^ (b.length - leadingZeros b) ≤ 58 ^ k) :
    (Encode b).length ≤ k + leadingZeros b := by
  rw [Encode_length]
  have := digitsLE_length_le _ k (Nat.lt_of_lt_of_le (toNatBE_lt b) h)
  omega

theorem pow_fact_25 : ∀ z, z < 26 → 256 ^ (25 - z) ≤ 58 ^ (35 - z) := by decide

/-- Base58Check strings of 1+20+4 bytes have between 25 and 35 characters. -/
theorem Encode_length_25 (b : Bytes) :
    b.length = 25 → 25 ≤ (Encode b).length ∧ (Encode b).length ≤ 35 := by
  intro hb
  have hz := leadingZeros_le b
  refine ⟨by simpa [hb] using Encode_length_ge b, ?_⟩
  have hp := pow_fact_25 (leadingZeros b) (by omega)
  have := Encode_length_le_of_pow b (35 - leadingZeros b) (by rw [hb]; exact hp)
  omega

/-! ## 9. Tests -/

-- test: hypotheses of `digitsLE_length_le/ge` are satisfiable, and the bounds are tight
example : (3364 : Nat) < 58 ^ 3 ∧ 58 ^ 2 ≤ (3364 : Nat) := by decide
example : (digitsLE 3364).length = 3 := digitsLE_length_eq 3364 2 (by decide) (by decide)
-- test: digitsLE on a concrete value (57 = 'z', 58 = "21")
example : digitsLE 57 = [57] := by
  rw [digitsLE_pos _ (by decide)]; simp [digitsLE_zero]
example : digitsLE 58 = [0, 1] := by
  rw [digitsLE_pos _ (by decide), digitsLE_pos _ (by decide)]; simp [digitsLE_zero]
-- test: membership hypothesis of `alphabet_char` is satisfiable; excluded characters are excluded
example : (122 : UInt8) ∈ alphabet := by rw [alphabet_eq]; decide
example : (48 : UInt8) ∉ alphabet := fun h => (alphabet_char_excl 48 h).1 rfl
example : (58 : UInt8) ∉ alphabet := fun h => (alphabet_char_excl 58 h).2.1 rfl
-- test: `toNatBE_ge` hypothesis is satisfiable ([0,1,0]: one leading zero of three bytes)
example : leadingZeros [0, 1, 0] < ([0, 1, 0] : Bytes).length := by decide
example : Bytes.toNatBE [0, 1, 0] = 256 := by decide
-- test: `Encode_length_25` is not vacuous and both ends of the window are attained:
-- 25 zero bytes encode to 25 characters, 25 bytes 0xff encode to 35 characters.
example : (List.replicate 25 (0 : UInt8)).length = 25 := by decide
example : (Encode (List.replicate 25 0)).length = 25 := by
  rw [Encode_length, toNatBE_eq_zero_of_leadingZeros _ (by decide), digitsLE_zero]; decide
example : (Encode (List.replicate 25 255)).length = 35 := by
  rw [Encode_length, digitsLE_length_eq _ 34 (by decide) (by decide)]; decide
-- test: the bound 35 cannot be lowered to 34 by the counting argument
example : ¬ (256 ^ 25 ≤ 58 ^ 34) := by decide


end Bch.Proofs.Base58Len
