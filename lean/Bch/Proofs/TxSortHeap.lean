import Bch.Model.TxSortHeap
import Bch.Proofs.TxSort
/-! Lemmas for `Props/C18Heap.lean`: swaps on a backing array, windows, `List.modify`. -/
namespace Bch.Proofs.TxSortHeap
open Bch Bch.Model.TxSort Bch.Model.TxSortHeap Bch.Proofs.TxSort

theorem swapArr_length (a : List Nat) (i j : Nat) : (swapArr a i j).length = a.length := by
  simp [swapArr]

theorem swapArr_getElem? (a : List Nat) (i j k : Nat) (hi : i < a.length) (hj : j < a.length) :
    (swapArr a i j)[k]? = if k = j then a[i]? else if k = i then a[j]? else a[k]? := by
  simp only [swapArr, List.getElem?_set, List.length_set, List.getD_eq_getElem?_getD]
  by_cases h1 : j = k
  · subst h1; simp [hj, List.getElem?_eq_getElem hi]
  · by_cases h2 : i = k
    · subst h2; simp [h1, hi, List.getElem?_eq_getElem hj, Ne.symm h1]
    · simp [h1, h2, Ne.symm h1, Ne.symm h2]

theorem ind_le_count (a : List Nat) (i : Nat) (hi : i < a.length) (c : Nat) :
    (if a[i] == c then 1 else 0) ≤ a.count c := by
  split
  · rename_i h; have : a[i] = c := by simpa using h
    exact List.one_le_count_iff.2 (this ▸ List.getElem_mem hi)
  · omega

theorem swapArr_perm (a : List Nat) (i j : Nat) (hi : i < a.length) (hj : j < a.length) :
    (swapArr a i j).Perm a := by
  rw [List.perm_iff_count]
  intro c
  unfold swapArr
  rw [List.count_set (by simpa using hj), List.count_set hi]
  simp only [List.getD_eq_getElem?_getD, List.getElem?_eq_getElem hi, List.getElem?_eq_getElem hj,
    Option.getD_some, List.getElem_set]
  have h1 := ind_le_count a i hi c
  by_cases hij : i = j
  · subst hij; simp only [if_true]; omega
  · simp only [hij, if_false]; omega

theorem window_getElem? (a : List Nat) (s : Slice) (k : Nat) :
    (window a s)[k]? = if k < s.len then a[s.off + k]? else none := by
  simp only [window, List.getElem?_take, List.getElem?_drop]

theorem window_length (a : List Nat) (s : Slice) (h : s.off + s.len ≤ a.length) :
    (window a s).length = s.len := by
  simp only [window, List.length_take, List.length_drop]; omega

/-- a swap inside the window is the swap of the window -/
theorem window_swapArr (a : List Nat) (s : Slice) (i j : Nat) (h : s.off + s.len ≤ a.length)
    (hi : i < s.len) (hj : j < s.len) :
    window (swapArr a (s.off + i) (s.off + j)) s = swapArr (window a s) i j := by
  apply List.ext_getElem?
  intro k
  have hl := window_length a s h
  rw [window_getElem?, swapArr_getElem? _ _ _ _ (by omega) (by omega),
    swapArr_getElem? _ _ _ _ (by omega) (by omega)]
  simp only [window_getElem?, hi, hj, if_true]
  by_cases hk : k < s.len
  · simp only [hk, if_true]
    simp only [Nat.add_left_cancel_iff]
  · simp only [hk, if_false]
    have : ¬ k = j := by omega
    have : ¬ k = i := by omega
    simp [*]

/-- … and leaves everything outside the window as it was -/
theorem swapArr_outside (a : List Nat) (s : Slice) (i j k : Nat) (h : s.off + s.len ≤ a.length)
    (hi : i < s.len) (hj : j < s.len) (hk : k < s.off ∨ s.off + s.len ≤ k) :
    (swapArr a (s.off + i) (s.off + j))[k]? = a[k]? := by
  rw [swapArr_getElem? _ _ _ _ (by omega) (by omega)]
  have : ¬ k = s.off + j := by omega
  have : ¬ k = s.off + i := by omega
  simp [*]


/-! ### one array of a list of arrays -/

theorem getD_modify_self (l : List (List Nat)) (b : Nat) (f : List Nat → List Nat) (hb : b < l.length) :
    (l.modify b f).getD b [] = f (l.getD b []) := by
  simp [List.getD_eq_getElem?_getD, List.getElem?_modify, List.getElem?_eq_getElem hb]

theorem getElem?_modify_ne (l : List (List Nat)) (b c : Nat) (f : List Nat → List Nat) (h : c ≠ b) :
    (l.modify b f)[c]? = l[c]? := by
  rw [List.getElem?_modify]
  cases l[c]? <;> simp [Ne.symm h]

/-- what a run of in-range swaps on one slice does to a list of backing arrays -/
structure SwapsSpec (arrs arrs' : List (List Nat)) (s : Slice) : Prop where
  len : arrs'.length = arrs.length
  others : ∀ c, c ≠ s.arr → arrs'[c]? = arrs[c]?
  alen : (arrs'.getD s.arr []).length = (arrs.getD s.arr []).length
  perm : (window (arrs'.getD s.arr []) s).Perm (window (arrs.getD s.arr []) s)
  outside : ∀ k, k < s.off ∨ s.off + s.len ≤ k → (arrs'.getD s.arr [])[k]? = (arrs.getD s.arr [])[k]?

theorem SwapsSpec.refl (arrs : List (List Nat)) (s : Slice) : SwapsSpec arrs arrs s :=
  ⟨rfl, fun _ _ => rfl, rfl, List.Perm.refl _, fun _ _ => rfl⟩

theorem SwapsSpec.step (arrs : List (List Nat)) (s : Slice) (ij : Nat × Nat)
    (hv : s.ValidIn arrs) (h1 : ij.1 < s.len) (h2 : ij.2 < s.len) :
    SwapsSpec arrs (arrs.modify s.arr (fun a => swapArr a (s.off + ij.1) (s.off + ij.2))) s := by
  obtain ⟨hb, hlc, hcap⟩ := hv
  have hwl : s.off + s.len ≤ (arrs.getD s.arr []).length := by omega
  refine ⟨List.length_modify _ _ _, fun c hc => getElem?_modify_ne _ _ _ _ hc, ?_, ?_, ?_⟩
  · rw [getD_modify_self _ _ _ hb, swapArr_length]
  · rw [getD_modify_self _ _ _ hb, window_swapArr _ _ _ _ hwl h1 h2]
    exact swapArr_perm _ _ _ (by rw [window_length _ _ hwl]; exact h1) (by rw [window_length _ _ hwl]; exact h2)
  · intro k hk
    rw [getD_modify_self _ _ _ hb]
    exact swapArr_outside _ _ _ _ _ hwl h1 h2 hk

theorem SwapsSpec.validIn {arrs arrs' : List (List Nat)} {s : Slice} (h : SwapsSpec arrs arrs' s)
    (hv : s.ValidIn arrs) : s.ValidIn arrs' :=
  ⟨h.len ▸ hv.1, hv.2.1, h.alen ▸ hv.2.2⟩

theorem SwapsSpec.trans {a b c : List (List Nat)} {s : Slice} (h1 : SwapsSpec a b s) (h2 : SwapsSpec b c s) :
    SwapsSpec a c s :=
  ⟨h2.len.trans h1.len, fun k hk => (h2.others k hk).trans (h1.others k hk), h2.alen.trans h1.alen,
   h2.perm.trans h1.perm, fun k hk => (h2.outside k hk).trans (h1.outside k hk)⟩

/-- the input-side swaps: objects and output arrays untouched, input arrays as `SwapsSpec` says -/
theorem foldl_swapIn (s : Slice) (sw : List (Nat × Nat)) (h : Heap)
    (hv : s.ValidIn h.inArrs) (hr : InRange s sw) :
    let h' := sw.foldl (fun h ij => swapIn h s ij) h
    h'.ins = h.ins ∧ h'.outs = h.outs ∧ h'.outArrs = h.outArrs ∧ SwapsSpec h.inArrs h'.inArrs s := by
  induction sw generalizing h with
  | nil => exact ⟨rfl, rfl, rfl, SwapsSpec.refl _ _⟩
  | cons ij rest ih =>
    have hij := hr ij (List.mem_cons_self ..)
    have st := SwapsSpec.step h.inArrs s ij hv hij.1 hij.2
    have := ih (swapIn h s ij) (st.validIn hv) (fun x hx => hr x (List.mem_cons_of_mem _ hx))
    simp only [List.foldl_cons]
    exact ⟨this.1, this.2.1, this.2.2.1, st.trans this.2.2.2⟩

theorem foldl_swapOut (s : Slice) (sw : List (Nat × Nat)) (h : Heap)
    (hv : s.ValidIn h.outArrs) (hr : InRange s sw) :
    let h' := sw.foldl (fun h ij => swapOut h s ij) h
    h'.ins = h.ins ∧ h'.outs = h.outs ∧ h'.inArrs = h.inArrs ∧ SwapsSpec h.outArrs h'.outArrs s := by
  induction sw generalizing h with
  | nil => exact ⟨rfl, rfl, rfl, SwapsSpec.refl _ _⟩
  | cons ij rest ih =>
    have hij := hr ij (List.mem_cons_self ..)
    have st := SwapsSpec.step h.outArrs s ij hv hij.1 hij.2
    have := ih (swapOut h s ij) (st.validIn hv) (fun x hx => hr x (List.mem_cons_of_mem _ hx))
    simp only [List.foldl_cons]
    exact ⟨this.1, this.2.1, this.2.2.1, st.trans this.2.2.2⟩


/-! ### Go's insertion sort as a swap schedule -/

/-- generic in-range swap of two positions of a list -/
def swapL {α : Type} (l : List α) (i j : Nat) : List α :=
  match l[i]?, l[j]? with
  | some x, some y => (l.set i y).set j x
  | _, _ => l

def applySwaps {α : Type} (l : List α) (sw : List (Nat × Nat)) : List α :=
  sw.foldl (fun l ij => swapL l ij.1 ij.2) l

theorem swapArr_eq_swapL (a : List Nat) (i j : Nat) (hi : i < a.length) (hj : j < a.length) :
    swapArr a i j = swapL a i j := by
  simp [swapArr, swapL, List.getElem?_eq_getElem hi, List.getElem?_eq_getElem hj, List.getD_eq_getElem?_getD]

theorem swapL_length {α : Type} (l : List α) (i j : Nat) : (swapL l i j).length = l.length := by
  unfold swapL; split <;> simp

theorem map_swapL {α β : Type} (f : α → β) (l : List α) (i j : Nat) :
    (swapL l i j).map f = swapL (l.map f) i j := by
  unfold swapL
  simp only [List.getElem?_map]
  cases l[i]? <;> cases l[j]? <;> simp [List.map_set]

theorem map_applySwaps {α β : Type} (f : α → β) (l : List α) (sw : List (Nat × Nat)) :
    (applySwaps l sw).map f = applySwaps (l.map f) sw := by
  induction sw generalizing l with
  | nil => rfl
  | cons ij rest ih => simp only [applySwaps, List.foldl_cons] at *; rw [ih, map_swapL]

/-- swapping the adjacent elements `y` (position `n`) and `x` (position `n+1`) -/
theorem swapL_adjacent {α : Type} (p : List α) (y x : α) (rest : List α) :
    swapL (p ++ y :: x :: rest) (p.length + 1) p.length = p ++ x :: y :: rest := by
  unfold swapL
  simp [List.getElem?_append_right, List.set_append]

/-- the inner loop of insertion sort: `x` sinks into the (reversed) sorted prefix -/
theorem applySwaps_insert {α : Type} (less : α → α → Bool) (x : α) (pre rest : List α) :
    applySwaps (pre.reverse ++ x :: rest) (insertSwaps less x pre) = (insertRev less x pre).reverse ++ rest := by
  induction pre generalizing rest with
  | nil => simp [insertSwaps, insertRev, applySwaps]
  | cons y pre ih =>
    simp only [insertSwaps, insertRev]
    split
    · simp only [applySwaps, List.foldl_cons, List.reverse_cons, List.append_assoc, List.singleton_append]
      have := swapL_adjacent pre.reverse y x rest
      rw [List.length_reverse] at this
      rw [this]
      have := ih (y :: rest)
      simp only [applySwaps] at this
      rw [this]
    · simp [applySwaps]

theorem insertRev_length {α : Type} (less : α → α → Bool) (x : α) (pre : List α) :
    (insertRev less x pre).length = pre.length + 1 := by
  induction pre with
  | nil => rfl
  | cons y pre ih => simp only [insertRev]; split <;> simp [ih]

theorem applySwaps_append {α : Type} (l : List α) (s1 s2 : List (Nat × Nat)) :
    applySwaps l (s1 ++ s2) = applySwaps (applySwaps l s1) s2 := by
  simp [applySwaps, List.foldl_append]

/-- the whole insertion sort on values -/
theorem applySwaps_sortAux {α : Type} (less : α → α → Bool) (pre l : List α) :
    applySwaps (pre.reverse ++ l) (sortSwapsAux less pre l) =
      (l.foldl (fun p x => insertRev less x p) pre).reverse := by
  induction l generalizing pre with
  | nil => simp [sortSwapsAux, applySwaps]
  | cons x rest ih =>
    simp only [sortSwapsAux, applySwaps_append, applySwaps_insert, List.foldl_cons]
    exact ih _

/-- inserting from the left (the value-level model) behind a larger last element -/
theorem insertBy_append_last {α : Type} (less : α → α → Bool) (x y : α) (L : List α) (h : less x y = true) :
    insertBy less x (L ++ [y]) = insertBy less x L ++ [y] := by
  induction L with
  | nil => simp [insertBy, h]
  | cons z L ih => simp only [List.cons_append, insertBy]; split <;> simp [ih]

theorem insertBy_all_le {α : Type} (less : α → α → Bool) (x : α) (L : List α)
    (h : ∀ z ∈ L, less x z = false) : insertBy less x L = L ++ [x] := by
  induction L with
  | nil => rfl
  | cons z L ih =>
    simp only [insertBy, h z (List.mem_cons_self ..)]
    simp [ih (fun w hw => h w (List.mem_cons_of_mem _ hw))]

/-- sinking from the right (Go) = inserting from the left (model) on a sorted prefix -/
theorem insertRev_eq_insertBy {α : Type} {less : α → α → Bool} (sw : StrictWeak less) (x : α) (pre : List α)
    (hs : Sorted less pre.reverse) : (insertRev less x pre).reverse = insertBy less x pre.reverse := by
  induction pre with
  | nil => rfl
  | cons y pre ih =>
    have hs' : Sorted less pre.reverse := by
      unfold Sorted at *; rw [List.reverse_cons, List.pairwise_append] at hs; exact hs.1
    have hy : ∀ z ∈ pre.reverse, less y z = false := by
      unfold Sorted at hs; rw [List.reverse_cons, List.pairwise_append] at hs
      intro z hz; exact hs.2.2 z hz y (List.mem_singleton.2 rfl)
    simp only [insertRev]
    split
    · rename_i hxy
      rw [List.reverse_cons, ih hs', List.reverse_cons, insertBy_append_last _ _ _ _ hxy]
    · rename_i hxy
      have hxy : less x y = false := by simpa using hxy
      rw [insertBy_all_le]
      · simp
      · intro z hz
        rw [List.reverse_cons, List.mem_append, List.mem_singleton] at hz
        rcases hz with hz | rfl
        · exact sw.le_trans (hy z hz) hxy
        · exact hxy

theorem foldl_insertRev_eq {α : Type} {less : α → α → Bool} (sw : StrictWeak less) (l pre : List α)
    (hs : Sorted less pre.reverse) :
    (l.foldl (fun p x => insertRev less x p) pre).reverse =
      l.foldl (fun acc x => insertBy less x acc) pre.reverse := by
  induction l generalizing pre with
  | nil => rfl
  | cons x rest ih =>
    simp only [List.foldl_cons]
    have e := insertRev_eq_insertBy sw x pre hs
    have hs2 : Sorted less (insertRev less x pre).reverse := by
      rw [e]; exact insertBy_sorted sw.trans (fun _ _ => sw.asymm) x _ hs
    rw [ih _ hs2, e]

/-- **Go's insertion-sort schedule, run on the values, yields the value-level model's `sortBy`** -/
theorem applySwaps_sortSwaps {α : Type} {less : α → α → Bool} (sw : StrictWeak less) (l : List α) :
    applySwaps l (sortSwaps less l) = sortBy less l := by
  have := applySwaps_sortAux less [] l
  simp only [List.reverse_nil, List.nil_append] at this
  rw [sortSwaps, this, foldl_insertRev_eq sw l [] List.Pairwise.nil]
  rfl


theorem insertSwaps_range {α : Type} (less : α → α → Bool) (x : α) (pre : List α) :
    ∀ ij ∈ insertSwaps less x pre, ij.1 ≤ pre.length ∧ ij.2 < pre.length := by
  induction pre with
  | nil => simp [insertSwaps]
  | cons y pre ih =>
    simp only [insertSwaps]
    split
    · intro ij hij
      rcases List.mem_cons.1 hij with rfl | h
      · simp
      · have := ih ij h; simp only [List.length_cons]; omega
    · simp

theorem sortSwapsAux_range {α : Type} (less : α → α → Bool) (pre l : List α) :
    ∀ ij ∈ sortSwapsAux less pre l, ij.1 < pre.length + l.length ∧ ij.2 < pre.length + l.length := by
  induction l generalizing pre with
  | nil => simp [sortSwapsAux]
  | cons x rest ih =>
    intro ij hij
    simp only [sortSwapsAux, List.mem_append] at hij
    rcases hij with h | h
    · have := insertSwaps_range less x pre ij h; simp only [List.length_cons]; omega
    · have := ih _ ij h; rw [insertRev_length] at this; simp only [List.length_cons]; omega

theorem sortSwaps_inRange {α : Type} (less : α → α → Bool) (l : List α) (s : Slice) (h : l.length = s.len) :
    InRange s (sortSwaps less l) := by
  intro ij hij
  have := sortSwapsAux_range less [] l ij hij
  simp only [List.length_nil, Nat.zero_add, h] at this
  exact this

/-- the window after a run of in-range swaps is the generic `applySwaps` of the window before -/
theorem window_foldl_swap (s : Slice) (sw : List (Nat × Nat)) (arrs : List (List Nat))
    (hv : s.ValidIn arrs) (hr : InRange s sw) :
    window ((sw.foldl (fun A ij => A.modify s.arr (fun a => swapArr a (s.off + ij.1) (s.off + ij.2))) arrs).getD
      s.arr []) s = applySwaps (window (arrs.getD s.arr []) s) sw := by
  induction sw generalizing arrs with
  | nil => rfl
  | cons ij rest ih =>
    have hij := hr ij (List.mem_cons_self ..)
    have st := SwapsSpec.step arrs s ij hv hij.1 hij.2
    have hwl : s.off + s.len ≤ (arrs.getD s.arr []).length := by have := hv.2; omega
    simp only [List.foldl_cons, applySwaps]
    rw [ih _ (st.validIn hv) (fun x hx => hr x (List.mem_cons_of_mem _ hx)),
      getD_modify_self _ _ _ hv.1, window_swapArr _ _ _ _ hwl hij.1 hij.2,
      swapArr_eq_swapL _ _ _ (by rw [window_length _ _ hwl]; exact hij.1) (by rw [window_length _ _ hwl]; exact hij.2)]
    rfl

theorem foldl_swapIn_inArrs (s : Slice) (sw : List (Nat × Nat)) (h : Heap) :
    (sw.foldl (fun h ij => swapIn h s ij) h).inArrs =
      sw.foldl (fun A ij => A.modify s.arr (fun a => swapArr a (s.off + ij.1) (s.off + ij.2))) h.inArrs := by
  induction sw generalizing h with
  | nil => rfl
  | cons ij rest ih => simp only [List.foldl_cons]; rw [ih]; rfl

theorem foldl_swapOut_outArrs (s : Slice) (sw : List (Nat × Nat)) (h : Heap) :
    (sw.foldl (fun h ij => swapOut h s ij) h).outArrs =
      sw.foldl (fun A ij => A.modify s.arr (fun a => swapArr a (s.off + ij.1) (s.off + ij.2))) h.outArrs := by
  induction sw generalizing h with
  | nil => rfl
  | cons ij rest ih => simp only [List.foldl_cons]; rw [ih]; rfl

theorem readIns_length (h : Heap) (s : Slice) (hv : s.ValidIn h.inArrs) : (readIns h s).length = s.len := by
  simp only [readIns, List.length_map]; exact window_length _ _ (by have := hv.2; omega)

theorem readOuts_length (h : Heap) (s : Slice) (hv : s.ValidIn h.outArrs) : (readOuts h s).length = s.len := by
  simp only [readOuts, List.length_map]; exact window_length _ _ (by have := hv.2; omega)

/-- values read back after in-range swaps on the input slice = the same swaps applied to the values -/
theorem readIns_foldl_swapIn (s : Slice) (sw : List (Nat × Nat)) (h : Heap)
    (hv : s.ValidIn h.inArrs) (hr : InRange s sw) :
    readIns (sw.foldl (fun h ij => swapIn h s ij) h) s = applySwaps (readIns h s) sw := by
  have a := foldl_swapIn s sw h hv hr
  simp only [readIns, a.1, foldl_swapIn_inArrs, window_foldl_swap s sw h.inArrs hv hr, map_applySwaps]

theorem readOuts_foldl_swapOut (s : Slice) (sw : List (Nat × Nat)) (h : Heap)
    (hv : s.ValidIn h.outArrs) (hr : InRange s sw) :
    readOuts (sw.foldl (fun h ij => swapOut h s ij) h) s = applySwaps (readOuts h s) sw := by
  have a := foldl_swapOut s sw h hv hr
  simp only [readOuts, a.2.1, foldl_swapOut_outArrs, window_foldl_swap s sw h.outArrs hv hr, map_applySwaps]

end Bch.Proofs.TxSortHeap
