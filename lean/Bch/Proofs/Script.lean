import Bch.Spec.Script
import Bch.Model.BloomTx
/-
Lemmas about the script tokenizer of `Bch/Spec/Script.lean`.
-/
namespace Bch.Proofs.Script
open Bch Bch.Spec.Script

/-! ### little-endian bytes -/

theorem ofNatLE_length (n x : Nat) : (Bytes.ofNatLE n x).length = n := by
  induction n generalizing x with
  | zero => rfl
  | succ n ih => simp [Bytes.ofNatLE, ih]

theorem toNatLE_ofNatLE (n x : Nat) : Bytes.toNatLE (Bytes.ofNatLE n x) = x % 256^n := by
  induction n generalizing x with
  | zero => simp [Bytes.ofNatLE, Bytes.toNatLE, Nat.mod_one]
  | succ n ih =>
    simp only [Bytes.ofNatLE, Bytes.toNatLE, ih, UInt8.toNat_ofNat']
    have : 256^(n+1) = 256 * 256^n := by rw [Nat.pow_succ, Nat.mul_comm]
    rw [this, Nat.mod_mul]
    omega

theorem toNatLE_lt (l : Bytes) : Bytes.toNatLE l < 256^l.length := by
  induction l with
  | nil => simp [Bytes.toNatLE]
  | cons b l ih =>
    simp only [Bytes.toNatLE, List.length_cons, Nat.pow_succ]
    have := b.toNat_lt
    omega

theorem ofNatLE_toNatLE (l : Bytes) : Bytes.ofNatLE l.length (Bytes.toNatLE l) = l := by
  induction l with
  | nil => rfl
  | cons b l ih =>
    simp only [List.length_cons, Bytes.ofNatLE, Bytes.toNatLE]
    have hb := b.toNat_lt
    have h1 : (b.toNat + 256 * Bytes.toNatLE l) % 256 = b.toNat := by omega
    have h2 : (b.toNat + 256 * Bytes.toNatLE l) / 256 = Bytes.toNatLE l := by omega
    rw [h1, h2, ih, UInt8.ofNat_toNat]

/-! ### split -/

theorem split_eq (n : Nat) (l : Bytes) :
    split n l = if l.length < n then none else some (l.take n, l.drop n) := by
  induction n generalizing l with
  | zero => simp [split]
  | succ n ih =>
    cases l with
    | nil => simp [split]
    | cons b r =>
      simp only [split, ih r, List.length_cons, List.take_succ_cons, List.drop_succ_cons]
      by_cases h : r.length < n
      · simp [h]
      · simp [h]

theorem split_append (d r : Bytes) : split d.length (d ++ r) = some (d, r) := by
  simp [split_eq]

theorem split_some {n : Nat} {l d r : Bytes} (h : split n l = some (d, r)) :
    l = d ++ r ∧ d.length = n := by
  rw [split_eq] at h
  split at h
  · cases h
  · simp only [Option.some.injEq, Prod.mk.injEq] at h
    obtain ⟨rfl, rfl⟩ := h
    simp only [List.take_append_drop, List.length_take, true_and]
    omega

theorem split_none {n : Nat} {l : Bytes} : split n l = none ↔ l.length < n := by
  rw [split_eq]; split <;> simp [*]

/-! ### one instruction -/

/-- the bytes of an instruction after its opcode byte -/
def encTail (t : Token) : Bytes :=
  if isDirect t.op then t.data
  else if isPushData t.op then Bytes.ofNatLE (lenWidth t.op) t.data.length ++ t.data
  else []

theorem encodeTok_eq (t : Token) : encodeTok t = t.op :: encTail t := by
  unfold encodeTok encTail
  split
  · rfl
  · split <;> rfl

theorem encodeTok_length_pos (t : Token) : 0 < (encodeTok t).length := by
  rw [encodeTok_eq]; simp

theorem next_encTail (t : Token) (h : t.wf = true) (r : Bytes) :
    next t.op (encTail t ++ r) = some (t.data, r) := by
  unfold next encTail
  unfold Token.wf at h
  by_cases h1 : isDirect t.op = true
  · simp only [h1, if_true] at h ⊢
    have : t.op.toNat = t.data.length := (beq_iff_eq.mp h).symm
    rw [this, split_append]
  · simp only [h1, Bool.false_eq_true, if_false] at h ⊢
    by_cases h2 : isPushData t.op = true
    · simp only [h2, if_true] at h ⊢
      have hl : t.data.length < 256 ^ lenWidth t.op := by simpa using h
      have e : split (lenWidth t.op) (Bytes.ofNatLE (lenWidth t.op) t.data.length ++ t.data ++ r)
          = some (Bytes.ofNatLE (lenWidth t.op) t.data.length, t.data ++ r) := by
        have := split_append (Bytes.ofNatLE (lenWidth t.op) t.data.length) (t.data ++ r)
        rw [ofNatLE_length] at this
        rw [List.append_assoc]; exact this
      rw [e]
      simp only [toNatLE_ofNatLE, Nat.mod_eq_of_lt hl, split_append]
    · simp only [h2, Bool.false_eq_true, if_false] at h ⊢
      have : t.data = [] := by simpa using h
      simp [this]

theorem next_some {op : UInt8} {rest d r : Bytes} (h : next op rest = some (d, r)) :
    (Token.mk op d).wf = true ∧ rest = encTail ⟨op, d⟩ ++ r := by
  unfold next at h
  unfold Token.wf encTail
  by_cases h1 : isDirect op = true
  · simp only [h1, if_true] at h ⊢
    obtain ⟨e, l⟩ := split_some h
    exact ⟨by simp [l], e⟩
  · simp only [h1, Bool.false_eq_true, if_false] at h ⊢
    by_cases h2 : isPushData op = true
    · simp only [h2, if_true] at h ⊢
      cases h3 : split (lenWidth op) rest with
      | none => simp [h3] at h
      | some p =>
        obtain ⟨lb, r'⟩ := p
        simp only [h3] at h
        obtain ⟨e1, l1⟩ := split_some h3
        obtain ⟨e2, l2⟩ := split_some h
        refine ⟨?_, ?_⟩
        · have := toNatLE_lt lb
          rw [l1] at this
          simp only [decide_eq_true_eq]; omega
        · rw [e1, e2, List.append_assoc]
          congr 1
          rw [l2, ← l1, ofNatLE_toNatLE]
    · simp only [h2, Bool.false_eq_true, if_false] at h ⊢
      simp only [Option.some.injEq, Prod.mk.injEq] at h
      obtain ⟨rfl, rfl⟩ := h
      simp

/-- an instruction is cut short -/
def truncated (op : UInt8) (rest : Bytes) : Prop :=
  (isDirect op = true ∧ rest.length < op.toNat) ∨
  (isPushData op = true ∧ (rest.length < lenWidth op ∨
      (rest.drop (lenWidth op)).length < Bytes.toNatLE (rest.take (lenWidth op))))

theorem next_none_iff (op : UInt8) (rest : Bytes) : next op rest = none ↔ truncated op rest := by
  unfold next truncated
  by_cases h1 : isDirect op = true
  · have h2 : isPushData op = false := by
      unfold isDirect at h1; unfold isPushData
      simp only [Bool.and_eq_true, decide_eq_true_eq] at h1
      simp only [Bool.and_eq_false_iff, decide_eq_false_iff_not]; omega
    simp [h1, h2, split_none]
  · simp only [h1, Bool.false_eq_true, if_false, false_and, false_or]
    by_cases h2 : isPushData op = true
    · simp only [h2, if_true, true_and]
      rw [split_eq]
      by_cases h3 : rest.length < lenWidth op
      · simp [h3]
      · simp [h3, split_none]
    · simp [h2]

/-! ### the tokenizer -/

theorem tokFuel_nil (f : Nat) : tokFuel f [] = some [] := by
  cases f <;> rfl

theorem tokFuel_indep : ∀ (f g : Nat) (s : Bytes), s.length ≤ f → s.length ≤ g → tokFuel f s = tokFuel g s := by
  intro f
  induction f with
  | zero =>
    intro g s hf hg
    have : s = [] := List.eq_nil_of_length_eq_zero (by omega)
    subst this
    rw [tokFuel_nil, tokFuel_nil]
  | succ f ih =>
    intro g s hf hg
    cases s with
    | nil => rw [tokFuel_nil, tokFuel_nil]
    | cons op rest =>
      cases g with
      | zero => simp at hg
      | succ g =>
        simp only [tokFuel]
        cases hn : next op rest with
        | none => rfl
        | some p =>
          obtain ⟨d, r⟩ := p
          obtain ⟨_, e⟩ := next_some hn
          have hl : r.length ≤ rest.length := by rw [e]; simp
          simp only [List.length_cons] at hf hg
          dsimp only
          rw [ih g r (by omega) (by omega)]

theorem tokenize_nil : tokenize [] = some [] := rfl

/-- the defining equation, free of fuel -/
theorem tokenize_cons (op : UInt8) (rest : Bytes) :
    tokenize (op :: rest) =
      match next op rest with
      | none => none
      | some (d, r) => (tokenize r).map (⟨op, d⟩ :: ·) := by
  unfold tokenize
  simp only [List.length_cons, tokFuel]
  cases hn : next op rest with
  | none => rfl
  | some p =>
    obtain ⟨d, r⟩ := p
    obtain ⟨_, e⟩ := next_some hn
    have hl : r.length ≤ rest.length := by rw [e]; simp
    simp only
    rw [tokFuel_indep rest.length r.length r hl (Nat.le_refl _)]
    cases tokFuel r.length r <;> rfl

theorem tokenize_encodeTok_append (t : Token) (h : t.wf = true) (r : Bytes) :
    tokenize (encodeTok t ++ r) = (tokenize r).map (t :: ·) := by
  rw [encodeTok_eq, List.cons_append, tokenize_cons, next_encTail t h]

theorem encode_nil : encode [] = [] := rfl
theorem encode_cons (t : Token) (ts : List Token) : encode (t :: ts) = encodeTok t ++ encode ts := by
  simp [encode]
theorem encode_append (a b : List Token) : encode (a ++ b) = encode a ++ encode b := by
  simp [encode]

theorem tokenize_encode_append (ts : List Token) (h : ∀ t ∈ ts, t.wf = true) (r : Bytes) :
    tokenize (encode ts ++ r) = (tokenize r).map (ts ++ ·) := by
  induction ts with
  | nil => simp [encode_nil]
  | cons t ts ih =>
    rw [encode_cons, List.append_assoc, tokenize_encodeTok_append t (h t (by simp)),
      ih (fun t ht => h t (by simp [ht]))]
    cases tokenize r <;> simp

theorem tokenize_encode (ts : List Token) (h : ∀ t ∈ ts, t.wf = true) : tokenize (encode ts) = some ts := by
  have := tokenize_encode_append ts h []
  simpa [tokenize_nil] using this

theorem tokFuel_sound : ∀ (f : Nat) (s : Bytes) (ts : List Token), tokFuel f s = some ts →
    (∀ t ∈ ts, t.wf = true) ∧ encode ts = s := by
  intro f
  induction f with
  | zero =>
    intro s ts h
    cases s with
    | nil => simp [tokFuel] at h; subst h; simp [encode_nil]
    | cons b r => simp [tokFuel] at h
  | succ f ih =>
    intro s ts h
    cases s with
    | nil => simp [tokFuel] at h; subst h; simp [encode_nil]
    | cons op rest =>
      simp only [tokFuel] at h
      cases hn : next op rest with
      | none => simp [hn] at h
      | some p =>
        obtain ⟨d, r⟩ := p
        simp only [hn] at h
        cases ht : tokFuel f r with
        | none => simp [ht] at h
        | some ts' =>
          simp only [ht, Option.some.injEq] at h
          subst h
          obtain ⟨w, e⟩ := next_some hn
          obtain ⟨w', e'⟩ := ih r ts' ht
          refine ⟨?_, ?_⟩
          · intro t ht
            rcases List.mem_cons.mp ht with rfl | ht
            · exact w
            · exact w' t ht
          · rw [encode_cons, encodeTok_eq, e', e]; rfl

theorem tokenize_sound {s : Bytes} {ts : List Token} (h : tokenize s = some ts) :
    (∀ t ∈ ts, t.wf = true) ∧ encode ts = s := tokFuel_sound _ s ts h

theorem tokenize_iff (s : Bytes) (ts : List Token) :
    tokenize s = some ts ↔ (∀ t ∈ ts, t.wf = true) ∧ encode ts = s := by
  constructor
  · exact tokenize_sound
  · rintro ⟨w, rfl⟩; exact tokenize_encode ts w

theorem tokenize_append {a : Bytes} {ta : List Token} (h : tokenize a = some ta) (b : Bytes) :
    tokenize (a ++ b) = (tokenize b).map (ta ++ ·) := by
  obtain ⟨w, rfl⟩ := tokenize_sound h
  exact tokenize_encode_append ta w b

/-! ### structural facts -/

theorem wf_nondata {t : Token} (h : t.wf = true) (h1 : carriesData t.op = false) : t.data = [] := by
  unfold carriesData at h1
  simp only [Bool.or_eq_false_iff] at h1
  unfold Token.wf at h
  simpa [h1.1, h1.2] using h

theorem encodeTok_nondata (t : Token) (h1 : carriesData t.op = false) : encodeTok t = [t.op] := by
  unfold carriesData at h1
  simp only [Bool.or_eq_false_iff] at h1
  unfold encodeTok
  simp [h1.1, h1.2]

theorem data_suffix_encodeTok (t : Token) (h : t.wf = true) : t.data <:+ encodeTok t := by
  by_cases hc : carriesData t.op = true
  · rw [encodeTok_eq]; unfold encTail
    split
    · exact List.suffix_cons _ _
    · split
      · exact ⟨t.op :: Bytes.ofNatLE (lenWidth t.op) t.data.length, by simp⟩
      · unfold carriesData at hc; simp_all
  · rw [wf_nondata h (by simpa using hc)]; exact List.nil_suffix

theorem encodeTok_length_ge (t : Token) (h : t.wf = true) : 1 + t.data.length ≤ (encodeTok t).length := by
  obtain ⟨x, hx⟩ := data_suffix_encodeTok t h
  have h0 : x ≠ [] := by
    intro e
    rw [e, List.nil_append, encodeTok_eq] at hx
    have hl := congrArg List.length hx
    by_cases hc : carriesData t.op = true
    · unfold encTail at hl
      unfold carriesData at hc
      split at hl
      · simp at hl
      · split at hl
        · simp at hl; omega
        · simp_all
    · rw [wf_nondata h (by simpa using hc)] at hl; simp at hl
  have : 0 < x.length := List.length_pos_iff.mpr h0
  rw [← hx]; simp; omega

theorem data_infix_encode {ts : List Token} (h : ∀ t ∈ ts, t.wf = true) {t : Token} (ht : t ∈ ts) :
    t.data <:+: encode ts := by
  obtain ⟨l1, l2, rfl⟩ := List.append_of_mem ht
  obtain ⟨x, hx⟩ := data_suffix_encodeTok t (h t ht)
  refine ⟨encode l1 ++ x, encode l2, ?_⟩
  rw [encode_append, encode_cons, ← hx]; simp

theorem encode_length_ge (ts : List Token) (h : ∀ t ∈ ts, t.wf = true) :
    ts.length + (ts.map fun t => t.data.length).sum ≤ (encode ts).length := by
  induction ts with
  | nil => simp [encode_nil]
  | cons t ts ih =>
    have := encodeTok_length_ge t (h t (by simp))
    have := ih (fun t ht => h t (by simp [ht]))
    rw [encode_cons]; simp; omega

theorem pushOf_data {t : Token} (h : t.wf = true) {d : Bytes} (hd : pushOf t = some d) : d = t.data := by
  unfold pushOf at hd
  by_cases hc : carriesData t.op = true
  · simp [hc] at hd; exact hd.symm
  · simp only [hc, Bool.false_eq_true, if_false] at hd
    split at hd
    · rw [wf_nondata h (by simpa using hc)]; simpa using hd.symm
    · cases hd

theorem mem_pushesOf {ts : List Token} (h : ∀ t ∈ ts, t.wf = true) {d : Bytes} (hd : d ∈ pushesOf ts) :
    ∃ t ∈ ts, d = t.data := by
  unfold pushesOf at hd
  obtain ⟨t, ht, e⟩ := List.mem_filterMap.mp hd
  exact ⟨t, ht, pushOf_data (h t ht) e⟩

theorem pushesOf_size (ts : List Token) (h : ∀ t ∈ ts, t.wf = true) :
    (pushesOf ts).length + ((pushesOf ts).map List.length).sum ≤ ts.length + (ts.map fun t => t.data.length).sum := by
  induction ts with
  | nil => simp [pushesOf]
  | cons t ts ih =>
    have ih := ih (fun t ht => h t (by simp [ht]))
    unfold pushesOf at ih ⊢
    rw [List.filterMap_cons]
    cases hp : pushOf t with
    | none => simp only [List.length_cons, List.map_cons, List.sum_cons]; omega
    | some d =>
      have := pushOf_data (h t (by simp)) hp
      subst this
      simp only [List.length_cons, List.map_cons, List.sum_cons]; omega

theorem pushesOf_append (a b : List Token) : pushesOf (a ++ b) = pushesOf a ++ pushesOf b := by
  simp [pushesOf]

/-! ### failure -/

theorem tokenize_truncated {a : Bytes} {ta : List Token} (h : tokenize a = some ta) {op : UInt8} {rest : Bytes}
    (ht : truncated op rest) : tokenize (a ++ op :: rest) = none := by
  rw [tokenize_append h, tokenize_cons, (next_none_iff op rest).mpr ht]; rfl

theorem tokenize_none_aux : ∀ (n : Nat) (s : Bytes), s.length ≤ n → tokenize s = none →
    ∃ a ta op rest, s = a ++ op :: rest ∧ tokenize a = some ta ∧ truncated op rest := by
  intro n
  induction n with
  | zero =>
    intro s hl h
    have : s = [] := List.eq_nil_of_length_eq_zero (by omega)
    subst this; simp [tokenize_nil] at h
  | succ n ih =>
    intro s hl h
    cases s with
    | nil => simp [tokenize_nil] at h
    | cons op rest =>
      rw [tokenize_cons] at h
      cases hn : next op rest with
      | none => exact ⟨[], [], op, rest, rfl, tokenize_nil, (next_none_iff op rest).mp hn⟩
      | some p =>
        obtain ⟨d, r⟩ := p
        simp only [hn, Option.map_eq_none_iff] at h
        obtain ⟨w, e⟩ := next_some hn
        have hl' : r.length ≤ n := by
          have := congrArg List.length e
          simp at this hl; omega
        obtain ⟨a, ta, op', rest', e', ha, htr⟩ := ih r hl' h
        refine ⟨encodeTok ⟨op, d⟩ ++ a, ⟨op, d⟩ :: ta, op', rest', ?_, ?_, htr⟩
        · rw [encodeTok_eq, e, e']; simp
        · rw [tokenize_encodeTok_append _ w, ha]; rfl

theorem tokenize_none_iff (s : Bytes) : tokenize s = none ↔
    ∃ a ta op rest, s = a ++ op :: rest ∧ tokenize a = some ta ∧ truncated op rest := by
  constructor
  · exact tokenize_none_aux s.length s (Nat.le_refl _)
  · rintro ⟨a, ta, op, rest, rfl, ha, ht⟩; exact tokenize_truncated ha ht

theorem tokenize_nodata (s : Bytes) (h : ∀ b ∈ s, carriesData b = false) :
    tokenize s = some (s.map fun b => ⟨b, []⟩) := by
  have e : s = encode (s.map fun b => ⟨b, []⟩) := by
    induction s with
    | nil => rfl
    | cons b s ih =>
      rw [List.map_cons, encode_cons, encodeTok_nondata _ (h b (by simp)), ← ih (fun b hb => h b (by simp [hb]))]
      rfl
  conv => lhs; rw [e]
  apply tokenize_encode
  intro t ht
  obtain ⟨b, hb, rfl⟩ := List.mem_map.mp ht
  have := h b hb
  unfold carriesData at this
  simp only [Bool.or_eq_false_iff] at this
  unfold Token.wf; simp [this.1, this.2]

/-! ### pushedData, scriptClass on encoded token lists -/

theorem pushedData_encode (ts : List Token) (h : ∀ t ∈ ts, t.wf = true) :
    pushedData (encode ts) = some (pushesOf ts) := by
  unfold pushedData; rw [tokenize_encode ts h]; rfl

theorem scriptClass_encode (ts : List Token) (h : ∀ t ∈ ts, t.wf = true) :
    scriptClass (encode ts) = typeOfTokens ts := by
  unfold scriptClass; rw [tokenize_encode ts h]

theorem pushedData_append {a : Bytes} {pa : List Bytes} (h : pushedData a = some pa) (b : Bytes) :
    pushedData (a ++ b) = (pushedData b).map (pa ++ ·) := by
  unfold pushedData at h ⊢
  cases ha : tokenize a with
  | none => simp [ha] at h
  | some ta =>
    simp only [ha, Option.map_some, Option.some.injEq] at h
    subst h
    rw [tokenize_append ha]
    cases tokenize b <;> simp [pushesOf_append]

/-! ### classes -/

theorem isMultiSig_struct (mt nt ct : Token) (keys : List Token) :
    isMultiSig (mt :: (keys ++ [nt, ct])) =
      (decide (1 ≤ keys.length) && isSmallInt mt.op && isSmallInt nt.op && decide (ct.op.toNat = 0xae) &&
        decide (keys.length = asSmallInt nt.op) && keys.all keyLen) := by
  unfold isMultiSig
  have h1 : (mt :: (keys ++ [nt, ct])).length = keys.length + 3 := by simp
  have e0 : (mt :: (keys ++ [nt, ct]))[0]? = some mt := rfl
  have e1 : (mt :: (keys ++ [nt, ct]))[keys.length + 3 - 2]? = some nt := by
    have : keys.length + 3 - 2 = keys.length + 1 := by omega
    rw [this, List.getElem?_cons_succ, List.getElem?_append_right (Nat.le_refl _)]; simp
  have e2 : (mt :: (keys ++ [nt, ct]))[keys.length + 3 - 1]? = some ct := by
    have : keys.length + 3 - 1 = keys.length + 2 := by omega
    rw [this, List.getElem?_cons_succ, List.getElem?_append_right (by omega)]; simp
  have e3 : ((mt :: (keys ++ [nt, ct])).drop 1).take (keys.length + 3 - 3) = keys := by
    simp
  simp only [h1, e0, e1, e2, e3]
  have : (4 ≤ keys.length + 3) = (1 ≤ keys.length) := by simp
  simp only [this, Nat.add_sub_cancel]

theorem list_decomp (ts : List Token) (h : 4 ≤ ts.length) :
    ∃ mt keys nt ct, ts = mt :: (keys ++ [nt, ct]) := by
  cases ts with
  | nil => simp at h
  | cons mt tl =>
    simp only [List.length_cons] at h
    have h2 : (tl.drop (tl.length - 2)).length = 2 := by simp; omega
    match h3 : tl.drop (tl.length - 2), h2 with
    | [nt, ct], _ =>
      exact ⟨mt, tl.take (tl.length - 2), nt, ct, by rw [← h3, List.take_append_drop]⟩

theorem isMultiSig_iff (ts : List Token) : isMultiSig ts = true ↔
    ∃ mt keys nt ct, ts = mt :: (keys ++ [nt, ct]) ∧ 1 ≤ keys.length ∧ isSmallInt mt.op = true ∧
      isSmallInt nt.op = true ∧ ct.op.toNat = 0xae ∧ keys.length = asSmallInt nt.op ∧ ∀ k ∈ keys, keyLen k = true := by
  constructor
  · intro h
    have h4 : 4 ≤ ts.length := by
      unfold isMultiSig at h
      simp only [Bool.and_eq_true, decide_eq_true_eq] at h
      exact h.1.1.1.1.1
    obtain ⟨mt, keys, nt, ct, rfl⟩ := list_decomp ts h4
    rw [isMultiSig_struct] at h
    simp only [Bool.and_eq_true, decide_eq_true_eq, List.all_eq_true] at h
    exact ⟨mt, keys, nt, ct, rfl, h.1.1.1.1.1, h.1.1.1.1.2, h.1.1.1.2, h.1.1.2, h.1.2, h.2⟩
  · rintro ⟨mt, keys, nt, ct, rfl, h1, h2, h3, h4, h5, h6⟩
    rw [isMultiSig_struct]
    simp only [Bool.and_eq_true, decide_eq_true_eq, List.all_eq_true]
    exact ⟨⟨⟨⟨⟨h1, h2⟩, h3⟩, h4⟩, h5⟩, h6⟩

theorem smallInt_not_carries {op : UInt8} (h : isSmallInt op = true) : carriesData op = false := by
  unfold isSmallInt at h; unfold carriesData isDirect isPushData
  simp only [Bool.or_eq_true, Bool.and_eq_true, decide_eq_true_eq] at h
  simp only [Bool.or_eq_false_iff, Bool.and_eq_false_iff, decide_eq_false_iff_not]
  omega

theorem isPubKeyHash_shape {ts : List Token} (h : isPubKeyHash ts = true) :
    ∃ a rest, ts = a :: rest ∧ a.op.toNat = 0x76 := by
  match ts, h with
  | [a, b, c, d, e], h =>
    simp only [isPubKeyHash, Bool.and_eq_true, decide_eq_true_eq] at h
    exact ⟨a, _, rfl, h.1.1.1.1⟩

theorem isScriptHash_length {ts : List Token} (h : isScriptHash ts = true) : ts.length = 3 := by
  match ts, h with
  | [a, b, c], _ => rfl

theorem isScriptHash32_length {ts : List Token} (h : isScriptHash32 ts = true) : ts.length = 3 := by
  match ts, h with
  | [a, b, c], _ => rfl

theorem isPubKey_length {ts : List Token} (h : isPubKey ts = true) : ts.length = 2 := by
  match ts, h with
  | [a, b], _ => rfl

/-- a multisig token list is none of the classes tested before it -/
theorem isMultiSig_excl {ts : List Token} (h : isMultiSig ts = true) :
    isPubKey ts = false ∧ isPubKeyHash ts = false ∧ isScriptHash ts = false ∧ isScriptHash32 ts = false := by
  obtain ⟨mt, keys, nt, ct, rfl, h1, h2, -⟩ := (isMultiSig_iff ts).mp h
  have hs : isSmallInt mt.op = true := h2
  unfold isSmallInt at hs
  simp only [Bool.or_eq_true, Bool.and_eq_true, decide_eq_true_eq] at hs
  have hlen : (mt :: (keys ++ [nt, ct])).length = keys.length + 3 := by simp
  refine ⟨?_, ?_, ?_, ?_⟩
  · cases hh : isPubKey (mt :: (keys ++ [nt, ct])) with
    | false => rfl
    | true => have := isPubKey_length hh; omega
  · cases hh : isPubKeyHash (mt :: (keys ++ [nt, ct])) with
    | false => rfl
    | true =>
      obtain ⟨a, rest, e, ha⟩ := isPubKeyHash_shape hh
      have : mt = a := by simpa using congrArg List.head? e
      subst this; omega
  · cases hh : isScriptHash (mt :: (keys ++ [nt, ct])) with
    | false => rfl
    | true => have := isScriptHash_length hh; omega
  · cases hh : isScriptHash32 (mt :: (keys ++ [nt, ct])) with
    | false => rfl
    | true => have := isScriptHash32_length hh; omega

theorem isPubKey_iff (ts : List Token) : isPubKey ts = true ↔
    ∃ k c, ts = [k, c] ∧ keyLen k = true ∧ c.op.toNat = 0xac := by
  constructor
  · intro h
    match ts, h with
    | [k, c], h =>
      simp only [isPubKey, Bool.and_eq_true, decide_eq_true_eq] at h
      exact ⟨k, c, rfl, h.1, h.2⟩
  · rintro ⟨k, c, rfl, h1, h2⟩
    simp [isPubKey, h1, h2]

theorem updatable_eq (s : Bytes) :
    updatable s = match tokenize s with
      | none => false
      | some ts => isPubKey ts || isMultiSig ts := by
  unfold updatable scriptClass
  cases tokenize s with
  | none => rfl
  | some ts =>
    simp only
    unfold typeOfTokens
    by_cases hp : isPubKey ts = true
    · simp [hp]
    · by_cases hm : isMultiSig ts = true
      · obtain ⟨_, h2, h3, h4⟩ := isMultiSig_excl hm
        simp [hp, hm, h2, h3, h4]
      · simp only [hp, hm, Bool.false_eq_true, if_false, Bool.or_false]
        by_cases h1 : isPubKeyHash ts = true <;> by_cases h2 : isScriptHash ts = true <;>
          by_cases h3 : isScriptHash32 ts = true <;> by_cases h4 : isNullData ts = true <;> simp [h1, h2, h3, h4]

theorem updatable_encode (ts : List Token) (h : ∀ t ∈ ts, t.wf = true) :
    updatable (encode ts) = (isPubKey ts || isMultiSig ts) := by
  rw [updatable_eq, tokenize_encode ts h]

/-- a pay-to-pubkey or multisig script begins with a data push or a small integer -/
theorem updatable_first {b : UInt8} {rest : Bytes} (h : updatable (b :: rest) = true) :
    carriesData b = true ∨ isSmallInt b = true := by
  rw [updatable_eq] at h
  cases ht : tokenize (b :: rest) with
  | none => simp [ht] at h
  | some ts =>
    simp only [ht, Bool.or_eq_true] at h
    obtain ⟨w, e⟩ := tokenize_sound ht
    rcases h with h | h
    · obtain ⟨k, c, rfl, h1, -⟩ := (isPubKey_iff ts).mp h
      rw [encode_cons, encodeTok_eq] at e
      have hb : k.op = b := by simpa using congrArg List.head? e
      left
      rw [← hb]
      cases hc : carriesData k.op with
      | true => rfl
      | false =>
        have := wf_nondata (w k (by simp)) hc
        unfold keyLen at h1; simp [this] at h1
    · obtain ⟨mt, keys, nt, ct, rfl, -, h2, -⟩ := (isMultiSig_iff ts).mp h
      rw [encode_cons, encodeTok_eq] at e
      have hb : mt.op = b := by simpa using congrArg List.head? e
      right; rw [← hb]; exact h2

/-! ### the builders -/

/-- the instruction `OP_DATA_|d| d` -/
def directTok (d : Bytes) : Token := ⟨UInt8.ofNat d.length, d⟩

theorem directTok_op {d : Bytes} (h2 : d.length ≤ 75) : (directTok d).op.toNat = d.length := by
  simp only [directTok, UInt8.toNat_ofNat']; omega

theorem directTok_isDirect {d : Bytes} (h1 : 1 ≤ d.length) (h2 : d.length ≤ 75) : isDirect (directTok d).op = true := by
  unfold isDirect; rw [directTok_op h2]; simp; omega

theorem directTok_wf {d : Bytes} (h1 : 1 ≤ d.length) (h2 : d.length ≤ 75) : (directTok d).wf = true := by
  unfold Token.wf; rw [directTok_isDirect h1 h2, if_pos rfl, directTok_op h2]; simp [directTok]

theorem directTok_encode {d : Bytes} (h1 : 1 ≤ d.length) (h2 : d.length ≤ 75) :
    encodeTok (directTok d) = directPush d := by
  unfold encodeTok; rw [directTok_isDirect h1 h2, if_pos rfl]; rfl

theorem directTok_push {d : Bytes} (h1 : 1 ≤ d.length) (h2 : d.length ≤ 75) : pushOf (directTok d) = some d := by
  unfold pushOf carriesData; rw [directTok_isDirect h1 h2]; rfl

theorem pd1_wf {d : Bytes} (h : d.length < 256) : (Token.mk 0x4c d).wf = true := by
  simp [Token.wf, isDirect, isPushData, lenWidth]; exact h
theorem pd2_wf {d : Bytes} (h : d.length < 65536) : (Token.mk 0x4d d).wf = true := by
  simp [Token.wf, isDirect, isPushData, lenWidth]; exact h
theorem pd4_wf {d : Bytes} (h : d.length < 4294967296) : (Token.mk 0x4e d).wf = true := by
  simp [Token.wf, isDirect, isPushData, lenWidth]; exact h
theorem pd1_encode (d : Bytes) : encodeTok ⟨0x4c, d⟩ = pushData1 d := by
  simp [encodeTok, isDirect, isPushData, lenWidth, pushData1]
theorem pd2_encode (d : Bytes) : encodeTok ⟨0x4d, d⟩ = pushData2 d := by
  simp [encodeTok, isDirect, isPushData, lenWidth, pushData2]
theorem pd4_encode (d : Bytes) : encodeTok ⟨0x4e, d⟩ = pushData4 d := by
  simp [encodeTok, isDirect, isPushData, lenWidth, pushData4]

/-- an opcode without data, as a token -/
def opTok (op : UInt8) : Token := ⟨op, []⟩

theorem opTok_wf {op : UInt8} (h : carriesData op = false) : (opTok op).wf = true := by
  unfold carriesData at h; simp only [Bool.or_eq_false_iff] at h
  simp [Token.wf, opTok, h.1, h.2]

theorem opTok_encode {op : UInt8} (h : carriesData op = false) : encodeTok (opTok op) = [op] :=
  encodeTok_nondata _ h

theorem smallIntOp_toNat {n : Nat} (h : n ≤ 16) : (smallIntOp n).toNat = if n = 0 then 0 else 0x50 + n := by
  unfold smallIntOp; split
  · rfl
  · simp only [UInt8.toNat_ofNat']; omega

theorem smallIntOp_isSmallInt {n : Nat} (h : n ≤ 16) : isSmallInt (smallIntOp n) = true := by
  unfold isSmallInt; rw [smallIntOp_toNat h]; split <;> simp <;> omega

theorem smallIntOp_as {n : Nat} (h : n ≤ 16) : asSmallInt (smallIntOp n) = n := by
  unfold asSmallInt; rw [smallIntOp_toNat h]; split <;> simp_all

theorem smallIntOp_push {n : Nat} (h : n ≤ 16) : pushOf (opTok (smallIntOp n)) = if n = 0 then some [] else none := by
  unfold pushOf; rw [smallInt_not_carries (by exact smallIntOp_isSmallInt h)]
  simp only [opTok, Bool.false_eq_true, if_false, smallIntOp_toNat h]
  split <;> simp_all

theorem nodata_of_ge {op : UInt8} (h : 0x4f ≤ op.toNat) : carriesData op = false := by
  unfold carriesData isDirect isPushData
  simp only [Bool.or_eq_false_iff, Bool.and_eq_false_iff, decide_eq_false_iff_not]; omega

theorem p2pkh_tokens {h : Bytes} (hl : h.length = 20) :
    p2pkh h = encode [opTok 0x76, opTok 0xa9, directTok h, opTok 0x88, opTok 0xac] ∧
    ∀ t ∈ [opTok 0x76, opTok 0xa9, directTok h, opTok 0x88, opTok 0xac], t.wf = true := by
  have h1 : 1 ≤ h.length := by omega
  have h2 : h.length ≤ 75 := by omega
  constructor
  · simp only [encode_cons, encode_nil, directTok_encode h1 h2]
    rw [opTok_encode (nodata_of_ge (by decide)), opTok_encode (nodata_of_ge (by decide)),
      opTok_encode (nodata_of_ge (by decide)), opTok_encode (nodata_of_ge (by decide))]
    simp [p2pkh]
  · intro t ht
    simp only [List.mem_cons, List.not_mem_nil, or_false] at ht
    rcases ht with rfl | rfl | rfl | rfl | rfl
    · exact opTok_wf (nodata_of_ge (by decide))
    · exact opTok_wf (nodata_of_ge (by decide))
    · exact directTok_wf h1 h2
    · exact opTok_wf (nodata_of_ge (by decide))
    · exact opTok_wf (nodata_of_ge (by decide))

theorem pushOf_opTok_ge {op : UInt8} (h : 0x4f ≤ op.toNat) : pushOf (opTok op) = none := by
  unfold pushOf; rw [nodata_of_ge (by exact h)]
  have : ¬ (opTok op).op.toNat = 0 := by simp only [opTok]; omega
  simp [this]

theorem p2pkh_facts {h : Bytes} (hl : h.length = 20) :
    tokenize (p2pkh h) = some [opTok 0x76, opTok 0xa9, directTok h, opTok 0x88, opTok 0xac] ∧
    pushedData (p2pkh h) = some [h] ∧ scriptClass (p2pkh h) = .pubKeyHash := by
  obtain ⟨e, w⟩ := p2pkh_tokens hl
  have h1 : 1 ≤ h.length := by omega
  have h2 : h.length ≤ 75 := by omega
  rw [e, tokenize_encode _ w, pushedData_encode _ w, scriptClass_encode _ w]
  refine ⟨rfl, ?_, ?_⟩
  · simp only [pushesOf, List.filterMap_cons, List.filterMap_nil, directTok_push h1 h2]
    rw [pushOf_opTok_ge (by decide), pushOf_opTok_ge (by decide), pushOf_opTok_ge (by decide),
      pushOf_opTok_ge (by decide)]
  · have : (directTok h).op.toNat = 0x14 := by rw [directTok_op h2, hl]
    simp [typeOfTokens, isPubKey, isPubKeyHash, this, opTok]

theorem p2sh_tokens {h : Bytes} (h1 : 1 ≤ h.length) (h2 : h.length ≤ 75) (first : UInt8) (hf : 0x4f ≤ first.toNat) :
    first :: (directPush h ++ [0x87]) = encode [opTok first, directTok h, opTok 0x87] ∧
    ∀ t ∈ [opTok first, directTok h, opTok 0x87], t.wf = true := by
  constructor
  · simp only [encode_cons, encode_nil, directTok_encode h1 h2]
    rw [opTok_encode (nodata_of_ge hf), opTok_encode (nodata_of_ge (by decide))]
    simp
  · simp only [List.forall_mem_cons, List.not_mem_nil, false_imp_iff, implies_true, and_true]
    exact ⟨opTok_wf (nodata_of_ge hf), directTok_wf h1 h2, opTok_wf (nodata_of_ge (by decide))⟩

theorem p2sh_facts {h : Bytes} (hl : h.length = 20) :
    tokenize (p2sh h) = some [opTok 0xa9, directTok h, opTok 0x87] ∧
    pushedData (p2sh h) = some [h] ∧ scriptClass (p2sh h) = .scriptHash := by
  have h1 : 1 ≤ h.length := by omega
  have h2 : h.length ≤ 75 := by omega
  obtain ⟨e, w⟩ := p2sh_tokens h1 h2 0xa9 (by decide)
  have e' : p2sh h = encode [opTok 0xa9, directTok h, opTok 0x87] := by rw [← e]; simp [p2sh]
  rw [e', tokenize_encode _ w, pushedData_encode _ w, scriptClass_encode _ w]
  refine ⟨rfl, ?_, ?_⟩
  · simp only [pushesOf, List.filterMap_cons, List.filterMap_nil, directTok_push h1 h2]
    rw [pushOf_opTok_ge (by decide), pushOf_opTok_ge (by decide)]
  · have : (directTok h).op.toNat = 0x14 := by rw [directTok_op h2, hl]
    simp [typeOfTokens, isPubKey, isPubKeyHash, isScriptHash, this, opTok]

theorem p2sh32_facts {h : Bytes} (hl : h.length = 32) :
    tokenize (p2sh32 h) = some [opTok 0xaa, directTok h, opTok 0x87] ∧
    pushedData (p2sh32 h) = some [h] ∧ scriptClass (p2sh32 h) = .scriptHash32 := by
  have h1 : 1 ≤ h.length := by omega
  have h2 : h.length ≤ 75 := by omega
  obtain ⟨e, w⟩ := p2sh_tokens h1 h2 0xaa (by decide)
  have e' : p2sh32 h = encode [opTok 0xaa, directTok h, opTok 0x87] := by rw [← e]; simp [p2sh32]
  rw [e', tokenize_encode _ w, pushedData_encode _ w, scriptClass_encode _ w]
  refine ⟨rfl, ?_, ?_⟩
  · simp only [pushesOf, List.filterMap_cons, List.filterMap_nil, directTok_push h1 h2]
    rw [pushOf_opTok_ge (by decide), pushOf_opTok_ge (by decide)]
  · have : (directTok h).op.toNat = 0x20 := by rw [directTok_op h2, hl]
    simp [typeOfTokens, isPubKey, isPubKeyHash, isScriptHash, isScriptHash32, this, opTok]

/-- pay-to-pubkey with any push form of the key -/
theorem p2pk_general (k : Token) (hw : k.wf = true) (hk : keyLen k = true) :
    tokenize (encodeTok k ++ [0xac]) = some [k, opTok 0xac] ∧
    pushedData (encodeTok k ++ [0xac]) = some [k.data] ∧ scriptClass (encodeTok k ++ [0xac]) = .pubKey := by
  have w : ∀ t ∈ [k, opTok 0xac], t.wf = true := by
    simp only [List.forall_mem_cons, List.not_mem_nil, false_imp_iff, implies_true, and_true]
    exact ⟨hw, opTok_wf (nodata_of_ge (by decide))⟩
  have e : encodeTok k ++ [0xac] = encode [k, opTok 0xac] := by
    simp only [encode_cons, encode_nil]; rw [opTok_encode (nodata_of_ge (by decide))]; simp
  rw [e, tokenize_encode _ w, pushedData_encode _ w, scriptClass_encode _ w]
  refine ⟨rfl, ?_, ?_⟩
  · have hc : carriesData k.op = true := by
      cases hc : carriesData k.op with
      | true => rfl
      | false => have := wf_nondata hw hc; unfold keyLen at hk; simp [this] at hk
    simp only [pushesOf, List.filterMap_cons, List.filterMap_nil]
    rw [pushOf_opTok_ge (by decide)]
    simp [pushOf, hc]
  · simp [typeOfTokens, isPubKey, hk, opTok]

theorem p2pk_facts {key : Bytes} (hl : key.length = 33 ∨ key.length = 65) :
    tokenize (p2pk key) = some [directTok key, opTok 0xac] ∧
    pushedData (p2pk key) = some [key] ∧ scriptClass (p2pk key) = .pubKey := by
  have h1 : 1 ≤ key.length := by omega
  have h2 : key.length ≤ 75 := by omega
  have := p2pk_general (directTok key) (directTok_wf h1 h2) (by unfold keyLen directTok; simpa using hl)
  rw [directTok_encode h1 h2] at this
  exact this

theorem nullData_facts {d : Bytes} (h1 : 1 ≤ d.length) (h2 : d.length ≤ 75) :
    tokenize (nullData d) = some [opTok 0x6a, directTok d] ∧
    pushedData (nullData d) = some [d] ∧ scriptClass (nullData d) = .nullData := by
  have w : ∀ t ∈ [opTok 0x6a, directTok d], t.wf = true := by
    simp only [List.forall_mem_cons, List.not_mem_nil, false_imp_iff, implies_true, and_true]
    exact ⟨opTok_wf (nodata_of_ge (by decide)), directTok_wf h1 h2⟩
  have e : nullData d = encode [opTok 0x6a, directTok d] := by
    simp only [encode_cons, encode_nil, directTok_encode h1 h2]
    rw [opTok_encode (nodata_of_ge (by decide))]; simp [nullData]
  rw [e, tokenize_encode _ w, pushedData_encode _ w, scriptClass_encode _ w]
  refine ⟨rfl, ?_, ?_⟩
  · simp only [pushesOf, List.filterMap_cons, List.filterMap_nil, directTok_push h1 h2]
    rw [pushOf_opTok_ge (by decide)]
  · have ho := directTok_op h2
    have hk : keyLen (opTok 0x6a) = false := by simp [keyLen, opTok]
    have hm : isMultiSig [opTok 0x6a, directTok d] = false := by
      simp [isMultiSig]
    have hn : isNullData [opTok 0x6a, directTok d] = true := by
      simp only [isNullData, List.all_cons, List.all_nil, List.map_cons, List.map_nil, List.sum_cons, List.sum_nil,
        directTok_encode h1 h2, ho, Bool.and_true, Bool.and_eq_true, decide_eq_true_eq]
      refine ⟨⟨by decide, by omega⟩, ?_⟩
      simp [directPush]; omega
    simp [typeOfTokens, isPubKey, hk, isPubKeyHash, isScriptHash, isScriptHash32, hm, hn]

/-! ### bare multisig -/

def multisigTokens (m : Nat) (keys : List Bytes) : List Token :=
  opTok (smallIntOp m) :: (keys.map directTok ++ [opTok (smallIntOp keys.length), opTok 0xae])

theorem encode_keys (keys : List Bytes) (hk : ∀ k ∈ keys, k.length = 33 ∨ k.length = 65) :
    encode (keys.map directTok) = keys.flatMap directPush := by
  induction keys with
  | nil => rfl
  | cons k ks ih =>
    have := hk k (by simp)
    rw [List.map_cons, encode_cons, directTok_encode (by omega) (by omega), ih (fun k h => hk k (by simp [h]))]
    simp

theorem pushesOf_keys (keys : List Bytes) (hk : ∀ k ∈ keys, k.length = 33 ∨ k.length = 65) :
    pushesOf (keys.map directTok) = keys := by
  induction keys with
  | nil => rfl
  | cons k ks ih =>
    have := hk k (by simp)
    have ih := ih (fun k h => hk k (by simp [h]))
    unfold pushesOf at ih ⊢
    rw [List.map_cons, List.filterMap_cons, directTok_push (by omega) (by omega), ih]

theorem multisig_facts {m : Nat} {keys : List Bytes} (hm : m ≤ 16) (hn1 : 1 ≤ keys.length) (hn2 : keys.length ≤ 16)
    (hk : ∀ k ∈ keys, k.length = 33 ∨ k.length = 65) :
    tokenize (multisig m keys) = some (multisigTokens m keys) ∧
    pushedData (multisig m keys) = some ((if m = 0 then [[]] else []) ++ keys) ∧
    scriptClass (multisig m keys) = .multiSig := by
  have cm := smallInt_not_carries (smallIntOp_isSmallInt hm)
  have cn := smallInt_not_carries (smallIntOp_isSmallInt hn2)
  have w : ∀ t ∈ multisigTokens m keys, t.wf = true := by
    intro t ht
    simp only [multisigTokens, List.mem_cons, List.mem_append, List.mem_map, List.not_mem_nil, or_false] at ht
    rcases ht with rfl | ⟨k, hkm, rfl⟩ | rfl | rfl
    · exact opTok_wf cm
    · have := hk k hkm; exact directTok_wf (by omega) (by omega)
    · exact opTok_wf cn
    · exact opTok_wf (nodata_of_ge (by decide))
  have e : multisig m keys = encode (multisigTokens m keys) := by
    unfold multisigTokens
    rw [encode_cons, encode_append, encode_keys keys hk, encode_cons, encode_cons, encode_nil,
      opTok_encode cm, opTok_encode cn, opTok_encode (nodata_of_ge (by decide))]
    simp [multisig]
  rw [e, tokenize_encode _ w, pushedData_encode _ w, scriptClass_encode _ w]
  refine ⟨rfl, ?_, ?_⟩
  · unfold multisigTokens
    have : pushesOf [opTok (smallIntOp keys.length), opTok 0xae] = [] := by
      simp only [pushesOf, List.filterMap_cons, List.filterMap_nil, smallIntOp_push hn2]
      rw [pushOf_opTok_ge (by decide), if_neg (by omega)]
    rw [show opTok (smallIntOp m) :: (keys.map directTok ++ [opTok (smallIntOp keys.length), opTok 0xae])
        = [opTok (smallIntOp m)] ++ (keys.map directTok ++ [opTok (smallIntOp keys.length), opTok 0xae]) from rfl,
      pushesOf_append, pushesOf_append, pushesOf_keys keys hk, this]
    simp only [pushesOf, List.filterMap_cons, List.filterMap_nil, smallIntOp_push hm, List.append_nil]
    by_cases h0 : m = 0 <;> simp [h0]
  · have hms : isMultiSig (multisigTokens m keys) = true := by
      rw [isMultiSig_iff]
      refine ⟨opTok (smallIntOp m), keys.map directTok, opTok (smallIntOp keys.length), opTok 0xae, rfl,
        by simpa using hn1, smallIntOp_isSmallInt hm, smallIntOp_isSmallInt hn2, by decide, ?_, ?_⟩
      · simp [opTok, smallIntOp_as hn2]
      · intro t ht
        obtain ⟨k, hkm, rfl⟩ := List.mem_map.mp ht
        have := hk k hkm
        unfold keyLen directTok; simpa using this
    obtain ⟨x1, x2, x3, x4⟩ := isMultiSig_excl hms
    simp [typeOfTokens, x1, x2, x3, x4, hms]


theorem tok_of_nodata {t : Token} (hw : t.wf = true) (hc : carriesData t.op = false) : t = opTok t.op := by
  have := wf_nondata hw hc
  cases t; simp_all [opTok]

theorem multisig_general {mop nop : UInt8} {keys : List Token} (hm : isSmallInt mop = true) (hn : isSmallInt nop = true)
    (h1 : 1 ≤ keys.length) (h2 : keys.length = asSmallInt nop) (hk : ∀ k ∈ keys, k.wf = true ∧ keyLen k = true) :
    tokenize (mop :: (encode keys ++ [nop, 0xae])) = some (opTok mop :: (keys ++ [opTok nop, opTok 0xae])) ∧
    scriptClass (mop :: (encode keys ++ [nop, 0xae])) = .multiSig := by
  have cm := smallInt_not_carries hm
  have cn := smallInt_not_carries hn
  have w : ∀ t ∈ opTok mop :: (keys ++ [opTok nop, opTok 0xae]), t.wf = true := by
    intro t ht
    simp only [List.mem_cons, List.mem_append, List.not_mem_nil, or_false] at ht
    rcases ht with rfl | hkm | rfl | rfl
    · exact opTok_wf cm
    · exact (hk t hkm).1
    · exact opTok_wf cn
    · exact opTok_wf (nodata_of_ge (by decide))
  have e : mop :: (encode keys ++ [nop, 0xae]) = encode (opTok mop :: (keys ++ [opTok nop, opTok 0xae])) := by
    rw [encode_cons, encode_append, encode_cons, encode_cons, encode_nil,
      opTok_encode cm, opTok_encode cn, opTok_encode (nodata_of_ge (by decide))]
    simp
  rw [e, tokenize_encode _ w, scriptClass_encode _ w]
  refine ⟨rfl, ?_⟩
  have hms : isMultiSig (opTok mop :: (keys ++ [opTok nop, opTok 0xae])) = true := by
    rw [isMultiSig_iff]
    exact ⟨opTok mop, keys, opTok nop, opTok 0xae, rfl, h1, hm, hn, by decide, h2, fun k hkm => (hk k hkm).2⟩
  obtain ⟨x1, x2, x3, x4⟩ := isMultiSig_excl hms
  simp [typeOfTokens, x1, x2, x3, x4, hms]

theorem updatable_of_class {s : Bytes} (h : scriptClass s = .pubKey ∨ scriptClass s = .multiSig) : updatable s = true := by
  unfold updatable; rcases h with h | h <;> rw [h]

/-- what `updatable` requires of the raw bytes -/
theorem updatable_raw_iff (s : Bytes) : updatable s = true ↔
    (∃ k : Token, k.wf = true ∧ keyLen k = true ∧ s = encodeTok k ++ [0xac]) ∨
    (∃ (mop nop : UInt8) (keys : List Token), isSmallInt mop = true ∧ isSmallInt nop = true ∧ 1 ≤ keys.length ∧
      keys.length = asSmallInt nop ∧ (∀ k ∈ keys, k.wf = true ∧ keyLen k = true) ∧
      s = mop :: (encode keys ++ [nop, 0xae])) := by
  constructor
  · intro h
    rw [updatable_eq] at h
    cases ht : tokenize s with
    | none => simp [ht] at h
    | some ts =>
      simp only [ht, Bool.or_eq_true] at h
      obtain ⟨w, e⟩ := tokenize_sound ht
      rcases h with h | h
      · left
        obtain ⟨k, c, rfl, h1, h2⟩ := (isPubKey_iff ts).mp h
        refine ⟨k, w k (by simp), h1, ?_⟩
        have hc : carriesData c.op = false := nodata_of_ge (by omega)
        have : c.op = 0xac := UInt8.toNat_inj.mp h2
        rw [← e, encode_cons, encode_cons, encode_nil, encodeTok_nondata c hc, this]; simp
      · right
        obtain ⟨mt, keys, nt, ct, rfl, h1, h2, h3, h4, h5, h6⟩ := (isMultiSig_iff ts).mp h
        refine ⟨mt.op, nt.op, keys, h2, h3, h1, h5, fun k hk => ⟨w k (by simp [hk]), h6 k hk⟩, ?_⟩
        have hc : carriesData ct.op = false := nodata_of_ge (by omega)
        have : ct.op = 0xae := UInt8.toNat_inj.mp h4
        rw [← e, encode_cons, encode_append, encode_cons, encode_cons, encode_nil,
          encodeTok_nondata mt (smallInt_not_carries h2), encodeTok_nondata nt (smallInt_not_carries h3),
          encodeTok_nondata ct hc, this]
        simp
  · rintro (⟨k, hw, hk, rfl⟩ | ⟨mop, nop, keys, hm, hn, h1, h2, hk, rfl⟩)
    · exact updatable_of_class (Or.inl (p2pk_general k hw hk).2.2)
    · exact updatable_of_class (Or.inr (multisig_general hm hn h1 h2 hk).2)

/-- `agrees` holds exactly of the spec's own answers -/
theorem agrees_iff (s : Bytes) (p : Option (List Bytes)) (u : Bool) :
    agrees s p u = true ↔ p = pushedData s ∧ u = updatable s := by
  unfold agrees
  simp only [Bool.and_eq_true, beq_iff_eq]
  constructor
  · rintro ⟨a, b⟩; exact ⟨a.symm, b.symm⟩
  · rintro ⟨a, b⟩; exact ⟨a.symm, b.symm⟩

/-! ### raw transactions for the model of C10 -/
section
open Bch.Model.BloomTx

/-- a transaction with raw scripts -/
structure RawIn where
  prevHash : Bytes
  prevIdx : Nat
  script : Bytes

structure RawTx where
  id : Bytes
  outs : List Bytes
  ins : List RawIn

/-- the model's record of an output script -/
def outOf (script : Bytes) : TxOut := { pushes := pushedData script, isPubKeyOrMultisig := updatable script }
def inOf (i : RawIn) : TxIn := { prevHash := i.prevHash, prevIdx := i.prevIdx, pushes := pushedData i.script }
def txOf (r : RawTx) : Tx := { id := r.id, outs := r.outs.map outOf, ins := r.ins.map inOf }

end

end Bch.Proofs.Script
