import Bch.Model.CashAddr
/-!
GF(2)-linearity of the CashAddr checksum (`polyModStep`, `polyMod`) and the facts
`verify_create`, `checksum_unique` derived from it.
-/
namespace Bch.Proofs.CashAddr
open Bch Bch.Model.CashAddr

/-- the XOR of the generator constants selected by the low five bits of `c0` -/
def gen (c0 : Nat) : Nat :=
  (if c0.testBit 0 then 0x98f2bc8e61 else 0) ^^^ (if c0.testBit 1 then 0x79b76d99e2 else 0) ^^^
  (if c0.testBit 2 then 0xf33e5fb3c4 else 0) ^^^ (if c0.testBit 3 then 0xae2eabe2a8 else 0) ^^^
  (if c0.testBit 4 then 0x1e4f43e470 else 0)

theorem and_two_pow_pos (n i : Nat) : (n &&& 2^i > 0) ↔ n.testBit i = true := by
  constructor
  · intro h
    cases hb : n.testBit i with
    | true => rfl
    | false =>
      have : n &&& 2^i = 0 := by
        apply Nat.eq_of_testBit_eq
        intro j
        simp only [Nat.testBit_and, Nat.testBit_two_pow, Nat.zero_testBit]
        by_cases hij : i = j
        · subst hij; simp [hb]
        · simp [hij]
      omega
  · intro h
    have : (n &&& 2^i).testBit i = true := by simp [h, Nat.testBit_two_pow_self]
    apply Nat.pos_of_ne_zero
    intro h0
    simp [h0] at this

theorem polyModStep_eq (c : Nat) (d : UInt8) :
    polyModStep c d = ((c &&& 0x07ffffffff) <<< 5) ^^^ d.toNat ^^^ gen (c >>> 35) := by
  have h0 := and_two_pow_pos (c >>> 35) 0
  have h1 := and_two_pow_pos (c >>> 35) 1
  have h2 := and_two_pow_pos (c >>> 35) 2
  have h3 := and_two_pow_pos (c >>> 35) 3
  have h4 := and_two_pow_pos (c >>> 35) 4
  simp only [Nat.reducePow] at h0 h1 h2 h3 h4
  simp only [polyModStep, h0, h1, h2, h3, h4, gen]
  cases (c >>> 35).testBit 0 <;> cases (c >>> 35).testBit 1 <;> cases (c >>> 35).testBit 2 <;>
    cases (c >>> 35).testBit 3 <;> cases (c >>> 35).testBit 4 <;> simp [Nat.xor_assoc]

theorem ite_bne_xor (x y : Bool) (K : Nat) :
    (if (x ^^ y) = true then K else 0) = (if x = true then K else 0) ^^^ (if y = true then K else 0) := by
  cases x <;> cases y <;> simp

theorem gen_xor (a b : Nat) : gen (a ^^^ b) = gen a ^^^ gen b := by
  simp only [gen, Nat.testBit_xor, ite_bne_xor]
  ac_rfl

theorem gen_lt (a : Nat) : gen a < 2^40 := by
  simp only [gen]
  repeat' apply Nat.xor_lt_two_pow
  all_goals split <;> decide

theorem gen_of_lt {a : Nat} (h : a < 2^35) : gen (a >>> 35) = 0 := by
  have : a >>> 35 = 0 := by rw [Nat.shiftRight_eq_div_pow]; exact Nat.div_eq_of_lt h
  rw [this]; decide

/-- joint GF(2)-linearity of one checksum step in (state, symbol) -/
theorem polyModStep_xor (a b : Nat) (x y : UInt8) :
    polyModStep (a ^^^ b) (x ^^^ y) = polyModStep a x ^^^ polyModStep b y := by
  simp only [polyModStep_eq, Nat.and_xor_distrib_right, Nat.shiftLeft_xor_distrib,
    Nat.shiftRight_xor_distrib, gen_xor, UInt8.toNat_xor]
  ac_rfl

theorem polyModStep_lt (c : Nat) (d : UInt8) : polyModStep c d < 2^40 := by
  rw [polyModStep_eq]
  apply Nat.xor_lt_two_pow
  · apply Nat.xor_lt_two_pow
    · rw [Nat.shiftLeft_eq]
      have : c &&& 0x07ffffffff < 2^35 := by
        have := @Nat.and_two_pow_sub_one_eq_mod c 35
        simp only [Nat.reducePow, Nat.reduceSub] at this
        rw [this]; omega
      omega
    · have := d.toNat_lt; omega
  · exact gen_lt _

/-- the fold of `polyMod` from an arbitrary start state -/
def pm (s : Nat) (v : Bytes) : Nat := v.foldl polyModStep s

theorem polyMod_eq (v : Bytes) : polyMod v = pm 1 v ^^^ 1 := rfl

theorem pm_append (s : Nat) (v w : Bytes) : pm s (v ++ w) = pm (pm s v) w := by
  simp [pm, List.foldl_append]

theorem pm_cons (s : Nat) (x : UInt8) (v : Bytes) : pm s (x :: v) = pm (polyModStep s x) v := rfl

theorem pm_lt (s : Nat) (v : Bytes) (hs : s < 2^40) : pm s v < 2^40 := by
  induction v generalizing s with
  | nil => exact hs
  | cons x v ih => exact ih _ (polyModStep_lt s x)

/-- the state of `polyMod` stays below 2^40 -/
theorem polyMod_lt (v : Bytes) : polyMod v < 2^40 := by
  rw [polyMod_eq]
  exact Nat.xor_lt_two_pow (pm_lt 1 v (by decide)) (by decide)

/-- linearity of the whole fold: a difference in the start state propagates as if over zeros -/
theorem pm_xor_zeros (a b : Nat) (v : Bytes) :
    pm (a ^^^ b) v = pm a v ^^^ pm b (List.replicate v.length 0) := by
  induction v generalizing a b with
  | nil => rfl
  | cons x v ih =>
    have hx : x = x ^^^ 0 := by simp
    rw [List.length_cons, List.replicate_succ, pm_cons, pm_cons, pm_cons]
    conv => lhs; rw [hx]
    rw [polyModStep_xor, ih]

theorem polyModStep_small {c : Nat} {d : UInt8} (hc : c < 2^35) (hd : d.toNat < 32) :
    polyModStep c d = c * 32 + d.toNat := by
  rw [polyModStep_eq, gen_of_lt hc, Nat.xor_zero]
  have h1 : c &&& 0x07ffffffff = c := by
    have := @Nat.and_two_pow_sub_one_of_lt_two_pow 35 c hc
    simpa using this
  rw [h1]
  have h2 := Nat.shiftLeft_add_eq_or_of_lt (i := 5) (b := d.toNat) (by omega) c
  rw [Nat.shiftLeft_eq] at h2 ⊢
  simp only [Nat.reducePow] at h2 ⊢
  rw [h2]
  apply Nat.eq_of_testBit_eq
  intro j
  simp only [Nat.testBit_xor, Nat.testBit_or]
  by_cases hj : j < 5
  · have : (c * 32).testBit j = false := by
      have := Nat.testBit_two_pow_mul (i := 5) (a := c) (j := j)
      simp only [Nat.reducePow] at this
      rw [Nat.mul_comm, this]; simp; omega
    simp [this]
  · have : d.toNat.testBit j = false := by
      apply Nat.testBit_lt_two_pow
      calc d.toNat < 2^5 := by omega
        _ ≤ 2^j := Nat.pow_le_pow_right (by omega) (by omega)
    simp [this]

/-- the eight 5-bit digits of a 40-bit number, most significant first -/
def ckOf (m : Nat) : Bytes :=
  (List.range 8).map fun i => UInt8.ofNat ((m >>> (5 * (7 - i))) &&& 0x1f)

theorem createChecksum_eq (pre pl : Bytes) :
    createChecksum pre pl = ckOf (polyMod (expandPrefix pre ++ pl ++ [0,0,0,0,0,0,0,0])) := rfl

theorem ckOf_eq (m : Nat) : ckOf m =
    [UInt8.ofNat (m / 2^35 % 32), UInt8.ofNat (m / 2^30 % 32), UInt8.ofNat (m / 2^25 % 32),
     UInt8.ofNat (m / 2^20 % 32), UInt8.ofNat (m / 2^15 % 32), UInt8.ofNat (m / 2^10 % 32),
     UInt8.ofNat (m / 2^5 % 32), UInt8.ofNat (m % 32)] := by
  have h31 : ∀ x : Nat, x &&& 0x1f = x % 32 := fun x => by
    have := @Nat.and_two_pow_sub_one_eq_mod x 5
    simpa using this
  simp [ckOf, List.range, List.range.loop, h31, Nat.shiftRight_eq_div_pow]

theorem ckOf_length (m : Nat) : (ckOf m).length = 8 := by simp [ckOf]

theorem toNat_ofNat_mod32 (x : Nat) : (UInt8.ofNat (x % 32)).toNat = x % 32 := by
  rw [UInt8.toNat_ofNat']; omega

theorem ckOf_lt (m : Nat) : ∀ x ∈ ckOf m, x.toNat < 32 := by
  intro x hx
  rw [ckOf_eq] at hx
  simp only [List.mem_cons, List.not_mem_nil, or_false] at hx
  rcases hx with h | h | h | h | h | h | h | h <;> subst h <;> rw [toNat_ofNat_mod32] <;> omega

theorem pm_zero_eight {d0 d1 d2 d3 d4 d5 d6 d7 : UInt8}
    (h0 : d0.toNat < 32) (h1 : d1.toNat < 32) (h2 : d2.toNat < 32) (h3 : d3.toNat < 32)
    (h4 : d4.toNat < 32) (h5 : d5.toNat < 32) (h6 : d6.toNat < 32) (h7 : d7.toNat < 32) :
    pm 0 [d0, d1, d2, d3, d4, d5, d6, d7] =
      ((((((d0.toNat * 32 + d1.toNat) * 32 + d2.toNat) * 32 + d3.toNat) * 32 + d4.toNat) * 32
        + d5.toNat) * 32 + d6.toNat) * 32 + d7.toNat := by
  simp only [pm, List.foldl]
  rw [polyModStep_small (c := 0) (by decide) h0, polyModStep_small (by omega) h1,
    polyModStep_small (by omega) h2, polyModStep_small (by omega) h3,
    polyModStep_small (by omega) h4, polyModStep_small (by omega) h5,
    polyModStep_small (by omega) h6, polyModStep_small (by omega) h7]
  omega

theorem pm_zero_ckOf {m : Nat} (hm : m < 2^40) : pm 0 (ckOf m) = m := by
  rw [ckOf_eq, pm_zero_eight] <;> simp only [toNat_ofNat_mod32] <;> omega

theorem ckOf_pm_zero (ck : Bytes) (hl : ck.length = 8) (hlt : ∀ x ∈ ck, x.toNat < 32) :
    ckOf (pm 0 ck) = ck := by
  match ck, hl with
  | [d0, d1, d2, d3, d4, d5, d6, d7], _ =>
    have h0 := hlt d0 (by simp); have h1 := hlt d1 (by simp); have h2 := hlt d2 (by simp)
    have h3 := hlt d3 (by simp); have h4 := hlt d4 (by simp); have h5 := hlt d5 (by simp)
    have h6 := hlt d6 (by simp); have h7 := hlt d7 (by simp)
    rw [pm_zero_eight h0 h1 h2 h3 h4 h5 h6 h7, ckOf_eq]
    have key : ∀ (n : Nat) (d : UInt8), n = d.toNat → UInt8.ofNat n = d := by
      intro n d h; subst h; simp
    simp only [List.cons.injEq, and_true]
    refine ⟨key _ _ ?_, key _ _ ?_, key _ _ ?_, key _ _ ?_, key _ _ ?_, key _ _ ?_, key _ _ ?_, key _ _ ?_⟩ <;> omega

theorem verifyChecksum_iff (pre w : Bytes) :
    verifyChecksum pre w = true ↔ pm (pm 1 (expandPrefix pre)) w ^^^ 1 = 0 := by
  unfold verifyChecksum
  rw [decide_eq_true_iff, polyMod_eq, pm_append]

/-- a checksum of eight 5-bit symbols verifies iff it is the one `createChecksum` computes -/
theorem verify_iff (pre pl ck : Bytes) (hl : ck.length = 8) (hlt : ∀ x ∈ ck, x.toNat < 32) :
    verifyChecksum pre (pl ++ ck) = true ↔ ck = createChecksum pre pl := by
  have hz : (List.replicate ck.length (0 : UInt8)) = [0,0,0,0,0,0,0,0] := by rw [hl]; rfl
  have hlin := pm_xor_zeros 0 (pm 1 (expandPrefix pre ++ pl)) ck
  rw [Nat.zero_xor, hz] at hlin
  have hr : pm (pm 1 (expandPrefix pre ++ pl)) [0,0,0,0,0,0,0,0] < 2^40 := pm_lt _ _ (pm_lt _ _ (by decide))
  have hN : pm 0 ck < 2^40 := pm_lt _ _ (by decide)
  rw [verifyChecksum_iff, createChecksum_eq, polyMod_eq, pm_append, pm_append, pm_append,
    ← pm_append 1, hlin]
  generalize pm (pm 1 (expandPrefix pre ++ pl)) [0,0,0,0,0,0,0,0] = r at hr ⊢
  constructor
  · intro h
    have h' : pm 0 ck = r ^^^ 1 := by
      have : (pm 0 ck ^^^ r ^^^ 1) ^^^ (r ^^^ 1) = 0 ^^^ (r ^^^ 1) := by rw [h]
      rw [Nat.zero_xor] at this
      rw [← this]
      have e : (pm 0 ck ^^^ r ^^^ 1) ^^^ (r ^^^ 1) = pm 0 ck ^^^ ((r ^^^ 1) ^^^ (r ^^^ 1)) := by ac_rfl
      rw [e, Nat.xor_self, Nat.xor_zero]
    rw [← h', ckOf_pm_zero ck hl hlt]
  · intro h
    have hm : r ^^^ 1 < 2^40 := Nat.xor_lt_two_pow hr (by decide)
    have : pm 0 ck = r ^^^ 1 := by rw [h, pm_zero_ckOf hm]
    rw [this]
    have e : r ^^^ 1 ^^^ r ^^^ 1 = (r ^^^ r) ^^^ (1 ^^^ 1) := by ac_rfl
    rw [e, Nat.xor_self, Nat.xor_self]; rfl

theorem createChecksum_length (pre pl : Bytes) : (createChecksum pre pl).length = 8 := by
  rw [createChecksum_eq]; exact ckOf_length _

theorem createChecksum_lt (pre pl : Bytes) : ∀ x ∈ createChecksum pre pl, x.toNat < 32 := by
  rw [createChecksum_eq]; exact ckOf_lt _

/-- **verify_create**: the checksum appended by `createChecksum` always verifies -/
theorem verify_create (pre pl : Bytes) : verifyChecksum pre (pl ++ createChecksum pre pl) = true :=
  (verify_iff pre pl _ (createChecksum_length pre pl) (createChecksum_lt pre pl)).mpr rfl

/-- a word that verifies under prefix `a` verifies under prefix `b` iff the difference of the two
    prefix states, pushed through `|w|` zero symbols, vanishes -/
theorem verify_other_prefix (a b w : Bytes) (h : verifyChecksum a w = true) :
    verifyChecksum b w = decide (pm (pm 1 (expandPrefix a) ^^^ pm 1 (expandPrefix b))
      (List.replicate w.length 0) = 0) := by
  rw [verifyChecksum_iff] at h
  rw [Bool.eq_iff_iff, verifyChecksum_iff, decide_eq_true_iff]
  generalize pm 1 (expandPrefix a) = sa at h ⊢
  generalize pm 1 (expandPrefix b) = sb at h ⊢
  have e : sb = sa ^^^ (sa ^^^ sb) := by
    rw [← Nat.xor_assoc, Nat.xor_self, Nat.zero_xor]
  have h1 : pm sa w = 1 := by
    have : (pm sa w ^^^ 1) ^^^ 1 = 0 ^^^ 1 := by rw [h]
    rwa [Nat.xor_assoc, Nat.xor_self, Nat.xor_zero, Nat.zero_xor] at this
  conv => lhs; rw [e, pm_xor_zeros, h1]
  generalize pm (sa ^^^ sb) (List.replicate w.length 0) = D
  constructor
  · intro h
    have : (1 ^^^ D ^^^ 1) ^^^ 0 = D := by
      have e : (1 ^^^ D ^^^ 1) ^^^ 0 = D ^^^ (1 ^^^ 1) := by ac_rfl
      rw [e, Nat.xor_self, Nat.xor_zero]
    rw [h] at this; simpa using this.symm
  · intro h; subst h; rfl

end Bch.Proofs.CashAddr
