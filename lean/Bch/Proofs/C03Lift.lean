import Bch.Proofs.Polymod
/-!
# C03, part 2: from the minimum-distance theorem to the two decoders (kernel-only)

The theorems here take the enumeration fact `checkIndep … = true` as a hypothesis, so nothing in this
file depends on `native_decide`.
-/
namespace Bch.Proofs.C03Lift
open Bch Bch.Model Bch.Proofs.Polymod

/-! ## generic list facts -/

theorem hamming_map_le {α β : Type} [DecidableEq α] [DecidableEq β] (f : α → β) :
    ∀ a b : List α, hamming (a.map f) (b.map f) ≤ hamming a b
  | [], _ => by simp [hamming]
  | _ :: _, [] => by simp [hamming]
  | x :: a, y :: b => by
    have ih := hamming_map_le f a b
    simp only [List.map_cons, hamming]
    by_cases hxy : x = y
    · simp [hxy]; exact ih
    · by_cases hf : f x = f y <;> simp [hxy, hf] <;> omega

theorem map_inj_on {α β : Type} (f : α → β) :
    ∀ a b : List α, a.length = b.length → a.map f = b.map f →
      (∀ x ∈ a, ∀ y ∈ b, f x = f y → x = y) → a = b
  | [], [], _, _, _ => rfl
  | [], _ :: _, hl, _, _ => by simp at hl
  | _ :: _, [], hl, _, _ => by simp at hl
  | x :: a, y :: b, hl, hm, hi => by
    simp only [List.map_cons, List.cons.injEq] at hm
    rw [hi x (List.mem_cons_self ..) y (List.mem_cons_self ..) hm.1,
      map_inj_on f a b (by simpa using hl) hm.2
        (fun x hx y hy => hi x (List.mem_cons_of_mem _ hx) y (List.mem_cons_of_mem _ hy))]

theorem mapM_option_eq {α β : Type} (f : α → Option β) (d : β) :
    ∀ (a : List α) (v : List β), a.mapM f = some v →
      v = a.map (fun c => (f c).getD d) ∧ ∀ c ∈ a, (f c).isSome
  | [], v, h => by simp at h; simp [h]
  | c :: a, v, h => by
    rw [List.mapM_cons] at h
    cases hc : f c with
    | none => simp [hc] at h
    | some y =>
      cases ha : a.mapM f with
      | none => simp [hc, ha] at h
      | some w =>
        simp [hc, ha] at h
        obtain ⟨h1, h2⟩ := mapM_option_eq f d a w ha
        subst h
        refine ⟨by simp [hc, ← h1], ?_⟩
        intro x hx
        rcases List.mem_cons.mp hx with rfl | hx
        · simp [hc]
        · exact h2 x hx

theorem isOk_iff {ε α : Type} (e : Except ε α) : e.isOk = true ↔ ∃ r, e = .ok r := by
  cases e <;> simp [Except.isOk, Except.toBool]

/-- the error of a result, if any (to evaluate concrete decoder results by `decide`) -/
def errOf {ε α : Type} : Except ε α → Option ε
  | .error x => some x
  | .ok _ => none

theorem errOf_eq {ε α : Type} (e : Except ε α) (x : ε) : errOf e = some x ↔ e = .error x := by
  cases e <;> simp [errOf]

theorem not_ok_error {ε α : Type} (e : Except ε α) (h : ∀ r, e ≠ .ok r) : ∃ x, e = .error x := by
  cases e with
  | error x => exact ⟨x, rfl⟩
  | ok r => exact absurd rfl (h r)

/-! ## CashAddr: characters -/

def isLower (c : UInt8) : Prop := 97 ≤ c ∧ c ≤ 122
def isUpper (c : UInt8) : Prop := 65 ≤ c ∧ c ≤ 90
instance (c : UInt8) : Decidable (isLower c) := by unfold isLower; infer_instance
instance (c : UInt8) : Decidable (isUpper c) := by unfold isUpper; infer_instance

def charsetL : Bytes := [113, 112, 122, 114, 121, 57, 120, 56, 103, 102, 50, 116, 118, 100, 119,
  48, 115, 51, 106, 110, 53, 52, 107, 104, 99, 101, 54, 109, 117, 97, 55, 108]

theorem cash_charset_eq : CashAddr.charset = charsetL := by decide +kernel

/-- `charsetRev` with the literal charset -/
def revL (c : UInt8) : Option UInt8 :=
  if c > 127 then none else
  let l := if 65 ≤ c ∧ c ≤ 90 then c + 32 else c
  let i := charsetL.idxOf l
  if i < 32 then some (UInt8.ofNat i) else none

theorem charsetRev_eq (c : UInt8) : CashAddr.charsetRev c = revL c := by
  unfold CashAddr.charsetRev revL; rw [cash_charset_eq]

theorem forall_uint8 (P : UInt8 → Prop) (h : ∀ n : Fin 256, P (UInt8.ofNat n.val)) : ∀ c, P c := by
  intro c
  have := h ⟨c.toNat, UInt8.toNat_lt c⟩
  simpa using this

/-- the symbol value of a character (0 outside the charset) -/
def symOf (c : UInt8) : Nat := ((CashAddr.charsetRev c).getD 0).toNat

theorem symOf_lt (c : UInt8) : symOf c < 32 := by
  revert c; apply forall_uint8; unfold symOf; simp only [charsetRev_eq]; decide +kernel

/-- within one case class the symbol determines the character -/
theorem symOf_inj_noUpper : ∀ c c' : UInt8, (CashAddr.charsetRev c).isSome → (CashAddr.charsetRev c').isSome →
    ¬ isUpper c → ¬ isUpper c' → symOf c = symOf c' → c = c' := by
  have key : ∀ c : UInt8, (CashAddr.charsetRev c).isSome → ¬ isUpper c → c = charsetL.getD (symOf c) 0 := by
    apply forall_uint8; unfold symOf; simp only [charsetRev_eq]; decide +kernel
  intro c c' h1 h2 h3 h4 h5
  rw [key c h1 h3, key c' h2 h4, h5]

def upC (c : UInt8) : UInt8 := if isLower c then c - 32 else c

theorem symOf_inj_noLower : ∀ c c' : UInt8, (CashAddr.charsetRev c).isSome → (CashAddr.charsetRev c').isSome →
    ¬ isLower c → ¬ isLower c' → symOf c = symOf c' → c = c' := by
  have key : ∀ c : UInt8, (CashAddr.charsetRev c).isSome → ¬ isLower c → c = upC (charsetL.getD (symOf c) 0) := by
    apply forall_uint8; unfold symOf; simp only [charsetRev_eq]; decide +kernel
  intro c c' h1 h2 h3 h4 h5
  rw [key c h1 h3, key c' h2 h4, h5]

/-! ## CashAddr: the scan loop -/

open CashAddr in
/-- the scan of the prefix part: only letters pass, and the separator fixes `prefixSize` -/
theorem scan_pre_ok (body : Bytes) : ∀ (pre : Bytes) (i : Nat) (st r : Scan), st.prefixSize = 0 → 58 ∉ pre →
    scan (pre ++ 58 :: body) i st = .ok r →
    (∀ c ∈ pre, isLower c ∨ isUpper c) ∧ i + pre.length ≠ 0 ∧
    ∃ st' : Scan, st'.prefixSize = i + pre.length ∧
      (st'.lower = true ↔ (st.lower = true ∨ ∃ c ∈ pre, isLower c)) ∧
      (st'.upper = true ↔ (st.upper = true ∨ ∃ c ∈ pre, isUpper c)) ∧
      scan body (i + pre.length + 1) st' = .ok r ∧
      ∀ body2 : Bytes, scan (pre ++ 58 :: body2) i st = scan body2 (i + pre.length + 1) st'
  | [], i, st, r, h0, _, h => by
    simp only [List.nil_append, scan] at h
    simp only [show ¬ ((97:UInt8) ≤ 58 ∧ (58:UInt8) ≤ 122) by decide, show ¬ ((65:UInt8) ≤ 58 ∧ (58:UInt8) ≤ 90) by decide,
      show ¬ ((48:UInt8) ≤ 58 ∧ (58:UInt8) ≤ 57) by decide, if_false, if_true] at h
    split at h
    · cases h
    · rename_i hc
      refine ⟨by simp, by simp; omega, { st with prefixSize := i }, by simp, by simp, by simp, h, ?_⟩
      intro body2
      simp only [List.nil_append, scan, show ¬ ((97:UInt8) ≤ 58 ∧ (58:UInt8) ≤ 122) by decide,
        show ¬ ((65:UInt8) ≤ 58 ∧ (58:UInt8) ≤ 90) by decide,
        show ¬ ((48:UInt8) ≤ 58 ∧ (58:UInt8) ≤ 57) by decide, if_false, if_true, if_neg hc]
      rfl
  | c :: pre, i, st, r, h0, hn, h => by
    have hc58 : c ≠ 58 := fun hc => hn (hc ▸ List.mem_cons_self ..)
    have hn' : 58 ∉ pre := fun hc => hn (List.mem_cons_of_mem _ hc)
    simp only [List.cons_append, scan] at h
    split at h
    · rename_i hlow
      obtain ⟨h1, h2, st', h3, h4, h5, h6, h7⟩ := scan_pre_ok body pre (i+1) _ r (by simpa using h0) hn' h
      have harith : i + (c :: pre).length + 1 = i + 1 + pre.length + 1 := by simp; omega
      refine ⟨?_, by simp, st', by simp [h3]; omega, ?_, ?_, by rw [harith]; exact h6, by
        intro body2; simp only [List.cons_append, scan, if_pos hlow]; rw [h7 body2, harith]⟩
      · intro x hx; rcases List.mem_cons.mp hx with rfl | hx
        · exact Or.inl hlow
        · exact h1 x hx
      · rw [h4]; simp only [List.mem_cons, exists_eq_or_imp]
        constructor
        · intro _; exact Or.inr (Or.inl hlow)
        · intro _; exact Or.inl trivial
      · rw [h5]; simp only [List.mem_cons, exists_eq_or_imp]
        constructor
        · rintro (h | h); exact Or.inl h; exact Or.inr (Or.inr h)
        · rintro (h | h | h); exact Or.inl h
          · exfalso; unfold isLower isUpper at *; exact absurd (UInt8.le_trans hlow.1 h.2) (by decide)
          · exact Or.inr h
    · split at h
      · rename_i hnl hup
        obtain ⟨h1, h2, st', h3, h4, h5, h6, h7⟩ := scan_pre_ok body pre (i+1) _ r (by simpa using h0) hn' h
        have harith : i + (c :: pre).length + 1 = i + 1 + pre.length + 1 := by simp; omega
        refine ⟨?_, by simp, st', by simp [h3]; omega, ?_, ?_, by rw [harith]; exact h6, by
          intro body2; simp only [List.cons_append, scan, if_neg hnl, if_pos hup]; rw [h7 body2, harith]⟩
        · intro x hx; rcases List.mem_cons.mp hx with rfl | hx
          · exact Or.inr hup
          · exact h1 x hx
        · rw [h4]; simp only [List.mem_cons, exists_eq_or_imp]
          constructor
          · rintro (h | h); exact Or.inl h; exact Or.inr (Or.inr h)
          · rintro (h | h | h); exact Or.inl h
            · exact absurd h hnl
            · exact Or.inr h
        · rw [h5]; simp only [List.mem_cons, exists_eq_or_imp]
          constructor
          · intro _; exact Or.inr (Or.inl hup)
          · intro _; exact Or.inl trivial
      · split at h
        · cases h
        · cases h


open CashAddr in
/-- the scan of the part after the separator -/
theorem scan_body_ok : ∀ (body : Bytes) (i : Nat) (st r : Scan), st.prefixSize ≠ 0 →
    scan body i st = .ok r →
    r.prefixSize = st.prefixSize ∧
      (r.lower = true ↔ (st.lower = true ∨ ∃ c ∈ body, isLower c)) ∧
      (r.upper = true ↔ (st.upper = true ∨ ∃ c ∈ body, isUpper c))
  | [], i, st, r, _, h => by
    simp only [scan, Except.ok.injEq] at h; subst h; simp
  | c :: body, i, st, r, h0, h => by
    simp only [scan] at h
    split at h
    · rename_i hlow
      obtain ⟨h1, h2, h3⟩ := scan_body_ok body (i+1) _ r (by simpa using h0) h
      refine ⟨by simpa using h1, ?_, ?_⟩
      · rw [h2]; simp only [List.mem_cons, exists_eq_or_imp]
        constructor
        · intro _; exact Or.inr (Or.inl hlow)
        · intro _; exact Or.inl trivial
      · rw [h3]; simp only [List.mem_cons, exists_eq_or_imp]
        constructor
        · rintro (h | h); exact Or.inl h; exact Or.inr (Or.inr h)
        · rintro (h | h | h); exact Or.inl h
          · exfalso; unfold isLower isUpper at *; exact absurd (UInt8.le_trans hlow.1 h.2) (by decide)
          · exact Or.inr h
    · split at h
      · rename_i hnl hup
        obtain ⟨h1, h2, h3⟩ := scan_body_ok body (i+1) _ r (by simpa using h0) h
        refine ⟨by simpa using h1, ?_, ?_⟩
        · rw [h2]; simp only [List.mem_cons, exists_eq_or_imp]
          constructor
          · rintro (h | h); exact Or.inl h; exact Or.inr (Or.inr h)
          · rintro (h | h | h); exact Or.inl h
            · exact absurd h hnl
            · exact Or.inr h
        · rw [h3]; simp only [List.mem_cons, exists_eq_or_imp]
          constructor
          · intro _; exact Or.inr (Or.inl hup)
          · intro _; exact Or.inl trivial
      · split at h
        · rename_i hnl hnu hdig
          obtain ⟨h1, h2, h3⟩ := scan_body_ok body (i+1) _ r h0 h
          refine ⟨h1, ?_, ?_⟩
          · rw [h2]; simp only [List.mem_cons, exists_eq_or_imp]
            constructor
            · rintro (h | h); exact Or.inl h; exact Or.inr (Or.inr h)
            · rintro (h | h | h); exact Or.inl h
              · exact absurd h hnl
              · exact Or.inr h
          · rw [h3]; simp only [List.mem_cons, exists_eq_or_imp]
            constructor
            · rintro (h | h); exact Or.inl h; exact Or.inr (Or.inr h)
            · rintro (h | h | h); exact Or.inl h
              · exact absurd h hnu
              · exact Or.inr h
        · split at h
          · rw [if_pos (Or.inr h0)] at h; cases h
          · cases h

open CashAddr in
/-- `DecodeCashAddress` without the monadic notation -/
theorem decode_eq (str : Bytes) : DecodeCashAddress str =
    match scan str 0 {} with
    | .error e => .error e
    | .ok st =>
      if st.prefixSize = 0 then .error .noPrefix
      else if st.upper = true ∧ st.lower = true then .error .mixedCase
      else match (str.drop (st.prefixSize + 1)).mapM charsetRev with
        | none => .error .invalidChar
        | some v =>
          if verifyChecksum ((str.take st.prefixSize).map (· ||| 0x20)) v = false then .error .checksumMismatch
          else if v.length < 8 then .error .tooShort
          else .ok ((str.take st.prefixSize).map (· ||| 0x20), v.take (v.length - 8)) := by
  unfold DecodeCashAddress
  cases scan str 0 {} with
  | error e => rfl
  | ok st =>
    simp only [bind, Except.bind]
    by_cases h1 : st.prefixSize = 0
    · simp [h1, throw, throwThe, MonadExceptOf.throw]
    · by_cases h2 : st.upper = true ∧ st.lower = true
      · simp [h1, h2, throw, throwThe, MonadExceptOf.throw]
      · simp only [h1, h2, if_false, pure, Except.pure]
        cases (str.drop (st.prefixSize + 1)).mapM charsetRev with
        | none => simp [throw, throwThe, MonadExceptOf.throw]
        | some v =>
          simp only []
          cases verifyChecksum ((str.take st.prefixSize).map (· ||| 0x20)) v <;>
            by_cases h4 : v.length < 8 <;> simp [h4, throw, throwThe, MonadExceptOf.throw]

theorem take_drop_sep (pre body : Bytes) :
    (pre ++ 58 :: body).take pre.length = pre ∧ (pre ++ 58 :: body).drop (pre.length + 1) = body := by
  constructor
  · simp
  · rw [← List.drop_drop]; simp

/-- what acceptance of `pre ++ ":" ++ body` means -/
theorem decode_ok (pre body : Bytes) (hn : 58 ∉ pre) (r : Bytes × Bytes)
    (h : CashAddr.DecodeCashAddress (pre ++ 58 :: body) = .ok r) :
    (∃ c ∈ pre, isLower c ∨ isUpper c) ∧
    ¬ ((∃ c ∈ pre ++ body, isUpper c) ∧ (∃ c ∈ pre ++ body, isLower c)) ∧
    ∃ v, body.mapM CashAddr.charsetRev = some v ∧
      CashAddr.verifyChecksum (pre.map (· ||| 0x20)) v = true ∧ 8 ≤ v.length := by
  rw [decode_eq] at h
  cases hs : CashAddr.scan (pre ++ 58 :: body) 0 {} with
  | error e => simp [hs] at h
  | ok st =>
    obtain ⟨h1, h2, st', h3, h4, h5, h6, -⟩ := scan_pre_ok body pre 0 {} st rfl hn hs
    have hp : pre.length ≠ 0 := by omega
    obtain ⟨h7, h8, h9⟩ := scan_body_ok body _ st' st (by omega) h6
    have hps : st.prefixSize = pre.length := by omega
    simp only [hs, hps, (take_drop_sep pre body).1, (take_drop_sep pre body).2, if_neg hp] at h
    refine ⟨?_, ?_, ?_⟩
    · cases pre with
      | nil => simp at hp
      | cons c pre => exact ⟨c, List.mem_cons_self .., h1 c (List.mem_cons_self ..)⟩
    · intro hmix
      rw [if_pos] at h
      · cases h
      · rw [h9, h8, h5, h4]
        simp only [List.mem_append] at hmix
        obtain ⟨⟨c, hc, hcu⟩, ⟨c', hc', hcl⟩⟩ := hmix
        constructor
        · rcases hc with hc | hc
          · exact Or.inl (Or.inr ⟨c, hc, hcu⟩)
          · exact Or.inr ⟨c, hc, hcu⟩
        · rcases hc' with hc' | hc'
          · exact Or.inl (Or.inr ⟨c', hc', hcl⟩)
          · exact Or.inr ⟨c', hc', hcl⟩
    · split at h
      · cases h
      · cases hm : body.mapM CashAddr.charsetRev with
        | none => simp [hm] at h
        | some v =>
          simp only [hm] at h
          cases hv : CashAddr.verifyChecksum (pre.map (· ||| 0x20)) v with
          | false => simp [hv] at h
          | true =>
            refine ⟨v, rfl, hv, ?_⟩
            apply Classical.byContradiction; intro hlt
            simp [hv, show v.length < 8 by omega] at h


/-! ## CashAddr: the lift -/

theorem foldl_polyModStep (l : Bytes) (s : Nat) :
    l.foldl CashAddr.polyModStep s = (l.map (·.toNat)).foldl stepC s := by
  induction l generalizing s with
  | nil => rfl
  | cons d l ih => simp only [List.foldl_cons, List.map_cons, polyModStep_eq, ih]

/-- acceptance, in terms of the table-form fold over the symbols of the body -/
theorem verify_fold (p v : Bytes) (h : CashAddr.verifyChecksum p v = true) :
    (v.map (·.toNat)).foldl stepC ((CashAddr.expandPrefix p).foldl CashAddr.polyModStep 1) = 1 := by
  unfold CashAddr.verifyChecksum CashAddr.polyMod at h
  rw [List.foldl_append, foldl_polyModStep v] at h
  have := of_decide_eq_true h
  exact nat_xor_eq_zero.mp this

/-- two accepted strings with the same prefix and length differ in more than five places -/
theorem cashaddr_far (hc : checkIndep (cols stepC 112) 112 5 = true) (pre body body' : Bytes)
    (hn : 58 ∉ pre) (hl : body'.length = body.length) (hlen : body.length ≤ 112)
    (r r' : Bytes × Bytes)
    (h : CashAddr.DecodeCashAddress (pre ++ 58 :: body) = .ok r)
    (h' : CashAddr.DecodeCashAddress (pre ++ 58 :: body') = .ok r') (hne : body ≠ body') :
    5 < hamming body body' := by
  obtain ⟨⟨x, hx, hxl⟩, hmix, v, hv, hver, -⟩ := decode_ok pre body hn r h
  obtain ⟨-, hmix', v', hv', hver', -⟩ := decode_ok pre body' hn r' h'
  obtain ⟨hv1, hv2⟩ := mapM_option_eq _ 0 body v hv
  obtain ⟨hv1', hv2'⟩ := mapM_option_eq _ 0 body' v' hv'
  have hf := verify_fold _ v hver
  have hf' := verify_fold _ v' hver'
  have hV : v.map (·.toNat) = body.map symOf := by rw [hv1, List.map_map]; rfl
  have hV' : v'.map (·.toNat) = body'.map symOf := by rw [hv1', List.map_map]; rfl
  rw [hV] at hf; rw [hV'] at hf'
  have hinj : ∀ c ∈ body, ∀ c' ∈ body', symOf c = symOf c' → c = c' := by
    intro c hcb c' hcb' hs
    rcases hxl with hxl | hxu
    · apply symOf_inj_noUpper c c' (hv2 c hcb) (hv2' c' hcb') _ _ hs
      · intro hu; exact hmix ⟨⟨c, List.mem_append_right _ hcb, hu⟩, ⟨x, List.mem_append_left _ hx, hxl⟩⟩
      · intro hu; exact hmix' ⟨⟨c', List.mem_append_right _ hcb', hu⟩, ⟨x, List.mem_append_left _ hx, hxl⟩⟩
    · apply symOf_inj_noLower c c' (hv2 c hcb) (hv2' c' hcb') _ _ hs
      · intro hu; exact hmix ⟨⟨x, List.mem_append_left _ hx, hxu⟩, ⟨c, List.mem_append_right _ hcb, hu⟩⟩
      · intro hu; exact hmix' ⟨⟨x, List.mem_append_left _ hx, hxu⟩, ⟨c', List.mem_append_right _ hcb', hu⟩⟩
  have hfar := linStepC.far 112 5 hc _ (body.map symOf) (body'.map symOf) (by simp [hl]) (by simpa using hlen)
    (by intro d hd; obtain ⟨c, _, rfl⟩ := List.mem_map.mp hd; exact symOf_lt c)
    (by intro d hd; obtain ⟨c, _, rfl⟩ := List.mem_map.mp hd; exact symOf_lt c)
    (by rw [hf, hf'])
    (by intro he; exact hne (map_inj_on symOf body body' hl.symm he hinj))
  exact Nat.lt_of_lt_of_le hfar (hamming_map_le symOf body body')

/-! ## CashAddr: the error kind for replacements inside the charset -/

theorem charset_alnum : ∀ c : UInt8, (CashAddr.charsetRev c).isSome →
    isLower c ∨ isUpper c ∨ (48 ≤ c ∧ c ≤ 57) := by
  apply forall_uint8; simp only [charsetRev_eq]; decide +kernel

open CashAddr in
theorem scan_total : ∀ (l : Bytes) (i : Nat) (st : Scan), st.prefixSize ≠ 0 →
    (∀ c ∈ l, isLower c ∨ isUpper c ∨ (48 ≤ c ∧ c ≤ 57)) → ∃ r, scan l i st = .ok r
  | [], _, st, _, _ => ⟨st, rfl⟩
  | c :: l, i, st, h0, hc => by
    have hl : ∀ c ∈ l, isLower c ∨ isUpper c ∨ (48 ≤ c ∧ c ≤ 57) := fun x hx => hc x (List.mem_cons_of_mem _ hx)
    simp only [scan]
    split
    · exact scan_total l _ _ (by simpa using h0) hl
    · split
      · exact scan_total l _ _ (by simpa using h0) hl
      · split
        · exact scan_total l _ _ h0 hl
        · rename_i h1 h2 h3
          rcases hc c (List.mem_cons_self ..) with h | h | h
          · exact absurd h h1
          · exact absurd h h2
          · exact absurd h h3

theorem mapM_some_of_all {α β : Type} (f : α → Option β) : ∀ l : List α, (∀ c ∈ l, (f c).isSome) →
    ∃ v, l.mapM f = some v ∧ v.length = l.length
  | [], _ => ⟨[], by simp⟩
  | c :: l, h => by
    obtain ⟨v, hv, hvl⟩ := mapM_some_of_all f l (fun x hx => h x (List.mem_cons_of_mem _ hx))
    obtain ⟨y, hy⟩ := Option.isSome_iff_exists.mp (h c (List.mem_cons_self ..))
    exact ⟨y :: v, by rw [List.mapM_cons]; simp [hy, hv], by simp [hvl]⟩

/-- if the original string is accepted, a changed body of the same length consists of charset characters
    and does not mix cases, and the changed string is not accepted, then the error is the checksum error -/
theorem cashaddr_mismatch (pre body body' : Bytes) (hn : 58 ∉ pre) (r : Bytes × Bytes)
    (h : CashAddr.DecodeCashAddress (pre ++ 58 :: body) = .ok r) (hl : body'.length = body.length)
    (hcs : ∀ c ∈ body', (CashAddr.charsetRev c).isSome)
    (hmix : ¬ ((∃ c ∈ pre ++ body', isUpper c) ∧ (∃ c ∈ pre ++ body', isLower c)))
    (hrej : ∀ r', CashAddr.DecodeCashAddress (pre ++ 58 :: body') ≠ .ok r') :
    CashAddr.DecodeCashAddress (pre ++ 58 :: body') = .error .checksumMismatch := by
  obtain ⟨-, -, v, hv, -, hv8⟩ := decode_ok pre body hn r h
  have hvl : v.length = body.length := by
    obtain ⟨w, hw, hwl⟩ := mapM_some_of_all CashAddr.charsetRev body
      (mapM_option_eq _ 0 body v hv).2
    rw [hv] at hw; cases hw; exact hwl
  rw [decode_eq] at h
  cases hs : CashAddr.scan (pre ++ 58 :: body) 0 {} with
  | error e => simp [hs] at h
  | ok st =>
    obtain ⟨h1, h2, st', h3, h4, h5, h6, h7⟩ := scan_pre_ok body pre 0 {} st rfl hn hs
    have hp : pre.length ≠ 0 := by omega
    obtain ⟨st2, hs2⟩ := scan_total body' (0 + pre.length + 1) st' (by omega)
      (fun c hc => charset_alnum c (hcs c hc))
    obtain ⟨h8, h9, h10⟩ := scan_body_ok body' _ st' st2 (by omega) hs2
    have hps : st2.prefixSize = pre.length := by omega
    obtain ⟨v', hv', hvl'⟩ := mapM_some_of_all CashAddr.charsetRev body' hcs
    have hrej' := hrej
    have hd := decode_eq (pre ++ 58 :: body')
    rw [h7 body', hs2] at hd
    simp only [hps, (take_drop_sep pre body').1, (take_drop_sep pre body').2, if_neg hp, hv'] at hd
    rw [if_neg] at hd
    · cases hver : CashAddr.verifyChecksum (pre.map (· ||| 0x20)) v' with
      | false => simpa [hver] using hd
      | true =>
        rw [hver] at hd
        simp only [show ¬ (v'.length < 8) by omega, if_false] at hd
        exact absurd hd (hrej _)
    · rw [h10, h9, h5, h4]
      rintro ⟨hu, hl'⟩
      apply hmix
      simp only [List.mem_append]
      constructor
      · rcases hu with (hu | ⟨c, hc, hcu⟩) | ⟨c, hc, hcu⟩
        · cases hu
        · exact ⟨c, Or.inl hc, hcu⟩
        · exact ⟨c, Or.inr hc, hcu⟩
      · rcases hl' with (hl' | ⟨c, hc, hcu⟩) | ⟨c, hc, hcu⟩
        · cases hl'
        · exact ⟨c, Or.inl hc, hcu⟩
        · exact ⟨c, Or.inr hc, hcu⟩

/-! ## bech32 -/

theorem bech_charset_eq : Bech32.charset = charsetL := by decide +kernel

theorem toLower_eq_49 : ∀ c : UInt8, Bech32.toLower c = 49 → c = 49 := by
  apply forall_uint8; decide +kernel

/-- the symbol value of a (lower-cased) data character -/
def symB (c : UInt8) : Nat := (UInt8.ofNat (Bech32.charset.idxOf c)).toNat

theorem symB_inj : ∀ c c' : UInt8, Bech32.charset.idxOf c < 32 → Bech32.charset.idxOf c' < 32 →
    symB c = symB c' → c = c' := by
  have key : ∀ c : UInt8, Bech32.charset.idxOf c < 32 → c = charsetL.getD (symB c) 0 := by
    unfold symB; rw [bech_charset_eq]; apply forall_uint8; decide +kernel
  intro c c' h1 h2 h3
  rw [key c h1, key c' h2, h3]

theorem symB_lt : ∀ c : UInt8, Bech32.charset.idxOf c < 32 → symB c < 32 := by
  unfold symB; rw [bech_charset_eq]; apply forall_uint8; decide +kernel

theorem toBytes_eq : ∀ (D v : Bytes), Bech32.toBytes D = some v →
    v.map (·.toNat) = D.map symB ∧ ∀ c ∈ D, Bech32.charset.idxOf c < 32
  | [], v, h => by simp [Bech32.toBytes] at h; subst h; simp
  | c :: D, v, h => by
    simp only [Bech32.toBytes] at h
    split at h
    · rename_i hi
      cases hD : Bech32.toBytes D with
      | none => simp [hD] at h
      | some w =>
        simp [hD] at h
        obtain ⟨h1, h2⟩ := toBytes_eq D w hD
        subst h
        refine ⟨by simp [h1, symB], ?_⟩
        intro x hx
        rcases List.mem_cons.mp hx with rfl | hx
        · exact hi
        · exact h2 x hx
    · cases h

theorem lastIndexOf_sep (A D : Bytes) (h : 49 ∉ D) :
    Bech32.lastIndexOf 49 (A ++ 49 :: D) = some A.length := by
  unfold Bech32.lastIndexOf
  have hr : (A ++ 49 :: D).reverse = D.reverse ++ 49 :: A.reverse := by simp
  have hi : (A ++ 49 :: D).reverse.idxOf 49 = D.length := by
    rw [hr, List.idxOf_append, if_neg (by simpa using h), List.idxOf_cons_self]; simp
  simp only [hi, List.length_append, List.length_cons]
  rw [if_pos (by omega)]
  congr 1; omega

theorem foldl_polymodStep (l : List Nat) (s : Nat) : l.foldl Bech32.polymodStep s = l.foldl stepB s := by
  have : Bech32.polymodStep = stepB := by funext c d; exact polymodStep_eq c d
  rw [this]

/-- what acceptance of `hrp ++ "1" ++ dat` (no `'1'` in `dat`) means -/
theorem bech_ok (hrp dat : Bytes) (h1 : 49 ∉ dat) (r : Bytes × Bytes)
    (h : Bech32.Decode (hrp ++ 49 :: dat) = .ok r) :
    (hrp ++ 49 :: dat).length ≤ 90 ∧
    ((hrp ++ 49 :: dat) = (hrp ++ 49 :: dat).map Bech32.toLower ∨
      (hrp ++ 49 :: dat) = (hrp ++ 49 :: dat).map Bech32.toUpper) ∧
    (∀ c ∈ dat.map Bech32.toLower, Bech32.charset.idxOf c < 32) ∧
    ((dat.map Bech32.toLower).map symB).foldl stepB
      ((Bech32.hrpExpand (hrp.map Bech32.toLower)).foldl stepB 1) = 1 := by
  unfold Bech32.Decode at h
  split at h; · cases h
  rename_i hlen
  split at h; · cases h
  simp only [] at h
  split at h; · cases h
  rename_i hcase
  have hlow : (hrp ++ 49 :: dat).map Bech32.toLower = hrp.map Bech32.toLower ++ 49 :: dat.map Bech32.toLower := by
    simp [show Bech32.toLower 49 = 49 by decide]
  have h1' : 49 ∉ dat.map Bech32.toLower := by
    intro hm; obtain ⟨c, hc, hc49⟩ := List.mem_map.mp hm
    exact h1 (toLower_eq_49 c hc49 ▸ hc)
  rw [hlow, lastIndexOf_sep _ _ h1'] at h
  simp only [List.length_map] at h
  split at h; · cases h
  have e1 : (hrp.map Bech32.toLower ++ 49 :: dat.map Bech32.toLower).take hrp.length = hrp.map Bech32.toLower := by
    simp
  have e2 : (hrp.map Bech32.toLower ++ 49 :: dat.map Bech32.toLower).drop (hrp.length + 1) = dat.map Bech32.toLower := by
    rw [← List.drop_drop]; simp
  rw [e1, e2] at h
  cases hD : Bech32.toBytes (dat.map Bech32.toLower) with
  | none => simp [hD] at h
  | some v =>
    simp only [hD] at h
    split at h; · cases h
    rename_i hver
    obtain ⟨hv1, hv2⟩ := toBytes_eq _ v hD
    refine ⟨by omega, ?_, hv2, ?_⟩
    · apply Classical.byContradiction; intro hno
      exact hcase (by simpa [not_or] using hno)
    · have : Bech32.verifyChecksum (hrp.map Bech32.toLower) v = true := by simpa using hver
      unfold Bech32.verifyChecksum Bech32.polymod at this
      have := of_decide_eq_true this
      rwa [foldl_polymodStep, List.foldl_append, hv1] at this


/-- two accepted strings with the same hrp and length that are not case variants of each other differ in
    more than four places of the data part -/
theorem bech32_far (hc : checkIndep (cols stepB 89) 89 4 = true) (hrp dat dat' : Bytes)
    (h1 : 49 ∉ dat) (h1' : 49 ∉ dat') (hl : dat'.length = dat.length) (r r' : Bytes × Bytes)
    (h : Bech32.Decode (hrp ++ 49 :: dat) = .ok r) (h' : Bech32.Decode (hrp ++ 49 :: dat') = .ok r')
    (hne : dat.map Bech32.toLower ≠ dat'.map Bech32.toLower) : 4 < hamming dat dat' := by
  obtain ⟨hlen, -, hs, hf⟩ := bech_ok hrp dat h1 r h
  obtain ⟨-, -, hs', hf'⟩ := bech_ok hrp dat' h1' r' h'
  have hlen' : dat.length ≤ 89 := by simp at hlen; omega
  have hfar := linStepB.far 89 4 hc _ ((dat.map Bech32.toLower).map symB) ((dat'.map Bech32.toLower).map symB)
    (by simp [hl]) (by simpa using hlen')
    (by intro d hd; obtain ⟨c, hc, rfl⟩ := List.mem_map.mp hd; exact symB_lt c (hs c hc))
    (by intro d hd; obtain ⟨c, hc, rfl⟩ := List.mem_map.mp hd; exact symB_lt c (hs' c hc))
    (by rw [hf, hf'])
    (by intro he
        exact hne (map_inj_on symB _ _ (by simp [hl]) he
          (fun c hc c' hc' hcc => symB_inj c c' (hs c hc) (hs' c' hc') hcc)))
  exact Nat.lt_of_lt_of_le hfar
    (Nat.le_trans (hamming_map_le symB _ _) (hamming_map_le Bech32.toLower dat dat'))

theorem map_fix {α : Type} (f : α → α) : ∀ l : List α, l = l.map f → ∀ c ∈ l, f c = c
  | [], _, c, hc => by simp at hc
  | x :: l, h, c, hc => by
    simp only [List.map_cons, List.cons.injEq] at h
    rcases List.mem_cons.mp hc with rfl | hc
    · exact h.1.symm
    · exact map_fix f l h.2 c hc

theorem map_of_fix {α : Type} (f : α → α) : ∀ l : List α, (∀ c ∈ l, f c = c) → l.map f = l
  | [], _ => rfl
  | x :: l, h => by
    rw [List.map_cons, h x (List.mem_cons_self ..), map_of_fix f l (fun c hc => h c (List.mem_cons_of_mem _ hc))]

theorem toUpper_lower_ne : ∀ c : UInt8, isLower c → Bech32.toUpper c ≠ c := by
  apply forall_uint8; decide +kernel
theorem toLower_upper_ne : ∀ c : UInt8, isUpper c → Bech32.toLower c ≠ c := by
  apply forall_uint8; decide +kernel
theorem toUpper_toLower : ∀ c : UInt8, Bech32.toUpper c = c → Bech32.toUpper (Bech32.toLower c) = c := by
  apply forall_uint8; decide +kernel

/-- when the hrp contains a letter, two accepted strings with that hrp are in the same case, so different
    data parts stay different after lower-casing -/
theorem bech32_case (hrp dat dat' : Bytes) (hlet : ∃ c ∈ hrp, isLower c ∨ isUpper c)
    (hu : (hrp ++ 49 :: dat) = (hrp ++ 49 :: dat).map Bech32.toLower ∨
      (hrp ++ 49 :: dat) = (hrp ++ 49 :: dat).map Bech32.toUpper)
    (hu' : (hrp ++ 49 :: dat') = (hrp ++ 49 :: dat').map Bech32.toLower ∨
      (hrp ++ 49 :: dat') = (hrp ++ 49 :: dat').map Bech32.toUpper)
    (hne : dat ≠ dat') : dat.map Bech32.toLower ≠ dat'.map Bech32.toLower := by
  obtain ⟨x, hx, hxl⟩ := hlet
  have memx : ∀ d : Bytes, x ∈ hrp ++ 49 :: d := fun d => List.mem_append_left _ hx
  have memd : ∀ (d : Bytes), ∀ c ∈ d, c ∈ hrp ++ 49 :: d :=
    fun d c hc => List.mem_append_right _ (List.mem_cons_of_mem _ hc)
  rcases hxl with hxl | hxu
  · have hL : ∀ d : Bytes, ((hrp ++ 49 :: d) = (hrp ++ 49 :: d).map Bech32.toLower ∨
        (hrp ++ 49 :: d) = (hrp ++ 49 :: d).map Bech32.toUpper) → d.map Bech32.toLower = d := by
      intro d hd
      rcases hd with hd | hd
      · exact map_of_fix _ d (fun c hc => map_fix _ _ hd c (memd d c hc))
      · exact absurd (map_fix _ _ hd x (memx d)) (toUpper_lower_ne x hxl)
    rw [hL dat hu, hL dat' hu']; exact hne
  · have hU : ∀ d : Bytes, ((hrp ++ 49 :: d) = (hrp ++ 49 :: d).map Bech32.toLower ∨
        (hrp ++ 49 :: d) = (hrp ++ 49 :: d).map Bech32.toUpper) →
        (d.map Bech32.toLower).map Bech32.toUpper = d := by
      intro d hd
      rcases hd with hd | hd
      · exact absurd (map_fix _ _ hd x (memx d)) (toLower_upper_ne x hxu)
      · rw [List.map_map]
        exact map_of_fix _ d (fun c hc => toUpper_toLower c (map_fix _ _ hd c (memd d c hc)))
    intro he
    apply hne
    rw [← hU dat hu, ← hU dat' hu', he]

end Bch.Proofs.C03Lift
