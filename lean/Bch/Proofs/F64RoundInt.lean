import Bch.Proofs.F64Arith
import Mathlib.Algebra.Order.Floor.Ring
import Mathlib.Data.Rat.Floor
/-
  `roundHalfAway` (Go `math.Round`) returns the nearest integer, ties away from zero; `truncToInt` of an
  integer-valued float is exact.
-/
namespace Bch.Proofs.F64
open Bch.Prim.F64

theorem and_hi_mask (b k : Nat) (hb : b < 2^64) (hk : k ≤ 64) :
    b &&& (2^64 - 2^k) = b / 2^k * 2^k := by
  have hX : 2^64 - 2^k = (2^(64-k) - 1) * 2^k := by
    rw [Nat.sub_mul, ← Nat.pow_add, Nat.one_mul]; congr 2; omega
  have hpos : 0 < 2^k := Nat.pow_pos (by decide)
  have h1 : (b &&& (2^64 - 2^k)) / 2^k = b / 2^k := by
    rw [Nat.and_div_two_pow, hX, Nat.mul_div_cancel _ hpos, Nat.and_two_pow_sub_one_eq_mod]
    apply Nat.mod_eq_of_lt
    rw [Nat.div_lt_iff_lt_mul hpos, ← Nat.pow_add]
    have : 64 - k + k = 64 := by omega
    rw [this]; exact hb
  have h2 : (b &&& (2^64 - 2^k)) % 2^k = 0 := by
    rw [Nat.and_mod_two_pow, hX, Nat.mul_mod_left]; simp
  have := Nat.div_add_mod (b &&& (2^64 - 2^k)) (2^k)
  rw [h1, h2, Nat.mul_comm] at this
  omega

theorem fracMask_shift : ∀ j, j < 52 → (2^52 - 1) >>> j = 2^(52 - j) - 1 := by decide
theorem half_shift : ∀ j, j < 52 → 2^51 >>> j = 2^(51 - j) := by decide

theorem roundHalfAway_toNat (a : UInt64) :
    (roundHalfAway a).toNat =
      if expF a < 1023 then (if expF a = 1022 then sgnF a * 2^63 + 1023 * 2^52 else sgnF a * 2^63)
      else if expF a < 1075 then
        (a.toNat + 2^(1074 - expF a)) / 2^(1075 - expF a) * 2^(1075 - expF a)
      else a.toNat := by
  unfold roundHalfAway
  have hE := expField_eq a
  have hf := toNat_fields a
  simp only []
  set e := (a >>> 52) &&& 0x7FF with he
  have h1023 : (1023 : UInt64).toNat = 1023 := rfl
  have h1075 : (1075 : UInt64).toNat = 1075 := rfl
  have h1022 : (1022 : UInt64).toNat = 1022 := rfl
  by_cases hlt : e < 1023
  · have hlt' : expF a < 1023 := by rw [UInt64.lt_iff_toNat_lt, hE, h1023] at hlt; exact hlt
    rw [if_pos hlt, if_pos hlt']
    have hs := signMask_eq a
    by_cases heq : e = 1022
    · have heq' : expF a = 1022 := by rw [u64_eq_iff, hE, h1022] at heq; exact heq
      rw [if_pos (by simpa using heq), if_pos heq', UInt64.toNat_or, hs]
      show sgnF a * 2^63 ||| 1023 * 2^52 = _
      rcases (by omega : sgnF a = 0 ∨ sgnF a = 1) with h | h <;> rw [h]
      · simp
      · rw [Nat.one_mul, Nat.or_comm, Nat.or_two_pow_eq_add_of_lt (by decide)]; omega
    · have heq' : ¬ expF a = 1022 := by rw [u64_eq_iff, hE, h1022] at heq; exact heq
      rw [if_neg (by simpa using heq), if_neg heq', hs]
  · have hlt' : ¬ expF a < 1023 := by rw [UInt64.lt_iff_toNat_lt, hE, h1023] at hlt; exact hlt
    rw [if_neg hlt, if_neg hlt']
    by_cases hlt2 : e < 1075
    · have hlt2' : expF a < 1075 := by rw [UInt64.lt_iff_toNat_lt, hE, h1075] at hlt2; exact hlt2
      rw [if_pos hlt2, if_pos hlt2']
      have hle : (1023 : UInt64) ≤ e := by rw [UInt64.le_iff_toNat_le, hE, h1023]; omega
      have hsub : (e - 1023).toNat = expF a - 1023 := by
        rw [UInt64.toNat_sub_of_le _ _ hle, hE, h1023]
      have hj : expF a - 1023 < 52 := by omega
      have hmod : (expF a - 1023) % 64 = expF a - 1023 := Nat.mod_eq_of_lt (by omega)
      have hc : ((0x0008000000000000 : UInt64) >>> (e - 1023)).toNat = 2^(1074 - expF a) := by
        rw [UInt64.toNat_shiftRight, hsub, hmod]
        have := half_shift (expF a - 1023) hj
        show 2^51 >>> (expF a - 1023) = _
        rw [this, show 51 - (expF a - 1023) = 1074 - expF a by omega]
      have hm : (fracMask >>> (e - 1023)).toNat = 2^(1075 - expF a) - 1 := by
        rw [UInt64.toNat_shiftRight, hsub, hmod]
        have := fracMask_shift (expF a - 1023) hj
        show (2^52 - 1) >>> (expF a - 1023) = _
        rw [this, show 52 - (expF a - 1023) = 1075 - expF a by omega]
      have hpk : 2^(1074 - expF a) ≤ 2^51 := Nat.pow_le_pow_right (by decide) (by omega)
      have hpk1 : 0 < 2^(1075 - expF a) := Nat.pow_pos (by decide)
      rw [UInt64.toNat_and, UInt64.toNat_not, UInt64.toNat_add, hc, hm]
      have hb : a.toNat + 2^(1074 - expF a) < 2^64 := by omega
      rw [Nat.mod_eq_of_lt hb]
      have : UInt64.size - 1 - (2^(1075 - expF a) - 1) = 2^64 - 2^(1075 - expF a) := by
        show 2^64 - 1 - _ = _; omega
      rw [this, and_hi_mask _ _ hb (by omega)]
    · have hlt2' : ¬ expF a < 1075 := by rw [UInt64.lt_iff_toNat_lt, hE, h1075] at hlt2; exact hlt2
      rw [if_neg hlt2, if_neg hlt2']


/-- nearest integer, ties away from zero (the mathematical meaning of Go's `math.Round`) -/
def roundAway (v : ℚ) : ℤ := if 0 ≤ v then ⌊v + 1/2⌋ else -⌊-v + 1/2⌋

theorem roundAway_zero : roundAway 0 = 0 := by
  unfold roundAway
  rw [if_pos le_rfl, Int.floor_eq_iff]; norm_num

theorem roundAway_neg (v : ℚ) : roundAway (-v) = -roundAway v := by
  rcases lt_trichotomy v 0 with h | h | h
  · unfold roundAway
    rw [if_pos (by linarith), if_neg (by linarith)]; simp
  · subst h; rw [neg_zero, roundAway_zero]; rfl
  · unfold roundAway
    rw [if_neg (by linarith), if_pos (by linarith)]; simp

theorem roundAway_nonneg_eq (v : ℚ) (n : ℕ) (h0 : 0 ≤ v) (h1 : (n:ℚ) ≤ v + 1/2) (h2 : v + 1/2 < n + 1) :
    roundAway v = n := by
  unfold roundAway
  rw [if_pos h0, Int.floor_eq_iff]
  exact ⟨by exact_mod_cast h1, by exact_mod_cast h2⟩

theorem roundAway_natCast (n : ℕ) : roundAway n = n :=
  roundAway_nonneg_eq n n (by positivity) (by linarith) (by linarith)

theorem roundAway_intCast (z : ℤ) : roundAway z = z := by
  rcases le_or_gt 0 z with h | h
  · obtain ⟨n, rfl⟩ := Int.eq_ofNat_of_zero_le h
    exact_mod_cast roundAway_natCast n
  · obtain ⟨n, hn⟩ := Int.eq_ofNat_of_zero_le (by omega : 0 ≤ -z)
    have hz : z = -(n : ℤ) := by omega
    rw [hz]; push_cast
    rw [roundAway_neg, roundAway_natCast]

theorem roundAway_near (v : ℚ) : |v - roundAway v| ≤ 1/2 := by
  unfold roundAway
  split
  · have h1 := Int.floor_le (v + 1/2)
    have h2 := Int.lt_floor_add_one (v + 1/2)
    rw [abs_le]; constructor <;> linarith
  · have h1 := Int.floor_le (-v + 1/2)
    have h2 := Int.lt_floor_add_one (-v + 1/2)
    push_cast
    rw [abs_le]; constructor <;> linarith

theorem roundAway_mono {v w : ℚ} (h : v ≤ w) : roundAway v ≤ roundAway w := by
  unfold roundAway
  by_cases hv : 0 ≤ v
  · rw [if_pos hv, if_pos (le_trans hv h)]
    exact Int.floor_le_floor (by linarith)
  · rw [if_neg hv]
    by_cases hw : 0 ≤ w
    · rw [if_pos hw]
      have h1 : 0 ≤ ⌊-v + 1/2⌋ := Int.floor_nonneg.mpr (by linarith)
      have h2 : 0 ≤ ⌊w + 1/2⌋ := Int.floor_nonneg.mpr (by linarith)
      omega
    · rw [if_neg hw]
      have : ⌊-w + 1/2⌋ ≤ ⌊-v + 1/2⌋ := Int.floor_le_floor (by linarith)
      omega

theorem roundAway_eq_of_near (v : ℚ) (z : ℤ) (h : |v - z| < 1/2) : roundAway v = z := by
  have hn := roundAway_near v
  rw [abs_lt] at h
  rw [abs_le] at hn
  have h1 : ((roundAway v - z : ℤ) : ℚ) < 1 := by push_cast; linarith
  have h2 : (-1 : ℚ) < ((roundAway v - z : ℤ) : ℚ) := by push_cast; linarith
  have h1' : roundAway v - z < 1 := by exact_mod_cast h1
  have h2' : -1 < roundAway v - z := by exact_mod_cast h2
  omega


/-- value of an assembled pattern (combines `fields_of_pack` and `absval_of_decodeAbs`) -/
theorem absval_of_pack (x : UInt64) (s E mant : Nat) (hs : s < 2)
    (hx : x.toNat = s * 2^63 + E * 2^52 + mant) (hm : mant ≤ 2^53)
    (hsub : mant < 2^52 → E = 0) (hfin : E * 2^52 + mant < 2047 * 2^52) :
    isFinite x = true ∧ sgnF x = s ∧ absval x = (mant : ℚ) * 2^((E : Int) - 1074) := by
  obtain ⟨h1, h2, m, e', hdec, hme, _, _⟩ := fields_of_pack x s E mant hs hx hm hsub hfin
  exact ⟨(isFinite_iff x).mpr h2, h1, absval_of_decodeAbs x m e' mant E hdec hme⟩

theorem isNeg_eq_of_sgnF (x a : UInt64) (h : sgnF x = sgnF a) : isNeg x = isNeg a := by
  rw [Bool.eq_iff_iff, isNeg_iff, isNeg_iff, h]

theorem absval_eq (a : UInt64) :
    absval a = if expF a = 0 then (fracF a : ℚ) * 2^(-1074 : Int)
      else ((fracF a + 2^52 : Nat) : ℚ) * 2^((expF a : Int) - 1075) := by
  unfold absval; rw [decodeAbs_eq]; split <;> rfl

/-- Go's `math.Round` returns the nearest integer, ties away from zero (magnitude form). -/
theorem roundHalfAway_abs (a : UInt64) (ha : isFinite a = true) :
    isFinite (roundHalfAway a) = true ∧ isNeg (roundHalfAway a) = isNeg a ∧
    ∃ n : ℕ, absval (roundHalfAway a) = n ∧ roundAway (absval a) = n := by
  have hT := roundHalfAway_toNat a
  have hf := toNat_fields a
  have hE : expF a ≠ 2047 := (isFinite_iff a).mp ha
  have hs2 : sgnF a < 2 := hf.2.1
  have hF : (fracF a : ℚ) < 2^52 := by exact_mod_cast hf.2.2.2
  have hF0 : (0:ℚ) ≤ fracF a := by positivity
  by_cases h1 : expF a < 1023
  · rw [if_pos h1] at hT
    by_cases h2 : expF a = 1022
    · -- [1/2, 1) ↦ 1
      rw [if_pos h2] at hT
      obtain ⟨hfin, hsg, habs⟩ := absval_of_pack (roundHalfAway a) (sgnF a) 1022 (2^52) hs2
        (by rw [hT]; omega) (by norm_num) (by intro h; omega) (by norm_num)
      refine ⟨hfin, isNeg_eq_of_sgnF _ _ hsg, 1, ?_, ?_⟩
      · rw [habs]; norm_num [zpow_neg]
      · have hv : absval a = ((fracF a : ℚ) + 2^52) / 2^53 := by
          rw [absval_eq, if_neg (by omega), h2]; push_cast; norm_num [zpow_neg]; ring
        refine roundAway_nonneg_eq _ 1 (absval_nonneg a) ?_ ?_
        · rw [hv]; push_cast
          have : (1:ℚ)/2 ≤ ((fracF a : ℚ) + 2^52) / 2^53 := by
            rw [div_le_div_iff₀ (by norm_num) (by norm_num)]; nlinarith
          linarith
        · rw [hv]; push_cast
          have : ((fracF a : ℚ) + 2^52) / 2^53 < 1 := by
            rw [div_lt_one (by norm_num)]; linarith
          linarith
    · -- [0, 1/2) ↦ 0
      rw [if_neg h2] at hT
      obtain ⟨hfin, hsg, habs⟩ := absval_of_pack (roundHalfAway a) (sgnF a) 0 0 hs2
        (by rw [hT]; omega) (by norm_num) (by intro _; rfl) (by norm_num)
      refine ⟨hfin, isNeg_eq_of_sgnF _ _ hsg, 0, by rw [habs]; simp, ?_⟩
      have hv : absval a < 1/2 := by
        rw [absval_eq]
        split
        · have : (2:ℚ)^(-1074 : Int) ≤ 2^(-54 : Int) := zpow_le_zpow_right₀ (by norm_num) (by norm_num)
          have h54 : (2:ℚ)^(-54 : Int) = 1 / 2^54 := by norm_num [zpow_neg]
          have hp := two_zpow_pos (-1074)
          calc (fracF a : ℚ) * 2^(-1074 : Int) ≤ 2^52 * 2^(-54 : Int) :=
                mul_le_mul hF.le this hp.le (by norm_num)
            _ < 1/2 := by rw [h54]; norm_num
        · have : (2:ℚ)^((expF a : Int) - 1075) ≤ 2^(-54 : Int) :=
            zpow_le_zpow_right₀ (by norm_num) (by omega)
          have h54 : (2:ℚ)^(-54 : Int) = 1 / 2^54 := by norm_num [zpow_neg]
          have hp := two_zpow_pos ((expF a : Int) - 1075)
          have hm : ((fracF a + 2^52 : Nat) : ℚ) < 2^53 := by push_cast; linarith
          calc ((fracF a + 2^52 : Nat) : ℚ) * 2^((expF a : Int) - 1075)
              < 2^53 * 2^((expF a : Int) - 1075) := mul_lt_mul_of_pos_right hm hp
            _ ≤ 2^53 * 2^(-54 : Int) := mul_le_mul_of_nonneg_left this (by norm_num)
            _ = 1/2 := by rw [h54]; norm_num
      exact roundAway_nonneg_eq _ 0 (absval_nonneg a) (by push_cast; linarith [absval_nonneg a])
        (by push_cast; linarith)
  · rw [if_neg h1] at hT
    by_cases h3 : expF a < 1075
    · -- the rounding case
      rw [if_pos h3] at hT
      obtain ⟨k, hk⟩ : ∃ k, 1075 - expF a = k + 1 := ⟨1074 - expF a, by omega⟩
      have hk1 : 1074 - expF a = k := by omega
      rw [hk, hk1] at hT
      have hk52 : k + 1 ≤ 52 := by omega
      set H := 2^k with hH
      have hP : 2^(k+1) = 2 * H := by rw [Nat.pow_succ]; omega
      have hHpos : 0 < H := Nat.pow_pos (by norm_num)
      set m := fracF a + 2^52 with hm
      have h52 : 2^52 = 2^(52 - (k+1)) * (2 * H) := by rw [← hP, ← Nat.pow_add]; congr 1; omega
      have h63 : 2^63 = 2^(63 - (k+1)) * (2 * H) := by rw [← hP, ← Nat.pow_add]; congr 1; omega
      set n := (m + H) / (2 * H) with hn
      set X := sgnF a * 2^(63 - (k+1)) + (expF a - 1) * 2^(52 - (k+1)) with hX
      have hXP : X * (2 * H) = sgnF a * 2^63 + (expF a - 1) * 2^52 := by
        rw [hX, Nat.add_mul, Nat.mul_assoc, Nat.mul_assoc, ← h52, ← h63]
      have hsplit : a.toNat + H = m + H + X * (2 * H) := by
        rw [hXP, hf.1, hm]; omega
      have hxn : (roundHalfAway a).toNat = sgnF a * 2^63 + (expF a - 1) * 2^52 + n * (2 * H) := by
        rw [hT, hP, hsplit, Nat.add_mul_div_right _ _ (by omega), Nat.add_mul, hXP, ← hn]
        omega
      have hmlt : m < 2^53 := by omega
      have hn_le : n * (2 * H) ≤ 2^53 := by
        have : n < 2^(53 - (k+1)) + 1 := by
          rw [hn, Nat.div_lt_iff_lt_mul (by omega), Nat.add_mul, Nat.one_mul]
          have : 2^53 = 2^(53 - (k+1)) * (2 * H) := by rw [← hP, ← Nat.pow_add]; congr 1; omega
          omega
        have h53 : 2^53 = 2^(53 - (k+1)) * (2 * H) := by rw [← hP, ← Nat.pow_add]; congr 1; omega
        rw [h53]; exact Nat.mul_le_mul_right _ (by omega)
      have hn_ge : 2^52 ≤ n * (2 * H) := by
        have : 2^(52 - (k+1)) ≤ n := by
          rw [hn, Nat.le_div_iff_mul_le (by omega), ← h52]; omega
        calc 2^52 = 2^(52 - (k+1)) * (2 * H) := h52
          _ ≤ n * (2 * H) := Nat.mul_le_mul_right _ this
      obtain ⟨hfin, hsg, habs⟩ := absval_of_pack (roundHalfAway a) (sgnF a) (expF a - 1) (n * (2 * H)) hs2
        hxn hn_le (by intro h; omega) (by omega)
      have hE1 : ((expF a - 1 : Nat) : Int) - 1074 = -((k + 1 : Nat) : Int) := by omega
      have hPq : ((2 * H : Nat) : ℚ) = 2^(k+1) := by rw [← hP]; push_cast; rfl
      have hPpos : (0:ℚ) < 2^(k+1) := by positivity
      refine ⟨hfin, isNeg_eq_of_sgnF _ _ hsg, n, ?_, ?_⟩
      · rw [habs, hE1, zpow_neg, zpow_natCast]; push_cast at hPq ⊢; rw [hPq]; field_simp
      · have hv : absval a = (m : ℚ) / 2^(k+1) := by
          rw [absval_eq, if_neg (by omega)]
          have : ((expF a : Int)) - 1075 = -((k + 1 : Nat) : Int) := by omega
          rw [this, zpow_neg, zpow_natCast]; rfl
        have hdm := Nat.div_add_mod (m + H) (2 * H)
        have hmod := Nat.mod_lt (m + H) (by omega : 0 < 2 * H)
        rw [← hn] at hdm
        have hlo : ((n * (2 * H) : Nat) : ℚ) ≤ ((m + H : Nat) : ℚ) := by
          exact_mod_cast (by rw [Nat.mul_comm]; omega : n * (2 * H) ≤ m + H)
        have hhi : ((m + H : Nat) : ℚ) < (((n + 1) * (2 * H) : Nat) : ℚ) := by
          exact_mod_cast (by rw [Nat.add_mul, Nat.mul_comm n]; omega : m + H < (n + 1) * (2 * H))
        have hHq : (H : ℚ) = 2^(k+1) / 2 := by
          have : ((2 * H : Nat) : ℚ) = 2 * (H : ℚ) := by push_cast; ring
          rw [← hPq, this]; ring
        push_cast at hlo hhi hPq
        refine roundAway_nonneg_eq _ n (absval_nonneg a) ?_ ?_
        · rw [hv, ← sub_le_iff_le_add, le_div_iff₀ hPpos]
          rw [hPq] at hlo; linarith
        · rw [hv, ← lt_sub_iff_add_lt, div_lt_iff₀ hPpos]
          rw [hPq] at hhi; linarith
    · -- already an integer
      rw [if_neg h3] at hT
      have hx : roundHalfAway a = a := by rw [u64_eq_iff, hT]
      rw [hx]
      refine ⟨ha, rfl, (fracF a + 2^52) * 2^(expF a - 1075), ?_, ?_⟩
      · rw [absval_eq, if_neg (by omega)]
        have : (expF a : Int) - 1075 = ((expF a - 1075 : Nat) : Int) := by omega
        rw [this, zpow_natCast]; push_cast; ring
      · have : absval a = (((fracF a + 2^52) * 2^(expF a - 1075) : Nat) : ℚ) := by
          rw [absval_eq, if_neg (by omega)]
          have : (expF a : Int) - 1075 = ((expF a - 1075 : Nat) : Int) := by omega
          rw [this, zpow_natCast]; push_cast; ring
        rw [this, roundAway_natCast]


theorem sgnQ_eq_of_isNeg (x a : UInt64) (h : isNeg x = isNeg a) : sgnQ x = sgnQ a := by
  unfold sgnQ; rw [h]

theorem roundAway_sgn_mul (a : UInt64) (v : ℚ) :
    ((roundAway (sgnQ a * v) : ℤ) : ℚ) = sgnQ a * (roundAway v : ℚ) := by
  unfold sgnQ
  split
  · rw [show (-1 : ℚ) * v = -v by ring, roundAway_neg]; push_cast; ring
  · rw [one_mul, one_mul]

/-- **`math.Round`**: for a finite `a` the result is finite, keeps the sign bit, and its value is the
integer nearest to the value of `a`, ties away from zero. -/
theorem roundHalfAway_spec (a : UInt64) (ha : isFinite a = true) :
    isFinite (roundHalfAway a) = true ∧ isNeg (roundHalfAway a) = isNeg a ∧
    fval (roundHalfAway a) = (roundAway (fval a) : ℚ) := by
  obtain ⟨h1, h2, n, h3, h4⟩ := roundHalfAway_abs a ha
  refine ⟨h1, h2, ?_⟩
  unfold fval
  rw [roundAway_sgn_mul, sgnQ_eq_of_isNeg _ _ h2, h3, h4]; push_cast; rfl

/-- `truncToInt` of an integer-valued finite float is that integer. -/
theorem truncToInt_of_int (a : UInt64) (ha : isFinite a = true) (z : ℤ) (h : fval a = z) :
    truncToInt a = some z := by
  unfold truncToInt
  rw [if_pos ha]
  simp only []
  have habs : absval a = (z.natAbs : ℚ) := by
    rw [← abs_fval, h, Nat.cast_natAbs]; push_cast; rfl
  set m := (decodeAbs a).1 with hm
  set e := (decodeAbs a).2 with he
  have hdec : decodeAbs a = (m, e) := rfl
  have hv : absval a = (m : ℚ) * 2^e := rfl
  have ht : (if e ≥ 0 then m <<< e.toNat else m >>> (-e).toNat) = z.natAbs := by
    by_cases hpos : e ≥ 0
    · rw [if_pos hpos, Nat.shiftLeft_eq]
      have : e = (e.toNat : Int) := by omega
      rw [this, zpow_natCast] at hv
      rw [hv] at habs
      exact_mod_cast habs
    · rw [if_neg hpos, Nat.shiftRight_eq_div_pow]
      have : e = -((-e).toNat : Int) := by omega
      rw [this, zpow_neg, zpow_natCast] at hv
      rw [hv] at habs
      have hp : (0:ℚ) < 2^(-e).toNat := by positivity
      have : (m : ℚ) = (z.natAbs : ℚ) * 2^(-e).toNat := by
        field_simp at habs; linarith
      have : m = z.natAbs * 2^(-e).toNat := by exact_mod_cast this
      rw [this, Nat.mul_div_cancel _ (Nat.pow_pos (by norm_num))]
  rw [ht]
  congr 1
  have hfv : fval a = sgnQ a * absval a := rfl
  rw [hfv, habs] at h
  unfold sgnQ at h
  by_cases hn : isNeg a = true
  · rw [if_pos hn] at h ⊢
    have : ((-(z.natAbs : ℤ) : ℤ) : ℚ) = (z : ℚ) := by rw [Int.cast_neg, Int.cast_natCast]; linarith
    exact Int.cast_injective (α := ℚ) this
  · rw [if_neg hn] at h ⊢
    have : (((z.natAbs : ℤ) : ℤ) : ℚ) = (z : ℚ) := by rw [Int.cast_natCast]; linarith
    exact Int.cast_injective (α := ℚ) this

end Bch.Proofs.F64
