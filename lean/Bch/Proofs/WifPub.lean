import Bch.Model.WifPub
/-! Length facts about the secp256k1 serialisations of `Bch/Prim/Secp256k1.lean` (non-vacuity of the laws
assumed by `C06_pubkey`). -/
namespace Bch.Proofs.WifPub
open Bch Bch.Model.Wif Bch.Prim

theorem length_natToBytesAux (len x : Nat) (acc : List UInt8) :
    (Secp.natToBytesAux len x acc).length = len + acc.length := by
  induction len generalizing x acc with
  | zero => simp [Secp.natToBytesAux]
  | succ n ih => simp [Secp.natToBytesAux, ih]; omega

theorem length_natToBytes32 (x : Nat) : (Secp.natToBytes32 x).length = 32 := by
  simp [Secp.natToBytes32, length_natToBytesAux]

/-- `secp.mulG` never returns the symbolic point at infinity -/
theorem secp_mulG_aff (k : Nat) : ∃ x y, secp.mulG k = .aff x y := by
  show ∃ x y, (match Secp.mulG k with | .inf => Secp.Point.aff 0 0 | q => q) = .aff x y
  cases Secp.mulG k with
  | inf => exact ⟨0, 0, rfl⟩
  | aff x y => exact ⟨x, y, rfl⟩

theorem secp_serC_length (k : Nat) : (secp.serC (secp.mulG k)).length = 33 := by
  obtain ⟨x, y, h⟩ := secp_mulG_aff k
  rw [h]; simp [secp, Secp.serCompressed, length_natToBytes32]

theorem secp_serU_length (k : Nat) : (secp.serU (secp.mulG k)).length = 65 := by
  obtain ⟨x, y, h⟩ := secp_mulG_aff k
  rw [h]; simp [secp, Secp.serUncompressed, length_natToBytes32]

end Bch.Proofs.WifPub
