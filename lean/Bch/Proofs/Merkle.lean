import Bch.Model.Merkle
/-
Helper lemmas for C11 / C12 (partial merkle trees): tree arithmetic, the specification-side
`matchedList`, the parser-style twin `extractP` of the Go-shaped `traverse`, the round trip on the twin,
the relation twin <-> model, branch witnesses (`foldBranch`), flag packing.
-/
set_option linter.unusedSectionVars false

namespace Bch.Proofs.Merkle
open Bch.Model.Merkle

variable {H : Type}

/-! ## tree arithmetic -/

theorem lt_width_iff (n h k : Nat) : k < width n h ↔ k * 2^h < n := by
  unfold width
  have hd : 0 < 2^h := Nat.pow_pos (by decide)
  generalize 2^h = d at *
  rw [Nat.lt_iff_add_one_le, Nat.le_div_iff_mul_le hd, Nat.add_mul]
  omega

theorem width_zero (n : Nat) : width n 0 = n := by simp [width]

theorem width_pos {n : Nat} (hn : 1 ≤ n) (h : Nat) : 1 ≤ width n h := by
  have := (lt_width_iff n h 0).2 (by omega)
  omega

theorem width_le_one_iff (n h : Nat) : width n h ≤ 1 ↔ n ≤ 2^h := by
  have := lt_width_iff n h 1
  omega

theorem width_succ_le (n h : Nat) : width n (h+1) ≤ width n h := by
  apply Nat.le_of_not_lt
  intro hlt
  have h1 := (lt_width_iff n (h+1) (width n h)).1 hlt
  have h2 := lt_width_iff n h (width n h)
  have : 2^(h+1) = 2 * 2^h := by rw [Nat.pow_succ, Nat.mul_comm]
  rw [this] at h1
  have : width n h * (2 * 2^h) = 2 * (width n h * 2^h) := by ac_rfl
  omega

theorem child_lt_width {n h pos : Nat} (hp : pos < width n (h+1)) : 2*pos < width n h := by
  rw [lt_width_iff] at *
  have : pos * 2^(h+1) = 2 * pos * 2^h := by rw [Nat.pow_succ]; ac_rfl
  omega

/-! ## height -/

theorem heightLoop_spec (n : Nat) : ∀ fuel h,
    h ≤ heightLoop n fuel h ∧ heightLoop n fuel h ≤ h + fuel ∧
    (∀ k, h ≤ k → k < heightLoop n fuel h → 1 < width n k) ∧
    (heightLoop n fuel h < h + fuel → width n (heightLoop n fuel h) ≤ 1) := by
  intro fuel
  induction fuel with
  | zero =>
    intro h
    simp only [heightLoop]
    exact ⟨Nat.le_refl _, by omega, fun k a b => by omega, fun hh => by omega⟩
  | succ fuel ih =>
    intro h
    unfold heightLoop
    by_cases hw : width n h > 1
    · simp only [hw, if_true]
      obtain ⟨a, b, c, d⟩ := ih (h+1)
      refine ⟨by omega, by omega, ?_, fun hh => d (by omega)⟩
      intro k hk1 hk2
      by_cases hk : k = h
      · subst hk; exact hw
      · exact c k (by omega) hk2
    · simp only [hw, if_false]
      refine ⟨by omega, by omega, fun k a b => by omega, fun _ => by omega⟩

theorem height_le (n : Nat) : height n ≤ 33 := by
  have := (heightLoop_spec n 33 0).2.1
  simpa [height] using this

theorem width_height {n : Nat} (h1 : 1 ≤ n) (h2 : n ≤ 2^33) : width n (height n) = 1 := by
  obtain ⟨-, b, -, d⟩ := heightLoop_spec n 33 0
  have hp := width_pos h1 (height n)
  unfold height at *
  by_cases hh : heightLoop n 33 0 < 0 + 33
  · have := d hh; omega
  · have : heightLoop n 33 0 = 33 := by omega
    rw [this] at hp ⊢
    have := (width_le_one_iff n 33).2 h2
    omega

theorem height_least (n k : Nat) (hk : k < height n) : 1 < width n k :=
  (heightLoop_spec n 33 0).2.2.1 k (Nat.zero_le _) hk

/-! ## leaves below a node, matched list, `isParentGo` -/

/-- indices of the real leaves below node `(h,pos)` -/
def leafRange (n h pos : Nat) : List Nat :=
  List.range' (pos * 2^h) (min ((pos+1) * 2^h) n - pos * 2^h)

theorem mem_leafRange {n h pos i : Nat} :
    i ∈ leafRange n h pos ↔ pos * 2^h ≤ i ∧ i < (pos+1) * 2^h ∧ i < n := by
  unfold leafRange
  rw [List.mem_range'_1]
  omega

theorem leafRange_zero (n pos : Nat) : leafRange n 0 pos = if pos < n then [pos] else [] := by
  unfold leafRange
  simp only [Nat.pow_zero, Nat.mul_one]
  by_cases h : pos < n
  · have : min (pos+1) n - pos = 1 := by omega
    simp [this, h]
  · have : min (pos+1) n - pos = 0 := by omega
    simp [this, h]

theorem leafRange_succ (n h pos : Nat) :
    leafRange n (h+1) pos =
      leafRange n h (2*pos) ++ (if 2*pos+1 < width n h then leafRange n h (2*pos+1) else []) := by
  unfold leafRange
  have hd : 0 < 2^h := Nat.pow_pos (by decide)
  have e1 : pos * 2^(h+1) = 2 * (pos * 2^h) := by rw [Nat.pow_succ]; ac_rfl
  have e2 : (pos+1) * 2^(h+1) = 2 * (pos * 2^h) + 2 * 2^h := by
    rw [Nat.pow_succ, Nat.add_mul, Nat.one_mul]
    have : pos * (2^h * 2) = 2 * (pos * 2^h) := by ac_rfl
    omega
  have e3 : 2 * pos * 2^h = 2 * (pos * 2^h) := by ac_rfl
  have e4 : (2*pos+1) * 2^h = 2 * (pos * 2^h) + 2^h := by rw [Nat.add_mul, e3, Nat.one_mul]
  have e5 : (2*pos+1+1) * 2^h = 2 * (pos * 2^h) + 2 * 2^h := by
    rw [Nat.add_mul, e4, Nat.one_mul]; omega
  simp only [lt_width_iff, e1, e2, e3, e4, e5]
  generalize pos * 2^h = t
  generalize 2^h = d at hd
  by_cases hc : 2 * t + d < n
  · simp only [hc, if_true]
    have a1 : min (2 * t + d) n - 2 * t = d := by omega
    have a2 : min (2 * t + 2 * d) n - 2 * t = d + (min (2 * t + 2 * d) n - (2 * t + d)) := by omega
    rw [a1, a2, ← List.range'_append_1]
  · simp only [hc, if_false, List.append_nil]
    congr 1
    omega

/-- the matched leaves below node `(h,pos)` with their positions, in increasing position -/
def matchedList (leaves : Nat → H) (m : Nat → Bool) (n h pos : Nat) : List (Nat × H) :=
  ((leafRange n h pos).filter m).map (fun i => (i, leaves i))

theorem matchedList_zero (leaves : Nat → H) (m : Nat → Bool) (n pos : Nat) :
    matchedList leaves m n 0 pos = if isParentGo m n 0 pos then [(pos, leaves pos)] else [] := by
  have hp : isParentGo m n 0 pos = (leafRange n 0 pos).any m := rfl
  unfold matchedList
  rw [hp, leafRange_zero]
  by_cases h : pos < n <;> by_cases hm : m pos = true <;> simp [h, hm]

theorem matchedList_succ (leaves : Nat → H) (m : Nat → Bool) (n h pos : Nat) :
    matchedList leaves m n (h+1) pos =
      matchedList leaves m n h (2*pos) ++
        (if 2*pos+1 < width n h then matchedList leaves m n h (2*pos+1) else []) := by
  unfold matchedList
  rw [leafRange_succ]
  by_cases hc : 2*pos+1 < width n h <;> simp [hc]

theorem isParentGo_eq_any (m : Nat → Bool) (n h pos : Nat) :
    isParentGo m n h pos = (leafRange n h pos).any m := rfl

theorem isParentGo_iff (m : Nat → Bool) (n h pos : Nat) :
    isParentGo m n h pos = true ↔
      ∃ i, pos * 2^h ≤ i ∧ i < (pos+1) * 2^h ∧ i < n ∧ m i = true := by
  rw [isParentGo_eq_any, List.any_eq_true]
  constructor
  · rintro ⟨i, hi, hm⟩
    rw [mem_leafRange] at hi
    exact ⟨i, hi.1, hi.2.1, hi.2.2, hm⟩
  · rintro ⟨i, a, b, c, hm⟩
    exact ⟨i, mem_leafRange.2 ⟨a, b, c⟩, hm⟩

theorem isParentGo_zero (m : Nat → Bool) (n pos : Nat) :
    isParentGo m n 0 pos = (decide (pos < n) && m pos) := by
  rw [isParentGo_eq_any, leafRange_zero]
  by_cases h : pos < n <;> simp [h]

theorem isParentGo_succ (m : Nat → Bool) (n h pos : Nat) :
    isParentGo m n (h+1) pos =
      (isParentGo m n h (2*pos) || (decide (2*pos+1 < width n h) && isParentGo m n h (2*pos+1))) := by
  simp only [isParentGo_eq_any, leafRange_succ]
  by_cases hc : 2*pos+1 < width n h <;> simp [hc]

theorem matchedList_eq_nil_of_not_parent {leaves : Nat → H} {m : Nat → Bool} {n h pos : Nat}
    (hp : ¬ isParentGo m n h pos = true) : matchedList leaves m n h pos = [] := by
  rw [isParentGo_eq_any] at hp
  unfold matchedList
  simp only [List.map_eq_nil_iff, List.filter_eq_nil_iff]
  intro a ha hm
  exact hp (List.any_eq_true.2 ⟨a, ha, hm⟩)

theorem isParentGo_eq_not_isEmpty (leaves : Nat → H) (m : Nat → Bool) (n h pos : Nat) :
    isParentGo m n h pos = !(matchedList leaves m n h pos).isEmpty := by
  by_cases hp : isParentGo m n h pos = true
  · rw [hp]
    obtain ⟨i, hi, hm⟩ := List.any_eq_true.1 ((isParentGo_eq_any m n h pos) ▸ hp)
    have : (i, leaves i) ∈ matchedList leaves m n h pos := by
      unfold matchedList
      exact List.mem_map.2 ⟨i, List.mem_filter.2 ⟨hi, hm⟩, rfl⟩
    cases hl : matchedList leaves m n h pos with
    | nil => rw [hl] at this; cases this
    | cons a l => rfl
  · rw [matchedList_eq_nil_of_not_parent hp]
    simpa using hp

/-- at the root (width 1) the leaf range is everything -/
theorem leafRange_root {n h : Nat} (hw : width n h ≤ 1) : leafRange n h 0 = List.range n := by
  have := (width_le_one_iff n h).1 hw
  unfold leafRange
  rw [List.range_eq_range']
  congr 1
  simp
  omega

theorem matchedList_root (leaves : Nat → H) (m : Nat → Bool) {n h : Nat} (hw : width n h ≤ 1) :
    matchedList leaves m n h 0 = ((List.range n).filter m).map (fun i => (i, leaves i)) := by
  unfold matchedList
  rw [leafRange_root hw]


/-! ## the parser-style twin of `traverse` -/

section Parser
variable [DecidableEq H]

/-- the three ways a traversal can fail (the first fault met in depth-first order) -/
inductive Fault where
  | outOfBits | outOfHashes | equalChildren
  deriving DecidableEq, Repr

/-- Parser-style twin of `traverse`: consumes a prefix of the bit and hash streams, returns the node hash,
the matched `(position, hash)` pairs and the unconsumed suffixes, aborting at the first fault. -/
def extractP (comb : H → H → H) (n : Nat) :
    Nat → Nat → List Bool → List H → Except Fault (H × List (Nat × H) × List Bool × List H)
  | _, _, [], _ => .error .outOfBits
  | 0, pos, p :: bits, hs =>
    match hs with
    | [] => .error .outOfHashes
    | x :: hs => .ok (x, if p then [(pos, x)] else [], bits, hs)
  | h+1, pos, p :: bits, hs =>
    if p then
      match extractP comb n h (2*pos) bits hs with
      | .error e => .error e
      | .ok (l, ml, bits, hs) =>
        if 2*pos+1 < width n h then
          match extractP comb n h (2*pos+1) bits hs with
          | .error e => .error e
          | .ok (r, mr, bits, hs) =>
            if r = l then .error .equalChildren else .ok (comb l r, ml ++ mr, bits, hs)
        else .ok (comb l l, ml, bits, hs)
    else
      match hs with
      | [] => .error .outOfHashes
      | x :: hs => .ok (x, [], bits, hs)

/-- no *traversed* inner node (one with a matched leaf below it) at or below `(h,pos)` that has a real
right child has two equal children -/
def noEqSib (comb : H → H → H) (leaves : Nat → H) (m : Nat → Bool) (n : Nat) : Nat → Nat → Prop
  | 0, _ => True
  | h+1, pos =>
    isParentGo m n (h+1) pos = true →
      noEqSib comb leaves m n h (2*pos) ∧
      (2*pos+1 < width n h →
        noEqSib comb leaves m n h (2*pos+1) ∧
        calcHash comb leaves n h (2*pos+1) ≠ calcHash comb leaves n h (2*pos))

/-- round trip on the twin, generalised over the unconsumed suffixes -/
theorem extractP_build (comb : H → H → H) (leaves : Nat → H) (m : Nat → Bool) (n : Nat) :
    ∀ h pos bs xs, noEqSib comb leaves m n h pos →
      extractP comb n h pos ((build comb leaves m n h pos).1 ++ bs)
          ((build comb leaves m n h pos).2 ++ xs)
        = .ok (calcHash comb leaves n h pos, matchedList leaves m n h pos, bs, xs) := by
  intro h
  induction h with
  | zero =>
    intro pos bs xs _
    simp [build, extractP, calcHash, matchedList_zero]
  | succ h ih =>
    intro pos bs xs hne
    unfold build
    by_cases hp : isParentGo m n (h+1) pos = true
    · obtain ⟨hl, hr⟩ := hne hp
      simp only [hp, if_true]
      by_cases hw : 2*pos+1 < width n h
      · obtain ⟨hr1, hr2⟩ := hr hw
        simp only [hw, if_true]
        have e1 := ih (2*pos) ((build comb leaves m n h (2*pos+1)).1 ++ bs)
                      ((build comb leaves m n h (2*pos+1)).2 ++ xs) hl
        have e2 := ih (2*pos+1) bs xs hr1
        simp only [List.cons_append, List.append_assoc, extractP, if_true, e1, hw, e2, hr2,
          if_false, calcHash, matchedList_succ]
      · simp only [hw, if_false]
        have e1 := ih (2*pos) bs xs hl
        simp only [List.cons_append, extractP, if_true, e1, hw, if_false, calcHash, matchedList_succ,
          List.append_nil]
    · simp only [hp]
      simp [extractP, matchedList_eq_nil_of_not_parent hp]

/-- converse: if a traversed node has equal children the twin rejects what `build` emits -/
theorem extractP_build_error (comb : H → H → H) (leaves : Nat → H) (m : Nat → Bool) (n : Nat) :
    ∀ h pos bs xs, ¬ noEqSib comb leaves m n h pos →
      extractP comb n h pos ((build comb leaves m n h pos).1 ++ bs)
          ((build comb leaves m n h pos).2 ++ xs) = .error .equalChildren := by
  intro h
  induction h with
  | zero => intro pos bs xs hne; exact absurd trivial hne
  | succ h ih =>
    intro pos bs xs hne
    unfold build
    by_cases hp : isParentGo m n (h+1) pos = true
    · simp only [hp, if_true]
      by_cases hl : noEqSib comb leaves m n h (2*pos)
      · by_cases hw : 2*pos+1 < width n h
        · simp only [hw, if_true]
          have e1 := extractP_build comb leaves m n h (2*pos)
                      ((build comb leaves m n h (2*pos+1)).1 ++ bs)
                      ((build comb leaves m n h (2*pos+1)).2 ++ xs) hl
          by_cases hr1 : noEqSib comb leaves m n h (2*pos+1)
          · have e2 := extractP_build comb leaves m n h (2*pos+1) bs xs hr1
            have hr2 : calcHash comb leaves n h (2*pos+1) = calcHash comb leaves n h (2*pos) := by
              apply Classical.byContradiction
              intro hc
              exact hne (fun _ => ⟨hl, fun _ => ⟨hr1, hc⟩⟩)
            simp only [List.cons_append, List.append_assoc, extractP, if_true, e1, hw, e2, hr2]
          · have e2 := ih (2*pos+1) bs xs hr1
            simp only [List.cons_append, List.append_assoc, extractP, if_true, e1, hw, e2]
        · exact absurd (fun _ => ⟨hl, fun hw' => absurd hw' hw⟩) hne
      · by_cases hw : 2*pos+1 < width n h
        · simp only [hw, if_true]
          have e1 := ih (2*pos) ((build comb leaves m n h (2*pos+1)).1 ++ bs)
                      ((build comb leaves m n h (2*pos+1)).2 ++ xs) hl
          simp only [List.cons_append, List.append_assoc, extractP, if_true, e1]
        · simp only [hw, if_false]
          have e1 := ih (2*pos) bs xs hl
          simp only [List.cons_append, extractP, if_true, e1]
    · exact absurd (fun hp' => absurd hp' hp) hne

/-! ### sizes of what `build` emits -/

theorem build_succ (comb : H → H → H) (leaves : Nat → H) (m : Nat → Bool) (n h pos : Nat) :
    build comb leaves m n (h+1) pos =
      if isParentGo m n (h+1) pos then
        if 2*pos+1 < width n h then
          (true :: ((build comb leaves m n h (2*pos)).1 ++ (build comb leaves m n h (2*pos+1)).1),
            (build comb leaves m n h (2*pos)).2 ++ (build comb leaves m n h (2*pos+1)).2)
        else (true :: (build comb leaves m n h (2*pos)).1, (build comb leaves m n h (2*pos)).2)
      else ([false], [calcHash comb leaves n (h+1) pos]) := by
  rw [build]

theorem build_hashes_le_bits (comb : H → H → H) (leaves : Nat → H) (m : Nat → Bool) (n : Nat) :
    ∀ h pos, (build comb leaves m n h pos).2.length ≤ (build comb leaves m n h pos).1.length := by
  intro h
  induction h with
  | zero => intro pos; simp [build]
  | succ h ih =>
    intro pos
    rw [build_succ]
    have a := ih (2*pos)
    have b := ih (2*pos+1)
    split
    · split
      · simp only [List.length_cons, List.length_append]; omega
      · simp only [List.length_cons]; omega
    · simp

theorem build_hashes_le_leaves (comb : H → H → H) (leaves : Nat → H) (m : Nat → Bool) (n : Nat) :
    ∀ h pos, pos * 2^h < n →
      (build comb leaves m n h pos).2.length ≤ min ((pos+1) * 2^h) n - pos * 2^h := by
  intro h
  induction h with
  | zero => intro pos hp; simp [build]; omega
  | succ h ih =>
    intro pos hp
    have hd : 0 < 2^h := Nat.pow_pos (by decide)
    have e1 : pos * 2^(h+1) = 2 * (pos * 2^h) := by rw [Nat.pow_succ]; ac_rfl
    have e2 : (pos+1) * 2^(h+1) = 2 * (pos * 2^h) + 2 * 2^h := by
      rw [Nat.pow_succ, Nat.add_mul, Nat.one_mul]
      have : pos * (2^h * 2) = 2 * (pos * 2^h) := by ac_rfl
      omega
    have e3 : 2 * pos * 2^h = 2 * (pos * 2^h) := by ac_rfl
    have e4 : (2*pos+1) * 2^h = 2 * (pos * 2^h) + 2^h := by rw [Nat.add_mul, e3, Nat.one_mul]
    have e5 : (2*pos+1+1) * 2^h = 2 * (pos * 2^h) + 2 * 2^h := by
      rw [Nat.add_mul, e4, Nat.one_mul]; omega
    have a := ih (2*pos)
    have b := ih (2*pos+1)
    rw [e3, e4] at a
    rw [e4, e5] at b
    rw [e1] at hp
    rw [build_succ, e1, e2]
    split
    · split
      · rename_i hw
        rw [lt_width_iff, e4] at hw
        simp only [List.length_append]
        have a' := a (by omega)
        have b' := b hw
        omega
      · rename_i hw
        rw [lt_width_iff, e4] at hw
        have a' := a (by omega)
        dsimp only
        omega
    · simp only [List.length_cons, List.length_nil]
      omega

end Parser

/-! ## equations for the Go-shaped `traverse` -/

section Traverse
variable [DecidableEq H]
variable (comb : H → H → H) (zero : H) (n : Nat) (bits : Array Bool) (hashes : Array H)

theorem traverse_oob (h pos : Nat) (st : Ext H) (hb : bits.size ≤ st.bitsUsed) :
    traverse comb zero n bits hashes h pos st = (zero, { st with bad := true }) := by
  rw [traverse]; simp [hb]

theorem traverse_zero (pos : Nat) (st : Ext H) (hb : st.bitsUsed < bits.size) :
    traverse comb zero n bits hashes 0 pos st =
      if hashes.size ≤ st.hashesUsed then
        (zero, { st with bitsUsed := st.bitsUsed + 1, bad := true })
      else
        (hashes.getD st.hashesUsed zero,
          if bits.getD st.bitsUsed false then
            { st with bitsUsed := st.bitsUsed + 1, hashesUsed := st.hashesUsed + 1,
                      matchedHashes := st.matchedHashes ++ [hashes.getD st.hashesUsed zero],
                      matchedItems := st.matchedItems ++ [pos] }
          else { st with bitsUsed := st.bitsUsed + 1, hashesUsed := st.hashesUsed + 1 }) := by
  rw [traverse]; simp [Nat.not_le.2 hb]

theorem traverse_succ_false (h pos : Nat) (st : Ext H) (hb : st.bitsUsed < bits.size)
    (hp : bits.getD st.bitsUsed false = false) :
    traverse comb zero n bits hashes (h+1) pos st =
      if hashes.size ≤ st.hashesUsed then
        (zero, { st with bitsUsed := st.bitsUsed + 1, bad := true })
      else
        (hashes.getD st.hashesUsed zero,
          { st with bitsUsed := st.bitsUsed + 1, hashesUsed := st.hashesUsed + 1 }) := by
  rw [traverse]; simp [Nat.not_le.2 hb, hp]

theorem traverse_succ_true (h pos : Nat) (st : Ext H) (hb : st.bitsUsed < bits.size)
    (hp : bits.getD st.bitsUsed false = true) :
    traverse comb zero n bits hashes (h+1) pos st =
      if 2*pos+1 < width n h then
        (comb (traverse comb zero n bits hashes h (2*pos) { st with bitsUsed := st.bitsUsed + 1 }).1
            (traverse comb zero n bits hashes h (2*pos+1)
              (traverse comb zero n bits hashes h (2*pos) { st with bitsUsed := st.bitsUsed + 1 }).2).1,
          if (traverse comb zero n bits hashes h (2*pos+1)
              (traverse comb zero n bits hashes h (2*pos) { st with bitsUsed := st.bitsUsed + 1 }).2).1
              = (traverse comb zero n bits hashes h (2*pos) { st with bitsUsed := st.bitsUsed + 1 }).1 then
            { (traverse comb zero n bits hashes h (2*pos+1)
              (traverse comb zero n bits hashes h (2*pos) { st with bitsUsed := st.bitsUsed + 1 }).2).2
              with bad := true }
          else (traverse comb zero n bits hashes h (2*pos+1)
              (traverse comb zero n bits hashes h (2*pos) { st with bitsUsed := st.bitsUsed + 1 }).2).2)
      else
        (comb (traverse comb zero n bits hashes h (2*pos) { st with bitsUsed := st.bitsUsed + 1 }).1
            (traverse comb zero n bits hashes h (2*pos) { st with bitsUsed := st.bitsUsed + 1 }).1,
          (traverse comb zero n bits hashes h (2*pos) { st with bitsUsed := st.bitsUsed + 1 }).2) := by
  rw [traverse]; simp [Nat.not_le.2 hb, hp]

/-- the `bad` latch is never cleared -/
theorem traverse_bad_mono : ∀ (h pos : Nat) (st : Ext H), st.bad = true →
    (traverse comb zero n bits hashes h pos st).2.bad = true := by
  intro h
  induction h with
  | zero =>
    intro pos st hbad
    by_cases hb : st.bitsUsed < bits.size
    · rw [traverse_zero _ _ _ _ _ _ _ hb]
      split
      · rfl
      · dsimp only; split <;> exact hbad
    · rw [traverse_oob _ _ _ _ _ _ _ _ (Nat.le_of_not_lt hb)]
  | succ h ih =>
    intro pos st hbad
    by_cases hb : st.bitsUsed < bits.size
    · by_cases hp : bits.getD st.bitsUsed false = true
      · rw [traverse_succ_true _ _ _ _ _ _ _ _ hb hp]
        have h1 := ih (2*pos) { st with bitsUsed := st.bitsUsed + 1 } hbad
        have h2 := ih (2*pos+1) _ h1
        split
        · dsimp only; split
          · rfl
          · exact h2
        · exact h1
      · rw [traverse_succ_false _ _ _ _ _ _ _ _ hb (by simpa using hp)]
        split
        · rfl
        · exact hbad
    · rw [traverse_oob _ _ _ _ _ _ _ _ (Nat.le_of_not_lt hb)]

end Traverse

/-! ## `traverse` (cursors + latch) versus `extractP` (suffixes + abort) -/

section Relate
variable [DecidableEq H]

/-- the cursor state after a successful parse that started in `st` -/
def after (st : Ext H) (bu hu : Nat) (ms : List (Nat × H)) : Ext H :=
  { bitsUsed := bu, hashesUsed := hu, bad := st.bad,
    matchedHashes := st.matchedHashes ++ ms.map Prod.snd,
    matchedItems := st.matchedItems ++ ms.map Prod.fst }

theorem getD_toArray_of_lt {α : Type} (l : List α) (i : Nat) (d : α) (hi : i < l.length) :
    l.toArray.getD i d = l[i] := by
  simp [Array.getD, hi]

variable (comb : H → H → H) (zero : H) (n : Nat) (bl : List Bool) (hl : List H)

theorem extractP_nil (h pos : Nat) (hs : List H) :
    extractP comb n h pos [] hs = .error .outOfBits := by
  cases h <;> rfl

/-- success of the parser from the current cursors ⇒ `traverse` returns the same hash, advances the cursors
to the parser's suffixes, appends the parser's matches and leaves `bad` untouched -/
theorem traverse_of_extractP_ok : ∀ (h pos : Nat) (st : Ext H) r ms bs' hs',
    extractP comb n h pos (bl.drop st.bitsUsed) (hl.drop st.hashesUsed) = .ok (r, ms, bs', hs') →
    ∃ bu hu, st.bitsUsed < bu ∧ bu ≤ bl.length ∧ st.hashesUsed ≤ hu ∧ hu ≤ hl.length ∧
      bs' = bl.drop bu ∧ hs' = hl.drop hu ∧
      traverse comb zero n bl.toArray hl.toArray h pos st = (r, after st bu hu ms) := by
  intro h
  induction h with
  | zero =>
    intro pos st r ms bs' hs' he
    by_cases hb : st.bitsUsed < bl.length
    · rw [List.drop_eq_getElem_cons hb] at he
      by_cases hh : st.hashesUsed < hl.length
      · rw [List.drop_eq_getElem_cons hh] at he
        simp only [extractP, Except.ok.injEq, Prod.mk.injEq] at he
        obtain ⟨rfl, rfl, rfl, rfl⟩ := he
        refine ⟨st.bitsUsed + 1, st.hashesUsed + 1, by omega, by omega, by omega, by omega, rfl, rfl, ?_⟩
        rw [traverse_zero _ _ _ _ _ _ _ (by simpa using hb)]
        simp only [List.size_toArray, Nat.not_le.2 hh, if_false, getD_toArray_of_lt _ _ _ hh,
          getD_toArray_of_lt _ _ _ hb]
        by_cases hp : bl[st.bitsUsed] = true <;> simp [hp, after]
      · rw [List.drop_eq_nil_of_le (Nat.le_of_not_lt hh)] at he
        simp [extractP] at he
    · rw [List.drop_eq_nil_of_le (Nat.le_of_not_lt hb), extractP_nil] at he
      cases he
  | succ h ih =>
    intro pos st r ms bs' hs' he
    by_cases hb : st.bitsUsed < bl.length
    · rw [List.drop_eq_getElem_cons hb] at he
      have hb' : st.bitsUsed < bl.toArray.size := by simpa using hb
      by_cases hp : bl[st.bitsUsed] = true
      · have hp' : bl.toArray.getD st.bitsUsed false = true := by
          rw [getD_toArray_of_lt _ _ _ hb]; exact hp
        rw [traverse_succ_true _ _ _ _ _ _ _ _ hb' hp']
        simp only [extractP, hp, if_true] at he
        have ih1 := ih (2*pos) { st with bitsUsed := st.bitsUsed + 1 }
        cases e1 : extractP comb n h (2*pos) (bl.drop (st.bitsUsed+1)) (hl.drop st.hashesUsed) with
        | error e => simp [e1] at he
        | ok v1 =>
          obtain ⟨l, ml, b1, h1⟩ := v1
          simp only [e1] at he
          obtain ⟨bu1, hu1, a1, a2, a3, a4, rfl, rfl, t1⟩ := ih1 l ml b1 h1 e1
          dsimp only at a1 a3
          by_cases hw : 2*pos+1 < width n h
          · simp only [hw, if_true] at he ⊢
            have ih2 := ih (2*pos+1) (after { st with bitsUsed := st.bitsUsed + 1 } bu1 hu1 ml)
            cases e2 : extractP comb n h (2*pos+1) (bl.drop bu1) (hl.drop hu1) with
            | error e => simp [e2] at he
            | ok v2 =>
              obtain ⟨rr, mr, b2, h2⟩ := v2
              simp only [e2] at he
              obtain ⟨bu2, hu2, c1, c2, c3, c4, rfl, rfl, t2⟩ := ih2 rr mr b2 h2 e2
              dsimp only [after] at c1 c3
              by_cases heq : rr = l
              · simp [heq] at he
              · simp only [heq, if_false, Except.ok.injEq, Prod.mk.injEq] at he
                obtain ⟨rfl, rfl, rfl, rfl⟩ := he
                refine ⟨bu2, hu2, by omega, c2, by omega, c4, rfl, rfl, ?_⟩
                rw [t1]; dsimp only; rw [t2]; dsimp only
                simp [heq, after, List.append_assoc]
          · simp only [hw, if_false, Except.ok.injEq, Prod.mk.injEq] at he ⊢
            obtain ⟨rfl, rfl, rfl, rfl⟩ := he
            refine ⟨bu1, hu1, by omega, a2, a3, a4, rfl, rfl, ?_⟩
            rw [t1]; exact ⟨rfl, rfl⟩
      · have hp' : bl.toArray.getD st.bitsUsed false = false := by
          rw [getD_toArray_of_lt _ _ _ hb]; simpa using hp
        rw [traverse_succ_false _ _ _ _ _ _ _ _ hb' hp']
        simp only [extractP, hp] at he
        by_cases hh : st.hashesUsed < hl.length
        · rw [List.drop_eq_getElem_cons hh] at he
          simp only [Bool.false_eq_true, if_false, Except.ok.injEq, Prod.mk.injEq] at he
          obtain ⟨rfl, rfl, rfl, rfl⟩ := he
          refine ⟨st.bitsUsed + 1, st.hashesUsed + 1, by omega, by omega, by omega, by omega, rfl, rfl, ?_⟩
          simp [Nat.not_le.2 hh, getD_toArray_of_lt _ _ _ hh, after]
        · rw [List.drop_eq_nil_of_le (Nat.le_of_not_lt hh)] at he
          simp at he
    · rw [List.drop_eq_nil_of_le (Nat.le_of_not_lt hb), extractP_nil] at he
      cases he

/-- failure of the parser from the current cursors ⇒ `traverse` (which keeps going) latches `bad` -/
theorem traverse_of_extractP_error : ∀ (h pos : Nat) (st : Ext H) e,
    extractP comb n h pos (bl.drop st.bitsUsed) (hl.drop st.hashesUsed) = .error e →
    (traverse comb zero n bl.toArray hl.toArray h pos st).2.bad = true := by
  intro h
  induction h with
  | zero =>
    intro pos st e he
    by_cases hb : st.bitsUsed < bl.length
    · rw [List.drop_eq_getElem_cons hb] at he
      rw [traverse_zero _ _ _ _ _ _ _ (by simpa using hb)]
      by_cases hh : st.hashesUsed < hl.length
      · rw [List.drop_eq_getElem_cons hh] at he
        simp [extractP] at he
      · simp [Nat.le_of_not_lt hh]
    · rw [traverse_oob _ _ _ _ _ _ _ _ (by simpa using Nat.le_of_not_lt hb)]
  | succ h ih =>
    intro pos st e he
    by_cases hb : st.bitsUsed < bl.length
    · rw [List.drop_eq_getElem_cons hb] at he
      have hb' : st.bitsUsed < bl.toArray.size := by simpa using hb
      by_cases hp : bl[st.bitsUsed] = true
      · have hp' : bl.toArray.getD st.bitsUsed false = true := by
          rw [getD_toArray_of_lt _ _ _ hb]; exact hp
        rw [traverse_succ_true _ _ _ _ _ _ _ _ hb' hp']
        simp only [extractP, hp, if_true] at he
        cases e1 : extractP comb n h (2*pos) (bl.drop (st.bitsUsed+1)) (hl.drop st.hashesUsed) with
        | error e' =>
          have b1 := ih (2*pos) { st with bitsUsed := st.bitsUsed + 1 } e' e1
          have b2 := traverse_bad_mono comb zero n bl.toArray hl.toArray h (2*pos+1) _ b1
          split
          · dsimp only; split
            · rfl
            · exact b2
          · exact b1
        | ok v1 =>
          obtain ⟨l, ml, b1, h1⟩ := v1
          simp only [e1] at he
          obtain ⟨bu1, hu1, a1, a2, a3, a4, rfl, rfl, t1⟩ :=
            traverse_of_extractP_ok comb zero n bl hl h (2*pos) { st with bitsUsed := st.bitsUsed + 1 }
              l ml _ _ e1
          by_cases hw : 2*pos+1 < width n h
          · simp only [hw, if_true] at he ⊢
            rw [t1]; dsimp only
            cases e2 : extractP comb n h (2*pos+1) (bl.drop bu1) (hl.drop hu1) with
            | error e' =>
              have b2 := ih (2*pos+1) (after { st with bitsUsed := st.bitsUsed + 1 } bu1 hu1 ml) e' e2
              split
              · rfl
              · exact b2
            | ok v2 =>
              obtain ⟨rr, mr, b2, h2⟩ := v2
              simp only [e2] at he
              obtain ⟨bu2, hu2, c1, c2, c3, c4, rfl, rfl, t2⟩ :=
                traverse_of_extractP_ok comb zero n bl hl h (2*pos+1)
                  (after { st with bitsUsed := st.bitsUsed + 1 } bu1 hu1 ml) rr mr _ _ e2
              rw [t2]; dsimp only
              by_cases heq : rr = l
              · simp [heq]
              · simp [heq] at he
          · simp [hw] at he
      · have hp' : bl.toArray.getD st.bitsUsed false = false := by
          rw [getD_toArray_of_lt _ _ _ hb]; simpa using hp
        rw [traverse_succ_false _ _ _ _ _ _ _ _ hb' hp']
        simp only [extractP, hp] at he
        by_cases hh : st.hashesUsed < hl.length
        · rw [List.drop_eq_getElem_cons hh] at he
          simp at he
        · simp [Nat.le_of_not_lt hh]
    · rw [traverse_oob _ _ _ _ _ _ _ _ (by simpa using Nat.le_of_not_lt hb)]

/-- from the initial state: success -/
theorem traverse_init_ok {h pos : Nat} {r : H} {ms : List (Nat × H)} {bs' : List Bool} {hs' : List H}
    (he : extractP comb n h pos bl hl = .ok (r, ms, bs', hs')) :
    traverse comb zero n bl.toArray hl.toArray h pos {} =
      (r, { bitsUsed := bl.length - bs'.length, hashesUsed := hl.length - hs'.length, bad := false,
            matchedHashes := ms.map Prod.snd, matchedItems := ms.map Prod.fst }) ∧
    bs'.length < bl.length ∧ hs'.length ≤ hl.length ∧
    bs' = bl.drop (bl.length - bs'.length) ∧ hs' = hl.drop (hl.length - hs'.length) := by
  obtain ⟨bu, hu, a1, a2, a3, a4, rfl, rfl, t⟩ :=
    traverse_of_extractP_ok comb zero n bl hl h pos {} r ms bs' hs' he
  have e1 : bl.length - (bl.drop bu).length = bu := by rw [List.length_drop]; omega
  have e2 : hl.length - (hl.drop hu).length = hu := by rw [List.length_drop]; omega
  rw [e1, e2, t]
  refine ⟨by simp [after], ?_, ?_, rfl, rfl⟩
  · rw [List.length_drop]; omega
  · rw [List.length_drop]; omega

/-- from the initial state: failure -/
theorem traverse_init_error {h pos : Nat} {e : Fault}
    (he : extractP comb n h pos bl hl = .error e) :
    (traverse comb zero n bl.toArray hl.toArray h pos {}).2.bad = true :=
  traverse_of_extractP_error comb zero n bl hl h pos {} e he

end Relate

/-! ## merkle branches and soundness of the parser -/

section Sound

/-- Fold a merkle branch (siblings bottom-up) starting at tree level `h`, position `p`, value `x`.
When `p` is a left node whose right sibling does not exist (`p+1 ≥ width n h`) the node is paired with
itself and the supplied branch element is ignored. -/
def foldBranchAt (comb : H → H → H) (n : Nat) : Nat → Nat → H → List H → H
  | _, _, x, [] => x
  | h, p, x, s :: br =>
    foldBranchAt comb n (h+1) (p/2)
      (if p % 2 = 1 then comb s x else if p + 1 < width n h then comb x s else comb x x) br

/-- merkle-branch evaluation for leaf `p` with value `x` in a tree of `n` leaves -/
def foldBranch (comb : H → H → H) (n p : Nat) (x : H) (br : List H) : H :=
  foldBranchAt comb n 0 p x br

theorem foldBranchAt_append (comb : H → H → H) (n : Nat) : ∀ (a b : List H) (h p : Nat) (x : H),
    foldBranchAt comb n h p x (a ++ b) =
      foldBranchAt comb n (h + a.length) (p / 2^a.length) (foldBranchAt comb n h p x a) b := by
  intro a
  induction a with
  | nil => intro b h p x; simp [foldBranchAt]
  | cons s a ih =>
    intro b h p x
    simp only [List.cons_append, foldBranchAt, ih, List.length_cons]
    congr 1
    · omega
    · rw [Nat.pow_succ, Nat.mul_comm, Nat.div_div_eq_div_mul]

/-- the honest branch of leaf `p` up to level `h`: the sibling hash at every level (the value is irrelevant
where the sibling does not exist) -/
def honestBranch (comb : H → H → H) (leaves : Nat → H) (n : Nat) : Nat → Nat → List H
  | 0, _ => []
  | h+1, p => honestBranch comb leaves n h p ++
      [calcHash comb leaves n h (if (p / 2^h) % 2 = 1 then p / 2^h - 1 else p / 2^h + 1)]

theorem honestBranch_length (comb : H → H → H) (leaves : Nat → H) (n : Nat) :
    ∀ h p, (honestBranch comb leaves n h p).length = h := by
  intro h; induction h with
  | zero => intro p; rfl
  | succ h ih => intro p; simp [honestBranch, ih]

/-- `foldBranch` agrees with `calcHash`: folding the honest branch of a real leaf gives the hash of its
level-`h` ancestor -/
theorem foldBranch_honest (comb : H → H → H) (leaves : Nat → H) (n : Nat) :
    ∀ h p, p < n →
      foldBranch comb n p (leaves p) (honestBranch comb leaves n h p) =
        calcHash comb leaves n h (p / 2^h) := by
  intro h
  induction h with
  | zero => intro p _; simp [foldBranch, foldBranchAt, honestBranch, calcHash]
  | succ h ih =>
    intro p hp
    have ih' := ih p hp
    unfold foldBranch at ih' ⊢
    have hq : p / 2^h < width n h := by
      rw [lt_width_iff]
      exact Nat.lt_of_le_of_lt (Nat.div_mul_le_self p (2^h)) hp
    have hdiv : p / 2^(h+1) = (p / 2^h) / 2 := by
      rw [Nat.pow_succ, Nat.div_div_eq_div_mul]
    rw [honestBranch, foldBranchAt_append, honestBranch_length, ih', hdiv]
    generalize p / 2^h = q at hq ⊢
    simp only [foldBranchAt, calcHash, Nat.zero_add]
    by_cases hodd : q % 2 = 1
    · have e1 : 2 * (q / 2) = q - 1 := by omega
      have e2 : 2 * (q / 2) + 1 = q := by omega
      simp only [hodd, if_true, e1]
      have e3 : q - 1 + 1 = q := by omega
      rw [e3]
      simp [hq]
    · have e1 : 2 * (q / 2) = q := by omega
      simp only [hodd, if_false, e1]
      by_cases hw : q + 1 < width n h <;> simp [hw]

variable [DecidableEq H]

theorem extractP_sound (comb : H → H → H) (n : Nat) :
    ∀ h pos bits hs r ms bits' hs', pos < width n h →
      extractP comb n h pos bits hs = .ok (r, ms, bits', hs') →
      (∀ p x, (p, x) ∈ ms →
        p / 2^h = pos ∧ p < n ∧ ∃ br : List H, br.length = h ∧ foldBranch comb n p x br = r) ∧
      ms.Pairwise (fun a b => a.1 < b.1) := by
  intro h
  induction h with
  | zero =>
    intro pos bits hs r ms bits' hs' hpw he
    rw [width_zero] at hpw
    cases bits with
    | nil => simp [extractP] at he
    | cons b bits =>
      cases hs with
      | nil => simp [extractP] at he
      | cons y hs =>
        simp only [extractP, Except.ok.injEq, Prod.mk.injEq] at he
        obtain ⟨rfl, rfl, -, -⟩ := he
        by_cases hb : b = true
        · simp only [hb, if_true, List.mem_singleton, Prod.mk.injEq, List.pairwise_cons,
            List.not_mem_nil, false_imp_iff, implies_true, List.Pairwise.nil, and_self, and_true]
          rintro p x ⟨rfl, rfl⟩
          exact ⟨by simp, hpw, [], rfl, rfl⟩
        · simp [hb]
  | succ h ih =>
    intro pos bits hs r ms bits' hs' hpw he
    have hl := child_lt_width hpw
    cases bits with
    | nil => simp [extractP] at he
    | cons b bits =>
      by_cases hb : b = true
      · subst hb
        simp only [extractP, if_true] at he
        cases e1 : extractP comb n h (2*pos) bits hs with
        | error e => simp [e1] at he
        | ok v1 =>
          obtain ⟨l, ml, bits1, hs1⟩ := v1
          simp only [e1] at he
          obtain ⟨s1, p1⟩ := ih _ _ _ _ _ _ _ hl e1
          by_cases hw : 2*pos+1 < width n h
          · simp only [hw, if_true] at he
            cases e2 : extractP comb n h (2*pos+1) bits1 hs1 with
            | error e => simp [e2] at he
            | ok v2 =>
              obtain ⟨rr, mr, bits2, hs2⟩ := v2
              simp only [e2] at he
              obtain ⟨s2, p2⟩ := ih _ _ _ _ _ _ _ hw e2
              by_cases heq : rr = l
              · simp [heq] at he
              · simp only [heq, if_false, Except.ok.injEq, Prod.mk.injEq] at he
                obtain ⟨rfl, rfl, -, -⟩ := he
                refine ⟨?_, ?_⟩
                · intro p x hm
                  rcases List.mem_append.mp hm with hm | hm
                  · obtain ⟨hp, hn, br, hlen, hf⟩ := s1 p x hm
                    refine ⟨?_, hn, br ++ [rr], by simp [hlen], ?_⟩
                    · rw [Nat.pow_succ, ← Nat.div_div_eq_div_mul, hp]; omega
                    · unfold foldBranch at hf ⊢
                      rw [foldBranchAt_append, hlen, hp, hf]
                      simp [foldBranchAt, hw]
                  · obtain ⟨hp, hn, br, hlen, hf⟩ := s2 p x hm
                    refine ⟨?_, hn, br ++ [l], by simp [hlen], ?_⟩
                    · rw [Nat.pow_succ, ← Nat.div_div_eq_div_mul, hp]; omega
                    · unfold foldBranch at hf ⊢
                      rw [foldBranchAt_append, hlen, hp, hf]
                      have : (2*pos+1) % 2 = 1 := by omega
                      simp [foldBranchAt, this]
                · rw [List.pairwise_append]
                  refine ⟨p1, p2, ?_⟩
                  intro a ha b hb
                  have ha' := (s1 a.1 a.2 ha).1
                  have hb' := (s2 b.1 b.2 hb).1
                  apply Nat.lt_of_div_lt_div (c := 2^h)
                  omega
          · simp only [hw, if_false, Except.ok.injEq, Prod.mk.injEq] at he
            obtain ⟨rfl, rfl, -, -⟩ := he
            refine ⟨?_, p1⟩
            intro p x hm
            obtain ⟨hp, hn, br, hlen, hf⟩ := s1 p x hm
            refine ⟨?_, hn, br ++ [l], by simp [hlen], ?_⟩
            · rw [Nat.pow_succ, ← Nat.div_div_eq_div_mul, hp]; omega
            · unfold foldBranch at hf ⊢
              rw [foldBranchAt_append, hlen, hp, hf]
              simp [foldBranchAt, hw]
      · have hb' : b = false := by cases b <;> simp_all
        subst hb'
        cases hs with
        | nil => simp [extractP] at he
        | cons y hs =>
          simp [extractP] at he
          obtain ⟨-, rfl, -, -⟩ := he
          simp

end Sound


/-! ## flag packing -/

section Flags

/-- the 8 bits of one flag byte, least significant first (one `flatMap` step of `unpackFlags`) -/
def unpackByte (b : UInt8) : List Bool :=
  (List.range 8).map fun i => b &&& ((1 : UInt8) <<< UInt8.ofNat i) ≠ 0

theorem unpackFlags_nil : unpackFlags [] = [] := rfl

theorem unpackFlags_cons (b : UInt8) (f : List UInt8) :
    unpackFlags (b :: f) = unpackByte b ++ unpackFlags f := by
  simp [unpackFlags, unpackByte]

theorem unpackByte_length (b : UInt8) : (unpackByte b).length = 8 := by simp [unpackByte]

theorem unpackFlags_length (f : List UInt8) : (unpackFlags f).length = 8 * f.length := by
  induction f with
  | nil => rfl
  | cons b f ih => rw [unpackFlags_cons, List.length_append, unpackByte_length, ih, List.length_cons]; omega

set_option maxRecDepth 100000 in
theorem unpack_pack8 : ∀ b0 b1 b2 b3 b4 b5 b6 b7 : Bool,
    unpackByte (packByte [b0,b1,b2,b3,b4,b5,b6,b7]) = [b0,b1,b2,b3,b4,b5,b6,b7] := by decide

theorem exists_cons_of_length {α : Type} {l : List α} {k : Nat} (h : l.length = k+1) :
    ∃ a t, l = a :: t ∧ t.length = k := by
  cases l with
  | nil => simp at h
  | cons a t => exact ⟨a, t, rfl, by simpa using h⟩

theorem unpack_pack_len8 {l : List Bool} (h : l.length = 8) : unpackByte (packByte l) = l := by
  obtain ⟨b0, l1, rfl, h1⟩ := exists_cons_of_length h
  obtain ⟨b1, l2, rfl, h2⟩ := exists_cons_of_length h1
  obtain ⟨b2, l3, rfl, h3⟩ := exists_cons_of_length h2
  obtain ⟨b3, l4, rfl, h4⟩ := exists_cons_of_length h3
  obtain ⟨b4, l5, rfl, h5⟩ := exists_cons_of_length h4
  obtain ⟨b5, l6, rfl, h6⟩ := exists_cons_of_length h5
  obtain ⟨b6, l7, rfl, h7⟩ := exists_cons_of_length h6
  obtain ⟨b7, l8, rfl, h8⟩ := exists_cons_of_length h7
  have : l8 = [] := List.eq_nil_of_length_eq_zero h8
  subst this
  exact unpack_pack8 ..

theorem packByte_foldl_false (k : Nat) : ∀ (s : Nat) (acc : UInt8),
    ((List.replicate k false).zipIdx s).foldl
      (fun acc (x : Bool × Nat) => if x.1 then acc ||| ((1 : UInt8) <<< UInt8.ofNat x.2) else acc) acc = acc := by
  induction k with
  | zero => intro s acc; rfl
  | succ k ih => intro s acc; simp [List.replicate_succ, List.zipIdx_cons, ih]

theorem packByte_pad (l : List Bool) (k : Nat) : packByte (l ++ List.replicate k false) = packByte l := by
  unfold packByte
  rw [List.zipIdx_append, List.foldl_append]
  exact packByte_foldl_false k _ _

theorem unpack_pack_short {l : List Bool} (h : l.length ≤ 8) :
    unpackByte (packByte l) = l ++ List.replicate (8 - l.length) false := by
  rw [← packByte_pad l (8 - l.length)]
  apply unpack_pack_len8
  simp; omega

theorem packFlags_nil : packFlags [] = [] := by rw [packFlags]

theorem packFlags_of_ne_nil {l : List Bool} (h : l ≠ []) :
    packFlags l = packByte (l.take 8) :: packFlags (l.drop 8) := by
  cases l with
  | nil => exact absurd rfl h
  | cons b bs => rw [packFlags]; simp

/-- number of `false` padding bits: up to the next multiple of 8 -/
def padLen (k : Nat) : Nat := (8 - k % 8) % 8

theorem padLen_lt (k : Nat) : padLen k < 8 := by unfold padLen; omega
theorem padLen_spec (k : Nat) : (k + padLen k) % 8 = 0 := by unfold padLen; omega

theorem unpack_packFlags : ∀ (k : Nat) (l : List Bool), l.length = k →
    unpackFlags (packFlags l) = l ++ List.replicate (padLen l.length) false := by
  intro k
  induction k using Nat.strongRecOn with
  | ind k ih =>
    intro l hk
    by_cases hl : l = []
    · subst hl; simp [packFlags_nil, unpackFlags_nil, padLen]
    · rw [packFlags_of_ne_nil hl, unpackFlags_cons]
      have hpos : 0 < l.length := List.length_pos_iff.2 hl
      by_cases h8 : l.length ≤ 8
      · have ht : l.take 8 = l := List.take_of_length_le h8
        have hd : l.drop 8 = [] := List.drop_eq_nil_of_le h8
        rw [ht, hd, packFlags_nil, unpackFlags_nil, List.append_nil, unpack_pack_short h8]
        have : padLen l.length = 8 - l.length := by unfold padLen; omega
        rw [this]
      · have ht : (l.take 8).length = 8 := by rw [List.length_take]; omega
        rw [unpack_pack_len8 ht, ih (l.drop 8).length (by rw [List.length_drop]; omega) _ rfl]
        have : padLen (l.drop 8).length = padLen l.length := by
          rw [List.length_drop]; unfold padLen; omega
        rw [this, ← List.append_assoc, List.take_append_drop]

theorem packFlags_length (l : List Bool) : 8 * (packFlags l).length = l.length + padLen l.length := by
  have := congrArg List.length (unpack_packFlags l.length l rfl)
  rw [unpackFlags_length] at this
  simpa using this

end Flags

/-! ## `extractMsg` in terms of the parser -/

section MsgLemmas
variable [DecidableEq H]
variable (comb : H → H → H) (zero : H)

/-- the four pre-traversal sanity checks of `ExtractMatches` -/
def PreOK (msg : Msg H) : Prop :=
  msg.numTx ≠ 0 ∧ msg.numTx ≤ maxTxnCount ∧ msg.hashes.length ≤ msg.numTx ∧
    msg.hashes.length ≤ (unpackFlags msg.flags).length

theorem extractMsg_of_not_pre (msg : Msg H) (h : ¬ PreOK msg) :
    extractMsg comb zero msg = ⟨none, [], [], false⟩ := by
  unfold PreOK at h
  unfold extractMsg
  simp only [List.size_toArray]
  by_cases h1 : msg.numTx = 0
  · simp [h1]
  · by_cases h2 : msg.numTx > maxTxnCount
    · simp [h1, h2]
    · by_cases h3 : msg.hashes.length > msg.numTx
      · simp [h1, h2, h3]
      · by_cases h4 : (unpackFlags msg.flags).length < msg.hashes.length
        · simp [h1, h2, h3, h4]
        · exact absurd ⟨h1, by omega, by omega, by omega⟩ h

theorem extractMsg_of_pre (msg : Msg H) (h : PreOK msg) :
    extractMsg comb zero msg =
      ⟨if (!(traverse comb zero msg.numTx (unpackFlags msg.flags).toArray msg.hashes.toArray
                (height msg.numTx) 0 {}).2.bad
            && ((traverse comb zero msg.numTx (unpackFlags msg.flags).toArray msg.hashes.toArray
                (height msg.numTx) 0 {}).2.bitsUsed + 7) / 8 == ((unpackFlags msg.flags).length + 7) / 8
            && (traverse comb zero msg.numTx (unpackFlags msg.flags).toArray msg.hashes.toArray
                (height msg.numTx) 0 {}).2.hashesUsed == msg.hashes.length) = true
        then some (traverse comb zero msg.numTx (unpackFlags msg.flags).toArray msg.hashes.toArray
                (height msg.numTx) 0 {}).1 else none,
       (traverse comb zero msg.numTx (unpackFlags msg.flags).toArray msg.hashes.toArray
                (height msg.numTx) 0 {}).2.matchedHashes,
       (traverse comb zero msg.numTx (unpackFlags msg.flags).toArray msg.hashes.toArray
                (height msg.numTx) 0 {}).2.matchedItems,
       (traverse comb zero msg.numTx (unpackFlags msg.flags).toArray msg.hashes.toArray
                (height msg.numTx) 0 {}).2.bad⟩ := by
  obtain ⟨h1, h2, h3, h4⟩ := h
  unfold extractMsg
  simp only [List.size_toArray]
  rw [if_neg h1, if_neg (by omega), if_neg (by omega), if_neg (by omega)]

/-- parser success ⇒ `extractMsg` reports the parser's result; the root is returned iff fewer than 8 bits
and no hashes are left over -/
theorem extractMsg_of_ok (msg : Msg H) (h : PreOK msg) {r : H} {ms : List (Nat × H)} {bs' : List Bool}
    {hs' : List H}
    (he : extractP comb msg.numTx (height msg.numTx) 0 (unpackFlags msg.flags) msg.hashes
            = .ok (r, ms, bs', hs')) :
    extractMsg comb zero msg =
      ⟨if bs'.length < 8 ∧ hs' = [] then some r else none, ms.map Prod.snd, ms.map Prod.fst, false⟩ := by
  obtain ⟨t, a1, a2, -, -⟩ := traverse_init_ok comb zero msg.numTx _ _ he
  rw [extractMsg_of_pre comb zero msg h, t]
  dsimp only
  have hlen := unpackFlags_length msg.flags
  have hc : (((unpackFlags msg.flags).length - bs'.length + 7) / 8 = ((unpackFlags msg.flags).length + 7) / 8
      ∧ msg.hashes.length - hs'.length = msg.hashes.length) ↔ (bs'.length < 8 ∧ hs' = []) := by
    rw [← List.length_eq_zero_iff]
    omega
  by_cases hh : bs'.length < 8 ∧ hs' = []
  · have := hc.2 hh
    simp [hh, this.1]
  · have : ¬ _ := fun x => hh (hc.1 x)
    rw [if_neg hh]
    congr 1
    simp only [Bool.not_false, Bool.true_and, Bool.and_eq_true, beq_iff_eq, ite_eq_right_iff]
    intro x; exact absurd x this

/-- parser failure ⇒ `extractMsg` returns no root and sets `BadTree` -/
theorem extractMsg_of_error (msg : Msg H) (h : PreOK msg) {e : Fault}
    (he : extractP comb msg.numTx (height msg.numTx) 0 (unpackFlags msg.flags) msg.hashes = .error e) :
    (extractMsg comb zero msg).root = none ∧ (extractMsg comb zero msg).bad = true := by
  have hb := traverse_init_error comb zero msg.numTx _ _ he
  rw [extractMsg_of_pre comb zero msg h]
  simp [hb]

/-- everything that acceptance implies, in terms of the model's own `traverse` -/
theorem extractMsg_root_some (msg : Msg H) {r : H} (hr : (extractMsg comb zero msg).root = some r) :
    PreOK msg ∧
    (traverse comb zero msg.numTx (unpackFlags msg.flags).toArray msg.hashes.toArray
        (height msg.numTx) 0 {}).2.bad = false ∧
    ((traverse comb zero msg.numTx (unpackFlags msg.flags).toArray msg.hashes.toArray
        (height msg.numTx) 0 {}).2.bitsUsed + 7) / 8 = ((unpackFlags msg.flags).length + 7) / 8 ∧
    (traverse comb zero msg.numTx (unpackFlags msg.flags).toArray msg.hashes.toArray
        (height msg.numTx) 0 {}).2.hashesUsed = msg.hashes.length ∧
    r = (traverse comb zero msg.numTx (unpackFlags msg.flags).toArray msg.hashes.toArray
        (height msg.numTx) 0 {}).1 := by
  by_cases hp : PreOK msg
  · rw [extractMsg_of_pre comb zero msg hp] at hr
    dsimp only at hr
    split at hr
    · rename_i hc
      simp only [Bool.and_eq_true, Bool.not_eq_eq_eq_not, Bool.not_true, beq_iff_eq] at hc
      obtain ⟨⟨c1, c2⟩, c3⟩ := hc
      exact ⟨hp, c1, c2, c3, (Option.some.inj hr).symm⟩
    · cases hr
  · rw [extractMsg_of_not_pre comb zero msg hp] at hr
    cases hr

end MsgLemmas

/-! ## a sufficient condition for the no-equal-siblings hypothesis -/

section Distinct
variable [DecidableEq H]

/-- with a left-injective combiner and pairwise distinct leaves, distinct nodes of one level have distinct hashes -/
theorem calcHash_inj (comb : H → H → H) (leaves : Nat → H) (n : Nat)
    (hcomb : ∀ a b c d, comb a b = comb c d → a = c)
    (hleaves : ∀ i j, i < n → j < n → leaves i = leaves j → i = j) :
    ∀ h p q, p < width n h → q < width n h →
      calcHash comb leaves n h p = calcHash comb leaves n h q → p = q := by
  intro h
  induction h with
  | zero =>
    intro p q hp hq he
    rw [width_zero] at hp hq
    exact hleaves p q hp hq he
  | succ h ih =>
    intro p q hp hq he
    simp only [calcHash] at he
    have := ih (2*p) (2*q) (child_lt_width hp) (child_lt_width hq) (hcomb _ _ _ _ he)
    omega

theorem noEqSib_of_forall (comb : H → H → H) (leaves : Nat → H) (m : Nat → Bool) (n : Nat)
    (hall : ∀ h pos, 2*pos+1 < width n h →
      calcHash comb leaves n h (2*pos+1) ≠ calcHash comb leaves n h (2*pos)) :
    ∀ h pos, noEqSib comb leaves m n h pos := by
  intro h
  induction h with
  | zero => intro pos; trivial
  | succ h ih =>
    intro pos _
    exact ⟨ih _, fun hw => ⟨ih _, hall h pos hw⟩⟩

/-- **NoEqualSiblings**: no inner node `(h+1,pos)` that the builder descends into (one with a matched leaf
below it) and that has a real right child has two equal children. (Levels `h ≥ height n` and positions
outside the tree are vacuous because there `2*pos+1 < width n h` is false.) -/
def NoEqualSiblings (comb : H → H → H) (leaves : Nat → H) (m : Nat → Bool) (n : Nat) : Prop :=
  ∀ h pos, isParentGo m n (h+1) pos = true → 2*pos+1 < width n h →
    calcHash comb leaves n h (2*pos+1) ≠ calcHash comb leaves n h (2*pos)

/-- the same for every subset at once -/
def NoEqualSiblingsAll (comb : H → H → H) (leaves : Nat → H) (n : Nat) : Prop :=
  ∀ h pos, 2*pos+1 < width n h →
    calcHash comb leaves n h (2*pos+1) ≠ calcHash comb leaves n h (2*pos)

theorem NoEqualSiblingsAll.toSubset {comb : H → H → H} {leaves : Nat → H} {n : Nat}
    (h : NoEqualSiblingsAll comb leaves n) (m : Nat → Bool) : NoEqualSiblings comb leaves m n :=
  fun k pos _ hw => h k pos hw

theorem noEqSib_of_NoEqualSiblings {comb : H → H → H} {leaves : Nat → H} {m : Nat → Bool} {n : Nat}
    (hall : NoEqualSiblings comb leaves m n) : ∀ h pos, noEqSib comb leaves m n h pos := by
  intro h
  induction h with
  | zero => intro pos; trivial
  | succ h ih =>
    intro pos hp
    exact ⟨ih _, fun hw => ⟨ih _, hall h pos hp hw⟩⟩

theorem isParentGo_lt_width {m : Nat → Bool} {n h pos : Nat} (hp : isParentGo m n h pos = true) :
    pos < width n h := by
  obtain ⟨i, a, -, c, -⟩ := (isParentGo_iff m n h pos).1 hp
  rw [lt_width_iff]; omega

theorem isParentGo_up1 {m : Nat → Bool} {n h pos : Nat} (hp : isParentGo m n h pos = true) :
    isParentGo m n (h+1) (pos/2) = true := by
  rw [isParentGo_succ]
  have hw := isParentGo_lt_width hp
  rcases Nat.mod_two_eq_zero_or_one pos with h0 | h1
  · have : 2 * (pos/2) = pos := by omega
    simp [this, hp]
  · have : 2 * (pos/2) + 1 = pos := by omega
    simp [this, hp, hw]

theorem isParentGo_up {m : Nat → Bool} {n h pos : Nat} (hp : isParentGo m n h pos = true) :
    ∀ k, isParentGo m n (h+k) (pos / 2^k) = true := by
  intro k
  induction k with
  | zero => simpa using hp
  | succ k ih =>
    have := isParentGo_up1 ih
    rwa [Nat.div_div_eq_div_mul, ← Nat.pow_succ, Nat.add_assoc] at this

/-- the recursive condition at a node gives the explicit one for every node below it -/
theorem noEqSib_descend {comb : H → H → H} {leaves : Nat → H} {m : Nat → Bool} {n : Nat} :
    ∀ (k P : Nat), noEqSib comb leaves m n k P →
      ∀ h pos, h + 1 ≤ k → pos / 2^(k - (h+1)) = P → isParentGo m n (h+1) pos = true →
        2*pos+1 < width n h →
        calcHash comb leaves n h (2*pos+1) ≠ calcHash comb leaves n h (2*pos) := by
  intro k
  induction k with
  | zero => intro P _ h pos hk; omega
  | succ k ih =>
    intro P hsib h pos hk hP hpar hw
    by_cases hh : h = k
    · subst hh
      have : pos = P := by simpa using hP
      subst this
      exact ((hsib hpar).2 hw).2
    · have hk' : h + 1 ≤ k := by omega
      have hup := isParentGo_up hpar (k - (h+1))
      have e1 : h + 1 + (k - (h+1)) = k := by omega
      rw [e1] at hup
      have hupP := isParentGo_up1 hup
      have e2 : pos / 2^(k - (h+1)) / 2 = P := by
        rw [Nat.div_div_eq_div_mul, ← Nat.pow_succ, ← hP]
        congr 2
        omega
      rw [e2] at hupP
      obtain ⟨sl, sr⟩ := hsib hupP
      have hc := isParentGo_lt_width hup
      rcases Nat.mod_two_eq_zero_or_one (pos / 2^(k - (h+1))) with h0 | h1
      · exact ih (2*P) sl h pos hk' (by omega) hpar hw
      · have e3 : pos / 2^(k - (h+1)) = 2*P+1 := by omega
        rw [e3] at hc
        exact ih (2*P+1) (sr hc).1 h pos hk' e3 hpar hw

/-- the explicit `NoEqualSiblings` is equivalent to the recursive `noEqSib` at the root -/
theorem noEqualSiblings_iff (comb : H → H → H) (leaves : Nat → H) (m : Nat → Bool) (n : Nat)
    (h1 : 1 ≤ n) (h2 : n ≤ 2^33) :
    NoEqualSiblings comb leaves m n ↔ noEqSib comb leaves m n (height n) 0 := by
  constructor
  · intro hall; exact noEqSib_of_NoEqualSiblings hall _ _
  · intro hsib h pos hpar hw
    have hroot := (width_le_one_iff n (height n)).1 (Nat.le_of_eq (width_height h1 h2))
    have hlt : h + 1 ≤ height n := by
      apply Nat.le_of_not_lt
      intro hge
      have : width n h ≤ 1 := by
        rw [width_le_one_iff]
        exact Nat.le_trans hroot (Nat.pow_le_pow_right (by decide) (by omega))
      omega
    refine noEqSib_descend (height n) 0 hsib h pos hlt ?_ hpar hw
    have hup := isParentGo_lt_width (isParentGo_up hpar (height n - (h+1)))
    have e1 : h + 1 + (height n - (h+1)) = height n := by omega
    rw [e1, width_height h1 h2] at hup
    exact Nat.lt_one_iff.1 hup

theorem noEqualSiblingsAll_of_injective (comb : H → H → H) (leaves : Nat → H) (n : Nat)
    (hcomb : ∀ a b c d, comb a b = comb c d → a = c)
    (hleaves : ∀ i j, i < n → j < n → leaves i = leaves j → i = j) :
    NoEqualSiblingsAll comb leaves n := by
  intro h pos hw he
  have hw' : 2*pos < width n h := by omega
  have := calcHash_inj comb leaves n hcomb hleaves h _ _ hw hw' he
  omega

end Distinct

/-- free binary trees: a combiner that is injective by construction (for non-vacuity examples) -/
inductive FreeTree where
  | leaf (i : Nat)
  | node (l r : FreeTree)
  deriving DecidableEq, Repr


/-! data for the C11 non-vacuity example: five distinct leaves, subset {1,4} -/
section ExampleData
open FreeTree

def exLeaves : List FreeTree := [leaf 0, leaf 1, leaf 2, leaf 3, leaf 4]
def exM : Nat → Bool := fun i => i == 1 || i == 4

theorem exDistinct : ∀ i j, i < exLeaves.length → j < exLeaves.length →
    exLeaves.getD i (leaf 0) = exLeaves.getD j (leaf 0) → i = j := by
  have aux : ∀ i, i < 5 → ∀ j, j < 5 → exLeaves.getD i (leaf 0) = exLeaves.getD j (leaf 0) → i = j := by
    decide
  exact fun i j hi hj => aux i hi j hj

/-- a toy combiner on `Nat` for the C12 examples -/
abbrev exComb : Nat → Nat → Nat := fun a b => 1000 * a + b

end ExampleData

end Bch.Proofs.Merkle
