import Bch.Model.BloomTx
/-
Helper lemmas for property C10 (BIP37 transaction matching and the block scan).

Everything is proved for an abstract filter `O : FilterOps F` satisfying `LawfulOn O G`: the laws
`add_mono`, `add_flags` everywhere and `add_test` on a set `G` of "good" filter states closed under
`add`.  (`LawfulFilter O` is the special case `G = everything`.)  The relativisation is needed for
the real bloom filter `Bch.Model.BloomTx.bloomOps`: property C09 proves `bloom_add_mono` for every
filter but `bloom_add_matches` only for a *loaded* filter of at most 36000 bytes (an unloaded filter
matches nothing, even after `add`); `Bch/Proofs/BloomTxInst.lean` instantiates `LawfulOn bloomOps`
from those theorems.
-/
namespace Bch.Proofs.BloomTx
open Bch Bch.Model.BloomTx

variable {F : Type}

/-! ## Filter order and laws -/

/-- `f ≤ f'` : everything `f` matches, `f'` matches -/
def Le (O : FilterOps F) (f f' : F) : Prop := ∀ x, O.test f x = true → O.test f' x = true

theorem Le.refl (O : FilterOps F) (f : F) : Le O f f := fun _ h => h
theorem Le.trans {O : FilterOps F} {f g h : F} (a : Le O f g) (b : Le O g h) : Le O f h :=
  fun x hx => b x (a x hx)

/-- the laws of an insert-only approximate-membership filter, with "an inserted element is matched"
    relativised to a set `G` of good states closed under insertion.
    C09 provides them for `bloomOps` with `G` = loaded and at most 36000 bytes (see header comment). -/
structure LawfulOn (O : FilterOps F) (G : F → Prop) : Prop where
  good_add : ∀ f x, G f → G (O.add f x)
  add_test : ∀ f x, G f → O.test (O.add f x) x = true
  add_mono : ∀ f x y, O.test f y = true → O.test (O.add f x) y = true
  add_flags : ∀ f x, O.flags (O.add f x) = O.flags f

/-- the three laws holding for every filter state -/
structure LawfulFilter (O : FilterOps F) : Prop where
  add_test : ∀ f x, O.test (O.add f x) x = true
  add_mono : ∀ f x y, O.test f y = true → O.test (O.add f x) y = true
  add_flags : ∀ f x, O.flags (O.add f x) = O.flags f

theorem LawfulFilter.on {O : FilterOps F} (L : LawfulFilter O) : LawfulOn O (fun _ => True) :=
  ⟨fun _ _ _ => trivial, fun f x _ => L.add_test f x, L.add_mono, L.add_flags⟩

/-- insert a list of elements, left to right -/
def addAll (O : FilterOps F) (f : F) (xs : List Bytes) : F := xs.foldl O.add f

@[simp] theorem addAll_nil (O : FilterOps F) (f : F) : addAll O f [] = f := rfl
@[simp] theorem addAll_cons (O : FilterOps F) (f : F) (x : Bytes) (xs : List Bytes) :
    addAll O f (x :: xs) = addAll O (O.add f x) xs := rfl
theorem addAll_append (O : FilterOps F) (f : F) (xs ys : List Bytes) :
    addAll O f (xs ++ ys) = addAll O (addAll O f xs) ys := by
  simp [addAll, List.foldl_append]

section laws
variable {O : FilterOps F} {G : F → Prop} (L : LawfulOn O G)
include L

theorem le_add (f : F) (x : Bytes) : Le O f (O.add f x) := fun y h => L.add_mono f x y h

theorem le_addAll (f : F) (xs : List Bytes) : Le O f (addAll O f xs) := by
  induction xs generalizing f with
  | nil => exact Le.refl O f
  | cons x xs ih => exact Le.trans (le_add L f x) (ih _)

theorem addAll_flags (f : F) (xs : List Bytes) : O.flags (addAll O f xs) = O.flags f := by
  induction xs generalizing f with
  | nil => rfl
  | cons x xs ih => rw [addAll_cons, ih, L.add_flags]

theorem good_addAll (f : F) (xs : List Bytes) (hG : G f) : G (addAll O f xs) := by
  induction xs generalizing f with
  | nil => exact hG
  | cons x xs ih => exact ih _ (L.good_add f x hG)

theorem test_addAll_of_mem (f : F) (hG : G f) (xs : List Bytes) (x : Bytes) (hx : x ∈ xs) :
    O.test (addAll O f xs) x = true := by
  induction xs generalizing f with
  | nil => cases hx
  | cons y ys ih =>
    rw [addAll_cons]
    rcases List.mem_cons.1 hx with rfl | h
    · exact le_addAll L _ ys _ (L.add_test f x hG)
    · exact ih _ (L.good_add f y hG) h
end laws

/-! ## `maybeAddOutpoint`, the outputs loop -/

/-- is an output eligible for outpoint insertion under update flag `flags`
    (1 = BloomUpdateAll, 2 = BloomUpdateP2PubkeyOnly, anything else = none) -/
def eligible (flags : Nat) (o : TxOut) : Bool :=
  flags == 1 || (flags == 2 && o.isPubKeyOrMultisig)

theorem maybeAddOutpoint_eq (O : FilterOps F) (f : F) (o : TxOut) (id : Bytes) (idx : Nat) :
    maybeAddOutpoint O f o id idx =
      if eligible (O.flags f) o then O.add f (outPointBytes id idx) else f := by
  unfold maybeAddOutpoint eligible
  split <;> simp_all

/-- does a (possibly unparsable) script have a data push the filter matches -/
def pushHit (O : FilterOps F) (f : F) : Option (List Bytes) → Bool
  | none => false
  | some ps => ps.any (O.test f)

theorem pushHit_iff (O : FilterOps F) (f : F) (p : Option (List Bytes)) :
    pushHit O f p = true ↔ ∃ ps, p = some ps ∧ ∃ d ∈ ps, O.test f d = true := by
  cases p with
  | none => simp [pushHit]
  | some ps => simp [pushHit, List.any_eq_true]

theorem pushHit_mono {O : FilterOps F} {f f' : F} (h : Le O f f') (p : Option (List Bytes)) :
    pushHit O f p = true → pushHit O f' p = true := by
  rw [pushHit_iff, pushHit_iff]
  rintro ⟨ps, hp, d, hd, ht⟩
  exact ⟨ps, hp, d, hd, h d ht⟩

theorem scanOuts_nil (O : FilterOps F) (id : Bytes) (idx : Nat) (f : F) (m : Bool) :
    scanOuts O id [] idx f m = (f, m) := rfl

theorem scanOuts_cons (O : FilterOps F) (id : Bytes) (o : TxOut) (os : List TxOut) (idx : Nat)
    (f : F) (m : Bool) :
    scanOuts O id (o :: os) idx f m =
      if pushHit O f o.pushes then
        scanOuts O id os (idx+1)
          (if eligible (O.flags f) o then O.add f (outPointBytes id idx) else f) true
      else scanOuts O id os (idx+1) f m := by
  rw [scanOuts]
  cases h : o.pushes with
  | none => simp [pushHit]
  | some ps => simp [pushHit, maybeAddOutpoint_eq]

/-- indices (counted from `idx`) of the outputs whose outpoint the outputs loop inserts,
    following the evolving filter -/
def insIdxs (O : FilterOps F) (id : Bytes) : List TxOut → Nat → F → List Nat
  | [], _, _ => []
  | o :: os, idx, f =>
    if pushHit O f o.pushes && eligible (O.flags f) o then
      idx :: insIdxs O id os (idx+1) (O.add f (outPointBytes id idx))
    else insIdxs O id os (idx+1) f

theorem scanOuts_fst (O : FilterOps F) (id : Bytes) (outs : List TxOut) (idx : Nat) (f : F) (m : Bool) :
    (scanOuts O id outs idx f m).1 = addAll O f ((insIdxs O id outs idx f).map (outPointBytes id)) := by
  induction outs generalizing idx f m with
  | nil => rfl
  | cons o os ih =>
    rw [scanOuts_cons, insIdxs]
    by_cases h1 : pushHit O f o.pushes = true <;> by_cases h2 : eligible (O.flags f) o = true <;>
      simp [h1, h2, ih]

theorem scanOuts_fst_indep (O : FilterOps F) (id : Bytes) (outs : List TxOut) (idx : Nat) (f : F)
    (m m' : Bool) : (scanOuts O id outs idx f m).1 = (scanOuts O id outs idx f m').1 := by
  rw [scanOuts_fst, scanOuts_fst]

theorem scanOuts_append (O : FilterOps F) (id : Bytes) (l1 l2 : List TxOut) (idx : Nat) (f : F) (m : Bool) :
    scanOuts O id (l1 ++ l2) idx f m =
      scanOuts O id l2 (idx + l1.length) (scanOuts O id l1 idx f m).1 (scanOuts O id l1 idx f m).2 := by
  induction l1 generalizing idx f m with
  | nil => simp [scanOuts_nil]
  | cons o os ih =>
    simp only [List.cons_append, scanOuts_cons, List.length_cons]
    split <;> rw [ih] <;> congr 1 <;> omega

/-- no output has a push matching `f`: the loop changes nothing -/
theorem scanOuts_no_hit (O : FilterOps F) (id : Bytes) (outs : List TxOut) (idx : Nat) (f : F) (m : Bool)
    (h : ∀ o ∈ outs, pushHit O f o.pushes = false) : scanOuts O id outs idx f m = (f, m) := by
  induction outs generalizing idx with
  | nil => rfl
  | cons o os ih =>
    rw [scanOuts_cons, h o (by simp)]
    simpa using ih _ (fun o' ho' => h o' (by simp [ho']))

theorem scanOuts_snd_true (O : FilterOps F) (id : Bytes) (outs : List TxOut) (idx : Nat) (f : F) :
    (scanOuts O id outs idx f true).2 = true := by
  induction outs generalizing idx f with
  | nil => rfl
  | cons o os ih => rw [scanOuts_cons]; split <;> exact ih _ _

/-- some output has a push matching the loaded filter `f`; the loop runs on any larger `g` -/
theorem scanOuts_hit {O : FilterOps F} (_L : LawfulOn O G) (id : Bytes) (outs : List TxOut) (idx : Nat)
    (f g : F) (m : Bool) (hfg : Le O f g) (h : ∃ o ∈ outs, pushHit O f o.pushes = true) :
    (scanOuts O id outs idx g m).2 = true := by
  induction outs generalizing idx with
  | nil => obtain ⟨o, ho, _⟩ := h; cases ho
  | cons o os ih =>
    rw [scanOuts_cons]
    by_cases hg : pushHit O g o.pushes = true
    · simp only [hg, if_true]; exact scanOuts_snd_true O id os _ _
    · simp only [hg]
      obtain ⟨o', ho', hit⟩ := h
      rcases List.mem_cons.1 ho' with rfl | hmem
      · exact absurd (pushHit_mono hfg _ hit) hg
      · exact ih _ ⟨o', hmem, hit⟩

/-- verdict of the outputs loop, against the filter as loaded -/
theorem scanOuts_snd {O : FilterOps F} (L : LawfulOn O G) (id : Bytes) (outs : List TxOut) (idx : Nat)
    (f : F) (m : Bool) :
    (scanOuts O id outs idx f m).2 = (m || outs.any (fun o => pushHit O f o.pushes)) := by
  by_cases h : ∃ o ∈ outs, pushHit O f o.pushes = true
  · rw [scanOuts_hit L id outs idx f f m (Le.refl O f) h]
    have : outs.any (fun o => pushHit O f o.pushes) = true := List.any_eq_true.2 h
    simp [this]
  · have h' : ∀ o ∈ outs, pushHit O f o.pushes = false := by
      intro o ho
      cases hh : pushHit O f o.pushes with
      | false => rfl
      | true => exact absurd ⟨o, ho, hh⟩ h
    rw [scanOuts_no_hit O id outs idx f m h']
    have : outs.any (fun o => pushHit O f o.pushes) = false := by
      rw [List.any_eq_false]; intro o ho; simp [h' o ho]
    simp [this]

theorem mem_insIdxs {O : FilterOps F} (L : LawfulOn O G) (id : Bytes) (outs : List TxOut) (idx : Nat)
    (f : F) (i : Nat) :
    i ∈ insIdxs O id outs idx f ↔
      ∃ k o, i = idx + k ∧ outs[k]? = some o ∧ eligible (O.flags f) o = true ∧
        pushHit O (scanOuts O id (outs.take k) idx f false).1 o.pushes = true := by
  induction outs generalizing idx f with
  | nil => simp [insIdxs]
  | cons o os ih =>
    rw [insIdxs]
    constructor
    · intro hi
      by_cases hc : (pushHit O f o.pushes && eligible (O.flags f) o) = true
      · rw [if_pos hc] at hi
        simp only [Bool.and_eq_true] at hc
        rcases List.mem_cons.1 hi with rfl | hi
        · exact ⟨0, o, rfl, rfl, hc.2, by simpa [scanOuts_nil] using hc.1⟩
        · obtain ⟨k, o', rfl, hk, he, hp⟩ := (ih _ _).1 hi
          refine ⟨k+1, o', by omega, by simpa using hk, by rwa [L.add_flags] at he, ?_⟩
          rw [List.take_succ_cons, scanOuts_cons, if_pos hc.1, if_pos hc.2, scanOuts_fst_indep O _ _ _ _ true false]
          exact hp
      · rw [if_neg hc] at hi
        obtain ⟨k, o', rfl, hk, he, hp⟩ := (ih _ _).1 hi
        refine ⟨k+1, o', by omega, by simpa using hk, he, ?_⟩
        rw [List.take_succ_cons, scanOuts_cons]
        by_cases h1 : pushHit O f o.pushes = true
        · have h2 : eligible (O.flags f) o = false := by
            cases h2 : eligible (O.flags f) o with
            | false => rfl
            | true => simp [h1, h2] at hc
          rw [if_pos h1, h2]; simp only [Bool.false_eq_true, if_false]
          rw [scanOuts_fst_indep O _ _ _ _ true false]; exact hp
        · rw [if_neg h1]; exact hp
    · rintro ⟨k, o', rfl, hk, he, hp⟩
      cases k with
      | zero =>
        simp only [List.getElem?_cons_zero, Option.some.injEq] at hk
        subst hk
        simp only [List.take_zero, scanOuts_nil] at hp
        simp [hp, he]
      | succ k =>
        simp only [List.getElem?_cons_succ] at hk
        rw [List.take_succ_cons, scanOuts_cons] at hp
        by_cases hc : (pushHit O f o.pushes && eligible (O.flags f) o) = true
        · rw [if_pos hc]
          simp only [Bool.and_eq_true] at hc
          rw [if_pos hc.1, if_pos hc.2, scanOuts_fst_indep O _ _ _ _ true false] at hp
          exact List.mem_cons_of_mem _ ((ih _ _).2 ⟨k, o', by omega, hk, by rwa [L.add_flags], hp⟩)
        · rw [if_neg hc]
          refine (ih _ _).2 ⟨k, o', by omega, hk, he, ?_⟩
          by_cases h1 : pushHit O f o.pushes = true
          · have h2 : eligible (O.flags f) o = false := by
              cases h2 : eligible (O.flags f) o with
              | false => rfl
              | true => simp [h1, h2] at hc
            rw [if_pos h1, h2] at hp; simp only [Bool.false_eq_true, if_false] at hp
            rwa [scanOuts_fst_indep O _ _ _ _ true false] at hp
          · rwa [if_neg h1] at hp

/-! ## `matchTxAndUpdate` -/

theorem matchTx_fst (O : FilterOps F) (f : F) (tx : Tx) :
    (matchTxAndUpdate O f tx).1 = (scanOuts O tx.id tx.outs 0 f (O.test f tx.id)).1 := by
  unfold matchTxAndUpdate
  dsimp only
  split <;> simp_all

theorem matchTx_snd (O : FilterOps F) (f : F) (tx : Tx) :
    (matchTxAndUpdate O f tx).2 =
      ((scanOuts O tx.id tx.outs 0 f (O.test f tx.id)).2 ||
        tx.ins.any (inputMatches O (scanOuts O tx.id tx.outs 0 f (O.test f tx.id)).1)) := by
  unfold matchTxAndUpdate
  dsimp only
  split <;> simp_all

/-- the filter state when the outputs loop reaches output `i` -/
def filterAt (O : FilterOps F) (f : F) (tx : Tx) (i : Nat) : F :=
  (scanOuts O tx.id (tx.outs.take i) 0 f false).1

/-- indices of the outputs whose outpoints `matchTxAndUpdate` inserts -/
def updIdxs (O : FilterOps F) (f : F) (tx : Tx) : List Nat := insIdxs O tx.id tx.outs 0 f

/-- right-hand side of `C10_match_iff`: what BIP37 calls a relevant transaction -/
def Relevant (O : FilterOps F) (f : F) (tx : Tx) : Prop :=
  O.test f tx.id = true ∨
  (∃ out ∈ tx.outs, ∃ ps, out.pushes = some ps ∧ ∃ d ∈ ps, O.test f d = true) ∨
  (∃ inp ∈ tx.ins, O.test f (outPointBytes inp.prevHash inp.prevIdx) = true ∨
      ∃ ps, inp.pushes = some ps ∧ ∃ d ∈ ps, O.test f d = true)

theorem inputMatches_iff (O : FilterOps F) (f : F) (inp : TxIn) :
    inputMatches O f inp = true ↔
      (O.test f (outPointBytes inp.prevHash inp.prevIdx) = true ∨
        ∃ ps, inp.pushes = some ps ∧ ∃ d ∈ ps, O.test f d = true) := by
  have := pushHit_iff O f inp.pushes
  unfold inputMatches
  rw [Bool.or_eq_true, ← this]
  cases inp.pushes <;> simp [pushHit]

theorem Relevant.mono {O : FilterOps F} {f f' : F} (h : Le O f f') {tx : Tx} :
    Relevant O f tx → Relevant O f' tx := by
  rintro (h1 | ⟨o, ho, ps, hp, d, hd, ht⟩ | ⟨inp, hi, h3 | ⟨ps, hp, d, hd, ht⟩⟩)
  · exact Or.inl (h _ h1)
  · exact Or.inr (Or.inl ⟨o, ho, ps, hp, d, hd, h _ ht⟩)
  · exact Or.inr (Or.inr ⟨inp, hi, Or.inl (h _ h3)⟩)
  · exact Or.inr (Or.inr ⟨inp, hi, Or.inr ⟨ps, hp, d, hd, h _ ht⟩⟩)

theorem matchTx_iff {O : FilterOps F} (L : LawfulOn O G) (f : F) (tx : Tx) :
    (matchTxAndUpdate O f tx).2 = true ↔ Relevant O f tx := by
  rw [matchTx_snd, scanOuts_snd L, Relevant]
  by_cases h1 : O.test f tx.id = true
  · simp [h1]
  by_cases h2 : ∃ o ∈ tx.outs, pushHit O f o.pushes = true
  · have : tx.outs.any (fun o => pushHit O f o.pushes) = true := List.any_eq_true.2 h2
    simp only [this, Bool.or_true, Bool.true_or, true_iff]
    obtain ⟨o, ho, hit⟩ := h2
    exact Or.inr (Or.inl ⟨o, ho, (pushHit_iff O f _).1 hit⟩)
  · have h2' : ∀ o ∈ tx.outs, pushHit O f o.pushes = false := by
      intro o ho
      cases hh : pushHit O f o.pushes with
      | false => rfl
      | true => exact absurd ⟨o, ho, hh⟩ h2
    rw [scanOuts_no_hit O _ _ _ _ _ h2']
    have : tx.outs.any (fun o => pushHit O f o.pushes) = false := by
      rw [List.any_eq_false]; intro o ho; simp [h2' o ho]
    simp only [this, Bool.or_false]
    have hf : O.test f tx.id = false := by simpa using h1
    simp only [hf, Bool.false_or, List.any_eq_true, inputMatches_iff]
    constructor
    · rintro ⟨inp, hi, h⟩; exact Or.inr (Or.inr ⟨inp, hi, h⟩)
    · rintro (h | ⟨o, ho, h⟩ | h)
      · simp at h
      · exact absurd ⟨o, ho, (pushHit_iff O f _).2 h⟩ h2
      · exact h

theorem matchTx_filter (O : FilterOps F) (f : F) (tx : Tx) :
    (matchTxAndUpdate O f tx).1 = addAll O f ((updIdxs O f tx).map (outPointBytes tx.id)) := by
  rw [matchTx_fst, scanOuts_fst]; rfl

theorem matchTx_le {O : FilterOps F} (L : LawfulOn O G) (f : F) (tx : Tx) :
    Le O f (matchTxAndUpdate O f tx).1 := by
  rw [matchTx_filter]; exact le_addAll L _ _

theorem matchTx_good {O : FilterOps F} (L : LawfulOn O G) (f : F) (tx : Tx) (hG : G f) :
    G (matchTxAndUpdate O f tx).1 := by
  rw [matchTx_filter]; exact good_addAll L _ _ hG

theorem matchTx_flags {O : FilterOps F} (L : LawfulOn O G) (f : F) (tx : Tx) :
    O.flags (matchTxAndUpdate O f tx).1 = O.flags f := by
  rw [matchTx_filter]; exact addAll_flags L _ _

theorem mem_updIdxs {O : FilterOps F} (L : LawfulOn O G) (f : F) (tx : Tx) (i : Nat) :
    i ∈ updIdxs O f tx ↔
      ∃ o, tx.outs[i]? = some o ∧ eligible (O.flags f) o = true ∧
        pushHit O (filterAt O f tx i) o.pushes = true := by
  unfold updIdxs filterAt
  rw [mem_insIdxs L]
  constructor
  · rintro ⟨k, o, rfl, hk, he, hp⟩; exact ⟨o, by simpa using hk, he, by simpa using hp⟩
  · rintro ⟨o, hk, he, hp⟩; exact ⟨i, o, by simp, hk, he, hp⟩

theorem le_filterAt {O : FilterOps F} (L : LawfulOn O G) (f : F) (tx : Tx) (i : Nat) :
    Le O f (filterAt O f tx i) := by
  unfold filterAt; rw [scanOuts_fst]; exact le_addAll L _ _

/-- a verdict `false` means nothing was inserted -/
theorem matchTx_false_filter {O : FilterOps F} (L : LawfulOn O G) (f : F) (tx : Tx)
    (h : (matchTxAndUpdate O f tx).2 = false) : (matchTxAndUpdate O f tx).1 = f := by
  rw [matchTx_snd, scanOuts_snd L] at h
  simp only [Bool.or_eq_false_iff] at h
  have h2 : ∀ o ∈ tx.outs, pushHit O f o.pushes = false := by
    intro o ho; have := List.any_eq_false.1 h.1.2 o ho; simpa using this
  rw [matchTx_fst, scanOuts_no_hit O _ _ _ _ _ h2]

theorem filterAt_le_result {O : FilterOps F} (L : LawfulOn O G) (f : F) (tx : Tx) (i : Nat) :
    Le O (filterAt O f tx i) (matchTxAndUpdate O f tx).1 := by
  rw [matchTx_fst, scanOuts_fst_indep O _ _ _ _ _ false]
  conv => rhs; rw [← List.take_append_drop i tx.outs, scanOuts_append, scanOuts_fst]
  exact le_addAll L _ _

/-! ## The block scan: equation lemmas and generic invariants -/

/-- `matchedIndices[i] = true` on the list-as-set representation -/
def markMatched (l : List Nat) (i : Nat) : List Nat := if l.contains i then l else i :: l

theorem mem_markMatched (l : List Nat) (i j : Nat) : j ∈ markMatched l i ↔ j = i ∨ j ∈ l := by
  unfold markMatched
  split
  · rename_i h
    have : i ∈ l := by simpa using h
    constructor
    · exact Or.inr
    · rintro (rfl | h) <;> assumption
  · simp

/-- one evaluation of the repaired scan (everything `checkFilterTx` does before recursing) -/
def evalStep (O : FilterOps F) (same : F → F → Bool) (tx : Tx) (i : Nat) (s : Scan F) : Scan F :=
  { s with
    checkedAt := (i, s.version) :: s.checkedAt.filter (·.1 ≠ i)
    filter := (matchTxAndUpdate O s.filter tx).1
    steps := s.steps + 1
    version := if same s.filter (matchTxAndUpdate O s.filter tx).1 then s.version else s.version + 1
    matched := if (matchTxAndUpdate O s.filter tx).2 then markMatched s.matched i else s.matched }

/-- one evaluation of the reference scan -/
def evalStepRef (O : FilterOps F) (tx : Tx) (i : Nat) (s : Scan F) : Scan F :=
  { s with
    filter := (matchTxAndUpdate O s.filter tx).1
    steps := s.steps + 1
    matched := if (matchTxAndUpdate O s.filter tx).2 then markMatched s.matched i else s.matched }

section scan
variable (O : FilterOps F) (same : F → F → Bool) (block : Array Tx) (inputs : Inputs)

theorem checkFilterTx_zero (i : Nat) (s : Scan F) :
    checkFilterTx O same block inputs 0 i s = { s with outOfFuel := true } := rfl

theorem checkFilterTx_succ (fuel i : Nat) (s : Scan F) :
    checkFilterTx O same block inputs (fuel+1) i s =
      match block[i]? with
      | none => s
      | some tx =>
        if s.checkedAt.lookup i = some s.version then s
        else if (matchTxAndUpdate O s.filter tx).2 = true then
          (dependants block inputs tx.id).foldl
            (fun s d => checkFilterTx O same block inputs fuel d s) (evalStep O same tx i s)
        else evalStep O same tx i s := by
  rw [checkFilterTx]
  cases block[i]? with
  | none => rfl
  | some tx =>
    dsimp only
    split
    · rfl
    · cases h : (matchTxAndUpdate O s.filter tx).2 <;> simp [evalStep, markMatched, h]

theorem checkFilterTxRef_zero (i : Nat) (s : Scan F) :
    checkFilterTxRef O block inputs 0 i s = { s with outOfFuel := true } := rfl

theorem checkFilterTxRef_succ (fuel i : Nat) (s : Scan F) :
    checkFilterTxRef O block inputs (fuel+1) i s =
      match block[i]? with
      | none => s
      | some tx =>
        if (matchTxAndUpdate O s.filter tx).2 = true then
          (dependants block inputs tx.id).foldl
            (fun s d => checkFilterTxRef O block inputs fuel d s) (evalStepRef O tx i s)
        else evalStepRef O tx i s := by
  rw [checkFilterTxRef]
  cases block[i]? with
  | none => rfl
  | some tx =>
    dsimp only
    cases h : (matchTxAndUpdate O s.filter tx).2 <;> simp [evalStepRef, markMatched, h]

theorem mem_dependants (h : Bytes) (d : Nat) :
    d ∈ dependants block inputs h ↔ (h, d) ∈ inputs ∧ d < block.size := by
  unfold dependants
  simp only [List.mem_filter, List.mem_map, decide_eq_true_eq]
  constructor
  · rintro ⟨⟨⟨a, b⟩, ⟨hm, ha⟩, rfl⟩, hd⟩
    simp only at ha
    subst ha
    exact ⟨hm, hd⟩
  · rintro ⟨hm, hd⟩
    exact ⟨⟨(h, d), ⟨hm, rfl⟩, rfl⟩, hd⟩

end scan

theorem foldl_inv {α β : Type} (P : α → Prop) (g : α → β → α) (l : List β)
    (h : ∀ a b, b ∈ l → P a → P (g a b)) (a : α) (ha : P a) : P (l.foldl g a) := by
  induction l generalizing a with
  | nil => exact ha
  | cons b bs ih =>
    exact ih (fun a b' hb' => h a b' (List.mem_cons_of_mem _ hb')) _ (h a b (by simp) ha)

/-- generic invariant principle for the repaired check: `P` is preserved by running out of fuel and
    by every evaluation of an allowed index (`R` holds of the start index and of all dependants) -/
theorem checkFilterTx_inv (O : FilterOps F) (same : F → F → Bool) (block : Array Tx) (inputs : Inputs)
    (P : Scan F → Prop) (R : Nat → Prop)
    (hR : ∀ h d, d ∈ dependants block inputs h → R d)
    (hfuel : ∀ s, P s → P { s with outOfFuel := true })
    (hstep : ∀ s i tx, R i → block[i]? = some tx → s.checkedAt.lookup i ≠ some s.version →
      P s → P (evalStep O same tx i s)) :
    ∀ fuel i s, R i → P s → P (checkFilterTx O same block inputs fuel i s) := by
  intro fuel
  induction fuel with
  | zero => intro i s _ hs; exact hfuel s hs
  | succ fuel ih =>
    intro i s hi hs
    rw [checkFilterTx_succ]
    cases hb : block[i]? with
    | none => exact hs
    | some tx =>
      dsimp only
      split
      · exact hs
      · rename_i hne
        have h1 := hstep s i tx hi hb hne hs
        split
        · exact foldl_inv P _ _ (fun a d hd ha => ih d a (hR _ _ hd) ha) _ h1
        · exact h1

theorem checkFilterTxRef_inv (O : FilterOps F) (block : Array Tx) (inputs : Inputs)
    (P : Scan F → Prop) (R : Nat → Prop)
    (hR : ∀ h d, d ∈ dependants block inputs h → R d)
    (hfuel : ∀ s, P s → P { s with outOfFuel := true })
    (hstep : ∀ s i tx, R i → block[i]? = some tx → P s → P (evalStepRef O tx i s)) :
    ∀ fuel i s, R i → P s → P (checkFilterTxRef O block inputs fuel i s) := by
  intro fuel
  induction fuel with
  | zero => intro i s _ hs; exact hfuel s hs
  | succ fuel ih =>
    intro i s hi hs
    rw [checkFilterTxRef_succ]
    cases hb : block[i]? with
    | none => exact hs
    | some tx =>
      dsimp only
      have h1 := hstep s i tx hi hb hs
      split
      · exact foldl_inv P _ _ (fun a d hd ha => ih d a (hR _ _ hd) ha) _ h1
      · exact h1

/-- the inputs multimap after registering transactions `0..n-1` -/
def InputsUpTo (block : Array Tx) (inputs : Inputs) (n : Nat) : Prop :=
  ∀ h k, (h, k) ∈ inputs ↔ k < n ∧ ∃ u, block[k]? = some u ∧ ∃ inp ∈ u.ins, inp.prevHash = h

theorem InputsUpTo.nil (block : Array Tx) : InputsUpTo block [] 0 := by
  intro h k; simp

theorem InputsUpTo.step {block : Array Tx} {inputs : Inputs} {i : Nat} {tx : Tx}
    (H : InputsUpTo block inputs i) (hb : block[i]? = some tx) :
    InputsUpTo block (inputs ++ tx.ins.map (fun inp => (inp.prevHash, i))) (i+1) := by
  intro h k
  rw [List.mem_append, H h k]
  simp only [List.mem_map, Prod.mk.injEq]
  constructor
  · rintro (⟨hk, hu⟩ | ⟨inp, hi, rfl, rfl⟩)
    · exact ⟨by omega, hu⟩
    · exact ⟨by omega, tx, hb, inp, hi, rfl⟩
  · rintro ⟨hk, u, hu, inp, hi, rfl⟩
    by_cases hki : k = i
    · subst hki
      rw [hb] at hu; cases hu
      exact Or.inr ⟨inp, hi, rfl, rfl⟩
    · exact Or.inl ⟨by omega, u, hu, inp, hi, rfl⟩

/-- generic induction principle for the outer loop started at 0 with `block.size` iterations -/
theorem scanLoop_inv (block : Array Tx) (check : Inputs → Nat → Scan F → Scan F)
    (P : Nat → Inputs → Scan F → Prop)
    (hstep : ∀ i inputs s tx, block[i]? = some tx → P i inputs s →
      P (i+1) (inputs ++ tx.ins.map (fun inp => (inp.prevHash, i)))
        (check (inputs ++ tx.ins.map (fun inp => (inp.prevHash, i))) i s)) :
    ∀ n i inputs s, i + n = block.size → P i inputs s →
      ∃ inputs', P block.size inputs' (scanLoop check block i n inputs s) := by
  intro n
  induction n with
  | zero => intro i inputs s hn hP; exact ⟨inputs, by rw [scanLoop]; simpa [← hn] using hP⟩
  | succ n ih =>
    intro i inputs s hn hP
    rw [scanLoop]
    have hi : i < block.size := by omega
    have hb : block[i]? = some block[i] := Array.getElem?_eq_getElem hi
    rw [hb]
    exact ih (i+1) _ _ (by omega) (hstep i inputs s _ hb hP)

/-! ## Frame: what every check preserves -/

/-- `s'` extends `s`: filter, matched set and version only grow, the update flag is constant,
    and running out of fuel is sticky -/
structure Ext (O : FilterOps F) (s s' : Scan F) : Prop where
  filter : Le O s.filter s'.filter
  matched : ∀ i ∈ s.matched, i ∈ s'.matched
  flags : O.flags s'.filter = O.flags s.filter
  fuel : s'.outOfFuel = false → s.outOfFuel = false
  version : s.version ≤ s'.version

theorem Ext.refl (O : FilterOps F) (s : Scan F) : Ext O s s :=
  ⟨Le.refl O _, fun _ h => h, rfl, id, Nat.le_refl _⟩

theorem Ext.trans {O : FilterOps F} {a b c : Scan F} (h1 : Ext O a b) (h2 : Ext O b c) : Ext O a c :=
  ⟨Le.trans h1.filter h2.filter, fun i hi => h2.matched i (h1.matched i hi),
   h2.flags.trans h1.flags, fun h => h1.fuel (h2.fuel h), Nat.le_trans h1.version h2.version⟩

theorem Ext.outOfFuel (O : FilterOps F) (s : Scan F) : Ext O s { s with outOfFuel := true } :=
  ⟨Le.refl O _, fun _ h => h, rfl, fun h => by simp at h, Nat.le_refl _⟩

theorem Ext.evalStep {O : FilterOps F} (L : LawfulOn O G) (same : F → F → Bool) (tx : Tx) (i : Nat)
    (s : Scan F) : Ext O s (evalStep O same tx i s) := by
  refine ⟨matchTx_le L _ _, ?_, matchTx_flags L _ _, id, ?_⟩
  · intro j hj
    show j ∈ (if _ then _ else _)
    split
    · exact (mem_markMatched _ _ _).2 (Or.inr hj)
    · exact hj
  · show s.version ≤ (if _ then _ else _)
    split
    · exact Nat.le_refl _
    · exact Nat.le_succ _

theorem Ext.evalStepRef {O : FilterOps F} (L : LawfulOn O G) (tx : Tx) (i : Nat)
    (s : Scan F) : Ext O s (evalStepRef O tx i s) := by
  refine ⟨matchTx_le L _ _, ?_, matchTx_flags L _ _, id, Nat.le_refl _⟩
  intro j hj
  show j ∈ (if _ then _ else _)
  split
  · exact (mem_markMatched _ _ _).2 (Or.inr hj)
  · exact hj

theorem check_ext {O : FilterOps F} (L : LawfulOn O G) (same : F → F → Bool) (block : Array Tx)
    (inputs : Inputs) (fuel i : Nat) (s : Scan F) :
    Ext O s (checkFilterTx O same block inputs fuel i s) :=
  checkFilterTx_inv O same block inputs (fun s' => Ext O s s') (fun _ => True) (fun _ _ _ => trivial)
    (fun s' h => h.trans (Ext.outOfFuel O s'))
    (fun s' j tx _ _ _ h => h.trans (Ext.evalStep L same tx j s')) fuel i s trivial (Ext.refl O s)

theorem check_good {O : FilterOps F} (L : LawfulOn O G) (same : F → F → Bool) (block : Array Tx)
    (inputs : Inputs) (fuel i : Nat) (s : Scan F) (h : G s.filter) :
    G (checkFilterTx O same block inputs fuel i s).filter :=
  checkFilterTx_inv O same block inputs (fun s' => G s'.filter) (fun _ => True) (fun _ _ _ => trivial)
    (fun _ h => h)
    (fun s' _ tx _ _ _ h => matchTx_good L s'.filter tx h) fuel i s trivial h

theorem checkRef_ext {O : FilterOps F} (L : LawfulOn O G) (block : Array Tx)
    (inputs : Inputs) (fuel i : Nat) (s : Scan F) :
    Ext O s (checkFilterTxRef O block inputs fuel i s) :=
  checkFilterTxRef_inv O block inputs (fun s' => Ext O s s') (fun _ => True) (fun _ _ _ => trivial)
    (fun s' h => h.trans (Ext.outOfFuel O s'))
    (fun s' j tx _ _ h => h.trans (Ext.evalStepRef L tx j s')) fuel i s trivial (Ext.refl O s)

theorem foldl_ext {O : FilterOps F} (g : Scan F → Nat → Scan F) (hg : ∀ s d, Ext O s (g s d))
    (l : List Nat) (s : Scan F) : Ext O s (l.foldl g s) :=
  foldl_inv (fun s' => Ext O s s') g l (fun a b _ h => h.trans (hg a b)) s (Ext.refl O s)

/-! ## `checkedAt` bookkeeping -/

theorem lookup_filter_ne (l : List (Nat × Nat)) (i k : Nat) (h : k ≠ i) :
    (l.filter (·.1 ≠ i)).lookup k = l.lookup k := by
  induction l with
  | nil => rfl
  | cons a l ih =>
    obtain ⟨a1, a2⟩ := a
    rw [List.filter_cons]
    by_cases ha : a1 = i
    · subst ha
      have : (k == a1) = false := by simpa using h
      rw [if_neg (by simp), ih, List.lookup_cons, this]
    · rw [if_pos (by simpa using ha), List.lookup_cons, List.lookup_cons, ih]

theorem lookup_evalStep (O : FilterOps F) (same : F → F → Bool) (tx : Tx) (i : Nat) (s : Scan F) (k : Nat) :
    (evalStep O same tx i s).checkedAt.lookup k =
      if k = i then some s.version else s.checkedAt.lookup k := by
  show ((i, s.version) :: s.checkedAt.filter (·.1 ≠ i)).lookup k = _
  by_cases h : k = i
  · subst h; simp
  · have : (k == i) = false := by simpa using h
    rw [List.lookup_cons, this, if_neg h]
    exact lookup_filter_ne _ _ _ h

/-! ## Monotonicity and soundness of the scans -/

/-- every reported index is a transaction of the block relevant to the current filter -/
def SoundInv (O : FilterOps F) (block : Array Tx) (s : Scan F) : Prop :=
  ∀ i ∈ s.matched, ∃ tx, block[i]? = some tx ∧ Relevant O s.filter tx

theorem soundInv_step {O : FilterOps F} (L : LawfulOn O G) (block : Array Tx) (s : Scan F) (i : Nat)
    (tx : Tx) (hb : block[i]? = some tx) (h : SoundInv O block s)
    (f' : F) (hf' : f' = (matchTxAndUpdate O s.filter tx).1) (m' : List Nat)
    (hm' : m' = if (matchTxAndUpdate O s.filter tx).2 then markMatched s.matched i else s.matched) :
    ∀ j ∈ m', ∃ tx, block[j]? = some tx ∧ Relevant O f' tx := by
  subst hf' hm'
  have hle := matchTx_le L s.filter tx
  intro j hj
  by_cases hm : (matchTxAndUpdate O s.filter tx).2 = true
  · rw [if_pos hm] at hj
    rcases (mem_markMatched _ _ _).1 hj with rfl | hj
    · exact ⟨tx, hb, Relevant.mono hle ((matchTx_iff L _ _).1 hm)⟩
    · obtain ⟨t, ht, hr⟩ := h j hj
      exact ⟨t, ht, Relevant.mono hle hr⟩
  · rw [if_neg hm] at hj
    obtain ⟨t, ht, hr⟩ := h j hj
    exact ⟨t, ht, Relevant.mono hle hr⟩

theorem check_sound {O : FilterOps F} (L : LawfulOn O G) (same : F → F → Bool) (block : Array Tx)
    (inputs : Inputs) (fuel i : Nat) (s : Scan F) (h : SoundInv O block s) :
    SoundInv O block (checkFilterTx O same block inputs fuel i s) :=
  checkFilterTx_inv O same block inputs (SoundInv O block) (fun _ => True) (fun _ _ _ => trivial)
    (fun _ h => h)
    (fun s' j tx _ hb _ h => soundInv_step L block s' j tx hb h _ rfl _ rfl) fuel i s trivial h

theorem checkRef_sound {O : FilterOps F} (L : LawfulOn O G) (block : Array Tx)
    (inputs : Inputs) (fuel i : Nat) (s : Scan F) (h : SoundInv O block s) :
    SoundInv O block (checkFilterTxRef O block inputs fuel i s) :=
  checkFilterTxRef_inv O block inputs (SoundInv O block) (fun _ => True) (fun _ _ _ => trivial)
    (fun _ h => h)
    (fun s' j tx _ hb h => soundInv_step L block s' j tx hb h _ rfl _ rfl) fuel i s trivial h

/-- an invariant of the check that does not mention the loop position is an invariant of the scan -/
theorem scanLoop_simple (block : Array Tx) (check : Inputs → Nat → Scan F → Scan F) (P : Scan F → Prop)
    (hcheck : ∀ inputs i s, P s → P (check inputs i s)) (s : Scan F) (hs : P s) :
    P (scanLoop check block 0 block.size [] s) := by
  obtain ⟨_, h⟩ := scanLoop_inv block check (fun _ _ s => P s)
    (fun i inputs s tx _ h => hcheck _ i s h) block.size 0 [] s (by omega) hs
  exact h

theorem scan_ext {O : FilterOps F} (L : LawfulOn O G) (same : F → F → Bool) (fuel : Nat)
    (block : Array Tx) (f : F) :
    Ext O { filter := f, matched := [] } (GetMatchedIndices O same fuel block f) :=
  scanLoop_simple block _ (fun s' => Ext O { filter := f, matched := [] } s')
    (fun inputs i s h => h.trans (check_ext L same block inputs fuel i s)) _ (Ext.refl O _)

theorem scanRef_ext {O : FilterOps F} (L : LawfulOn O G) (fuel : Nat)
    (block : Array Tx) (f : F) :
    Ext O { filter := f, matched := [] } (GetMatchedIndicesRef O fuel block f) :=
  scanLoop_simple block _ (fun s' => Ext O { filter := f, matched := [] } s')
    (fun inputs i s h => h.trans (checkRef_ext L block inputs fuel i s)) _ (Ext.refl O _)

theorem scan_sound {O : FilterOps F} (L : LawfulOn O G) (same : F → F → Bool) (fuel : Nat)
    (block : Array Tx) (f : F) : SoundInv O block (GetMatchedIndices O same fuel block f) :=
  scanLoop_simple block _ (SoundInv O block)
    (fun inputs i s h => check_sound L same block inputs fuel i s h) _ (by intro i hi; cases hi)

theorem scanRef_sound {O : FilterOps F} (L : LawfulOn O G) (fuel : Nat)
    (block : Array Tx) (f : F) : SoundInv O block (GetMatchedIndicesRef O fuel block f) :=
  scanLoop_simple block _ (SoundInv O block)
    (fun inputs i s h => checkRef_sound L block inputs fuel i s h) _ (by intro i hi; cases hi)

/-! ## Completeness (a): every transaction relevant to the loaded filter is reported -/

/-- all keys of `checkedAt` are below `n` -/
def KInv (n : Nat) (s : Scan F) : Prop := ∀ k w, s.checkedAt.lookup k = some w → k < n

theorem check_kinv (O : FilterOps F) (same : F → F → Bool) (block : Array Tx) (inputs : Inputs)
    (n : Nat) (hin : ∀ h d, (h, d) ∈ inputs → d < n) (fuel i : Nat) (hi : i < n) (s : Scan F)
    (h : KInv n s) : KInv n (checkFilterTx O same block inputs fuel i s) :=
  checkFilterTx_inv O same block inputs (KInv n) (· < n)
    (fun h d hd => hin h d ((mem_dependants block inputs h d).1 hd).1)
    (fun _ h => h)
    (fun s' j tx hj _ _ h k w hk => by
      rw [lookup_evalStep] at hk
      by_cases hkj : k = j
      · subst hkj; exact hj
      · rw [if_neg hkj] at hk; exact h k w hk) fuel i s hi h

/-- the first check of a transaction at its own turn, with at least one unit of fuel -/
theorem check_own_turn {O : FilterOps F} (L : LawfulOn O G) (same : F → F → Bool) (block : Array Tx)
    (inputs : Inputs) (fuel i : Nat) (s : Scan F) (tx : Tx) (hb : block[i]? = some tx)
    (hk : KInv i s) (hr : Relevant O s.filter tx) :
    i ∈ (checkFilterTx O same block inputs (fuel+1) i s).matched := by
  rw [checkFilterTx_succ, hb]
  dsimp only
  have hne : s.checkedAt.lookup i ≠ some s.version := by
    intro h; exact absurd (hk i _ h) (Nat.lt_irrefl i)
  rw [if_neg hne, if_pos ((matchTx_iff L _ _).2 hr)]
  refine (foldl_ext _ (fun s d => check_ext L same block inputs fuel d s) _ _).matched i ?_
  show i ∈ (if _ then _ else _)
  rw [if_pos ((matchTx_iff L _ _).2 hr)]
  exact (mem_markMatched _ _ _).2 (Or.inl rfl)

theorem scan_complete_a {O : FilterOps F} (L : LawfulOn O G) (same : F → F → Bool) (fuel : Nat)
    (block : Array Tx) (f : F) (i : Nat) (tx : Tx) (hb : block[i]? = some tx) (hr : Relevant O f tx) :
    i ∈ (GetMatchedIndices O same (fuel+1) block f).matched := by
  obtain ⟨_, h⟩ := scanLoop_inv block
    (fun inputs i s => checkFilterTx O same block inputs (fuel+1) i s)
    (fun n inputs s => InputsUpTo block inputs n ∧ Le O f s.filter ∧ KInv n s ∧
      ∀ k < n, ∀ u, block[k]? = some u → Relevant O f u → k ∈ s.matched)
    (by
      rintro j inputs s t hj ⟨hI, hle, hK, hM⟩
      have hI' := hI.step hj
      have hext := check_ext L same block (inputs ++ t.ins.map (fun inp => (inp.prevHash, j))) (fuel+1) j s
      refine ⟨hI', Le.trans hle hext.filter, ?_, ?_⟩
      · refine check_kinv O same block _ (j+1) (fun h d hd => ((hI' h d).1 hd).1) _ j (by omega) s ?_
        intro k w hk; have := hK k w hk; omega
      · intro k hk u hu hru
        by_cases hkj : k = j
        · subst hkj
          rw [hj] at hu; cases hu
          exact check_own_turn L same block _ fuel k s t hj hK (Relevant.mono hle hru)
        · exact hext.matched k (hM k (by omega) u hu hru))
    block.size 0 [] { filter := f, matched := [] } (by omega)
    ⟨InputsUpTo.nil block, Le.refl O f, by intro k w hk; simp at hk, by intro k hk; omega⟩
  have hi : i < block.size := by
    rcases Nat.lt_or_ge i block.size with h | h
    · exact h
    · rw [Array.getElem?_eq_none h] at hb; cases hb
  exact h.2.2.2 i hi tx hb hr

/-! ## The skip is sound: `checkedAt[k] = version` means "evaluated against exactly this filter" -/

/-- `same` never reports "unchanged" after insertions that changed the filter.
    (Implied by `∀ f f', same f f' = true → f' = f`; for the real bloom filter `bloomSame` compares the
    bit arrays and `add` changes nothing else.) -/
def SameSound (O : FilterOps F) (same : F → F → Bool) : Prop :=
  ∀ f xs, same f (addAll O f xs) = true → addAll O f xs = f

@[simp] theorem evalStep_filter (O : FilterOps F) (same : F → F → Bool) (tx : Tx) (i : Nat) (s : Scan F) :
    (evalStep O same tx i s).filter = (matchTxAndUpdate O s.filter tx).1 := rfl
@[simp] theorem evalStep_version (O : FilterOps F) (same : F → F → Bool) (tx : Tx) (i : Nat) (s : Scan F) :
    (evalStep O same tx i s).version =
      if same s.filter (matchTxAndUpdate O s.filter tx).1 then s.version else s.version + 1 := rfl
@[simp] theorem evalStep_matched (O : FilterOps F) (same : F → F → Bool) (tx : Tx) (i : Nat) (s : Scan F) :
    (evalStep O same tx i s).matched =
      if (matchTxAndUpdate O s.filter tx).2 then markMatched s.matched i else s.matched := rfl
@[simp] theorem evalStep_outOfFuel (O : FilterOps F) (same : F → F → Bool) (tx : Tx) (i : Nat) (s : Scan F) :
    (evalStep O same tx i s).outOfFuel = s.outOfFuel := rfl
@[simp] theorem evalStep_steps (O : FilterOps F) (same : F → F → Bool) (tx : Tx) (i : Nat) (s : Scan F) :
    (evalStep O same tx i s).steps = s.steps + 1 := rfl

/-- version bookkeeping invariant of the repaired scan -/
structure VInv (O : FilterOps F) (block : Array Tx) (s : Scan F) : Prop where
  le : ∀ k w, s.checkedAt.lookup k = some w → w ≤ s.version
  cur : ∀ k tx, block[k]? = some tx → s.checkedAt.lookup k = some s.version →
    (matchTxAndUpdate O s.filter tx).1 = s.filter ∧
      ((matchTxAndUpdate O s.filter tx).2 = true → k ∈ s.matched)

theorem VInv.init (O : FilterOps F) (block : Array Tx) (f : F) :
    VInv O block { filter := f, matched := [] } :=
  ⟨by intro k w h; simp at h, by intro k tx _ h; simp at h⟩

theorem VInv.evalStep {O : FilterOps F} {same : F → F → Bool} (hs : SameSound O same) {block : Array Tx}
    {s : Scan F} (h : VInv O block s) (i : Nat) (tx : Tx) (hb : block[i]? = some tx) :
    VInv O block (evalStep O same tx i s) := by
  by_cases hsame : same s.filter (matchTxAndUpdate O s.filter tx).1 = true
  · have heq : (matchTxAndUpdate O s.filter tx).1 = s.filter := by
      rw [matchTx_filter] at hsame ⊢; exact hs _ _ hsame
    constructor
    · intro k w hk
      rw [lookup_evalStep] at hk
      rw [evalStep_version, if_pos hsame]
      by_cases hki : k = i
      · rw [if_pos hki] at hk; cases hk; exact Nat.le_refl _
      · rw [if_neg hki] at hk; exact h.le k w hk
    · intro k t hk hl
      rw [lookup_evalStep, evalStep_version, if_pos hsame] at hl
      rw [evalStep_filter, evalStep_matched, heq]
      by_cases hki : k = i
      · subst hki
        rw [hb] at hk; cases hk
        refine ⟨heq, fun hm => ?_⟩
        rw [if_pos hm]; exact (mem_markMatched _ _ _).2 (Or.inl rfl)
      · rw [if_neg hki] at hl
        obtain ⟨h1, h2⟩ := h.cur k t hk hl
        refine ⟨h1, fun hm => ?_⟩
        split
        · exact (mem_markMatched _ _ _).2 (Or.inr (h2 hm))
        · exact h2 hm
  · constructor
    · intro k w hk
      rw [lookup_evalStep] at hk
      rw [evalStep_version, if_neg hsame]
      by_cases hki : k = i
      · rw [if_pos hki] at hk; cases hk; exact Nat.le_succ _
      · rw [if_neg hki] at hk; exact Nat.le_succ_of_le (h.le k w hk)
    · intro k t hk hl
      rw [lookup_evalStep, evalStep_version, if_neg hsame] at hl
      by_cases hki : k = i
      · rw [if_pos hki] at hl
        exact absurd (Option.some.inj hl) (by omega)
      · rw [if_neg hki] at hl
        exact absurd (h.le k _ hl) (by omega)

theorem check_vinv {O : FilterOps F} {same : F → F → Bool} (hs : SameSound O same) (block : Array Tx)
    (inputs : Inputs) (fuel i : Nat) (s : Scan F) (h : VInv O block s) :
    VInv O block (checkFilterTx O same block inputs fuel i s) :=
  checkFilterTx_inv O same block inputs (VInv O block) (fun _ => True) (fun _ _ _ => trivial)
    (fun _ h => ⟨h.le, h.cur⟩)
    (fun _ j tx _ hb _ h => h.evalStep hs j tx hb) fuel i s trivial h

/-! ## Completeness (b): every inserted outpoint has all its in-block spenders reported -/

/-- `u` has an input spending output `i` of the transaction with id `h` -/
def Spends (u : Tx) (h : Bytes) (i : Nat) : Prop := ∃ inp ∈ u.ins, inp.prevHash = h ∧ inp.prevIdx = i

/-- serialised outpoint of an (id, output index) pair -/
abbrev opBytes (e : Bytes × Nat) : Bytes := outPointBytes e.1 e.2

/-- where an inserted outpoint came from: an eligible output, with a push matching the current
    filter, of a reported transaction of the block -/
def Orig (O : FilterOps F) (block : Array Tx) (s : Scan F) (e : Bytes × Nat) : Prop :=
  ∃ j t, j ∈ s.matched ∧ block[j]? = some t ∧ t.id = e.1 ∧
    ∃ o, t.outs[e.2]? = some o ∧ eligible (O.flags s.filter) o = true ∧
      pushHit O s.filter o.pushes = true

/-- every spender of `e` among the first `n` transactions is reported -/
def OblB (block : Array Tx) (n : Nat) (s : Scan F) (e : Bytes × Nat) : Prop :=
  ∀ k < n, ∀ u, block[k]? = some u → Spends u e.1 e.2 → k ∈ s.matched

theorem Orig.mono {O : FilterOps F} {block : Array Tx} {s s' : Scan F} (h : Ext O s s') {e : Bytes × Nat} :
    Orig O block s e → Orig O block s' e := by
  rintro ⟨j, t, hj, hb, hid, o, ho, he, hp⟩
  exact ⟨j, t, h.matched j hj, hb, hid, o, ho, by rw [h.flags]; exact he, pushHit_mono h.filter _ hp⟩

theorem OblB.mono {O : FilterOps F} {block : Array Tx} {n : Nat} {s s' : Scan F} (h : Ext O s s')
    {e : Bytes × Nat} : OblB block n s e → OblB block n s' e :=
  fun H k hk u hu hs => h.matched k (H k hk u hu hs)

/-- between `s` and `s'` the filter grew by a list of outpoints, each with a known origin and with
    all its spenders among the first `n` transactions reported; and the list contains the outpoint
    of every eligible output, with a push matching the loaded filter `f0`, of every newly reported
    transaction -/
def InsertedOK (O : FilterOps F) (block : Array Tx) (n : Nat) (f0 : F) (s s' : Scan F) : Prop :=
  ∃ Lnew : List (Bytes × Nat), s'.filter = addAll O s.filter (Lnew.map opBytes) ∧
    (∀ e ∈ Lnew, Orig O block s' e ∧ OblB block n s' e) ∧
    (∀ j ∈ s'.matched, j ∈ s.matched ∨ ∀ t i o, block[j]? = some t → t.outs[i]? = some o →
        eligible (O.flags s'.filter) o = true → pushHit O f0 o.pushes = true → (t.id, i) ∈ Lnew)

theorem InsertedOK.nil (O : FilterOps F) (block : Array Tx) (n : Nat) (f0 : F) (s : Scan F) :
    InsertedOK O block n f0 s s :=
  ⟨[], rfl, (by intro e he; cases he), fun _ hj => Or.inl hj⟩

theorem InsertedOK.append {O : FilterOps F} {block : Array Tx} {n : Nat} {f0 : F} {s s1 s' : Scan F}
    (hext : Ext O s1 s') (h1 : InsertedOK O block n f0 s s1) (h2 : InsertedOK O block n f0 s1 s') :
    InsertedOK O block n f0 s s' := by
  obtain ⟨L1, e1, p1, c1⟩ := h1
  obtain ⟨L2, e2, p2, c2⟩ := h2
  refine ⟨L1 ++ L2, by rw [List.map_append, addAll_append, ← e1, e2], ?_, ?_⟩
  · intro e he
    rcases List.mem_append.1 he with h | h
    · exact ⟨(p1 e h).1.mono hext, (p1 e h).2.mono hext⟩
    · exact p2 e h
  · intro j hj
    rcases c2 j hj with h | h
    · rcases c1 j h with h' | h'
      · exact Or.inl h'
      · exact Or.inr fun t i o ht ho he hp =>
          List.mem_append_left _ (h' t i o ht ho (by rw [← hext.flags]; exact he) hp)
    · exact Or.inr fun t i o ht ho he hp => List.mem_append_right _ (h t i o ht ho he hp)

/-- postcondition of one (recursive) check of index `k` -/
structure CheckPost (O : FilterOps F) (block : Array Tx) (n : Nat) (f0 : F) (k : Nat) (s s' : Scan F) : Prop where
  self : ∀ u, block[k]? = some u → Relevant O s.filter u → k ∈ s'.matched
  ins : InsertedOK O block n f0 s s'

section post
variable {O : FilterOps F} {G : F → Prop} (L : LawfulOn O G) {same : F → F → Bool} (hs : SameSound O same)
  (block : Array Tx) (inputs : Inputs) (n : Nat) (hI : InputsUpTo block inputs n) (f0 : F)
include L hs

theorem fold_post (fuel : Nat)
    (ih : ∀ k s, VInv O block s → Le O f0 s.filter → G s.filter →
      (checkFilterTx O same block inputs fuel k s).outOfFuel = false →
      CheckPost O block n f0 k s (checkFilterTx O same block inputs fuel k s))
    (ds : List Nat) (s : Scan F) (hv : VInv O block s) (hle : Le O f0 s.filter) (hG : G s.filter)
    (hf : (ds.foldl (fun s d => checkFilterTx O same block inputs fuel d s) s).outOfFuel = false) :
    (∀ d ∈ ds, ∀ u, block[d]? = some u → Relevant O s.filter u →
        d ∈ (ds.foldl (fun s d => checkFilterTx O same block inputs fuel d s) s).matched) ∧
      InsertedOK O block n f0 s (ds.foldl (fun s d => checkFilterTx O same block inputs fuel d s) s) := by
  induction ds generalizing s with
  | nil => exact ⟨(by intro d hd; cases hd), InsertedOK.nil O block n f0 s⟩
  | cons d ds ihl =>
    rw [List.foldl_cons] at hf ⊢
    have hext1 := check_ext L same block inputs fuel d s
    have hext2 := foldl_ext _ (fun s d => check_ext L same block inputs fuel d s) ds
      (checkFilterTx O same block inputs fuel d s)
    have hf1 := hext2.fuel hf
    have hp := ih d s hv hle hG hf1
    obtain ⟨h1, h2⟩ := ihl _ (check_vinv hs block inputs fuel d s hv) (Le.trans hle hext1.filter)
      (check_good L same block inputs fuel d s hG) hf
    refine ⟨?_, InsertedOK.append hext2 hp.ins h2⟩
    intro d' hd' u hu hr
    rcases List.mem_cons.1 hd' with rfl | hd'
    · exact hext2.matched _ (hp.self u hu hr)
    · exact h1 d' hd' u hu (Relevant.mono hext1.filter hr)

include hI in
theorem check_post (fuel k : Nat) (s : Scan F) (hv : VInv O block s) (hle : Le O f0 s.filter)
    (hG : G s.filter)
    (hf : (checkFilterTx O same block inputs fuel k s).outOfFuel = false) :
    CheckPost O block n f0 k s (checkFilterTx O same block inputs fuel k s) := by
  induction fuel generalizing k s with
  | zero => rw [checkFilterTx_zero] at hf; simp at hf
  | succ fuel ih =>
    rw [checkFilterTx_succ] at hf ⊢
    cases hb : block[k]? with
    | none => exact ⟨(by intro u hu; rw [hb] at hu; cases hu), InsertedOK.nil O block n f0 s⟩
    | some tx =>
      rw [hb] at hf
      dsimp only at hf ⊢
      by_cases hskip : s.checkedAt.lookup k = some s.version
      · rw [if_pos hskip]
        refine ⟨?_, InsertedOK.nil O block n f0 s⟩
        intro u hu hr; rw [hb] at hu; cases hu
        exact (hv.cur k tx hb hskip).2 ((matchTx_iff L _ _).2 hr)
      · rw [if_neg hskip] at hf ⊢
        by_cases hm : (matchTxAndUpdate O s.filter tx).2 = true
        · rw [if_pos hm] at hf ⊢
          have hv1 := hv.evalStep hs k tx hb (same := same)
          have hext0 := Ext.evalStep L same tx k s
          obtain ⟨h1, L2, e2, p2, c2⟩ := fold_post L hs block inputs n f0 fuel
            (fun k s hv hle hG hf => ih k s hv hle hG hf) _ _ hv1 (Le.trans hle hext0.filter)
            (matchTx_good L _ _ hG) hf
          have hext1 := foldl_ext _ (fun s d => check_ext L same block inputs fuel d s)
            (dependants block inputs tx.id) (evalStep O same tx k s)
          have hk1 : k ∈ (evalStep O same tx k s).matched := by
            rw [evalStep_matched, if_pos hm]; exact (mem_markMatched _ _ _).2 (Or.inl rfl)
          refine ⟨fun _ _ _ => hext1.matched k hk1, ?_⟩
          refine ⟨(updIdxs O s.filter tx).map (fun i => (tx.id, i)) ++ L2, ?_, ?_, ?_⟩
          · rw [e2, evalStep_filter, matchTx_filter, List.map_append, addAll_append, List.map_map]; rfl
          · intro e he
            rcases List.mem_append.1 he with he | he
            · obtain ⟨i, hi, rfl⟩ := List.mem_map.1 he
              obtain ⟨o, ho, hel, hp⟩ := (mem_updIdxs L _ _ _).1 hi
              constructor
              · refine ⟨k, tx, hext1.matched k hk1, hb, rfl, o, ho, ?_, ?_⟩
                · rw [hext1.flags, hext0.flags]; exact hel
                · exact pushHit_mono (Le.trans (filterAt_le_result L _ _ _) hext1.filter) _ hp
              · intro k' hk' u hu hsp
                obtain ⟨inp, hinp, hh, hidx⟩ := hsp
                have hk'' : k' < block.size := by
                  rcases Nat.lt_or_ge k' block.size with h | h
                  · exact h
                  · rw [Array.getElem?_eq_none h] at hu; cases hu
                have hdep : k' ∈ dependants block inputs tx.id :=
                  (mem_dependants block inputs _ _).2 ⟨(hI _ _).2 ⟨hk', u, hu, inp, hinp, hh⟩, hk''⟩
                refine h1 k' hdep u hu (Or.inr (Or.inr ⟨inp, hinp, Or.inl ?_⟩))
                rw [hh, hidx, evalStep_filter, matchTx_filter]
                exact test_addAll_of_mem L _ hG _ _ (List.mem_map_of_mem hi)
            · exact p2 e he
          · intro j hj
            rcases c2 j hj with h | h
            · rw [evalStep_matched, if_pos hm] at h
              rcases (mem_markMatched _ _ _).1 h with rfl | h
              · refine Or.inr fun t i o ht ho he hp => List.mem_append_left _ ?_
                rw [hb] at ht; cases ht
                refine List.mem_map_of_mem ((mem_updIdxs L _ _ _).2 ⟨o, ho, ?_, ?_⟩)
                · rw [← hext0.flags, ← hext1.flags]; exact he
                · exact pushHit_mono (Le.trans hle (le_filterAt L _ _ _)) _ hp
              · exact Or.inl h
            · exact Or.inr fun t i o ht ho he hp => List.mem_append_right _ (h t i o ht ho he hp)
        · rw [if_neg hm] at hf ⊢
          refine ⟨?_, ?_⟩
          · intro u hu hr; rw [hb] at hu; cases hu
            exact absurd ((matchTx_iff L _ _).2 hr) hm
          · have hm' : (matchTxAndUpdate O s.filter tx).2 = false := by simpa using hm
            refine ⟨[], ?_, (by intro e he; cases he), ?_⟩
            · rw [evalStep_filter, matchTx_false_filter L _ _ hm']; rfl
            · intro j hj; rw [evalStep_matched, hm'] at hj; exact Or.inl hj
end post

/-- **Completeness (b)**, invariant form at the end of the scan -/
theorem scan_complete_b {O : FilterOps F} (L : LawfulOn O G) {same : F → F → Bool}
    (hs : SameSound O same) (fuel : Nat) (block : Array Tx) (f : F) (hG : G f)
    (hf : (GetMatchedIndices O same fuel block f).outOfFuel = false) :
    InsertedOK O block block.size f { filter := f, matched := [] } (GetMatchedIndices O same fuel block f) := by
  obtain ⟨_, h⟩ := scanLoop_inv block
    (fun inputs i s => checkFilterTx O same block inputs fuel i s)
    (fun n inputs s => InputsUpTo block inputs n ∧ VInv O block s ∧ Le O f s.filter ∧ G s.filter ∧
      (s.outOfFuel = false → InsertedOK O block n f { filter := f, matched := [] } s))
    (by
      rintro j inputs s t hj ⟨hI, hV, hle, hGs, hM⟩
      have hI' := hI.step hj
      have hext := check_ext L same block (inputs ++ t.ins.map (fun inp => (inp.prevHash, j))) fuel j s
      refine ⟨hI', check_vinv hs block _ fuel j s hV, Le.trans hle hext.filter,
        check_good L same block _ fuel j s hGs, fun hf' => ?_⟩
      obtain ⟨L1, e1, p1, c1⟩ := hM (hext.fuel hf')
      have hp := check_post L hs block _ (j+1) hI' f fuel j s hV hle hGs hf'
      obtain ⟨L2, e2, p2, c2⟩ := hp.ins
      refine ⟨L1 ++ L2, by rw [List.map_append, addAll_append, ← e1, e2], ?_, ?_⟩
      · intro e he
        rcases List.mem_append.1 he with h | h
        · refine ⟨(p1 e h).1.mono hext, ?_⟩
          intro k hk u hu hsp
          by_cases hkj : k = j
          · subst hkj
            obtain ⟨inp, hinp, hh, hidx⟩ := hsp
            refine hp.self u hu (Or.inr (Or.inr ⟨inp, hinp, Or.inl ?_⟩))
            rw [hh, hidx, e1]
            exact test_addAll_of_mem L _ hG _ _ (List.mem_map_of_mem h)
          · exact hext.matched k ((p1 e h).2 k (by omega) u hu hsp)
        · exact p2 e h
      · intro i hi
        rcases c2 i hi with h | h
        · rcases c1 i h with h' | h'
          · exact Or.inl h'
          · exact Or.inr fun t i o ht ho he hp =>
              List.mem_append_left _ (h' t i o ht ho (by rw [← hext.flags]; exact he) hp)
        · exact Or.inr fun t i o ht ho he hp => List.mem_append_right _ (h t i o ht ho he hp))
    block.size 0 [] { filter := f, matched := [] } (by omega)
    ⟨InputsUpTo.nil block, VInv.init O block f, Le.refl O f, hG, fun _ => InsertedOK.nil O block 0 f _⟩
  exact h.2.2.2.2 hf

/-! ## Fuel: acyclic blocks never run out -/

/-- a rank on transaction ids witnessing that the in-block spend graph is acyclic: the id of every
    transaction of the block ranks strictly above every id it spends, and below `bound`.
    (Real transaction ids commit to the ids they spend, so a block violating this for every `rank`
    cannot be constructed; for a concrete block the position in a topological order is a rank.) -/
structure Acyclic (block : Array Tx) (rank : Bytes → Nat) (bound : Nat) : Prop where
  spend : ∀ (k : Nat) (u : Tx), block[k]? = some u → ∀ inp ∈ u.ins, rank inp.prevHash < rank u.id
  lt_bound : ∀ (k : Nat) (u : Tx), block[k]? = some u → rank u.id < bound

/-- rank of a block index -/
def rk (block : Array Tx) (rank : Bytes → Nat) (k : Nat) : Nat :=
  match block[k]? with
  | some u => rank u.id
  | none => 0

theorem rk_some {block : Array Tx} {rank : Bytes → Nat} {k : Nat} {u : Tx} (h : block[k]? = some u) :
    rk block rank k = rank u.id := by simp [rk, h]

theorem dep_rank {block : Array Tx} {inputs : Inputs} {n : Nat} (hI : InputsUpTo block inputs n)
    {rank : Bytes → Nat} {bound : Nat} (hA : Acyclic block rank bound) {k : Nat} {u : Tx}
    (hb : block[k]? = some u) {d : Nat} (hd : d ∈ dependants block inputs u.id) :
    ∃ ud, block[d]? = some ud ∧ rk block rank k < rk block rank d := by
  obtain ⟨hmem, _⟩ := (mem_dependants block inputs _ _).1 hd
  obtain ⟨_, ud, hud, inp, hinp, hh⟩ := (hI _ _).1 hmem
  refine ⟨ud, hud, ?_⟩
  rw [rk_some hb, rk_some hud, ← hh]
  exact hA.spend d ud hud inp hinp

section fuel
variable (O : FilterOps F) (same : F → F → Bool) (block : Array Tx) (inputs : Inputs) (n : Nat)
  (hI : InputsUpTo block inputs n) (rank : Bytes → Nat) (bound : Nat) (hA : Acyclic block rank bound)
include hI hA

theorem check_fuel_ok (fuel k : Nat) (s : Scan F) (u : Tx) (hb : block[k]? = some u)
    (hfuel : bound ≤ fuel + rank u.id) (hs : s.outOfFuel = false) :
    (checkFilterTx O same block inputs fuel k s).outOfFuel = false := by
  induction fuel generalizing k s u with
  | zero => have := hA.lt_bound k u hb; omega
  | succ fuel ih =>
    rw [checkFilterTx_succ, hb]
    dsimp only
    split
    · exact hs
    · split
      · refine foldl_inv (fun (s : Scan F) => s.outOfFuel = false) _ _ ?_ _ (by simpa using hs)
        intro a d hd ha
        obtain ⟨ud, hud, hr⟩ := dep_rank hI hA hb hd
        rw [rk_some hb, rk_some hud] at hr
        exact ih d a ud hud (by omega) ha
      · simpa using hs

theorem checkRef_fuel_ok (fuel k : Nat) (s : Scan F) (u : Tx) (hb : block[k]? = some u)
    (hfuel : bound ≤ fuel + rank u.id) (hs : s.outOfFuel = false) :
    (checkFilterTxRef O block inputs fuel k s).outOfFuel = false := by
  induction fuel generalizing k s u with
  | zero => have := hA.lt_bound k u hb; omega
  | succ fuel ih =>
    rw [checkFilterTxRef_succ, hb]
    dsimp only
    split
    · refine foldl_inv (fun (s : Scan F) => s.outOfFuel = false) _ _ ?_ _ (by simpa [evalStepRef] using hs)
      intro a d hd ha
      obtain ⟨ud, hud, hr⟩ := dep_rank hI hA hb hd
      rw [rk_some hb, rk_some hud] at hr
      exact ih d a ud hud (by omega) ha
    · simpa [evalStepRef] using hs
end fuel

/-- fuel `bound` suffices for the repaired scan of an acyclic block -/
theorem scan_fuel_ok (O : FilterOps F) (same : F → F → Bool) (block : Array Tx) (rank : Bytes → Nat)
    (bound : Nat) (hA : Acyclic block rank bound) (fuel : Nat) (hfuel : bound ≤ fuel) (f : F) :
    (GetMatchedIndices O same fuel block f).outOfFuel = false := by
  obtain ⟨_, h⟩ := scanLoop_inv block
    (fun inputs i s => checkFilterTx O same block inputs fuel i s)
    (fun n inputs s => InputsUpTo block inputs n ∧ s.outOfFuel = false)
    (by
      rintro j inputs s t hj ⟨hI, hs⟩
      exact ⟨hI.step hj, check_fuel_ok O same block _ (j+1) (hI.step hj) rank bound hA fuel j s t hj
        (by omega) hs⟩)
    block.size 0 [] { filter := f, matched := [] } (by omega) ⟨InputsUpTo.nil block, rfl⟩
  exact h.2

/-- fuel `bound` suffices for the reference scan of an acyclic block -/
theorem scanRef_fuel_ok (O : FilterOps F) (block : Array Tx) (rank : Bytes → Nat)
    (bound : Nat) (hA : Acyclic block rank bound) (fuel : Nat) (hfuel : bound ≤ fuel) (f : F) :
    (GetMatchedIndicesRef O fuel block f).outOfFuel = false := by
  obtain ⟨_, h⟩ := scanLoop_inv block
    (fun inputs i s => checkFilterTxRef O block inputs fuel i s)
    (fun n inputs s => InputsUpTo block inputs n ∧ s.outOfFuel = false)
    (by
      rintro j inputs s t hj ⟨hI, hs⟩
      exact ⟨hI.step hj, checkRef_fuel_ok O block _ (j+1) (hI.step hj) rank bound hA fuel j s t hj
        (by omega) hs⟩)
    block.size 0 [] { filter := f, matched := [] } (by omega) ⟨InputsUpTo.nil block, rfl⟩
  exact h.2

end Bch.Proofs.BloomTx
