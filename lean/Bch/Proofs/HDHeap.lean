import Bch.Model.HDHeap
/-
Helper lemmas for property C15 (heap-level model of BIP32 extended keys).
-/
namespace Bch.Proofs.HDHeap
open Bch Bch.Model Bch.Model.HDKey Bch.Model.HDHeap

/-! ### buffers, reads, the frame lemmas -/

/-- contents of buffer `n` (empty when there is no such buffer) -/
def buf (h : Heap) (n : Nat) : Bytes := h.bufs.getD n []

/-- what `Heap.zero` does to the one buffer it touches -/
def zeroBuf (r : Ref) (b : Bytes) : Bytes :=
  b.take r.off ++ List.replicate (min r.len (b.length - r.off)) 0 ++ b.drop (r.off + r.len)

theorem zeroBuf_length (r : Ref) (b : Bytes) : (zeroBuf r b).length = b.length := by
  simp [zeroBuf]; omega

theorem zeroBuf_nil (r : Ref) : zeroBuf r [] = [] := by simp [zeroBuf]

theorem zeroBuf_getElem? (r : Ref) (b : Bytes) (n : Nat) :
    (zeroBuf r b)[n]? = if r.off ≤ n ∧ n < r.off + r.len ∧ n < b.length then some 0 else b[n]? := by
  unfold zeroBuf
  simp only [List.getElem?_append, List.getElem?_take, List.getElem?_drop, List.getElem?_replicate,
    List.length_append, List.length_take, List.length_replicate]
  have hlt : r.off ≤ n → ¬ n < min r.off b.length := by omega
  by_cases h1 : n < min r.off b.length
  · have h2 : n < r.off := by omega
    have h3 : ¬ (r.off ≤ n ∧ n < r.off + r.len ∧ n < b.length) := by omega
    simp only [h1, h2, h3, if_true, if_false]
    rw [if_pos (by omega)]
  · by_cases h2 : n < min r.off b.length + min r.len (b.length - r.off)
    · have h3 : n - min r.off b.length < min r.len (b.length - r.off) := by omega
      have h4 : r.off ≤ n ∧ n < r.off + r.len ∧ n < b.length := by omega
      simp only [h1, h2, h3, h4, if_true, if_false, and_self]
    · have h4 : ¬ (r.off ≤ n ∧ n < r.off + r.len ∧ n < b.length) := by omega
      simp only [h1, h2, h4, if_false]
      by_cases h5 : n < b.length
      · congr 1; omega
      · rw [List.getElem?_eq_none (by omega), List.getElem?_eq_none (by omega)]

theorem read_eq (h : Heap) (r : Ref) : h.read r = ((buf h r.buf).drop r.off).take r.len := rfl

theorem read_getElem? (h : Heap) (r : Ref) (m : Nat) :
    (h.read r)[m]? = if m < r.len then (buf h r.buf)[r.off + m]? else none := by
  simp [read_eq, List.getElem?_take, List.getElem?_drop]

theorem zero_keys (h : Heap) (r : Ref) : (h.zero r).keys = h.keys := rfl
theorem alloc_keys (h : Heap) (b : Bytes) : (h.alloc b).1.keys = h.keys := rfl
theorem alloc_snd (h : Heap) (b : Bytes) : (h.alloc b).2 = h.bufs.length := rfl
theorem alloc_bufs_length (h : Heap) (b : Bytes) : (h.alloc b).1.bufs.length = h.bufs.length + 1 := by
  simp [Heap.alloc]
theorem zero_bufs_length (h : Heap) (r : Ref) : (h.zero r).bufs.length = h.bufs.length := by
  simp [Heap.zero]
theorem setKey_bufs (h : Heap) (i : Nat) (k : HKey) : (h.setKey i k).bufs = h.bufs := rfl
theorem addKey_bufs (h : Heap) (k : HKey) : (h.addKey k).1.bufs = h.bufs := rfl
theorem addKey_keys (h : Heap) (k : HKey) : (h.addKey k).1.keys = h.keys ++ [k] := rfl
theorem setKey_keys (h : Heap) (i : Nat) (k : HKey) : (h.setKey i k).keys = h.keys.set i k := rfl

theorem buf_zero (h : Heap) (r : Ref) (n : Nat) :
    buf (h.zero r) n = if n = r.buf then zeroBuf r (buf h n) else buf h n := by
  unfold buf Heap.zero
  simp only [List.getD_eq_getElem?_getD, List.getElem?_modify]
  by_cases hn : n = r.buf
  · subst hn
    simp only [if_true]
    cases h.bufs[r.buf]? with
    | none => simp [zeroBuf]
    | some b => simp [zeroBuf]
  · have : ¬ r.buf = n := fun e => hn e.symm
    simp [hn, this]

theorem buf_alloc (h : Heap) (b : Bytes) (n : Nat) :
    buf (h.alloc b).1 n = if n = h.bufs.length then b else buf h n := by
  unfold buf Heap.alloc
  simp only [List.getD_eq_getElem?_getD, List.getElem?_append]
  by_cases h1 : n < h.bufs.length
  · have : n ≠ h.bufs.length := by omega
    simp [h1, this]
  · by_cases h2 : n = h.bufs.length
    · subst h2; simp
    · have : n - h.bufs.length ≠ 0 := by omega
      rw [if_neg h1, if_neg h2, List.getElem?_eq_none (l := h.bufs) (by omega)]
      cases hh : n - h.bufs.length with
      | zero => omega
      | succ m => simp

theorem buf_setKey (h : Heap) (i : Nat) (k : HKey) (n : Nat) : buf (h.setKey i k) n = buf h n := rfl
theorem buf_addKey (h : Heap) (k : HKey) (n : Nat) : buf (h.addKey k).1 n = buf h n := rfl

theorem buf_of_ge (h : Heap) (n : Nat) (hn : h.bufs.length ≤ n) : buf h n = [] := by
  unfold buf; simp [List.getD_eq_getElem?_getD, List.getElem?_eq_none hn]

/-- **frame lemma for `zero`**: a slice that does not overlap the zeroed slice reads the same
(no in-bounds hypothesis is needed). -/
theorem read_zero_of_not_overlap (h : Heap) (r s : Ref) (hov : overlap r s = false) :
    (h.zero r).read s = h.read s := by
  apply List.ext_getElem?
  intro m
  rw [read_getElem?, read_getElem?, buf_zero]
  by_cases hm : m < s.len
  · simp only [hm, if_true]
    by_cases hb : s.buf = r.buf
    · rw [if_pos hb, zeroBuf_getElem?]
      have : ¬ (r.off ≤ s.off + m ∧ s.off + m < r.off + r.len ∧ s.off + m < (buf h s.buf).length) := by
        simp only [overlap, hb, decide_true, Bool.true_and, Bool.and_eq_false_iff, decide_eq_false_iff_not] at hov
        omega
      rw [if_neg this]
    · rw [if_neg hb]
  · simp [hm]

/-- **frame lemma for `alloc`**: an existing buffer is never changed -/
theorem read_alloc_of_lt (h : Heap) (b : Bytes) (s : Ref) (hs : s.buf < h.bufs.length) :
    (h.alloc b).1.read s = h.read s := by
  rw [read_eq, read_eq, buf_alloc, if_neg (by omega)]

/-! ### fields, in-bounds references, disjointness -/

/-- the four writable slice fields of a key, by number (as in `ranges`) -/
def fld (k : HKey) : Nat → Ref
  | 0 => k.key
  | 1 => k.pubKey
  | 2 => k.chainCode
  | _ => k.parentFP

/-- the reference lies within its buffer -/
def InB (h : Heap) (r : Ref) : Prop := r.off + r.len ≤ (buf h r.buf).length

/-- the totalised `getD` in `buf` is harmless: a non-empty in-bounds reference has a real buffer -/
theorem InB.exists_buf {h : Heap} {r : Ref} (hb : InB h r) (hl : 0 < r.len) :
    ∃ b, h.bufs[r.buf]? = some b ∧ r.off + r.len ≤ b.length := by
  unfold InB buf at hb
  rw [List.getD_eq_getElem?_getD] at hb
  cases hh : h.bufs[r.buf]? with
  | none => rw [hh] at hb; simp at hb; omega
  | some b => rw [hh] at hb; exact ⟨b, rfl, hb⟩

theorem InB.buf_lt {h : Heap} {r : Ref} (hb : InB h r) (hl : 0 < r.len) : r.buf < h.bufs.length := by
  obtain ⟨b, hb', _⟩ := hb.exists_buf hl
  exact (List.getElem?_eq_some_iff.mp hb').1

theorem read_length {h : Heap} {r : Ref} (hb : InB h r) : (h.read r).length = r.len := by
  unfold InB at hb
  simp [read_eq]; omega

/-- pairwise disjointness of all non-empty (key, field) ranges, also within one key -/
def Disj (h : Heap) : Prop :=
  ∀ (i j : Nat) (ki kj : HKey) (f g : Nat), h.keys[i]? = some ki → h.keys[j]? = some kj → f < 4 → g < 4 → (i, f) ≠ (j, g) →
    0 < (fld ki f).len → 0 < (fld kj g).len → overlap (fld ki f) (fld kj g) = false

theorem overlap_comm (a b : Ref) : overlap a b = overlap b a := by
  unfold overlap
  by_cases h : a.buf = b.buf
  · simp [h, Bool.and_comm]
  · have : ¬ b.buf = a.buf := fun e => h e.symm
    simp [h, this]

theorem overlap_of_buf_ne {a b : Ref} (h : a.buf ≠ b.buf) : overlap a b = false := by
  simp [overlap, h]

theorem mem_ranges (k : HKey) (f : Nat) (r : Ref) :
    (f, r) ∈ ranges k ↔ f < 4 ∧ r = fld k f ∧ 0 < r.len := by
  simp only [ranges, List.mem_filter, List.mem_cons, Prod.mk.injEq, List.not_mem_nil, or_false,
    decide_eq_true_eq, gt_iff_lt]
  constructor
  · rintro ⟨(⟨rfl, rfl⟩ | ⟨rfl, rfl⟩ | ⟨rfl, rfl⟩ | ⟨rfl, rfl⟩), hl⟩ <;> simp [fld, hl]
  · rintro ⟨hf, rfl, hl⟩
    refine ⟨?_, hl⟩
    match f, hf with
    | 0, _ => simp [fld]
    | 1, _ => simp [fld]
    | 2, _ => simp [fld]
    | 3, _ => simp [fld]

/-- the list `all` inside `overlaps` -/
def allR (h : Heap) : List ((Nat × Nat) × Ref) :=
  h.keys.zipIdx.flatMap fun (k, i) => (ranges k).map fun (f, r) => ((i, f), r)

theorem mem_allR (h : Heap) (i f : Nat) (r : Ref) :
    ((i, f), r) ∈ allR h ↔ ∃ k, h.keys[i]? = some k ∧ f < 4 ∧ r = fld k f ∧ 0 < r.len := by
  simp only [allR, List.mem_flatMap, List.mem_map, Prod.exists, Prod.mk.injEq,
    List.mem_zipIdx_iff_getElem?]
  constructor
  · rintro ⟨k, i', hk, f', r', hm, ⟨rfl, rfl⟩, rfl⟩
    exact ⟨k, hk, (mem_ranges k _ _).mp hm⟩
  · rintro ⟨k, hk, hm⟩
    exact ⟨k, i, hk, f, r, (mem_ranges k f r).mpr hm, ⟨rfl, rfl⟩, rfl⟩

theorem overlaps_eq (h : Heap) :
    overlaps h = (allR h).flatMap fun (p, r) => (allR h).filterMap fun (q, s) =>
      if (p.1 < q.1 || (p.1 = q.1 && p.2 < q.2)) && overlap r s then some (p, q) else none := rfl

theorem overlaps_eq_nil_iff (h : Heap) : overlaps h = [] ↔ Disj h := by
  rw [overlaps_eq]
  simp only [List.flatMap_eq_nil_iff, List.filterMap_eq_nil_iff, Prod.forall]
  constructor
  · intro H
    unfold Disj
    intro i j ki kj f g hi hj hf hg hne hlf hlg
    have mi : ((i, f), fld ki f) ∈ allR h := (mem_allR ..).mpr ⟨ki, hi, hf, rfl, hlf⟩
    have mj : ((j, g), fld kj g) ∈ allR h := (mem_allR ..).mpr ⟨kj, hj, hg, rfl, hlg⟩
    have h1 := H i f _ mi j g _ mj
    have h2 := H j g _ mj i f _ mi
    rw [overlap_comm] at h2
    cases hov : overlap (fld ki f) (fld kj g) with
    | false => rfl
    | true =>
      exfalso
      simp [hov] at h1 h2
      apply hne
      have : i = j := by omega
      subst this
      have := h1.2 rfl; have := h2.2 rfl
      congr 1; omega
  · intro H i f r mi j g s mj
    unfold Disj at H
    obtain ⟨ki, hi, hf, rfl, hlf⟩ := (mem_allR ..).mp mi
    obtain ⟨kj, hj, hg, rfl, hlg⟩ := (mem_allR ..).mp mj
    by_cases hlt : (i < j || (i = j && f < g)) = true
    · have hne : (i, f) ≠ (j, g) := by
        intro e; simp only [Prod.mk.injEq] at e; obtain ⟨rfl, rfl⟩ := e; simp at hlt
      simp [H i j ki kj f g hi hj hf hg hne hlf hlg]
    · simp only [Bool.not_eq_true] at hlt
      simp [hlt]

/-- the invariant: (a) every reference of every key is in bounds, (b) no two ranges overlap -/
structure Inv (h : Heap) : Prop where
  bnd : ∀ (i : Nat) (k : HKey), h.keys[i]? = some k → ∀ f : Nat, InB h (fld k f)
  disj : overlaps h = []

theorem Inv.pairwise {h : Heap} (hi : Inv h) : Disj h := (overlaps_eq_nil_iff h).mp hi.disj

theorem inv_empty : Inv {} := by
  refine ⟨?_, rfl⟩
  intro i k hk; simp at hk

/-! ### preservation of the invariant by the primitive heap actions -/

theorem Inv.of_disj {h : Heap} (hb : ∀ (i : Nat) (k : HKey), h.keys[i]? = some k → ∀ f : Nat, InB h (fld k f))
    (hd : Disj h) : Inv h := ⟨hb, (overlaps_eq_nil_iff h).mpr hd⟩

/-- every non-empty range of every key lives in a buffer with index `< n` -/
def KeysBelow (h : Heap) (n : Nat) : Prop :=
  ∀ (i : Nat) (k : HKey), h.keys[i]? = some k → ∀ f : Nat, 0 < (fld k f).len → (fld k f).buf < n

theorem Inv.keysBelow {h : Heap} (hi : Inv h) : KeysBelow h h.bufs.length :=
  fun i k hk f hl => (hi.bnd i k hk f).buf_lt hl

theorem InB_alloc {h : Heap} {r : Ref} (b : Bytes) (hb : InB h r) : InB (h.alloc b).1 r := by
  unfold InB at *
  rw [buf_alloc]
  split
  · next e => rw [buf_of_ge h _ (by omega)] at hb; simp at hb; omega
  · exact hb

theorem InB_zero {h : Heap} {r : Ref} (r' : Ref) : InB (h.zero r') r ↔ InB h r := by
  unfold InB
  rw [buf_zero]
  split
  · rw [zeroBuf_length]
  · rfl

theorem overlaps_congr {h h' : Heap} (e : h'.keys = h.keys) : overlaps h' = overlaps h := by
  unfold overlaps; rw [e]

theorem inv_alloc {h : Heap} (b : Bytes) (hi : Inv h) : Inv (h.alloc b).1 :=
  ⟨fun i k hk f => InB_alloc b (hi.bnd i k hk f), (overlaps_congr (alloc_keys h b)).trans hi.disj⟩

theorem inv_zero {h : Heap} (r : Ref) (hi : Inv h) : Inv (h.zero r) :=
  ⟨fun i k hk f => (InB_zero r).mpr (hi.bnd i k hk f), (overlaps_congr (zero_keys h r)).trans hi.disj⟩

/-- General preservation argument: every non-empty range of the new key table is either an old
range at the same (key, field) position, or lives in a buffer `≥ n` that no old range uses; the
ranges in buffers `≥ n` are pairwise disjoint. -/
theorem inv_of_origin {h h' : Heap} {n : Nat} (hi : Inv h) (hkb : KeysBelow h n)
    (hbnd : ∀ (a : Nat) (ka : HKey), h'.keys[a]? = some ka → ∀ f : Nat, InB h' (fld ka f))
    (horig : ∀ (a : Nat) (ka : HKey), h'.keys[a]? = some ka → ∀ f : Nat, f < 4 → 0 < (fld ka f).len →
      (∃ ka0, h.keys[a]? = some ka0 ∧ fld ka f = fld ka0 f) ∨ n ≤ (fld ka f).buf)
    (hnew : ∀ (a b : Nat) (ka kb : HKey) (f g : Nat), h'.keys[a]? = some ka → h'.keys[b]? = some kb →
      f < 4 → g < 4 → (a, f) ≠ (b, g) → 0 < (fld ka f).len → 0 < (fld kb g).len →
      n ≤ (fld ka f).buf → n ≤ (fld kb g).buf → overlap (fld ka f) (fld kb g) = false) : Inv h' := by
  apply Inv.of_disj hbnd
  intro a b ka kb f g ha hb hf hg hne hlf hlg
  rcases horig a ka ha f hf hlf with ⟨ka0, ha0, ea⟩ | hna
  · rcases horig b kb hb g hg hlg with ⟨kb0, hb0, eb⟩ | hnb
    · rw [ea, eb]
      rw [ea] at hlf; rw [eb] at hlg
      exact hi.pairwise a b ka0 kb0 f g ha0 hb0 hf hg hne hlf hlg
    · apply overlap_of_buf_ne
      have := hkb a ka0 ha0 f (ea ▸ hlf)
      rw [ea]; omega
  · rcases horig b kb hb g hg hlg with ⟨kb0, hb0, eb⟩ | hnb
    · apply overlap_of_buf_ne
      have := hkb b kb0 hb0 g (eb ▸ hlg)
      rw [eb]; omega
    · exact hnew a b ka kb f g ha hb hf hg hne hlf hlg hna hnb

/-- replacing key `i` by a key whose fields are the old ones, or empty, or (for `pubKey` only) a
reference into a buffer not used by any key -/
theorem inv_setKey {h : Heap} {n i : Nat} {k k' : HKey} (hi : Inv h) (hkb : KeysBelow h n)
    (hk : h.keys[i]? = some k) (hb : ∀ f : Nat, InB h (fld k' f))
    (hf : ∀ f : Nat, f < 4 → f ≠ 1 → fld k' f = fld k f ∨ (fld k' f).len = 0)
    (h1 : fld k' 1 = fld k 1 ∨ n ≤ (fld k' 1).buf) : Inv (h.setKey i k') := by
  have hkeys : ∀ a ka, (h.setKey i k').keys[a]? = some ka →
      (a = i ∧ ka = k') ∨ (a ≠ i ∧ h.keys[a]? = some ka) := by
    intro a ka hka
    rw [setKey_keys, List.getElem?_set] at hka
    by_cases e : i = a
    · subst e
      rw [if_pos rfl] at hka
      split at hka
      · left; exact ⟨rfl, by simpa using hka.symm⟩
      · cases hka
    · rw [if_neg e] at hka
      right; exact ⟨fun e' => e e'.symm, hka⟩
  apply inv_of_origin hi hkb
  · intro a ka hka f
    rcases hkeys a ka hka with ⟨rfl, rfl⟩ | ⟨_, hka'⟩
    · exact hb f
    · exact hi.bnd a ka hka' f
  · intro a ka hka f hf4 hl
    rcases hkeys a ka hka with ⟨rfl, rfl⟩ | ⟨_, hka'⟩
    · by_cases e1 : f = 1
      · subst e1
        rcases h1 with e | e
        · left; exact ⟨k, hk, e⟩
        · right; exact e
      · rcases hf f hf4 e1 with e | e
        · left; exact ⟨k, hk, e⟩
        · omega
    · left; exact ⟨ka, hka', rfl⟩
  · intro a b ka kb f g hka hkb' hf4 hg4 hne hlf hlg hna hnb
    exfalso
    have key : ∀ a ka f, (h.setKey i k').keys[a]? = some ka → f < 4 → 0 < (fld ka f).len →
        n ≤ (fld ka f).buf → a = i ∧ f = 1 := by
      intro a ka f hka hf4 hl hn
      rcases hkeys a ka hka with ⟨rfl, rfl⟩ | ⟨_, hka'⟩
      · refine ⟨rfl, ?_⟩
        apply Classical.byContradiction
        intro e1
        rcases hf f hf4 e1 with e | e
        · have := hkb a k hk f (e ▸ hl)
          rw [e] at hn; omega
        · omega
      · have := hkb a ka hka' f hl
        omega
    obtain ⟨rfl, rfl⟩ := key a ka f hka hf4 hlf hna
    obtain ⟨rfl, rfl⟩ := key b kb g hkb' hg4 hlg hnb
    exact hne rfl

/-- adding a key all of whose non-empty ranges live in buffers no existing key uses -/
theorem inv_addKey {h : Heap} {n : Nat} {k : HKey} (hi : Inv h) (hkb : KeysBelow h n)
    (hb : ∀ f : Nat, InB h (fld k f))
    (hn : ∀ f : Nat, f < 4 → 0 < (fld k f).len → n ≤ (fld k f).buf)
    (hint : ∀ f g : Nat, f < 4 → g < 4 → f ≠ g → 0 < (fld k f).len → 0 < (fld k g).len →
      overlap (fld k f) (fld k g) = false) : Inv (h.addKey k).1 := by
  have hkeys : ∀ a ka, (h.addKey k).1.keys[a]? = some ka →
      (a = h.keys.length ∧ ka = k) ∨ (h.keys[a]? = some ka) := by
    intro a ka hka
    rw [addKey_keys, List.getElem?_append] at hka
    split at hka
    · right; exact hka
    · left
      have : a - h.keys.length = 0 := by
        apply Classical.byContradiction; intro e
        rw [List.getElem?_eq_none (by simp; omega)] at hka; cases hka
      rw [this] at hka
      exact ⟨by omega, by simpa using hka.symm⟩
  apply inv_of_origin hi hkb
  · intro a ka hka f
    rcases hkeys a ka hka with ⟨rfl, rfl⟩ | hka'
    · exact hb f
    · exact hi.bnd a ka hka' f
  · intro a ka hka f hf4 hl
    rcases hkeys a ka hka with ⟨rfl, rfl⟩ | hka'
    · right; exact hn f hf4 hl
    · left; exact ⟨ka, hka', rfl⟩
  · intro a b ka kb f g hka hkb' hf4 hg4 hne hlf hlg hna hnb
    have key : ∀ a ka f, (h.addKey k).1.keys[a]? = some ka → 0 < (fld ka f).len →
        n ≤ (fld ka f).buf → a = h.keys.length ∧ ka = k := by
      intro a ka f hka hl hn
      rcases hkeys a ka hka with ⟨rfl, rfl⟩ | hka'
      · exact ⟨rfl, rfl⟩
      · have := hkb a ka hka' f hl
        omega
    obtain ⟨rfl, rfl⟩ := key a ka f hka hlf hna
    obtain ⟨rfl, rfl⟩ := key b kb g hkb' hlg hnb
    apply hint f g hf4 hg4 _ hlf hlg
    intro e; exact hne (by rw [e])

/-! ### quantifying over the four fields -/

theorem forall_fld (P : Ref → Prop) (k : HKey) :
    (∀ f : Nat, P (fld k f)) ↔ P k.key ∧ P k.pubKey ∧ P k.chainCode ∧ P k.parentFP := by
  constructor
  · intro H; exact ⟨H 0, H 1, H 2, H 3⟩
  · rintro ⟨h0, h1, h2, h3⟩ f
    match f with
    | 0 => exact h0
    | 1 => exact h1
    | 2 => exact h2
    | _ + 3 => exact h3

theorem forall_lt_four (Q : Nat → Prop) : (∀ f : Nat, f < 4 → Q f) ↔ Q 0 ∧ Q 1 ∧ Q 2 ∧ Q 3 := by
  constructor
  · intro H; exact ⟨H 0 (by omega), H 1 (by omega), H 2 (by omega), H 3 (by omega)⟩
  · rintro ⟨h0, h1, h2, h3⟩ f hf
    match f, hf with
    | 0, _ => exact h0
    | 1, _ => exact h1
    | 2, _ => exact h2
    | 3, _ => exact h3

theorem forall_lt_four2 (Q : Nat → Nat → Prop) :
    (∀ f g : Nat, f < 4 → g < 4 → Q f g) ↔ (∀ f : Nat, f < 4 → ∀ g : Nat, g < 4 → Q f g) :=
  ⟨fun H f hf g hg => H f g hf hg, fun H f g hf hg => H f hf g hg⟩

@[simp] theorem fld_zero (k : HKey) : fld k 0 = k.key := rfl
@[simp] theorem fld_one (k : HKey) : fld k 1 = k.pubKey := rfl
@[simp] theorem fld_two (k : HKey) : fld k 2 = k.chainCode := rfl
@[simp] theorem fld_three (k : HKey) : fld k 3 = k.parentFP := rfl

/-! ### several allocations in a row, then a new key -/

def allocs (h : Heap) : List Bytes → Heap
  | [] => h
  | b :: bs => allocs (h.alloc b).1 bs

theorem allocs_keys (h : Heap) (bs : List Bytes) : (allocs h bs).keys = h.keys := by
  induction bs generalizing h with
  | nil => rfl
  | cons b bs ih => rw [allocs, ih]; rfl

theorem allocs_bufs (h : Heap) (bs : List Bytes) : (allocs h bs).bufs = h.bufs ++ bs := by
  induction bs generalizing h with
  | nil => simp [allocs]
  | cons b bs ih => rw [allocs, ih]; simp [Heap.alloc]

theorem inv_allocs {h : Heap} (bs : List Bytes) (hi : Inv h) : Inv (allocs h bs) := by
  induction bs generalizing h with
  | nil => exact hi
  | cons b bs ih => exact ih (inv_alloc b hi)

theorem buf_allocs_old (h : Heap) (bs : List Bytes) (n : Nat) (hn : n < h.bufs.length) :
    buf (allocs h bs) n = buf h n := by
  unfold buf; rw [allocs_bufs]
  simp [List.getD_eq_getElem?_getD, List.getElem?_append, hn]

theorem buf_allocs_new (h : Heap) (bs : List Bytes) (c : Nat) :
    buf (allocs h bs) (h.bufs.length + c) = bs.getD c [] := by
  unfold buf; rw [allocs_bufs]
  simp only [List.getD_eq_getElem?_getD, List.getElem?_append]
  rw [if_neg (by omega)]; congr 2; omega

theorem InB_nil (h : Heap) : InB h Ref.nil := by simp [InB, Ref.nil]

theorem InB_allocs_new (h : Heap) (bs : List Bytes) (c off len : Nat) :
    InB (allocs h bs) ⟨h.bufs.length + c, off, len⟩ ↔ off + len ≤ (bs.getD c []).length := by
  unfold InB; rw [buf_allocs_new]

theorem inv_allocs_addKey {h : Heap} (bs : List Bytes) {k : HKey} (hi : Inv h)
    (hb : ∀ f : Nat, InB (allocs h bs) (fld k f))
    (hn : ∀ f : Nat, f < 4 → 0 < (fld k f).len → h.bufs.length ≤ (fld k f).buf)
    (hint : ∀ f g : Nat, f < 4 → g < 4 → f ≠ g → 0 < (fld k f).len → 0 < (fld k g).len →
      overlap (fld k f) (fld k g) = false) : Inv ((allocs h bs).addKey k).1 := by
  apply inv_addKey (inv_allocs bs hi) (n := h.bufs.length) _ hb hn hint
  intro i k' hk'
  rw [allocs_keys] at hk'
  exact hi.keysBelow i k' hk'

/-! ### the operations -/

/-- the external primitives return values of the right lengths (the proofs use `hmac512_len` for
the in-bounds part of the invariant and `hash160_len` for the view of a derived child; the other
three fields document the intended instances and are not needed by any theorem) -/
structure ExtOK {Pt : Type} (X : HDExt Pt) : Prop where
  hmac512_len : ∀ k d, (X.hmac512 k d).length = 64
  hash160_len : ∀ d, (X.hash160 d).length = 20
  serC_len : ∀ p, (X.serC p).length = 33
  serInf_len : X.serInf.length = 33
  sha256d_len : ∀ d, 4 ≤ (X.sha256d d).length

inductive HOp
  | newMaster (seed hdPriv : Bytes)
  | parse (i : Nat)
  | child (i idx : Nat)
  | neuter (i : Nat)
  | setNet (i : Nat) (hdPriv hdPub : Bytes)
  | zero (i : Nat)
  | pubKeyBytes (i : Nat)
  deriving Repr, DecidableEq

section
variable {Pt : Type} (X : HDExt Pt)

/-- one operation of a history; `parse i` re-parses the serialisation of key `i`; `pubKeyBytes i`
stands for every accessor that memoises the public key (`Address`, `ECPubKey`, ...) -/
def step (h : Heap) : HOp → Heap × OpRes
  | .newMaster seed hdPriv => newMasterH X h seed hdPriv
  | .parse i => newKeyFromStringH X h (stringH X h i)
  | .child i idx => childH X h i idx
  | .neuter i => neuterH X h i
  | .setNet i hdPriv hdPub => (setNetH h i hdPriv hdPub, .unit)
  | .zero i => (zeroH h i, .unit)
  | .pubKeyBytes i => ((pubKeyBytesH X h i).1, .unit)

def run (h : Heap) (ops : List HOp) : Heap := ops.foldl (fun h op => (step X h op).1) h

theorem run_nil (h : Heap) : run X h [] = h := rfl
theorem run_cons (h : Heap) (op : HOp) (ops : List HOp) :
    run X h (op :: ops) = run X (step X h op).1 ops := rfl
theorem run_append (h : Heap) (a b : List HOp) : run X h (a ++ b) = run X (run X h a) b := by
  simp [run, List.foldl_append]

/-! value-level length facts -/

theorem NewMaster_ok (hX : ExtOK X) {seed hdPriv : Bytes} {xk : XKey}
    (e : NewMaster X seed hdPriv = .ok xk) : xk.key.length = 32 ∧ xk.chainCode.length = 32 := by
  unfold NewMaster at e
  split at e
  · cases e
  · simp only at e
    split at e
    · cases e
    · cases e
      simp [hX.hmac512_len]

theorem Child_ok (hX : ExtOK X) {v c : XKey} {idx : Nat} (e : Child X v idx = .ok c) :
    c.chainCode.length = 32 := by
  unfold Child at e
  simp only at e
  repeat' split at e
  all_goals first | (cases e; done) | (cases e; simp [hX.hmac512_len])

theorem NewKeyFromString_ok {s : Bytes} {xk : XKey} (e : NewKeyFromString X s = .ok xk) :
    (Base58.Decode s).length = 82 := by
  unfold NewKeyFromString at e
  simp only at e
  split at e
  · cases e
  · next hlen => simpa using hlen

/-! equation lemmas exposing the heap produced by every operation -/

/-- the key stored by the memoising branch of `pubKeyBytesH` -/
def memoKey (h : Heap) (k : HKey) : HKey :=
  { k with pubKey := ⟨h.bufs.length, 0, (pubKeyBytes X (view h k)).length⟩ }

theorem pubKeyBytesH_eq (h : Heap) (i : Nat) :
    pubKeyBytesH X h i =
      match h.keys[i]? with
      | none => (h, [])
      | some k =>
        if !k.isPrivate then (h, h.read k.key)
        else if k.pubKey.len = 0 then
          ((h.alloc (pubKeyBytes X (view h k))).1.setKey i (memoKey X h k), pubKeyBytes X (view h k))
        else (h, h.read k.pubKey) := rfl

def masterKeyH (h : Heap) (xk : XKey) : HKey :=
  ⟨⟨h.bufs.length, 0, 32⟩, Ref.nil, ⟨h.bufs.length, 32, 32⟩, ⟨h.bufs.length + 1, 0, 4⟩, xk.version, 0, 0, true⟩

theorem newMasterH_eq (h : Heap) (seed hdPriv : Bytes) :
    newMasterH X h seed hdPriv =
      match NewMaster X seed hdPriv with
      | .error e => (h, .err e)
      | .ok xk => (((allocs h [xk.key ++ xk.chainCode, [0, 0, 0, 0]]).addKey (masterKeyH h xk)).1,
                    .key h.keys.length) := by
  unfold newMasterH
  cases NewMaster X seed hdPriv with
  | error e => rfl
  | ok xk => simp [allocs, Heap.alloc, Heap.addKey, masterKeyH]

def parsedKeyH (h : Heap) (xk : XKey) : HKey :=
  ⟨if xk.isPrivate then ⟨h.bufs.length, 46, 32⟩ else ⟨h.bufs.length, 45, 33⟩, Ref.nil,
    ⟨h.bufs.length, 13, 32⟩, ⟨h.bufs.length, 5, 4⟩, xk.version, xk.depth, xk.childNum, xk.isPrivate⟩

theorem newKeyFromStringH_eq (h : Heap) (s : Bytes) :
    newKeyFromStringH X h s =
      match NewKeyFromString X s with
      | .error e => (h, .err e)
      | .ok xk => (((allocs h [Base58.Decode s]).addKey (parsedKeyH h xk)).1, .key h.keys.length) := by
  unfold newKeyFromStringH
  cases NewKeyFromString X s with
  | error e => rfl
  | ok xk => simp [allocs, Heap.alloc, Heap.addKey, parsedKeyH]

def childKeyH (h1 : Heap) (c : XKey) : HKey :=
  ⟨⟨h1.bufs.length + 1, 0, c.key.length⟩, Ref.nil, ⟨h1.bufs.length, 32, 32⟩, ⟨h1.bufs.length + 2, 0, 4⟩,
    c.version, c.depth, c.childNum, c.isPrivate⟩

theorem childH_eq (h : Heap) (i idx : Nat) :
    childH X h i idx =
      match h.keys[i]? with
      | none => (h, .unit)
      | some k =>
        match Child X (view h k) idx with
        | .error e =>
          ((if k.depth ≠ 255 ∧ ¬(!k.isPrivate ∧ idx ≥ hardenedKeyStart) ∧ idx < hardenedKeyStart
            then (pubKeyBytesH X h i).1 else h), .err e)
        | .ok c =>
          (((allocs (pubKeyBytesH X h i).1
              [List.replicate 32 0 ++ c.chainCode, c.key, c.parentFP ++ List.replicate 16 0]).addKey
              (childKeyH (pubKeyBytesH X h i).1 c)).1, .key (pubKeyBytesH X h i).1.keys.length) := by
  unfold childH
  cases h.keys[i]? with
  | none => rfl
  | some k =>
    simp only
    cases Child X (view h k) idx with
    | error e => rfl
    | ok c => simp [allocs, Heap.alloc, Heap.addKey, childKeyH]

def neuterKeyH (h1 : Heap) (pk : Bytes) (p : XKey) : HKey :=
  ⟨⟨h1.bufs.length, 0, pk.length⟩, Ref.nil, ⟨h1.bufs.length + 1, 0, p.chainCode.length⟩,
    ⟨h1.bufs.length + 2, 0, p.parentFP.length⟩, p.version, p.depth, p.childNum, false⟩

theorem neuterH_eq (h : Heap) (i : Nat) :
    neuterH X h i =
      match h.keys[i]? with
      | none => (h, .unit)
      | some k =>
        if !k.isPrivate then (h, .key i)
        else match Neuter X (view h k) with
          | .error e => (h, .err e)
          | .ok p =>
            (((allocs (pubKeyBytesH X h i).1 [(pubKeyBytesH X h i).2, p.chainCode, p.parentFP]).addKey
                (neuterKeyH (pubKeyBytesH X h i).1 (pubKeyBytesH X h i).2 p)).1,
              .key (pubKeyBytesH X h i).1.keys.length) := by
  unfold neuterH
  cases h.keys[i]? with
  | none => rfl
  | some k =>
    simp only
    split
    · rfl
    · cases Neuter X (view h k) with
      | error e => rfl
      | ok p => simp [allocs, Heap.alloc, Heap.addKey, neuterKeyH]

/-! ### every operation preserves the invariant -/

theorem inv_pubKeyBytesH {h : Heap} (hi : Inv h) (i : Nat) : Inv (pubKeyBytesH X h i).1 := by
  rw [pubKeyBytesH_eq]
  split
  · exact hi
  · next k hk =>
    split
    · exact hi
    · split
      · apply inv_setKey (n := h.bufs.length) (k := k) (inv_alloc _ hi) _ hk
        · rw [forall_fld]
          have hb := hi.bnd i k hk
          rw [forall_fld] at hb
          refine ⟨InB_alloc _ hb.1, ?_, InB_alloc _ hb.2.2.1, InB_alloc _ hb.2.2.2⟩
          simp [memoKey, InB, buf_alloc]
        · rw [forall_lt_four]; simp [memoKey]
        · right; simp [memoKey]
        · exact hi.keysBelow
      · exact hi

theorem inv_newMasterH (hX : ExtOK X) {h : Heap} (hi : Inv h) (seed hdPriv : Bytes) :
    Inv (newMasterH X h seed hdPriv).1 := by
  rw [newMasterH_eq]
  split
  · exact hi
  · next xk e =>
    obtain ⟨hk, hc⟩ := NewMaster_ok X hX e
    apply inv_allocs_addKey _ hi
    · rw [forall_fld]
      refine ⟨?_, InB_nil _, ?_, ?_⟩
      · exact (InB_allocs_new h _ 0 0 32).mpr (by simp [hk, hc])
      · exact (InB_allocs_new h _ 0 32 32).mpr (by simp [hk, hc])
      · exact (InB_allocs_new h _ 1 0 4).mpr (by simp)
    · rw [forall_lt_four]; simp [masterKeyH, Ref.nil]
    · rw [forall_lt_four2]; simp only [forall_lt_four]; simp [masterKeyH, overlap, Ref.nil]

theorem inv_newKeyFromStringH {h : Heap} (hi : Inv h) (s : Bytes) :
    Inv (newKeyFromStringH X h s).1 := by
  rw [newKeyFromStringH_eq]
  split
  · exact hi
  · next xk e =>
    have hl := NewKeyFromString_ok X e
    apply inv_allocs_addKey _ hi
    · rw [forall_fld]
      refine ⟨?_, InB_nil _, ?_, ?_⟩
      · unfold parsedKeyH; simp only
        split
        · exact (InB_allocs_new h _ 0 46 32).mpr (by simp [hl])
        · exact (InB_allocs_new h _ 0 45 33).mpr (by simp [hl])
      · exact (InB_allocs_new h _ 0 13 32).mpr (by simp [hl])
      · exact (InB_allocs_new h _ 0 5 4).mpr (by simp [hl])
    · rw [forall_lt_four]; unfold parsedKeyH; cases xk.isPrivate <;> simp [Ref.nil]
    · rw [forall_lt_four2]; simp only [forall_lt_four]
      unfold parsedKeyH; cases xk.isPrivate <;> simp [overlap, Ref.nil]

theorem inv_childH (hX : ExtOK X) {h : Heap} (hi : Inv h) (i idx : Nat) :
    Inv (childH X h i idx).1 := by
  rw [childH_eq]
  split
  · exact hi
  · next k hk =>
    split
    · simp only
      split
      · exact inv_pubKeyBytesH X hi i
      · exact hi
    · next c e =>
      have hc := Child_ok X hX e
      apply inv_allocs_addKey _ (inv_pubKeyBytesH X hi i)
      · rw [forall_fld]
        refine ⟨?_, InB_nil _, ?_, ?_⟩
        · exact (InB_allocs_new _ _ 1 0 _).mpr (by simp)
        · exact (InB_allocs_new _ _ 0 32 32).mpr (by simp [hc])
        · exact (InB_allocs_new _ _ 2 0 4).mpr (by simp)
      · rw [forall_lt_four]; simp [childKeyH, Ref.nil]
      · rw [forall_lt_four2]; simp only [forall_lt_four]; simp [childKeyH, overlap, Ref.nil]

theorem inv_neuterH {h : Heap} (hi : Inv h) (i : Nat) : Inv (neuterH X h i).1 := by
  rw [neuterH_eq]
  split
  · exact hi
  · next k hk =>
    split
    · exact hi
    · split
      · exact hi
      · next p e =>
        apply inv_allocs_addKey _ (inv_pubKeyBytesH X hi i)
        · rw [forall_fld]
          refine ⟨?_, InB_nil _, ?_, ?_⟩
          · exact (InB_allocs_new _ _ 0 0 _).mpr (by simp)
          · exact (InB_allocs_new _ _ 1 0 _).mpr (by simp)
          · exact (InB_allocs_new _ _ 2 0 _).mpr (by simp)
        · rw [forall_lt_four]; simp [neuterKeyH, Ref.nil]
        · rw [forall_lt_four2]; simp only [forall_lt_four]; simp [neuterKeyH, overlap, Ref.nil]

theorem inv_setNetH {h : Heap} (hi : Inv h) (i : Nat) (hdPriv hdPub : Bytes) :
    Inv (setNetH h i hdPriv hdPub) := by
  unfold setNetH
  split
  · exact hi
  · next k hk =>
    apply inv_setKey (n := h.bufs.length) (k := k) hi hi.keysBelow hk
    · have hb := hi.bnd i k hk
      rw [forall_fld] at hb ⊢
      exact hb
    · rw [forall_lt_four]; simp
    · left; rfl

theorem inv_zeroH {h : Heap} (hi : Inv h) (i : Nat) : Inv (zeroH h i) := by
  unfold zeroH
  split
  · exact hi
  · next k hk =>
    have hi' : Inv ((((h.zero k.key).zero k.pubKey).zero k.chainCode).zero k.parentFP) :=
      inv_zero _ (inv_zero _ (inv_zero _ (inv_zero _ hi)))
    apply inv_setKey (n := h.bufs.length) (k := k) hi' _ hk
    · have hb := hi'.bnd i k hk
      rw [forall_fld] at hb ⊢
      exact ⟨InB_nil _, hb.2⟩
    · rw [forall_lt_four]; simp [Ref.nil]
    · left; rfl
    · have := hi'.keysBelow
      simpa [zero_bufs_length] using this

theorem inv_step (hX : ExtOK X) {h : Heap} (hi : Inv h) (op : HOp) : Inv (step X h op).1 := by
  cases op with
  | newMaster seed hdPriv => exact inv_newMasterH X hX hi seed hdPriv
  | parse i => exact inv_newKeyFromStringH X hi _
  | child i idx => exact inv_childH X hX hi i idx
  | neuter i => exact inv_neuterH X hi i
  | setNet i p q => exact inv_setNetH hi i p q
  | zero i => exact inv_zeroH hi i
  | pubKeyBytes i => exact inv_pubKeyBytesH X hi i

theorem inv_run (hX : ExtOK X) {h : Heap} (hi : Inv h) (ops : List HOp) : Inv (run X h ops) := by
  induction ops generalizing h with
  | nil => exact hi
  | cons op ops ih => exact ih (inv_step X hX hi op)

end

/-! ### what zeroing does to reads -/

theorem read_zero_getElem? (h : Heap) (r s : Ref) (m : Nat) :
    ((h.zero r).read s)[m]? =
      if s.buf = r.buf ∧ r.off ≤ s.off + m ∧ s.off + m < r.off + r.len ∧ m < s.len ∧
          s.off + m < (buf h s.buf).length then some 0 else (h.read s)[m]? := by
  rw [read_getElem?, read_getElem?, buf_zero]
  by_cases hm : m < s.len
  · by_cases hb : s.buf = r.buf
    · simp only [hm, hb, if_true, zeroBuf_getElem?, true_and]
    · simp [hm, hb]
  · simp [hm]

theorem read_zero_length (h : Heap) (r s : Ref) : ((h.zero r).read s).length = (h.read s).length := by
  simp only [read_eq, buf_zero]
  split <;> simp [zeroBuf_length]

/-- zeroing only ever writes zeros: an all-zero slice stays all-zero -/
theorem read_zero_zeros (h : Heap) (r s : Ref) (hz : ∀ x ∈ h.read s, x = 0) :
    ∀ x ∈ (h.zero r).read s, x = 0 := by
  intro x hx
  obtain ⟨m, hm⟩ := List.mem_iff_getElem?.mp hx
  rw [read_zero_getElem?] at hm
  split at hm
  · cases hm; rfl
  · exact hz x (List.mem_iff_getElem?.mpr ⟨m, hm⟩)

/-- after `zero r` the slice `r` reads as zeros only -/
theorem read_zero_self (h : Heap) (r : Ref) : ∀ x ∈ (h.zero r).read r, x = 0 := by
  intro x hx
  obtain ⟨m, hm⟩ := List.mem_iff_getElem?.mp hx
  rw [read_zero_getElem?] at hm
  split at hm
  · cases hm; rfl
  · next hc =>
    exfalso
    rw [read_getElem?] at hm
    split at hm
    · next hml =>
      have : r.off + m < (buf h r.buf).length := by
        apply Classical.byContradiction; intro hh
        rw [List.getElem?_eq_none (by omega)] at hm; cases hm
      exact hc ⟨rfl, by omega, by omega, hml, this⟩
    · cases hm

theorem zero_len0 (h : Heap) (r s : Ref) (hr : r.len = 0) : (h.zero r).read s = h.read s := by
  apply List.ext_getElem?
  intro m
  rw [read_zero_getElem?, if_neg]
  omega

/-- frame lemma in the form used with the disjointness invariant (empty slices are harmless) -/
theorem read_zero_disj (h : Heap) (r s : Ref)
    (hov : 0 < r.len → 0 < s.len → overlap r s = false) : (h.zero r).read s = h.read s := by
  by_cases hr : r.len = 0
  · exact zero_len0 h r s hr
  · by_cases hs : s.len = 0
    · simp [read_eq, hs]
    · exact read_zero_of_not_overlap h r s (hov (by omega) (by omega))

theorem eq_replicate_of_zeros {l : Bytes} (hz : ∀ x ∈ l, x = 0) : l = List.replicate l.length 0 :=
  List.eq_replicate_iff.mpr ⟨rfl, hz⟩

/-! ### views -/

/-- the value-level key seen through handle `j` (if it exists) -/
def viewAt (h : Heap) (j : Nat) : Option XKey := (h.keys[j]?).map (view h)

theorem viewAt_isSome (h : Heap) (j : Nat) (hj : j < h.keys.length) :
    viewAt h j = some (view h h.keys[j]) := by
  simp [viewAt, List.getElem?_eq_getElem hj]

theorem read_alloc_of_InB {h : Heap} {s : Ref} (b : Bytes) (hb : InB h s) :
    (h.alloc b).1.read s = h.read s := by
  by_cases hl : 0 < s.len
  · exact read_alloc_of_lt h b s (hb.buf_lt hl)
  · have : s.len = 0 := by omega
    simp [read_eq, this]

theorem view_alloc {h : Heap} {k : HKey} (b : Bytes) (hb : ∀ f : Nat, InB h (fld k f)) :
    view (h.alloc b).1 k = view h k := by
  rw [forall_fld] at hb
  simp [view, read_alloc_of_InB b hb.1, read_alloc_of_InB b hb.2.2.1, read_alloc_of_InB b hb.2.2.2]

theorem viewAt_alloc {h : Heap} (b : Bytes) (hi : Inv h) (j : Nat) :
    viewAt (h.alloc b).1 j = viewAt h j := by
  unfold viewAt
  rw [alloc_keys]
  cases hk : h.keys[j]? with
  | none => rfl
  | some k => simp [view_alloc b (hi.bnd j k hk)]

theorem viewAt_allocs {h : Heap} (bs : List Bytes) (hi : Inv h) (j : Nat) :
    viewAt (allocs h bs) j = viewAt h j := by
  induction bs generalizing h with
  | nil => rfl
  | cons b bs ih => rw [allocs, ih (inv_alloc b hi), viewAt_alloc b hi]

theorem viewAt_addKey (h : Heap) (k : HKey) (j : Nat) (hj : j < h.keys.length) :
    viewAt (h.addKey k).1 j = viewAt h j := by
  unfold viewAt
  rw [addKey_keys, List.getElem?_append_left hj]
  rfl

theorem viewAt_addKey_new (h : Heap) (k : HKey) :
    viewAt (h.addKey k).1 h.keys.length = some (view h k) := by
  unfold viewAt
  rw [addKey_keys]
  simp
  rfl

theorem viewAt_setKey_ne (h : Heap) (k : HKey) {i j : Nat} (hne : i ≠ j) :
    viewAt (h.setKey i k) j = viewAt h j := by
  unfold viewAt
  rw [setKey_keys, List.getElem?_set_ne hne]
  rfl

theorem viewAt_setKey_same (h : Heap) (k : HKey) {i : Nat} (hi : i < h.keys.length) :
    viewAt (h.setKey i k) i = some (view h k) := by
  unfold viewAt
  rw [setKey_keys, List.getElem?_set_self hi]
  rfl

theorem view_zero {h : Heap} {k : HKey} (r : Ref)
    (hov : ∀ g : Nat, g < 4 → 0 < r.len → 0 < (fld k g).len → overlap r (fld k g) = false) :
    view (h.zero r) k = view h k := by
  rw [forall_lt_four] at hov
  simp only [fld_zero, fld_two, fld_three] at hov
  simp [view, read_zero_disj h r _ hov.1, read_zero_disj h r _ hov.2.2.1, read_zero_disj h r _ hov.2.2.2]

section
variable {Pt : Type} (X : HDExt Pt)

theorem keys_length_pubKeyBytesH (h : Heap) (i : Nat) :
    (pubKeyBytesH X h i).1.keys.length = h.keys.length := by
  rw [pubKeyBytesH_eq]
  split
  · rfl
  · split
    · rfl
    · split
      · simp [setKey_keys, alloc_keys]
      · rfl

/-- memoising the public key changes no key's view (the memo `pubKey` is not part of the view) -/
theorem viewAt_pubKeyBytesH {h : Heap} (hi : Inv h) (i j : Nat) :
    viewAt (pubKeyBytesH X h i).1 j = viewAt h j := by
  rw [pubKeyBytesH_eq]
  split
  · rfl
  · next k hk =>
    split
    · rfl
    · split
      · by_cases e : i = j
        · subst e
          have hlt : i < (h.alloc (pubKeyBytes X (view h k))).1.keys.length := by
            rw [alloc_keys]; exact (List.getElem?_eq_some_iff.mp hk).1
          rw [viewAt_setKey_same _ _ hlt]
          have : view (h.alloc (pubKeyBytes X (view h k))).1 (memoKey X h k) = view h k := by
            have e1 : view (h.alloc (pubKeyBytes X (view h k))).1 (memoKey X h k) =
                view (h.alloc (pubKeyBytes X (view h k))).1 k := rfl
            rw [e1]
            exact (view_alloc (pubKeyBytes X (view h k)) (hi.bnd i k hk))
          simp [this, viewAt, hk]
        · rw [viewAt_setKey_ne _ _ e, viewAt_alloc _ hi]
      · rfl

end

/-! ### one step: what happens to the view of an existing key -/

/-- value-level effect of `SetNet` on the key itself -/
def setNetV (hdPriv hdPub : Bytes) (v : XKey) : XKey :=
  { v with version := if v.isPrivate then hdPriv else hdPub }

/-- value-level effect of `Zero` on the key itself: nil key, zero-filled chain code and fingerprint
(these two slices keep their length), cleared scalars -/
def zeroV (v : XKey) : XKey :=
  ⟨[], List.replicate v.chainCode.length 0, 0, List.replicate v.parentFP.length 0, 0, [], false⟩

/-- the effect of `op` on the view of key `j`: only `setNet j` and `zero j` do anything -/
def applyOwn (j : Nat) (v : XKey) : HOp → XKey
  | .setNet i hdPriv hdPub => if i = j then setNetV hdPriv hdPub v else v
  | .zero i => if i = j then zeroV v else v
  | _ => v

/-- `op` is `SetNet` or `Zero` applied to key `j` itself -/
def targetsDestructively : HOp → Nat → Prop
  | .setNet i _ _, j => i = j
  | .zero i, j => i = j
  | _, _ => False

theorem applyOwn_of_not_targets {op : HOp} {j : Nat} (hn : ¬ targetsDestructively op j) (v : XKey) :
    applyOwn j v op = v := by
  cases op <;> simp_all [applyOwn, targetsDestructively]

/-- the four `zero` calls of `Zero` -/
def zero4 (h : Heap) (k : HKey) : Heap :=
  (((h.zero k.key).zero k.pubKey).zero k.chainCode).zero k.parentFP

theorem zero4_keys (h : Heap) (k : HKey) : (zero4 h k).keys = h.keys := rfl

theorem zero4_read_length (h : Heap) (k : HKey) (s : Ref) :
    ((zero4 h k).read s).length = (h.read s).length := by
  simp [zero4, read_zero_length]

theorem zero4_zeros (h : Heap) (k : HKey) :
    ∀ r ∈ [k.key, k.pubKey, k.chainCode, k.parentFP], ∀ x ∈ (zero4 h k).read r, x = 0 := by
  intro r hr
  simp only [List.mem_cons, List.not_mem_nil, or_false] at hr
  unfold zero4
  rcases hr with rfl | rfl | rfl | rfl
  · exact read_zero_zeros _ _ _ (read_zero_zeros _ _ _ (read_zero_zeros _ _ _ (read_zero_self _ _)))
  · exact read_zero_zeros _ _ _ (read_zero_zeros _ _ _ (read_zero_self _ _))
  · exact read_zero_zeros _ _ _ (read_zero_self _ _)
  · exact read_zero_self _ _

theorem zeroH_eq (h : Heap) (i : Nat) :
    zeroH h i = match h.keys[i]? with
      | none => h
      | some k => (zero4 h k).setKey i
          { k with version := [], key := Ref.nil, depth := 0, childNum := 0, isPrivate := false } := rfl

theorem view_zero4_of_disj {h : Heap} (hi : Inv h) {i j : Nat} {k kj : HKey} (hk : h.keys[i]? = some k)
    (hkj : h.keys[j]? = some kj) (hne : i ≠ j) : view (zero4 h k) kj = view h kj := by
  have hov : ∀ f : Nat, f < 4 → ∀ g : Nat, g < 4 → 0 < (fld k f).len → 0 < (fld kj g).len →
      overlap (fld k f) (fld kj g) = false :=
    fun f hf g hg hl hl' => hi.pairwise i j k kj f g hk hkj hf hg (by simp [hne]) hl hl'
  unfold zero4
  rw [view_zero k.parentFP (hov 3 (by omega)), view_zero k.chainCode (hov 2 (by omega)),
    view_zero k.pubKey (hov 1 (by omega)), view_zero k.key (hov 0 (by omega))]

theorem viewAt_zeroH_ne {h : Heap} (hi : Inv h) {i j : Nat} (hne : i ≠ j) :
    viewAt (zeroH h i) j = viewAt h j := by
  rw [zeroH_eq]
  split
  · rfl
  · next k hk =>
    rw [viewAt_setKey_ne _ _ hne]
    unfold viewAt
    rw [zero4_keys]
    cases hkj : h.keys[j]? with
    | none => rfl
    | some kj => simp [view_zero4_of_disj hi hk hkj hne]

theorem read_nil (h : Heap) : h.read Ref.nil = [] := by simp [read_eq, Ref.nil]

theorem viewAt_zeroH_same {h : Heap} {i : Nat} {k : HKey} (hk : h.keys[i]? = some k) :
    viewAt (zeroH h i) i = some (zeroV (view h k)) := by
  rw [zeroH_eq]
  simp only [hk]
  rw [viewAt_setKey_same _ _ (by rw [zero4_keys]; exact (List.getElem?_eq_some_iff.mp hk).1)]
  have hz := zero4_zeros h k
  have hc : (zero4 h k).read k.chainCode = List.replicate (h.read k.chainCode).length 0 := by
    rw [← zero4_read_length h k]
    exact eq_replicate_of_zeros (hz _ (by simp))
  have hp : (zero4 h k).read k.parentFP = List.replicate (h.read k.parentFP).length 0 := by
    rw [← zero4_read_length h k]
    exact eq_replicate_of_zeros (hz _ (by simp))
  simp [view, zeroV, read_nil, hc, hp]

theorem viewAt_setNetH_ne (h : Heap) {i j : Nat} (hne : i ≠ j) (hdPriv hdPub : Bytes) :
    viewAt (setNetH h i hdPriv hdPub) j = viewAt h j := by
  unfold setNetH
  split
  · rfl
  · exact viewAt_setKey_ne _ _ hne

theorem viewAt_setNetH_same {h : Heap} {i : Nat} {k : HKey} (hk : h.keys[i]? = some k)
    (hdPriv hdPub : Bytes) :
    viewAt (setNetH h i hdPriv hdPub) i = some (setNetV hdPriv hdPub (view h k)) := by
  unfold setNetH
  simp only [hk]
  rw [viewAt_setKey_same _ _ (List.getElem?_eq_some_iff.mp hk).1]
  rfl

section
variable {Pt : Type} (X : HDExt Pt)

theorem viewAt_allocs_addKey {h : Heap} (hi : Inv h) (bs : List Bytes) (k : HKey) {j : Nat}
    (hj : j < h.keys.length) : viewAt ((allocs h bs).addKey k).1 j = viewAt h j := by
  rw [viewAt_addKey _ _ _ (by rw [allocs_keys]; exact hj), viewAt_allocs bs hi]

theorem viewAt_newMasterH {h : Heap} (hi : Inv h) (seed hdPriv : Bytes) {j : Nat}
    (hj : j < h.keys.length) : viewAt (newMasterH X h seed hdPriv).1 j = viewAt h j := by
  rw [newMasterH_eq]
  split
  · rfl
  · exact viewAt_allocs_addKey hi _ _ hj

theorem viewAt_newKeyFromStringH {h : Heap} (hi : Inv h) (s : Bytes) {j : Nat}
    (hj : j < h.keys.length) : viewAt (newKeyFromStringH X h s).1 j = viewAt h j := by
  rw [newKeyFromStringH_eq]
  split
  · rfl
  · exact viewAt_allocs_addKey hi _ _ hj

theorem viewAt_childH {h : Heap} (hi : Inv h) (i idx : Nat) {j : Nat}
    (hj : j < h.keys.length) : viewAt (childH X h i idx).1 j = viewAt h j := by
  rw [childH_eq]
  split
  · rfl
  · split
    · simp only
      split
      · exact viewAt_pubKeyBytesH X hi i j
      · rfl
    · rw [viewAt_allocs_addKey (inv_pubKeyBytesH X hi i) _ _ (by rw [keys_length_pubKeyBytesH]; exact hj)]
      exact viewAt_pubKeyBytesH X hi i j

theorem viewAt_neuterH {h : Heap} (hi : Inv h) (i : Nat) {j : Nat}
    (hj : j < h.keys.length) : viewAt (neuterH X h i).1 j = viewAt h j := by
  rw [neuterH_eq]
  split
  · rfl
  · split
    · rfl
    · split
      · rfl
      · rw [viewAt_allocs_addKey (inv_pubKeyBytesH X hi i) _ _ (by rw [keys_length_pubKeyBytesH]; exact hj)]
        exact viewAt_pubKeyBytesH X hi i j

/-- **one step, every key**: the view of an existing key changes exactly by the `setNet`/`zero`
operations addressed to that key itself -/
theorem viewAt_step {h : Heap} (hi : Inv h) (op : HOp) {j : Nat} (hj : j < h.keys.length) :
    viewAt (step X h op).1 j = (viewAt h j).map fun v => applyOwn j v op := by
  have hid : viewAt h j = (viewAt h j).map fun v => v := by simp
  cases op with
  | newMaster seed hdPriv => exact (viewAt_newMasterH X hi seed hdPriv hj).trans hid
  | parse i => exact (viewAt_newKeyFromStringH X hi _ hj).trans hid
  | child i idx => exact (viewAt_childH X hi i idx hj).trans hid
  | neuter i => exact (viewAt_neuterH X hi i hj).trans hid
  | pubKeyBytes i => exact (viewAt_pubKeyBytesH X hi i j).trans hid
  | setNet i p q =>
    simp only [step, applyOwn]
    by_cases e : i = j
    · subst e
      rw [viewAt_isSome h i hj, viewAt_setNetH_same (List.getElem?_eq_getElem hj)]
      simp
    · rw [viewAt_setNetH_ne h e]; simp [e]
  | zero i =>
    simp only [step, applyOwn]
    by_cases e : i = j
    · subst e
      rw [viewAt_isSome h i hj, viewAt_zeroH_same (List.getElem?_eq_getElem hj)]
      simp
    · rw [viewAt_zeroH_ne hi e]; simp [e]

theorem keys_length_step (h : Heap) (op : HOp) : h.keys.length ≤ (step X h op).1.keys.length := by
  cases op with
  | newMaster seed hdPriv =>
    simp only [step]; rw [newMasterH_eq]; split
    · exact Nat.le_refl _
    · simp [addKey_keys, allocs_keys]
  | parse i =>
    simp only [step]; rw [newKeyFromStringH_eq]; split
    · exact Nat.le_refl _
    · simp [addKey_keys, allocs_keys]
  | child i idx =>
    simp only [step]; rw [childH_eq]; split
    · exact Nat.le_refl _
    · split
      · simp only; split
        · rw [keys_length_pubKeyBytesH]; exact Nat.le_refl _
        · exact Nat.le_refl _
      · simp [addKey_keys, allocs_keys, keys_length_pubKeyBytesH]
  | neuter i =>
    simp only [step]; rw [neuterH_eq]; split
    · exact Nat.le_refl _
    · split
      · exact Nat.le_refl _
      · split
        · exact Nat.le_refl _
        · simp [addKey_keys, allocs_keys, keys_length_pubKeyBytesH]
  | pubKeyBytes i => simp only [step]; rw [keys_length_pubKeyBytesH]; exact Nat.le_refl _
  | setNet i p q =>
    simp only [step, setNetH]; split
    · exact Nat.le_refl _
    · simp [setKey_keys]
  | zero i =>
    simp only [step]; rw [zeroH_eq]; split
    · exact Nat.le_refl _
    · simp [setKey_keys, zero4_keys]

theorem keys_length_run (h : Heap) (ops : List HOp) : h.keys.length ≤ (run X h ops).keys.length := by
  induction ops generalizing h with
  | nil => exact Nat.le_refl _
  | cons op ops ih => exact Nat.le_trans (keys_length_step X h op) (ih _)

/-- **histories**: the view of key `j` after any continuation `ops` is its earlier view transformed
by exactly the `setNet j` / `zero j` operations in `ops`, in order -/
theorem viewAt_run (hX : ExtOK X) {h : Heap} (hi : Inv h) (ops : List HOp) {j : Nat}
    (hj : j < h.keys.length) :
    viewAt (run X h ops) j = (viewAt h j).map fun v => ops.foldl (applyOwn j) v := by
  induction ops generalizing h with
  | nil => simp [run_nil]
  | cons op ops ih =>
    rw [run_cons, ih (inv_step X hX hi op) (Nat.lt_of_lt_of_le hj (keys_length_step X h op)),
      viewAt_step X hi op hj]
    simp [Option.map_map, Function.comp_def]

/-! ### observations are functions of the view; zeroing; neutering a public key -/

theorem stringH_eq_viewAt (h : Heap) (i : Nat) :
    stringH X h i = match viewAt h i with
      | none => []
      | some v => String X v := by
  unfold stringH viewAt
  cases h.keys[i]? <;> rfl

theorem String_zeroV (v : XKey) : String X (zeroV v) = zeroedString := by
  simp [HDKey.String, zeroV]

theorem stringH_zeroH {h : Heap} {i : Nat} {k : HKey} (hk : h.keys[i]? = some k) :
    stringH X (zeroH h i) i = zeroedString := by
  rw [stringH_eq_viewAt, viewAt_zeroH_same hk]
  exact String_zeroV X _

theorem zeroH_read {h : Heap} {i : Nat} {k : HKey} (hk : h.keys[i]? = some k) (r : Ref) :
    (zeroH h i).read r = (zero4 h k).read r := by
  rw [zeroH_eq]; simp only [hk]; rfl

theorem zeroH_key {h : Heap} {i : Nat} {k : HKey} (hk : h.keys[i]? = some k) :
    (zeroH h i).keys[i]? = some
      { k with version := [], key := Ref.nil, depth := 0, childNum := 0, isPrivate := false } := by
  rw [zeroH_eq]; simp only [hk]
  rw [setKey_keys, List.getElem?_set_self (by rw [zero4_keys]; exact (List.getElem?_eq_some_iff.mp hk).1)]

theorem neuterH_public {h : Heap} {i : Nat} {k : HKey} (hk : h.keys[i]? = some k)
    (hp : k.isPrivate = false) : neuterH X h i = (h, .key i) := by
  rw [neuterH_eq]; simp [hk, hp]

end

/-! ### the memoised public key is always the right one -/

section
variable {Pt : Type} (X : HDExt Pt)

/-- a memoised public key equals the public key computed from the key's current view -/
def MemoOK (h : Heap) : Prop :=
  ∀ (i : Nat) (k : HKey), h.keys[i]? = some k → k.isPrivate = true → k.pubKey.len ≠ 0 →
    h.read k.pubKey = pubKeyBytes X (view h k)

theorem memo_empty : MemoOK X {} := by
  intro i k hk; simp at hk

theorem memo_alloc {h : Heap} (hi : Inv h) (hm : MemoOK X h) (b : Bytes) : MemoOK X (h.alloc b).1 := by
  intro i k hk hp hl
  rw [alloc_keys] at hk
  have hb := hi.bnd i k hk
  have hb1 : InB h k.pubKey := hb 1
  rw [view_alloc b hb, read_alloc_of_InB b hb1]
  exact hm i k hk hp hl

theorem memo_allocs {h : Heap} (hi : Inv h) (hm : MemoOK X h) (bs : List Bytes) :
    MemoOK X (allocs h bs) := by
  induction bs generalizing h with
  | nil => exact hm
  | cons b bs ih => exact ih (inv_alloc b hi) (memo_alloc X hi hm b)

theorem memo_addKey {h : Heap} (hm : MemoOK X h) (k : HKey) (hk0 : k.pubKey.len = 0) :
    MemoOK X (h.addKey k).1 := by
  intro a ka hka hp hl
  rw [addKey_keys, List.getElem?_append] at hka
  split at hka
  · exact hm a ka hka hp hl
  · by_cases e : a - h.keys.length = 0
    · rw [e] at hka; simp at hka; subst hka; omega
    · rw [List.getElem?_eq_none (by simp; omega)] at hka; cases hka

theorem memo_setKey {h : Heap} (hm : MemoOK X h) (i : Nat) (k' : HKey)
    (hk' : k'.isPrivate = true → k'.pubKey.len ≠ 0 → h.read k'.pubKey = pubKeyBytes X (view h k')) :
    MemoOK X (h.setKey i k') := by
  intro a ka hka hp hl
  rw [setKey_keys, List.getElem?_set] at hka
  by_cases e : i = a
  · rw [if_pos e] at hka
    split at hka
    · simp at hka; subst hka; exact hk' hp hl
    · cases hka
  · rw [if_neg e] at hka
    exact hm a ka hka hp hl

theorem memo_pubKeyBytesH {h : Heap} (hi : Inv h) (hm : MemoOK X h) (i : Nat) :
    MemoOK X (pubKeyBytesH X h i).1 := by
  rw [pubKeyBytesH_eq]
  split
  · exact hm
  · next k hk =>
    split
    · exact hm
    · split
      · apply memo_setKey X (memo_alloc X hi hm _)
        intro _ _
        have e1 : view (h.alloc (pubKeyBytes X (view h k))).1 (memoKey X h k) =
            view (h.alloc (pubKeyBytes X (view h k))).1 k := rfl
        rw [e1, view_alloc _ (hi.bnd i k hk)]
        simp [memoKey, read_eq, buf_alloc]
      · exact hm

theorem memo_allocs_addKey {h : Heap} (hi : Inv h) (hm : MemoOK X h) (bs : List Bytes) (k : HKey)
    (hk0 : k.pubKey.len = 0) : MemoOK X ((allocs h bs).addKey k).1 :=
  memo_addKey X (memo_allocs X hi hm bs) k hk0

theorem read_zero4_of_disj {h : Heap} (hi : Inv h) {i j : Nat} {k kj : HKey} (hk : h.keys[i]? = some k)
    (hkj : h.keys[j]? = some kj) (hne : i ≠ j) (g : Nat) (hg : g < 4) :
    (zero4 h k).read (fld kj g) = h.read (fld kj g) := by
  have hov : ∀ f : Nat, f < 4 → 0 < (fld k f).len → 0 < (fld kj g).len →
      overlap (fld k f) (fld kj g) = false :=
    fun f hf hl hl' => hi.pairwise i j k kj f g hk hkj hf hg (by simp [hne]) hl hl'
  unfold zero4
  rw [read_zero_disj _ k.parentFP _ (hov 3 (by omega)), read_zero_disj _ k.chainCode _ (hov 2 (by omega)),
    read_zero_disj _ k.pubKey _ (hov 1 (by omega)), read_zero_disj _ k.key _ (hov 0 (by omega))]

theorem memo_zeroH {h : Heap} (hi : Inv h) (hm : MemoOK X h) (i : Nat) : MemoOK X (zeroH h i) := by
  rw [zeroH_eq]
  split
  · exact hm
  · next k hk =>
    intro a ka hka hp hl
    rw [setKey_keys, List.getElem?_set] at hka
    by_cases e : i = a
    · rw [if_pos e] at hka
      split at hka
      · simp at hka; subst hka; simp at hp
      · cases hka
    · rw [if_neg e, zero4_keys] at hka
      show (zero4 h k).read (fld ka 1) = pubKeyBytes X (view (zero4 h k) ka)
      rw [read_zero4_of_disj hi hk hka e 1 (by omega), view_zero4_of_disj hi hk hka e]
      exact hm a ka hka hp hl

theorem memo_setNetH {h : Heap} (hm : MemoOK X h) (i : Nat) (hdPriv hdPub : Bytes) :
    MemoOK X (setNetH h i hdPriv hdPub) := by
  unfold setNetH
  split
  · exact hm
  · next k hk =>
    apply memo_setKey X hm
    intro hp hl
    exact hm i k hk hp hl

theorem memo_step {h : Heap} (hi : Inv h) (hm : MemoOK X h) (op : HOp) : MemoOK X (step X h op).1 := by
  cases op with
  | newMaster seed hdPriv =>
    simp only [step]; rw [newMasterH_eq]; split
    · exact hm
    · exact memo_allocs_addKey X hi hm _ _ rfl
  | parse i =>
    simp only [step]; rw [newKeyFromStringH_eq]; split
    · exact hm
    · exact memo_allocs_addKey X hi hm _ _ rfl
  | child i idx =>
    simp only [step]; rw [childH_eq]; split
    · exact hm
    · split
      · simp only; split
        · exact memo_pubKeyBytesH X hi hm i
        · exact hm
      · exact memo_allocs_addKey X (inv_pubKeyBytesH X hi i) (memo_pubKeyBytesH X hi hm i) _ _ rfl
  | neuter i =>
    simp only [step]; rw [neuterH_eq]; split
    · exact hm
    · split
      · exact hm
      · split
        · exact hm
        · exact memo_allocs_addKey X (inv_pubKeyBytesH X hi i) (memo_pubKeyBytesH X hi hm i) _ _ rfl
  | pubKeyBytes i => exact memo_pubKeyBytesH X hi hm i
  | setNet i p q => exact memo_setNetH X hm i p q
  | zero i => exact memo_zeroH X hi hm i

theorem memo_run (hX : ExtOK X) {h : Heap} (hi : Inv h) (hm : MemoOK X h) (ops : List HOp) :
    MemoOK X (run X h ops) := by
  induction ops generalizing h with
  | nil => exact hm
  | cons op ops ih => exact ih (inv_step X hX hi op) (memo_step X hi hm op)

/-- what every memoising accessor returns is a function of the view only -/
theorem pubKeyBytesH_snd {h : Heap} (hm : MemoOK X h) {i : Nat} {k : HKey} (hk : h.keys[i]? = some k) :
    (pubKeyBytesH X h i).2 = pubKeyBytes X (view h k) := by
  rw [pubKeyBytesH_eq]
  simp only [hk]
  split
  · next hp => simp [pubKeyBytes, view, hp]
  · next hp =>
    split
    · rfl
    · next hl => exact hm i k hk (by simpa using hp) hl

end

/-! ### the view of a freshly created key is the value-level result -/

theorem read_allocs_new (h : Heap) (bs : List Bytes) (c off len : Nat) :
    (allocs h bs).read ⟨h.bufs.length + c, off, len⟩ = ((bs.getD c []).drop off).take len := by
  rw [read_eq, buf_allocs_new]

theorem viewAt_allocs_addKey_new (h : Heap) (bs : List Bytes) (k : HKey) :
    viewAt ((allocs h bs).addKey k).1 h.keys.length = some (view (allocs h bs) k) := by
  have := viewAt_addKey_new (allocs h bs) k
  rwa [allocs_keys] at this

section
variable {Pt : Type} (X : HDExt Pt)

theorem NewMaster_ok' (hX : ExtOK X) {seed hdPriv : Bytes} {xk : XKey}
    (e : NewMaster X seed hdPriv = .ok xk) :
    xk = ⟨xk.key, xk.chainCode, 0, [0, 0, 0, 0], 0, xk.version, true⟩ ∧
      xk.key.length = 32 ∧ xk.chainCode.length = 32 := by
  refine ⟨?_, NewMaster_ok X hX e⟩
  unfold NewMaster at e
  split at e
  · cases e
  · simp only at e
    split at e
    · cases e
    · cases e; rfl

theorem created_newMaster (hX : ExtOK X) (h : Heap) {seed hdPriv : Bytes} {xk : XKey}
    (e : NewMaster X seed hdPriv = .ok xk) :
    viewAt (newMasterH X h seed hdPriv).1 h.keys.length = some xk := by
  obtain ⟨hxk, hk, hc⟩ := NewMaster_ok' X hX e
  rw [newMasterH_eq]; simp only [e]
  rw [viewAt_allocs_addKey_new]
  have r1 := read_allocs_new h [xk.key ++ xk.chainCode, [0, 0, 0, 0]] 0 0 32
  have r2 := read_allocs_new h [xk.key ++ xk.chainCode, [0, 0, 0, 0]] 0 32 32
  have r3 := read_allocs_new h [xk.key ++ xk.chainCode, [0, 0, 0, 0]] 1 0 4
  simp only [Nat.add_zero] at r1 r2
  rw [hxk]
  simp only [view, masterKeyH, r1, r2, r3]
  have tc : List.take 32 xk.chainCode = xk.chainCode := List.take_of_length_le (by omega)
  simp [List.drop_append, hk, tc]

theorem Child_ok' (hX : ExtOK X) {v c : XKey} {idx : Nat} (e : Child X v idx = .ok c) :
    c.chainCode.length = 32 ∧ c.parentFP.length = 4 := by
  refine ⟨Child_ok X hX e, ?_⟩
  unfold Child at e
  simp only at e
  repeat' split at e
  all_goals first | (cases e; done) | (cases e; simp [hX.hash160_len])

theorem created_child (hX : ExtOK X) {h : Heap} {i idx : Nat} {k : HKey} {c : XKey}
    (hk : h.keys[i]? = some k) (e : Child X (view h k) idx = .ok c) :
    viewAt (childH X h i idx).1 h.keys.length = some c := by
  obtain ⟨hc, hp⟩ := Child_ok' X hX e
  rw [childH_eq]; simp only [hk, e]
  have hlen := keys_length_pubKeyBytesH X h i
  rw [← hlen, viewAt_allocs_addKey_new]
  generalize (pubKeyBytesH X h i).1 = h1
  have r1 := read_allocs_new h1 [List.replicate 32 0 ++ c.chainCode, c.key, c.parentFP ++ List.replicate 16 0] 1 0 c.key.length
  have r2 := read_allocs_new h1 [List.replicate 32 0 ++ c.chainCode, c.key, c.parentFP ++ List.replicate 16 0] 0 32 32
  have r3 := read_allocs_new h1 [List.replicate 32 0 ++ c.chainCode, c.key, c.parentFP ++ List.replicate 16 0] 2 0 4
  simp only [Nat.add_zero] at r2
  simp only [view, childKeyH, r1, r2, r3]
  have tc : List.take 32 c.chainCode = c.chainCode := List.take_of_length_le (by omega)
  simp [List.drop_append, hp, tc]

theorem created_neuter {h : Heap} (hm : MemoOK X h) {i : Nat} {k : HKey} {p : XKey}
    (hk : h.keys[i]? = some k) (hp : k.isPrivate = true) (e : Neuter X (view h k) = .ok p) :
    viewAt (neuterH X h i).1 h.keys.length = some p := by
  have hpk := pubKeyBytesH_snd X hm hk
  rw [neuterH_eq]; simp only [hk, hp, e]
  have hlen := keys_length_pubKeyBytesH X h i
  simp only [Bool.not_true, Bool.false_eq_true, if_false]
  rw [← hlen, viewAt_allocs_addKey_new, hpk]
  generalize (pubKeyBytesH X h i).1 = h1
  have hpe : p = ⟨pubKeyBytes X (view h k), p.chainCode, p.depth, p.parentFP, p.childNum, p.version, false⟩ := by
    unfold Neuter at e
    have : (view h k).isPrivate = true := hp
    simp only [this, Bool.not_true, Bool.false_eq_true, if_false] at e
    split at e
    · cases e
    · cases e; rfl
  clear e hpk
  generalize pubKeyBytes X (view h k) = pk at *
  have r1 := read_allocs_new h1 [pk, p.chainCode, p.parentFP] 0 0 pk.length
  have r2 := read_allocs_new h1 [pk, p.chainCode, p.parentFP] 1 0 p.chainCode.length
  have r3 := read_allocs_new h1 [pk, p.chainCode, p.parentFP] 2 0 p.parentFP.length
  simp only [Nat.add_zero] at r1
  conv => rhs; rw [hpe]
  simp only [view, neuterKeyH, r1, r2, r3]
  simp

theorem created_parse (h : Heap) {s : Bytes} {xk : XKey} (e : NewKeyFromString X s = .ok xk) :
    viewAt (newKeyFromStringH X h s).1 h.keys.length = some xk := by
  have hl := NewKeyFromString_ok X e
  rw [newKeyFromStringH_eq]; simp only [e]
  rw [viewAt_allocs_addKey_new]
  have r (off len : Nat) := read_allocs_new h [Base58.Decode s] 0 off len
  simp only [Nat.add_zero] at r
  unfold NewKeyFromString at e
  simp only at e
  repeat' split at e
  all_goals first
    | (cases e; done)
    | (cases e
       simp only [view, parsedKeyH, r, if_true, Bool.false_eq_true, if_false]
       simp [List.drop_take, List.take_take, hl])

end

theorem foldl_applyOwn_of_not_targets (j : Nat) (ops : List HOp)
    (hn : ∀ op ∈ ops, ¬ targetsDestructively op j) (v : XKey) : ops.foldl (applyOwn j) v = v := by
  induction ops generalizing v with
  | nil => rfl
  | cons op ops ih =>
    rw [List.foldl_cons, applyOwn_of_not_targets (hn op (by simp)), ih (fun o ho => hn o (by simp [ho]))]

theorem Inv.bounds {h : Heap} (hi : Inv h) :
    ∀ k ∈ h.keys, ∀ r ∈ [k.key, k.pubKey, k.chainCode, k.parentFP],
      r.off + r.len ≤ (h.bufs.getD r.buf []).length := by
  intro k hk r hr
  obtain ⟨i, hi'⟩ := List.mem_iff_getElem?.mp hk
  have hb := hi.bnd i k hi'
  rw [forall_fld] at hb
  simp only [List.mem_cons, List.not_mem_nil, or_false] at hr
  rcases hr with rfl | rfl | rfl | rfl
  · exact hb.1
  · exact hb.2.1
  · exact hb.2.2.1
  · exact hb.2.2.2

/-! ### byte-length of `ofNatBE` (for concrete `ExtOK` instances) -/

theorem ofNatLE_length (n x : Nat) : (Bytes.ofNatLE n x).length = n := by
  induction n generalizing x with
  | zero => rfl
  | succ n ih => simp [Bytes.ofNatLE, ih]

theorem ofNatBE_length (n x : Nat) : (Bytes.ofNatBE n x).length = n := by
  simp [Bytes.ofNatBE, ofNatLE_length]

end Bch.Proofs.HDHeap
