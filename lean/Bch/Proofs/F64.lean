import Bch.Proofs.F64Order
/-
  Bch.Proofs.F64 — facts about the executable binary64 model `Bch.Prim.F64`, summary file.

  Layout of the development (each file builds in a few seconds):
  * `F64Bits`     bit fields of a pattern, classification predicates, `decodeAbs`, `neg`, pattern assembly
  * `F64Val`      `val`/`fval`/`absval` (exact rational value), `bitLen`, the integer rounding step `rneMant`
  * `F64Round`    `roundScaled`: unfolding, mantissa spec, float-level result
  * `F64RN`       `IsRN` (correct rounding) and `roundScaled_isRN`, `roundScaled_err`
  * `F64Quot`     `Rounded`, rounding to zero, `roundQuot`
  * `F64Arith`    `mul`, `div`, `ofInt`: correctly rounded, relative error `2^-53`, finiteness criteria
  * `F64RoundInt` `roundAway`, `roundHalfAway_spec` (Go `math.Round`), `truncToInt_of_int`
  * `F64Order`    sign symmetry (`roundScaled_neg`, `mul_neg_left`), `fval_lt_of_lt`
  This file adds a few more lemmas and restates the main results in terms of `val`.
-/
namespace Bch.Proofs.F64
open Bch.Prim.F64

/-- ties go away from zero -/
theorem roundAway_tie (v : ℚ) (h : |v - roundAway v| = 1/2) : |v| < |(roundAway v : ℚ)| := by
  rcases le_or_gt 0 v with hv | hv
  · unfold roundAway at h ⊢
    rw [if_pos hv] at h ⊢
    have h1 := Int.floor_le (v + 1/2)
    have h2 := Int.lt_floor_add_one (v + 1/2)
    rcases abs_eq (by norm_num : (0:ℚ) ≤ 1/2) |>.mp h with h3 | h3
    · linarith
    · rw [abs_of_nonneg hv, abs_of_nonneg (by linarith)]; linarith
  · unfold roundAway at h ⊢
    rw [if_neg (by linarith)] at h ⊢
    have h1 := Int.floor_le (-v + 1/2)
    have h2 := Int.lt_floor_add_one (-v + 1/2)
    push_cast at h ⊢
    rcases abs_eq (by norm_num : (0:ℚ) ≤ 1/2) |>.mp h with h3 | h3
    · rw [abs_of_neg hv, abs_neg, abs_of_nonneg (by linarith)]; linarith
    · linarith

theorem roundHalfAway_id (a : UInt64) (h : 1075 ≤ expF a) : roundHalfAway a = a := by
  rw [u64_eq_iff, roundHalfAway_toNat, if_neg (by omega), if_neg (by omega)]

theorem expF_ge_of_absval_ge (a : UInt64) (h : (2:ℚ)^52 ≤ absval a) : 1075 ≤ expF a := by
  by_contra hc
  have hF : (fracF a : ℚ) < 2^52 := by exact_mod_cast (toNat_fields a).2.2.2
  have hF0 : (0:ℚ) ≤ fracF a := by positivity
  rw [absval_eq] at h
  split at h
  · have h1 : (2:ℚ)^(-1074 : Int) ≤ 1 := zpow_le_one_of_nonpos₀ (by norm_num) (by norm_num)
    have hp := two_zpow_pos (-1074)
    nlinarith
  · have h1 : (2:ℚ)^((expF a : Int) - 1075) ≤ 2^(-1 : Int) := zpow_le_zpow_right₀ (by norm_num) (by omega)
    have h2 : (2:ℚ)^(-1 : Int) = 1/2 := by norm_num
    have hp := two_zpow_pos ((expF a : Int) - 1075)
    have hm : ((fracF a + 2^52 : Nat) : ℚ) < 2^53 := by push_cast; linarith
    have hm0 : (0:ℚ) ≤ ((fracF a + 2^52 : Nat) : ℚ) := by positivity
    rw [h2] at h1
    nlinarith

theorem ofInt_neg (i : Int) (h : i ≠ 0) : ofInt (-i) = neg (ofInt i) := by
  unfold ofInt
  rw [← roundScaled_neg, Int.natAbs_neg]
  congr 1
  by_cases hi : i < 0
  · simp [hi]; omega
  · simp [hi]; omega

theorem isZero_false_of_fval_ne (b : UInt64) (h : fval b ≠ 0) : isZero b = false := by
  by_contra hz
  have hz' : isZero b = true := by simpa using hz
  have := (decodeAbs_fst_eq_zero_iff b).mpr hz'
  apply h
  unfold fval absval; rw [this]; simp


/-! ### the main results phrased with `val : UInt64 → Option ℚ` -/

theorem ofInt_exact_val (i : Int) (h : i.natAbs < 2^53) : val (ofInt i) = some (i : ℚ) :=
  (val_eq_some_iff _ _).mpr ⟨(ofInt_exact i h).1, (ofInt_exact i h).2.1⟩

theorem mul_isRN_val (a b : UInt64) (va vb : ℚ) (ha : val a = some va) (hb : val b = some vb)
    (hfin : isFinite (mul a b) = true) : IsRN (va * vb) (mul a b) := by
  obtain ⟨ha1, ha2⟩ := (val_eq_some_iff a va).mp ha
  obtain ⟨hb1, hb2⟩ := (val_eq_some_iff b vb).mp hb
  rw [← ha2, ← hb2]; exact mul_isRN a b ha1 hb1 hfin

theorem mul_finite_val (a b : UInt64) (va vb : ℚ) (ha : val a = some va) (hb : val b = some vb)
    (hlt : |va * vb| < 2^1023) : isFinite (mul a b) = true := by
  obtain ⟨ha1, ha2⟩ := (val_eq_some_iff a va).mp ha
  obtain ⟨hb1, hb2⟩ := (val_eq_some_iff b vb).mp hb
  apply mul_finite_of_lt a b ha1 hb1
  rwa [← abs_fval, ← abs_fval, ← abs_mul, ha2, hb2]

theorem div_isRN_val (a b : UInt64) (va vb : ℚ) (ha : val a = some va) (hb : val b = some vb)
    (hvb : vb ≠ 0) (hfin : isFinite (div a b) = true) : IsRN (va / vb) (div a b) := by
  obtain ⟨ha1, ha2⟩ := (val_eq_some_iff a va).mp ha
  obtain ⟨hb1, hb2⟩ := (val_eq_some_iff b vb).mp hb
  rw [← ha2, ← hb2]
  exact div_isRN a b ha1 hb1 (isZero_false_of_fval_ne b (by rw [hb2]; exact hvb)) hfin

theorem div_finite_val (a b : UInt64) (va vb : ℚ) (ha : val a = some va) (hb : val b = some vb)
    (hvb : vb ≠ 0) (hlt : |va / vb| < 2^1023) : isFinite (div a b) = true := by
  obtain ⟨ha1, ha2⟩ := (val_eq_some_iff a va).mp ha
  obtain ⟨hb1, hb2⟩ := (val_eq_some_iff b vb).mp hb
  apply div_finite_of_lt a b ha1 hb1 (isZero_false_of_fval_ne b (by rw [hb2]; exact hvb))
  rwa [← abs_fval, ← abs_fval, ← abs_div, ha2, hb2]

theorem roundHalfAway_val (a : UInt64) (v : ℚ) (ha : val a = some v) :
    val (roundHalfAway a) = some (roundAway v : ℚ) ∧
    truncToInt (roundHalfAway a) = some (roundAway v) ∧
    ((2:ℚ)^52 ≤ |v| → roundHalfAway a = a) := by
  obtain ⟨ha1, ha2⟩ := (val_eq_some_iff a v).mp ha
  obtain ⟨h1, _, h3⟩ := roundHalfAway_spec a ha1
  rw [ha2] at h3
  refine ⟨(val_eq_some_iff _ _).mpr ⟨h1, h3⟩, truncToInt_of_int _ h1 _ h3, fun h => ?_⟩
  apply roundHalfAway_id
  apply expF_ge_of_absval_ge
  rwa [← abs_fval, ha2]

end Bch.Proofs.F64
