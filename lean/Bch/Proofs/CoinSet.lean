import Bch.Model.CoinSet
import Bch.Proofs.TxSort
/-
Helper lemmas for C19 (coin sets and coin selection).
-/
namespace Bch.Proofs.CoinSet
open Bch Bch.Model.TxSort Bch.Model.CoinSet Bch.Proofs.TxSort

/-! ## sums and the totals invariant -/

/-- total value of a list of coins -/
def sumV (l : List Coin) : Int := (l.map Coin.value).sum
/-- total value-age of a list of coins -/
def sumVA (l : List Coin) : Int := (l.map Coin.valueAge).sum

@[simp] theorem sumV_nil : sumV [] = 0 := rfl
@[simp] theorem sumVA_nil : sumVA [] = 0 := rfl
@[simp] theorem sumV_cons (c : Coin) (l : List Coin) : sumV (c :: l) = c.value + sumV l := by
  simp [sumV]
@[simp] theorem sumVA_cons (c : Coin) (l : List Coin) : sumVA (c :: l) = c.valueAge + sumVA l := by
  simp [sumVA]
@[simp] theorem sumV_append (a b : List Coin) : sumV (a ++ b) = sumV a + sumV b := by
  induction a with
  | nil => simp
  | cons x xs ih => simp [ih]; omega
@[simp] theorem sumVA_append (a b : List Coin) : sumVA (a ++ b) = sumVA a + sumVA b := by
  induction a with
  | nil => simp
  | cons x xs ih => simp [ih]; omega

/-- the running totals equal the sums over the current contents -/
def Inv (s : CS) : Prop := s.totalValue = sumV s.coins ∧ s.totalValueAge = sumVA s.coins

theorem inv_empty : Inv {} := ⟨rfl, rfl⟩

theorem push_coins (s : CS) (c : Coin) : (s.push c).coins = s.coins ++ [c] := rfl

theorem push_inv (s : CS) (c : Coin) (h : Inv s) : Inv (s.push c) := by
  obtain ⟨h1, h2⟩ := h
  constructor <;> simp [CS.push, h1, h2]

theorem pop_of_nil (s : CS) (h : s.coins = []) : s.pop = (s, none) := by
  simp [CS.pop, h]

theorem pop_of_snoc (s : CS) (l : List Coin) (c : Coin) (h : s.coins = l ++ [c]) :
    s.pop = (⟨l, s.totalValue - c.value, s.totalValueAge - c.valueAge⟩, some c) := by
  simp [CS.pop, h]

theorem pop_inv (s : CS) (h : Inv s) : Inv s.pop.1 := by
  rcases List.eq_nil_or_concat s.coins with hn | ⟨l, c, hl⟩
  · rw [pop_of_nil s hn]; exact h
  · rw [List.concat_eq_append] at hl
    rw [pop_of_snoc s l c hl]
    obtain ⟨h1, h2⟩ := h
    rw [hl] at h1 h2
    constructor <;> simp_all <;> omega

theorem shift_of_nil (s : CS) (h : s.coins = []) : s.shift = (s, none) := by
  simp [CS.shift, h]

theorem shift_of_cons (s : CS) (c : Coin) (l : List Coin) (h : s.coins = c :: l) :
    s.shift = (⟨l, s.totalValue - c.value, s.totalValueAge - c.valueAge⟩, some c) := by
  simp [CS.shift, h]

theorem shift_inv (s : CS) (h : Inv s) : Inv s.shift.1 := by
  cases hc : s.coins with
  | nil => rw [shift_of_nil s hc]; exact h
  | cons c l =>
    rw [shift_of_cons s c l hc]
    obtain ⟨h1, h2⟩ := h
    rw [hc] at h1 h2
    constructor <;> simp_all <;> omega

/-- pushing a whole list -/
theorem foldl_push_eq (l : List Coin) (s : CS) :
    l.foldl CS.push s = ⟨s.coins ++ l, s.totalValue + sumV l, s.totalValueAge + sumVA l⟩ := by
  induction l generalizing s with
  | nil => simp
  | cons c cs ih =>
    rw [List.foldl_cons, ih]
    simp only [CS.push, List.append_assoc, List.singleton_append, sumV_cons, sumVA_cons, CS.mk.injEq,
      true_and]
    constructor <;> omega

theorem ofList_eq (l : List Coin) : CS.ofList l = ⟨l, sumV l, sumVA l⟩ := by
  unfold CS.ofList
  rw [foldl_push_eq]
  simp

theorem ofList_inv (l : List Coin) : Inv (CS.ofList l) := by
  rw [ofList_eq]; exact ⟨rfl, rfl⟩

/-- apply a history of operations -/
def run (s : CS) (ops : List Op) : CS := ops.foldl (fun s o => (stepOp s o).1) s

theorem stepOp_inv (s : CS) (o : Op) (h : Inv s) : Inv (stepOp s o).1 := by
  cases o with
  | push c => exact push_inv s c h
  | pop => exact pop_inv s h
  | shift => exact shift_inv s h

theorem run_inv (s : CS) (ops : List Op) (h : Inv s) : Inv (run s ops) := by
  unfold run
  induction ops generalizing s with
  | nil => exact h
  | cons o os ih => rw [List.foldl_cons]; exact ih _ (stepOp_inv s o h)

/-! ## the prefix scan -/

theorem exists_least {p : Nat → Prop} {k : Nat} (hk : p k) :
    ∃ k0, p k0 ∧ k0 ≤ k ∧ ∀ j, j < k0 → ¬ p j := by
  induction k using Nat.strongRecOn with
  | _ k ih =>
    by_cases h : ∃ j, j < k ∧ p j
    · obtain ⟨j, hj, hpj⟩ := h
      obtain ⟨k0, h1, h2, h3⟩ := ih j hj hpj
      exact ⟨k0, h1, by omega, h3⟩
    · exact ⟨k, hk, Nat.le_refl _, fun j hj hpj => h ⟨j, hj, hpj⟩⟩

/-- `k` is the length of the shortest non-empty prefix of `coins` (of at most `n` coins) whose value on top of
    `base` satisfies the target rule -/
def IsFirst (t m base : Int) (n : Nat) (coins : List Coin) (k : Nat) : Prop :=
  1 ≤ k ∧ k ≤ coins.length ∧ k ≤ n ∧
  satisfiesTargetValue t m (base + sumV (coins.take k)) = true ∧
  ∀ j, 1 ≤ j → j < k → satisfiesTargetValue t m (base + sumV (coins.take j)) = false

theorem minIndexGo_some_iff (t m : Int) (n : Nat) (coins : List Coin) (acc cs : CS) :
    minIndexGo t m n coins acc = some cs ↔
      ∃ k, IsFirst t m acc.totalValue n coins k ∧ cs = (coins.take k).foldl CS.push acc := by
  induction coins generalizing n acc with
  | nil =>
    have : minIndexGo t m n [] acc = none := by cases n <;> rfl
    rw [this]
    constructor
    · intro h; cases h
    · rintro ⟨k, ⟨h1, h2, _⟩, _⟩; simp at h2; omega
  | cons c rest ih =>
    cases n with
    | zero =>
      simp only [minIndexGo]
      constructor
      · intro h; cases h
      · rintro ⟨k, ⟨h1, _, h3, _⟩, _⟩; omega
    | succ n =>
      simp only [minIndexGo]
      have hpush : (acc.push c).totalValue = acc.totalValue + c.value := rfl
      by_cases hsat : satisfiesTargetValue t m (acc.push c).totalValue = true
      · rw [if_pos hsat]
        constructor
        · intro h
          injection h with h
          refine ⟨1, ⟨Nat.le_refl _, by simp, by omega, ?_, ?_⟩, ?_⟩
          · simpa [hpush] using hsat
          · intro j h1 h2; omega
          · simp [← h]
        · rintro ⟨k, ⟨h1, h2, h3, h4, h5⟩, h6⟩
          have hk : k = 1 := by
            by_cases hk : k = 1
            · exact hk
            · exfalso
              have := h5 1 (Nat.le_refl _) (by omega)
              simp only [List.take_succ_cons, List.take_zero, sumV_cons, sumV_nil] at this
              rw [hpush] at hsat
              rw [show acc.totalValue + (c.value + 0) = acc.totalValue + c.value by omega] at this
              rw [this] at hsat; cases hsat
          subst hk
          rw [h6]; simp
      · rw [if_neg hsat, ih]
        have hsat' : satisfiesTargetValue t m (acc.totalValue + c.value) = false := by
          rw [hpush] at hsat; simpa using hsat
        constructor
        · rintro ⟨k, ⟨h1, h2, h3, h4, h5⟩, h6⟩
          refine ⟨k + 1, ⟨by omega, by simp; omega, by omega, ?_, ?_⟩, ?_⟩
          · simp only [List.take_succ_cons, sumV_cons]
            rw [hpush] at h4
            rw [← Int.add_assoc]; exact h4
          · intro j hj1 hj2
            cases j with
            | zero => omega
            | succ j =>
              simp only [List.take_succ_cons, sumV_cons]
              rw [← Int.add_assoc]
              by_cases hj0 : j = 0
              · subst hj0; simpa using hsat'
              · have := h5 j (by omega) (by omega)
                rw [hpush] at this; exact this
          · rw [h6]; simp
        · rintro ⟨k, ⟨h1, h2, h3, h4, h5⟩, h6⟩
          cases k with
          | zero => omega
          | succ k =>
            have hk0 : k ≠ 0 := by
              rintro rfl
              simp only [Nat.zero_add, List.take_succ_cons, List.take_zero, sumV_cons, sumV_nil] at h4
              rw [show acc.totalValue + (c.value + 0) = acc.totalValue + c.value by omega] at h4
              rw [h4] at hsat'; cases hsat'
            simp only [List.length_cons] at h2
            refine ⟨k, ⟨by omega, by omega, by omega, ?_, ?_⟩, ?_⟩
            · simp only [List.take_succ_cons, sumV_cons] at h4
              rw [hpush, Int.add_assoc]; exact h4
            · intro j hj1 hj2
              have := h5 (j + 1) (by omega) (by omega)
              simp only [List.take_succ_cons, sumV_cons] at this
              rw [hpush, Int.add_assoc]; exact this
            · rw [h6]; simp

/-- shortest qualifying prefix, as a predicate on the list itself -/
def IsFirstPrefix (maxInputs minChange target : Int) (coins : List Coin) (k : Nat) : Prop :=
  1 ≤ k ∧ k ≤ coins.length ∧ (k : Int) ≤ maxInputs ∧
  satisfiesTargetValue target minChange (sumV (coins.take k)) = true ∧
  ∀ j, 1 ≤ j → j < k → satisfiesTargetValue target minChange (sumV (coins.take j)) = false

theorem isFirst_iff (maxInputs minChange target : Int) (coins : List Coin) (k : Nat) :
    IsFirst target minChange 0 maxInputs.toNat coins k ↔ IsFirstPrefix maxInputs minChange target coins k := by
  unfold IsFirst IsFirstPrefix
  simp only [Int.zero_add]
  constructor
  · rintro ⟨h1, h2, h3, h4⟩; exact ⟨h1, h2, by omega, h4⟩
  · rintro ⟨h1, h2, h3, h4⟩; exact ⟨h1, h2, by omega, h4⟩

theorem minIndex_some_iff (maxInputs minChange target : Int) (coins : List Coin) (cs : CS) :
    minIndex maxInputs minChange target coins = some cs ↔
      ∃ k, IsFirstPrefix maxInputs minChange target coins k ∧
        cs = ⟨coins.take k, sumV (coins.take k), sumVA (coins.take k)⟩ := by
  unfold minIndex
  rw [minIndexGo_some_iff]
  constructor
  · rintro ⟨k, h1, h2⟩
    refine ⟨k, (isFirst_iff _ _ _ _ _).1 h1, ?_⟩
    rw [h2, foldl_push_eq]; simp
  · rintro ⟨k, h1, h2⟩
    refine ⟨k, (isFirst_iff _ _ _ _ _).2 h1, ?_⟩
    rw [h2, foldl_push_eq]; simp

theorem minIndex_none_iff (maxInputs minChange target : Int) (coins : List Coin) :
    minIndex maxInputs minChange target coins = none ↔
      ∀ k, 1 ≤ k → k ≤ coins.length → (k : Int) ≤ maxInputs →
        satisfiesTargetValue target minChange (sumV (coins.take k)) = false := by
  constructor
  · intro hnone k h1 h2 h3
    cases hs : satisfiesTargetValue target minChange (sumV (coins.take k))
    · rfl
    · exfalso
      obtain ⟨k0, ⟨hk1, hk2, hk3, hk4⟩, hle, hmin⟩ :=
        exists_least (p := fun k => 1 ≤ k ∧ k ≤ coins.length ∧ (k : Int) ≤ maxInputs ∧
          satisfiesTargetValue target minChange (sumV (coins.take k)) = true) ⟨h1, h2, h3, hs⟩
      have : minIndex maxInputs minChange target coins =
          some ⟨coins.take k0, sumV (coins.take k0), sumVA (coins.take k0)⟩ := by
        rw [minIndex_some_iff]
        refine ⟨k0, ⟨hk1, hk2, hk3, hk4, ?_⟩, rfl⟩
        intro j hj1 hj2
        cases hj : satisfiesTargetValue target minChange (sumV (coins.take j))
        · rfl
        · exact absurd ⟨hj1, by omega, by omega, hj⟩ (hmin j hj2)
      rw [hnone] at this; cases this
  · intro h
    cases hm : minIndex maxInputs minChange target coins with
    | none => rfl
    | some cs =>
      obtain ⟨k, ⟨h1, h2, h3, h4, _⟩, _⟩ := (minIndex_some_iff _ _ _ _ _).1 hm
      rw [h k h1 h2 h3] at h4; cases h4

/-- the prefix determined by `IsFirstPrefix` is unique -/
theorem isFirstPrefix_unique {maxInputs minChange target : Int} {coins : List Coin} {k k' : Nat}
    (h : IsFirstPrefix maxInputs minChange target coins k)
    (h' : IsFirstPrefix maxInputs minChange target coins k') : k = k' := by
  obtain ⟨h1, _, _, h4, h5⟩ := h
  obtain ⟨h1', _, _, h4', h5'⟩ := h'
  rcases Nat.lt_trichotomy k k' with l | e | g
  · have := h5' k h1 l; rw [this] at h4; cases h4
  · exact e
  · have := h5 k' h1' g; rw [this] at h4'; cases h4'

/-! ## sub-multisets -/

/-- `s` is a sub-multiset of `l`: a sublist of some permutation of `l` (every element of `l` used at most as often
    as it occurs in `l`) -/
def SubMultiset {α : Type} (s l : List α) : Prop := ∃ p, p.Perm l ∧ s.Sublist p

theorem SubMultiset.refl {α : Type} (l : List α) : SubMultiset l l := ⟨l, List.Perm.refl _, List.Sublist.refl _⟩

theorem SubMultiset.of_sublist {α : Type} {s l : List α} (h : s.Sublist l) : SubMultiset s l :=
  ⟨l, List.Perm.refl _, h⟩

theorem SubMultiset.of_sublist_perm {α : Type} {s p l : List α} (h : s.Sublist p) (hp : p.Perm l) :
    SubMultiset s l := ⟨p, hp, h⟩

theorem SubMultiset.mono_left {α : Type} {s' s l : List α} (hs : s'.Sublist s) (h : SubMultiset s l) :
    SubMultiset s' l := by
  obtain ⟨p, hp, hsp⟩ := h
  exact ⟨p, hp, hs.trans hsp⟩

theorem SubMultiset.trans {α : Type} {a b c : List α} (h1 : SubMultiset a b) (h2 : SubMultiset b c) :
    SubMultiset a c := by
  obtain ⟨p, hp, hap⟩ := h1
  obtain ⟨q, hq, hbq⟩ := h2
  obtain ⟨r, hr⟩ := hbq.exists_perm_append
  refine ⟨p ++ r, ?_, hap.trans (List.sublist_append_left p r)⟩
  exact ((hp.append_right r).trans hr.symm).trans hq

theorem SubMultiset.append {α : Type} {a b l1 l2 : List α} (h1 : SubMultiset a l1) (h2 : SubMultiset b l2) :
    SubMultiset (a ++ b) (l1 ++ l2) := by
  obtain ⟨p, hp, hap⟩ := h1
  obtain ⟨q, hq, hbq⟩ := h2
  exact ⟨p ++ q, hp.append hq, hap.append hbq⟩

theorem SubMultiset.subset {α : Type} {s l : List α} (h : SubMultiset s l) : ∀ c ∈ s, c ∈ l := by
  obtain ⟨p, hp, hsp⟩ := h
  intro c hc
  exact hp.mem_iff.1 (hsp.subset hc)

theorem SubMultiset.nodup {α : Type} {s l : List α} (h : SubMultiset s l) (hl : l.Nodup) : s.Nodup := by
  obtain ⟨p, hp, hsp⟩ := h
  exact (hp.nodup_iff.2 hl).sublist hsp

theorem SubMultiset.length_le {α : Type} {s l : List α} (h : SubMultiset s l) : s.length ≤ l.length := by
  obtain ⟨p, hp, hsp⟩ := h
  rw [← hp.length_eq]; exact hsp.length_le

theorem SubMultiset.count_le {α : Type} [BEq α] [LawfulBEq α] {s l : List α} (h : SubMultiset s l) (c : α) :
    s.count c ≤ l.count c := by
  obtain ⟨p, hp, hsp⟩ := h
  rw [← hp.count_eq]; exact hsp.count_le c

/-! ## the three sort orders -/

theorem strictTotal_int_gt : StrictTotal (fun a b : Int => b < a) where
  irrefl k := Int.lt_irrefl k
  trans _ _ _ h1 h2 := Int.lt_trans h2 h1
  total a b := by omega

theorem keyOrder_valueDesc :
    KeyOrder (fun a b : Coin => decide (b.value < a.value)) Coin.value (fun x y : Int => y < x) :=
  ⟨fun _ _ => decide_eq_true_iff, strictTotal_int_gt⟩

theorem keyOrder_valueAgeDesc :
    KeyOrder (fun a b : Coin => decide (b.valueAge < a.valueAge)) Coin.valueAge (fun x y : Int => y < x) :=
  ⟨fun _ _ => decide_eq_true_iff, strictTotal_int_gt⟩

theorem keyOrder_valueAgeAsc :
    KeyOrder (fun a b : Coin => decide (a.valueAge < b.valueAge)) Coin.valueAge (fun x y : Int => x < y) :=
  ⟨fun _ _ => decide_eq_true_iff, strictTotal_int⟩

theorem sortByValueDesc_perm (l : List Coin) : (sortByValueDesc l).Perm l := sortBy_perm _ l
theorem sortByValueAgeDesc_perm (l : List Coin) : (sortByValueAgeDesc l).Perm l := sortBy_perm _ l
theorem sortByValueAgeAsc_perm (l : List Coin) : (sortByValueAgeAsc l).Perm l := sortBy_perm _ l

theorem sortByValueDesc_sorted (l : List Coin) :
    (sortByValueDesc l).Pairwise (fun a b => b.value ≤ a.value) := by
  have := sortBy_pairwise keyOrder_valueDesc.strictWeak l
  refine this.imp ?_
  intro a b h
  have := of_decide_eq_false h
  omega

theorem sortByValueAgeDesc_sorted (l : List Coin) :
    (sortByValueAgeDesc l).Pairwise (fun a b => b.valueAge ≤ a.valueAge) := by
  have := sortBy_pairwise keyOrder_valueAgeDesc.strictWeak l
  refine this.imp ?_
  intro a b h
  have := of_decide_eq_false h
  omega

theorem sortByValueAgeAsc_sorted (l : List Coin) :
    (sortByValueAgeAsc l).Pairwise (fun a b => a.valueAge ≤ b.valueAge) := by
  have := sortBy_pairwise keyOrder_valueAgeAsc.strictWeak l
  refine this.imp ?_
  intro a b h
  have := of_decide_eq_false h
  omega

/-! ## arithmetic -/

theorem avg_combine (m M n n' A H V : Int) (hn : 0 < n) (h0 : 0 ≤ n') (h1 : n' ≤ n)
    (hA : m * H ≤ A) (hM : m * (H + n) - A ≤ M * n) (hV : M * n' ≤ V) : m * (H + n') ≤ A + V := by
  have e1 := Int.mul_le_mul_of_nonneg_right hM h0
  have e2 : (A - m * H) * n' ≤ (A - m * H) * n := Int.mul_le_mul_of_nonneg_left h1 (by omega)
  have e3 := Int.mul_le_mul_of_nonneg_right hV (Int.le_of_lt hn)
  apply Int.le_of_mul_le_mul_right (a := n) _ hn
  grind

theorem le_of_le_tdiv (a n m : Int) (ha : 0 ≤ a) (hn : 0 < n) (h : m ≤ a.tdiv n) : m * n ≤ a := by
  have h1 := Int.mul_tdiv_add_tmod a n
  have h2 := Int.tmod_nonneg n ha
  have h3 := Int.mul_le_mul_of_nonneg_right h (Int.le_of_lt hn)
  rw [Int.mul_comm] at h1
  omega

/-- the rounded-up quotient used for `newMinAvgValueAge` times the divisor is at least the dividend -/
theorem ceil_mul_ge (needed n : Int) (hn : 0 < n) :
    needed ≤ (if needed > 0 ∧ Int.tmod needed n ≠ 0 then Int.tdiv needed n + 1 else Int.tdiv needed n) * n := by
  have h1 := Int.mul_tdiv_add_tmod needed n
  rw [Int.mul_comm] at h1
  split
  · have := Int.tmod_lt_of_pos needed hn
    rw [Int.add_mul]; omega
  · rename_i h
    by_cases hp : needed > 0
    · have : needed.tmod n = 0 := by
        by_cases h0 : needed.tmod n = 0
        · exact h0
        · exact absurd ⟨hp, h0⟩ h
      omega
    · have h2 : 0 ≤ (-needed).tmod n := Int.tmod_nonneg n (by omega)
      rw [Int.neg_tmod] at h2
      omega

theorem sumVA_ge (l : List Coin) (m : Int) (h : ∀ c ∈ l, m ≤ c.valueAge) :
    m * (l.length : Int) ≤ sumVA l := by
  induction l with
  | nil => simp
  | cons c cs ih =>
    have h1 := h c List.mem_cons_self
    have h2 := ih (fun x hx => h x (List.mem_cons_of_mem _ hx))
    simp only [List.length_cons, sumVA_cons]
    rw [Int.natCast_add, Int.mul_add]
    simp only [Int.cast_ofNat_Int, Int.mul_one]
    omega

theorem sat_shift (t mc H x : Int) (h : satisfiesTargetValue (t - H) mc x = true) :
    satisfiesTargetValue t mc (H + x) = true := by
  unfold satisfiesTargetValue at *
  simp only [Bool.or_eq_true, beq_iff_eq, decide_eq_true_eq] at *
  omega

/-! ## the min-priority selector -/

/-- what a successful selection must satisfy -/
structure Good (mi mc ma t : Int) (coins : List Coin) (cs : CS) : Prop where
  sub : SubMultiset cs.coins coins
  len : (cs.coins.length : Int) ≤ mi
  inv : Inv cs
  sat : satisfiesTargetValue t mc cs.totalValue = true
  avg : (∀ c ∈ coins, 0 ≤ c.valueAge) → ma * (cs.coins.length : Int) ≤ cs.totalValueAge

/-- the recursive call is sound -/
def RecOK (rec : Rec) : Prop :=
  ∀ mi mc ma t coins cs, rec mi mc ma t coins = some cs → Good mi mc ma t coins cs

theorem extend_basic (mi mc ma t : Int) (X : List Coin) (l : List Coin) (e : CS)
    (hinv : Inv e) (hlen : (e.coins.length : Int) ≤ mi)
    (hsat : satisfiesTargetValue t mc e.totalValue = true)
    (hsub : SubMultiset (e.coins ++ l) X) :
    Inv (extend mi mc ma t l e) ∧ ((extend mi mc ma t l e).coins.length : Int) ≤ mi ∧
    satisfiesTargetValue t mc (extend mi mc ma t l e).totalValue = true ∧
    SubMultiset (extend mi mc ma t l e).coins X := by
  induction l generalizing e with
  | nil => simp only [extend]; exact ⟨hinv, hlen, hsat, by simpa using hsub⟩
  | cons c cs ih =>
    have hskip : SubMultiset (e.coins ++ cs) X :=
      hsub.mono_left ((List.Sublist.refl _).append (List.sublist_cons_self c cs))
    simp only [extend]
    split
    · exact ⟨hinv, hlen, hsat, hsub.mono_left (List.sublist_append_left _ _)⟩
    · rename_i hfull
      split
      · exact ih e hinv hlen hsat hskip
      · split
        · exact ih e hinv hlen hsat hskip
        · rename_i hcond
          simp only [Bool.or_eq_true, decide_eq_true_eq, Bool.not_eq_true', not_or,
            Bool.not_eq_false] at hcond
          refine ih (e.push c) (push_inv e c hinv) ?_ hcond.2 ?_
          · rw [push_coins]; simp only [List.length_append, List.length_cons, List.length_nil]
            omega
          · rw [push_coins]; simpa using hsub

theorem extend_avg (mi mc ma t : Int) (l : List Coin) (e : CS)
    (hnn : ∀ c ∈ l, 0 ≤ c.valueAge) (h0 : 0 ≤ e.totalValueAge)
    (havg : ma * (e.coins.length : Int) ≤ e.totalValueAge) :
    0 ≤ (extend mi mc ma t l e).totalValueAge ∧
    ma * ((extend mi mc ma t l e).coins.length : Int) ≤ (extend mi mc ma t l e).totalValueAge := by
  induction l generalizing e with
  | nil => exact ⟨h0, havg⟩
  | cons c cs ih =>
    have hnn' : ∀ x ∈ cs, 0 ≤ x.valueAge := fun x hx => hnn x (List.mem_cons_of_mem _ hx)
    simp only [extend]
    split
    · exact ⟨h0, havg⟩
    · split
      · exact ih e hnn' h0 havg
      · split
        · exact ih e hnn' h0 havg
        · rename_i hcond
          simp only [Bool.or_eq_true, decide_eq_true_eq, Bool.not_eq_true', not_or,
            Bool.not_eq_false] at hcond
          have hc := hnn c List.mem_cons_self
          have hva : (e.push c).totalValueAge = e.totalValueAge + c.valueAge := rfl
          refine ih (e.push c) hnn' (by rw [hva]; omega) ?_
          have hpos : (0 : Int) < ((e.push c).coins.length : Int) := by
            rw [push_coins]; simp only [List.length_append, List.length_cons, List.length_nil]; omega
          exact le_of_le_tdiv _ _ _ (by rw [hva]; omega) hpos (by omega)

theorem loopLow_ok (rec : Rec) (hrec : RecOK rec) (mi mc ma t : Int) (cutoff i : Nat)
    (lows highs coins : List Coin) (hci : cutoff ≤ i) (hhl : highs.length ≤ i + 1 - cutoff)
    (hhigh : ∀ c ∈ highs, ma ≤ c.valueAge) (hsplit : SubMultiset (highs ++ lows) coins)
    (m numLow : Nat) (h1 : 1 ≤ numLow) (cs : CS)
    (h : loopLow rec mi mc ma t cutoff i lows highs m numLow = some cs) : Good mi mc ma t coins cs := by
  induction m generalizing numLow with
  | zero => simp [loopLow] at h
  | succ m ih =>
    simp only [loopLow] at h
    split at h
    · cases h
    · rename_i hguard
      simp only [Bool.not_eq_true', decide_eq_false_iff_not, Decidable.not_not] at hguard
      split at h
      · rename_i ls hls
        injection h with h
        have hg := hrec _ _ _ _ _ _ hls
        rw [ofList_eq] at hls h hg
        simp only at hls h hg
        rw [foldl_push_eq] at h
        simp only at h
        subst h
        have hlsN : (ls.coins.length : Int) ≤ numLow := hg.len
        have hsub : SubMultiset (highs ++ ls.coins) coins :=
          ((SubMultiset.refl highs).append hg.sub).trans hsplit
        refine ⟨hsub, ?_, ⟨?_, ?_⟩, ?_, ?_⟩
        · simp only [List.length_append]
          have := hguard.2
          omega
        · simp
        · simp
        · simp only
          rw [← hg.inv.1]
          exact sat_shift _ _ _ _ hg.sat
        · intro hnn
          simp only [List.length_append]
          have hlnn : ∀ c ∈ lows, 0 ≤ c.valueAge :=
            fun c hc => hnn c (hsplit.subset c (List.mem_append_right _ hc))
          have hV := hg.avg hlnn
          rw [hg.inv.2] at hV
          have hA := sumVA_ge highs ma hhigh
          have hM := ceil_mul_ge (ma * ((highs.length + numLow : Nat) : Int) - sumVA highs) (numLow : Int)
            (by omega)
          rw [Int.natCast_add]
          rw [Int.natCast_add] at hM
          exact avg_combine ma _ (numLow : Int) (ls.coins.length : Int) (sumVA highs) (highs.length : Int)
            (sumVA ls.coins) (by omega) (by omega) hlsN hA hM hV
      · exact ih (numLow + 1) (by omega) h

theorem loopI_ok (rec : Rec) (hrec : RecOK rec) (mi mc ma t : Int) (possible coins : List Coin)
    (cutoff : Nat) (hperm : possible.Perm coins)
    (hhigh : ∀ c ∈ possible.drop cutoff, ma ≤ c.valueAge)
    (k i : Nat) (hci : cutoff ≤ i) (cs : CS)
    (h : loopI rec mi mc ma t possible cutoff k i = some cs) : Good mi mc ma t coins cs := by
  induction k generalizing i with
  | zero => simp [loopI] at h
  | succ k ih =>
    simp only [loopI] at h
    split at h
    · cases h
    · -- facts about the split into low and high coins
      have hhsub : ((possible.drop cutoff).take (i + 1 - cutoff)).Sublist (possible.drop cutoff) :=
        List.take_sublist _ _
      have hhigh' : ∀ c ∈ (possible.drop cutoff).take (i + 1 - cutoff), ma ≤ c.valueAge :=
        fun c hc => hhigh c (hhsub.subset hc)
      have hsplit : SubMultiset ((possible.drop cutoff).take (i + 1 - cutoff) ++ possible.take cutoff) coins := by
        refine SubMultiset.of_sublist_perm (hhsub.append (List.Sublist.refl _)) ?_
        refine List.perm_append_comm.trans ?_
        rw [List.take_append_drop]
        exact hperm
      split at h
      · rename_i hs hmn
        injection h with h
        unfold minNumber at hmn
        obtain ⟨kk, hfirst, hhs⟩ := (minIndex_some_iff _ _ _ _ _).1 hmn
        subst hhs
        simp only at h
        rw [ofList_eq] at h
        obtain ⟨hk1, hk2, hk3, hk4, _⟩ := hfirst
        -- the selected high coins
        have hsel : SubMultiset ((sortByValueDesc ((possible.drop cutoff).take (i + 1 - cutoff))).take kk)
            ((possible.drop cutoff).take (i + 1 - cutoff)) :=
          SubMultiset.of_sublist_perm (List.take_sublist _ _) (sortByValueDesc_perm _)
        have hlen : (((sortByValueDesc ((possible.drop cutoff).take (i + 1 - cutoff))).take kk).length : Int)
            ≤ mi := by
          rw [List.length_take]; omega
        have hb := extend_basic mi mc ma t coins (possible.take cutoff)
          ⟨_, sumV ((sortByValueDesc ((possible.drop cutoff).take (i + 1 - cutoff))).take kk),
            sumVA ((sortByValueDesc ((possible.drop cutoff).take (i + 1 - cutoff))).take kk)⟩
          ⟨rfl, rfl⟩ hlen hk4 ((hsel.append (SubMultiset.refl _)).trans hsplit)
        rw [h] at hb
        refine ⟨hb.2.2.2, hb.2.1, hb.1, hb.2.2.1, ?_⟩
        intro hnn
        have hselhigh : ∀ c ∈ (sortByValueDesc ((possible.drop cutoff).take (i + 1 - cutoff))).take kk,
            ma ≤ c.valueAge := fun c hc => hhigh' c (hsel.subset c hc)
        have hselnn : ∀ c ∈ (sortByValueDesc ((possible.drop cutoff).take (i + 1 - cutoff))).take kk,
            0 ≤ c.valueAge :=
          fun c hc => hnn c (hsplit.subset c (List.mem_append_left _ (hsel.subset c hc)))
        have hlnn : ∀ c ∈ possible.take cutoff, 0 ≤ c.valueAge :=
          fun c hc => hnn c (hsplit.subset c (List.mem_append_right _ hc))
        have h0 := sumVA_ge _ 0 hselnn
        have ha := extend_avg mi mc ma t (possible.take cutoff)
          ⟨_, sumV ((sortByValueDesc ((possible.drop cutoff).take (i + 1 - cutoff))).take kk),
            sumVA ((sortByValueDesc ((possible.drop cutoff).take (i + 1 - cutoff))).take kk)⟩
          hlnn (by simp only; omega) (sumVA_ge _ ma hselhigh)
        rw [h] at ha
        exact ha.2
      · split at h
        · rename_i r hr
          injection h with h
          subst h
          exact loopLow_ok rec hrec mi mc ma t cutoff i _ _ coins hci (List.length_take_le _ _) hhigh'
            hsplit _ 1 (Nat.le_refl _) _ hr
        · exact ih (i + 1) (by omega) h

theorem minPriorityBody_ok (rec : Rec) (hrec : RecOK rec) : RecOK (minPriorityBody rec) := by
  intro mi mc ma t coins cs h
  unfold minPriorityBody at h
  simp only at h
  split at h
  · cases h
  · rename_i cutoff hcut
    refine loopI_ok rec hrec mi mc ma t _ coins cutoff (sortByValueAgeAsc_perm coins) ?_ _ _
      (Nat.le_refl _) cs h
    obtain ⟨hlt, hp, _⟩ := List.findIdx?_eq_some_iff_getElem.1 hcut
    have hp' : ma ≤ (sortByValueAgeAsc coins)[cutoff].valueAge := by simpa using hp
    have hsorted := (sortByValueAgeAsc_sorted coins).sublist (List.drop_sublist cutoff _)
    rw [List.drop_eq_getElem_cons hlt, List.pairwise_cons] at hsorted
    intro c hc
    rw [List.drop_eq_getElem_cons hlt] at hc
    rcases List.mem_cons.1 hc with rfl | hc
    · exact hp'
    · have := hsorted.1 c hc; omega

theorem minPriority_ok (fuel : Nat) : RecOK (minPriority fuel) := by
  induction fuel with
  | zero => intro mi mc ma t coins cs h; simp [minPriority] at h
  | succ n ih => exact minPriorityBody_ok _ ih

end Bch.Proofs.CoinSet
