import Bch.Model.Gcs
/-
Helper lemmas for C13 / C14 (Golomb-coded sets): arithmetic of `fastReduction`, the bit stream,
Golomb-Rice round trip, the three query loops on a built filter.
-/
namespace Bch.Proofs.Gcs
open Bch Bch.Model.Gcs

/-! ### fastReduction -/

theorem fastReduction_spec (v hi lo : UInt64) (hhi : hi.toNat < 2^32) (hlo : lo.toNat < 2^32) :
    (fastReduction v hi lo).toNat = (v.toNat * (hi.toNat * 2^32 + lo.toNat)) / 2^64 := by
  have hv := v.toNat_lt
  unfold fastReduction
  simp only [UInt64.toNat_add, UInt64.toNat_mul, UInt64.toNat_shiftRight, UInt64.toNat_and]
  have hm : (0xffffffff : UInt64).toNat = 2^32 - 1 := by decide
  have h32 : (32 : UInt64).toNat % 64 = 32 := by decide
  simp only [hm, h32, Nat.and_two_pow_sub_one_eq_mod, Nat.shiftRight_eq_div_pow]
  generalize hvh : v.toNat / 2^32 = vh
  generalize hvl : v.toNat % 2^32 = vl
  have hvhb : vh < 2^32 := by omega
  have hvlb : vl < 2^32 := by omega
  have hveq : v.toNat = vh * 2^32 + vl := by omega
  rw [hveq]
  generalize hi.toNat = H at *
  generalize lo.toNat = L at *
  have b1 : vh * H < 2^64 := by
    calc vh * H ≤ (2^32-1) * (2^32-1) := Nat.mul_le_mul (by omega) (by omega)
      _ < 2^64 := by decide
  have b2 : vh * L < 2^64 := by
    calc vh * L ≤ (2^32-1) * (2^32-1) := Nat.mul_le_mul (by omega) (by omega)
      _ < 2^64 := by decide
  have b3 : H * vl < 2^64 := by
    calc H * vl ≤ (2^32-1) * (2^32-1) := Nat.mul_le_mul (by omega) (by omega)
      _ < 2^64 := by decide
  have b4 : vl * L < 2^64 := by
    calc vl * L ≤ (2^32-1) * (2^32-1) := Nat.mul_le_mul (by omega) (by omega)
      _ < 2^64 := by decide
  have b1' : vh * H ≤ (2^32-1) * (2^32-1) := Nat.mul_le_mul (by omega) (by omega)
  have hT : (vh * 2^32 + vl) * (H * 2^32 + L) < 2^64 * 2^64 :=
    Nat.mul_lt_mul'' (by omega) (by omega)
  have e : (vh * 2^32 + vl) * (H * 2^32 + L)
      = (vh * H) * 2^64 + (vh * L) * 2^32 + (H * vl) * 2^32 + vl * L := by
    grind
  rw [e] at hT ⊢
  generalize vh * H = A at *
  generalize vh * L = B at *
  generalize H * vl = C at *
  generalize vl * L = D at *
  clear e hveq hvh hvl hv
  have key : (A * 2^64 + B * 2^32 + C * 2^32 + D) / 2^64
      = A + B / 2^32 + C / 2^32 + (B % 2^32 + C % 2^32 + D / 2^32) / 2^32 := by omega
  rw [key]
  have hlt : A + B / 2^32 + C / 2^32 + (B % 2^32 + C % 2^32 + D / 2^32) / 2^32 < 2^64 := by
    omega
  rw [Nat.mod_eq_of_lt b1, Nat.mod_eq_of_lt b2, Nat.mod_eq_of_lt b3, Nat.mod_eq_of_lt b4]
  omega

theorem hashToRange_spec (sip : Bytes → UInt64) (modNP : UInt64) (d : Bytes) :
    (hashToRange sip modNP d).toNat = (sip d).toNat * modNP.toNat / 2^64 := by
  unfold hashToRange
  have hm : (0xffffffff : UInt64).toNat = 2^32 - 1 := by decide
  have h32 : (32 : UInt64).toNat % 64 = 32 := by decide
  have hn := modNP.toNat_lt
  rw [fastReduction_spec]
  · simp only [UInt64.toNat_shiftRight, UInt64.toNat_and, hm, h32,
      Nat.and_two_pow_sub_one_eq_mod, Nat.shiftRight_eq_div_pow]
    congr 2
    omega
  · simp only [UInt64.toNat_shiftRight, h32, Nat.shiftRight_eq_div_pow]; omega
  · simp only [UInt64.toNat_and, hm, Nat.and_two_pow_sub_one_eq_mod]; omega

theorem hashToRange_lt (sip : Bytes → UInt64) (modNP : UInt64) (d : Bytes) (h : modNP ≠ 0) :
    (hashToRange sip modNP d).toNat < modNP.toNat := by
  rw [hashToRange_spec]
  have hv := (sip d).toNat_lt
  have hpos : 0 < modNP.toNat := by
    rcases Nat.eq_zero_or_pos modNP.toNat with h0 | h0
    · exact absurd (UInt64.toNat_inj.mp (by simpa using h0)) h
    · exact h0
  apply Nat.div_lt_of_lt_mul
  exact Nat.mul_lt_mul_of_pos_right hv hpos

theorem hashToRange_zero (sip : Bytes → UInt64) (d : Bytes) : hashToRange sip 0 d = 0 := by
  apply UInt64.toNat_inj.mp
  rw [hashToRange_spec]; simp

/-! ### bit stream -/

theorem bitsOf_length (c x : Nat) : (bitsOf c x).length = c := by
  induction c with
  | zero => rfl
  | succ c ih => simp [bitsOf, ih]

theorem bitsOf_mod (c x : Nat) : bitsOf c (x % 2^c) = bitsOf c x := by
  suffices h : ∀ k, k ≤ c → bitsOf k (x % 2^c) = bitsOf k x from h c (Nat.le_refl _)
  intro k
  induction k with
  | zero => intro _; rfl
  | succ k ih =>
    intro hk
    simp only [bitsOf]
    rw [ih (by omega), Nat.testBit_mod_two_pow]
    simp [show k < c by omega]

theorem bool_toUInt64 (b : Bool) : (if b then (1 : UInt64) else 0) = UInt64.ofNat b.toNat := by
  cases b <;> rfl

theorem readBits_bitsOf (p x a : Nat) (rest : List Bool) :
    readBits p (bitsOf p x ++ rest) (UInt64.ofNat a)
      = some (UInt64.ofNat (a * 2^p + x % 2^p), rest) := by
  induction p generalizing a with
  | zero => simp [bitsOf, readBits, Nat.mod_one]
  | succ c ih =>
    simp only [bitsOf, List.cons_append, readBits]
    have : UInt64.ofNat a * 2 + (if x.testBit c then 1 else 0)
        = UInt64.ofNat (a * 2 + (x.testBit c).toNat) := by
      rw [bool_toUInt64, UInt64.ofNat_add, UInt64.ofNat_mul]; rfl
    rw [this, ih]
    congr 3
    rw [Nat.mod_pow_succ (b := 2), Nat.testBit, Nat.shiftRight_eq_div_pow]
    have h2 : (1 &&& x / 2^c != 0) = decide (x / 2^c % 2 = 1) := by
      rw [Nat.one_and_eq_mod_two]; 
      rcases Nat.mod_two_eq_zero_or_one (x / 2^c) with h | h <;> simp [h]
    rw [h2]
    rcases Nat.mod_two_eq_zero_or_one (x / 2^c) with h | h <;> simp [h, Nat.pow_succ] <;> grind

theorem readUnary_replicate (q a : Nat) (rest : List Bool) :
    readUnary (List.replicate q true ++ false :: rest) (UInt64.ofNat a)
      = some (UInt64.ofNat (a + q), rest) := by
  induction q generalizing a with
  | zero => simp [readUnary]
  | succ q ih =>
    simp only [List.replicate_succ, List.cons_append, readUnary]
    have : UInt64.ofNat a + 1 = UInt64.ofNat (a + 1) := by rw [UInt64.ofNat_add]; rfl
    rw [this, ih]; congr 3; omega

/-! ### Golomb-Rice delta round trip -/

theorem ofNat_p_toNat (p : Nat) (hp : p ≤ 32) : (UInt64.ofNat p).toNat % 64 = p := by
  rw [UInt64.toNat_ofNat']; omega

theorem rem_toNat (p : Nat) (hp : p ≤ 32) (δ : UInt64) :
    (δ &&& (((1 : UInt64) <<< UInt64.ofNat p) - 1)).toNat = δ.toNat % 2^p := by
  have hpow : 2^p ≤ 2^32 := Nat.pow_le_pow_right (by decide) hp
  have hpos : 0 < 2^p := Nat.pow_pos (by decide)
  have h1 : ((1 : UInt64) <<< UInt64.ofNat p).toNat = 2^p := by
    rw [UInt64.toNat_shiftLeft, ofNat_p_toNat p hp]
    show (1 <<< p) % 2^64 = 2^p
    rw [Nat.one_shiftLeft]; omega
  have h2 : (((1 : UInt64) <<< UInt64.ofNat p) - 1).toNat = 2^p - 1 := by
    rw [UInt64.toNat_sub, h1]
    show (2^64 - 1 + 2^p) % 2^64 = 2^p - 1
    omega
  rw [UInt64.toNat_and, h2, Nat.and_two_pow_sub_one_eq_mod]

theorem quot_toNat (p : Nat) (hp : p ≤ 32) (δ : UInt64) :
    ((δ - (δ &&& (((1 : UInt64) <<< UInt64.ofNat p) - 1))) >>> UInt64.ofNat p).toNat
      = δ.toNat / 2^p := by
  have hpos : 0 < 2^p := Nat.pow_pos (by decide)
  have hδ := δ.toNat_lt
  rw [UInt64.toNat_shiftRight, ofNat_p_toNat p hp, Nat.shiftRight_eq_div_pow,
    UInt64.toNat_sub, rem_toNat p hp]
  have hle : δ.toNat % 2^p ≤ δ.toNat := Nat.mod_le _ _
  have : (2^64 - δ.toNat % 2^p + δ.toNat) % 2^64 = δ.toNat - δ.toNat % 2^p := by omega
  rw [this]
  have hd := Nat.div_add_mod δ.toNat (2^p)
  have : δ.toNat - δ.toNat % 2^p = 2^p * (δ.toNat / 2^p) := by omega
  rw [this, Nat.mul_div_cancel_left _ hpos]

theorem encodeDelta_eq (p : Nat) (hp : p ≤ 32) (δ : UInt64) :
    encodeDelta p δ = List.replicate (δ.toNat / 2^p) true ++ false :: bitsOf p δ.toNat := by
  unfold encodeDelta
  simp only [rem_toNat p hp, quot_toNat p hp, bitsOf_mod]

/-- **golomb_roundtrip**: reading back one encoded delta. -/
theorem golomb_roundtrip (p : Nat) (hp : p ≤ 32) (δ : UInt64) (rest : List Bool) :
    readFull p (encodeDelta p δ ++ rest) = some (δ, rest) := by
  have hpos : 0 < 2^p := Nat.pow_pos (by decide)
  have hδ := δ.toNat_lt
  rw [encodeDelta_eq p hp]
  unfold readFull
  have h0 : (0 : UInt64) = UInt64.ofNat 0 := rfl
  rw [List.append_assoc, List.cons_append, h0, readUnary_replicate]
  simp only [readBits_bitsOf]
  congr 2
  apply UInt64.toNat_inj.mp
  rw [UInt64.toNat_add, UInt64.toNat_shiftLeft, ofNat_p_toNat p hp, Nat.shiftLeft_eq]
  simp only [UInt64.toNat_ofNat', Nat.zero_add, Nat.zero_mul]
  have hd := Nat.div_add_mod δ.toNat (2^p)
  have hq : δ.toNat / 2^p * 2^p ≤ δ.toNat := Nat.div_mul_le_self _ _
  have hr : δ.toNat % 2^p < 2^p := Nat.mod_lt _ hpos
  have hqq : δ.toNat / 2^p < 2^64 := by
    have := Nat.div_le_self δ.toNat (2^p); omega
  rw [Nat.mod_eq_of_lt hqq, Nat.mod_eq_of_lt (a := δ.toNat % 2^p) (by omega),
    Nat.mod_eq_of_lt (a := δ.toNat / 2^p * 2^p) (by omega)]
  have : δ.toNat / 2^p * 2^p = 2^p * (δ.toNat / 2^p) := Nat.mul_comm _ _
  omega

theorem encodeDelta_length_pos (p : Nat) (δ : UInt64) : 0 < (encodeDelta p δ).length := by
  unfold encodeDelta; simp only [List.length_append, List.length_cons]; omega

/-! ### packBits / unpackBits -/

def unpack8 (b : UInt8) : List Bool := (List.range 8).map fun i => b.toNat.testBit (7 - i)

theorem unpackBits_cons (b : UInt8) (bs : Bytes) :
    unpackBits (b :: bs) = unpack8 b ++ unpackBits bs := by
  simp [unpackBits, unpack8, List.flatMap_cons]

theorem unpack8_byteOfBits8 : ∀ b0 b1 b2 b3 b4 b5 b6 b7 : Bool,
    unpack8 (byteOfBits [b0, b1, b2, b3, b4, b5, b6, b7]) = [b0, b1, b2, b3, b4, b5, b6, b7] := by
  decide

theorem byteOfBits_pad (l : List Bool) (h : l.length ≤ 8) :
    byteOfBits l = byteOfBits (l ++ List.replicate (8 - l.length) false) := by
  unfold byteOfBits
  have e1 : (l ++ List.replicate 8 false).take 8 = l ++ List.replicate (8 - l.length) false := by
    rw [List.take_append, List.take_of_length_le h, List.take_replicate]
    congr 2; omega
  have e2 : ((l ++ List.replicate (8 - l.length) false) ++ List.replicate 8 false).take 8
      = l ++ List.replicate (8 - l.length) false :=
    List.take_left' (by simp only [List.length_append, List.length_replicate]; omega)
  rw [e1, e2]

theorem list8 (l : List Bool) (h : l.length = 8) :
    ∃ b0 b1 b2 b3 b4 b5 b6 b7, l = [b0, b1, b2, b3, b4, b5, b6, b7] := by
  match l, h with
  | [b0, b1, b2, b3, b4, b5, b6, b7], _ => exact ⟨_, _, _, _, _, _, _, _, rfl⟩

theorem unpack8_byteOfBits (l : List Bool) (h : l.length ≤ 8) :
    unpack8 (byteOfBits l) = l ++ List.replicate (8 - l.length) false := by
  rw [byteOfBits_pad l h]
  obtain ⟨b0, b1, b2, b3, b4, b5, b6, b7, e⟩ :=
    list8 (l ++ List.replicate (8 - l.length) false) (by simp; omega)
  rw [e, unpack8_byteOfBits8]

/-- `unpackBits ∘ packBits` appends the zero padding to the next byte boundary. -/
theorem unpack_pack (bs : List Bool) :
    ∃ k, k < 8 ∧ (bs.length + k) % 8 = 0 ∧
      unpackBits (packBits bs) = bs ++ List.replicate k false := by
  generalize hn : bs.length = n
  induction n using Nat.strongRecOn generalizing bs with
  | ind n ih =>
    cases bs with
    | nil => exact ⟨0, by decide, by simp at hn; simp [← hn], by simp [packBits, unpackBits]⟩
    | cons b bs' =>
      rw [packBits, unpackBits_cons, unpack8_byteOfBits _ (by simp; omega)]
      simp only [List.length_cons] at hn
      by_cases h7 : 7 ≤ bs'.length
      · obtain ⟨k, hk, hmod, e⟩ := ih (bs'.drop 7).length (by simp; omega) (bs'.drop 7) rfl
        refine ⟨k, hk, ?_, ?_⟩
        · simp only [List.length_drop] at hmod; omega
        · rw [e]
          have : (b :: List.take 7 bs').length = 8 := by simp; omega
          rw [this]
          simp only [Nat.sub_self, List.replicate_zero, List.append_nil, List.cons_append]
          rw [← List.append_assoc, List.take_append_drop]
      · have hd : bs'.drop 7 = [] := List.drop_eq_nil_of_le (by omega)
        have ht : bs'.take 7 = bs' := List.take_of_length_le (by omega)
        rw [hd, ht]
        refine ⟨8 - (b :: bs').length, by simp; omega, by simp; omega, ?_⟩
        simp [packBits, unpackBits]

end Bch.Proofs.Gcs
