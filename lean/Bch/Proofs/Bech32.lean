import Bch.Model.Bech32
/-
Helper lemmas for the bech32 half of property C07 (checksum algebra, codec round trip).
-/
namespace Bch.Proofs.Bech32
open Bch Bch.Model.Bech32

/-- decidable equality of `Decode` results, so that the concrete test `example`s can be closed by
`decide` (core has no `DecidableEq (Except ε α)` instance) -/
instance instDecEqDecodeResult : DecidableEq (Except Err (Bytes × Bytes))
  | .ok a, .ok b =>
    if h : a = b then isTrue (by rw [h]) else isFalse (fun h' => h (Except.ok.inj h'))
  | .error a, .error b =>
    if h : a = b then isTrue (by rw [h]) else isFalse (fun h' => h (Except.error.inj h'))
  | .ok _, .error _ => isFalse (fun h => by cases h)
  | .error _, .ok _ => isFalse (fun h => by cases h)

/-! ## the generator part of `polymodStep` -/

/-- contribution of generator `i` selected by bit `i` of `b` -/
def gsel (i b : Nat) : Nat := if (b >>> i) &&& 1 = 1 then gen.getD i 0 else 0

/-- the xor of the selected generators -/
def G (b : Nat) : Nat := gsel 0 b ^^^ gsel 1 b ^^^ gsel 2 b ^^^ gsel 3 b ^^^ gsel 4 b

theorem range5 : List.range 5 = [0, 1, 2, 3, 4] := by decide

theorem ite_xor (p : Prop) [Decidable p] (c g : Nat) :
    (if p then c ^^^ g else c) = c ^^^ (if p then g else 0) := by
  split <;> simp

theorem polymodStep_eq (chk v : Nat) :
    polymodStep chk v = ((chk &&& 0x1ffffff) <<< 5) ^^^ v ^^^ G (chk >>> 25) := by
  simp only [polymodStep, range5, List.foldl_cons, List.foldl_nil, ite_xor, G, gsel,
    Nat.xor_assoc]

theorem sel_iff (i b : Nat) : ((b >>> i) &&& 1 = 1) ↔ b.testBit i = true := by
  rw [Nat.and_one_is_mod, Nat.testBit_eq_decide_div_mod_eq, Nat.shiftRight_eq_div_pow]
  simp

theorem gsel_xor (i a b : Nat) : gsel i (a ^^^ b) = gsel i a ^^^ gsel i b := by
  simp only [gsel, sel_iff, Nat.testBit_xor]
  cases a.testBit i <;> cases b.testBit i <;> simp

theorem G_xor (a b : Nat) : G (a ^^^ b) = G a ^^^ G b := by
  simp only [G, gsel_xor]
  ac_rfl

theorem G_zero : G 0 = 0 := by simp [G, gsel]

theorem gsel_lt (i b : Nat) : gsel i b < 2 ^ 30 := by
  unfold gsel
  split
  · have : ∀ j, gen.getD j 0 < 2 ^ 30 := by
      intro j
      match j with
      | 0 | 1 | 2 | 3 | 4 => simp [gen]
      | _ + 5 => simp [gen]
    exact this i
  · exact Nat.two_pow_pos 30

theorem G_lt (b : Nat) : G b < 2 ^ 30 := by
  unfold G
  repeat first | apply Nat.xor_lt_two_pow | apply gsel_lt

/-- the linear part of the step -/
def L (chk : Nat) : Nat := polymodStep chk 0

theorem polymodStep_L (chk v : Nat) : polymodStep chk v = L chk ^^^ v := by
  simp only [L, polymodStep_eq, Nat.xor_zero]
  ac_rfl

/-- GF(2)-linearity of the step -/
theorem L_xor (a b : Nat) : L (a ^^^ b) = L a ^^^ L b := by
  simp only [L, polymodStep_eq, Nat.xor_zero, Nat.and_xor_distrib_right,
    Nat.shiftLeft_xor_distrib, Nat.shiftRight_xor_distrib, G_xor]
  ac_rfl

theorem polymodStep_xor (a b : Nat) :
    polymodStep (a ^^^ b) 0 = polymodStep a 0 ^^^ polymodStep b 0 := L_xor a b

theorem polymodStep_lt (chk v : Nat) (hv : v < 2 ^ 30) : polymodStep chk v < 2 ^ 30 := by
  rw [polymodStep_eq]
  refine Nat.xor_lt_two_pow (Nat.xor_lt_two_pow ?_ hv) (G_lt _)
  have : chk &&& 0x1ffffff = chk % 2 ^ 25 := Nat.and_two_pow_sub_one_eq_mod chk 25
  rw [this, Nat.shiftLeft_eq]
  have := Nat.mod_lt chk (Nat.two_pow_pos 25)
  omega

/-- shift-and-insert without reduction, for small states -/
theorem shl5_xor (x v : Nat) (hv : v < 32) : (x <<< 5) ^^^ v = x * 32 + v := by
  apply Nat.eq_of_testBit_eq
  intro i
  rw [Nat.mul_comm x 32, show (32 : Nat) = 2 ^ 5 from rfl, Nat.testBit_two_pow_mul_add x hv i,
    Nat.testBit_xor, Nat.testBit_shiftLeft]
  by_cases h : i < 5
  · simp [h, Nat.not_le.mpr h]
  · have h5 : 5 ≤ i := Nat.le_of_not_lt h
    have : v.testBit i = false :=
      Nat.testBit_lt_two_pow (Nat.lt_of_lt_of_le hv (Nat.pow_le_pow_right (by decide : 2 > 0) h5))
    simp [h, h5, this]

theorem polymodStep_small (x v : Nat) (hx : x < 2 ^ 25) (hv : v < 32) :
    polymodStep x v = x * 32 + v := by
  rw [polymodStep_eq]
  have h1 : x &&& 0x1ffffff = x := by
    rw [Nat.and_two_pow_sub_one_eq_mod x 25]; exact Nat.mod_eq_of_lt hx
  have h2 : x >>> 25 = 0 := by
    rw [Nat.shiftRight_eq_div_pow]; exact Nat.div_eq_of_lt hx
  rw [h1, h2, G_zero, Nat.xor_zero, shl5_xor x v hv]


/-! ## folds of the step -/

theorem fold_xor : ∀ (ws : List Nat) (s t : Nat),
    ws.foldl polymodStep (s ^^^ t) =
      (List.replicate ws.length 0).foldl polymodStep s ^^^ ws.foldl polymodStep t := by
  intro ws
  induction ws with
  | nil => intro s t; rfl
  | cons w ws ih =>
    intro s t
    simp only [List.foldl_cons, List.length_cons, List.replicate_succ]
    have : polymodStep (s ^^^ t) w = polymodStep s 0 ^^^ polymodStep t w := by
      simp only [polymodStep_L, L_xor, Nat.xor_zero]; ac_rfl
    rw [this, ih]

theorem fold_lt (ws : List Nat) (s : Nat) (hs : s < 2 ^ 30) (hws : ∀ w ∈ ws, w < 2 ^ 30) :
    ws.foldl polymodStep s < 2 ^ 30 := by
  induction ws generalizing s with
  | nil => exact hs
  | cons w ws ih =>
    simp only [List.foldl_cons]
    exact ih _ (polymodStep_lt _ _ (hws w (by simp))) (fun x hx => hws x (by simp [hx]))

/-- the 30-bit number with 5-bit digits `c0 … c5` -/
def pack6 (c0 c1 c2 c3 c4 c5 : Nat) : Nat :=
  ((((c0 * 32 + c1) * 32 + c2) * 32 + c3) * 32 + c4) * 32 + c5

theorem fold_zero_six (c0 c1 c2 c3 c4 c5 : Nat) (h0 : c0 < 32) (h1 : c1 < 32) (h2 : c2 < 32)
    (h3 : c3 < 32) (h4 : c4 < 32) (h5 : c5 < 32) :
    [c0, c1, c2, c3, c4, c5].foldl polymodStep 0 = pack6 c0 c1 c2 c3 c4 c5 := by
  simp only [List.foldl_cons, List.foldl_nil, pack6]
  rw [polymodStep_small 0 c0 (by omega) h0, polymodStep_small _ c1 (by omega) h1,
    polymodStep_small _ c2 (by omega) h2, polymodStep_small _ c3 (by omega) h3,
    polymodStep_small _ c4 (by omega) h4, polymodStep_small _ c5 (by omega) h5]
  omega

/-- the six 5-bit digits of `pm`, most significant first (as computed by `checksum`) -/
def digits6 (pm : Nat) : List Nat := (List.range 6).map fun i => (pm >>> (5 * (5 - i))) &&& 31

theorem digits6_eq (pm : Nat) : digits6 pm =
    [pm / 2 ^ 25 % 32, pm / 2 ^ 20 % 32, pm / 2 ^ 15 % 32, pm / 2 ^ 10 % 32, pm / 2 ^ 5 % 32,
      pm % 32] := by
  have h31 : ∀ x, x &&& 31 = x % 32 := fun x => Nat.and_two_pow_sub_one_eq_mod x 5
  simp [digits6, show List.range 6 = [0, 1, 2, 3, 4, 5] by decide, h31, Nat.shiftRight_eq_div_pow]

/-- remainder after six further symbols = shifted remainder xor the packed symbols -/
theorem fold_six (s c0 c1 c2 c3 c4 c5 : Nat) (h0 : c0 < 32) (h1 : c1 < 32) (h2 : c2 < 32)
    (h3 : c3 < 32) (h4 : c4 < 32) (h5 : c5 < 32) :
    [c0, c1, c2, c3, c4, c5].foldl polymodStep s =
      [0, 0, 0, 0, 0, 0].foldl polymodStep s ^^^ pack6 c0 c1 c2 c3 c4 c5 := by
  have := fold_xor [c0, c1, c2, c3, c4, c5] s 0
  rw [Nat.xor_zero, fold_zero_six c0 c1 c2 c3 c4 c5 h0 h1 h2 h3 h4 h5] at this
  exact this

theorem six_zero_lt (s : Nat) : [0, 0, 0, 0, 0, 0].foldl polymodStep s < 2 ^ 30 := by
  simp only [List.foldl_cons, List.foldl_nil]
  exact polymodStep_lt _ _ (by decide)

theorem xor_one_lt (x : Nat) (h : x < 2 ^ 30) : x ^^^ 1 < 2 ^ 30 :=
  Nat.xor_lt_two_pow h (by decide)

/-- **classic checksum argument**: appending the digits of `polymod (values ++ 0⁶) xor 1`
makes the remainder 1 -/
theorem polymod_append_checksum (values : List Nat) :
    polymod (values ++ digits6 (polymod (values ++ [0, 0, 0, 0, 0, 0]) ^^^ 1)) = 1 := by
  simp only [polymod, List.foldl_append]
  generalize values.foldl polymodStep 1 = s
  have hlt := xor_one_lt _ (six_zero_lt s)
  generalize hpm : [0, 0, 0, 0, 0, 0].foldl polymodStep s ^^^ 1 = pm at hlt
  rw [digits6_eq, fold_six s _ _ _ _ _ _ (Nat.mod_lt _ (by decide)) (Nat.mod_lt _ (by decide))
    (Nat.mod_lt _ (by decide)) (Nat.mod_lt _ (by decide)) (Nat.mod_lt _ (by decide))
    (Nat.mod_lt _ (by decide))]
  have hp : pack6 (pm / 2 ^ 25 % 32) (pm / 2 ^ 20 % 32) (pm / 2 ^ 15 % 32) (pm / 2 ^ 10 % 32)
      (pm / 2 ^ 5 % 32) (pm % 32) = pm := by
    unfold pack6; omega
  rw [hp, ← hpm, ← Nat.xor_assoc, Nat.xor_self, Nat.zero_xor]

/-- **uniqueness**: six 5-bit symbols that make the remainder 1 are the checksum digits -/
theorem polymod_append_unique (values cs : List Nat) (hlen : cs.length = 6)
    (h5 : ∀ c ∈ cs, c < 32) (h : polymod (values ++ cs) = 1) :
    cs = digits6 (polymod (values ++ [0, 0, 0, 0, 0, 0]) ^^^ 1) := by
  match cs, hlen with
  | [c0, c1, c2, c3, c4, c5], _ =>
    simp only [polymod, List.foldl_append] at h ⊢
    generalize values.foldl polymodStep 1 = s at h ⊢
    have h0 : c0 < 32 := h5 c0 (by simp)
    have h1 : c1 < 32 := h5 c1 (by simp)
    have h2 : c2 < 32 := h5 c2 (by simp)
    have h3 : c3 < 32 := h5 c3 (by simp)
    have h4 : c4 < 32 := h5 c4 (by simp)
    have h5' : c5 < 32 := h5 c5 (by simp)
    rw [fold_six s _ _ _ _ _ _ h0 h1 h2 h3 h4 h5'] at h
    have hpm : [0, 0, 0, 0, 0, 0].foldl polymodStep s ^^^ 1 = pack6 c0 c1 c2 c3 c4 c5 := by
      rw [← h, ← Nat.xor_assoc, Nat.xor_self, Nat.zero_xor]
    rw [hpm, digits6_eq]
    unfold pack6
    simp only [List.cons.injEq, and_true]
    omega


/-! ## checksum at the byte level -/

theorem checksum_toNat (hrp data : Bytes) :
    (checksum hrp data).map (·.toNat) =
      digits6 (polymod (hrpExpand hrp ++ data.map (·.toNat) ++ [0, 0, 0, 0, 0, 0]) ^^^ 1) := by
  simp only [checksum, digits6, List.map_map]
  apply List.map_congr_left
  intro i _
  simp only [Function.comp, UInt8.toNat_ofNat']
  apply Nat.mod_eq_of_lt
  have : ∀ x, x &&& 31 = x % 32 := fun x => Nat.and_two_pow_sub_one_eq_mod x 5
  rw [this]
  have := Nat.mod_lt ((polymod (hrpExpand hrp ++ data.map (·.toNat) ++ [0, 0, 0, 0, 0, 0]) ^^^ 1)
    >>> (5 * (5 - i))) (show 32 > 0 by decide)
  omega

theorem checksum_length (hrp data : Bytes) : (checksum hrp data).length = 6 := by
  simp [checksum]

theorem checksum_lt (hrp data : Bytes) : ∀ c ∈ checksum hrp data, c.toNat < 32 := by
  intro c hc
  have h : c.toNat ∈ (checksum hrp data).map (·.toNat) := List.mem_map.mpr ⟨c, hc, rfl⟩
  rw [checksum_toNat, digits6_eq] at h
  simp only [List.mem_cons, List.not_mem_nil, or_false] at h
  omega

theorem verify_create (hrp data : Bytes) :
    verifyChecksum hrp (data ++ checksum hrp data) = true := by
  simp only [verifyChecksum, List.map_append, checksum_toNat, ← List.append_assoc,
    polymod_append_checksum, decide_true]

theorem map_toNat_inj : ∀ (a b : Bytes), a.map (·.toNat) = b.map (·.toNat) → a = b := by
  intro a
  induction a with
  | nil => intro b h; cases b <;> simp_all
  | cons x a ih =>
    intro b h
    cases b with
    | nil => simp at h
    | cons y b =>
      simp only [List.map_cons, List.cons.injEq] at h
      rw [UInt8.toNat_inj.mp h.1, ih b h.2]

/-- a six-symbol 5-bit suffix that verifies is the checksum of the rest -/
theorem verify_unique (hrp data cs : Bytes) (hlen : cs.length = 6)
    (h5 : ∀ c ∈ cs, c.toNat < 32) (h : verifyChecksum hrp (data ++ cs) = true) :
    cs = checksum hrp data := by
  apply map_toNat_inj
  rw [checksum_toNat]
  simp only [verifyChecksum, List.map_append, ← List.append_assoc, decide_eq_true_eq] at h
  apply polymod_append_unique _ _ (by simpa using hlen) _ h
  intro c hc
  obtain ⟨x, hx, rfl⟩ := List.mem_map.mp hc
  exact h5 x hx

/-! ## byte facts by enumeration of the 256 values -/

theorem UInt8.forall_fin (P : UInt8 → Prop) (h : ∀ f : Fin 256, P ⟨⟨f⟩⟩) : ∀ c, P c :=
  fun c => h c.toBitVec.toFin

def isUpper (c : UInt8) : Prop := 65 ≤ c ∧ c ≤ 90
def isLower (c : UInt8) : Prop := 97 ≤ c ∧ c ≤ 122
def inRange (c : UInt8) : Prop := 33 ≤ c ∧ c ≤ 126
instance : DecidablePred isUpper := fun c => by unfold isUpper; infer_instance
instance : DecidablePred isLower := fun c => by unfold isLower; infer_instance
instance : DecidablePred inRange := fun c => by unfold inRange; infer_instance

theorem toLower_of_not_upper (c : UInt8) (h : ¬isUpper c) : toLower c = c := if_neg h
theorem toUpper_of_not_lower (c : UInt8) (h : ¬isLower c) : toUpper c = c := if_neg h

theorem toLower_ne_of_upper : ∀ c : UInt8, isUpper c → toLower c ≠ c := by
  apply UInt8.forall_fin; decide +kernel
theorem toUpper_ne_of_lower : ∀ c : UInt8, isLower c → toUpper c ≠ c := by
  apply UInt8.forall_fin; decide +kernel
theorem toLower_toUpper : ∀ c : UInt8, ¬isUpper c → toLower (toUpper c) = c := by
  apply UInt8.forall_fin; decide +kernel
theorem toUpper_toUpper : ∀ c : UInt8, toUpper (toUpper c) = toUpper c := by
  apply UInt8.forall_fin; decide +kernel
theorem toLower_toLower : ∀ c : UInt8, toLower (toLower c) = toLower c := by
  apply UInt8.forall_fin; decide +kernel
theorem toLower_not_upper : ∀ c : UInt8, ¬isUpper (toLower c) := by
  apply UInt8.forall_fin; decide +kernel
theorem inRange_toUpper : ∀ c : UInt8, inRange c → inRange (toUpper c) := by
  apply UInt8.forall_fin; decide +kernel
theorem inRange_toLower : ∀ c : UInt8, inRange c → inRange (toLower c) := by
  apply UInt8.forall_fin; decide +kernel
theorem toLower_eq_49 : ∀ c : UInt8, toLower c = 49 ↔ c = 49 := by
  apply UInt8.forall_fin; decide +kernel
theorem inRange_iff : ∀ c : UInt8, inRange c ↔ ¬(c < 33 ∨ c > 126) := by
  apply UInt8.forall_fin; decide +kernel

/-! ## the charset -/

def charsetL : Bytes := [113, 112, 122, 114, 121, 57, 120, 56, 103, 102, 50, 116, 118, 100, 119,
  48, 115, 51, 106, 110, 53, 52, 107, 104, 99, 101, 54, 109, 117, 97, 55, 108]

theorem charset_eq : charset = charsetL := by decide +kernel

theorem charset_length : charset.length = 32 := by rw [charset_eq]; rfl

/-- no charset symbol is the separator, all are printable and none is upper-case -/
theorem charset_props : ∀ c ∈ charset, c ≠ 49 ∧ inRange c ∧ ¬isUpper c := by
  rw [charset_eq]; decide +kernel

/-- the charset has no repeated symbol -/
theorem charset_idxOf_getD : ∀ i, i < 32 → charset.idxOf (charset.getD i 0) = i := by
  rw [charset_eq]; decide +kernel

/-- the character of a 5-bit symbol -/
def charAt (b : UInt8) : UInt8 := charset.getD b.toNat 0

theorem charAt_mem (b : UInt8) (h : b.toNat < 32) : charAt b ∈ charset := by
  unfold charAt
  rw [List.getD_eq_getElem?_getD, List.getElem?_eq_getElem (by rw [charset_length]; exact h)]
  exact List.getElem_mem _

theorem toChars_eq : ∀ l : Bytes, (∀ b ∈ l, b.toNat < 32) → toChars l = some (l.map charAt) := by
  intro l
  induction l with
  | nil => intro _; rfl
  | cons b l ih =>
    intro h
    have hb : ¬ b.toNat ≥ 32 := Nat.not_le.mpr (h b (by simp))
    simp only [toChars, hb, if_false, ih (fun x hx => h x (by simp [hx])), Option.map_some,
      List.map_cons, charAt]

theorem toChars_none : ∀ l : Bytes, (∃ b ∈ l, 32 ≤ b.toNat) → toChars l = none := by
  intro l
  induction l with
  | nil => intro h; simp at h
  | cons b l ih =>
    intro h
    unfold toChars
    by_cases hb : b.toNat ≥ 32
    · simp [hb]
    · have : ∃ x ∈ l, 32 ≤ x.toNat := by
        obtain ⟨x, hx, hx32⟩ := h
        rcases List.mem_cons.mp hx with rfl | hx
        · exact absurd hx32 hb
        · exact ⟨x, hx, hx32⟩
      simp [hb, ih this]

theorem toBytes_map_charAt : ∀ l : Bytes, (∀ b ∈ l, b.toNat < 32) →
    toBytes (l.map charAt) = some l := by
  intro l
  induction l with
  | nil => intro _; rfl
  | cons b l ih =>
    intro h
    have hb : b.toNat < 32 := h b (by simp)
    have hi : charset.idxOf (charAt b) = b.toNat := charset_idxOf_getD _ hb
    simp only [List.map_cons, toBytes, hi, hb, if_true, ih (fun x hx => h x (by simp [hx])),
      Option.map_some, UInt8.ofNat_toNat]

theorem toBytes_some : ∀ (cs d : Bytes), toBytes cs = some d →
    d.length = cs.length ∧ (∀ b ∈ d, b.toNat < 32) ∧ d.map charAt = cs := by
  intro cs
  induction cs with
  | nil => intro d h; simp [toBytes] at h; subst h; simp
  | cons c cs ih =>
    intro d h
    simp only [toBytes] at h
    by_cases hi : charset.idxOf c < 32
    · simp only [hi, if_true] at h
      cases hr : toBytes cs with
      | none => simp [hr] at h
      | some d' =>
        simp only [hr, Option.map_some, Option.some.injEq] at h
        subst h
        obtain ⟨h1, h2, h3⟩ := ih d' hr
        have hn : (UInt8.ofNat (charset.idxOf c)).toNat = charset.idxOf c := by
          rw [UInt8.toNat_ofNat']; omega
        refine ⟨by simp [h1], ?_, ?_⟩
        · intro b hb
          rcases List.mem_cons.mp hb with rfl | hb
          · rw [hn]; exact hi
          · exact h2 b hb
        · simp only [List.map_cons, h3, List.cons.injEq, and_true]
          have hl : charset.idxOf c < charset.length := by rw [charset_length]; exact hi
          unfold charAt
          rw [hn, List.getD_eq_getElem?_getD, List.getElem?_eq_getElem hl]
          exact List.getElem_idxOf hl
    · simp [hi] at h

theorem toBytes_none : ∀ cs : Bytes, (∃ c ∈ cs, c ∉ charset) → toBytes cs = none := by
  intro cs
  induction cs with
  | nil => intro h; simp at h
  | cons c cs ih =>
    intro h
    simp only [toBytes]
    by_cases hi : charset.idxOf c < 32
    · have hc : c ∈ charset := by
        rw [← charset_length] at hi; exact List.idxOf_lt_length_iff.mp hi
      have : ∃ x ∈ cs, x ∉ charset := by
        obtain ⟨x, hx, hxn⟩ := h
        rcases List.mem_cons.mp hx with rfl | hx
        · exact absurd hc hxn
        · exact ⟨x, hx, hxn⟩
      simp [hi, ih this]
    · simp [hi]

/-! ## `lastIndexOf` -/

theorem lastIndexOf_append (c : UInt8) (pre post : Bytes) (h : c ∉ post) :
    lastIndexOf c (pre ++ c :: post) = some pre.length := by
  unfold lastIndexOf
  have hr : (pre ++ c :: post).reverse = post.reverse ++ c :: pre.reverse := by simp
  have hi : (post.reverse ++ c :: pre.reverse).idxOf c = post.length := by
    rw [List.idxOf_append, if_neg (by simpa using h), List.idxOf_cons_self]; simp
  simp only [hr, hi, List.length_append, List.length_cons]
  rw [if_pos (by omega)]
  congr 1; omega

theorem lastIndexOf_none (c : UInt8) (s : Bytes) (h : c ∉ s) : lastIndexOf c s = none := by
  unfold lastIndexOf
  have : ¬ s.reverse.idxOf c < s.reverse.length := by
    rw [List.idxOf_lt_length_iff]; simpa using h
  rw [List.length_reverse] at this
  simp [this]

/-- `lastIndexOf` finds the last occurrence -/
theorem lastIndexOf_spec (c : UInt8) (s : Bytes) :
    (c ∉ s ∧ lastIndexOf c s = none) ∨
    ∃ pre post, s = pre ++ c :: post ∧ c ∉ post ∧ lastIndexOf c s = some pre.length := by
  by_cases h : c ∈ s
  · right
    obtain ⟨a, b, hab, hna⟩ := List.eq_append_cons_of_mem (List.mem_reverse.mpr h)
    have hs : s = b.reverse ++ c :: a.reverse := by
      have := congrArg List.reverse hab
      simpa using this
    refine ⟨b.reverse, a.reverse, hs, by simpa using hna, ?_⟩
    rw [hs]; exact lastIndexOf_append c _ _ (by simpa using hna)
  · left; exact ⟨h, lastIndexOf_none c s h⟩

/-! ## `Decode` restructured -/

/-- the part of `Decode` after the case check, on the lower-cased string -/
def decodeLower (lower : Bytes) : Except Err (Bytes × Bytes) :=
  match lastIndexOf 49 lower with
  | none => .error .sep
  | some one =>
    if one < 1 ∨ one + 7 > lower.length then .error .sep
    else
      match toBytes (lower.drop (one + 1)) with
      | none => .error .charset
      | some decoded =>
        if !verifyChecksum (lower.take one) decoded then .error .checksum
        else .ok (lower.take one, decoded.take (decoded.length - 6))

theorem Decode_eq (bech : Bytes) : Decode bech =
    if bech.length < 8 ∨ bech.length > 90 then .error .length
    else if bech.any (fun c => c < 33 ∨ c > 126) then .error .char
    else if bech ≠ bech.map toLower ∧ bech ≠ bech.map toUpper then .error .mixedCase
    else decodeLower (bech.map toLower) := rfl

/-- `decodeLower` on a string split at its last separator -/
theorem decodeLower_split (pre post : Bytes) (h : (49 : UInt8) ∉ post) :
    decodeLower (pre ++ 49 :: post) =
      if pre.length < 1 ∨ post.length < 6 then .error .sep
      else match toBytes post with
        | none => .error .charset
        | some decoded =>
          if !verifyChecksum pre decoded then .error .checksum
          else .ok (pre, decoded.take (decoded.length - 6)) := by
  unfold decodeLower
  rw [lastIndexOf_append 49 pre post h]
  have h1 : (pre ++ 49 :: post).take pre.length = pre := List.take_left' rfl
  have h2 : (pre ++ 49 :: post).drop (pre.length + 1) = post := by
    rw [show pre ++ 49 :: post = (pre ++ [49]) ++ post by simp]
    exact List.drop_left' (by simp)
  have h3 : (pre.length < 1 ∨ pre.length + 7 > (pre ++ 49 :: post).length) ↔
      (pre.length < 1 ∨ post.length < 6) := by
    simp only [List.length_append, List.length_cons]; omega
  simp only [h1, h2, h3]

theorem decodeLower_nosep (s : Bytes) (h : (49 : UInt8) ∉ s) : decodeLower s = .error .sep := by
  unfold decodeLower
  rw [lastIndexOf_none 49 s h]


theorem not_lower_toUpper : ∀ c : UInt8, ¬isLower (toUpper c) := by
  apply UInt8.forall_fin; decide +kernel

theorem map_toLower_id (s : Bytes) (h : ∀ c ∈ s, ¬isUpper c) : s.map toLower = s :=
  (List.map_congr_left (fun c hc => toLower_of_not_upper c (h c hc))).trans (List.map_id s)

theorem map_toUpper_id (s : Bytes) (h : ∀ c ∈ s, ¬isLower c) : s.map toUpper = s :=
  (List.map_congr_left (fun c hc => toUpper_of_not_lower c (h c hc))).trans (List.map_id s)

/-- after the length and character checks, a string that is not mixed-case is decoded via its
lower-cased form -/
theorem Decode_of_wellformed (s : Bytes) (hlen : 8 ≤ s.length ∧ s.length ≤ 90)
    (hrange : ∀ c ∈ s, inRange c)
    (hcase : (∀ c ∈ s, ¬isUpper c) ∨ (∀ c ∈ s, ¬isLower c)) :
    Decode s = decodeLower (s.map toLower) := by
  rw [Decode_eq, if_neg (by omega)]
  have hany : s.any (fun c => c < 33 ∨ c > 126) = false := by
    rw [List.any_eq_false]
    intro c hc
    have := (inRange_iff c).mp (hrange c hc)
    simpa using this
  rw [hany]
  have hmix : ¬(s ≠ s.map toLower ∧ s ≠ s.map toUpper) := by
    rintro ⟨h1, h2⟩
    rcases hcase with h | h
    · exact h1 (map_toLower_id s h).symm
    · exact h2 (map_toUpper_id s h).symm
  simp only [hmix, if_false, Bool.false_eq_true]


/-! ## round trip -/

theorem Encode_eq (hrp data : Bytes) (hd : ∀ d ∈ data, d.toNat < 32) :
    Encode hrp data = some (hrp ++ 49 :: (data ++ checksum hrp data).map charAt) := by
  have h : ∀ b ∈ data ++ checksum hrp data, b.toNat < 32 := by
    intro b hb
    rcases List.mem_append.mp hb with hb | hb
    · exact hd b hb
    · exact checksum_lt hrp data b hb
  simp [Encode, toChars_eq _ h]

theorem Encode_none (hrp data : Bytes) (hd : ∃ d ∈ data, 32 ≤ d.toNat) :
    Encode hrp data = none := by
  obtain ⟨d, hd, h32⟩ := hd
  simp [Encode, toChars_none _ ⟨d, List.mem_append_left _ hd, h32⟩]

theorem sep_not_mem_map_charAt (l : Bytes) (h : ∀ b ∈ l, b.toNat < 32) :
    (49 : UInt8) ∉ l.map charAt := by
  intro hm
  obtain ⟨b, hb, hb49⟩ := List.mem_map.mp hm
  exact (charset_props _ (charAt_mem b (h b hb))).1 hb49

/-- `decodeLower` inverts `Encode` -/
theorem decodeLower_encode (hrp data : Bytes) (hne : 1 ≤ hrp.length)
    (hd : ∀ d ∈ data, d.toNat < 32) :
    decodeLower (hrp ++ 49 :: (data ++ checksum hrp data).map charAt) = .ok (hrp, data) := by
  have h : ∀ b ∈ data ++ checksum hrp data, b.toNat < 32 := by
    intro b hb
    rcases List.mem_append.mp hb with hb | hb
    · exact hd b hb
    · exact checksum_lt hrp data b hb
  rw [decodeLower_split _ _ (sep_not_mem_map_charAt _ h), toBytes_map_charAt _ h]
  have hl : ¬(hrp.length < 1 ∨ ((data ++ checksum hrp data).map charAt).length < 6) := by
    simp only [List.length_map, List.length_append, checksum_length]; omega
  rw [if_neg hl]
  simp only [verify_create, Bool.not_true, Bool.false_eq_true, if_false, List.length_append,
    checksum_length, Nat.add_sub_cancel, List.take_left']

theorem roundtrip (hrp data : Bytes) (hne : 1 ≤ hrp.length)
    (hhrp : ∀ c ∈ hrp, inRange c ∧ ¬isUpper c)
    (hd : ∀ d ∈ data, d.toNat < 32)
    (hlen : hrp.length + 1 + data.length + 6 ≤ 90) :
    ∃ s, Encode hrp data = some s ∧ Decode s = .ok (hrp, data) ∧
      Decode (s.map toUpper) = .ok (hrp, data) := by
  refine ⟨_, Encode_eq hrp data hd, ?_⟩
  generalize hs : hrp ++ 49 :: (data ++ checksum hrp data).map charAt = s
  have hdec : decodeLower s = .ok (hrp, data) := hs ▸ decodeLower_encode hrp data hne hd
  have h5 : ∀ b ∈ data ++ checksum hrp data, b.toNat < 32 := by
    intro b hb
    rcases List.mem_append.mp hb with hb | hb
    · exact hd b hb
    · exact checksum_lt hrp data b hb
  have hprop : ∀ c ∈ s, inRange c ∧ ¬isUpper c := by
    intro c hc
    rw [← hs] at hc
    rcases List.mem_append.mp hc with hc | hc
    · exact hhrp c hc
    · rcases List.mem_cons.mp hc with rfl | hc
      · exact ⟨by decide, by decide⟩
      · obtain ⟨b, hb, rfl⟩ := List.mem_map.mp hc
        exact (charset_props _ (charAt_mem b (h5 b hb))).2
  have hslen : s.length = hrp.length + 1 + data.length + 6 := by
    rw [← hs]; simp [checksum_length]; omega
  constructor
  · rw [Decode_of_wellformed s (by omega) (fun c hc => (hprop c hc).1)
      (Or.inl fun c hc => (hprop c hc).2), map_toLower_id s (fun c hc => (hprop c hc).2)]
    exact hdec
  · have hlow : (s.map toUpper).map toLower = s := by
      rw [List.map_map]
      exact (List.map_congr_left (fun c hc => toLower_toUpper c (hprop c hc).2)).trans
        (List.map_id s)
    rw [Decode_of_wellformed (s.map toUpper) (by simp; omega)
      (fun c hc => by
        obtain ⟨x, hx, rfl⟩ := List.mem_map.mp hc
        exact inRange_toUpper x (hprop x hx).1)
      (Or.inr fun c hc => by
        obtain ⟨x, _, rfl⟩ := List.mem_map.mp hc
        exact not_lower_toUpper x), hlow]
    exact hdec

/-! ## canonical re-encoding -/

theorem decodeLower_ok (l hrp data : Bytes) (h : decodeLower l = .ok (hrp, data)) :
    Encode hrp data = some l := by
  rcases lastIndexOf_spec 49 l with ⟨hn, _⟩ | ⟨pre, post, rfl, hpost, _⟩
  · rw [decodeLower_nosep l hn] at h; cases h
  · rw [decodeLower_split pre post hpost] at h
    by_cases hc : pre.length < 1 ∨ post.length < 6
    · rw [if_pos hc] at h; cases h
    · rw [if_neg hc] at h
      cases hb : toBytes post with
      | none => rw [hb] at h; cases h
      | some decoded =>
        rw [hb] at h
        simp only at h
        by_cases hv : verifyChecksum pre decoded = true
        · simp only [hv, Bool.not_true, Bool.false_eq_true, if_false, Except.ok.injEq,
            Prod.mk.injEq] at h
          obtain ⟨rfl, rfl⟩ := h
          obtain ⟨hl, h5, hm⟩ := toBytes_some post decoded hb
          have hsplit : decoded = decoded.take (decoded.length - 6) ++
              decoded.drop (decoded.length - 6) := (List.take_append_drop _ _).symm
          have hcs : decoded.drop (decoded.length - 6) =
              checksum pre (decoded.take (decoded.length - 6)) := by
            apply verify_unique
            · simp only [List.length_drop]; omega
            · exact fun c hc => h5 c (List.mem_of_mem_drop hc)
            · rw [← hsplit]; exact hv
          have h5' : ∀ b ∈ decoded.take (decoded.length - 6) ++
              checksum pre (decoded.take (decoded.length - 6)), b.toNat < 32 := by
            rw [← hcs, ← hsplit]; exact h5
          simp only [Encode, toChars_eq _ h5', Option.map_some]
          rw [← hcs, ← hsplit, hm]
          simp
        · simp [hv] at h

theorem canonical (s hrp data : Bytes) (h : Decode s = .ok (hrp, data)) :
    Encode hrp data = some (s.map toLower) := by
  rw [Decode_eq] at h
  split at h
  · cases h
  · split at h
    · cases h
    · split at h
      · cases h
      · exact decodeLower_ok _ _ _ h


/-- exact acceptance condition of `Decode` -/
theorem decode_iff (s hrp data : Bytes) :
    Decode s = .ok (hrp, data) ↔
      (8 ≤ s.length ∧ s.length ≤ 90) ∧ (∀ c ∈ s, inRange c) ∧
      ((∀ c ∈ s, ¬isUpper c) ∨ (∀ c ∈ s, ¬isLower c)) ∧ 1 ≤ hrp.length ∧
      Encode hrp data = some (s.map toLower) := by
  constructor
  · intro h
    have hc := canonical s hrp data h
    rw [Decode_eq] at h
    by_cases h1 : s.length < 8 ∨ s.length > 90
    · rw [if_pos h1] at h; cases h
    rw [if_neg h1] at h
    by_cases h2 : s.any (fun c => c < 33 ∨ c > 126) = true
    · rw [if_pos h2] at h; cases h
    rw [if_neg h2] at h
    by_cases h3 : s ≠ s.map toLower ∧ s ≠ s.map toUpper
    · rw [if_pos h3] at h; cases h
    rw [if_neg h3] at h
    refine ⟨by omega, ?_, ?_, ?_, hc⟩
    · intro c hc
      rw [Bool.not_eq_true, List.any_eq_false] at h2
      exact (inRange_iff c).mpr (by simpa using h2 c hc)
    · by_cases hl : s = s.map toLower
      · left; intro c hc
        rw [hl] at hc
        obtain ⟨x, _, rfl⟩ := List.mem_map.mp hc
        exact toLower_not_upper x
      · have hu : s = s.map toUpper := Classical.byContradiction fun hu => h3 ⟨hl, hu⟩
        right; intro c hc
        rw [hu] at hc
        obtain ⟨x, _, rfl⟩ := List.mem_map.mp hc
        exact not_lower_toUpper x
    · -- the hrp is non-empty
      rcases lastIndexOf_spec 49 (s.map toLower) with ⟨hn, _⟩ | ⟨pre, post, he, hpost, _⟩
      · rw [decodeLower_nosep _ hn] at h; cases h
      · rw [he, decodeLower_split pre post hpost] at h
        by_cases hcnd : pre.length < 1 ∨ post.length < 6
        · rw [if_pos hcnd] at h; cases h
        · rw [if_neg hcnd] at h
          cases hb : toBytes post with
          | none => rw [hb] at h; cases h
          | some decoded =>
            rw [hb] at h
            simp only at h
            split at h
            · cases h
            · simp only [Except.ok.injEq, Prod.mk.injEq] at h
              rw [← h.1]; omega
  · rintro ⟨hlen, hrange, hcase, hne, henc⟩
    rw [Decode_of_wellformed s hlen hrange hcase]
    have hd : ∀ d ∈ data, d.toNat < 32 := by
      intro d hd
      apply Classical.byContradiction
      intro hlt
      rw [Encode_none hrp data ⟨d, hd, by omega⟩] at henc
      cases henc
    rw [Encode_eq hrp data hd, Option.some.injEq] at henc
    rw [← henc]
    exact decodeLower_encode hrp data hne hd

/-! ## rejections, in the order of the checks -/

theorem rejects_length (s : Bytes) (h : s.length < 8 ∨ s.length > 90) :
    Decode s = .error .length := by
  rw [Decode_eq, if_pos h]

theorem rejects_char (s : Bytes) (hlen : 8 ≤ s.length ∧ s.length ≤ 90)
    (h : ∃ c ∈ s, c < 33 ∨ c > 126) : Decode s = .error .char := by
  rw [Decode_eq, if_neg (by omega)]
  have : s.any (fun c => c < 33 ∨ c > 126) = true := by
    rw [List.any_eq_true]
    obtain ⟨c, hc, h⟩ := h
    exact ⟨c, hc, by simpa using h⟩
  rw [if_pos this]

theorem map_eq_self {f : UInt8 → UInt8} : ∀ s : Bytes, s = s.map f → ∀ c ∈ s, f c = c := by
  intro s
  induction s with
  | nil => intro _ c hc; cases hc
  | cons x s ih =>
    intro h c hc
    simp only [List.map_cons, List.cons.injEq] at h
    rcases List.mem_cons.mp hc with rfl | hc
    · exact h.1.symm
    · exact ih h.2 c hc

theorem rejects_mixed (s : Bytes) (hlen : 8 ≤ s.length ∧ s.length ≤ 90)
    (hrange : ∀ c ∈ s, inRange c) (hu : ∃ c ∈ s, isUpper c) (hl : ∃ c ∈ s, isLower c) :
    Decode s = .error .mixedCase := by
  rw [Decode_eq, if_neg (by omega)]
  have hany : s.any (fun c => c < 33 ∨ c > 126) = false := by
    rw [List.any_eq_false]
    intro c hc
    have := (inRange_iff c).mp (hrange c hc)
    simpa using this
  rw [hany]
  have hmix : s ≠ s.map toLower ∧ s ≠ s.map toUpper := by
    obtain ⟨c, hc, hcu⟩ := hu
    obtain ⟨d, hd, hdl⟩ := hl
    exact ⟨fun h => toLower_ne_of_upper c hcu (map_eq_self s h c hc),
      fun h => toUpper_ne_of_lower d hdl (map_eq_self s h d hd)⟩
  simp only [Bool.false_eq_true, if_false, if_pos hmix]

/-- `Decode` of a well-formed-so-far string split at its last `'1'` -/
theorem Decode_split (pre post : Bytes)
    (hlen : 8 ≤ (pre ++ 49 :: post).length ∧ (pre ++ 49 :: post).length ≤ 90)
    (hrange : ∀ c ∈ pre ++ 49 :: post, inRange c)
    (hcase : (∀ c ∈ pre ++ 49 :: post, ¬isUpper c) ∨ (∀ c ∈ pre ++ 49 :: post, ¬isLower c))
    (hpost : (49 : UInt8) ∉ post) :
    Decode (pre ++ 49 :: post) =
      if pre.length < 1 ∨ post.length < 6 then .error .sep
      else match toBytes (post.map toLower) with
        | none => .error .charset
        | some decoded =>
          if !verifyChecksum (pre.map toLower) decoded then .error .checksum
          else .ok (pre.map toLower, decoded.take (decoded.length - 6)) := by
  rw [Decode_of_wellformed _ hlen hrange hcase]
  have h49 : toLower 49 = 49 := by decide
  have hp : (49 : UInt8) ∉ post.map toLower := by
    intro hm
    obtain ⟨x, hx, hx49⟩ := List.mem_map.mp hm
    exact hpost ((toLower_eq_49 x).mp hx49 ▸ hx)
  rw [List.map_append, List.map_cons, h49, decodeLower_split _ _ hp]
  simp only [List.length_map]

theorem rejects_sep_missing (s : Bytes) (hlen : 8 ≤ s.length ∧ s.length ≤ 90)
    (hrange : ∀ c ∈ s, inRange c)
    (hcase : (∀ c ∈ s, ¬isUpper c) ∨ (∀ c ∈ s, ¬isLower c))
    (h : (49 : UInt8) ∉ s) : Decode s = .error .sep := by
  rw [Decode_of_wellformed s hlen hrange hcase]
  apply decodeLower_nosep
  intro hm
  obtain ⟨x, hx, hx49⟩ := List.mem_map.mp hm
  exact h ((toLower_eq_49 x).mp hx49 ▸ hx)

theorem rejects_sep_position (pre post : Bytes)
    (hlen : 8 ≤ (pre ++ 49 :: post).length ∧ (pre ++ 49 :: post).length ≤ 90)
    (hrange : ∀ c ∈ pre ++ 49 :: post, inRange c)
    (hcase : (∀ c ∈ pre ++ 49 :: post, ¬isUpper c) ∨ (∀ c ∈ pre ++ 49 :: post, ¬isLower c))
    (hpost : (49 : UInt8) ∉ post) (h : pre = [] ∨ post.length < 6) :
    Decode (pre ++ 49 :: post) = .error .sep := by
  rw [Decode_split pre post hlen hrange hcase hpost, if_pos]
  rcases h with rfl | h
  · left; simp
  · right; exact h

theorem rejects_charset (pre post : Bytes)
    (hlen : 8 ≤ (pre ++ 49 :: post).length ∧ (pre ++ 49 :: post).length ≤ 90)
    (hrange : ∀ c ∈ pre ++ 49 :: post, inRange c)
    (hcase : (∀ c ∈ pre ++ 49 :: post, ¬isUpper c) ∨ (∀ c ∈ pre ++ 49 :: post, ¬isLower c))
    (hpost : (49 : UInt8) ∉ post) (hpre : pre ≠ []) (hplen : 6 ≤ post.length)
    (h : ∃ c ∈ post, toLower c ∉ charset) :
    Decode (pre ++ 49 :: post) = .error .charset := by
  have hpl : 1 ≤ pre.length := by
    cases pre with
    | nil => exact absurd rfl hpre
    | cons _ _ => simp
  rw [Decode_split pre post hlen hrange hcase hpost, if_neg (by omega)]
  have : toBytes (post.map toLower) = none := by
    apply toBytes_none
    obtain ⟨c, hc, hn⟩ := h
    exact ⟨toLower c, List.mem_map.mpr ⟨c, hc, rfl⟩, hn⟩
  rw [this]

theorem rejects_checksum (pre post decoded : Bytes)
    (hlen : 8 ≤ (pre ++ 49 :: post).length ∧ (pre ++ 49 :: post).length ≤ 90)
    (hrange : ∀ c ∈ pre ++ 49 :: post, inRange c)
    (hcase : (∀ c ∈ pre ++ 49 :: post, ¬isUpper c) ∨ (∀ c ∈ pre ++ 49 :: post, ¬isLower c))
    (hpost : (49 : UInt8) ∉ post) (hpre : pre ≠ []) (hplen : 6 ≤ post.length)
    (hb : toBytes (post.map toLower) = some decoded)
    (h : verifyChecksum (pre.map toLower) decoded = false) :
    Decode (pre ++ 49 :: post) = .error .checksum := by
  have hpl : 1 ≤ pre.length := by
    cases pre with
    | nil => exact absurd rfl hpre
    | cons _ _ => simp
  rw [Decode_split pre post hlen hrange hcase hpost, if_neg (by omega), hb]
  simp [h]


theorem Encode_some_iff (hrp data : Bytes) :
    (∃ s, Encode hrp data = some s) ↔ ∀ d ∈ data, d.toNat < 32 := by
  constructor
  · rintro ⟨s, hs⟩ d hd
    apply Classical.byContradiction
    intro hlt
    rw [Encode_none hrp data ⟨d, hd, by omega⟩] at hs
    cases hs
  · intro h
    exact ⟨_, Encode_eq hrp data h⟩

end Bch.Proofs.Bech32
