import Bch.Proofs.HDKey
/-
Keys reachable by derivation (C05): the derivations, the non-degeneracy condition on their `Child`
steps, and the invariants they maintain. Model: `Bch.Model.HDKey` (it has `NewMaster`,
`NewKeyFromString`, `Child`, `Neuter`; there is no `SetNet` in the model).
-/
namespace Bch.Proofs.HDKey
open Bch Bch.Model Bch.Model.HDKey
section Reach
open Bytes Bch.Spec.BIP32
variable {Pt : Type}

/-- **Derivations.** `Reachable X k` is the type of derivations of `k` by the exported API: start from
a `NewMaster` result (the version is `net.HDPrivateKeyID[:]`, 4 bytes) or from a key accepted by
`NewKeyFromString`, then apply `Child` (the index is a `uint32`) and `Neuter` any number of times, each
step succeeding. "`k` is reachable" is `Nonempty (Reachable X k)`; the derivation is kept as data so that
hypotheses can talk about its steps (`NoZeroChild`). -/
inductive Reachable (X : HDExt Pt) : XKey → Type where
  | master {seed v : Bytes} {k : XKey} (hv : v.length = 4) (h : NewMaster X seed v = .ok k) :
      Reachable X k
  | parsed {s : Bytes} {k : XKey} (h : NewKeyFromString X s = .ok k) : Reachable X k
  | child {k c : XKey} {i : Nat} (r : Reachable X k) (hi : i < 2 ^ 32) (h : Child X k i = .ok c) :
      Reachable X c
  | neuter {k nk : XKey} (r : Reachable X k) (h : Neuter X k = .ok nk) : Reachable X nk

/-- The step `Child k i` does not hit the case BIP32 declares invalid and the Go code does not test:
child scalar `(IL + k) mod n = 0` (private parent) / child point `IL·G + K = ∞` (public parent).
This is `NonDegenerate` of C04 expressed on the byte-level key (`noZeroStep_iff_nonDegenerate`). -/
def NoZeroStep (X : HDExt Pt) (k : XKey) (i : Nat) : Prop :=
  if k.isPrivate then (childIL X k i + toNatBE k.key) % X.n ≠ 0
  else addO X (X.mulG (childIL X k i)) (X.parse k.key) ≠ none

/-- no `Child` step of the derivation is degenerate -/
def NoZeroChild (X : HDExt Pt) : {k : XKey} → Reachable X k → Prop
  | _, .master _ _ => True
  | _, .parsed _ => True
  | _, .child (k := k) (i := i) r _ _ => NoZeroChild X r ∧ NoZeroStep X k i
  | _, .neuter r _ => NoZeroChild X r

variable {X : HDExt Pt}

theorem noZeroStep_priv {k : XKey} (hp : k.isPrivate = true) (i : Nat) :
    NoZeroStep X k i ↔ (childIL X k i + toNatBE k.key) % X.n ≠ 0 := by
  simp only [NoZeroStep, hp, if_true]

theorem noZeroStep_pub {k : XKey} (hp : k.isPrivate = false) (i : Nat) :
    NoZeroStep X k i ↔ addO X (X.mulG (childIL X k i)) (X.parse k.key) ≠ none := by
  simp only [NoZeroStep, hp, Bool.false_eq_true, if_false]

/-- `NoZeroStep` is C04's `NonDegenerate` at the BIP32-level key the parent denotes. -/
theorem noZeroStep_iff_nonDegenerate (L : GroupLaws X) {k : XKey} (hwf : WF X k) {s : SKey Pt}
    (habs : abs X k = some s) (i : Nat) (hi : k.isPrivate = true ∨ i < 2 ^ 31) :
    NoZeroStep X k i ↔ NonDegenerate X s i := by
  have hIL := childIL_eq_specIL L hwf habs i hi
  cases hp : k.isPrivate with
  | true =>
    obtain ⟨K, _, hs⟩ := abs_priv hp habs
    rw [noZeroStep_priv hp, nondeg_priv (kk := toNatBE k.key) (by rw [hs]), hIL]
  | false =>
    obtain ⟨K, hK, hs⟩ := abs_pub hp habs
    rw [noZeroStep_pub hp, nondeg_pub (by rw [hs]), hIL, hK, hs]

/-- what the parse theorems need: `C05_parse_string`'s hypotheses -/
structure Good (X : HDExt Pt) (k : XKey) : Prop where
  wf : WF X k
  red : Reduced X k
  nz : k.isPrivate = true → toNatBE k.key ≠ 0
  cn : k.childNum < 2 ^ 32

theorem newMaster_childNum {seed v : Bytes} {k : XKey} (h : NewMaster X seed v = .ok k) :
    k.childNum = 0 := by
  unfold NewMaster at h
  split at h
  · cases h
  · simp only [] at h
    split at h
    · cases h
    · cases h; rfl

theorem good_master (L : GroupLaws X) {seed v : Bytes} (hv : v.length = 4) {k : XKey}
    (h : NewMaster X seed v = .ok k) : Good X k := by
  obtain ⟨hwf, hred, hnz, _, _⟩ := wf_newMaster L hv h
  exact ⟨hwf, hred, fun _ => hnz, by rw [newMaster_childNum h]; decide⟩

theorem good_parsed (hc : ParseCanonical X) {s : Bytes} {k : XKey}
    (h : NewKeyFromString X s = .ok k) : Good X k := by
  obtain ⟨h1, h2, h3, h4⟩ := wf_newKeyFromString hc h
  exact ⟨h1, h2, h3, h4⟩

/-- a successful `Child` of a public key: the index is not hardened -/
theorem child_pub_index {k : XKey} (hp : k.isPrivate = false) {i : Nat} {c : XKey}
    (h : Child X k i = .ok c) : i < 2 ^ 31 := by
  apply Nat.lt_of_not_ge; intro hge
  have hd : k.depth ≠ 255 := by
    intro h255; rw [guard_depth k i h255] at h; cases h
  rw [guard_hard k i hd hp hge] at h; cases h

theorem good_child (L : GroupLaws X) {k : XKey} (g : Good X k) {i : Nat} (hi : i < 2 ^ 32) {c : XKey}
    (h : Child X k i = .ok c) (hnd : NoZeroStep X k i) : Good X c := by
  have hcn := (child_lens L g.wf h).2.2.2.2.2.1
  cases hp : k.isPrivate with
  | true =>
    obtain ⟨hwf', hred', hp', hk'⟩ := wf_child_priv L g.wf hp h
    have hlt : (childIL X k i + toNatBE k.key) % X.n < 256 ^ 32 := by
      rw [pow256_32]; exact Nat.lt_trans (Nat.mod_lt _ L.n_pos) L.n_lt
    refine ⟨hwf', hred', fun _ => ?_, by rw [hcn]; exact hi⟩
    rw [hk', toNatBE_ofNatBE _ _ hlt]
    exact (noZeroStep_priv hp i).1 hnd
  | false =>
    have hne := (noZeroStep_pub hp i).1 hnd
    cases hQ : addO X (X.mulG (childIL X k i)) (X.parse k.key) with
    | none => exact absurd hQ hne
    | some Q =>
      obtain ⟨hwf', hp', _⟩ := wf_child_pub L g.wf hp h hQ
      exact ⟨hwf', (fun hf => by rw [hp'] at hf; cases hf), (fun hf => by rw [hp'] at hf; cases hf),
        by rw [hcn]; exact hi⟩

theorem good_neuter (L : GroupLaws X) {k : XKey} (g : Good X k) {nk : XKey}
    (h : Neuter X k = .ok nk) : Good X nk := by
  have hnz : k.isPrivate = true → toNatBE k.key % X.n ≠ 0 := by
    intro hp; rw [Nat.mod_eq_of_lt (g.red hp)]; exact g.nz hp
  obtain ⟨hwf', hp', _, _, _, _, hcn⟩ := wf_neuter L g.wf hnz h
  exact ⟨hwf', (fun hf => by rw [hp'] at hf; cases hf), (fun hf => by rw [hp'] at hf; cases hf),
    by rw [hcn]; exact g.cn⟩

/-- **the invariant along non-degenerate derivations** -/
theorem reachable_good (L : GroupLaws X) (hc : ParseCanonical X) {k : XKey} (r : Reachable X k) :
    NoZeroChild X r → Good X k := by
  induction r with
  | master hv h => intro _; exact good_master L hv h
  | parsed h => intro _; exact good_parsed hc h
  | child r hi h ih => intro hnd; exact good_child L (ih hnd.1) hi h hnd.2
  | neuter r h ih => intro hnd; exact good_neuter L (ih hnd) h

/-! ### what holds of every reachable key, degenerate steps included -/

/-- field shapes that hold of *every* reachable key: everything `Good` says except that the private
scalar is non-zero / the 33 public bytes parse -/
structure Shape (X : HDExt Pt) (k : XKey) : Prop where
  priv_len : k.isPrivate = true → k.key.length = 32
  priv_red : k.isPrivate = true → toNatBE k.key < X.n
  pub_len : k.isPrivate = false → k.key.length = 33
  cc_len : k.chainCode.length = 32
  fp_len : k.parentFP.length = 4
  ver_len : k.version.length = 4
  depth_le : k.depth ≤ 255
  cn : k.childNum < 2 ^ 32

/-- the key material is usable: private scalar non-zero, public bytes parse -/
def Usable (X : HDExt Pt) (k : XKey) : Prop :=
  (k.isPrivate = true → toNatBE k.key ≠ 0) ∧ (k.isPrivate = false → X.parse k.key ≠ none)

theorem Good.shape {k : XKey} (g : Good X k) : Shape X k :=
  ⟨g.wf.priv_len, g.red, fun hp => (g.wf.pub_key hp).1, g.wf.cc_len, g.wf.fp_len, g.wf.ver_len,
    g.wf.depth_le, g.cn⟩

theorem Good.usable {k : XKey} (g : Good X k) : Usable X k :=
  ⟨g.nz, fun hp => by obtain ⟨_, P, hP, _⟩ := g.wf.pub_key hp; rw [hP]; simp⟩

theorem Shape.wf_of_priv {k : XKey} (s : Shape X k) (hp : k.isPrivate = true) : WF X k :=
  ⟨s.priv_len, (fun hf => by rw [hp] at hf; cases hf), s.cc_len, s.fp_len, s.ver_len, s.depth_le⟩

theorem Shape.wf_of_parse (hc : ParseCanonical X) {k : XKey} (s : Shape X k) (hp : k.isPrivate = false)
    {P : Pt} (hP : X.parse k.key = some P) : WF X k :=
  ⟨(fun hf => by rw [hp] at hf; cases hf), fun _ => ⟨s.pub_len hp, P, hP, hc _ _ hP⟩, s.cc_len, s.fp_len,
    s.ver_len, s.depth_le⟩

theorem good_of_shape_usable (hc : ParseCanonical X) {k : XKey} (s : Shape X k) (u : Usable X k) :
    Good X k := by
  cases hp : k.isPrivate with
  | true => exact ⟨s.wf_of_priv hp, s.priv_red, u.1, s.cn⟩
  | false =>
    cases hP : X.parse k.key with
    | none => exact absurd hP (u.2 hp)
    | some P =>
      exact ⟨s.wf_of_parse hc hp hP, (fun hf => by rw [hp] at hf; cases hf),
        (fun hf => by rw [hp] at hf; cases hf), s.cn⟩

/-- `Child` of a public key succeeds only if the key bytes parse (`ParsePubKey` error otherwise) -/
theorem child_pub_parse {k : XKey} (hp : k.isPrivate = false) {i : Nat} {c : XKey}
    (h : Child X k i = .ok c) : ∃ P, X.parse k.key = some P := by
  cases hP : X.parse k.key with
  | some P => exact ⟨P, rfl⟩
  | none =>
    exfalso
    unfold Child at h
    simp only [hp, hP, Bool.false_eq_true, if_false, Bool.not_false, true_and] at h
    split at h
    · cases h
    · split at h
      · cases h
      · split at h
        · cases h
        · cases hm : X.mulG (toNatBE (List.take 32 (X.hmac512 k.chainCode
            (copyInto 33 0 (pubKeyBytes X k) ++ ofNatBE 4 i)))) with
          | none => rw [hm] at h; cases h
          | some q => rw [hm] at h; cases h

theorem shape_child (L : GroupLaws X) (hc : ParseCanonical X) {k : XKey} (s : Shape X k) {i : Nat}
    (hi : i < 2 ^ 32) {c : XKey} (h : Child X k i = .ok c) : Shape X c := by
  cases hp : k.isPrivate with
  | true =>
    have hwf := s.wf_of_priv hp
    obtain ⟨hwf', hred', hp', _⟩ := wf_child_priv L hwf hp h
    have hcn := (child_lens L hwf h).2.2.2.2.2.1
    exact ⟨hwf'.priv_len, hred', (fun hf => by rw [hp'] at hf; cases hf), hwf'.cc_len, hwf'.fp_len,
      hwf'.ver_len, hwf'.depth_le, by rw [hcn]; exact hi⟩
  | false =>
    obtain ⟨P, hP⟩ := child_pub_parse hp h
    have hwf := s.wf_of_parse hc hp hP
    obtain ⟨h1, h2, h3, _, h5, h6, h7, _⟩ := child_lens L hwf h
    rw [hp] at h7
    have hkl : c.key.length = 33 := by
      rw [Child_pub L hp i hP] at h
      split at h
      · cases h
      · split at h
        · cases h
        · split at h
          · cases h
          · cases h; exact serOpt_len L _
    exact ⟨(fun hf => by rw [h7] at hf; cases hf), (fun hf => by rw [h7] at hf; cases hf), fun _ => hkl, h1, h2,
      by rw [h3]; exact s.ver_len, h5, by rw [h6]; exact hi⟩

theorem shape_neuter (L : GroupLaws X) {k : XKey} (s : Shape X k) {nk : XKey}
    (h : Neuter X k = .ok nk) : Shape X nk := by
  cases hp : k.isPrivate with
  | false =>
    unfold Neuter at h
    simp only [hp, Bool.not_false, if_true] at h
    cases h; exact s
  | true =>
    obtain ⟨v, hv, rfl⟩ := neuter_eq hp h
    refine ⟨(fun hf => by cases hf), (fun hf => by cases hf), fun _ => ?_, s.cc_len, s.fp_len,
      hdPairs_len hv, s.depth_le, s.cn⟩
    simp only [pubKeyBytes, hp, Bool.not_true, Bool.false_eq_true, if_false]
    exact serOpt_len L _

/-- **every reachable key has the field shapes**, whatever happened on the way -/
theorem reachable_shape (L : GroupLaws X) (hc : ParseCanonical X) {k : XKey} (r : Reachable X k) :
    Shape X k := by
  induction r with
  | master hv h => exact (good_master L hv h).shape
  | parsed h => exact (good_parsed hc h).shape
  | child r hi h ih => exact shape_child L hc ih hi h
  | neuter r h ih => exact shape_neuter L ih h

theorem reachable_good_iff (L : GroupLaws X) (hc : ParseCanonical X) {k : XKey} (r : Reachable X k) :
    Good X k ↔ Usable X k :=
  ⟨Good.usable, good_of_shape_usable hc (reachable_shape L hc r)⟩

/-- the string of a reachable key is always the Base58 of payload ‖ checksum (never "zeroed …") -/
theorem String_eq_of_shape {k : XKey} (s : Shape X k) :
    HDKey.String X k = Base58.Encode (payload k ++ (X.sha256d (payload k)).take 4) := by
  apply String_eq_of_len
  cases hp : k.isPrivate with
  | true => simpa using s.priv_len hp
  | false => simpa using s.pub_len hp

end Reach
end Bch.Proofs.HDKey

/-! ## a concrete derivation in the toy instance (non-vacuity) -/
namespace Bch.Proofs.HDKey.Toy
open Bch Bch.Model Bch.Model.HDKey Bch.Proofs.HDKey Bytes

/-- `NewMaster seed` : scalar 3 -/
def m0 : XKey := ⟨ofNatBE 32 3, List.replicate 32 7, 0, [0,0,0,0], 0, xprv, true⟩
/-- `m0.Child(2^31)` (hardened): `IL = 5`, scalar `(5 + 3) mod 7 = 1` -/
def c1 : XKey := ⟨ofNatBE 32 1, List.replicate 32 7, 1, [2,0,0,0], 2 ^ 31, xprv, true⟩
/-- `c1.Child(4)`: `IL = 1`, scalar 2 -/
def c2 : XKey := ⟨ofNatBE 32 2, List.replicate 32 7, 2, [2,0,0,0], 4, xprv, true⟩
/-- `c2.Neuter()`: point 2 -/
def n2 : XKey := ⟨serC 2, List.replicate 32 7, 2, [2,0,0,0], 4, xpub, false⟩
/-- `n2.Child(1)`: `IL = 2`, point 4 -/
def c3 : XKey := ⟨serC 4, List.replicate 32 7, 3, [2,0,0,0], 1, xpub, false⟩

theorem master_m0 : NewMaster X seed xprv = .ok m0 := by
  unfold NewMaster
  rw [if_neg (by decide)]
  simp only []
  rw [if_neg (by decide +kernel)]
  exact congrArg Except.ok (by decide +kernel)

theorem IL_m0_hard : childIL X m0 (2 ^ 31) = 5 := by decide +kernel
theorem IL_c1_4 : childIL X c1 4 = 1 := by decide +kernel
theorem IL_n2_1 : childIL X n2 1 = 2 := by decide +kernel
theorem IL_m0_8 : childIL X m0 8 = 4 := by decide +kernel

theorem child_m0_hard : Child X m0 (2 ^ 31) = .ok c1 := by
  rw [Child_priv laws rfl, if_neg (by decide), if_neg (by rw [IL_m0_hard]; decide)]
  exact congrArg Except.ok (by decide +kernel)

theorem child_c1_4 : Child X c1 4 = .ok c2 := by
  rw [Child_priv laws rfl, if_neg (by decide), if_neg (by rw [IL_c1_4]; decide)]
  exact congrArg Except.ok (by decide +kernel)

theorem neuter_c2 : Neuter X c2 = .ok n2 := by
  unfold Neuter
  rw [if_neg (by decide)]
  have : hdPairs.lookup c2.version = some xpub := by decide +kernel
  rw [this]
  exact congrArg Except.ok (by decide +kernel)

theorem child_n2_1 : Child X n2 1 = .ok c3 := by
  rw [Child_pub laws (P := 2) rfl 1 (by decide +kernel), if_neg (by decide), if_neg (by decide),
    if_neg (by rw [IL_n2_1]; decide)]
  exact congrArg Except.ok (by decide +kernel)

/-- the derivation `NewMaster(seed).Child(2^31).Child(4).Neuter().Child(1)` -/
def reach_c3 : Reachable X c3 :=
  .child (.neuter (.child (.child (.master (v := xprv) rfl master_m0) (by decide) child_m0_hard)
    (by decide) child_c1_4) neuter_c2) (by decide) child_n2_1

theorem noZero_c3 : NoZeroChild X reach_c3 := by
  refine ⟨⟨⟨trivial, ?_⟩, ?_⟩, ?_⟩
  · rw [noZeroStep_priv rfl, IL_m0_hard]; decide +kernel
  · rw [noZeroStep_priv rfl, IL_c1_4]; decide +kernel
  · rw [noZeroStep_pub rfl, IL_n2_1]; decide +kernel

/-- a degenerate derivation: `NewMaster(seed).Child(8)` has scalar `(4 + 3) mod 7 = 0` -/
def cZero' : XKey := ⟨ofNatBE 32 0, List.replicate 32 7, 1, [2,0,0,0], 8, xprv, true⟩

theorem child_m0_8 : Child X m0 8 = .ok cZero' := by
  rw [Child_priv laws rfl, if_neg (by decide), if_neg (by rw [IL_m0_8]; decide)]
  exact congrArg Except.ok (by decide +kernel)

def reach_cZero : Reachable X cZero' :=
  .child (.master (v := xprv) rfl master_m0) (by decide) child_m0_8

theorem zero_cZero : ¬ NoZeroChild X reach_cZero := by
  intro h
  exact (noZeroStep_priv rfl 8).1 h.2 (by rw [IL_m0_8]; decide +kernel)

end Bch.Proofs.HDKey.Toy
