import Bch.Model.GcsHeap
import Bch.Proofs.SliceHeap
import Bch.Proofs.GcsSerial
/-!
Ownership / frame lemmas for the heap-level model of `gcs.Filter` (`Bch/Model/GcsHeap.lean`): what
`fresh` allocates, which stores cannot be seen through a filter object, and the value refinement of the
constructors, accessors and queries to `Bch/Model/Gcs.lean`.
-/
namespace Bch.Proofs.GcsHeap
open Bch Bch.Model Bch.Model.SliceHeap Bch.Model.GcsHeap Bch.Proofs.SliceHeap

/-- results of the heap-level functions are compared by evaluation in the examples -/
instance instDecEqExceptH {ε α : Type} [DecidableEq ε] [DecidableEq α] : DecidableEq (Except ε α)
  | .ok a, .ok b => if e : a = b then isTrue (by rw [e]) else isFalse (by intro h; injection h; contradiction)
  | .error a, .error b => if e : a = b then isTrue (by rw [e]) else isFalse (by intro h; injection h; contradiction)
  | .ok _, .error _ => isFalse (by intro h; cases h)
  | .error _, .ok _ => isFalse (by intro h; cases h)

/-! ## `fresh` -/

theorem modify_append_new (h : Heap) (a : List UInt8) (fn : List UInt8 → List UInt8) :
    (h ++ [a]).modify h.length fn = h ++ [fn a] := by
  induction h with
  | nil => simp
  | cons x t ih => simp [ih]

theorem writeAt_replicate (xs : List UInt8) (sp : Nat) :
    writeAt (List.replicate (xs.length + sp) 0) 0 xs = xs ++ List.replicate sp 0 := by
  apply List.ext_getElem?
  intro i
  rw [getElem?_writeAt, List.getElem?_append]
  simp only [List.length_replicate, Nat.zero_le, true_and, Nat.zero_add, Nat.sub_zero]
  by_cases hi : i < xs.length
  · rw [if_pos ⟨hi, by omega⟩, if_pos hi]
  · rw [if_neg (by omega), if_neg hi, List.getElem?_replicate, List.getElem?_replicate]
    by_cases h2 : i < xs.length + sp
    · rw [if_pos h2, if_pos (by omega)]
    · rw [if_neg h2, if_neg (by omega)]

/-- `fresh` appends exactly one array, `xs` followed by the zeroed spare capacity, and returns the
slice `[0:len(xs)]` of it -/
theorem fresh_eq (h : Heap) (xs : List UInt8) (sp : Nat) :
    fresh h xs sp = (h ++ [xs ++ List.replicate sp 0], ⟨h.length, 0, xs.length, xs.length + sp⟩) := by
  simp only [fresh, make, copyTo, modify_append_new, List.take_length, writeAt_replicate]

theorem read_alloc (h : Heap) (xs : List UInt8) (sp : Nat) :
    read (h ++ [xs ++ List.replicate sp 0]) ⟨h.length, 0, xs.length, xs.length + sp⟩ = xs := by
  simp [SliceHeap.read, SliceHeap.arr]

theorem wf_alloc (h : Heap) (xs : List UInt8) (sp : Nat) :
    WF (h ++ [xs ++ List.replicate sp 0]) ⟨h.length, 0, xs.length, xs.length + sp⟩ := by
  simp [WF, SliceHeap.arr]

theorem fresh_pres (h : Heap) (xs : List UInt8) (sp : Nat) : Pres h (fresh h xs sp).1 := by
  rw [fresh_eq]; exact pres_alloc h _

theorem fresh_read (h : Heap) (xs : List UInt8) (sp : Nat) :
    read (fresh h xs sp).1 (fresh h xs sp).2 = xs := by
  rw [fresh_eq]; exact read_alloc h xs sp

theorem fresh_wf (h : Heap) (xs : List UInt8) (sp : Nat) : WF (fresh h xs sp).1 (fresh h xs sp).2 := by
  rw [fresh_eq]; exact wf_alloc h xs sp

theorem fresh_length (h : Heap) (xs : List UInt8) (sp : Nat) :
    (fresh h xs sp).1.length = h.length + 1 := by
  rw [fresh_eq]; simp

theorem fresh_slice (h : Heap) (xs : List UInt8) (sp : Nat) :
    (fresh h xs sp).2 = ⟨h.length, 0, xs.length, xs.length + sp⟩ := by
  rw [fresh_eq]

/-! ## which stores a slice / an object cannot see -/

theorem arr_modify_ne (h : Heap) (b c : Nat) (fn : List UInt8 → List UInt8) (hne : b ≠ c) :
    arr (h.modify b fn) c = arr h c := by
  simp [SliceHeap.arr, List.getD_eq_getElem?_getD, List.getElem?_modify_ne _ _ hne]

theorem read_len_zero (h : Heap) (s : Slice) (hl : s.len = 0) : read h s = [] := by
  simp [SliceHeap.read, hl]

theorem arr_stores (h : Heap) (c : Nat) (ws : List (Nat × (List UInt8 → List UInt8)))
    (hw : ∀ w ∈ ws, w.1 ≠ c) : arr (stores h ws) c = arr h c := by
  induction ws generalizing h with
  | nil => rfl
  | cons w ws ih =>
    show arr (stores (h.modify w.1 w.2) ws) c = arr h c
    rw [ih _ (fun w' hw' => hw w' (List.mem_cons_of_mem _ hw')),
      arr_modify_ne _ _ _ _ (hw w List.mem_cons_self)]

/-- stores to arrays other than the one behind the slice (or any stores, for an empty slice) are
invisible through the slice -/
theorem read_stores (h : Heap) (s : Slice) (ws : List (Nat × (List UInt8 → List UInt8)))
    (hw : s.len = 0 ∨ ∀ w ∈ ws, w.1 ≠ s.buf) : read (stores h ws) s = read h s := by
  rcases hw with hl | hw
  · rw [read_len_zero _ _ hl, read_len_zero _ _ hl]
  · simp only [SliceHeap.read, arr_stores h s.buf ws hw]

theorem abs_stores (h : Heap) (f : FilterObj) (ws : List (Nat × (List UInt8 → List UInt8)))
    (hw : f.filterData.len = 0 ∨ ∀ w ∈ ws, w.1 ≠ f.filterData.buf) :
    GcsHeap.abs (stores h ws) f = GcsHeap.abs h f := by
  simp only [GcsHeap.abs, read_stores h f.filterData ws hw]

/-- `abs` looks at one array only -/
theorem abs_footprint (h1 h2 : Heap) (f : FilterObj)
    (e : arr h2 f.filterData.buf = arr h1 f.filterData.buf) : GcsHeap.abs h2 f = GcsHeap.abs h1 f := by
  simp only [GcsHeap.abs, SliceHeap.read, e]

/-- a slice that was inside its array in `h0` and an empty-or-new-array condition -/
theorem wf_old_cases {h0 : Heap} {s : Slice} (w : WF h0 s) : s.len = 0 ∨ s.buf < h0.length := by
  rcases Nat.lt_or_ge s.buf h0.length with hlt | hge
  · exact Or.inr hlt
  · left
    have : SliceHeap.arr h0 s.buf = [] := by
      simp [SliceHeap.arr, List.getD_eq_getElem?_getD, List.getElem?_eq_none hge]
    have h2 := w.2; have h1 := w.1
    rw [this] at h2; simp at h2; omega

/-- an object whose slice was inside its array in `h0` is untouched by allocation-only steps
followed by any stores to arrays that did not exist in `h0` -/
theorem abs_old_stores {h0 h1 : Heap} (p : Pres h0 h1) (f : FilterObj) (w : WF h0 f.filterData)
    (ws : List (Nat × (List UInt8 → List UInt8))) (hw : ∀ w ∈ ws, h0.length ≤ w.1) :
    GcsHeap.abs (stores h1 ws) f = GcsHeap.abs h0 f := by
  have e1 : GcsHeap.abs h1 f = GcsHeap.abs h0 f := by
    simp only [GcsHeap.abs, p.read_wf w]
  rw [← e1]
  apply abs_stores
  rcases wf_old_cases w with hl | hb
  · exact Or.inl hl
  · exact Or.inr (fun w' hw' => by have := hw w' hw'; omega)

/-- an object whose slice has no capacity or lies in an array allocated after `h0` is untouched by
any stores to arrays that existed in `h0` -/
theorem abs_new_stores {h0 h1 : Heap} (f : FilterObj) (w : WF h1 f.filterData)
    (o : Owned h0 f.filterData)
    (ws : List (Nat × (List UInt8 → List UInt8))) (hw : ∀ w ∈ ws, w.1 < h0.length) :
    GcsHeap.abs (stores h1 ws) f = GcsHeap.abs h1 f := by
  apply abs_stores
  rcases o with o | o
  · exact Or.inl (by have := w.1; omega)
  · exact Or.inr (fun w' hw' => by have := hw w' hw'; omega)

theorem stores_single (h : Heap) (b : Nat) (fn : List UInt8 → List UInt8) :
    stores h [(b, fn)] = h.modify b fn := rfl

/-! ## constructors -/

theorem fromBytes_err (h : Heap) (n p : Nat) (m : UInt64) (d : Slice) (hp : p > 32) :
    fromBytes h n p m d = (h, .error .pTooBig) := by
  unfold fromBytes; rw [if_pos hp]

theorem fromBytes_ok (h : Heap) (n p : Nat) (m : UInt64) (d : Slice) (hp : ¬ p > 32) :
    fromBytes h n p m d = ((fresh h (read h d) 0).1,
      .ok ⟨n, p, UInt64.ofNat n * m, (fresh h (read h d) 0).2⟩) := by
  unfold fromBytes; rw [if_neg hp]

theorem abs_fresh (h : Heap) (n p : Nat) (M : UInt64) (xs : List UInt8) (sp : Nat) :
    GcsHeap.abs (fresh h xs sp).1 ⟨n, p, M, (fresh h xs sp).2⟩ = ⟨n, p, M, xs⟩ := by
  simp only [GcsHeap.abs, fresh_read]

theorem fresh_owned (h : Heap) (xs : List UInt8) (sp : Nat) : Owned h (fresh h xs sp).2 := by
  rw [fresh_slice]; exact Or.inr (Nat.le_refl _)

/-- `d[k:]` reads as the bytes of `d` without the first `k` -/
theorem read_sliceFrom (h : Heap) (d : Slice) (k : Nat) :
    read h (sliceFrom d k) = (read h d).drop k := by
  simp only [SliceHeap.read, sliceFrom, List.drop_take, List.drop_drop]

theorem readVarInt_rest {bs : Bytes} {n : Nat} {rest : Bytes}
    (hr : Gcs.readVarInt bs = some (n, rest)) : bs.drop (bs.length - rest.length) = rest := by
  obtain ⟨_, e⟩ := Proofs.Gcs.readVarInt_canonical bs n rest hr
  have hl : bs.length - rest.length = (Gcs.writeVarInt n).length := by
    rw [e, List.length_append]; omega
  rw [hl]
  conv => lhs; rw [e]
  exact List.drop_left

/-! ## `build` -/

theorem build_err (sip : Bytes → UInt64) (g : Nat → Nat) (h : Heap) (P : Nat) (M : UInt64)
    (data : List Slice) (e : Gcs.BuildErr)
    (hb : Gcs.BuildGCSFilter sip P M (data.map (read h)) = .error e) :
    build sip g h P M data = (h, .error e) := by
  unfold build; rw [hb]

theorem build_ok (sip : Bytes → UInt64) (g : Nat → Nat) (h : Heap) (P : Nat) (M : UInt64)
    (data : List Slice) (v : Gcs.Filter)
    (hb : Gcs.BuildGCSFilter sip P M (data.map (read h)) = .ok v) :
    build sip g h P M data = ((appendEach g h Slice.nil v.data).1,
      .ok ⟨v.n, v.p, v.modulusNP, (appendEach g h Slice.nil v.data).2⟩) := by
  unfold build; rw [hb]

theorem stream_spec (g : Nat → Nat) (h : Heap) (xs : List UInt8) :
    Step h (appendEach g h Slice.nil xs).1 (appendEach g h Slice.nil xs).2 ∧
      read (appendEach g h Slice.nil xs).1 (appendEach g h Slice.nil xs).2 = xs := by
  have := appendEach_step g (Step.nil (Pres.refl h)) xs
  simpa [read_nil] using this

/-! ## queries -/

theorem viaCopy_bytes (h : Heap) (f : FilterObj) :
    viaCopy (bytes h f).1 f (bytes h f).2 = GcsHeap.abs h f := by
  simp only [viaCopy, bytes, fresh_read]; rfl

theorem map_read_pres {h0 h : Heap} (p : Pres h0 h) (data : List Slice) (w : ∀ s ∈ data, WF h0 s) :
    data.map (read h) = data.map (read h0) :=
  List.map_congr_left (fun s hs => p.read_wf (w s hs))

end Bch.Proofs.GcsHeap
